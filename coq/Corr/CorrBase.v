(* Correspondence plumbing: generic "indices on which a boolean check fails" and tolerances. *)
From Coq Require Import List Bool Floats.PrimFloat.
From BLE Require Import Num.FloatFun.
Import ListNotations.
Open Scope float_scope.

Fixpoint bad_idx {A} (chk : A -> bool) (i : nat) (l : list A) : list nat :=
  match l with [] => [] | c :: r => if chk c then bad_idx chk (S i) r else i :: bad_idx chk (S i) r end.

(* default tolerance for transcendental entry points: rtol 2^-30 (~1e-9), atol 2^-40 (~1e-12) *)
Definition rt := 0x1p-30.
Definition at_ := 0x1p-40.
Definition cl (a b : float) := fclose rt at_ a b.
Definition cll (a b : list float) := fclose_list rt at_ a b.
Definition clm (a b : list (list float)) := fclose_mat rt at_ a b.
Fixpoint cl3 (a b : list (list (list float))) : bool :=
  match a, b with [], [] => true | x :: a', y :: b' => andb (clm x y) (cl3 a' b') | _, _ => false end.
(* looser: iterated training accumulates rounding differences *)
Definition clw (rtol atol : float) := fclose rtol atol.
Definition cllw (rtol atol : float) := fclose_list rtol atol.
Definition clmw (rtol atol : float) := fclose_mat rtol atol.
Fixpoint cl3w (rtol atol : float) (a b : list (list (list float))) : bool :=
  match a, b with [], [] => true | x :: a', y :: b' => andb (fclose_mat rtol atol x y) (cl3w rtol atol a' b') | _, _ => false end.
