From Coq Require Import List Bool Arith Floats.PrimFloat.
From BLE Require Import Num.FloatFun Num.InstF Lib.LinAlg Model.FA Model.LinScore Model.FAScore Corr.CorrBase.
Import ListNotations.
Open Scope float_scope.

Module SF := FAScore InstF.
Module FF := SF.F.
Module LA := LinAlg InstF.
Definition finv := LA.inv.

Definition mku (mu var : list (list float)) : FF.ubm := {| FF.u_mu := mu; FF.u_var := var |}.
Definition mkg (n : list float) (px : list (list float)) : FF.gstat := {| FF.g_n := n; FF.g_px := px |}.
Definition mkfa (U V : list (list float)) (D : list float) : FF.fa := {| FF.fU := U; FF.fV := V; FF.fD := D |}.

(* enrolment: ISV (rV = 0) returns z; JFA returns (y, z) *)
Record en_case := { en_u : FF.ubm; en_f : FF.fa; en_rU : nat; en_rV : nat; en_D : nat; en_iters : nat; en_x : list FF.gstat;
                    en_rtol : float; en_atol : float; en_y : list float; en_z : list float }.
Definition en_check (c : en_case) : bool :=
  if Nat.eqb (en_rV c) 0 then
    fclose_list (en_rtol c) (en_atol c) (FF.isv_enroll finv (en_iters c) (en_rU c) (en_D c) (en_u c) (en_f c) (en_x c)) (en_z c)
  else
    let '(y, z) := FF.jfa_enroll finv (en_iters c) (en_rU c) (en_rV c) (en_D c) (en_u c) (en_f c) (en_x c) in
    andb (fclose_list (en_rtol c) (en_atol c) y (en_y c)) (fclose_list (en_rtol c) (en_atol c) z (en_z c)).

(* estimate_x / estimate_ux on pooled probe statistics *)
Record ex_case := { ex_u : FF.ubm; ex_f : FF.fa; ex_rU : nat; ex_D : nat; ex_x : list FF.gstat;
                    ex_rtol : float; ex_atol : float; ex_out : list float; ex_ux : list float }.
Definition ex_check (c : ex_case) : bool :=
  andb (fclose_list (ex_rtol c) (ex_atol c) (FF.estimate_x finv (ex_rU c) (ex_D c) (ex_u c) (ex_f c) (ex_x c)) (ex_out c))
       (fclose_list (ex_rtol c) (ex_atol c) (FF.estimate_ux finv (ex_rU c) (ex_D c) (ex_u c) (ex_f c) (ex_x c)) (ex_ux c)).

(* score = linear_scoring(client mean, ubm, pooled probe, U x, normalised)[0][0] *)
Record sc_case := { sc_u : FF.ubm; sc_f : FF.fa; sc_rU : nat; sc_D : nat; sc_y : option (list float); sc_z : list float;
                    sc_x : list FF.gstat; sc_t : float; sc_rtol : float; sc_atol : float; sc_out : float }.
Definition sc_model (c : sc_case) : float :=
  SF.score finv 0x1p-52 (sc_rU c) (sc_D c) (sc_u c) (sc_f c) (sc_y c) (sc_z c) (sc_x c) (sc_t c).
Definition sc_check (c : sc_case) : bool := fclose (sc_rtol c) (sc_atol c) (sc_model c) (sc_out c).

(* training: ISV (rV = 0) and JFA; classes = statistics grouped by class in label order *)
Record ft_case := { ft_u : FF.ubm; ft_f : FF.fa; ft_rU : nat; ft_rV : nat; ft_D : nat; ft_iters : nat; ft_classes : list (list FF.gstat);
                    ft_rtol : float; ft_atol : float; ft_U : list (list float); ft_V : list (list float); ft_Dv : list float }.
Definition ft_check (c : ft_case) : bool :=
  if Nat.eqb (ft_rV c) 0 then
    let F := FF.isv_fit finv (ft_iters c) (ft_rU c) (ft_D c) (ft_u c) (ft_classes c) (ft_f c) in
    fclose_mat (ft_rtol c) (ft_atol c) (FF.fU F) (ft_U c)
  else
    let F := FF.jfa_fit finv (ft_iters c) (ft_rU c) (ft_rV c) (ft_D c) (ft_u c) (ft_classes c) (ft_f c) in
    andb (fclose_mat (ft_rtol c) (ft_atol c) (FF.fU F) (ft_U c))
    (andb (fclose_mat (ft_rtol c) (ft_atol c) (FF.fV F) (ft_V c))
          (fclose_list (ft_rtol c) (ft_atol c) (FF.fD F) (ft_Dv c))).
