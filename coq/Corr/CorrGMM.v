(* Float instance of the GMM model and the per-case checks used by the correspondence runs. *)
From Coq Require Import List Bool Arith Floats.PrimFloat.
From BLE Require Import Num.FloatFun Num.InstF Model.GMM Corr.CorrBase.
Import ListNotations.
Open Scope float_scope.

Module MF := GMM InstF.
Definition mkgmm (w : list float) (mu var : list (list float)) : MF.gmm := {| MF.ws := w; MF.mus := mu; MF.vars := var |}.

(* C01: log_weighted_likelihood (C x N) and log_likelihood (N) *)
Record ll_case := { lc_m : MF.gmm; lc_x : list (list float); lc_lwl : list (list float); lc_ll : list float }.
Definition ll_check (c : ll_case) : bool :=
  andb (cll (MF.log_likelihood (lc_m c) (lc_x c)) (lc_ll c))
       (clm (map (fun cp => map (MF.lwl cp) (lc_x c)) (MF.comps (lc_m c))) (lc_lwl c)).

(* C02: e_step statistics *)
Record st_lit := { l_t : nat; l_n : list float; l_px : list (list float); l_pxx : list (list float); l_ll : float }.
Definition stats_close (rtol atol : float) (s : MF.stats) (l : st_lit) : bool :=
  andb (Nat.eqb (MF.s_t s) (l_t l))
  (andb (fclose_list rtol atol (MF.s_n s) (l_n l))
  (andb (fclose_mat rtol atol (MF.s_px s) (l_px l))
  (andb (fclose_mat rtol atol (MF.s_pxx s) (l_pxx l))
        (fclose rtol atol (MF.s_ll s) (l_ll l))))).
Record es_case := { ec_m : MF.gmm; ec_nf : nat; ec_x : list (list float); ec_out : st_lit }.
(* sums of N products of size |x| and |x|^2: atol scaled by the magnitudes the case declares *)
Definition es_check (c : es_case) : bool := stats_close rt 0x1p-36 (MF.e_step (ec_nf c) (ec_m c) (ec_x c)) (ec_out c).

(* C02: statistics addition of two literal containers *)
Definition lit2stats (ng nf : nat) (l : st_lit) : MF.stats :=
  {| MF.s_ng := ng; MF.s_nf := nf; MF.s_t := l_t l; MF.s_n := l_n l; MF.s_px := l_px l; MF.s_pxx := l_pxx l; MF.s_ll := l_ll l |}.
Record add_case := { ac_shape_a : nat * nat; ac_a : st_lit; ac_shape_b : nat * nat; ac_b : st_lit; ac_out : option st_lit }.
Definition add_check (c : add_case) : bool :=
  match MF.stats_add (lit2stats (fst (ac_shape_a c)) (snd (ac_shape_a c)) (ac_a c))
                     (lit2stats (fst (ac_shape_b c)) (snd (ac_shape_b c)) (ac_b c)), ac_out c with
  | Some s, Some l => stats_close rt at_ s l
  | None, None => true
  | _, _ => false
  end.

(* C03 / C05 / C13: training.  The implementation must agree with the model on the final parameters,
   the number of iterations and the last reported average log-likelihood.  For MAP with variance
   updating the check accepts agreement with either the faithful variance blend (today's code, known
   finding D2) or the repaired one (Reynolds eq. 13), so that a later correct repair is not an alarm. *)
Record fit_case := {
  fc_w : list float; fc_mu : list (list float); fc_var : list (list float); fc_thr : list (list float);
  fc_sw : bool * bool * bool;                      (* update means, variances, weights *)
  fc_eps : float;
  fc_map : option (option float * float * MF.gmm);  (* None = ML; Some (relevance, alpha, prior) = MAP *)
  fc_cap : nat; fc_cthr : option float; fc_nf : nat;
  fc_chunks : list (list (list float));
  fc_rtol : float; fc_atol : float;
  fc_ow : list float; fc_omu : list (list float); fc_ovar : list (list float); fc_steps : nat; fc_last : float }.
Definition fit_run (sq : bool) (c : fit_case) :=
  let '(um, uv, uw) := fc_sw c in
  let sw := {| MF.upd_means := um; MF.upd_vars := uv; MF.upd_ws := uw |} in
  let tr := match fc_map c with None => MF.ML | Some (r, a, p) => MF.MAP sq r a p end in
  let mc := {| MF.g := mkgmm (fc_w c) (fc_mu c) (fc_var c); MF.thr := fc_thr c |} in
  MF.fit (fc_cap c) tr sw (fc_eps c) (fc_cthr c) (fc_nf c) (fc_chunks c) mc.
Definition fit_matches (sq : bool) (c : fit_case) : bool :=
  match fit_run sq c with
  | Some (mc, steps, hist) =>
      let gm := MF.g mc in
      andb (Nat.eqb steps (fc_steps c))
      (andb (fclose_list (fc_rtol c) (fc_atol c) (MF.ws gm) (fc_ow c))
      (andb (fclose_mat (fc_rtol c) (fc_atol c) (MF.mus gm) (fc_omu c))
      (andb (fclose_mat (fc_rtol c) (fc_atol c) (MF.vars gm) (fc_ovar c))
            (match hist with [] => true | h :: _ => fclose (fc_rtol c) (fc_atol c) h (fc_last c) end))))
  | None => false
  end.
Definition fit_check (c : fit_case) : bool := orb (fit_matches false c) (fit_matches true c).
(* which of the two definitions the implementation follows (only meaningful for MAP + variances) *)
Definition fit_follows_repaired (c : fit_case) : bool := andb (fit_matches true c) (negb (fit_matches false c)).
