From Coq Require Import List Bool Arith Floats.PrimFloat.
From BLE Require Import Num.FloatFun Num.InstF Lib.LinAlg Model.IVector Corr.CorrBase.
Import ListNotations.
Open Scope float_scope.
Module IF := IVector InstF.
Module LAi := LinAlg InstF.
Definition iinv := LAi.inv.
Definition mkiv (mu : list (list float)) (T : list (list (list float))) (sg : list (list float)) : IF.ivm :=
  {| IF.iv_mu := mu; IF.iv_T := T; IF.iv_sigma := sg |}.
Definition mkgs (n : list float) (px pxx : list (list float)) : IF.gstat := {| IF.g_n := n; IF.g_px := px; IF.g_pxx := pxx |}.
Record pj_case := { pj_m : IF.ivm; pj_t : nat; pj_s : IF.gstat; pj_rtol : float; pj_atol : float; pj_out : list float }.
Definition pj_check (c : pj_case) : bool := fclose_list (pj_rtol c) (pj_atol c) (IF.project iinv (pj_t c) (pj_m c) (pj_s c)) (pj_out c).
Record if_case := { if_m : IF.ivm; if_C : nat; if_D : nat; if_t : nat; if_upd : bool; if_floor : float; if_iters : nat;
                    if_parts : list (list IF.gstat); if_rtol : float; if_atol : float;
                    if_T : list (list (list float)); if_sigma : list (list float) }.
Definition if_check (c : if_case) : bool :=
  match IF.fit iinv (if_iters c) (if_C c) (if_D c) (if_t c) (if_upd c) (if_floor c) (if_parts c) (if_m c) with
  | Some m => andb (cl3w (if_rtol c) (if_atol c) (IF.iv_T m) (if_T c)) (fclose_mat (if_rtol c) (if_atol c) (IF.iv_sigma m) (if_sigma c))
  | None => false
  end.
