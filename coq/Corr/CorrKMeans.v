From Coq Require Import List Bool Arith Floats.PrimFloat.
From BLE Require Import Num.FloatFun Num.InstF Model.KMeans Corr.CorrBase.
Import ListNotations.
Open Scope float_scope.

Module KF := KMeans InstF.

Fixpoint nateq_list (a b : list nat) : bool :=
  match a, b with [], [] => true | x :: a', y :: b' => andb (Nat.eqb x y) (nateq_list a' b') | _, _ => false end.

(* C20: distances (C x N) and predicted labels; tolerances are per case (large offsets) *)
Record kd_case := { kd_c : list (list float); kd_x : list (list float); kd_rtol : float; kd_atol : float;
                    kd_d : list (list float); kd_lab : list nat }.
Definition kd_check (c : kd_case) : bool :=
  andb (fclose_mat (kd_rtol c) (kd_atol c) (KF.distances (kd_c c) (kd_x c)) (kd_d c))
       (nateq_list (KF.predict (kd_c c) (kd_x c)) (kd_lab c)).

(* C06 / C04: fit from explicit initial centroids *)
Record kf_case := { kf_c : list (list float); kf_nf : nat; kf_chunks : list (list (list float)); kf_cap : nat; kf_cthr : option float;
                    kf_rtol : float; kf_atol : float;
                    kf_oc : list (list float); kf_steps : nat; kf_crit : float }.
Definition kf_check (c : kf_case) : bool :=
  match KF.fit (kf_cap c) (kf_cthr c) (kf_nf c) (kf_chunks c) (kf_c c) with
  | Some (cents, steps, hist) =>
      andb (Nat.eqb steps (kf_steps c))
      (andb (fclose_mat (kf_rtol c) (kf_atol c) cents (kf_oc c))
            (match hist with [] => true | h :: _ => fclose (kf_rtol c) (kf_atol c) h (kf_crit c) end))
  | None => false
  end.

(* C20: variances and weights per cluster *)
Record kv_case := { kv_c : list (list float); kv_nf : nat; kv_chunks : list (list (list float)); kv_rtol : float; kv_atol : float;
                    kv_var : list (list float); kv_w : list float }.
Definition kv_check (c : kv_case) : bool :=
  let '(v, w) := KF.var_weights (kv_nf c) (kv_c c) (kv_chunks c) in
  andb (fclose_mat (kv_rtol c) (kv_atol c) v (kv_var c)) (fclose_list (kv_rtol c) (kv_atol c) w (kv_w c)).
