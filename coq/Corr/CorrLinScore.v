From Coq Require Import List Bool Arith Floats.PrimFloat.
From BLE Require Import Num.FloatFun Num.InstF Model.LinScore Corr.CorrBase.
Import ListNotations.
Open Scope float_scope.
Module LF := LinScore InstF.
Record ls_case := { ls_models : list (list (list float)); ls_umu : list (list float); ls_uvar : list (list float);
                    ls_stats : list LF.tstat; ls_off : LF.offsets; ls_norm : bool; ls_rtol : float; ls_atol : float;
                    ls_out : list (list float) }.
Definition mkts (n : list float) (px : list (list float)) (t : float) : LF.tstat := {| LF.ts_n := n; LF.ts_px := px; LF.ts_t := t |}.
Definition ls_check (c : ls_case) : bool :=
  fclose_mat (ls_rtol c) (ls_atol c)
    (LF.linear_scoring 0x1p-52 (ls_norm c) (ls_models c) (ls_umu c) (ls_uvar c) (ls_stats c) (ls_off c)) (ls_out c).
