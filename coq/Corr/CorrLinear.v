From Coq Require Import List Bool Arith Floats.PrimFloat.
From BLE Require Import Num.FloatFun Num.InstF Lib.LinAlg Model.Linear Corr.CorrBase.
Import ListNotations.
Open Scope float_scope.
Module NF := Linear InstF.
Module LAl := LinAlg InstF.
Module CHl := Chol InstF.
Record wh_case := { wh_D : nat; wh_x : list (list float); wh_rtol : float; wh_atol : float; wh_mu : list float; wh_w : list (list float) }.
Definition wh_check (c : wh_case) : bool :=
  let '(mu, W) := NF.whiten_fit LAl.inv CHl.cholesky (wh_D c) (wh_x c) in
  andb (fclose_list (wh_rtol c) (wh_atol c) mu (wh_mu c)) (fclose_mat (wh_rtol c) (wh_atol c) W (wh_w c)).
Record wc_case := { wc_D : nat; wc_order : list nat; wc_y : list nat; wc_x : list (list float); wc_rtol : float; wc_atol : float; wc_w : list (list float) }.
Definition wc_check (c : wc_case) : bool :=
  fclose_mat (wc_rtol c) (wc_atol c) (NF.wccn_fit LAl.inv CHl.cholesky (wc_D c) (NF.group (wc_order c) (wc_y c) (wc_x c))) (wc_w c).
