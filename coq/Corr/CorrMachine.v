From Coq Require Import List Bool Arith Floats.PrimFloat.
From BLE Require Import Num.FloatFun Num.InstF Model.GMM Model.Machine Corr.CorrBase.
Import ListNotations.
Open Scope float_scope.
Module OF := Machine InstF.
(* observation after every operation: visible weights, means, variances and the log-likelihood of the probe points *)
Record obs := { ob_w : list float; ob_mu : list (list float); ob_var : list (list float); ob_ll : list float }.
Record hist_case := { hc_w : list float; hc_mu : list (list float); hc_var : list (list float); hc_thr : OF.thr_t;
                      hc_ops : list OF.op; hc_probe : list (list float); hc_rtol : float; hc_atol : float; hc_obs : list obs }.
Definition obs_ok (c : hist_case) (m : OF.mach) (o : obs) : bool :=
  andb (fclose_list (hc_rtol c) (hc_atol c) (OF.o_w m) (ob_w o))
  (andb (fclose_mat (hc_rtol c) (hc_atol c) (OF.o_mu m) (ob_mu o))
  (andb (fclose_mat (hc_rtol c) (hc_atol c) (OF.o_var m) (ob_var o))
        (fclose_list (hc_rtol c) (hc_atol c) (map (OF.ll_cached m) (hc_probe c)) (ob_ll o)))).
Fixpoint hist_go (c : hist_case) (m : OF.mach) (ops : list OF.op) (os : list obs) : bool :=
  match ops, os with
  | [], [] => true
  | o :: ops', b :: os' => let m' := OF.step m o in andb (obs_ok c m' b) (hist_go c m' ops' os')
  | _, _ => false
  end.
Definition hist_check (c : hist_case) : bool :=
  hist_go c (OF.fresh (hc_w c) (hc_mu c) (hc_var c) (hc_thr c)) (hc_ops c) (hc_obs c).
Definition mksw (a b c : bool) : OF.G.switches := {| OF.G.upd_means := a; OF.G.upd_vars := b; OF.G.upd_ws := c |}.
