(* Executable dense linear algebra over a FIELD: Gauss-Jordan inverse with partial pivoting and
   (over TRANSC, for sqrt) the Cholesky-Banachiewicz factorisation.  These play the role of the
   external numerics (np.linalg.inv / solve, scipy.linalg.inv / cholesky) in the executable float
   instance; the theorems never unfold them - they take the inverse / factor as a function with its
   contract as an explicit hypothesis. *)
From Coq Require Import List Arith Bool.
From BLE Require Import Num.Scalar Lib.Vec.
Import ListNotations.

Module LinAlg (S : FIELD).
  Module V := Vec S.
  Import S V.

  Definition mapi {A B} (f : nat -> A -> B) (l : list A) : list B := map (fun p => f (fst p) (snd p)) (combine (seq 0 (length l)) l).
  Definition swap_rows (i j : nat) (M : list (list T)) : list (list T) :=
    mapi (fun k r => if Nat.eqb k i then nth j M [] else if Nat.eqb k j then nth i M [] else r) M.
  (* index >= k of the row with the largest |M[.,k]| *)
  Definition pivot_index (k : nat) (M : list (list T)) : nat :=
    fst (fold_left (fun (best : nat * T) (i : nat) =>
                      let a := fabs (nth k (nth i M []) zero) in
                      if ltb (snd best) a then (i, a) else best)
                   (seq (S k) (length M - S k)) (k, fabs (nth k (nth k M []) zero))).
  Definition gj_step (M : list (list T)) (k : nat) : list (list T) :=
    let M1 := swap_rows k (pivot_index k M) M in
    let rk := nth k M1 [] in
    let pv := nth k rk zero in
    let rk' := map (fun a => div a pv) rk in
    mapi (fun i row => if Nat.eqb i k then rk' else
                         let f := nth k row zero in map2 (fun a b => sub a (mul f b)) row rk') M1.
  Definition inv (A : list (list T)) : list (list T) :=
    let n := length A in
    let M := map2 (fun r e => r ++ e) A (eye n) in
    map (fun r => skipn n r) (fold_left gj_step (seq 0 n) M).
  Definition solve (A : list (list T)) (b : list T) : list T := matvec (inv A) b.
End LinAlg.

Module Chol (S : TRANSC).
  Module V := Vec S.
  Import S V.
  (* lower-triangular L with L L^T = A, row by row *)
  Definition chol_row (A_i : list T) (i : nat) (Ls : list (list T)) : list T :=
    (* Ls = rows 0..i-1 already computed (each padded to full width with zeros is not needed: use nth) *)
    let row :=
      fold_left (fun (acc : list T) (j : nat) =>
                   let s := vsum (map2 mul acc (firstn j (nth j Ls []))) in
                   acc ++ [div (sub (nth j A_i zero) s) (nth j (nth j Ls []) one)])
                (seq 0 i) [] in
    let s := vsum (map (fun a => mul a a) row) in
    row ++ [sqrt (sub (nth i A_i zero) s)].
  Definition cholesky (A : list (list T)) : list (list T) :=
    let n := length A in
    let Ls := fold_left (fun Ls i => Ls ++ [chol_row (nth i A []) i Ls]) (seq 0 n) [] in
    map (fun r => r ++ repeat zero (n - length r)) Ls.
End Chol.
