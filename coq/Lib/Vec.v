(* Vectors and matrices as lists over an abstract FIELD.  Row-major matrices: list of rows.
   Binary operations truncate to the shorter operand (like `combine`); every theorem that uses
   them carries explicit length hypotheses, and the executable instances are only ever run on
   shape-checked inputs (the harness checks shapes before a case is written). *)
From Coq Require Import List Arith.
From BLE Require Import Num.Scalar.
Import ListNotations.

Module Vec (S : FIELD).
  Import S.

  Fixpoint vsum (l : list T) : T := match l with [] => zero | x :: r => add x (vsum r) end.
  Fixpoint map2 {A B C} (f : A -> B -> C) (a : list A) (b : list B) : list C :=
    match a, b with x :: a', y :: b' => f x y :: map2 f a' b' | _, _ => [] end.
  Fixpoint map3 {A B C D} (f : A -> B -> C -> D) (a : list A) (b : list B) (c : list C) : list D :=
    match a, b, c with x :: a', y :: b', z :: c' => f x y z :: map3 f a' b' c' | _, _, _ => [] end.
  Definition vadd := map2 add.
  Definition vsub := map2 sub.
  Definition vmul := map2 mul.
  Definition vdiv := map2 div.
  Definition vscale (k : T) (v : list T) := map (mul k) v.
  Definition vzero (n : nat) : list T := repeat zero n.
  Definition dot (a b : list T) : T := vsum (vmul a b).
  (* sum of a list of vectors of dimension d *)
  Fixpoint vsumv (d : nat) (l : list (list T)) : list T :=
    match l with [] => vzero d | v :: r => vadd v (vsumv d r) end.
  Definition madd (a b : list (list T)) := map2 vadd a b.
  Definition mzero (r c : nat) : list (list T) := repeat (vzero c) r.
  Definition fmax (a b : T) : T := if leb b a then a else b.      (* np.maximum(a, b) on non-NaN *)
  Definition fmin (a b : T) : T := if leb a b then a else b.
  Definition fabs (a : T) : T := if ltb a zero then opp a else a.
  Definition sqr (a : T) : T := mul a a.
  (* matrix-vector, vector-matrix and matrix-matrix products; matrices are lists of rows *)
  Definition matvec (m : list (list T)) (v : list T) : list T := map (fun r => dot r v) m.
  Fixpoint transpose (c : nat) (m : list (list T)) : list (list T) :=
    match c with O => [] | S c' =>
      map (fun r => hd zero r) m :: transpose c' (map (fun r => tl r) m) end.
  Definition matmul (c : nat) (a b : list (list T)) : list (list T) :=   (* c = number of columns of b *)
    let bt := transpose c b in map (fun r => map (fun col => dot r col) bt) a.
  Definition outer (a b : list T) : list (list T) := map (fun x => map (fun y => mul x y) b) a.
  Definition mscale (k : T) (m : list (list T)) := map (vscale k) m.
  Definition eye (n : nat) : list (list T) :=
    map (fun i => map (fun j => if Nat.eqb i j then one else zero) (seq 0 n)) (seq 0 n).
  (* first index of the minimum (np.argmin) *)
  Fixpoint argmin_from (best : T) (bi i : nat) (l : list T) : nat :=
    match l with [] => bi | x :: r => if ltb x best then argmin_from x i (S i) r else argmin_from best bi (S i) r end.
  Definition argmin (l : list T) : nat := match l with [] => O | x :: r => argmin_from x 0 1 r end.
  Fixpoint vmin_from (best : T) (l : list T) : T :=
    match l with [] => best | x :: r => if ltb x best then vmin_from x r else vmin_from best r end.
  Definition vmin (l : list T) : T := match l with [] => zero | x :: r => vmin_from x r end.
End Vec.
