(* Model of src/bob/learn/em/factor_analysis.py (FIELD + a matrix-inverse oracle):
   supervector algebra of ISV / JFA - latent-factor updates, enrolment, channel-offset estimation,
   scoring inputs, and the E/M steps of the three training phases.
   Supervectors are flat lists of length C*D; U and V are lists of C*D rows (of length r_U / r_V);
   D is a flat vector.  Statistics carry n (C) and sum_px (C x D). *)
From Coq Require Import List Arith Bool.
From BLE Require Import Num.Scalar Lib.Vec.
Import ListNotations.

Module FA (S : FIELD).
  Module V := Vec S.
  Import S V.

  Section WithInv.
  Variable inv : list (list T) -> list (list T).      (* np.linalg.inv: contract stated where used *)

  Record ubm := { u_mu : list (list T); u_var : list (list T) }.
  Record gstat := { g_n : list T; g_px : list (list T) }.
  Record fa := { fU : list (list T); fV : list (list T); fD : list T }.

  Definition flat (m : list (list T)) : list T := concat m.
  (* np.repeat(n, D) *)
  Definition rep (D : nat) (n : list T) : list T := concat (map (fun a => repeat a D) n).
  Fixpoint chunk {A} (D : nat) (C : nat) (l : list A) : list (list A) :=
    match C with O => [] | S C' => firstn D l :: chunk D C' (skipn D l) end.
  Definition msum (r c : nat) (ms : list (list (list T))) : list (list T) := fold_right madd (mzero r c) ms.

  (* _compute_uprod / _compute_vprod: per component (W_c^T / sigma_c) @ W_c   (r x r) *)
  Definition wprod1 (r : nat) (Wc : list (list T)) (sig : list T) : list (list T) :=
    map (fun a => map (fun b => vsum (map2 (fun row s => mul (div (nth a row zero) s) (nth b row zero)) Wc sig)) (seq 0 r)) (seq 0 r).
  Definition wprod (r D : nat) (u : ubm) (W : list (list T)) : list (list (list T)) :=
    map2 (fun Wc sig => wprod1 r Wc sig) (chunk D (length (u_var u)) W) (u_var u).
  (* (I + sum_c n_c Prod_c)^-1 *)
  Definition id_plus_prod_inv (r : nat) (prods : list (list (list T))) (n : list T) : list (list T) :=
    inv (madd (eye r) (msum r r (map2 (fun p nc => mscale nc p) prods n))).
  (* (W^T / sigma) @ v : r-vector *)
  Definition wt_invsig (r : nat) (W : list (list T)) (sig v : list T) : list T :=
    map (fun a => vsum (map3 (fun row s f => mul (div (nth a row zero) s) f) W sig v)) (seq 0 r).
  (* row-vector times matrix *)
  Definition vecmat (r : nat) (v : list T) (M : list (list T)) : list T :=
    map (fun b => vsum (map2 (fun va row => mul va (nth b row zero)) v M)) (seq 0 r).
  Definition omatvec (W : list (list T)) (y : option (list T)) (len : nat) : list T :=
    match y with Some yy => matvec W yy | None => vzero len end.

  Definition msuper (u : ubm) := flat (u_mu u).
  Definition vsuper (u : ubm) := flat (u_var u).

  (* _compute_fn_x_ih: N_h (o_h - m - D z - V y) for one session *)
  Definition fn_x (D : nat) (u : ubm) (F : fa) (s : gstat) (z y : option (list T)) : list T :=
    let nic := rep D (g_n s) in
    let base := match z with None => msuper u | Some zz => vadd (msuper u) (vmul (fD F) zz) end in
    let t1 := vsub (flat (g_px s)) (vmul nic base) in
    match y with None => t1 | Some yy => vsub t1 (vmul nic (matvec (fV F) yy)) end.
  (* _compute_latent_x_per_class: E[x] for every session of one class *)
  Definition latent_x_class (rU D : nat) (u : ubm) (F : fa) (uprod : list (list (list T))) (Xi : list gstat)
             (z y : option (list T)) : list (list T) :=
    map (fun s => matvec (id_plus_prod_inv rU uprod (g_n s)) (wt_invsig rU (fU F) (vsuper u) (fn_x D u F s z y))) Xi.

  Definition sum_n (C : nat) (Xi : list gstat) : list T := fold_right (fun s acc => vadd (g_n s) acc) (vzero C) Xi.
  Definition sum_f (C D : nat) (Xi : list gstat) : list (list T) := fold_right (fun s acc => madd (g_px s) acc) (mzero C D) Xi.
  (* sum_h N_h * (U x_h) *)
  Definition sess_ux (D : nat) (F : fa) (Xi : list gstat) (xs : list (list T)) (len : nat) : list T :=
    fold_right (fun sx acc => vadd (vmul (rep D (g_n (fst sx))) (matvec (fU F) (snd sx))) acc) (vzero len) (combine Xi xs).

  (* _compute_fn_z_i and update_z for one class *)
  Definition fn_z (D : nat) (u : ubm) (F : fa) (Xi : list gstat) (xs : list (list T)) (y : option (list T))
             (nacc : list T) (facc : list (list T)) : list T :=
    let len := length (msuper u) in
    vsub (vsub (flat facc) (vmul (rep D nacc) (vadd (msuper u) (omatvec (fV F) y len)))) (sess_ux D F Xi xs len).
  Definition id_plus_d_inv (D : nat) (u : ubm) (F : fa) (nacc : list T) : list T :=
    map (fun a => div one a) (vadd (map (fun _ => one) (fD F)) (vmul (vmul (vdiv (fD F) (vsuper u)) (fD F)) (rep D nacc))).
  Definition update_z_class (D : nat) (u : ubm) (F : fa) (Xi : list gstat) (xs : list (list T)) (y : option (list T))
             (nacc : list T) (facc : list (list T)) : list T :=
    vmul (vmul (id_plus_d_inv D u F nacc) (vdiv (fD F) (vsuper u))) (fn_z D u F Xi xs y nacc facc).

  (* _compute_fn_y_i (with the sign of the D z term as the model mean m + V y + U x + D z requires) and update_y *)
  Definition fn_y (D : nat) (u : ubm) (F : fa) (Xi : list gstat) (xs : list (list T)) (z : list T)
             (nacc : list T) (facc : list (list T)) : list T :=
    let len := length (msuper u) in
    vsub (vsub (flat facc) (vmul (rep D nacc) (vadd (msuper u) (vmul (fD F) z)))) (sess_ux D F Xi xs len).
  Definition update_y_class (rV D : nat) (u : ubm) (F : fa) (vprod : list (list (list T))) (Xi : list gstat)
             (xs : list (list T)) (z : list T) (nacc : list T) (facc : list (list T)) : list T :=
    vecmat rV (wt_invsig rV (fV F) (vsuper u) (fn_y D u F Xi xs z nacc facc)) (id_plus_prod_inv rV vprod nacc).

  (* ---------------------------------------------------------------- enrolment *)
  Fixpoint isv_enroll_loop (k : nat) (rU D : nat) (u : ubm) (F : fa) (uprod : list (list (list T))) (X : list gstat)
           (nacc : list T) (facc : list (list T)) (z : list T) : list T :=
    match k with
    | O => z
    | S k' =>
        let xs := latent_x_class rU D u F uprod X (Some z) None in
        isv_enroll_loop k' rU D u F uprod X nacc facc (update_z_class D u F X xs None nacc facc)
    end.
  Definition isv_enroll (iters rU D : nat) (u : ubm) (F : fa) (X : list gstat) : list T :=
    let C := length (u_mu u) in
    isv_enroll_loop iters rU D u F (wprod rU D u (fU F)) X (sum_n C X) (sum_f C D X) (vzero (C * D)).

  Fixpoint jfa_enroll_loop (k : nat) (rU rV D : nat) (u : ubm) (F : fa) (uprod vprod : list (list (list T)))
           (X : list gstat) (nacc : list T) (facc : list (list T)) (xs : list (list T)) (y z : list T)
    : list (list T) * list T * list T :=
    match k with
    | O => (xs, y, z)
    | S k' =>
        let y' := update_y_class rV D u F vprod X xs z nacc facc in
        let xs' := latent_x_class rU D u F uprod X (Some z) (Some y') in
        let z' := update_z_class D u F X xs' (Some y') nacc facc in
        jfa_enroll_loop k' rU rV D u F uprod vprod X nacc facc xs' y' z'
    end.
  Definition jfa_enroll (iters rU rV D : nat) (u : ubm) (F : fa) (X : list gstat) : list T * list T :=
    let C := length (u_mu u) in
    let '(_, y, z) := jfa_enroll_loop iters rU rV D u F (wprod rU D u (fU F)) (wprod rV D u (fV F)) X
                                       (sum_n C X) (sum_f C D X) (map (fun _ => vzero rU) X) (vzero rV) (vzero (C * D)) in
    (y, z).

  (* ---------------------------------------------------------------- scoring inputs (C11) *)
  (* estimate_x: channel factor posterior mean from the POOLED probe statistics *)
  Definition estimate_x (rU D : nat) (u : ubm) (F : fa) (X : list gstat) : list T :=
    let C := length (u_mu u) in
    let n := sum_n C X in
    let fnx := vsub (flat (sum_f C D X)) (vmul (rep D n) (msuper u)) in
    matvec (id_plus_prod_inv rU (wprod rU D u (fU F)) n) (wt_invsig rU (fU F) (vsuper u) fnx).
  Definition estimate_ux (rU D : nat) (u : ubm) (F : fa) (X : list gstat) : list T := matvec (fU F) (estimate_x rU D u F X).
  (* client mean supervector: m + D z (ISV), m + V y + D z (JFA) *)
  Definition client_mean (u : ubm) (F : fa) (y : option (list T)) (z : list T) : list T :=
    vadd (omatvec (fV F) y (length (msuper u))) (vadd (vmul (fD F) z) (msuper u)).

  (* ---------------------------------------------------------------- training: accumulators *)
  (* classes: list of (statistics of the class) *)
  Definition outer_acc (len r : nat) (pairs : list (list T * list T)) : list (list T) :=
    fold_right (fun p acc => madd (outer (fst p) (snd p)) acc) (mzero len r) pairs.

  (* V phase: e_step_v = update_y with x = 0, z = 0, then accumulators; m_step_v; *)
  Definition estep_v_class (rU rV D : nat) (u : ubm) (F : fa) (vprod : list (list (list T))) (Xi : list gstat)
    : list T * list (list T) * list T (* y_i, (I + ...)^-1 + y y^T, fn_y *) :=
    let C := length (u_mu u) in
    let nacc := sum_n C Xi in let facc := sum_f C D Xi in
    let xs := map (fun _ => vzero rU) Xi in let z := vzero (C * D) in
    let y := update_y_class rV D u F vprod Xi xs z nacc facc in
    (y, madd (id_plus_prod_inv rV vprod nacc) (outer y y), fn_y D u F Xi xs z nacc facc).
  Definition acc_v (rU rV D : nat) (u : ubm) (F : fa) (classes : list (list gstat)) : list (list (list T)) * list (list T) :=
    let C := length (u_mu u) in
    let vprod := wprod rV D u (fV F) in
    let per := map (fun Xi => (estep_v_class rU rV D u F vprod Xi, sum_n C Xi)) classes in
    (map (fun c => msum rV rV (map (fun p => mscale (nth c (snd p) zero) (snd (fst (fst p)))) per)) (seq 0 C),
     outer_acc (C * D) rV (map (fun p => (snd (fst p), fst (fst (fst p)))) per)).
  (* W_c = A2_c @ inv(A1_c) *)
  Definition mstep_w (r D : nat) (C : nat) (A1 : list (list (list T))) (A2 : list (list T)) : list (list T) :=
    concat (map2 (fun a2c a1c => matmul r a2c (inv a1c)) (chunk D C A2) A1).
  Definition latent_y_all (rU rV D : nat) (u : ubm) (F : fa) (classes : list (list gstat)) : list (list T) :=
    let vprod := wprod rV D u (fV F) in
    map (fun Xi => fst (fst (estep_v_class rU rV D u F vprod Xi))) classes.

  (* U phase: x from y (z = 0), accumulators over sessions *)
  Definition acc_u (rU D : nat) (u : ubm) (F : fa) (classes : list (list gstat)) (ys : list (option (list T)))
             (zs : list (option (list T))) (zs_fn : list (option (list T)))
    : list (list (list T)) * list (list T) :=
    let C := length (u_mu u) in
    let uprod := wprod rU D u (fU F) in
    let per := concat (map3 (fun Xi y zz =>
                 let xs := latent_x_class rU D u F uprod Xi (fst zz) y in
                 map2 (fun s x => (madd (id_plus_prod_inv rU uprod (g_n s)) (outer x x), g_n s,
                                   fn_x D u F s (snd zz) y, x)) Xi xs)
               classes ys (combine zs zs_fn)) in
    (map (fun c => msum rU rU (map (fun q => mscale (nth c (snd (fst (fst q))) zero) (fst (fst (fst q)))) per)) (seq 0 C),
     outer_acc (C * D) rU (map (fun q => (snd (fst q), snd q)) per)).

  (* D phase *)
  Definition acc_d (rU D : nat) (u : ubm) (F : fa) (classes : list (list gstat)) (xss : list (list (list T)))
             (ys : list (option (list T))) : list T * list T :=
    let C := length (u_mu u) in
    let per := map3 (fun Xi xs y =>
                 let nacc := sum_n C Xi in let facc := sum_f C D Xi in
                 let z := update_z_class D u F Xi xs y nacc facc in
                 (vmul (vadd (id_plus_d_inv D u F nacc) (vmul z z)) (rep D nacc),
                  vmul (fn_z D u F Xi xs y nacc facc) z)) classes xss ys in
    (fold_right (fun p acc => vadd (fst p) acc) (vzero (C * D)) per,
     fold_right (fun p acc => vadd (snd p) acc) (vzero (C * D)) per).

  (* one EM iteration of each phase *)
  Definition set_U (F : fa) W := {| fU := W; fV := fV F; fD := fD F |}.
  Definition set_V (F : fa) W := {| fU := fU F; fV := W; fD := fD F |}.
  Definition set_D (F : fa) d := {| fU := fU F; fV := fV F; fD := d |}.
  Definition jfa_iter_v (rU rV D : nat) (u : ubm) (classes : list (list gstat)) (F : fa) : fa :=
    let '(A1, A2) := acc_v rU rV D u F classes in set_V F (mstep_w rV D (length (u_mu u)) A1 A2).
  Definition jfa_iter_u (rU D : nat) (u : ubm) (classes : list (list gstat)) (ys : list (option (list T))) (F : fa) : fa :=
    let none := map (fun _ => @None (list T)) classes in
    let zero_z := map (fun _ => Some (vzero (length (msuper u)))) classes in
    let '(A1, A2) := acc_u rU D u F classes ys none zero_z in set_U F (mstep_w rU D (length (u_mu u)) A1 A2).
  Definition jfa_iter_d (rU D : nat) (u : ubm) (classes : list (list gstat)) (xss : list (list (list T)))
             (ys : list (option (list T))) (F : fa) : fa :=
    let '(A1, A2) := acc_d rU D u F classes xss ys in set_D F (vdiv A2 A1).
  Definition jfa_fit (iters rU rV D : nat) (u : ubm) (classes : list (list gstat)) (F : fa) : fa :=
    let F1 := Nat.iter iters (jfa_iter_v rU rV D u classes) F in
    let ys := map Some (latent_y_all rU rV D u F1 classes) in
    let F2 := Nat.iter iters (jfa_iter_u rU D u classes ys) F1 in
    let uprod := wprod rU D u (fU F2) in
    let xss := map2 (fun Xi y => latent_x_class rU D u F2 uprod Xi None y) classes ys in
    Nat.iter iters (jfa_iter_d rU D u classes xss ys) F2.

  (* ISV: E-step = x (no y, no z), z from x, accumulators with that z; M-step = update of U *)
  Definition isv_iter (rU D : nat) (u : ubm) (classes : list (list gstat)) (F : fa) : fa :=
    let C := length (u_mu u) in
    let uprod := wprod rU D u (fU F) in
    let none := map (fun _ => @None (list T)) classes in
    let zs := map (fun Xi => let xs := latent_x_class rU D u F uprod Xi None None in
                             Some (update_z_class D u F Xi xs None (sum_n C Xi) (sum_f C D Xi))) classes in
    let '(A1, A2) := acc_u rU D u F classes none none zs in set_U F (mstep_w rU D C A1 A2).
  Definition isv_fit (iters rU D : nat) (u : ubm) (classes : list (list gstat)) (F : fa) : fa :=
    Nat.iter iters (isv_iter rU D u classes) F.
  End WithInv.
End FA.
