(* ISV / JFA scoring (factor_analysis.py:1589-1635, :2247-2296): the score is the frame-normalised linear
   score of the client mean against the POOLED probe statistics, the UBM means shifted by the probe's own
   channel offset U x. *)
From Coq Require Import List Arith Bool.
From BLE Require Import Num.Scalar Lib.Vec Model.FA Model.LinScore.
Import ListNotations.

Module FAScore (S : FIELD).
  Module F := FA S.
  Module L := LinScore S.
  Import S.
  Section WithInv.
  Variable inv : list (list T) -> list (list T).
  (* sum(data[1:], start=data[0]) *)
  Definition pool (C D : nat) (X : list F.gstat) : F.gstat := {| F.g_n := F.sum_n C X; F.g_px := F.sum_f C D X |}.
  Definition score (eps : T) (rU D : nat) (u : F.ubm) (Fa : F.fa) (y : option (list T)) (z : list T)
             (X : list F.gstat) (frames : T) : T :=
    let C := length (F.u_mu u) in
    let ux := F.estimate_ux inv rU D u Fa X in
    let cm := F.client_mean u Fa y z in
    let p := pool C D X in
    L.score1 eps true (F.chunk D C cm) (F.u_mu u) (F.u_var u) (F.chunk D C ux)
             {| L.ts_n := F.g_n p; L.ts_px := F.g_px p; L.ts_t := frames |}.
  End WithInv.
End FAScore.
