(* Model of src/bob/learn/em/gmm.py: likelihood, E-step statistics, statistics addition,
   ML and MAP M-steps, the EM loop.  No proofs here, so the model still runs when a proof breaks. *)
From Coq Require Import List Arith Bool.
From BLE Require Import Num.Scalar Lib.Vec.
Import ListNotations.

Module GMM (S : TRANSC).
  Module V := Vec S.
  Import S V.

  (* visible parameters of a GMMMachine: weights (C), means (C x D), variances (C x D) *)
  Record gmm := { ws : list T; mus : list (list T); vars : list (list T) }.
  Definition comp := (T * list T * list T)%type.               (* (w_c, mu_c, var_c) *)
  Definition comps (m : gmm) : list comp := combine (combine (ws m) (mus m)) (vars m).

  (* gmm.py:562-563  g_norms = D*log(2 pi) + sum(log var) *)
  Definition gnorm (v : list T) : T := add (mul (ofnat (length v)) ln2pi) (vsum (map ln v)).
  (* gmm.py:54-56  sum((data - mean)**2 / var) *)
  Definition zterm (x mu v : list T) : T :=
    vsum (map3 (fun xi mi vi => div (mul (sub xi mi) (sub xi mi)) vi) x mu v).
  (* gmm.py:59-60  log_weights + (-0.5 * (g_norms + z)) *)
  Definition lwl (c : comp) (x : list T) : T :=
    let '(w, mu, v) := c in add (ln w) (mul (opp half) (add (gnorm v) (zterm x mu v))).
  Definition lwls (m : gmm) (x : list T) : list T := map (fun c => lwl c x) (comps m).

  (* numpy's npy_logaddexp, branch for branch (the NaN branch is unreachable on non-NaN input) *)
  Definition logaddexp (a b : T) : T :=
    if eqb a b then add a ln2
    else let t := sub a b in
         if ltb zero t then add a (log1p (exp (opp t))) else add b (log1p (exp t)).
  (* np.logaddexp.reduce(.., initial=-inf): logaddexp(-inf, x) = x exactly, so the fold starts at the
     first element.  The empty reduction (-inf) is not representable at R; every theorem about lse
     requires a non-empty list (a GMM has at least one component). *)
  Definition lse (l : list T) : T := match l with [] => zero | x :: r => fold_left logaddexp r x end.
  Definition ll (m : gmm) (x : list T) : T := lse (lwls m x).
  Definition log_likelihood (m : gmm) (X : list (list T)) : list T := map (ll m) X.

  (* gmm.py:126  responsibility = exp(lwl - ll) *)
  Definition resp (m : gmm) (x : list T) (c : comp) : T := exp (sub (lwl c x) (ll m x)).

  Record stats := { s_ng : nat; s_nf : nat; s_t : nat; s_n : list T;
                    s_px : list (list T); s_pxx : list (list T); s_ll : T }.
  (* gmm.py:107-150 *)
  Definition e_step (nf : nat) (m : gmm) (X : list (list T)) : stats :=
    {| s_ng := length (ws m); s_nf := nf; s_t := length X;
       s_n := map (fun c => vsum (map (fun x => resp m x c) X)) (comps m);
       s_px := map (fun c => vsumv nf (map (fun x => vscale (resp m x c) x) X)) (comps m);
       s_pxx := map (fun c => vsumv nf (map (fun x => vmul (vscale (resp m x c) x) x) X)) (comps m);
       s_ll := vsum (map (ll m) X) |}.
  Definition zero_stats (ng nf : nat) : stats :=
    {| s_ng := ng; s_nf := nf; s_t := 0; s_n := vzero ng; s_px := mzero ng nf; s_pxx := mzero ng nf; s_ll := zero |}.
  (* gmm.py:306-335  __add__ / __iadd__ : refuses (ValueError) when the declared shapes differ *)
  Definition stats_add (a b : stats) : option stats :=
    if andb (Nat.eqb (s_ng a) (s_ng b)) (Nat.eqb (s_nf a) (s_nf b)) then
      Some {| s_ng := s_ng a; s_nf := s_nf a; s_t := s_t a + s_t b; s_n := vadd (s_n a) (s_n b);
              s_px := madd (s_px a) (s_px b); s_pxx := madd (s_pxx a) (s_pxx b);
              s_ll := add (s_ll a) (s_ll b) |}
    else None.
  (* gmm.py:159 functools.reduce(operator.iadd, statistics) over a non-empty list *)
  Fixpoint stats_reduce (acc : stats) (l : list stats) : option stats :=
    match l with [] => Some acc | s :: r => match stats_add acc s with Some a => stats_reduce a r | None => None end end.

  (* ------------------------------------------------------------------ training *)
  (* a machine under training: visible parameters plus the variance floors (C x D after broadcasting) *)
  Record machine := { g : gmm; thr : list (list T) }.
  Record switches := { upd_means : bool; upd_vars : bool; upd_ws : bool }.
  (* variances setter gmm.py:555-563: np.maximum(thresholds, variances) *)
  Definition clampv (th v : list (list T)) : list (list T) := map2 (map2 (fun t x => fmax t x)) th v.
  Definition set_vars (mc : machine) (v : list (list T)) : machine :=
    {| g := {| ws := ws (g mc); mus := mus (g mc); vars := clampv (thr mc) v |}; thr := thr mc |}.
  Definition set_mus (mc : machine) (mu : list (list T)) : machine :=
    {| g := {| ws := ws (g mc); mus := mu; vars := vars (g mc) |}; thr := thr mc |}.
  Definition set_ws (mc : machine) (w : list T) : machine :=
    {| g := {| ws := w; mus := mus (g mc); vars := vars (g mc) |}; thr := thr mc |}.

  (* gmm.py:882-921 ml_gmm_m_step.  [eps] = mean_var_update_threshold. *)
  Definition ml_vars_updated_means (st : stats) (tn : list T) (mu : list (list T)) :=
    map3 (fun sxx n m => map2 (fun a b => sub (div a n) (mul b b)) sxx m) (s_pxx st) tn mu.
  (* frozen means: E[(x-mu)^2] = (sum_pxx - 2 mu sum_px + mu^2 n) / max(n, eps): the responsibility-weighted sum of
     squared deviations over the floored count (a component without responsibility gets 0, i.e. its floor) *)
  Definition ml_vars_frozen_means (st : stats) (tn : list T) (mu : list (list T)) :=
    map3 (fun sxx_sx tn_n m =>
            map3 (fun a s b => div (add (sub a (mul (mul (add one one) b) s)) (mul (mul b b) (snd tn_n))) (fst tn_n))
                 (fst sxx_sx) (snd sxx_sx) m)
         (combine (s_pxx st) (s_px st)) (combine tn (s_n st)) mu.
  Definition ml_m_step (sw : switches) (eps : T) (st : stats) (mc : machine) : machine :=
    let tn := map (fun n => fmax n eps) (s_n st) in                 (* np.clip(n, eps, None) *)
    let mc1 := if upd_ws sw then set_ws mc (map (fun n => div n (ofnat (s_t st))) tn) else mc in
    let mc2 := if upd_means sw then set_mus mc1 (map2 (fun sx n => map (fun a => div a n) sx) (s_px st) tn) else mc1 in
    if upd_vars sw then
      set_vars mc2 (if upd_means sw then ml_vars_updated_means st tn (mus (g mc2))
                    else ml_vars_frozen_means st tn (mus (g mc2)))
    else mc2.

  (* gmm.py:924-1002 map_gmm_m_step.  [relevance] = Some r (Reynolds) or None (fixed alpha).
     Written as per-component helpers mapped over the components. *)
  Definition map_alpha1 (relevance : option T) (alpha : T) (n : T) : T :=
    match relevance with Some r => div n (add n r) | None => alpha end.
  Definition map_alpha (relevance : option T) (alpha : T) (st : stats) : list T :=
    map (map_alpha1 relevance alpha) (s_n st).
  (* gmm.py:951-954  alpha * n/T + (1 - alpha) * prior weight (before renormalisation) *)
  Definition map_w0 (a n t w0 : T) : T := add (mul a (div n t)) (mul (sub one a) w0).
  (* gmm.py:966-983 *)
  Definition map_mean1 (eps a n : T) (sx pm : list T) : list T :=
    if ltb n eps then pm else map2 (fun s p => add (mul a (div s n)) (mul (sub one a) p)) sx pm.
  (* [sq] selects the prior second moment used by the variance blend: [true] = prior variance +
     prior mean squared (Reynolds eq. 13, what property C05 states); [false] = prior variance +
     prior mean, un-squared, which is what gmm.py:990-996 computes today (known finding D2). *)
  Definition prior_m2 (sq : bool) (v p : T) : T := add v (if sq then mul p p else p).
  (* gmm.py:988-1002; [m] is the component's (possibly just updated) mean *)
  Definition map_var1 (sq : bool) (eps a n : T) (sxx pv pm m : list T) : list T :=
    if ltb n eps then map3 (fun v p mm => sub (prior_m2 sq v p) (mul mm mm)) pv pm m
    else map3 (fun s vp mm => sub (add (div (mul a s) n) (mul (sub one a) vp)) (mul mm mm))
              sxx (map2 (prior_m2 sq) pv pm) m.
  Definition map_m_step (sq : bool) (sw : switches) (eps : T) (relevance : option T) (alpha : T)
             (prior : gmm) (st : stats) (mc : machine) : machine :=
    let al := map_alpha relevance alpha st in
    let mc1 :=
      if upd_ws sw then
        let w0 := map3 (fun a n w => map_w0 a n (ofnat (s_t st)) w) al (s_n st) (ws prior) in
        let gamma := vsum w0 in
        set_ws mc (map (fun w => div w gamma) w0)
      else mc in
    let mc2 :=
      if upd_means sw then
        set_mus mc1 (map3 (fun a_n sx pm => map_mean1 eps (fst a_n) (snd a_n) sx pm)
                          (combine al (s_n st)) (s_px st) (mus prior))
      else mc1 in
    if upd_vars sw then
      set_vars mc2
        (map3 (fun a_n_sxx pv_pm m =>
                 map_var1 sq eps (fst (fst a_n_sxx)) (snd (fst a_n_sxx)) (snd a_n_sxx) (fst pv_pm) (snd pv_pm) m)
              (combine (combine al (s_n st)) (s_pxx st)) (combine (vars prior) (mus prior)) (mus (g mc2)))
    else mc2.

  Inductive trainer := ML | MAP (sq : bool) (relevance : option T) (alpha : T) (prior : gmm).
  Definition m_step (tr : trainer) (sw : switches) (eps : T) (st : stats) (mc : machine) : machine :=
    match tr with ML => ml_m_step sw eps st mc | MAP sq r a p => map_m_step sq sw eps r a p st mc end.

  (* one EM iteration on a list of chunks (a single chunk = the NumPy branch) *)
  Definition em_iter (tr : trainer) (sw : switches) (eps : T) (nf : nat) (chunks : list (list (list T)))
             (mc : machine) : option (machine * T) :=
    match map (e_step nf (g mc)) chunks with
    | [] => None
    | s0 :: rest =>
        match stats_reduce s0 rest with
        | Some st => Some (m_step tr sw eps st mc, div (s_ll st) (ofnat (s_t st)))
        | None => None
        end
    end.

  (* gmm.py:804-867 the EM loop.  [cap] iterations at most; [cthr] = convergence_threshold or None.
     Returns the machine, the number of iterations performed and the list of reported average
     log-likelihoods (most recent first). *)
  Fixpoint fit_loop (cap : nat) (step : nat) (prev : T) (tr : trainer) (sw : switches) (eps : T) (cthr : option T)
           (nf : nat) (chunks : list (list (list T))) (mc : machine) (hist : list T)
    : option (machine * nat * list T) :=
    match cap with
    | O => Some (mc, step, hist)
    | S cap' =>
        match em_iter tr sw eps nf chunks mc with
        | None => None
        | Some (mc', cur) =>
            let step' := S step in
            let stop :=
              if Nat.ltb 1 step' then
                match cthr with
                | Some th => leb (fabs (div (sub prev cur) prev)) th
                | None => false
                end
              else false in
            if stop then Some (mc', step', cur :: hist)
            else fit_loop cap' step' cur tr sw eps cthr nf chunks mc' (cur :: hist)
        end
    end.
  Definition fit (cap : nat) tr sw eps cthr nf chunks mc := fit_loop cap 0 zero tr sw eps cthr nf chunks mc [].
End GMM.
