(* Model of src/bob/learn/em/ivector.py (FIELD + inverse oracle): posterior precision and linear term,
   projection, E-step accumulators, accumulator addition and the pairwise tree reduction, M-step with
   covariance floor and zero-count guard, the training loop. *)
From Coq Require Import List Arith Bool.
From BLE Require Import Num.Scalar Lib.Vec.
Import ListNotations.

Module IVector (S : FIELD).
  Module V := Vec S.
  Import S V.

  Section WithInv.
  Variable inv : list (list T) -> list (list T).

  (* machine: UBM means (C x D), T (C matrices D x t), sigma (C x D) *)
  Record ivm := { iv_mu : list (list T); iv_T : list (list (list T)); iv_sigma : list (list T) }.
  Record gstat := { g_n : list T; g_px : list (list T); g_pxx : list (list T) }.
  (* ivector.py:22-79 *)
  Record acc := { a_w2 : list (list (list T));     (* nij_sigma_wij2   (C, t, t) *)
                  a_fw : list (list (list T));     (* fnorm_sigma_wij  (C, D, t) *)
                  a_sn : list (list T);            (* snormij          (C, D) *)
                  a_n : list T }.                  (* nij              (C) *)
  Definition msum (r c : nat) (ms : list (list (list T))) : list (list T) := fold_right madd (mzero r c) ms.

  (* T_c^T Sigma_c^-1 T_c  (t x t) *)
  Definition tst1 (t : nat) (Tc : list (list T)) (sig : list T) : list (list T) :=
    map (fun a => map (fun b => vsum (map2 (fun row s => mul (div (nth a row zero) s) (nth b row zero)) Tc sig)) (seq 0 t)) (seq 0 t).
  (* ivector.py:102-113: I + sum_c n_c T_c^T Sigma_c^-1 T_c *)
  Definition precision (t : nat) (m : ivm) (s : gstat) : list (list T) :=
    madd (eye t) (msum t t (map3 (fun Tc sig n => mscale n (tst1 t Tc sig)) (iv_T m) (iv_sigma m) (g_n s))).
  (* ivector.py:116-131: sum_c T_c^T Sigma_c^-1 (F_c - n_c m_c) *)
  Definition fnorm (m : ivm) (s : gstat) : list (list T) :=
    map3 (fun f n mu => map2 (fun a b => sub a (mul n b)) f mu) (g_px s) (g_n s) (iv_mu m).
  Definition linterm (t : nat) (m : ivm) (s : gstat) : list T :=
    fold_right vadd (vzero t)
      (map3 (fun Tc sig fn => map (fun a => vsum (map3 (fun row sg f => mul (div (nth a row zero) sg) f) Tc sig fn)) (seq 0 t))
            (iv_T m) (iv_sigma m) (fnorm m s)).
  (* ivector.py:332-348 project: solve(precision, linear term) *)
  Definition project (t : nat) (m : ivm) (s : gstat) : list T := matvec (inv (precision t m s)) (linterm t m s).

  Definition zero_acc (C D t : nat) : acc :=
    {| a_w2 := repeat (mzero t t) C; a_fw := repeat (mzero D t) C; a_sn := mzero C D; a_n := vzero C |}.
  Definition acc_add (a b : acc) : acc :=
    {| a_w2 := map2 madd (a_w2 a) (a_w2 b); a_fw := map2 madd (a_fw a) (a_fw b);
       a_sn := madd (a_sn a) (a_sn b); a_n := vadd (a_n a) (a_n b) |}.
  (* contribution of one sample, ivector.py:138-176 *)
  Definition acc1 (t : nat) (m : ivm) (s : gstat) : acc :=
    let P := inv (precision t m s) in
    let w := matvec P (linterm t m s) in
    let w2 := madd P (outer w w) in
    let fn := fnorm m s in
    {| a_w2 := map (fun n => mscale n w2) (g_n s);
       a_fw := map (fun fc => outer fc w) fn;
       a_sn := map3 (fun sxx_f n mu => map3 (fun sx f b => add (sub sx (mul (mul (add one one) f) b)) (mul (mul n b) b)) (fst sxx_f) (snd sxx_f) mu)
                    (combine (g_pxx s) (g_px s)) (g_n s) (iv_mu m);
       a_n := g_n s |}.
  Definition e_step (C D t : nat) (m : ivm) (X : list gstat) : acc :=
    fold_left (fun a s => acc_add a (acc1 t m s)) X (zero_acc C D t).

  (* ivector.py:308-318: pairwise reduction  stats[i] + stats[len//2 + i], odd element carried *)
  Definition round (l : list acc) (dflt : acc) : list acc :=
    let n := length l in let h := Nat.div n 2 in
    map (fun p => acc_add (fst p) (snd p)) (combine (firstn h l) (firstn h (skipn h l)))
    ++ (if Nat.odd n then [last l dflt] else []).
  Fixpoint tree_reduce (fuel : nat) (l : list acc) (dflt : acc) : option acc :=
    match l with
    | [] => None
    | [x] => Some x
    | _ => match fuel with O => None | S f => tree_reduce f (round l dflt) dflt end
    end.

  Definition mat_any (A : list (list T)) : bool := existsb (fun r => existsb (fun a => negb (eqb a zero)) r) A.
  (* ivector.py:181-209 m_step *)
  Definition m_step (D t : nat) (update_sigma : bool) (floor : T) (m : ivm) (st : acc) : ivm :=
    (* X_c = solve(A_c, B_c), A_c = w2_c^T (t x t), B_c = fw_c^T (t x D); zero when A_c is the zero matrix *)
    let Xs := map2 (fun w2 fw => if mat_any w2 then matmul D (inv (transpose t w2)) (transpose t fw) else mzero t D)
                   (a_w2 st) (a_fw st) in
    let Tn := map (fun X => transpose D X) Xs in
    let sig :=
      if update_sigma then
        map3 (fun sn_old fw_X n =>
                let sn := fst sn_old in let old := snd sn_old in
                let fw := fst fw_X in let X := snd fw_X in
                let diag := map2 (fun frow col => dot frow col) fw (transpose D X) in     (* diag(fw @ X) *)
                if eqb n zero then map (fun o => if ltb o floor then floor else o) old
                else map2 (fun a b => let v := div (sub a b) n in if ltb v floor then floor else v) sn diag)
             (combine (a_sn st) (iv_sigma m)) (combine (a_fw st) Xs) (a_n st)
      else iv_sigma m in
    {| iv_mu := iv_mu m; iv_T := Tn; iv_sigma := sig |}.

  (* one iteration on a list of partitions (a single partition = the in-memory list) *)
  Definition em_iter (C D t : nat) (update_sigma : bool) (floor : T) (parts : list (list gstat)) (m : ivm) : option ivm :=
    match tree_reduce (length parts) (map (e_step C D t m) parts) (zero_acc C D t) with
    | Some st => Some (m_step D t update_sigma floor m st)
    | None => None
    end.
  Fixpoint fit (k : nat) (C D t : nat) (update_sigma : bool) (floor : T) (parts : list (list gstat)) (m : ivm) : option ivm :=
    match k with
    | O => Some m
    | S k' => match em_iter C D t update_sigma floor parts m with Some m' => fit k' C D t update_sigma floor parts m' | None => None end
    end.
  End WithInv.
End IVector.
