(* Model of src/bob/learn/em/kmeans.py (FIELD only): squared distances, nearest-centroid assignment,
   E-step statistics, M-step, the EM loop, per-cluster variances and weights. *)
From Coq Require Import List Arith Bool.
From BLE Require Import Num.Scalar Lib.Vec.
Import ListNotations.

Module KMeans (S : FIELD).
  Module V := Vec S.
  Import S V.

  (* kmeans.py:23-47: sum((mean - x)**2) *)
  Definition sqdist (c x : list T) : T := vsum (map2 (fun a b => sqr (sub a b)) c x).
  Definition dists (cents : list (list T)) (x : list T) : list T := map (fun c => sqdist c x) cents.
  (* transform: one row per centroid, one column per sample *)
  Definition distances (cents X : list (list T)) : list (list T) := map (fun c => map (sqdist c) X) cents.
  (* kmeans.py:50-63 np.argmin over centroids: first index of the minimum *)
  Definition closest (cents : list (list T)) (x : list T) : nat := argmin (dists cents x).
  Definition predict (cents X : list (list T)) : list nat := map (closest cents) X.
  Definition mindist (cents : list (list T)) (x : list T) : T := vmin (dists cents x).

  Definition members (cents : list (list T)) (k : nat) (X : list (list T)) : list (list T) :=
    filter (fun x => Nat.eqb (closest cents x) k) X.

  (* kmeans.py:66-103 e_step: counts, per-cluster sums, SUM of the minimal distances of the block *)
  Record kstats := { k_cnt : list nat; k_sum : list (list T); k_crit : T }.
  Definition e_step (nf : nat) (cents X : list (list T)) : kstats :=
    let ks := seq 0 (length cents) in
    {| k_cnt := map (fun k => length (members cents k X)) ks;
       k_sum := map (fun k => vsumv nf (members cents k X)) ks;
       k_crit := vsum (map (mindist cents) X) |}.
  Definition kadd (a b : kstats) : kstats :=
    {| k_cnt := map2 Nat.add (k_cnt a) (k_cnt b); k_sum := madd (k_sum a) (k_sum b); k_crit := add (k_crit a) (k_crit b) |}.
  (* kmeans.py:106-136 m_step: accumulate the blocks, centroid = sum / count (an empty cluster keeps
     its centroid), criterion = accumulated distance / number of samples *)
  Definition m_step (sts : list kstats) (n : nat) (cents : list (list T)) : option (list (list T) * T) :=
    match sts with
    | [] => None
    | s0 :: rest =>
        let st := fold_left kadd rest s0 in
        Some (map3 (fun cnt sm old => if Nat.eqb cnt 0 then old else map (fun a => div a (ofnat cnt)) sm)
                   (k_cnt st) (k_sum st) cents,
              div (k_crit st) (ofnat n))
    end.
  Definition nsamples (chunks : list (list (list T))) : nat := length (concat chunks).
  Definition em_iter (nf : nat) (chunks : list (list (list T))) (cents : list (list T)) : option (list (list T) * T) :=
    m_step (map (e_step nf cents) chunks) (nsamples chunks) cents.

  (* kmeans.py:338-390: the loop; the test is only made from the second iteration on *)
  Fixpoint fit_loop (cap step : nat) (prev : T) (cthr : option T) (nf : nat) (chunks : list (list (list T)))
           (cents : list (list T)) (hist : list T) : option (list (list T) * nat * list T) :=
    match cap with
    | O => Some (cents, step, hist)
    | S cap' =>
        match em_iter nf chunks cents with
        | None => None
        | Some (cents', cur) =>
            let step' := S step in
            let stop := if Nat.ltb 1 step' then
                          match cthr with Some th => leb (fabs (div (sub prev cur) prev)) th | None => false end
                        else false in
            if stop then Some (cents', step', cur :: hist)
            else fit_loop cap' step' cur cthr nf chunks cents' (cur :: hist)
        end
    end.
  Definition fit cap cthr nf chunks cents := fit_loop cap 0 zero cthr nf chunks cents [].

  (* kmeans.py:139-173, 262-302: per-cluster biased variances and weights, per block then reduced *)
  Definition var_weights (nf : nat) (cents : list (list T)) (chunks : list (list (list T))) : list (list T) * list T :=
    let X := concat chunks in
    let ks := seq 0 (length cents) in
    let cnt := map (fun k => length (members cents k X)) ks in
    let total := fold_right Nat.add 0 cnt in
    let msum := map (fun k => vsumv nf (map (fun b => vsumv nf (members cents k b)) chunks)) ks in
    let vsum_ := map (fun k => vsumv nf (map (fun b => vsumv nf (map (fun x => vmul x x) (members cents k b))) chunks)) ks in
    let safe := map (fun c => if Nat.eqb c 0 then 1 else c) cnt in
    let means := map2 (fun s c => map (fun a => div a (ofnat c)) s) msum safe in
    (map3 (fun s c m => map2 (fun a b => sub (div a (ofnat c)) (mul b b)) s m) vsum_ safe means,
     map (fun c => div (ofnat c) (ofnat total)) cnt).
End KMeans.
