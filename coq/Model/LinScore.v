(* Model of src/bob/learn/em/linear_scoring.py (FIELD only). *)
From Coq Require Import List Arith Bool.
From BLE Require Import Num.Scalar Lib.Vec.
Import ListNotations.

Module LinScore (S : FIELD).
  Module V := Vec S.
  Import S V.

  (* test statistics: (n : C, sum_px : C x D, t) *)
  Record tstat := { ts_n : list T; ts_px : list (list T); ts_t : T }.
  (* channel offsets as the code accepts them: a scalar, one (C, D) array shared by all test items,
     or one (C, D) array per test item *)
  Inductive offsets := OffScalar (z : T) | OffCD (o : list (list T)) | OffTCD (o : list (list (list T))).
  Definition offset_of (C D : nat) (o : offsets) (i : nat) : list (list T) :=
    match o with
    | OffScalar z => repeat (repeat z D) C
    | OffCD m => m
    | OffTCD l => nth i l []
    end.
  (* linear_scoring.py:79  a = (model - ubm.means) / ubm.variances *)
  Definition amat (model umu uvar : list (list T)) : list (list T) :=
    map3 (fun m u v => map3 (fun a b c => div (sub a b) c) m u v) model umu uvar.
  (* linear_scoring.py:81-83  b = sum_px - n * (ubm.means + offset) *)
  Definition bmat (umu off : list (list T)) (s : tstat) : list (list T) :=
    map3 (fun px_n u o => map3 (fun f a b => sub f (mul (snd px_n) (add a b))) (fst px_n) u o)
         (combine (ts_px s) (ts_n s)) umu off.
  (* linear_scoring.py:85-86  frame-length normalisation guarded at T = 0 *)
  Definition normalise (eps : T) (norm : bool) (s : tstat) (b : list (list T)) : list (list T) :=
    if norm then (if leb (fabs (ts_t s)) eps then map (map (fun _ => zero)) b else map (map (fun x => div x (ts_t s))) b)
    else b.
  Definition dot2 (a b : list (list T)) : T := vsum (map2 (fun x y => dot x y) a b).
  Definition score1 (eps : T) (norm : bool) (model umu uvar off : list (list T)) (s : tstat) : T :=
    dot2 (amat model umu uvar) (normalise eps norm s (bmat umu off s)).
  (* one row per model, one column per test item *)
  Definition linear_scoring (eps : T) (norm : bool) (models : list (list (list T))) (umu uvar : list (list T))
             (stats : list tstat) (o : offsets) : list (list T) :=
    let C := length umu in let D := length (hd [] umu) in
    map (fun model => map (fun is => score1 eps norm model umu uvar (offset_of C D o (fst is)) (snd is))
                          (combine (seq 0 (length stats)) stats)) models.
End LinScore.
