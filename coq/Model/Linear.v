(* Model of src/bob/learn/em/whitening.py and wccn.py (FIELD + oracles for the inverse and the
   lower Cholesky factor). *)
From Coq Require Import List Arith Bool.
From BLE Require Import Num.Scalar Lib.Vec.
Import ListNotations.

Module Linear (S : FIELD).
  Module V := Vec S.
  Import S V.
  Section WithOracles.
  Variable inv : list (list T) -> list (list T).        (* scipy.linalg.inv / dask inv *)
  Variable chol : list (list T) -> list (list T).       (* cholesky(., lower=True) *)

  Definition mean_rows (D : nat) (X : list (list T)) : list T := map (fun a => div a (ofnat (length X))) (vsumv D X).
  Definition centre (mu : list T) (X : list (list T)) : list (list T) := map (fun x => vsub x mu) X.
  (* sum_x x x^T  (D x D) *)
  Definition scatter0 (D : nat) (X : list (list T)) : list (list T) := fold_right (fun x acc => madd (outer x x) acc) (mzero D D) X.
  (* np.cov(X.T): unbiased sample covariance *)
  Definition cov (D : nat) (X : list (list T)) : list (list T) :=
    mscale (div one (ofnat (length X - 1))) (scatter0 D (centre (mean_rows D X) X)).
  (* whitening.py:48-74 *)
  Definition whiten_fit (D : nat) (X : list (list T)) : list T * list (list T) :=
    (mean_rows D X, chol (inv (cov D X))).
  (* whitening.py:76-77 *)
  Definition project (D : nat) (mu : list T) (W : list (list T)) (X : list (list T)) : list (list T) :=
    matmul D (centre mu X) W.

  (* wccn.py:41-90: classes = the samples grouped by label (in whatever order the label set is enumerated) *)
  Definition within_scatter (D : nat) (classes : list (list (list T))) : list (list T) :=
    fold_right (fun Xk acc => madd (scatter0 D (centre (mean_rows D Xk) Xk)) acc) (mzero D D) classes.
  Definition wccn_fit (D : nat) (classes : list (list (list T))) : list (list T) :=
    chol (inv (mscale (div one (ofnat (length classes))) (within_scatter D classes))).
  End WithOracles.

  (* grouping by label: labels are natural-number codes; [order] enumerates the distinct labels *)
  Definition group {A} (order : list nat) (y : list nat) (X : list A) : list (list A) :=
    map (fun l => map snd (filter (fun p => Nat.eqb (fst p) l) (combine y X))) order.
End Linear.
