(* Model of the GMMMachine OBJECT (gmm.py:522-593): visible parameters plus the cached log-weights and
   Gaussian normalisers, the setters that maintain them, and histories of public operations. *)
From Coq Require Import List Arith Bool.
From BLE Require Import Num.Scalar Lib.Vec Model.GMM.
Import ListNotations.

Module Machine (S : TRANSC).
  Module G := GMM S.
  Import S G G.V.

  (* variance_thresholds as the caller supplied them: a scalar, one value per feature, or a full matrix *)
  Inductive thr_t := ThrScalar (t : T) | ThrRow (r : list T) | ThrMat (m : list (list T)).
  Definition bcast (C D : nat) (t : thr_t) : list (list T) :=
    match t with ThrScalar x => repeat (repeat x D) C | ThrRow r => repeat r C | ThrMat m => m end.

  Record mach := { o_w : list T; o_lw : list T;                       (* _weights, _log_weights *)
                   o_mu : list (list T);                               (* _means *)
                   o_var : list (list T); o_gn : list T;               (* _variances, _g_norms *)
                   o_thr : thr_t }.                                    (* _variance_thresholds *)
  Definition shapeC (m : mach) := length (o_mu m).
  Definition shapeD (m : mach) := length (hd [] (o_mu m)).

  (* setters *)
  Definition set_w (m : mach) (w : list T) : mach :=
    {| o_w := w; o_lw := map ln w; o_mu := o_mu m; o_var := o_var m; o_gn := o_gn m; o_thr := o_thr m |}.
  Definition set_mu (m : mach) (mu : list (list T)) : mach :=
    {| o_w := o_w m; o_lw := o_lw m; o_mu := mu; o_var := o_var m; o_gn := o_gn m; o_thr := o_thr m |}.
  Definition set_var (m : mach) (v : list (list T)) : mach :=
    let v' := clampv (bcast (length v) (length (hd [] v)) (o_thr m)) v in
    {| o_w := o_w m; o_lw := o_lw m; o_mu := o_mu m; o_var := v'; o_gn := map gnorm v'; o_thr := o_thr m |}.
  (* variance_thresholds setter: stores the floors and re-clamps the existing variances through the variances setter *)
  Definition set_thr (m : mach) (t : thr_t) : mach :=
    let m1 := {| o_w := o_w m; o_lw := o_lw m; o_mu := o_mu m; o_var := o_var m; o_gn := o_gn m; o_thr := t |} in
    set_var m1 (clampv (bcast (length (o_var m)) (length (hd [] (o_var m))) t) (o_var m)).

  (* what the object computes: the per-component values use the CACHED log-weights and normalisers *)
  Definition lwl_cached (lw gn : T) (mu v x : list T) : T := add lw (mul (opp half) (add gn (zterm x mu v))).
  Definition lwls_cached (m : mach) (x : list T) : list T :=
    map3 (fun lw_gn mu v => lwl_cached (fst lw_gn) (snd lw_gn) mu v x) (combine (o_lw m) (o_gn m)) (o_mu m) (o_var m).
  Definition ll_cached (m : mach) (x : list T) : T := lse (lwls_cached m x).
  Definition visible (m : mach) : gmm := {| ws := o_w m; mus := o_mu m; vars := o_var m |}.

  (* a single ML EM step executed by the object: E-step from the cached values, M-step through the setters *)
  Definition resp_cached (m : mach) (x : list T) : list T :=
    let l := lwls_cached m x in let s := lse l in map (fun a => exp (sub a s)) l.
  Definition e_step_cached (nf : nat) (m : mach) (X : list (list T)) : stats :=
    let R := map (resp_cached m) X in                     (* N x C *)
    let C := length (o_w m) in
    {| s_ng := C; s_nf := nf; s_t := length X;
       s_n := map (fun c => vsum (map (fun r => nth c r zero) R)) (seq 0 C);
       s_px := map (fun c => vsumv nf (map2 (fun r x => vscale (nth c r zero) x) R X)) (seq 0 C);
       s_pxx := map (fun c => vsumv nf (map2 (fun r x => vmul (vscale (nth c r zero) x) x) R X)) (seq 0 C);
       s_ll := vsum (map (ll_cached m) X) |}.
  Definition em_step (sw : switches) (eps : T) (nf : nat) (m : mach) (X : list (list T)) : mach :=
    let st := e_step_cached nf m X in
    let tn := map (fun n => fmax n eps) (s_n st) in
    let m1 := if upd_ws sw then set_w m (map (fun n => div n (ofnat (s_t st))) tn) else m in
    let m2 := if upd_means sw then set_mu m1 (map2 (fun sx n => map (fun a => div a n) sx) (s_px st) tn) else m1 in
    if upd_vars sw then
      set_var m2 (if upd_means sw then ml_vars_updated_means st tn (o_mu m2) else ml_vars_frozen_means st tn (o_mu m2))
    else m2.

  Inductive op :=
  | SetW (w : list T) | SetMu (mu : list (list T)) | SetVar (v : list (list T)) | SetThr (t : thr_t)
  | EmStep (sw : switches) (eps : T) (nf : nat) (X : list (list T))
  | Copy | Pickle | SaveLoad
  | LoadOther (w : list T) (mu v : list (list T)) (t : thr_t).   (* GMMMachine.load of a file holding ANOTHER model into this object *)
  (* deepcopy and pickle preserve every field; loading rebuilds the object from the visible
     parameters and floors through the constructor and the setters *)
  Definition rebuild (m : mach) : mach :=
    let m0 := {| o_w := o_w m; o_lw := map ln (o_w m); o_mu := o_mu m; o_var := []; o_gn := []; o_thr := o_thr m |} in
    set_var m0 (o_var m).
  Definition step (m : mach) (o : op) : mach :=
    match o with
    | SetW w => set_w m w | SetMu mu => set_mu m mu | SetVar v => set_var m v | SetThr t => set_thr m t
    | EmStep sw eps nf X => em_step sw eps nf m X
    | Copy => m | Pickle => m | SaveLoad => rebuild m
    | LoadOther w mu v t => set_var {| o_w := w; o_lw := map ln w; o_mu := mu; o_var := []; o_gn := []; o_thr := t |} v
    end.
  Definition run (m : mach) (ops : list op) : mach := fold_left step ops m.
  (* a freshly constructed machine given weights, means, variances and floors *)
  Definition fresh (w : list T) (mu v : list (list T)) (t : thr_t) : mach :=
    set_var {| o_w := w; o_lw := map ln w; o_mu := mu; o_var := []; o_gn := []; o_thr := t |} v.
End Machine.
