(* exp / ln / log1p on Coq's primitive binary64 floats (range reduction + Horner).
   Used only by the executable float instance of the model (correspondence with /repo);
   no theorem depends on the accuracy of these functions - it is *measured* on every run by
   the correspondence check against libm through NumPy. *)
From Coq Require Import ZArith List.
From Coq Require Import Floats.PrimFloat Floats.FloatOps Floats.SpecFloat Numbers.Cyclic.Int63.Uint63.
Import ListNotations.
Open Scope float_scope.

Definition ln2_hi := 0x1.62e42fee00000p-1.
Definition ln2_lo := 0x1.a39ef35793c76p-33.
Definition inv_ln2 := 0x1.71547652b82fep+0.
Definition magic := 6755399441055744.   (* 1.5 * 2^52: adding and subtracting rounds to the nearest integer *)

Definition f2Z (x : float) : Z :=       (* integer-valued float -> Z *)
  match Prim2SF x with
  | S754_finite s m e => let v := match e with
        | Z0 => Zpos m | Zpos p => (Zpos m * 2 ^ e)%Z | Zneg p => (Zpos m / 2 ^ (Zpos p))%Z end in
      if s then (- v)%Z else v
  | _ => 0%Z end.

Fixpoint horner (cs : list float) (x : float) : float :=
  match cs with [] => 0 | c :: r => c + x * horner r x end.

Definition exp_coefs : list float :=     (* 1/k!, k = 0..14 *)
  [1; 1; 0.5; 0x1.5555555555555p-3; 0x1.5555555555555p-5; 0x1.1111111111111p-7; 0x1.6c16c16c16c17p-10;
   0x1.a01a01a01a01ap-13; 0x1.a01a01a01a01ap-16; 0x1.71de3a556c734p-19; 0x1.27e4fb7789f5cp-22;
   0x1.ae64567f544e4p-26; 0x1.1eed8eff8d898p-29; 0x1.6124613a86d09p-33; 0x1.93974a8c07c9dp-37].

Definition fexp (x : float) : float :=
  if x <? -746 then 0
  else if 710 <? x then infinity
  else if x =? x then
    let k := (x * inv_ln2 + magic) - magic in
    let r := (x - k * ln2_hi) - k * ln2_lo in
    ldshiftexp (horner exp_coefs r) (Uint63.of_Z (f2Z k + FloatOps.shift)%Z)
  else nan.

Definition ln_coefs : list float :=      (* 1/(2k+1), k = 0..12, polynomial in s^2 *)
  [1; 0x1.5555555555555p-2; 0x1.999999999999ap-3; 0x1.2492492492492p-3; 0x1.c71c71c71c71cp-4; 0x1.745d1745d1746p-4;
   0x1.3b13b13b13b14p-4; 0x1.1111111111111p-4; 0x1.e1e1e1e1e1e1ep-5; 0x1.af286bca1af28p-5; 0x1.8618618618618p-5;
   0x1.642c8590b2164p-5; 0x1.47ae147ae147bp-5].

Definition fln (x : float) : float :=
  if x <? 0 then nan
  else if x =? 0 then neg_infinity
  else if x =? infinity then infinity
  else if x =? x then
    let '(m, e) := frshiftexp x in
    let ez := (Uint63.to_Z e - FloatOps.shift)%Z in
    let '(m, ez) := if m <? 0x1.6a09e667f3bcdp-1 then (m * 2, (ez - 1)%Z) else (m, ez) in
    let s := (m - 1) / (m + 1) in
    let lm := 2 * s * horner ln_coefs (s * s) in
    let ef := of_uint63 (Uint63.of_Z (Z.abs ez)) in
    let ef := if (ez <? 0)%Z then - ef else ef in
    (ef * ln2_hi + lm) + ef * ln2_lo
  else nan.

Definition flog1p (u : float) : float :=
  let w := 1 + u in if w =? 1 then u else if w =? infinity then infinity else fln w * u / (w - 1).

Definition fofnat (n : nat) : float := of_uint63 (Uint63.of_Z (Z.of_nat n)).

(* comparator shared by all correspondence checks: an infinity only ever matches the same infinity *)
Definition ffinite (a : float) : bool := abs a <? infinity.
Definition fclose (rtol atol a b : float) : bool :=
  if a =? b then true
  else if andb (ffinite a) (ffinite b) then abs (a - b) <=? atol + rtol * (abs a + abs b)
  else andb (negb (a =? a)) (negb (b =? b)).
Fixpoint fclose_list (rtol atol : float) (a b : list float) : bool :=
  match a, b with
  | [], [] => true
  | x :: a', y :: b' => andb (fclose rtol atol x y) (fclose_list rtol atol a' b')
  | _, _ => false
  end.
Fixpoint fclose_mat (rtol atol : float) (a b : list (list float)) : bool :=
  match a, b with
  | [], [] => true
  | x :: a', y :: b' => andb (fclose_list rtol atol x y) (fclose_mat rtol atol a' b')
  | _, _ => false
  end.
