(* Executable instance: primitive binary64 floats.  Every operation is eta-expanded, otherwise
   vm_compute leaves primitives reached through a functor argument unevaluated. *)
From Coq Require Import ZArith List Floats.PrimFloat.
From BLE Require Import Num.Scalar Num.FloatFun.
Open Scope float_scope.

Module InstF <: TRANSC.
  Definition T := float.
  Definition zero := 0%float.
  Definition one := 1%float.
  Definition add (x y : float) := PrimFloat.add x y.
  Definition sub (x y : float) := PrimFloat.sub x y.
  Definition mul (x y : float) := PrimFloat.mul x y.
  Definition div (x y : float) := PrimFloat.div x y.
  Definition opp (x : float) := PrimFloat.opp x.
  Definition leb (x y : float) := PrimFloat.leb x y.
  Definition ltb (x y : float) := PrimFloat.ltb x y.
  Definition eqb (x y : float) := PrimFloat.eqb x y.
  Definition ofnat (n : nat) := fofnat n.
  Definition half := 0.5%float.
  Definition exp (x : float) := fexp x.
  Definition ln (x : float) := fln x.
  Definition sqrt (x : float) := PrimFloat.sqrt x.
  Definition log1p (x : float) := flog1p x.
  Definition ln2 := 0x1.62e42fefa39efp-1.
  Definition ln2pi := 0x1.d67f1c864beb5p+0.
End InstF.
