(* Mathematical instance: Coq's real numbers.  Theorems are stated at this instance. *)
From Coq Require Import Reals.
From BLE Require Import Num.Scalar.
Open Scope R_scope.

Module InstR <: TRANSC.
  Definition T := R.
  Definition zero := 0.
  Definition one := 1.
  Definition add := Rplus.
  Definition sub := Rminus.
  Definition mul := Rmult.
  Definition div := Rdiv.
  Definition opp := Ropp.
  Definition leb (a b : R) : bool := if Rle_dec a b then true else false.
  Definition ltb (a b : R) : bool := if Rlt_dec a b then true else false.
  Definition eqb (a b : R) : bool := if Req_EM_T a b then true else false.
  Definition ofnat := INR.
  Definition half := / 2.
  Definition exp := exp.
  Definition ln := ln.
  Definition sqrt := sqrt.
  Definition log1p (x : R) := ln (1 + x).
  Definition ln2 := ln 2.
  Definition ln2pi := ln (2 * PI).
End InstR.

Ltac unfold_R := cbv [InstR.T InstR.zero InstR.one InstR.add InstR.sub InstR.mul InstR.div InstR.opp
                      InstR.ofnat InstR.half InstR.exp InstR.ln InstR.sqrt InstR.log1p InstR.ln2 InstR.ln2pi] in *.

Lemma leb_true a b : InstR.leb a b = true <-> a <= b.
Proof. unfold InstR.leb. destruct (Rle_dec a b); split; intros; auto; try discriminate; contradiction. Qed.
Lemma leb_false a b : InstR.leb a b = false <-> b < a.
Proof. unfold InstR.leb. destruct (Rle_dec a b); split; intros; auto; try discriminate. exfalso; apply (Rlt_irrefl a); eapply Rle_lt_trans; eauto. apply Rnot_le_lt; auto. Qed.
Lemma ltb_true a b : InstR.ltb a b = true <-> a < b.
Proof. unfold InstR.ltb. destruct (Rlt_dec a b); split; intros; auto; try discriminate; contradiction. Qed.
Lemma ltb_false a b : InstR.ltb a b = false <-> b <= a.
Proof. unfold InstR.ltb. destruct (Rlt_dec a b); split; intros; auto; try discriminate. exfalso; apply (Rlt_irrefl a); eapply Rlt_le_trans; eauto. apply Rnot_lt_le; auto. Qed.
Lemma eqb_true a b : InstR.eqb a b = true <-> a = b.
Proof. unfold InstR.eqb. destruct (Req_EM_T a b); split; intros; auto; try discriminate; contradiction. Qed.
Lemma eqb_false a b : InstR.eqb a b = false <-> a <> b.
Proof. unfold InstR.eqb. destruct (Req_EM_T a b); split; intros; auto; try discriminate; contradiction. Qed.
