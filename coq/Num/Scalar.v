(* Scalar signatures shared by every model functor.
   FIELD  : what the purely algebraic parts of the code need (k-means, statistics, M-steps,
            linear scoring, factor-analysis updates);
   TRANSC : FIELD plus the transcendental functions the GMM likelihood needs.
   The model functors are written once against these signatures and instantiated at
   R (theorems), at primitive binary64 floats (execution, correspondence with /repo) and,
   for FIELD-only functors, at Q (exact counter-examples). *)
From Coq Require Import ZArith.

Module Type FIELD.
  Parameter T : Type.
  Parameter zero one : T.
  Parameter add sub mul div : T -> T -> T.
  Parameter opp : T -> T.
  Parameter leb ltb eqb : T -> T -> bool.
  Parameter ofnat : nat -> T.
  Parameter half : T.                     (* 0.5 *)
End FIELD.

Module Type TRANSC.
  Include FIELD.
  Parameter exp ln sqrt log1p : T -> T.
  Parameter ln2 : T.                      (* ln 2, NumPy's NPY_LOGE2 *)
  Parameter ln2pi : T.                    (* ln (2 pi) *)
End TRANSC.
