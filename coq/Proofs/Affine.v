(* C15: equivariance / invariance under per-feature affine maps x_d -> a_d x_d + b_d (a_d <> 0). *)
From Coq Require Import Reals Lra List Lia Bool Arith.
From BLE Require Import Num.Scalar Num.InstR Lib.Vec Model.GMM Model.KMeans Model.LinScore
     Proofs.RLemmas Proofs.GMMLik Proofs.GMMStats Proofs.GMMEM Proofs.KMeansR Proofs.LinScoreR.
Import ListNotations.
Open Scope R_scope.

(* the transformation of samples, means and variances *)
Definition aff (a b x : list R) : list R := MR.V.map3 (fun ad bd xd => ad * xd + bd) a b x.
Definition aff_var (a v : list R) : list R := MR.V.map2 (fun ad vd => ad * ad * vd) a v.
Definition aff_gmm (a b : list R) (m : MR.gmm) : MR.gmm :=
  {| MR.ws := MR.ws m; MR.mus := map (aff a b) (MR.mus m); MR.vars := map (aff_var a) (MR.vars m) |}.
Definition sumlnabs (a : list R) : R := rsum (map (fun ad => ln (Rabs ad)) a).
Definition scale_ok (D : nat) (a b : list R) := length a = D /\ length b = D /\ Forall (fun ad => ad <> 0) a.

Section GMM.
Import MR.

(* ------------------------------------------------------------ index-form helpers *)
Lemma len_aff D a b x : length a = D -> length b = D -> length x = D -> length (aff a b x) = D.
Proof. intros Ha Hb Hx. unfold aff. rewrite len_map3. unfold InstR.T in *. lia. Qed.
Lemma len_aff_var D a v : length a = D -> length v = D -> length (aff_var a v) = D.
Proof. intros Ha Hv. unfold aff_var. rewrite len_map2. unfold InstR.T in *. lia. Qed.
Lemma nth_aff D a b x d : length a = D -> length b = D -> length x = D -> (d < D)%nat ->
  nth d (aff a b x) 0 = nth d a 0 * nth d x 0 + nth d b 0.
Proof.
  intros Ha Hb Hx Hd. unfold aff.
  apply (nth_map3 (fun ad bd xd : R => ad * xd + bd) a b x d 0 0 0 0); unfold InstR.T in *; lia.
Qed.
Lemma nth_aff_var D a v d : length a = D -> length v = D -> (d < D)%nat ->
  nth d (aff_var a v) 0 = nth d a 0 * nth d a 0 * nth d v 0.
Proof.
  intros Ha Hv Hd. unfold aff_var.
  apply (nth_map2 (fun ad vd : R => ad * ad * vd) a v d 0 0 0); unfold InstR.T in *; lia.
Qed.
Lemma list_ext_nth (l1 l2 : list R) n : length l1 = n -> length l2 = n ->
  (forall d, (d < n)%nat -> nth d l1 0 = nth d l2 0) -> l1 = l2.
Proof.
  intros H1 H2 H. rewrite (list_eq_seq l1 0), (list_eq_seq l2 0), H1, H2.
  apply map_ext_in. intros d Hd. apply in_seq in Hd. apply H. lia.
Qed.
Lemma sumlnabs_seq D a : length a = D -> sumlnabs a = rsum (map (fun d => ln (Rabs (nth d a 0))) (seq 0 D)).
Proof. intros Ha. unfold sumlnabs. rewrite (list_eq_seq a 0) at 1. rewrite map_map, Ha. reflexivity. Qed.

Lemma sq_abs a : a * a = Rabs a * Rabs a.
Proof. rewrite <- Rabs_mult. symmetry. apply Rabs_right. apply Rle_ge. apply Rle_0_sqr. Qed.
Lemma cellx_aff a b x mu v : a <> 0 -> 0 < v ->
  cellx (a * x + b) (a * mu + b) (a * a * v) = cellx x mu v - ln (Rabs a).
Proof.
  intros Ha Hv. unfold cellx.
  assert (Hp : 0 < Rabs a) by (apply Rabs_pos_lt; exact Ha).
  assert (Hq : 0 < a * a) by (rewrite sq_abs; apply Rmult_lt_0_compat; assumption).
  replace ((a * x + b - (a * mu + b)) * (a * x + b - (a * mu + b)) / (a * a * v)) with ((x - mu) * (x - mu) / v) by (field; lra).
  rewrite (ln_mult (a * a) v) by assumption.
  rewrite (sq_abs a). rewrite (ln_mult (Rabs a) (Rabs a)) by assumption. lra.
Qed.

(* per-component weighted log-likelihood shifts by - sum_d ln |a_d| *)
Theorem lwl_affine (D : nat) (a b : list R) (c : comp) (x : list R) :
  scale_ok D a b -> length x = D -> wf_comp D c ->
  let '(w, mu, v) := c in
  lwl (w, aff a b mu, aff_var a v) (aff a b x) = lwl c x - sumlnabs a.
Proof.
  intros (Ha & Hb & Hnz) Hx Hwf. destruct c as [[w mu] v]. destruct Hwf as (Hw & Hmu & Hv & Hpos). cbv beta iota. unfold InstR.T in *.
  rewrite (lwl_index w (aff a b mu) (aff_var a v) (aff a b x) D)
    by (first [apply len_aff | apply len_aff_var]; assumption).
  rewrite (lwl_index w mu v x D Hx Hmu Hv).
  rewrite (sumlnabs_seq D a Ha).
  rewrite (rsum_map_ext _ (fun d => cellx (nth d x 0) (nth d mu 0) (nth d v 0) - ln (Rabs (nth d a 0)))).
  - rewrite rsum_map_sub. lra.
  - intros d Hd. apply in_seq in Hd. cbv beta.
    rewrite !(nth_aff D a b) by (try assumption; lia).
    rewrite (nth_aff_var D a v) by (try assumption; lia).
    apply cellx_aff.
    + apply (Forall_nth_lt (fun ad : R => ad <> 0)); [exact Hnz|lia].
    + apply (Forall_nth_lt (fun ad : R => 0 < ad)); [exact Hpos|unfold InstR.T in *; lia].
Qed.

Definition affc (a b : list R) (c : comp) : comp := let '(w, mu, v) := c in (w, aff a b mu, aff_var a v).
Lemma comps_aff a b m : comps (aff_gmm a b m) = map (affc a b) (comps m).
Proof.
  destruct m as [w mu v]. unfold comps, aff_gmm. cbn [ws mus vars].
  revert mu v; induction w as [|x w IH]; intros [|y mu] [|z v]; cbn [map combine]; try reflexivity.
  rewrite IH. reflexivity.
Qed.
Lemma lwl_affc D a b c x : scale_ok D a b -> length x = D -> wf_comp D c ->
  lwl (affc a b c) (aff a b x) = lwl c x - sumlnabs a.
Proof. intros Hs Hx Hwf. pose proof (lwl_affine D a b c x Hs Hx Hwf) as K. destruct c as [[w mu] v]. exact K. Qed.

(* log-likelihood shifts by the same constant; responsibilities are invariant *)
Lemma ll_aff0 (D : nat) (a b : list R) (m : gmm) (x : list R) :
  scale_ok D a b -> length x = D -> wf_gmm D m ->
  ll (aff_gmm a b m) (aff a b x) = ll m x - sumlnabs a.
Proof.
  intros Hs Hx [Hne Hwf]. rewrite Forall_forall in Hwf.
  assert (Hne' : comps (aff_gmm a b m) <> []) by (rewrite comps_aff; destruct (comps m); simpl; congruence).
  rewrite (lwl_lse _ _ Hne'), (lwl_lse m x Hne).
  unfold lwls. rewrite comps_aff, !map_map.
  rewrite (rsum_map_ext _ (fun c => exp (lwl c x) * exp (- sumlnabs a))).
  - rewrite rsum_map_scal_r. rewrite ln_mult.
    + rewrite ln_exp. lra.
    + apply rsum_pos. destruct (comps m); simpl; congruence.
      rewrite Forall_map. apply Forall_forall. intros c _. apply exp_pos.
    + apply exp_pos.
  - intros c Hc. cbv beta. rewrite (lwl_affc D a b c x Hs Hx (Hwf c Hc)). unfold Rminus. apply exp_plus.
Qed.
Theorem ll_affine (D : nat) (a b : list R) (m : gmm) (x : list R) :
  scale_ok D a b -> length x = D -> wf_gmm D m ->
  length (ws m) = length (mus m) -> length (ws m) = length (vars m) ->
  ll (aff_gmm a b m) (aff a b x) = ll m x - sumlnabs a.
Proof. intros Hs Hx Hm _ _. exact (ll_aff0 D a b m x Hs Hx Hm). Qed.
Lemma resp_affc D a b m x c : scale_ok D a b -> length x = D -> wf_gmm D m -> wf_comp D c ->
  resp (aff_gmm a b m) (aff a b x) (affc a b c) = resp m x c.
Proof.
  intros Hs Hx Hm Hc. unfold resp.
  rewrite (ll_aff0 D a b m x Hs Hx Hm), (lwl_affc D a b c x Hs Hx Hc). unfold_R. f_equal. ring.
Qed.
Theorem resp_affine (D : nat) (a b : list R) (m : gmm) (x : list R) (c : comp) :
  scale_ok D a b -> length x = D -> wf_gmm D m -> wf_comp D c ->
  length (ws m) = length (mus m) -> length (ws m) = length (vars m) ->
  let '(w, mu, v) := c in
  resp (aff_gmm a b m) (aff a b x) (w, aff a b mu, aff_var a v) = resp m x c.
Proof.
  intros Hs Hx Hm Hc _ _. pose proof (resp_affc D a b m x c Hs Hx Hm Hc) as K.
  destruct c as [[w mu] v]. exact K.
Qed.

(* ------------------------------------------------------------ weighted sums in index form *)
Lemma nth_vscale k (y : list R) d : (d < length y)%nat -> nth d (V.vscale k y) 0 = k * nth d y 0.
Proof. intros H. unfold V.vscale. etransitivity; [apply (nth_map_lt (InstR.mul k) y d 0 0 H)|]. reflexivity. Qed.
Lemma nth_vmul (p q : list R) d : (d < length p)%nat -> (d < length q)%nat -> nth d (V.vmul p q) 0 = nth d p 0 * nth d q 0.
Proof. intros H1 H2. unfold V.vmul. etransitivity; [apply (nth_map2 InstR.mul p q d 0 0 0 H1 H2)|]. reflexivity. Qed.
Lemma nth_wsum D (F : list R -> list R) (g : list R -> R) (X : list (list R)) d : (d < D)%nat ->
  (forall x, In x X -> length (F x) = D /\ nth d (F x) 0 = g x) ->
  nth d (V.vsumv D (map F X)) 0 = rsum (map g X).
Proof.
  intros Hd H. rewrite nth_vsumv; [|exact Hd|].
  - rewrite map_map. apply rsum_map_ext. intros x Hx. apply H. exact Hx.
  - rewrite Forall_map. apply Forall_forall. intros x Hx. apply H. exact Hx.
Qed.
Lemma len_wsum D (F : list R -> list R) (X : list (list R)) :
  (forall x, In x X -> length (F x) = D) -> length (V.vsumv D (map F X)) = D.
Proof. intros H. apply Vvsumv_length. rewrite Forall_map. apply Forall_forall. exact H. Qed.

Lemma lin1 {A} (r f : A -> R) (X : list A) p q :
  rsum (map (fun x => r x * (p * f x + q)) X) = p * rsum (map (fun x => r x * f x) X) + q * rsum (map r X).
Proof. induction X as [|x X IH]; cbn [map rsum]; [ring|]. rewrite IH. ring. Qed.
Lemma lin2 {A} (r f : A -> R) (X : list A) p q :
  rsum (map (fun x => r x * (p * f x + q) * (p * f x + q)) X)
  = p * p * rsum (map (fun x => r x * f x * f x) X) + 2 * p * q * rsum (map (fun x => r x * f x) X) + q * q * rsum (map r X).
Proof. induction X as [|x X IH]; cbn [map rsum]; [ring|]. rewrite IH. ring. Qed.

Lemma S1_aff D a b (r : list R -> R) (X : list (list R)) : scale_ok D a b -> GMMStats.rows_ok D X ->
  V.vsumv D (map (fun x => V.vscale (r x) (aff a b x)) X)
  = V.map3 (fun ad bd s => ad * s + bd * rsum (map r X)) a b (V.vsumv D (map (fun x => V.vscale (r x) x) X)).
Proof.
  intros (Ha & Hb & Hnz) HX. unfold GMMStats.rows_ok in HX. rewrite Forall_forall in HX.
  assert (L1 : length (V.vsumv D (map (fun x => V.vscale (r x) x) X)) = D).
  { apply len_wsum. intros x Hx. rewrite vscale_length. now apply HX. }
  apply (list_ext_nth _ _ D).
  - apply len_wsum. intros x Hx. rewrite vscale_length. apply len_aff; auto.
  - rewrite len_map3. unfold InstR.T in *. rewrite Ha, Hb, L1. lia.
  - intros d Hd.
    rewrite (nth_wsum D _ (fun x => r x * (nth d a 0 * nth d x 0 + nth d b 0)) X d Hd).
    2:{ intros x Hx. pose proof (HX x Hx) as Lx. split.
        - rewrite vscale_length. apply len_aff; auto.
        - rewrite nth_vscale by (rewrite (len_aff D); auto). rewrite (nth_aff D); auto. }
    etransitivity; [|symmetry; apply (nth_map3 (fun ad bd s : R => ad * s + bd * rsum (map r X)) a b _ d 0 0 0 0); unfold InstR.T in *; lia].
    rewrite (nth_wsum D _ (fun x => r x * nth d x 0) X d Hd).
    2:{ intros x Hx. pose proof (HX x Hx) as Lx. split.
        - rewrite vscale_length. exact Lx.
        - rewrite nth_vscale by (unfold InstR.T in *; lia). reflexivity. }
    apply (lin1 r (fun x => nth d x 0)).
Qed.
Lemma S2_aff D a b (r : list R -> R) (X : list (list R)) : scale_ok D a b -> GMMStats.rows_ok D X ->
  V.vsumv D (map (fun x => V.vmul (V.vscale (r x) (aff a b x)) (aff a b x)) X)
  = V.map3 (fun (ab : R * R) s2 s1 => fst ab * fst ab * s2 + 2 * fst ab * snd ab * s1 + snd ab * snd ab * rsum (map r X))
           (combine a b) (V.vsumv D (map (fun x => V.vmul (V.vscale (r x) x) x) X))
           (V.vsumv D (map (fun x => V.vscale (r x) x) X)).
Proof.
  intros (Ha & Hb & Hnz) HX. unfold GMMStats.rows_ok in HX. rewrite Forall_forall in HX.
  assert (L1 : length (V.vsumv D (map (fun x => V.vscale (r x) x) X)) = D).
  { apply len_wsum. intros x Hx. rewrite vscale_length. now apply HX. }
  assert (L2 : length (V.vsumv D (map (fun x => V.vmul (V.vscale (r x) x) x) X)) = D).
  { apply len_wsum. intros x Hx. rewrite vmul_length; rewrite vscale_length; auto. }
  assert (Lc : length (combine a b) = D) by (rewrite combine_length; lia).
  apply (list_ext_nth _ _ D).
  - apply len_wsum. intros x Hx. pose proof (HX x Hx) as Lx.
    rewrite vmul_length; rewrite vscale_length; auto. apply len_aff; auto.
  - rewrite len_map3. unfold InstR.T in *. rewrite Lc, L1, L2. lia.
  - intros d Hd.
    rewrite (nth_wsum D _ (fun x => r x * (nth d a 0 * nth d x 0 + nth d b 0) * (nth d a 0 * nth d x 0 + nth d b 0)) X d Hd).
    2:{ intros x Hx. pose proof (HX x Hx) as Lx. pose proof (len_aff D a b x Ha Hb Lx) as La. split.
        - rewrite vmul_length; rewrite vscale_length; auto.
        - rewrite nth_vmul by (rewrite ?vscale_length; unfold InstR.T in *; lia).
          rewrite nth_vscale by (unfold InstR.T in *; lia). rewrite (nth_aff D); auto. }
    etransitivity; [|symmetry; apply (nth_map3 (fun (ab : R * R) s2 s1 => fst ab * fst ab * s2 + 2 * fst ab * snd ab * s1 + snd ab * snd ab * rsum (map r X))
                                         (combine a b) _ _ d (0, 0) 0 0 0); unfold InstR.T in *; lia].
    rewrite (combine_nth a b d 0 0) by lia. cbn [fst snd].
    rewrite (nth_wsum D _ (fun x => r x * nth d x 0 * nth d x 0) X d Hd).
    2:{ intros x Hx. pose proof (HX x Hx) as Lx. split.
        - rewrite vmul_length; rewrite vscale_length; auto.
        - rewrite nth_vmul by (rewrite ?vscale_length; unfold InstR.T in *; lia).
          rewrite nth_vscale by (unfold InstR.T in *; lia). reflexivity. }
    rewrite (nth_wsum D _ (fun x => r x * nth d x 0) X d Hd).
    2:{ intros x Hx. pose proof (HX x Hx) as Lx. split.
        - rewrite vscale_length. exact Lx.
        - rewrite nth_vscale by (unfold InstR.T in *; lia). reflexivity. }
    apply (lin2 r (fun x => nth d x 0)).
Qed.

(* the statistics transform accordingly: counts unchanged, first moments a*S1 + b*n, second moments a^2 S2 + 2ab S1 + b^2 n,
   total log-likelihood shifted by T * sum ln|a| *)
Theorem e_step_affine (D : nat) (a b : list R) (m : gmm) (X : list (list R)) :
  scale_ok D a b -> GMMStats.rows_ok D X -> wf_gmm D m ->
  length (ws m) = length (mus m) -> length (ws m) = length (vars m) ->
  let st := e_step D m X in
  let st' := e_step D (aff_gmm a b m) (map (aff a b) X) in
  s_t st' = s_t st /\ s_n st' = s_n st
  /\ s_px st' = V.map2 (fun sx n => V.map3 (fun ad bd s => ad * s + bd * n) a b sx) (s_px st) (s_n st)
  /\ s_pxx st' = V.map3 (fun sxx sx n => V.map3 (fun ab s2 s1 => fst ab * fst ab * s2 + 2 * fst ab * snd ab * s1 + snd ab * snd ab * n)
                                                (combine a b) sxx sx) (s_pxx st) (s_px st) (s_n st)
  /\ s_ll st' = s_ll st - INR (length X) * sumlnabs a.
Proof.
  intros Hs HX Hwf H1 H2 st st'. subst st st'.
  pose proof Hwf as [Hne Hall]. rewrite Forall_forall in Hall.
  pose proof HX as HX'. unfold GMMStats.rows_ok in HX'. rewrite Forall_forall in HX'.
  assert (Er : forall c x, In c (comps m) -> In x X -> resp (aff_gmm a b m) (aff a b x) (affc a b c) = resp m x c).
  { intros c x Hc Hx. apply (resp_affc D); auto. }
  cbn [e_step s_t s_n s_px s_pxx s_ll]. rewrite comps_aff, !map_map.
  split; [apply map_length|]. split; [|split; [|split]].
  - apply map_ext_in. intros c Hc. rewrite map_map. f_equal. apply map_ext_in. intros x Hx. now apply Er.
  - rewrite map2_map_same. apply map_ext_in. intros c Hc. rewrite map_map.
    rewrite (map_ext_in _ (fun x => V.vscale (resp m x c) (aff a b x))) by (intros x Hx; rewrite Er; auto).
    exact (S1_aff D a b (fun x => resp m x c) X Hs HX).
  - rewrite map3_map_same. apply map_ext_in. intros c Hc. rewrite map_map.
    rewrite (map_ext_in _ (fun x => V.vmul (V.vscale (resp m x c) (aff a b x)) (aff a b x))) by (intros x Hx; rewrite Er; auto).
    exact (S2_aff D a b (fun x => resp m x c) X Hs HX).
  - rewrite !GMMLik.Vvsum_eq.
    rewrite (rsum_map_ext _ (fun x => ll m x - sumlnabs a)) by (intros x Hx; apply (ll_affine D); auto).
    rewrite rsum_map_sub, rsum_const. reflexivity.
Qed.
End GMM.

(* ------------------------------------------------------------ M-step helpers (per component) *)
Lemma mean_aff D a b (s1 : list R) n : scale_ok D a b -> length s1 = D -> n <> 0 ->
  map (fun s => s / n) (MR.V.map3 (fun ad bd s => ad * s + bd * n) a b s1) = aff a b (map (fun s => s / n) s1).
Proof.
  intros (Ha & Hb & Hnz) H1 Hn.
  assert (Lm : length (map (fun s => s / n) s1) = D) by (rewrite map_length; exact H1).
  apply (list_ext_nth _ _ D).
  - rewrite map_length, len_map3. unfold InstR.T in *. lia.
  - apply len_aff; auto.
  - intros d Hd. rewrite (nth_aff D) by auto.
    rewrite (nth_map_lt (fun s => s / n) _ d 0 0) by (rewrite len_map3; unfold InstR.T in *; lia).
    rewrite (nth_map_lt (fun s => s / n) s1 d 0 0) by lia.
    etransitivity; [apply (f_equal (fun z => z / n)); apply (nth_map3 (fun ad bd s : R => ad * s + bd * n) a b s1 d 0 0 0 0); unfold InstR.T in *; lia|].
    field. exact Hn.
Qed.
Lemma var_aff D a b (s2 s1 : list R) n : scale_ok D a b -> length s1 = D -> length s2 = D -> n <> 0 ->
  MR.V.map2 (fun x mm => x / n - mm * mm)
            (MR.V.map3 (fun (ab : R * R) t2 t1 => fst ab * fst ab * t2 + 2 * fst ab * snd ab * t1 + snd ab * snd ab * n) (combine a b) s2 s1)
            (aff a b (map (fun s => s / n) s1))
  = aff_var a (MR.V.map2 (fun x mm => x / n - mm * mm) s2 (map (fun s => s / n) s1)).
Proof.
  intros (Ha & Hb & Hnz) H1 H2 Hn.
  assert (Lm : length (map (fun s => s / n) s1) = D) by (rewrite map_length; exact H1).
  assert (Lc : length (combine a b) = D) by (rewrite combine_length; lia).
  assert (L3 : length (MR.V.map3 (fun (ab : R * R) t2 t1 => fst ab * fst ab * t2 + 2 * fst ab * snd ab * t1 + snd ab * snd ab * n) (combine a b) s2 s1) = D)
    by (rewrite len_map3; unfold InstR.T in *; lia).
  assert (La : length (aff a b (map (fun s => s / n) s1)) = D) by (apply len_aff; auto).
  assert (L2 : length (MR.V.map2 (fun x mm => x / n - mm * mm) s2 (map (fun s => s / n) s1)) = D)
    by (rewrite len_map2; unfold InstR.T in *; lia).
  apply (list_ext_nth _ _ D).
  - rewrite len_map2. unfold InstR.T in *. lia.
  - apply len_aff_var; auto.
  - intros d Hd. rewrite (nth_aff_var D) by auto.
    etransitivity; [apply (nth_map2 (fun x mm : R => x / n - mm * mm) _ _ d 0 0 0); unfold InstR.T in *; lia|].
    rewrite (nth_aff D) by auto.
    rewrite (nth_map_lt (fun s => s / n) s1 d 0 0) by lia.
    rewrite (nth_map3 (fun (ab : R * R) t2 t1 => fst ab * fst ab * t2 + 2 * fst ab * snd ab * t1 + snd ab * snd ab * n)
                      (combine a b) s2 s1 d (0, 0) 0 0 0) by (unfold InstR.T in *; lia).
    rewrite (combine_nth a b d 0 0) by lia. cbn [fst snd].
    rewrite (nth_map2 (fun x mm : R => x / n - mm * mm) s2 (map (fun s => s / n) s1) d 0 0 0) by (unfold InstR.T in *; lia).
    rewrite (nth_map_lt (fun s => s / n) s1 d 0 0) by lia.
    field. exact Hn.
Qed.
Lemma fmax_scale k t v : 0 <= k -> MR.V.fmax (k * t) (k * v) = k * MR.V.fmax t v.
Proof.
  intros Hk. unfold MR.V.fmax.
  destruct (InstR.leb v t) eqn:E1; destruct (InstR.leb (k * v) (k * t)) eqn:E2; try reflexivity.
  - apply leb_true in E1. apply leb_false in E2. nra.
  - apply leb_false in E1. apply leb_true in E2. nra.
Qed.
Lemma clamp_row_aff a t v :
  MR.V.map2 (fun x y => MR.V.fmax x y) (aff_var a t) (aff_var a v) = aff_var a (MR.V.map2 (fun x y => MR.V.fmax x y) t v).
Proof.
  unfold aff_var. revert t v; induction a as [|a0 a IH]; intros [|t0 t] [|v0 v]; cbn [MR.V.map2]; try reflexivity.
  rewrite IH. f_equal. apply fmax_scale. apply Rle_0_sqr.
Qed.
Lemma clamp_aff a (th vs : list (list R)) :
  MR.clampv (map (aff_var a) th) (map (aff_var a) vs) = map (aff_var a) (MR.clampv th vs).
Proof.
  unfold MR.clampv. revert vs; induction th as [|t th IH]; intros [|v vs]; cbn [map MR.V.map2]; try reflexivity.
  rewrite IH. f_equal. apply clamp_row_aff.
Qed.

(* ML M-step (means and variances both updated, no floor active) is equivariant: means a*mu+b, variances a^2 var, weights unchanged *)
Definition floors_inactive_plain (eps : R) (st : MR.stats) (mc : MR.machine) : Prop :=
  Forall (fun n => eps <= n) (MR.s_n st) /\
  MR.clampv (MR.thr mc) (MR.ml_vars_updated_means st (MR.s_n st) (MR.V.map2 (fun sx n => map (fun s => s / n) sx) (MR.s_px st) (MR.s_n st)))
  = MR.ml_vars_updated_means st (MR.s_n st) (MR.V.map2 (fun sx n => map (fun s => s / n) sx) (MR.s_px st) (MR.s_n st)).
Theorem ml_m_step_affine (D : nat) (a b : list R) (eps : R) (m : MR.gmm) (X : list (list R)) (th : list (list R)) (uw : bool) :
  scale_ok D a b -> X <> [] -> GMMStats.rows_ok D X -> wf_gmm D m -> 0 < eps ->
  length (MR.ws m) = length (MR.mus m) -> length (MR.ws m) = length (MR.vars m) ->
  length th = length (MR.ws m) -> Forall (fun r => length r = D) th ->
  let sw := {| MR.upd_means := true; MR.upd_vars := true; MR.upd_ws := uw |} in
  let st := MR.e_step D m X in
  let st' := MR.e_step D (aff_gmm a b m) (map (aff a b) X) in
  let mc := {| MR.g := m; MR.thr := th |} in
  let mc' := {| MR.g := aff_gmm a b m; MR.thr := map (aff_var a) th |} in
  floors_inactive_plain eps st mc ->
  MR.g (MR.ml_m_step sw eps st' mc') = aff_gmm a b (MR.g (MR.ml_m_step sw eps st mc)).
Proof.
  intros Hs HXne HX Hwf Heps H1 H2 Hth Hthr sw st st' mc mc' [Hfl _].
  destruct (e_step_affine D a b m X Hs HX Hwf H1 H2) as (Et & En & Epx & Epxx & _).
  cbv zeta in Et, En, Epx, Epxx. fold st st' in Et, En, Epx, Epxx.
  assert (Hn : MR.s_n st = map (rN m X) (MR.comps m)) by reflexivity.
  assert (Hpx : MR.s_px st = map (rS1 D m X) (MR.comps m)) by reflexivity.
  assert (Hpxx : MR.s_pxx st = map (rS2 D m X) (MR.comps m)) by reflexivity.
  clearbody st st'.
  unfold MR.ml_m_step. subst sw mc mc'. cbn [MR.upd_means MR.upd_vars MR.upd_ws].
  rewrite En, Et, (fmax_id eps _ Hfl).
  assert (Emu : MR.V.map2 (fun sx n => map (fun s => InstR.div s n) sx) (MR.s_px st') (MR.s_n st)
                = map (aff a b) (MR.V.map2 (fun sx n => map (fun s => InstR.div s n) sx) (MR.s_px st) (MR.s_n st))).
  { rewrite Epx, Hpx, Hn. rewrite !map2_map_same, map_map. apply map_ext_in. intros c Hc.
    apply (mean_aff D); auto. apply len_rS1; exact HX.
    apply Rgt_not_eq. apply rN_pos. exact HXne. }
  assert (Ev : MR.ml_vars_updated_means st' (MR.s_n st) (map (aff a b) (MR.V.map2 (fun sx n => map (fun s => InstR.div s n) sx) (MR.s_px st) (MR.s_n st)))
               = map (aff_var a) (MR.ml_vars_updated_means st (MR.s_n st) (MR.V.map2 (fun sx n => map (fun s => InstR.div s n) sx) (MR.s_px st) (MR.s_n st)))).
  { unfold MR.ml_vars_updated_means. rewrite Epxx, Hpxx, Hpx, Hn.
    rewrite !map2_map_same, !map_map, !map3_map_same, map_map. apply map_ext_in. intros c Hc.
    apply (var_aff D); auto. apply len_rS1; exact HX. apply len_rS2; exact HX.
    apply Rgt_not_eq. apply rN_pos. exact HXne. }
  destruct uw; cbn [MR.set_ws MR.set_mus MR.set_vars MR.g MR.thr MR.ws MR.mus MR.vars];
    unfold aff_gmm; cbn [MR.ws MR.mus MR.vars]; unfold InstR.T in *;
    rewrite Emu, Ev, clamp_aff; reflexivity.
Qed.

(* linear scores are invariant *)
Section Score.
Import LR.
Definition aff_m (a b : list R) (M : list (list R)) := map (aff a b) M.
Definition scale_m (a : list R) (M : list (list R)) := map (fun r => MR.V.map2 (fun ad x => ad * x) a r) M.
Definition aff_tstat (a b : list R) (s : tstat) : tstat :=
  {| ts_n := ts_n s; ts_px := MR.V.map2 (fun sx n => MR.V.map3 (fun ad bd f => ad * f + bd * n) a b sx) (ts_px s) (ts_n s); ts_t := ts_t s |}.

Definition div_m (a : list R) (M : list (list R)) := map (fun r => MR.V.map2 (fun ad x => x / ad) a r) M.

Lemma row_amat a b m u v : Forall (fun ad => ad <> 0) a -> length b = length a ->
  MR.V.map3 (fun x y z => InstR.div (InstR.sub x y) z) (aff a b m) (aff a b u) (aff_var a v)
  = MR.V.map2 (fun ad x => x / ad) a (MR.V.map3 (fun x y z => InstR.div (InstR.sub x y) z) m u v).
Proof.
  intros Hnz. unfold aff, aff_var. revert b m u v.
  induction Hnz as [|a0 a Ha0 Hnz IH]; intros [|b0 b] [|m0 m] [|u0 u] [|v0 v] Hl;
    cbn [MR.V.map3 MR.V.map2 length] in *; try discriminate; try reflexivity.
  f_equal.
  - unfold_R. unfold Rdiv. rewrite !Rinv_mult. generalize (/ v0). intros iv. field. exact Ha0.
  - apply IH. lia.
Qed.
Lemma amat_aff a b model umu uvar : Forall (fun ad => ad <> 0) a -> length b = length a ->
  amat (aff_m a b model) (aff_m a b umu) (map (aff_var a) uvar) = div_m a (amat model umu uvar).
Proof.
  intros Hnz Hl. unfold amat, aff_m, div_m. rewrite LV_map3.
  revert umu uvar; induction model as [|m model IH]; intros [|u umu] [|v uvar]; cbn [map MR.V.map3]; try reflexivity.
  f_equal. apply row_amat; assumption. apply IH.
Qed.
Lemma row_bmat a b (n : R) px u o : length b = length a ->
  MR.V.map3 (fun f x y => InstR.sub f (InstR.mul n (InstR.add x y))) (MR.V.map3 (fun ad bd f => ad * f + bd * n) a b px) (aff a b u)
            (MR.V.map2 (fun ad x => ad * x) a o)
  = MR.V.map2 (fun ad x => ad * x) a (MR.V.map3 (fun f x y => InstR.sub f (InstR.mul n (InstR.add x y))) px u o).
Proof.
  unfold aff. revert b px u o.
  induction a as [|a0 a IH]; intros [|b0 b] [|p0 px] [|u0 u] [|o0 o] Hl;
    cbn [MR.V.map3 MR.V.map2 length] in *; try discriminate; try reflexivity.
  f_equal.
  - unfold_R. ring.
  - apply IH. lia.
Qed.
Lemma bmat_aff a b umu off s : length b = length a ->
  bmat (aff_m a b umu) (scale_m a off) (aff_tstat a b s) = scale_m a (bmat umu off s).
Proof.
  intros Hl. unfold bmat, aff_m, scale_m, aff_tstat. cbn [ts_px ts_n]. rewrite LV_map3.
  generalize (ts_px s) (ts_n s). intros px n. revert n umu off.
  induction px as [|p px IH]; intros [|n0 n] [|u umu] [|o off]; cbn [map combine MR.V.map3 MR.V.map2]; try reflexivity.
  f_equal. cbn [fst snd]. apply row_bmat; assumption. apply IH.
Qed.
Lemma map_rowmul (f : R -> R) a r : (forall ad x, f (ad * x) = ad * f x) ->
  map f (MR.V.map2 (fun ad x => ad * x) a r) = MR.V.map2 (fun ad x => ad * x) a (map f r).
Proof.
  intros Hf. revert r; induction a as [|a0 a IH]; intros [|x r]; cbn [map MR.V.map2]; try reflexivity.
  rewrite IH, Hf. reflexivity.
Qed.
Lemma normalise_scale eps norm a b s B :
  normalise eps norm (aff_tstat a b s) (scale_m a B) = scale_m a (normalise eps norm s B).
Proof.
  unfold normalise, aff_tstat. cbn [ts_t]. destruct norm; [|reflexivity].
  destruct (InstR.leb (V.fabs (ts_t s)) eps); unfold scale_m; rewrite !map_map; apply map_ext; intros r;
    apply map_rowmul; intros ad x; unfold_R; unfold Rdiv; ring.
Qed.
Lemma row_dot a (r1 r2 : list R) : Forall (fun ad => ad <> 0) a -> (length r1 <= length a)%nat ->
  V.dot (MR.V.map2 (fun ad x => x / ad) a r1) (MR.V.map2 (fun ad x => ad * x) a r2) = V.dot r1 r2.
Proof.
  intros Hnz. unfold V.dot, V.vmul. rewrite LV_map2. revert r1 r2.
  induction Hnz as [|a0 a Ha0 Hnz IH]; intros [|x r1] [|y r2] Hl; cbn [MR.V.map2 V.vsum length] in *; try reflexivity; try lia.
  rewrite IH by lia. unfold_R. field. exact Ha0.
Qed.
Lemma dot2_scale a A B : Forall (fun ad => ad <> 0) a -> Forall (fun r : list R => (length r <= length a)%nat) A ->
  dot2 (div_m a A) (scale_m a B) = dot2 A B.
Proof.
  intros Hnz HA. unfold dot2, div_m, scale_m. rewrite LV_map2. revert B.
  induction HA as [|r A Hr HA IH]; intros [|r' B]; cbn [map MR.V.map2 V.vsum]; try reflexivity.
  rewrite IH. rewrite row_dot by assumption. reflexivity.
Qed.
Lemma amat_rows D model umu uvar : Forall (fun r : list R => length r = D) model ->
  Forall (fun r : list R => (length r <= D)%nat) (amat model umu uvar).
Proof.
  intros H. unfold amat. rewrite LV_map3. revert umu uvar.
  induction H as [|m model Hm H IH]; intros [|u umu] [|v uvar]; cbn [MR.V.map3]; constructor.
  - rewrite len_map3. unfold InstR.T in *. lia.
  - apply IH.
Qed.

Theorem score_affine_invariant (eps : R) (norm : bool) (C D : nat) (a b : list R) (model umu uvar off : list (list R)) (s : tstat) :
  scale_ok D a b -> shape_ok C D model -> shape_ok C D umu -> shape_ok C D uvar -> shape_ok C D off -> tstat_ok C D s ->
  score1 eps norm (aff_m a b model) (aff_m a b umu) (map (aff_var a) uvar) (scale_m a off) (aff_tstat a b s)
  = score1 eps norm model umu uvar off s.
Proof.
  intros (Ha & Hb & Hnz) [Hm1 Hm2] _ _ _ _. unfold score1.
  rewrite amat_aff, bmat_aff, normalise_scale by (try assumption; lia).
  apply dot2_scale; [exact Hnz|]. rewrite Ha. apply amat_rows. exact Hm2.
Qed.
End Score.

(* k-means: translation and uniform scaling (x -> s x + t) preserve the assignment and scale distances by s^2 *)
Section KM.
Import KR.
Definition sim (s : R) (t x : list R) : list R := V.map2 (fun td xd => s * xd + td) t x.
Theorem sqdist_similarity (s : R) (t c x : list R) : length c = length x -> length t = length x ->
  sqdist (sim s t c) (sim s t x) = s * s * sqdist c x.
Proof.
  unfold sqdist, sim. revert c x; induction t as [|t0 t IH]; intros [|c0 c] [|x0 x] H1 H2;
    cbn [V.map2 V.vsum length] in *; try discriminate.
  - unfold_R. ring.
  - rewrite IH by lia. unfold V.sqr. unfold_R. ring.
Qed.

Lemma argmin_from_scale k (l : list R) : 0 < k -> forall best bi i,
  V.argmin_from (k * best) bi i (map (fun d => k * d) l) = V.argmin_from best bi i l.
Proof.
  intros Hk. induction l as [|x r IH]; intros best bi i; cbn [map V.argmin_from]; [reflexivity|].
  assert (E : InstR.ltb (k * x) (k * best) = InstR.ltb x best).
  { destruct (InstR.ltb x best) eqn:E.
    - apply ltb_true in E. apply ltb_true. apply Rmult_lt_compat_l; assumption.
    - apply ltb_false in E. apply ltb_false. apply Rmult_le_compat_l; lra. }
  rewrite E. destruct (InstR.ltb x best); apply IH.
Qed.
Lemma argmin_scale k (l : list R) : 0 < k -> V.argmin (map (fun d => k * d) l) = V.argmin l.
Proof. intros Hk. destruct l as [|x r]; cbn [map V.argmin]; [reflexivity|]. apply argmin_from_scale. exact Hk. Qed.

Theorem closest_similarity (D : nat) (s : R) (t : list R) (cents : list (list R)) (x : list R) :
  s <> 0 -> length t = D -> length x = D -> KMeansR.rows_ok D cents ->
  closest (map (sim s t) cents) (sim s t x) = closest cents x.
Proof.
  intros Hs Ht Hx Hc. unfold closest.
  assert (E : dists (map (sim s t) cents) (sim s t x) = map (fun d => s * s * d) (dists cents x)).
  { unfold dists. rewrite !map_map. apply map_ext_in. intros c Hin.
    unfold KMeansR.rows_ok in Hc. rewrite Forall_forall in Hc. pose proof (Hc c Hin) as Lc.
    apply sqdist_similarity; unfold InstR.T in *; lia. }
  rewrite E. apply argmin_scale.
  assert (0 <= s * s) by apply Rle_0_sqr. assert (s * s <> 0) by (apply Rmult_integral_contrapositive_currified; assumption). lra.
Qed.
End KM.

Print Assumptions ll_affine.
Print Assumptions ml_m_step_affine.
