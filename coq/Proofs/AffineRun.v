(* C15: a whole maximum-likelihood training run is equivariant under x -> a*x + b per feature (a <> 0): started from the
   transformed model (means a*mu+b, variances a^2*var, floors a^2*floor, same weights) on the transformed data, every iteration
   yields the transformed model of the original run and reports the original value shifted by -sum ln|a|; so with a fixed number
   of iterations (no convergence threshold) the trained GMM has means a*mu+b, variances a^2*var and unchanged weights.
   (With a threshold the relative-change test sees shifted values: known finding D14, Proofs/AffineStop.v.)
   Proviso, as in C03/C15: along the original run every model is a proper mixture and no variance / count floor is active;
   means and variances are both updated (weights optionally). *)
From Coq Require Import Reals Lra List Lia Bool Arith.
From BLE Require Import Num.Scalar Num.InstR Lib.Vec Model.GMM Proofs.RLemmas Proofs.GMMLik Proofs.GMMStats Proofs.GMMFit Proofs.Affine.
Import ListNotations.
Open Scope R_scope.
Import MR.

Definition aff_machine (a b : list R) (mc : machine) : machine :=
  {| g := aff_gmm a b (g mc); thr := map (aff_var a) (thr mc) |}.
Definition sw_mv (uw : bool) : switches := {| upd_means := true; upd_vars := true; upd_ws := uw |}.

(* along the next n iterations from mc: proper mixtures of the right shape, no floor active *)
Fixpoint run_ok (D : nat) (eps : R) (uw : bool) (X : list (list R)) (n : nat) (mc : machine) : Prop :=
  match n with
  | O => True
  | S k => wf_gmm D (g mc)
           /\ length (ws (g mc)) = length (mus (g mc)) /\ length (ws (g mc)) = length (vars (g mc))
           /\ length (thr mc) = length (ws (g mc)) /\ Forall (fun r => length r = D) (thr mc)
           /\ floors_inactive_plain eps (e_step D (g mc) X) mc
           /\ run_ok D eps uw X k (ml_m_step (sw_mv uw) eps (e_step D (g mc) X) mc)
  end.


(* ------------------------------------------------------------ helpers *)
Lemma thr_ml_m_step (sw : switches) (eps : R) (st : stats) (mc : machine) : thr (ml_m_step sw eps st mc) = thr mc.
Proof. unfold ml_m_step. destruct (upd_ws sw), (upd_means sw), (upd_vars sw); reflexivity. Qed.

Lemma machine_eq (m1 m2 : machine) : g m1 = g m2 -> thr m1 = thr m2 -> m1 = m2.
Proof. destruct m1, m2. cbn [g thr]. intros -> ->. reflexivity. Qed.

(* without a threshold the loop is the plain iteration *)
Lemma fit_loop_none (tr : trainer) (sw : switches) (eps : R) (nf : nat) (chunks : list (list (list R))) :
  forall cap step prev mc hist mc' h,
    iterate tr sw eps nf chunks cap mc = Some (mc', h) ->
    fit_loop cap step prev tr sw eps None nf chunks mc hist = Some (mc', (step + cap)%nat, h ++ hist).
Proof.
  induction cap as [|cap IH]; intros step prev mc hist mc' h H; cbn [iterate] in H; cbn [fit_loop].
  - inversion H; subst. rewrite Nat.add_0_r. reflexivity.
  - destruct (em_iter tr sw eps nf chunks mc) as [[mc1 cur]|] eqn:E; [|discriminate].
    destruct (iterate tr sw eps nf chunks cap mc1) as [[mc2 h2]|] eqn:E2; [|discriminate].
    inversion H; subst mc2 h. clear H. cbv zeta.
    replace (if Nat.ltb 1 (S step) then false else false) with false by (destruct (Nat.ltb 1 (S step)); reflexivity).
    rewrite (IH (S step) cur mc1 (cur :: hist) mc' h2 E2). rewrite <- app_assoc. cbn [app].
    replace (S step + cap)%nat with (step + S cap)%nat by lia. reflexivity.
Qed.

Theorem em_iter_affine (D : nat) (a b : list R) (eps : R) (uw : bool) (X : list (list R)) (mc mc1 : machine) (cur : R) :
  scale_ok D a b -> X <> [] -> GMMStats.rows_ok D X -> 0 < eps -> run_ok D eps uw X 1 mc ->
  em_iter ML (sw_mv uw) eps D [X] mc = Some (mc1, cur) ->
  em_iter ML (sw_mv uw) eps D [map (aff a b) X] (aff_machine a b mc) = Some (aff_machine a b mc1, cur - sumlnabs a).
Proof.
  intros Hs HXne HX Heps Hok H.
  cbn [run_ok] in Hok. destruct Hok as (Hwf & H1 & H2 & Hth & Hthr & Hfl & _).
  unfold em_iter in H |- *. cbn [map stats_reduce] in H |- *. inversion H; subst mc1 cur; clear H.
  cbn [m_step].
  destruct (Affine.e_step_affine D a b (g mc) X Hs HX Hwf H1 H2) as (Et & _ & _ & _ & Ell).
  cbv zeta in Et, Ell.
  assert (HN : INR (length X) <> 0).
  { apply not_0_INR. destruct X; [congruence|discriminate]. }
  f_equal. f_equal.
  - apply machine_eq.
    + destruct mc as [m th]. cbn [g thr] in *.
      exact (ml_m_step_affine D a b eps m X th uw Hs HXne HX Hwf Heps H1 H2 Hth Hthr Hfl).
    + rewrite thr_ml_m_step. unfold aff_machine. cbn [thr]. rewrite thr_ml_m_step. reflexivity.
  - unfold aff_machine. cbn [g]. rewrite Et, Ell. change (s_t (e_step D (g mc) X)) with (length X).
    change (V.vsum (map (ll (g mc)) X)) with (s_ll (e_step D (g mc) X)).
    generalize (s_ll (e_step D (g mc) X)). intros L. unfold_R. field. exact HN.
Qed.

Theorem ml_run_affine (D : nat) (a b : list R) (eps : R) (uw : bool) (X : list (list R)) :
  scale_ok D a b -> X <> [] -> GMMStats.rows_ok D X -> 0 < eps ->
  forall (n : nat) (mc mc' : machine) (hist : list R),
    run_ok D eps uw X n mc ->
    iterate ML (sw_mv uw) eps D [X] n mc = Some (mc', hist) ->
    iterate ML (sw_mv uw) eps D [map (aff a b) X] n (aff_machine a b mc)
    = Some (aff_machine a b mc', map (fun l => l - sumlnabs a) hist).
Proof.
  intros Hs HXne HX Heps.
  induction n as [|n IH]; intros mc mc' hist Hok Hit; cbn [iterate] in Hit |- *.
  - inversion Hit; subst. reflexivity.
  - destruct (em_iter ML (sw_mv uw) eps D [X] mc) as [[c1 cur]|] eqn:E; [|discriminate].
    destruct (iterate ML (sw_mv uw) eps D [X] n c1) as [[c2 h]|] eqn:E2; [|discriminate].
    inversion Hit; subst c2 hist. clear Hit.
    assert (Hok1 : run_ok D eps uw X 1 mc).
    { cbn [run_ok] in Hok |- *. destruct Hok as (A1 & A2 & A3 & A4 & A5 & A6 & _). exact (conj A1 (conj A2 (conj A3 (conj A4 (conj A5 (conj A6 I)))))). }
    assert (Ec1 : c1 = ml_m_step (sw_mv uw) eps (e_step D (g mc) X) mc).
    { unfold em_iter in E. cbn [map stats_reduce m_step] in E. inversion E. reflexivity. }
    assert (Hokn : run_ok D eps uw X n c1).
    { rewrite Ec1. cbn [run_ok] in Hok. apply Hok. }
    rewrite (em_iter_affine D a b eps uw X mc c1 cur Hs HXne HX Heps Hok1 E).
    rewrite (IH c1 mc' h Hokn E2).
    rewrite map_app. reflexivity.
Qed.

(* the training entry point with an iteration cap and no convergence threshold *)
Theorem ml_fit_affine_no_threshold (D : nat) (a b : list R) (eps : R) (uw : bool) (cap : nat) (X : list (list R))
    (mc mc' : machine) (n : nat) (hist : list R) :
  scale_ok D a b -> X <> [] -> GMMStats.rows_ok D X -> 0 < eps ->
  fit cap ML (sw_mv uw) eps None D [X] mc = Some (mc', n, hist) ->
  run_ok D eps uw X n mc ->
  fit cap ML (sw_mv uw) eps None D [map (aff a b) X] (aff_machine a b mc)
  = Some (aff_machine a b mc', n, map (fun l => l - sumlnabs a) hist).
Proof.
  intros Hs HXne HX Heps Hfit Hok.
  pose proof (fit_no_threshold ML (sw_mv uw) eps None D [X] cap mc mc' n hist eq_refl Hfit) as Hn.
  destruct (fit_iterations ML (sw_mv uw) eps None D [X] cap mc mc' n hist Hfit) as (_ & Hit & _).
  pose proof (ml_run_affine D a b eps uw X Hs HXne HX Heps n mc mc' hist Hok Hit) as Hit'.
  subst n. unfold fit.
  rewrite (fit_loop_none ML (sw_mv uw) eps D [map (aff a b) X] cap 0%nat InstR.zero (aff_machine a b mc) []
             (aff_machine a b mc') (map (fun l => l - sumlnabs a) hist) Hit').
  rewrite app_nil_r. reflexivity.
Qed.
