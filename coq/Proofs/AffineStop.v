(* C15 and the stopping rules.  A rescaling of the features by a shifts every reported average log-likelihood of a GMM
   by k = -sum ln|a| and multiplies every reported k-means criterion by s^2 (uniform scaling).  The k-means test (relative
   change of the criterion) is invariant; the GMM test (relative change of the log-likelihood) is NOT: it becomes
   |prev - cur| / |prev + k| <= threshold.  The second fact is the known finding D14 and is proved here as a refutation
   with a concrete witness. *)
From Coq Require Import Reals Lra List Bool.
From BLE Require Import Num.InstR Proofs.RLemmas Proofs.GMMFit Proofs.KMeansFit.
Import ListNotations.
Open Scope R_scope.

Lemma gmm_stop_after_shift th cur prev rest k :
  GMMFit.stops (Some th) (map (fun l => l + k) (cur :: prev :: rest)) = true <-> Rabs ((prev - cur) / (prev + k)) <= th.
Proof.
  cbn [map]. etransitivity; [exact (GMMFit.stops_spec (Some th) (cur + k) (prev + k) (map (fun l => l + k) rest) th eq_refl)|].
  unfold GMMFit.rel_change. replace (prev + k - (cur + k)) with (prev - cur) by lra. reflexivity.
Qed.

Theorem gmm_stop_rule_shift_invariant_refuted :
  exists th cur prev k, GMMFit.stops (Some th) [cur; prev] = true
                        /\ GMMFit.stops (Some th) (map (fun l => l + k) [cur; prev]) = false.
Proof.
  exists (1 / 50), (- (99 / 100)), (- 1), (3 / 4). split.
  - apply (GMMFit.stops_spec (Some (1 / 50)) _ _ [] (1 / 50) eq_refl). unfold GMMFit.rel_change.
    replace ((- 1 - - (99 / 100)) / - 1) with (1 / 100) by field. rewrite Rabs_pos_eq; lra.
  - destruct (GMMFit.stops (Some (1 / 50)) (map (fun l => l + 3 / 4) [- (99 / 100); - 1])) eqn:E; [|reflexivity].
    exfalso. apply gmm_stop_after_shift in E.
    replace ((- 1 - - (99 / 100)) / (- 1 + 3 / 4)) with (1 / 25) in E by field. rewrite Rabs_pos_eq in E; lra.
Qed.

(* k-means: uniform scaling by s multiplies every criterion by c = s^2 <> 0; translations and rotations leave it unchanged *)
Theorem kmeans_stop_rule_scale_invariant cthr c cur prev rest : c <> 0 -> prev <> 0 ->
  KMeansFit.stops cthr (map (Rmult c) (cur :: prev :: rest)) = KMeansFit.stops cthr (cur :: prev :: rest).
Proof.
  intros Hc Hp. destruct cthr as [th|]; [|reflexivity]. cbn [map]. apply eq_true_iff_eq.
  etransitivity; [exact (KMeansFit.stops_spec (Some th) (c * cur) (c * prev) (map (Rmult c) rest) th eq_refl)|].
  etransitivity; [|symmetry; exact (KMeansFit.stops_spec (Some th) cur prev rest th eq_refl)].
  unfold KMeansFit.rel_change. replace ((c * prev - c * cur) / (c * prev)) with ((prev - cur) / prev) by (field; split; assumption).
  reflexivity.
Qed.

(* Known finding D15: the ML mean update divides by the FLOORED count max(n, eps).  With the statistics of shifted data
   (sum_px + n*b) the update of a starved component (n < eps) is (s + n b) / eps, not s / eps + b: the claim "the ML mean update
   is shift-equivariant whatever the counts" is refuted by a witness (for n >= eps it holds: ml_m_step_affine in Affine.v). *)
Theorem starved_mean_update_shift_equivariant_refuted :
  exists eps n s b : R, 0 < eps /\ 0 <= n < eps /\ (s + n * b) / Rmax n eps <> s / Rmax n eps + b.
Proof.
  exists 1, 0, 0, 1. split; [lra|]. split; [lra|].
  rewrite Rmax_right by lra. replace ((0 + 0 * 1) / 1) with 0 by field. replace (0 / 1 + 1) with 1 by field. lra.
Qed.
