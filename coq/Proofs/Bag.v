(* C12: the regrouping of a bag of statistics into per-class lists (factor_analysis.py _prepare_dask_input):
   partitions are walked in order with ONE running index into the flat label list; the result depends only on
   the concatenation of the partitions, not on how the statistics are split into partitions. *)
From Coq Require Import List Arith Lia.
Import ListNotations.

Section Bag.
Variable A : Type.

(* walk the partitions; element j of the partition that starts at running index i gets label y[i+j] *)
Fixpoint assign (parts : list (list A)) (i : nat) (y : list nat) : list (nat * A) :=
  match parts with
  | [] => []
  | p :: ps => combine (firstn (length p) (skipn i y)) p ++ assign ps (i + length p) y
  end.
Definition regroup (K : nat) (parts : list (list A)) (y : list nat) : list (list A) :=
  map (fun k => map snd (filter (fun q => Nat.eqb (fst q) k) (assign parts 0 y))) (seq 0 K).

Lemma combine_app_len {X Y} (a1 a2 : list X) (b1 b2 : list Y) : length a1 = length b1 ->
  combine (a1 ++ a2) (b1 ++ b2) = combine a1 b1 ++ combine a2 b2.
Proof. revert b1; induction a1 as [|x a1 IH]; intros [|y b1] H; simpl in *; try discriminate; auto. now rewrite IH by lia. Qed.

Lemma firstn_add {X} a b (l : list X) : firstn (a + b) l = firstn a l ++ firstn b (skipn a l).
Proof. revert l; induction a as [|a IH]; intros [|x l]; simpl; auto. now rewrite firstn_nil. f_equal; apply IH. Qed.

Lemma skipn_add {X} a b (l : list X) : skipn b (skipn a l) = skipn (a + b) l.
Proof. revert l; induction a as [|a IH]; intros [|x l]; simpl; auto. now rewrite skipn_nil. Qed.

Lemma assign_flat (parts : list (list A)) : forall i y, (i + length (concat parts) <= length y)%nat ->
  assign parts i y = combine (firstn (length (concat parts)) (skipn i y)) (concat parts).
Proof.
  induction parts as [|p ps IH]; intros i y H; cbn [assign concat] in *; [now rewrite combine_nil|].
  rewrite app_length in *. rewrite IH by lia.
  assert (E : firstn (length p + length (concat ps)) (skipn i y)
              = firstn (length p) (skipn i y) ++ firstn (length (concat ps)) (skipn (i + length p) y)).
  { rewrite firstn_add, skipn_add. reflexivity. }
  rewrite E. symmetry. apply combine_app_len. rewrite firstn_length, skipn_length. lia.
Qed.

(* every number and size of partitions (mixed classes, single-element and empty partitions, unsorted labels)
   gives the groups of the single-partition bag *)
Theorem regroup_flatten (K : nat) (parts : list (list A)) (y : list nat) :
  (length (concat parts) <= length y)%nat -> regroup K parts y = regroup K [concat parts] y.
Proof.
  intros H. unfold regroup. apply map_ext. intros k. f_equal. f_equal.
  rewrite (assign_flat parts) by (simpl; lia).
  rewrite (assign_flat [concat parts]) by (simpl; rewrite app_nil_r; lia).
  simpl. now rewrite app_nil_r.
Qed.
(* two partitionings of the same sequence of statistics give the same groups *)
Corollary regroup_partition_independent (K : nat) (parts parts' : list (list A)) (y : list nat) :
  concat parts = concat parts' -> (length (concat parts) <= length y)%nat -> regroup K parts y = regroup K parts' y.
Proof. intros E H. rewrite (regroup_flatten K parts y H), (regroup_flatten K parts' y) by (rewrite <- E; exact H). now rewrite E. Qed.
(* every statistic lands in exactly one group: the group sizes add up to the number of statistics when labels are < K *)
Lemma sum_map_add (f g : nat -> nat) ks :
  fold_right Nat.add 0 (map (fun k => f k + g k) ks) = fold_right Nat.add 0 (map f ks) + fold_right Nat.add 0 (map g ks).
Proof. induction ks as [|k ks IH]; simpl; lia. Qed.
Lemma indicator_sum lab : forall n s, fold_right Nat.add 0 (map (fun k => if Nat.eqb lab k then 1 else 0) (seq s n))
  = if andb (Nat.leb s lab) (Nat.ltb lab (s + n)) then 1 else 0.
Proof.
  induction n as [|n IH]; intros s; cbn [seq map fold_right].
  - destruct (Nat.leb_spec s lab); destruct (Nat.ltb_spec lab (s + 0)); simpl; lia.
  - rewrite IH. destruct (Nat.eqb_spec lab s); destruct (Nat.leb_spec s lab); destruct (Nat.leb_spec (S s) lab);
      destruct (Nat.ltb_spec lab (S s + n)); destruct (Nat.ltb_spec lab (s + S n)); simpl; lia.
Qed.
Theorem regroup_counts (K : nat) (parts : list (list A)) (y : list nat) :
  length (concat parts) = length y -> Forall (fun l => (l < K)%nat) y ->
  fold_right Nat.add 0 (map (@length A) (regroup K parts y)) = length (concat parts).
Proof.
  intros Hl Hy. rewrite regroup_flatten by lia. unfold regroup. cbn [assign]. rewrite !app_nil_r. simpl skipn.
  rewrite firstn_all2 by lia. rewrite map_map.
  assert (G : forall (l : list (nat * A)), Forall (fun q => (fst q < K)%nat) l ->
             fold_right Nat.add 0 (map (fun k => length (map snd (filter (fun q => Nat.eqb (fst q) k) l))) (seq 0 K)) = length l).
  { induction l as [|[lab a] l IH]; intros F.
    - clear. induction (seq 0 K); simpl; auto.
    - inversion F as [|? ? Hq Fl]; subst. simpl in Hq. specialize (IH Fl).
      rewrite (map_ext _ (fun k => (if Nat.eqb lab k then 1 else 0) + length (map snd (filter (fun q : nat * A => Nat.eqb (fst q) k) l)))).
      + rewrite sum_map_add, IH, indicator_sum. simpl length.
        destruct (Nat.leb_spec 0 lab); destruct (Nat.ltb_spec lab (0 + K)); simpl; lia.
      + intros k. cbn [filter fst]. destruct (Nat.eqb lab k); reflexivity. }
  rewrite G.
  - rewrite combine_length. lia.
  - apply Forall_forall. intros [lab a] Hin. apply in_combine_l in Hin. rewrite Forall_forall in Hy. simpl. now apply Hy.
Qed.
End Bag.
