(* C04: training on any row chunking equals training on the whole array - the EM iteration and the
   whole loop (same model, same reported values, same number of iterations), GMM and k-means. *)
From Coq Require Import Reals Lra List Lia Bool Arith.
From BLE Require Import Num.Scalar Num.InstR Lib.Vec Model.GMM Model.KMeans Proofs.RLemmas Proofs.GMMLik Proofs.GMMStats Proofs.KMeansR.
Import ListNotations.
Open Scope R_scope.

(* ---------------------------------------------------------------- GMM *)
Import MR.
Theorem gmm_em_iter_chunks tr sw eps nf (B0 : list (list R)) (Bs : list (list (list R))) mc :
  GMMStats.rows_ok nf B0 -> Forall (GMMStats.rows_ok nf) Bs ->
  em_iter tr sw eps nf (B0 :: Bs) mc = em_iter tr sw eps nf [concat (B0 :: Bs)] mc.
Proof.
  intros H0 H. unfold em_iter. cbn [map]. rewrite GMMStats.e_step_concat by assumption. cbn [stats_reduce]. reflexivity.
Qed.
Theorem gmm_fit_chunks cap tr sw eps cthr nf (B0 : list (list R)) (Bs : list (list (list R))) mc :
  GMMStats.rows_ok nf B0 -> Forall (GMMStats.rows_ok nf) Bs ->
  fit cap tr sw eps cthr nf (B0 :: Bs) mc = fit cap tr sw eps cthr nf [concat (B0 :: Bs)] mc.
Proof.
  intros H0 H. unfold fit.
  assert (G : forall cap step prev mc hist,
     fit_loop cap step prev tr sw eps cthr nf (B0 :: Bs) mc hist = fit_loop cap step prev tr sw eps cthr nf [concat (B0 :: Bs)] mc hist);
    [|apply G].
  clear mc cap. induction cap as [|cap IH]; intros step prev mc hist; cbn [fit_loop]; [reflexivity|].
  rewrite gmm_em_iter_chunks by assumption.
  destruct (em_iter tr sw eps nf [concat (B0 :: Bs)] mc) as [[mc' cur]|]; [|reflexivity].
  cbv zeta. match goal with |- (if ?c then _ else _) = _ => destruct c end; [reflexivity|apply IH].
Qed.

(* ---------------------------------------------------------------- k-means *)
Theorem kmeans_fit_chunks cap cthr nf (B0 : list (list R)) (Bs : list (list (list R))) cents :
  KMeansR.rows_ok nf B0 -> Forall (KMeansR.rows_ok nf) Bs ->
  KR.fit cap cthr nf (B0 :: Bs) cents = KR.fit cap cthr nf [concat (B0 :: Bs)] cents.
Proof.
  intros H0 H. unfold KR.fit.
  assert (G : forall cap step prev cents hist,
     KR.fit_loop cap step prev cthr nf (B0 :: Bs) cents hist = KR.fit_loop cap step prev cthr nf [concat (B0 :: Bs)] cents hist);
    [|apply G].
  clear cents cap. induction cap as [|cap IH]; intros step prev cents hist; cbn [KR.fit_loop]; [reflexivity|].
  rewrite em_iter_chunk_independent by assumption.
  destruct (KR.em_iter nf [concat (B0 :: Bs)] cents) as [[c' cur]|]; [|reflexivity].
  cbv zeta. match goal with |- (if ?c then _ else _) = _ => destruct c end; [reflexivity|apply IH].
Qed.
