(* C04 / C12 / C16: the ISV / JFA training accumulators are sums over classes - additive over any split of the
   class list (per-class Dask tasks + reduce_iadd = the in-memory loop) and invariant under any permutation of
   the classes (renaming the class ids). *)
From Coq Require Import Reals Lra List Lia Bool Arith Permutation.
From BLE Require Import Num.Scalar Num.InstR Lib.Vec Model.FA Proofs.RLemmas Proofs.FAEnroll.
Import ListNotations.
Open Scope R_scope.
Import FR.

(* addition of accumulator pairs as reduce_iadd performs it *)
Definition acc_w_add (a b : list (list (list R)) * list (list R)) : list (list (list R)) * list (list R) :=
  (V.map2 V.madd (fst a) (fst b), V.madd (snd a) (snd b)).
Definition acc_d_add (a b : list R * list R) : list R * list R := (V.vadd (fst a) (fst b), V.vadd (snd a) (snd b)).

Definition classes_ok (C D : nat) (classes : list (list gstat)) := Forall (Forall (gstat_ok C D)) classes.


(* ================================================================ generic helpers *)
Lemma map2_comm {A B} (f : A -> A -> B) a b : (forall x y, f x y = f y x) -> V.map2 f a b = V.map2 f b a.
Proof. intros H. revert b; induction a as [|x a IH]; intros [|y b]; cbn [V.map2]; auto. now rewrite H, IH. Qed.
Lemma map2_assoc {A} (f : A -> A -> A) a b c : (forall x y z, f x (f y z) = f (f x y) z) ->
  V.map2 f a (V.map2 f b c) = V.map2 f (V.map2 f a b) c.
Proof. intros H. revert b c; induction a as [|x a IH]; intros [|y b] [|z c]; cbn [V.map2]; auto. now rewrite H, IH. Qed.
Lemma vadd_comm (a b : list R) : V.vadd a b = V.vadd b a.
Proof. apply map2_comm. intros; unfold_R; ring. Qed.
Lemma vadd_assoc (a b c : list R) : V.vadd a (V.vadd b c) = V.vadd (V.vadd a b) c.
Proof. apply map2_assoc. intros; unfold_R; ring. Qed.
Lemma madd_comm (a b : list (list R)) : V.madd a b = V.madd b a.
Proof. apply map2_comm. apply vadd_comm. Qed.
Lemma madd_assoc (a b c : list (list R)) : V.madd a (V.madd b c) = V.madd (V.madd a b) c.
Proof. apply map2_assoc. apply vadd_assoc. Qed.

(* the zero of a given size is an identity for every operand that is not larger (binary operations truncate) *)
Lemma vadd_zero_le n (a : list R) : (length a <= n)%nat -> V.vadd (V.vzero n) a = a.
Proof.
  unfold V.vadd, V.vzero. revert a; induction n as [|n IH]; intros [|x a] H; cbn [repeat V.map2 length] in *; auto; try lia.
  rewrite IH by lia. f_equal. unfold_R; ring.
Qed.
Definition le_shape (r c : nat) (m : list (list R)) := (length m <= r)%nat /\ Forall (fun row => (length row <= c)%nat) m.
Lemma madd_zero_le r c m : le_shape r c m -> V.madd (V.mzero r c) m = m.
Proof.
  unfold V.madd, V.mzero. intros [L Fm]. revert r L; induction Fm as [|x m Hx Hm IH]; intros [|r] L; cbn [repeat V.map2 length] in *; auto; try lia.
  rewrite IH by lia. f_equal. now apply vadd_zero_le.
Qed.
Lemma le_shape_mzero r c : le_shape r c (V.mzero r c).
Proof.
  split. unfold V.mzero. rewrite repeat_length. lia.
  apply Forall_forall. intros x Hx. apply repeat_spec in Hx. subst. rewrite len_vzero. lia.
Qed.
Lemma le_shape_madd_r r c a b : le_shape r c b -> le_shape r c (V.madd a b).
Proof.
  intros [L Fb]. split. unfold V.madd. rewrite len_map2. lenR.
  unfold V.madd. clear L. revert a; induction Fb as [|y b Hy Hb IH]; intros [|x a]; cbn [V.map2]; constructor.
  unfold V.vadd. rewrite len_map2. lenR. apply IH.
Qed.
Lemma le_shape_msum r c l : le_shape r c (fold_right V.madd (V.mzero r c) l).
Proof. induction l; cbn [fold_right]. apply le_shape_mzero. now apply le_shape_madd_r. Qed.
Lemma len_vsum_le n (l : list (list R)) : (length (fold_right V.vadd (V.vzero n) l) <= n)%nat.
Proof. induction l; cbn [fold_right]. rewrite len_vzero; lia. unfold V.vadd at 1. rewrite len_map2. lenR. Qed.

(* folds of a commutative associative operation *)
Section Fold.
Context {A : Type} (f : A -> A -> A) (z : A).
Hypothesis f_comm : forall x y, f x y = f y x.
Hypothesis f_assoc : forall x y w, f x (f y w) = f (f x y) w.
Lemma fold_perm l l' : Permutation l l' -> fold_right f z l = fold_right f z l'.
Proof.
  induction 1; cbn [fold_right]; auto.
  - now rewrite IHPermutation.
  - rewrite !f_assoc. now rewrite (f_comm y x).
  - congruence.
Qed.
Lemma fold_app l1 l2 : f z (fold_right f z l2) = fold_right f z l2 ->
  fold_right f z (l1 ++ l2) = f (fold_right f z l1) (fold_right f z l2).
Proof.
  intros Hz. induction l1 as [|x l1 IH]; cbn [app fold_right]. now symmetry.
  rewrite IH. apply f_assoc.
Qed.
End Fold.

Lemma msum_app r c l1 l2 : fold_right V.madd (V.mzero r c) (l1 ++ l2)
  = V.madd (fold_right V.madd (V.mzero r c) l1) (fold_right V.madd (V.mzero r c) l2).
Proof. apply fold_app. apply madd_assoc. apply madd_zero_le. apply le_shape_msum. Qed.
Lemma msum_perm r c l l' : Permutation l l' -> fold_right V.madd (V.mzero r c) l = fold_right V.madd (V.mzero r c) l'.
Proof. apply fold_perm. apply madd_comm. apply madd_assoc. Qed.
Lemma vsum_app n l1 l2 : fold_right V.vadd (V.vzero n) (l1 ++ l2)
  = V.vadd (fold_right V.vadd (V.vzero n) l1) (fold_right V.vadd (V.vzero n) l2).
Proof. apply fold_app. apply vadd_assoc. apply vadd_zero_le. apply len_vsum_le. Qed.

Lemma fold_right_map_f {A B} (f : B -> B -> B) (g : A -> B) z l :
  fold_right (fun x acc => f (g x) acc) z l = fold_right f z (map g l).
Proof. induction l; cbn [fold_right map]; auto. now rewrite IHl. Qed.
Lemma map2_map_map {A B C D} (f : B -> C -> D) (g : A -> B) (h : A -> C) l :
  V.map2 f (map g l) (map h l) = map (fun x => f (g x) (h x)) l.
Proof. induction l; cbn [map V.map2]; auto. now rewrite IHl. Qed.
Lemma map3_app {A B C D} (f : A -> B -> C -> D) a1 a2 b1 b2 c1 c2 : length b1 = length a1 -> length c1 = length a1 ->
  V.map3 f (a1 ++ a2) (b1 ++ b2) (c1 ++ c2) = V.map3 f a1 b1 c1 ++ V.map3 f a2 b2 c2.
Proof.
  revert b1 c1; induction a1 as [|x a1 IH]; intros [|y b1] [|w c1] H1 H2; cbn [length app V.map3] in *; try discriminate; auto.
  f_equal. apply IH; lia.
Qed.
Lemma combine_app' {A B} (a1 a2 : list A) (b1 b2 : list B) : length a1 = length b1 ->
  combine (a1 ++ a2) (b1 ++ b2) = combine a1 b1 ++ combine a2 b2.
Proof.
  revert b1; induction a1 as [|x a1 IH]; intros [|y b1] H; cbn [length app combine] in *; try discriminate; auto.
  f_equal. apply IH; lia.
Qed.
Lemma map3_maps {A B C D E G} (f : B -> C -> (D * E) -> G) (a : A -> B) (b : A -> C) (c : A -> D) (d : A -> E) l :
  V.map3 f (map a l) (map b l) (combine (map c l) (map d l)) = map (fun t => f (a t) (b t) (c t, d t)) l.
Proof. induction l; cbn [map combine V.map3]; auto. now rewrite IHl. Qed.
Lemma Permutation_concat_map {A B} (g : A -> list B) l l' : Permutation l l' -> Permutation (concat (map g l)) (concat (map g l')).
Proof. intros H. rewrite <- !flat_map_concat_map. now apply Permutation_flat_map. Qed.

(* the common form of the U and V accumulators: a pair of sums over a list [per] *)
Definition accW {P} (r len C : nat) (h1 : nat -> P -> list (list R)) (h2 : P -> list (list R)) (per : list P)
  : list (list (list R)) * list (list R) :=
  (map (fun c => fold_right V.madd (V.mzero r r) (map (h1 c) per)) (seq 0 C),
   fold_right V.madd (V.mzero len r) (map h2 per)).
Lemma accW_app {P} r len C h1 h2 (p1 p2 : list P) :
  accW r len C h1 h2 (p1 ++ p2) = acc_w_add (accW r len C h1 h2 p1) (accW r len C h1 h2 p2).
Proof.
  unfold accW, acc_w_add. cbn [fst snd]. f_equal.
  - rewrite map2_map_map. apply map_ext. intros c. rewrite map_app. apply msum_app.
  - rewrite map_app. apply msum_app.
Qed.
Lemma accW_perm {P} r len C h1 h2 (p p' : list P) : Permutation p p' -> accW r len C h1 h2 p = accW r len C h1 h2 p'.
Proof.
  intros H. unfold accW. f_equal.
  - apply map_ext. intros c. apply msum_perm. now apply Permutation_map.
  - apply msum_perm. now apply Permutation_map.
Qed.
Lemma outer_acc_fold len r (pairs : list (list R * list R)) :
  outer_acc len r pairs = fold_right V.madd (V.mzero len r) (map (fun p => V.outer (fst p) (snd p)) pairs).
Proof. unfold outer_acc. apply fold_right_map_f. Qed.

Section Acc.
Variable inv : list (list R) -> list (list R).
Variables (C D rU rV : nat) (u : ubm) (F : fa).
Hypothesis Hu : ubm_ok C D u.
Hypothesis HF : fa_ok C D rU rV F.
(* the inverse returns matrices of the right shape (needed only for the shapes of the accumulators) *)
Hypothesis Hinv_shape_U : forall A, length (inv A) = rU /\ Forall (fun r => length r = rU) (inv A).
Hypothesis Hinv_shape_V : forall A, length (inv A) = rV /\ Forall (fun r => length r = rV) (inv A).


(* the accumulators in the common form *)
Definition u_class (Xi : list gstat) (y : option (list R)) (zz : option (list R) * option (list R))
  : list (list (list R) * list R * list R * list R) :=
  let uprod := wprod rU D u (fU F) in
  let xs := latent_x_class inv rU D u F uprod Xi (fst zz) y in
  V.map2 (fun s x => (V.madd (id_plus_prod_inv inv rU uprod (g_n s)) (V.outer x x), g_n s, fn_x D u F s (snd zz) y, x)) Xi xs.
Definition u_h1 (c : nat) (q : list (list R) * list R * list R * list R) : list (list R) :=
  V.mscale (nth c (snd (fst (fst q))) 0) (fst (fst (fst q))).
Definition u_h2 (q : list (list R) * list R * list R * list R) : list (list R) := V.outer (snd (fst q)) (snd q).
Lemma acc_u_form cl ys zs zf : acc_u inv rU D u F cl ys zs zf
  = accW rU (length (u_mu u) * D) (length (u_mu u)) u_h1 u_h2 (concat (V.map3 u_class cl ys (combine zs zf))).
Proof. unfold acc_u, accW. rewrite outer_acc_fold, map_map. reflexivity. Qed.
Lemma acc_u_perm_maps {T} (a : T -> list gstat) (b c d : T -> option (list R)) (l l' : list T) : Permutation l l' ->
  acc_u inv rU D u F (map a l) (map b l) (map c l) (map d l) = acc_u inv rU D u F (map a l') (map b l') (map c l') (map d l').
Proof. intros H. rewrite !acc_u_form, !map3_maps. apply accW_perm. now apply Permutation_concat_map. Qed.

Definition v_class (Xi : list gstat) : list R * list (list R) * list R * list R :=
  (estep_v_class inv rU rV D u F (wprod rV D u (fV F)) Xi, sum_n (length (u_mu u)) Xi).
Definition v_h1 (c : nat) (p : list R * list (list R) * list R * list R) : list (list R) :=
  V.mscale (nth c (snd p) 0) (snd (fst (fst p))).
Definition v_h2 (p : list R * list (list R) * list R * list R) : list (list R) := V.outer (snd (fst p)) (fst (fst (fst p))).
Lemma acc_v_form cl : acc_v inv rU rV D u F cl
  = accW rV (length (u_mu u) * D) (length (u_mu u)) v_h1 v_h2 (map v_class cl).
Proof. unfold acc_v, accW. rewrite outer_acc_fold, map_map. reflexivity. Qed.

Definition d_class (Xi : list gstat) (xs : list (list R)) (y : option (list R)) : list R * list R :=
  let C := length (u_mu u) in
  let nacc := sum_n C Xi in let facc := sum_f C D Xi in
  let z := update_z_class D u F Xi xs y nacc facc in
  (V.vmul (V.vadd (id_plus_d_inv D u F nacc) (V.vmul z z)) (rep D nacc), V.vmul (fn_z D u F Xi xs y nacc facc) z).
Lemma acc_d_form cl xss ys : acc_d rU D u F cl xss ys
  = (fold_right V.vadd (V.vzero (length (u_mu u) * D)) (map fst (V.map3 d_class cl xss ys)),
     fold_right V.vadd (V.vzero (length (u_mu u) * D)) (map snd (V.map3 d_class cl xss ys))).
Proof. unfold acc_d. cbv zeta. f_equal; apply fold_right_map_f. Qed.

(* ---- U accumulators (ISV E-step and JFA U phase) *)
Theorem acc_u_app (cl1 cl2 : list (list gstat)) (ys1 ys2 zs1 zs2 zf1 zf2 : list (option (list R))) :
  classes_ok C D cl1 -> classes_ok C D cl2 ->
  length ys1 = length cl1 -> length zs1 = length cl1 -> length zf1 = length cl1 ->
  length ys2 = length cl2 -> length zs2 = length cl2 -> length zf2 = length cl2 ->
  acc_u inv rU D u F (cl1 ++ cl2) (ys1 ++ ys2) (zs1 ++ zs2) (zf1 ++ zf2)
  = acc_w_add (acc_u inv rU D u F cl1 ys1 zs1 zf1) (acc_u inv rU D u F cl2 ys2 zs2 zf2).
Proof using All.
  intros _ _ Hy1 Hz1 Hf1 Hy2 Hz2 Hf2. rewrite !acc_u_form.
  rewrite combine_app' by lenR. rewrite map3_app by (try rewrite combine_length; lenR).
  rewrite concat_app. apply accW_app.
Qed.

(* one tuple per class: (statistics, y, z used for x, z used in fn_x) *)
Definition unzip4 (l : list (list gstat * option (list R) * option (list R) * option (list R))) :=
  (map (fun t => fst (fst (fst t))) l, map (fun t => snd (fst (fst t))) l, map (fun t => snd (fst t)) l, map (fun t => snd t) l).
Theorem acc_u_perm (l l' : list (list gstat * option (list R) * option (list R) * option (list R))) :
  Permutation l l' -> classes_ok C D (map (fun t => fst (fst (fst t))) l) ->
  let '(cl, ys, zs, zf) := unzip4 l in let '(cl', ys', zs', zf') := unzip4 l' in
  acc_u inv rU D u F cl ys zs zf = acc_u inv rU D u F cl' ys' zs' zf'.
Proof using All.
  intros H _. unfold unzip4. cbv beta iota. now apply acc_u_perm_maps.
Qed.

(* ---- V accumulators (JFA V phase) *)
Theorem acc_v_app (cl1 cl2 : list (list gstat)) : classes_ok C D cl1 -> classes_ok C D cl2 ->
  acc_v inv rU rV D u F (cl1 ++ cl2) = acc_w_add (acc_v inv rU rV D u F cl1) (acc_v inv rU rV D u F cl2).
Proof using All.
  intros _ _. rewrite !acc_v_form, map_app. apply accW_app.
Qed.
Theorem acc_v_perm (cl cl' : list (list gstat)) : Permutation cl cl' -> classes_ok C D cl ->
  acc_v inv rU rV D u F cl = acc_v inv rU rV D u F cl'.
Proof using All.
  intros H _. rewrite !acc_v_form. apply accW_perm. now apply Permutation_map.
Qed.

(* ---- D accumulators (JFA D phase) *)
Theorem acc_d_app (cl1 cl2 : list (list gstat)) (xs1 xs2 : list (list (list R))) (ys1 ys2 : list (option (list R))) :
  classes_ok C D cl1 -> classes_ok C D cl2 ->
  length xs1 = length cl1 -> length ys1 = length cl1 -> length xs2 = length cl2 -> length ys2 = length cl2 ->
  acc_d rU D u F (cl1 ++ cl2) (xs1 ++ xs2) (ys1 ++ ys2) = acc_d_add (acc_d rU D u F cl1 xs1 ys1) (acc_d rU D u F cl2 xs2 ys2).
Proof using All.
  intros _ _ Hx1 Hy1 Hx2 Hy2. rewrite !acc_d_form. rewrite map3_app by lenR. rewrite !map_app, !vsum_app. reflexivity.
Qed.

(* ---- consequences: one ISV training iteration and one JFA V iteration do not depend on the order
        (numbering) of the classes *)
Theorem isv_iter_class_order (cl cl' : list (list gstat)) : Permutation cl cl' -> classes_ok C D cl ->
  isv_iter inv rU D u cl F = isv_iter inv rU D u cl' F.
Proof using All.
  intros H _. unfold isv_iter. cbv zeta.
  match goal with |- context [acc_u inv rU D u F cl ?n1 ?n2 (map ?g cl)] =>
    pose proof (acc_u_perm_maps (fun Xi => Xi) (fun _ => None) (fun _ => None)
                  (fun Xi => g Xi) cl cl' H) as E end.
  rewrite !map_id in E. cbv beta in E. unfold InstR.T in *. rewrite E. reflexivity.
Qed.
Theorem jfa_iter_v_class_order (cl cl' : list (list gstat)) : Permutation cl cl' -> classes_ok C D cl ->
  jfa_iter_v inv rU rV D u cl F = jfa_iter_v inv rU rV D u cl' F.
Proof using All.
  intros H Hc. unfold jfa_iter_v. rewrite (acc_v_perm cl cl' H Hc). reflexivity.
Qed.
End Acc.

Print Assumptions acc_v_perm.
Print Assumptions isv_iter_class_order.
