(* C15: the latent factors of ISV and JFA do not depend on the units or the origin of the features.  Under x -> a*x + b per
   feature (a <> 0) with the UBM transformed like the features (means a*mu+b, variances a^2*var), every row j = (c, d) of U and V
   and every entry j of D scaled by a_d, and the statistics of the transformed data (counts unchanged, first order a*F + N b):
   the channel factor of a probe, the enrolled ISV offset z and the enrolled JFA factors (y, z) are unchanged, for any number of
   enrolment iterations, and the client mean supervector follows the features. *)
From Coq Require Import Reals Lra List Lia Bool Arith.
From BLE Require Import Num.Scalar Num.InstR Lib.Vec Model.FA Proofs.RLemmas Proofs.FAEnroll Proofs.Affine.
Import ListNotations.
Open Scope R_scope.
Import FR.

(* the per-feature scales / shifts repeated for every component: supervector-sized *)
Definition sup (C : nat) (a : list R) : list R := concat (repeat a C).
Definition aff_ubm (a b : list R) (u : ubm) : ubm := {| u_mu := map (aff a b) (u_mu u); u_var := map (aff_var a) (u_var u) |}.
Definition scale_rows (A : list R) (M : list (list R)) : list (list R) := V.map2 (fun Aj row => map (Rmult Aj) row) A M.
Definition aff_fa (C : nat) (a : list R) (F : fa) : fa :=
  {| fU := scale_rows (sup C a) (fU F); fV := scale_rows (sup C a) (fV F); fD := V.map2 Rmult (sup C a) (fD F) |}.
Definition aff_gs (a b : list R) (s : gstat) : gstat :=
  {| g_n := g_n s; g_px := V.map2 (fun n px => V.map3 (fun ad bd f => ad * f + n * bd) a b px) (g_n s) (g_px s) |}.


(* ------------------------------------------------------------------ generic list helpers *)
Lemma nth_scale k (r : list R) i : nth i (map (Rmult k) r) 0 = k * nth i r 0.
Proof. revert i; induction r as [|x r IH]; intros [|i]; cbn [map nth]; try ring. apply IH. Qed.
Lemma map2_ext_F {X Y Z} (f f' : X -> Y -> Z) (P : X -> Prop) (Q : Y -> Prop) l1 l2 :
  (forall x y, P x -> Q y -> f x y = f' x y) -> Forall P l1 -> Forall Q l2 -> V.map2 f l1 l2 = V.map2 f' l1 l2.
Proof.
  intros H H1. revert l2; induction H1 as [|x l1 Hx H1 IH]; intros l2 H2; destruct H2 as [|y l2 Hy H2]; cbn [V.map2]; try reflexivity.
  rewrite H by assumption. f_equal. now apply IH.
Qed.
Lemma map2_map_lr {X X' Y Y' Z} (f : X' -> Y' -> Z) (g : X -> X') (h : Y -> Y') l1 l2 :
  V.map2 f (map g l1) (map h l2) = V.map2 (fun x y => f (g x) (h y)) l1 l2.
Proof. revert l2; induction l1 as [|x l1 IH]; intros [|y l2]; cbn [map V.map2]; try reflexivity. now rewrite IH. Qed.
Lemma firstn_map2 {X Y Z} (f : X -> Y -> Z) n l1 l2 : firstn n (V.map2 f l1 l2) = V.map2 f (firstn n l1) (firstn n l2).
Proof. revert l1 l2; induction n as [|n IH]; intros [|x l1] [|y l2]; cbn [firstn V.map2]; try reflexivity. now rewrite IH. Qed.
Lemma skipn_map2 {X Y Z} (f : X -> Y -> Z) n l1 l2 : skipn n (V.map2 f l1 l2) = V.map2 f (skipn n l1) (skipn n l2).
Proof.
  revert l1 l2; induction n as [|n IH]; intros [|x l1] [|y l2]; cbn [skipn V.map2]; try reflexivity.
  - destruct (skipn n l1); reflexivity.
  - apply IH.
Qed.
Lemma map3_app {X Y Z W} (f : X -> Y -> Z -> W) a1 a2 b1 b2 c1 c2 : length a1 = length b1 -> length a1 = length c1 ->
  V.map3 f (a1 ++ a2) (b1 ++ b2) (c1 ++ c2) = V.map3 f a1 b1 c1 ++ V.map3 f a2 b2 c2.
Proof.
  revert b1 c1; induction a1 as [|x a1 IH]; intros [|y b1] [|z c1] H1 H2; cbn [length app V.map3] in *; try discriminate; auto.
  f_equal. apply IH; lia.
Qed.
Lemma map_const_len {X Y Z} (c : Z) (l1 : list X) (l2 : list Y) : length l1 = length l2 -> map (fun _ => c) l1 = map (fun _ => c) l2.
Proof. revert l2; induction l1 as [|x l1 IH]; intros [|y l2] H; cbn [length map] in *; try discriminate; auto. f_equal. apply IH. lia. Qed.
Lemma map3_affine_form (A B x : list R) : V.map3 (fun Aj Bj xj => Aj * xj + Bj) A B x = V.vadd (V.vmul A x) B.
Proof.
  revert B x; induction A as [|p A IH]; intros [|q B] [|y x]; try reflexivity.
  change (V.map3 (fun Aj Bj xj => Aj * xj + Bj) (p :: A) (q :: B) (y :: x)) with ((p * y + q) :: V.map3 (fun Aj Bj xj => Aj * xj + Bj) A B x).
  rewrite IH. reflexivity.
Qed.
Lemma map2_sq_form (A s : list R) : V.map2 (fun ad vd => ad * ad * vd) A s = V.vmul (V.vmul A A) s.
Proof.
  revert s; induction A as [|p A IH]; intros [|y s]; try reflexivity.
  change (V.map2 (fun ad vd => ad * ad * vd) (p :: A) (y :: s)) with ((p * p * y) :: V.map2 (fun ad vd => ad * ad * vd) A s).
  rewrite IH. reflexivity.
Qed.

(* ------------------------------------------------------------------ the repeated scales *)
Lemma sup_S C a : sup (S C) a = a ++ sup C a.
Proof. reflexivity. Qed.
Lemma len_sup C (a : list R) : length (sup C a) = (C * length a)%nat.
Proof. induction C as [|C IH]; [reflexivity|]. rewrite sup_S, app_length, IH. reflexivity. Qed.
Lemma sup_Forall (P : R -> Prop) C a : Forall P a -> Forall P (sup C a).
Proof. intros H. induction C as [|C IH]; [constructor|]. rewrite sup_S. apply Forall_app. now split. Qed.
Lemma concat_map2_sup (f : R -> R -> R) (a : list R) (rows : list (list R)) : Forall (fun r => length r = length a) rows ->
  concat (map (V.map2 f a) rows) = V.map2 f (sup (length rows) a) (concat rows).
Proof.
  induction 1 as [|r rows Hr H IH]; [reflexivity|]. cbn [map concat length]. rewrite sup_S, map2_app by (now rewrite Hr). now rewrite IH.
Qed.
Lemma concat_map3_sup (f : R -> R -> R -> R) (a b : list R) (rows : list (list R)) : length b = length a ->
  Forall (fun r => length r = length a) rows ->
  concat (map (V.map3 f a b) rows) = V.map3 f (sup (length rows) a) (sup (length rows) b) (concat rows).
Proof.
  intros Hb. induction 1 as [|r rows Hr H IH]; [reflexivity|]. cbn [map concat length]. rewrite !sup_S, map3_app by congruence. now rewrite IH.
Qed.

Lemma scale_rows_cons ad A row M : scale_rows (ad :: A) (row :: M) = map (Rmult ad) row :: scale_rows A M.
Proof. reflexivity. Qed.
Lemma dot_scale k (row x : list R) : V.dot (map (Rmult k) row) x = k * V.dot row x.
Proof.
  unfold V.dot, V.vmul. revert x; induction row as [|r row IH]; intros [|y x]; cbn [map V.map2 V.vsum]; unfold_R; try ring.
  unfold_R. rewrite IH. ring.
Qed.
Lemma matvec_scale (A : list R) (W : list (list R)) (x : list R) : V.matvec (scale_rows A W) x = V.vmul A (V.matvec W x).
Proof.
  unfold V.matvec, V.vmul. revert W; induction A as [|p A IH]; intros [|row W]; try reflexivity.
  rewrite scale_rows_cons. cbn [map V.map2]. rewrite IH, dot_scale. reflexivity.
Qed.
Lemma chunk_scale_rows D C (a : list R) (W : list (list R)) : length a = D ->
  chunk D C (scale_rows (sup C a) W) = map (scale_rows a) (chunk D C W).
Proof.
  intros Ha. subst D. revert W; induction C as [|C IH]; intros W; [reflexivity|]. cbn [chunk map]. rewrite sup_S. unfold scale_rows at 1 2.
  rewrite firstn_map2, skipn_map2. rewrite firstn_app, skipn_app, Nat.sub_diag.
  rewrite firstn_all, skipn_all. cbn [firstn skipn app]. rewrite app_nil_r. f_equal. apply IH.
Qed.
Lemma chunk_rows {X} D C (W : list X) : length W = (C * D)%nat -> Forall (fun r => length r = D) (chunk D C W).
Proof.
  revert W; induction C as [|C IH]; intros W H; cbn [chunk]; constructor.
  - rewrite firstn_length. lia.
  - apply IH. rewrite skipn_length. lia.
Qed.

(* W_c^T Sigma_c^-1 W_c is unchanged *)
Lemma wprod1_inner (a : list R) (Wc : list (list R)) (sig : list R) i j :
  length Wc = length a -> length sig = length a -> Forall (fun ad => ad <> 0) a -> Forall (fun v => 0 < v) sig ->
  V.map2 (fun row s => InstR.mul (InstR.div (nth i row InstR.zero) s) (nth j row InstR.zero)) (scale_rows a Wc) (aff_var a sig)
  = V.map2 (fun row s => InstR.mul (InstR.div (nth i row InstR.zero) s) (nth j row InstR.zero)) Wc sig.
Proof.
  revert Wc sig; induction a as [|ad a IH]; intros [|row Wc] [|s sig] H1 H2 Ha Hs; cbn [length] in *; try discriminate; try reflexivity.
  pose proof (Forall_inv Ha) as Ha0. pose proof (Forall_inv_tail Ha) as Ha1.
  pose proof (Forall_inv Hs) as Hs0. pose proof (Forall_inv_tail Hs) as Hs1. cbv beta in Ha0, Hs0.
  rewrite scale_rows_cons. change (aff_var (ad :: a) (s :: sig)) with ((ad * ad * s) :: aff_var a sig).
  cbn [V.map2]. rewrite IH by (auto; lia). f_equal.
  unfold_R. rewrite !nth_scale. field. split; [lra|assumption].
Qed.
Lemma wprod1_affine r (a : list R) (Wc : list (list R)) (sig : list R) :
  length Wc = length a -> length sig = length a -> Forall (fun ad => ad <> 0) a -> Forall (fun v => 0 < v) sig ->
  wprod1 r (scale_rows a Wc) (aff_var a sig) = wprod1 r Wc sig.
Proof.
  intros H1 H2 Ha Hs. unfold wprod1. apply map_ext. intros i. apply map_ext. intros j. f_equal. now apply wprod1_inner.
Qed.
(* (W^T / sigma) @ (A * g) is unchanged *)
Lemma wt_inner (A : list R) (W : list (list R)) (sig g : list R) i :
  length W = length A -> length sig = length A -> length g = length A ->
  Forall (fun ad => ad <> 0) A -> Forall (fun v => 0 < v) sig ->
  V.map3 (fun row sg f => InstR.mul (InstR.div (nth i row InstR.zero) sg) f) (scale_rows A W) (V.map2 (fun ad vd => ad * ad * vd) A sig) (V.vmul A g)
  = V.map3 (fun row sg f => InstR.mul (InstR.div (nth i row InstR.zero) sg) f) W sig g.
Proof.
  revert W sig g; induction A as [|ad A IH]; intros [|row W] [|s sig] [|f g] H1 H2 H3 Ha Hs; cbn [length] in *; try discriminate; try reflexivity.
  pose proof (Forall_inv Ha) as Ha0. pose proof (Forall_inv_tail Ha) as Ha1.
  pose proof (Forall_inv Hs) as Hs0. pose proof (Forall_inv_tail Hs) as Hs1. cbv beta in Ha0, Hs0.
  rewrite scale_rows_cons. unfold V.vmul. cbn [V.map2 V.map3]. unfold V.vmul in IH. rewrite IH by (auto; lia). f_equal.
  unfold_R. rewrite !nth_scale. field. split; [lra|assumption].
Qed.
Lemma wt_invsig_scale r (A : list R) (W : list (list R)) (sig g : list R) :
  length W = length A -> length sig = length A -> length g = length A ->
  Forall (fun ad => ad <> 0) A -> Forall (fun v => 0 < v) sig ->
  wt_invsig r (scale_rows A W) (V.map2 (fun ad vd => ad * ad * vd) A sig) (V.vmul A g) = wt_invsig r W sig g.
Proof. intros. unfold wt_invsig. apply map_ext. intros i. f_equal. now apply wt_inner. Qed.


(* ------------------------------------------------------------------ index-form automation *)
Create HintDb fal.
#[local] Hint Resolve FAEnroll.len_vadd FAEnroll.len_vsub FAEnroll.len_vmul FAEnroll.len_vdiv FAEnroll.len_vzero : fal.
Ltac fal := unfold InstR.T in *; auto 12 with fal.
Ltac nths i n :=
  repeat first
    [ rewrite (FAEnroll.nth_vadd _ _ i n) by fal
    | rewrite (FAEnroll.nth_vsub _ _ i n) by fal
    | rewrite (FAEnroll.nth_vmul _ _ i n) by fal
    | rewrite (FAEnroll.nth_vdiv _ _ i n) by fal
    | rewrite FAEnroll.nth_vzero ].
Lemma vmul_vzero_r (A : list R) n : length A = n -> V.vmul A (V.vzero n) = V.vzero n.
Proof.
  intros HA. apply (list_ext_R _ _ n); [fal|fal|]. intros i Hi. nths i n. ring.
Qed.


(* first-order statistics of one component / of all components *)
Lemma px_row_aff (a b : list R) n (px : list R) : length b = length a -> length px = length a ->
  V.map3 (fun ad bd f => ad * f + n * bd) a b px = V.vadd (V.vmul a px) (V.vmul (repeat n (length a)) b).
Proof.
  revert b px; induction a as [|ad a IH]; intros [|bd b] [|f px] H1 H2; cbn [length] in *; try discriminate; [reflexivity|].
  unfold V.vadd, V.vmul in *. cbn [repeat V.map2 V.map3]. rewrite IH by lia. reflexivity.
Qed.
Lemma flat_px_gen (a b : list R) (ns : list R) (pxs : list (list R)) : length b = length a -> length ns = length pxs ->
  Forall (fun r => length r = length a) pxs ->
  flat (V.map2 (fun n px => V.map3 (fun ad bd f => ad * f + n * bd) a b px) ns pxs)
  = V.vadd (V.vmul (sup (length pxs) a) (flat pxs)) (V.vmul (rep (length a) ns) (sup (length pxs) b)).
Proof.
  intros Hb Hn H. revert ns Hn; induction H as [|px pxs Hpx H IH]; intros [|n ns] Hn; cbn [length] in *; try discriminate; [reflexivity|].
  cbn [V.map2]. unfold flat in *. cbn [concat]. rewrite IH by lia. rewrite !sup_S.
  change (rep (length a) (n :: ns)) with (repeat n (length a) ++ rep (length a) ns).
  unfold V.vadd, V.vmul.
  rewrite (map2_app _ a) by (symmetry; exact Hpx).
  rewrite (map2_app _ (repeat n (length a))) by (rewrite repeat_length; symmetry; exact Hb).
  rewrite map2_app by (rewrite !len_map2, repeat_length; unfold InstR.T in *; lia).
  f_equal. apply px_row_aff; assumption.
Qed.

Section Aff.
Variables (C D rU rV : nat) (a b : list R) (u : ubm) (F : fa).
Hypothesis Hsc : scale_ok D a b.
Hypothesis Hu : ubm_ok C D u.
Hypothesis HF : fa_ok C D rU rV F.

Lemma lenA : length (sup C a) = (C * D)%nat.
Proof. destruct Hsc as (Ha & _). now rewrite len_sup, Ha. Qed.
Lemma lenB : length (sup C b) = (C * D)%nat.
Proof. destruct Hsc as (_ & Hb & _). now rewrite len_sup, Hb. Qed.
Lemma A_nz : Forall (fun x => x <> 0) (sup C a).
Proof. apply sup_Forall. apply Hsc. Qed.
Lemma A_nz_nth i : (i < C * D)%nat -> nth i (sup C a) 0 <> 0.
Proof. intros Hi. apply (Forall_nth_lt (fun x : R => x <> 0)). apply A_nz. rewrite lenA. exact Hi. Qed.
Lemma vs_pos : Forall (fun v => 0 < v) (vsuper u).
Proof.
  unfold vsuper, flat. apply Forall_concat'. destruct Hu as (_ & _ & _ & H4). eapply Forall_impl; [|exact H4]. intros r Hr; apply Hr.
Qed.
Lemma vs_nz_nth i : (i < C * D)%nat -> nth i (vsuper u) 0 <> 0.
Proof. intros Hi. pose proof (sj_pos C D u Hu i Hi) as H. unfold sj in H. lra. Qed.

Lemma msuper_aff0 : msuper (aff_ubm a b u) = V.map3 (fun Aj Bj x => Aj * x + Bj) (sup C a) (sup C b) (msuper u).
Proof.
  destruct Hsc as (Ha & Hb & _). destruct Hu as (H1 & H2 & _). unfold msuper, flat. cbn [aff_ubm u_mu].
  change (aff a b) with (V.map3 (fun ad bd xd => ad * xd + bd) a b).
  rewrite concat_map3_sup; [unfold InstR.T in *; now rewrite H1|now rewrite Ha, Hb|]. eapply Forall_impl; [|exact H2]. cbv beta. intros r Hr. now rewrite Ha.
Qed.
Lemma msuper_aff : msuper (aff_ubm a b u) = V.vadd (V.vmul (sup C a) (msuper u)) (sup C b).
Proof. rewrite msuper_aff0. apply map3_affine_form. Qed.
Lemma vsuper_aff0 : vsuper (aff_ubm a b u) = V.map2 (fun ad vd => ad * ad * vd) (sup C a) (vsuper u).
Proof.
  destruct Hsc as (Ha & Hb & _). destruct Hu as (_ & _ & H3 & H4). unfold vsuper, flat. cbn [aff_ubm u_var].
  change (aff_var a) with (V.map2 (fun ad vd => ad * ad * vd) a).
  rewrite concat_map2_sup; [unfold InstR.T in *; now rewrite H3|]. eapply Forall_impl; [|exact H4]. cbv beta. intros r [Hr _]. now rewrite Ha.
Qed.
Lemma vsuper_aff : vsuper (aff_ubm a b u) = V.vmul (V.vmul (sup C a) (sup C a)) (vsuper u).
Proof. rewrite vsuper_aff0. apply map2_sq_form. Qed.
Lemma fD_aff : fD (aff_fa C a F) = V.vmul (sup C a) (fD F).
Proof. reflexivity. Qed.
Lemma fU_aff : fU (aff_fa C a F) = scale_rows (sup C a) (fU F).
Proof. reflexivity. Qed.
Lemma fV_aff : fV (aff_fa C a F) = scale_rows (sup C a) (fV F).
Proof. reflexivity. Qed.
Lemma mvU_aff x : V.matvec (fU (aff_fa C a F)) x = V.vmul (sup C a) (V.matvec (fU F) x).
Proof. apply matvec_scale. Qed.
Lemma mvV_aff x : V.matvec (fV (aff_fa C a F)) x = V.vmul (sup C a) (V.matvec (fV F) x).
Proof. apply matvec_scale. Qed.

Lemma ubm_ok_aff : ubm_ok C D (aff_ubm a b u).
Proof.
  destruct Hsc as (Ha & Hb & Hnz). destruct Hu as (H1 & H2 & H3 & H4). unfold ubm_ok. cbn [aff_ubm u_mu u_var].
  rewrite !map_length. repeat split; try assumption.
  - rewrite Forall_map. eapply Forall_impl; [|exact H2]. cbv beta. intros r Hr. now apply (len_aff D).
  - rewrite Forall_map. eapply Forall_impl; [|exact H4]. cbv beta. intros r [Hr Hp]. split. now apply (len_aff_var D).
    change (aff_var a r) with (V.map2 (fun ad vd => ad * ad * vd) a r). apply Forall_map2. intros x y Hx Hy.
    rewrite Forall_forall in Hnz, Hp. specialize (Hnz x Hx). specialize (Hp y Hy). cbv beta in Hnz.
    apply Rmult_lt_0_compat; [|exact Hp]. pose proof (Rsqr_pos_lt x Hnz) as Q. unfold Rsqr in Q. exact Q.
Qed.
Lemma len_scale_rows (A : list R) (W : list (list R)) n : length A = n -> length W = n -> length (scale_rows A W) = n.
Proof. intros. unfold scale_rows. apply len_map2_eq; assumption. Qed.
Lemma scale_rows_rows (A : list R) (W : list (list R)) r : Forall (fun row => length row = r) W -> Forall (fun row => length row = r) (scale_rows A W).
Proof.
  intros H. unfold scale_rows. apply Forall_map2. intros x y _ Hy. rewrite map_length. rewrite Forall_forall in H. now apply H.
Qed.
Lemma fa_ok_aff : fa_ok C D rU rV (aff_fa C a F).
Proof.
  destruct HF as (H1 & H2 & H3 & H4 & H5). pose proof lenA. unfold fa_ok. cbn [aff_fa fU fV fD]. repeat split.
  - now apply len_scale_rows.
  - now apply scale_rows_rows.
  - now apply len_scale_rows.
  - now apply scale_rows_rows.
  - apply len_map2_eq; assumption.
Qed.
Lemma gs_ok_aff s : gstat_ok C D s -> gstat_ok C D (aff_gs a b s).
Proof.
  destruct Hsc as (Ha & Hb & _). intros (H1 & H2 & H3 & H4). unfold gstat_ok. cbn [aff_gs g_n g_px]. repeat split; try assumption.
  - apply len_map2_eq; assumption.
  - apply Forall_map2. intros n px _ Hpx. rewrite Forall_forall in H4. specialize (H4 px Hpx). cbv beta in H4.
    rewrite len_map3. unfold InstR.T in *. lia.
Qed.
Lemma gs_ok_aff_all X : Forall (gstat_ok C D) X -> Forall (gstat_ok C D) (map (aff_gs a b) X).
Proof. intros H. rewrite Forall_map. eapply Forall_impl; [|exact H]. apply gs_ok_aff. Qed.

Lemma wprod_aff r W : length W = (C * D)%nat -> wprod r D (aff_ubm a b u) (scale_rows (sup C a) W) = wprod r D u W.
Proof.
  intros HW. destruct Hsc as (Ha & Hb & Hnz). pose proof Hu as (_ & _ & H3 & H4).
  unfold wprod. cbn [aff_ubm u_var]. rewrite map_length. unfold InstR.T in *. rewrite H3.
  rewrite chunk_scale_rows by exact Ha. rewrite map2_map_lr.
  eapply map2_ext_F; [|apply (chunk_rows D C W HW)|exact H4].
  cbv beta. intros Wc sig HWc [Hs Hp]. apply wprod1_affine; auto. now rewrite Ha. now rewrite Ha.
Qed.
Lemma wt_invsig_aff r W g : length W = (C * D)%nat -> length g = (C * D)%nat ->
  wt_invsig r (scale_rows (sup C a) W) (vsuper (aff_ubm a b u)) (V.vmul (sup C a) g) = wt_invsig r W (vsuper u) g.
Proof.
  intros HW Hg. rewrite vsuper_aff0. pose proof lenA. pose proof (len_vsuper C D u Hu). unfold InstR.T in *.
  apply wt_invsig_scale; try congruence. apply A_nz. apply vs_pos.
Qed.
Lemma flat_px_aff s : gstat_ok C D s ->
  flat (g_px (aff_gs a b s)) = V.vadd (V.vmul (sup C a) (flat (g_px s))) (V.vmul (rep D (g_n s)) (sup C b)).
Proof.
  destruct Hsc as (Ha & Hb & _). intros (H1 & H2 & H3 & H4). cbn [aff_gs g_px]. unfold InstR.T in *.
  rewrite flat_px_gen. now rewrite H3, Ha. now rewrite Ha, Hb. now rewrite H1, H3.
  eapply Forall_impl; [|exact H4]. cbv beta. intros r Hr. now rewrite Ha.
Qed.
Lemma sum_n_aff X : sum_n C (map (aff_gs a b) X) = sum_n C X.
Proof. unfold sum_n. induction X as [|s X IH]; cbn [map fold_right]; [reflexivity|]. now rewrite IH. Qed.
Lemma sum_f_aff X : Forall (gstat_ok C D) X ->
  flat (sum_f C D (map (aff_gs a b) X))
  = V.vadd (V.vmul (sup C a) (flat (sum_f C D X))) (V.vmul (rep D (sum_n C X)) (sup C b)).
Proof.
  pose proof lenA as LA. pose proof lenB as LB.
  induction 1 as [|s X Hs HX IH].
  - cbn [map]. unfold sum_f, sum_n. cbn [fold_right]. rewrite flat_mzero, rep_vzero.
    apply (list_ext_R _ _ (C * D)); [fal|fal|]. intros i Hi. nths i (C * D)%nat. ring.
  - cbn [map]. change (sum_f C D (aff_gs a b s :: map (aff_gs a b) X)) with (V.madd (g_px (aff_gs a b s)) (sum_f C D (map (aff_gs a b) X))).
    change (sum_f C D (s :: X)) with (V.madd (g_px s) (sum_f C D X)).
    change (sum_n C (s :: X)) with (V.vadd (g_n s) (sum_n C X)).
    pose proof (gs_ok_aff s Hs) as Hs'. pose proof (gs_ok_aff_all X HX) as HX'.
    pose proof (sum_f_shape C D _ HX') as [S1 S2]. pose proof (sum_f_shape C D _ HX) as [T1 T2].
    pose proof Hs as (G1 & _ & G3 & G4). pose proof Hs' as (G1' & _ & G3' & G4').
    pose proof (len_sum_n C D X HX) as LN.
    rewrite (flat_madd D) by (auto; unfold InstR.T in *; congruence).
    rewrite (flat_madd D (g_px s)) by (auto; unfold InstR.T in *; congruence).
    rewrite rep_vadd by (unfold InstR.T in *; congruence).
    rewrite IH, flat_px_aff by exact Hs.
    pose proof (len_flatpx C D s Hs). pose proof (len_repn C D s Hs).
    pose proof (len_flat_sum_f C D X HX). pose proof (len_rep_sum_n C D X HX).
    apply (list_ext_R _ _ (C * D)); [fal|fal|]. intros i Hi. nths i (C * D)%nat. ring.
Qed.

(* N_h (o_h - m - D z - V y) follows the features *)
Definition zopt_ok (z : option (list R)) := match z with Some zz => length zz = (C * D)%nat | None => True end.
Lemma fn_x_aff s z y : gstat_ok C D s -> zopt_ok z ->
  fn_x D (aff_ubm a b u) (aff_fa C a F) (aff_gs a b s) z y = V.vmul (sup C a) (fn_x D u F s z y).
Proof.
  intros Hs Hz. pose proof lenA as LA. pose proof lenB as LB.
  pose proof (len_flatpx C D s Hs). pose proof (len_repn C D s Hs). pose proof (len_msuper C D u Hu).
  destruct HF as (F1 & F2 & F3 & F4 & F5).
  unfold fn_x. rewrite msuper_aff, fD_aff, flat_px_aff by exact Hs. change (g_n (aff_gs a b s)) with (g_n s).
  destruct z as [zz|]; destruct y as [yy|]; cbn [zopt_ok] in Hz; try rewrite mvV_aff;
    try (assert (length (V.matvec (fV F) yy) = (C * D)%nat) by (rewrite len_matvec; exact F3));
    (apply (list_ext_R _ _ (C * D)); [fal|fal|]); intros i Hi; nths i (C * D)%nat; ring.
Qed.

Lemma len_fn_x_opt s z y : gstat_ok C D s -> zopt_ok z -> length (fn_x D u F s z y) = (C * D)%nat.
Proof.
  intros Hs Hz. pose proof (len_flatpx C D s Hs). pose proof (len_repn C D s Hs). pose proof (len_msuper C D u Hu).
  destruct HF as (F1 & F2 & F3 & F4 & F5). unfold fn_x.
  destruct z as [zz|]; destruct y as [yy|]; cbn [zopt_ok] in Hz;
    try (assert (length (V.matvec (fV F) yy) = (C * D)%nat) by (rewrite len_matvec; exact F3)); fal.
Qed.
Lemma uprod_aff : wprod rU D (aff_ubm a b u) (fU (aff_fa C a F)) = wprod rU D u (fU F).
Proof. rewrite fU_aff. apply wprod_aff. apply HF. Qed.
Lemma vprod_aff : wprod rV D (aff_ubm a b u) (fV (aff_fa C a F)) = wprod rV D u (fV F).
Proof. rewrite fV_aff. apply wprod_aff. apply HF. Qed.
Lemma latent_x_aff inv uprod X z y : Forall (gstat_ok C D) X -> zopt_ok z ->
  latent_x_class inv rU D (aff_ubm a b u) (aff_fa C a F) uprod (map (aff_gs a b) X) z y = latent_x_class inv rU D u F uprod X z y.
Proof.
  intros HX Hz. unfold latent_x_class. rewrite map_map. apply map_ext_in. intros s Hs.
  rewrite Forall_forall in HX. specialize (HX s Hs). change (g_n (aff_gs a b s)) with (g_n s). f_equal.
  rewrite fn_x_aff by assumption. rewrite fU_aff. apply wt_invsig_aff. apply HF. now apply len_fn_x_opt.
Qed.
Lemma omatvec_aff y : omatvec (fV (aff_fa C a F)) y (C * D) = V.vmul (sup C a) (omatvec (fV F) y (C * D)).
Proof. destruct y as [yy|]; cbn [omatvec]. apply mvV_aff. symmetry. apply vmul_vzero_r. apply lenA. Qed.
Lemma sess_ux_aff X xs : Forall (gstat_ok C D) X ->
  sess_ux D (aff_fa C a F) (map (aff_gs a b) X) xs (C * D) = V.vmul (sup C a) (sess_ux D F X xs (C * D)).
Proof.
  intros HX. pose proof lenA as LA. revert xs; induction HX as [|s X Hs HX IH]; intros xs.
  - unfold sess_ux. cbn [map combine fold_right]. symmetry. now apply vmul_vzero_r.
  - destruct xs as [|x xs].
    + unfold sess_ux. cbn [map combine fold_right]. symmetry. now apply vmul_vzero_r.
    + pose proof (len_sess_ux C D rU rV F X HF HX xs) as LS. specialize (IH xs).
      unfold sess_ux in *. cbn [map combine fold_right fst snd]. rewrite IH, mvU_aff. change (g_n (aff_gs a b s)) with (g_n s).
      pose proof (len_repn C D s Hs). assert (length (V.matvec (fU F) x) = (C * D)%nat) by (rewrite len_matvec; apply HF).
      apply (list_ext_R _ _ (C * D)); [fal|fal|]. intros i Hi. nths i (C * D)%nat. ring.
Qed.
Lemma fn_z_aff X xs y : Forall (gstat_ok C D) X ->
  fn_z D (aff_ubm a b u) (aff_fa C a F) (map (aff_gs a b) X) xs y (sum_n C X) (sum_f C D (map (aff_gs a b) X))
  = V.vmul (sup C a) (fn_z D u F X xs y (sum_n C X) (sum_f C D X)).
Proof.
  intros HX. pose proof lenA as LA. pose proof lenB as LB. unfold fn_z.
  rewrite (len_msuper C D _ ubm_ok_aff), (len_msuper C D u Hu).
  rewrite sum_f_aff, msuper_aff, sess_ux_aff, omatvec_aff by exact HX.
  pose proof (len_flat_sum_f C D X HX). pose proof (len_rep_sum_n C D X HX). pose proof (len_msuper C D u Hu).
  pose proof (len_omatvec C D rU rV F HF y). pose proof (len_sess_ux C D rU rV F X HF HX xs).
  apply (list_ext_R _ _ (C * D)); [fal|fal|]. intros i Hi. nths i (C * D)%nat. ring.
Qed.
Lemma fn_y_aff X xs z : Forall (gstat_ok C D) X -> length z = (C * D)%nat ->
  fn_y D (aff_ubm a b u) (aff_fa C a F) (map (aff_gs a b) X) xs z (sum_n C X) (sum_f C D (map (aff_gs a b) X))
  = V.vmul (sup C a) (fn_y D u F X xs z (sum_n C X) (sum_f C D X)).
Proof.
  intros HX Hz. pose proof lenA as LA. pose proof lenB as LB. unfold fn_y.
  rewrite (len_msuper C D _ ubm_ok_aff), (len_msuper C D u Hu).
  rewrite sum_f_aff, msuper_aff, sess_ux_aff, fD_aff by exact HX.
  pose proof (len_flat_sum_f C D X HX). pose proof (len_rep_sum_n C D X HX). pose proof (len_msuper C D u Hu).
  pose proof (len_sess_ux C D rU rV F X HF HX xs). destruct HF as (_ & _ & _ & _ & F5).
  apply (list_ext_R _ _ (C * D)); [fal|fal|]. intros i Hi. nths i (C * D)%nat. ring.
Qed.
Lemma id_plus_d_inv_aff N : length N = C -> id_plus_d_inv D (aff_ubm a b u) (aff_fa C a F) N = id_plus_d_inv D u F N.
Proof.
  intros HN. pose proof lenA as LA. pose proof (len_vsuper C D u Hu). destruct HF as (_ & _ & _ & _ & F5).
  unfold id_plus_d_inv. rewrite fD_aff, vsuper_aff. f_equal. f_equal.
  - apply map_const_len. transitivity (C * D)%nat; [fal|symmetry; exact F5].
  - f_equal. apply (list_ext_R _ _ (C * D)); [fal|fal|]. intros i Hi. nths i (C * D)%nat.
    pose proof (A_nz_nth i Hi). pose proof (vs_nz_nth i Hi). field. split; assumption.
Qed.
Lemma update_z_aff X xs y : Forall (gstat_ok C D) X ->
  update_z_class D (aff_ubm a b u) (aff_fa C a F) (map (aff_gs a b) X) xs y (sum_n C X) (sum_f C D (map (aff_gs a b) X))
  = update_z_class D u F X xs y (sum_n C X) (sum_f C D X).
Proof.
  intros HX. pose proof lenA as LA. pose proof (len_vsuper C D u Hu).
  pose proof (len_id_plus_d_inv C D rU rV u F X Hu HF HX). pose proof (len_fn_z C D rU rV u F X Hu HF HX xs y).
  unfold update_z_class. rewrite id_plus_d_inv_aff by (apply (len_sum_n C D X HX)). rewrite fn_z_aff by exact HX.
  rewrite fD_aff, vsuper_aff. destruct HF as (_ & _ & _ & _ & F5).
  apply (list_ext_R _ _ (C * D)); [fal|fal|]. intros i Hi. nths i (C * D)%nat.
  pose proof (A_nz_nth i Hi). pose proof (vs_nz_nth i Hi). field. split; assumption.
Qed.
Lemma update_y_aff inv vprod X xs z : Forall (gstat_ok C D) X -> length z = (C * D)%nat ->
  update_y_class inv rV D (aff_ubm a b u) (aff_fa C a F) vprod (map (aff_gs a b) X) xs z (sum_n C X) (sum_f C D (map (aff_gs a b) X))
  = update_y_class inv rV D u F vprod X xs z (sum_n C X) (sum_f C D X).
Proof.
  intros HX Hz. unfold update_y_class. f_equal. rewrite fn_y_aff by assumption. rewrite fV_aff. apply wt_invsig_aff. apply HF.
  now apply (len_fn_y C D rU rV).
Qed.

Lemma isv_loop_aff inv k uprod X z : Forall (gstat_ok C D) X -> length z = (C * D)%nat ->
  isv_enroll_loop inv k rU D (aff_ubm a b u) (aff_fa C a F) uprod (map (aff_gs a b) X) (sum_n C X) (sum_f C D (map (aff_gs a b) X)) z
  = isv_enroll_loop inv k rU D u F uprod X (sum_n C X) (sum_f C D X) z.
Proof.
  intros HX. revert z; induction k as [|k IH]; intros z Hz; cbn [isv_enroll_loop]; [reflexivity|].
  rewrite latent_x_aff by assumption. rewrite update_z_aff by exact HX. apply IH. now apply (len_update_z C D rU rV).
Qed.
Lemma jfa_loop_aff inv k uprod vprod X xs y z : Forall (gstat_ok C D) X -> length z = (C * D)%nat ->
  jfa_enroll_loop inv k rU rV D (aff_ubm a b u) (aff_fa C a F) uprod vprod (map (aff_gs a b) X) (sum_n C X) (sum_f C D (map (aff_gs a b) X)) xs y z
  = jfa_enroll_loop inv k rU rV D u F uprod vprod X (sum_n C X) (sum_f C D X) xs y z.
Proof.
  intros HX. revert xs y z; induction k as [|k IH]; intros xs y z Hz; cbn [jfa_enroll_loop]; [reflexivity|].
  rewrite update_y_aff by assumption. rewrite latent_x_aff by assumption. rewrite update_z_aff by exact HX.
  apply IH. now apply (len_update_z C D rU rV).
Qed.

End Aff.

Theorem estimate_x_affine (inv : list (list R) -> list (list R)) (C D rU rV : nat) (a b : list R) (u : ubm) (F : fa) (X : list gstat) :
  scale_ok D a b -> ubm_ok C D u -> fa_ok C D rU rV F -> Forall (gstat_ok C D) X ->
  estimate_x inv rU D (aff_ubm a b u) (aff_fa C a F) (map (aff_gs a b) X) = estimate_x inv rU D u F X.
Proof.
  intros Hsc Hu HF HX. pose proof (ubm_ok_aff C D a b u Hsc Hu) as Hu'.
  pose proof Hu' as (M1' & _). pose proof Hu as (M1 & _).
  unfold estimate_x. cbv zeta. unfold InstR.T in *. rewrite M1', M1.
  rewrite sum_n_aff, (uprod_aff C D rU rV a b u F Hsc Hu HF). f_equal.
  pose proof (lenA C D a b Hsc) as LA. pose proof (lenB C D a b Hsc) as LB.
  pose proof (len_flat_sum_f C D X HX). pose proof (len_rep_sum_n C D X HX). pose proof (len_msuper C D u Hu).
  assert (E : V.vsub (flat (sum_f C D (map (aff_gs a b) X))) (V.vmul (rep D (sum_n C X)) (msuper (aff_ubm a b u)))
              = V.vmul (sup C a) (V.vsub (flat (sum_f C D X)) (V.vmul (rep D (sum_n C X)) (msuper u)))).
  { rewrite (sum_f_aff C D a b Hsc X HX), (msuper_aff C D a b u Hsc Hu).
    apply (list_ext_R _ _ (C * D)); [fal|fal|]. intros i Hi. nths i (C * D)%nat. ring. }
  unfold InstR.T in *. rewrite E. rewrite fU_aff. apply (wt_invsig_aff C D a b u Hsc Hu). apply HF. fal.
Qed.

Theorem isv_enroll_affine (inv : list (list R) -> list (list R)) (iters C D rU rV : nat) (a b : list R) (u : ubm) (F : fa) (X : list gstat) :
  scale_ok D a b -> ubm_ok C D u -> fa_ok C D rU rV F -> Forall (gstat_ok C D) X ->
  isv_enroll inv iters rU D (aff_ubm a b u) (aff_fa C a F) (map (aff_gs a b) X) = isv_enroll inv iters rU D u F X.
Proof.
  intros Hsc Hu HF HX. pose proof (ubm_ok_aff C D a b u Hsc Hu) as Hu'.
  pose proof Hu' as (M1' & _). pose proof Hu as (M1 & _).
  unfold isv_enroll. cbv zeta. unfold InstR.T in *. rewrite M1', M1.
  rewrite sum_n_aff, (uprod_aff C D rU rV a b u F Hsc Hu HF).
  apply (isv_loop_aff C D rU rV a b u F Hsc Hu HF); [exact HX|apply len_vzero].
Qed.

Theorem jfa_enroll_affine (inv : list (list R) -> list (list R)) (iters C D rU rV : nat) (a b : list R) (u : ubm) (F : fa) (X : list gstat) :
  scale_ok D a b -> ubm_ok C D u -> fa_ok C D rU rV F -> Forall (gstat_ok C D) X ->
  jfa_enroll inv iters rU rV D (aff_ubm a b u) (aff_fa C a F) (map (aff_gs a b) X) = jfa_enroll inv iters rU rV D u F X.
Proof.
  intros Hsc Hu HF HX. pose proof (ubm_ok_aff C D a b u Hsc Hu) as Hu'.
  pose proof Hu' as (M1' & _). pose proof Hu as (M1 & _).
  unfold jfa_enroll. cbv zeta. unfold InstR.T in *. rewrite M1', M1.
  rewrite sum_n_aff, (uprod_aff C D rU rV a b u F Hsc Hu HF), (vprod_aff C D rU rV a b u F Hsc Hu HF).
  rewrite map_map.
  rewrite (jfa_loop_aff C D rU rV a b u F Hsc Hu HF); [reflexivity|exact HX|apply len_vzero].
Qed.

(* the enrolled client mean follows the features: entry j = (c, d) becomes a_d * (.) + b_d *)
Theorem client_mean_affine (C D rU rV : nat) (a b : list R) (u : ubm) (F : fa) (y : option (list R)) (z : list R) :
  scale_ok D a b -> ubm_ok C D u -> fa_ok C D rU rV F -> length z = (C * D)%nat -> yopt_ok rV y ->
  client_mean (aff_ubm a b u) (aff_fa C a F) y z
  = V.map3 (fun Aj Bj x => Aj * x + Bj) (sup C a) (sup C b) (client_mean u F y z).
Proof.
  intros Hsc Hu HF Hz _. pose proof (ubm_ok_aff C D a b u Hsc Hu) as Hu'.
  rewrite map3_affine_form. unfold client_mean.
  rewrite (len_msuper C D _ Hu'), (len_msuper C D u Hu).
  rewrite (omatvec_aff C D a b F Hsc), fD_aff, (msuper_aff C D a b u Hsc Hu).
  pose proof (lenA C D a b Hsc) as LA. pose proof (lenB C D a b Hsc) as LB.
  pose proof (len_msuper C D u Hu). pose proof (len_omatvec C D rU rV F HF y). destruct HF as (_ & _ & _ & _ & F5).
  apply (list_ext_R _ _ (C * D)); [fal|fal|]. intros i Hi. nths i (C * D)%nat. ring.
Qed.
