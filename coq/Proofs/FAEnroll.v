(* C07: ISV / JFA enrolment is block-coordinate ascent on the joint log-posterior of the latent
   factors.  All statements below are proved; the development works in index form over the flat index. *)
From Coq Require Import Reals Lra List Lia Bool Arith.
From BLE Require Import Num.Scalar Num.InstR Lib.Vec Model.FA Proofs.RLemmas.
Import ListNotations.
Open Scope R_scope.

Module FR := FA InstR.
Import FR.

Definition dotR (a b : list R) : R := rsum (V.map2 Rmult a b).

(* session mean supervector  m + V y + U x_h + D z  (flat, length C*D) *)
Definition sess_mean (u : ubm) (F : fa) (y : option (list R)) (x z : list R) : list R :=
  V.vadd (V.vadd (V.vadd (msuper u) (omatvec (fV F) y (length (msuper u)))) (V.matvec (fU F) x)) (V.vmul (fD F) z).

(* joint log-posterior of (y, x_1..x_H, z) given the enrolment statistics, up to a constant:
   standard-normal priors; Gaussian likelihood with the UBM's diagonal covariances, in which only
   the zeroth- and first-order statistics enter:  sum_j  f_j o_j / s_j - 1/2 n_j o_j^2 / s_j *)
Definition sess_ll (D : nat) (u : ubm) (F : fa) (y : option (list R)) (z : list R) (s : gstat) (x : list R) : R :=
  let o := sess_mean u F y x z in
  rsum (V.map3 (fun fo n sg => fst fo * snd fo / sg - / 2 * n * (snd fo * snd fo) / sg)
               (combine (flat (g_px s)) o) (rep D (g_n s)) (vsuper u)).
Definition logpost (D : nat) (u : ubm) (F : fa) (X : list gstat) (y : option (list R)) (xs : list (list R)) (z : list R) : R :=
  - / 2 * (match y with Some yy => dotR yy yy | None => 0 end)
  - / 2 * rsum (map (fun x => dotR x x) xs)
  - / 2 * dotR z z
  + rsum (V.map2 (fun s x => sess_ll D u F y z s x) X xs).

(* shapes *)
Definition ubm_ok (C D : nat) (u : ubm) :=
  length (u_mu u) = C /\ Forall (fun r => length r = D) (u_mu u) /\
  length (u_var u) = C /\ Forall (fun r => length r = D /\ Forall (fun v => 0 < v) r) (u_var u).
Definition gstat_ok (C D : nat) (s : gstat) :=
  length (g_n s) = C /\ Forall (fun n => 0 <= n) (g_n s) /\ length (g_px s) = C /\ Forall (fun r => length r = D) (g_px s).
Definition fa_ok (C D rU rV : nat) (F : fa) :=
  length (fU F) = (C * D)%nat /\ Forall (fun r => length r = rU) (fU F) /\
  length (fV F) = (C * D)%nat /\ Forall (fun r => length r = rV) (fV F) /\ length (fD F) = (C * D)%nat.

(* contract of the external matrix inverse, in operator form, for the matrices it is applied to:
   it inverts, and the inverse of a symmetric matrix is symmetric *)
Definition inv_ok (inv : list (list R) -> list (list R)) (r : nat) (A : list (list R)) : Prop :=
  length (inv A) = r /\ Forall (fun row => length row = r) (inv A) /\
  (forall v, length v = r -> V.matvec A (V.matvec (inv A) v) = v) /\
  (forall v, length v = r -> vecmat r v (inv A) = V.matvec (inv A) v).
(* the precision matrices enrolment inverts *)
Definition xprec (rU D : nat) (u : ubm) (F : fa) (s : gstat) : list (list R) :=
  V.madd (V.eye rU) (msum rU rU (V.map2 (fun p nc => V.mscale nc p) (wprod rU D u (fU F)) (g_n s))).
Definition yprec (rV D : nat) (u : ubm) (F : fa) (nacc : list R) : list (list R) :=
  V.madd (V.eye rV) (msum rV rV (V.map2 (fun p nc => V.mscale nc p) (wprod rV D u (fV F)) nacc)).

(* ================================================================ generic helpers (index form) *)
Ltac lenR := unfold InstR.T in *; lia.
Lemma list_eq_seq {A} (l : list A) d0 : l = map (fun i => nth i l d0) (seq 0 (length l)).
Proof.
  induction l as [|a l IH]; cbn [length seq map nth]; [reflexivity|].
  f_equal. rewrite <- seq_shift, map_map. exact IH.
Qed.
Lemma nth_map_lt {A B} (f : A -> B) l i d1 d2 : (i < length l)%nat -> nth i (map f l) d1 = f (nth i l d2).
Proof. revert i; induction l as [|a l IH]; intros [|i] H; cbn [length map nth] in *; try lia; auto. apply IH; lia. Qed.
Lemma len_map2 {A B C} (f : A -> B -> C) a b : length (V.map2 f a b) = Nat.min (length a) (length b).
Proof. revert b; induction a as [|x a IH]; intros [|y b]; cbn [V.map2 length Nat.min]; auto. Qed.
Lemma len_map3 {A B C D} (f : A -> B -> C -> D) a b c :
  length (V.map3 f a b c) = Nat.min (length a) (Nat.min (length b) (length c)).
Proof. revert b c; induction a as [|x a IH]; intros [|y b] [|z c]; cbn [V.map3 length Nat.min]; auto. Qed.
Lemma len_map2_eq {A B C} (f : A -> B -> C) a b n : length a = n -> length b = n -> length (V.map2 f a b) = n.
Proof. intros; rewrite len_map2; lia. Qed.
Lemma nth_map2 {A B C} (f : A -> B -> C) a b i da db dc :
  (i < length a)%nat -> (i < length b)%nat -> nth i (V.map2 f a b) dc = f (nth i a da) (nth i b db).
Proof.
  revert b i; induction a as [|x a IH]; intros [|y b] [|i] H1 H2; cbn [V.map2 length nth] in *; try lia; auto.
  apply IH; lia.
Qed.
Lemma nth_map3 {A B C D} (f : A -> B -> C -> D) a b c i da db dc dd :
  (i < length a)%nat -> (i < length b)%nat -> (i < length c)%nat ->
  nth i (V.map3 f a b c) dd = f (nth i a da) (nth i b db) (nth i c dc).
Proof.
  revert b c i; induction a as [|x a IH]; intros [|y b] [|z c] [|i] H1 H2 H3; cbn [V.map3 length nth] in *; try lia; auto.
  apply IH; lia.
Qed.
Lemma map2_seq {A B C} (f : A -> B -> C) a b n da db :
  length a = n -> length b = n -> V.map2 f a b = map (fun i => f (nth i a da) (nth i b db)) (seq 0 n).
Proof.
  intros Ha Hb. rewrite (list_eq_seq (V.map2 f a b) (f da db)).
  rewrite len_map2, Ha, Hb, Nat.min_id. apply map_ext_in. intros i Hi. apply in_seq in Hi.
  apply nth_map2; lia.
Qed.
Lemma map3_seq {A B C D} (f : A -> B -> C -> D) a b c n da db dc :
  length a = n -> length b = n -> length c = n ->
  V.map3 f a b c = map (fun i => f (nth i a da) (nth i b db) (nth i c dc)) (seq 0 n).
Proof.
  intros Ha Hb Hc. rewrite (list_eq_seq (V.map3 f a b c) (f da db dc)).
  rewrite len_map3, Ha, Hb, Hc, !Nat.min_id. apply map_ext_in. intros i Hi. apply in_seq in Hi.
  apply nth_map3; lia.
Qed.
Lemma map2_map_r {A B C} (f : A -> B -> C) (q : A -> B) (l : list A) :
  V.map2 f l (map q l) = map (fun c => f c (q c)) l.
Proof. induction l; cbn [map V.map2]; auto. now rewrite IHl. Qed.
Lemma map2_app {A B C} (f : A -> B -> C) a1 a2 b1 b2 : length a1 = length b1 ->
  V.map2 f (a1 ++ a2) (b1 ++ b2) = V.map2 f a1 b1 ++ V.map2 f a2 b2.
Proof.
  revert b1; induction a1 as [|x a1 IH]; intros [|y b1] H; cbn [length app V.map2] in *; try discriminate; auto.
  f_equal. apply IH. lia.
Qed.
Lemma map2_repeat {A B C} (f : A -> B -> C) x y n : V.map2 f (repeat x n) (repeat y n) = repeat (f x y) n.
Proof. induction n; cbn [repeat V.map2]; auto. now rewrite IHn. Qed.
Lemma Forall_nth_lt {A} (P : A -> Prop) l i d : Forall P l -> (i < length l)%nat -> P (nth i l d).
Proof. intros H Hi. rewrite Forall_forall in H. apply H. now apply nth_In. Qed.
Lemma list_ext_R (a b : list R) n : length a = n -> length b = n ->
  (forall i, (i < n)%nat -> nth i a 0 = nth i b 0) -> a = b.
Proof. intros Ha Hb H. apply (nth_ext a b 0 0). lia. intros i Hi. apply H. lia. Qed.
Lemma nth_repeat_R (x : R) n i : (i < n)%nat -> nth i (repeat x n) 0 = x.
Proof. revert i; induction n; intros [|i] H; cbn [repeat nth]; try lia; auto. apply IHn; lia. Qed.
Lemma nth_vzero d n : nth d (V.vzero n) 0 = 0.
Proof. unfold V.vzero. revert d; induction n as [|n IH]; intros [|d]; cbn [repeat nth]; auto. Qed.
Lemma len_vzero n : length (V.vzero n) = n.
Proof. apply repeat_length. Qed.

(* sums *)
Lemma rsum_map_sub {A} (f h : A -> R) l : rsum (map (fun x => f x - h x) l) = rsum (map f l) - rsum (map h l).
Proof. induction l; simpl; lra. Qed.
Lemma rsum_le0 {A} (f : A -> R) l : (forall x, In x l -> 0 <= f x) -> 0 <= rsum (map f l).
Proof. intros H. induction l; simpl; [lra|]. assert (0 <= f a) by (apply H; now left). assert (0 <= rsum (map f l)) by (apply IHl; intros; apply H; now right). lra. Qed.
Lemma rsum_zero {A} (f : A -> R) l : (forall x, In x l -> f x = 0) -> rsum (map f l) = 0.
Proof. intros H. induction l; simpl; [lra|]. rewrite (H a) by now left. rewrite IHl. lra. intros; apply H; now right. Qed.
Lemma rsum_all_zero {A} (f : A -> R) l : (forall x, In x l -> 0 <= f x) -> rsum (map f l) = 0 -> forall x, In x l -> f x = 0.
Proof.
  intros H. induction l as [|a l IH]; simpl; intros E x Hx. contradiction.
  assert (0 <= f a) by (apply H; now left).
  assert (0 <= rsum (map f l)) by (apply rsum_le0; intros; apply H; now right).
  destruct Hx as [<-|Hx]. lra. apply IH; auto. intros; apply H; now right. lra.
Qed.
Lemma seq_as_map a n : seq a n = map (fun d => (a + d)%nat) (seq 0 n).
Proof.
  revert a; induction n as [|n IH]; intros a; cbn [seq map]; auto. f_equal. lia.
  rewrite <- (seq_shift n 0), map_map, (IH (S a)). apply map_ext. intros; lia.
Qed.
Lemma map_seq_shift {B} (f : nat -> B) a n : map f (seq a n) = map (fun d => f (a + d)%nat) (seq 0 n).
Proof. rewrite seq_as_map, map_map. reflexivity. Qed.
Lemma rsum_seq_split (f : nat -> R) C D :
  rsum (map f (seq 0 (C * D))) = rsum (map (fun c => rsum (map (fun d => f (c * D + d)%nat) (seq 0 D))) (seq 0 C)).
Proof.
  induction C as [|C IH]; cbn [Nat.mul]. reflexivity.
  rewrite seq_S, map_app, rsum_app, <- IH. cbn [map rsum].
  replace (D + C * D)%nat with (C * D + D)%nat by lia. rewrite seq_app, map_app, rsum_app. cbn [Nat.add].
  rewrite (map_seq_shift f (C * D) D). lra.
Qed.
Lemma rsum_delta (g : nat -> R) a r : (a < r)%nat ->
  rsum (map (fun b => (if Nat.eqb a b then 1 else 0) * g b) (seq 0 r)) = g a.
Proof.
  induction r as [|r IH]; intros H. lia.
  rewrite seq_S, map_app, rsum_app. cbn [Nat.add map rsum].
  destruct (Nat.eq_dec a r) as [->|Hne].
  - rewrite Nat.eqb_refl. rewrite rsum_zero. lra. intros b Hb. apply in_seq in Hb.
    destruct (Nat.eqb_spec r b). lia. lra.
  - rewrite IH by lia. destruct (Nat.eqb_spec a r). lia. lra.
Qed.
Lemma dotR_index (a b : list R) n : length b = n ->
  dotR a b = rsum (map (fun i => nth i a 0 * nth i b 0) (seq 0 n)).
Proof.
  unfold dotR. revert a n; induction b as [|y b IH]; intros a n H; cbn [length] in H; subst n.
  - destruct a; reflexivity.
  - destruct a as [|x a].
    + cbn [V.map2 rsum]. symmetry. apply rsum_zero. intros i _. destruct i; cbn [nth]; lra.
    + cbn [V.map2 rsum length seq map nth].
      rewrite <- seq_shift, map_map. rewrite (IH a (length b) eq_refl). reflexivity.
Qed.
Lemma rsum_list_index {A} (g : A -> R) (l : list A) d0 :
  rsum (map g l) = rsum (map (fun h => g (nth h l d0)) (seq 0 (length l))).
Proof. rewrite (list_eq_seq l d0) at 1. now rewrite map_map. Qed.

(* ================================================================ flat / rep / chunk / msum *)
Lemma nth_repeat_lt {A} (x d0 : A) n i : (i < n)%nat -> nth i (repeat x n) d0 = x.
Proof. revert i; induction n; intros [|i] H; cbn [repeat nth]; try lia; auto. apply IHn; lia. Qed.
Lemma nth_map_seq {B} (f : nat -> B) n i d0 : (i < n)%nat -> nth i (map f (seq 0 n)) d0 = f i.
Proof. intros H. rewrite (nth_map_lt f (seq 0 n) i d0 0%nat) by (rewrite seq_length; lia). now rewrite seq_nth. Qed.
Lemma len_concat {A} (M : list (list A)) D : Forall (fun r => length r = D) M -> length (concat M) = (length M * D)%nat.
Proof. induction 1; cbn [concat length Nat.mul]; auto. rewrite app_length. lia. Qed.
Lemma nth_concat {A} (M : list (list A)) D c d (d0 : A) :
  Forall (fun r => length r = D) M -> (c < length M)%nat -> (d < D)%nat ->
  nth (c * D + d) (concat M) d0 = nth d (nth c M []) d0.
Proof.
  intros H; revert c; induction H as [|r M Hr HM IH]; intros c Hc Hd; cbn [length] in Hc. lia.
  destruct c as [|c]; cbn [concat nth Nat.mul Nat.add].
  - apply app_nth1. lia.
  - rewrite app_nth2 by lia. replace (D + c * D + d - length r)%nat with (c * D + d)%nat by lia. apply IH; lia.
Qed.
Lemma Forall_concat' {A} (P : A -> Prop) M : Forall (Forall P) M -> Forall P (concat M).
Proof. induction 1; cbn [concat]. constructor. apply Forall_app; auto. Qed.
Lemma Forall_map2 {A B C} (P : C -> Prop) (f : A -> B -> C) a b :
  (forall x y, In x a -> In y b -> P (f x y)) -> Forall P (V.map2 f a b).
Proof.
  revert b; induction a as [|x a IH]; intros [|y b] H; cbn [V.map2]; constructor.
  apply H; now left. apply IH. intros; apply H; now right.
Qed.

Lemma len_rep D n : length (rep D n) = (length n * D)%nat.
Proof.
  unfold rep. rewrite (len_concat _ D). now rewrite map_length.
  rewrite Forall_map. apply Forall_forall. intros x _. apply repeat_length.
Qed.
Lemma nth_rep D (n : list R) c d : (c < length n)%nat -> (d < D)%nat -> nth (c * D + d) (rep D n) 0 = nth c n 0.
Proof.
  intros Hc Hd. unfold rep. rewrite (nth_concat _ D).
  - rewrite (nth_map_lt (fun a : InstR.T => repeat a D) n c [] 0) by exact Hc. apply nth_repeat_lt. exact Hd.
  - rewrite Forall_map. apply Forall_forall. intros x _. apply repeat_length.
  - now rewrite map_length.
  - exact Hd.
Qed.
Lemma rep_nonneg D n : Forall (fun a => 0 <= a) n -> Forall (fun a => 0 <= a) (rep D n).
Proof.
  intros H. unfold rep. apply Forall_concat'. rewrite Forall_map. eapply Forall_impl; [|exact H].
  intros a Ha. cbv beta. apply Forall_forall. intros x Hx. apply repeat_spec in Hx. now subst.
Qed.
Lemma rep_vadd D (a b : list R) : length a = length b -> rep D (V.vadd a b) = V.vadd (rep D a) (rep D b).
Proof.
  unfold rep, V.vadd. revert b; induction a as [|x a IH]; intros [|y b] H; cbn [length V.map2 map concat] in *; try discriminate; auto.
  rewrite map2_app by (now rewrite !repeat_length). rewrite map2_repeat. f_equal. apply IH. lia.
Qed.
Lemma rep_vzero D C : rep D (V.vzero C) = V.vzero (C * D).
Proof.
  unfold rep, V.vzero. induction C as [|C IH]; cbn [repeat map concat Nat.mul]; auto. rewrite IH. now rewrite repeat_app.
Qed.
Lemma flat_madd D (A B : list (list R)) : length A = length B ->
  Forall (fun r => length r = D) A -> Forall (fun r => length r = D) B ->
  flat (V.madd A B) = V.vadd (flat A) (flat B).
Proof.
  unfold flat, V.madd, V.vadd. intros HL HA; revert B HL; induction HA as [|x A Hx HA IH]; intros [|y B] HL HB;
    cbn [length V.map2 concat] in *; try discriminate; auto.
  inversion HB as [|? ? Hy HB']. rewrite map2_app by (etransitivity; [exact Hx|symmetry; exact Hy]). f_equal. apply IH; auto.
Qed.
Lemma flat_mzero C D : flat (V.mzero C D) = V.vzero (C * D).
Proof.
  unfold flat, V.mzero, V.vzero. induction C as [|C IH]; cbn [repeat concat Nat.mul]; auto. rewrite IH. now rewrite repeat_app.
Qed.

Lemma len_chunk {A} D C (W : list A) : length (chunk D C W) = C.
Proof. revert W; induction C; intros W; cbn [chunk length]; auto. Qed.
Lemma nth_firstn_lt {A} (l : list A) D d d0 : (d < D)%nat -> nth d (firstn D l) d0 = nth d l d0.
Proof. revert d l; induction D; intros [|d] [|x l] H; cbn [firstn nth]; try lia; auto. apply IHD; lia. Qed.
Lemma nth_skipn {A} (l : list A) m d d0 : nth d (skipn m l) d0 = nth (m + d) l d0.
Proof. revert l; induction m; intros [|x l]; cbn [skipn nth Nat.add]; auto. destruct d; reflexivity. Qed.
Lemma skipn_add {A} (l : list A) a b : skipn a (skipn b l) = skipn (b + a) l.
Proof. revert l; induction b; intros [|x l]; cbn [skipn Nat.add]; auto. destruct a; reflexivity. Qed.
Lemma nth_chunk {A} D C (W : list A) c : (c < C)%nat -> nth c (chunk D C W) [] = firstn D (skipn (c * D) W).
Proof.
  revert W c; induction C; intros W [|c] H; cbn [chunk nth Nat.mul]; try lia; auto.
  rewrite IHC by lia. rewrite skipn_add. reflexivity.
Qed.
Lemma nth_chunk_row {A} D C (W : list A) c d d0 : (c < C)%nat -> (d < D)%nat ->
  nth d (nth c (chunk D C W) []) d0 = nth (c * D + d) W d0.
Proof. intros Hc Hd. rewrite nth_chunk by exact Hc. rewrite nth_firstn_lt by exact Hd. apply nth_skipn. Qed.
Lemma len_chunk_row {A} D C (W : list A) c : length W = (C * D)%nat -> (c < C)%nat -> length (nth c (chunk D C W) []) = D.
Proof. intros HW Hc. rewrite nth_chunk by exact Hc. rewrite firstn_length, skipn_length, HW. nia. Qed.

Definition shape (r c : nat) (m : list (list R)) := length m = r /\ Forall (fun row => length row = c) m.
Lemma len_flat_shape r c (M : list (list R)) : shape r c M -> length (flat M) = (r * c)%nat.
Proof. intros [S1 S2]. unfold flat. unfold InstR.T in *. rewrite (len_concat _ c S2). now rewrite S1. Qed.
Lemma madd_shape r c a b : shape r c a -> shape r c b -> shape r c (V.madd a b).
Proof.
  intros [La Fa] [Lb Fb]. split. apply len_map2_eq; auto.
  apply Forall_map2. intros x y Hx Hy. rewrite Forall_forall in Fa, Fb. apply len_map2_eq; auto.
Qed.
Lemma mzero_shape r c : shape r c (V.mzero r c).
Proof. split. apply repeat_length. apply Forall_forall. intros x Hx. apply repeat_spec in Hx. subst. apply len_vzero. Qed.
Lemma msum_shape r c ms : Forall (shape r c) ms -> shape r c (msum r c ms).
Proof. induction 1; cbn [msum fold_right]. apply mzero_shape. apply madd_shape; auto. Qed.
Lemma nth_madd r c A B a b : shape r c A -> shape r c B -> (a < r)%nat -> (b < c)%nat ->
  nth b (nth a (V.madd A B) []) 0 = nth b (nth a A []) 0 + nth b (nth a B []) 0.
Proof.
  intros [LA FA] [LB FB] Ha Hb. unfold V.madd.
  rewrite (nth_map2 V.vadd A B a [] [] []) by lenR. unfold V.vadd.
  apply (nth_map2 InstR.add (nth a A []) (nth a B []) b 0 0 0).
  pose proof (Forall_nth_lt _ A a [] FA) as E. cbv beta in E. lenR.
  pose proof (Forall_nth_lt _ B a [] FB) as E. cbv beta in E. lenR.
Qed.
Lemma nth_msum r c ms a b : Forall (shape r c) ms -> (a < r)%nat -> (b < c)%nat ->
  nth b (nth a (msum r c ms) []) 0 = rsum (map (fun m => nth b (nth a m []) 0) ms).
Proof.
  intros H Ha Hb. induction H as [|m ms Hm Hms IH]; cbn [msum fold_right map rsum].
  - unfold V.mzero. rewrite nth_repeat_lt by exact Ha. apply nth_vzero.
  - rewrite (nth_madd r c) by (auto; apply msum_shape; auto). f_equal. exact IH.
Qed.
Lemma nth_mscale k (m : list (list R)) a b : (a < length m)%nat -> (b < length (nth a m []))%nat ->
  nth b (nth a (V.mscale k m) []) 0 = k * nth b (nth a m []) 0.
Proof.
  intros Ha Hb. unfold V.mscale. rewrite (nth_map_lt (V.vscale k) m a [] []) by exact Ha.
  unfold V.vscale. apply (nth_map_lt (InstR.mul k) (nth a m []) b 0 0). exact Hb.
Qed.
Lemma mscale_shape r c k m : shape r c m -> shape r c (V.mscale k m).
Proof.
  intros [L Fm]. split. unfold V.mscale. now rewrite map_length.
  unfold V.mscale. rewrite Forall_map. eapply Forall_impl; [|exact Fm]. intros x Hx. cbv beta. unfold V.vscale. now rewrite map_length.
Qed.
Lemma wprod1_shape r Wc sig : shape r r (wprod1 r Wc sig).
Proof.
  unfold wprod1. split. now rewrite map_length, seq_length.
  rewrite Forall_map. apply Forall_forall. intros a _. now rewrite map_length, seq_length.
Qed.
Lemma nth_wprod1 r Wc sig a b : (a < r)%nat -> (b < r)%nat ->
  nth b (nth a (wprod1 r Wc sig) []) 0 = rsum (V.map2 (fun (row : list R) s => nth a row 0 / s * nth b row 0) Wc sig).
Proof. intros Ha Hb. unfold wprod1. rewrite nth_map_seq by exact Ha. rewrite nth_map_seq by exact Hb. reflexivity. Qed.
Lemma nth_eye r a b : (a < r)%nat -> (b < r)%nat -> nth b (nth a (V.eye r) []) 0 = if Nat.eqb a b then 1 else 0.
Proof. intros Ha Hb. unfold V.eye. rewrite nth_map_seq by exact Ha. rewrite nth_map_seq by exact Hb. reflexivity. Qed.
Lemma eye_shape r : shape r r (V.eye r).
Proof.
  unfold V.eye. split. now rewrite map_length, seq_length.
  rewrite Forall_map. apply Forall_forall. intros a _. now rewrite map_length, seq_length.
Qed.

(* elementwise operations, index form *)
Lemma nth_vadd a b i n : length a = n -> length b = n -> (i < n)%nat -> nth i (V.vadd a b) 0 = nth i a 0 + nth i b 0.
Proof. intros. apply (nth_map2 InstR.add a b i 0 0 0); lenR. Qed.
Lemma nth_vsub a b i n : length a = n -> length b = n -> (i < n)%nat -> nth i (V.vsub a b) 0 = nth i a 0 - nth i b 0.
Proof. intros. apply (nth_map2 InstR.sub a b i 0 0 0); lenR. Qed.
Lemma nth_vmul a b i n : length a = n -> length b = n -> (i < n)%nat -> nth i (V.vmul a b) 0 = nth i a 0 * nth i b 0.
Proof. intros. apply (nth_map2 InstR.mul a b i 0 0 0); lenR. Qed.
Lemma nth_vdiv a b i n : length a = n -> length b = n -> (i < n)%nat -> nth i (V.vdiv a b) 0 = nth i a 0 / nth i b 0.
Proof. intros. apply (nth_map2 InstR.div a b i 0 0 0); lenR. Qed.
Lemma len_vadd a b n : length a = n -> length b = n -> length (V.vadd a b) = n.
Proof. apply len_map2_eq. Qed.
Lemma len_vsub a b n : length a = n -> length b = n -> length (V.vsub a b) = n.
Proof. apply len_map2_eq. Qed.
Lemma len_vmul a b n : length a = n -> length b = n -> length (V.vmul a b) = n.
Proof. apply len_map2_eq. Qed.
Lemma len_vdiv a b n : length a = n -> length b = n -> length (V.vdiv a b) = n.
Proof. apply len_map2_eq. Qed.
Lemma len_matvec (M : list (list R)) v : length (V.matvec M v) = length M.
Proof. unfold V.matvec. apply map_length. Qed.
Lemma nth_matvec (M : list (list R)) v j : (j < length M)%nat -> nth j (V.matvec M v) 0 = dotR (nth j M []) v.
Proof. intros H. unfold V.matvec. rewrite (nth_map_lt _ M j 0 []) by exact H. reflexivity. Qed.
Lemma dotR_nil_r a : dotR a [] = 0.
Proof. destruct a; reflexivity. Qed.
#[local] Hint Resolve len_vadd len_vsub len_vmul len_vdiv len_vzero : lens.

Section Enroll.
Variable inv : list (list R) -> list (list R).
Variables (C D rU rV : nat) (u : ubm) (F : fa) (X : list gstat).
Hypothesis Hu : ubm_ok C D u.
Hypothesis HF : fa_ok C D rU rV F.
Hypothesis HX : Forall (gstat_ok C D) X.
Hypothesis Hinv_x : forall s, In s X -> inv_ok inv rU (xprec rU D u F s).
Hypothesis Hinv_y : inv_ok inv rV (yprec rV D u F (sum_n C X)).

Let nacc := sum_n C X.
Let facc := sum_f C D X.
Definition yopt_ok (y : option (list R)) := match y with Some yy => length yy = rV | None => True end.

(* ================================================================ the model in index form *)
Definition dX : gstat := {| g_n := []; g_px := [] |}.
Definition Xh (h : nat) : gstat := nth h X dX.
Definition sj (j : nat) : R := nth j (vsuper u) 0.
Definition mj (j : nat) : R := nth j (msuper u) 0.
Definition Dj (j : nat) : R := nth j (fD F) 0.
Definition Urow (j : nat) : list R := nth j (fU F) [].
Definition Vrow (j : nat) : list R := nth j (fV F) [].
Definition nn (s : gstat) (j : nat) : R := nth j (rep D (g_n s)) 0.
Definition ff (s : gstat) (j : nat) : R := nth j (flat (g_px s)) 0.
Definition yl (y : option (list R)) : list R := match y with Some yy => yy | None => [] end.
Definition off (yy x z : list R) (j : nat) : R := mj j + dotR (Vrow j) yy + dotR (Urow j) x + Dj j * nth j z 0.
Definition cell (f o n s : R) : R := f * o / s - / 2 * n * (o * o) / s.

Lemma len_msuper : length (msuper u) = (C * D)%nat.
Proof. destruct Hu as (H1 & H2 & _). unfold msuper, flat. rewrite (len_concat _ D H2). now rewrite H1. Qed.
Lemma var_rows : Forall (fun r : list R => length r = D) (u_var u).
Proof. destruct Hu as (_ & _ & _ & H4). eapply Forall_impl; [|exact H4]. intros r Hr; apply Hr. Qed.
Lemma len_vsuper : length (vsuper u) = (C * D)%nat.
Proof. destruct Hu as (_ & _ & H3 & _). pose proof (len_concat _ D var_rows) as E. unfold vsuper, flat. unfold InstR.T in *. rewrite E. now rewrite H3. Qed.
Lemma sj_pos j : (j < C * D)%nat -> 0 < sj j.
Proof.
  intros Hj. unfold sj. apply (Forall_nth_lt (fun v => 0 < v)). 2:{ pose proof len_vsuper. lenR. }
  unfold vsuper, flat. apply Forall_concat'. destruct Hu as (_ & _ & _ & H4). eapply Forall_impl; [|exact H4]. intros r Hr; apply Hr.
Qed.
Lemma len_fU : length (fU F) = (C * D)%nat. Proof. apply HF. Qed.
Lemma len_fV : length (fV F) = (C * D)%nat. Proof. apply HF. Qed.
Lemma len_fD : length (fD F) = (C * D)%nat. Proof. apply HF. Qed.
Lemma len_repn s : gstat_ok C D s -> length (rep D (g_n s)) = (C * D)%nat.
Proof. intros (H1 & _). rewrite len_rep. now rewrite H1. Qed.
Lemma len_flatpx s : gstat_ok C D s -> length (flat (g_px s)) = (C * D)%nat.
Proof. intros (_ & _ & H3 & H4). unfold flat. rewrite (len_concat _ D H4). now rewrite H3. Qed.
Lemma nn_nonneg s j : gstat_ok C D s -> 0 <= nn s j.
Proof.
  intros (H1 & H2 & _). unfold nn. destruct (Nat.lt_ge_cases j (length (rep D (g_n s)))) as [Hl|Hl].
  - apply (Forall_nth_lt (fun a => 0 <= a)). now apply rep_nonneg. exact Hl.
  - rewrite nth_overflow by exact Hl. lra.
Qed.
Lemma Xh_ok h : (h < length X)%nat -> gstat_ok C D (Xh h).
Proof. intros Hh. unfold Xh. apply (Forall_nth_lt (gstat_ok C D)); auto. Qed.
Lemma len_omatvec y : length (omatvec (fV F) y (C * D)) = (C * D)%nat.
Proof. destruct y; cbn [omatvec]. rewrite len_matvec. apply len_fV. apply len_vzero. Qed.
Lemma nth_omatvec y j : (j < C * D)%nat -> nth j (omatvec (fV F) y (C * D)) 0 = dotR (Vrow j) (yl y).
Proof.
  intros Hj. destruct y; cbn [omatvec yl].
  - apply nth_matvec. pose proof len_fV. lenR.
  - rewrite nth_vzero. now rewrite dotR_nil_r.
Qed.
Lemma len_Ux x : length (V.matvec (fU F) x) = (C * D)%nat.
Proof. rewrite len_matvec. apply len_fU. Qed.
Lemma nth_Ux x j : (j < C * D)%nat -> nth j (V.matvec (fU F) x) 0 = dotR (Urow j) x.
Proof. intros Hj. apply nth_matvec. pose proof len_fU. lenR. Qed.
#[local] Hint Resolve len_msuper len_vsuper len_fU len_fV len_fD len_repn len_flatpx len_omatvec len_Ux : lens.
Ltac lens := auto 10 with lens.

Lemma len_sess_mean y x z : length z = (C * D)%nat -> length (sess_mean u F y x z) = (C * D)%nat.
Proof. intros Hz. unfold sess_mean. rewrite len_msuper. lens. Qed.
Lemma nth_sess_mean y x z j : length z = (C * D)%nat -> (j < C * D)%nat ->
  nth j (sess_mean u F y x z) 0 = off (yl y) x z j.
Proof.
  intros Hz Hj. unfold sess_mean, off. rewrite len_msuper.
  rewrite (nth_vadd _ _ j (C * D)) by lens. rewrite (nth_vadd _ _ j (C * D)) by lens.
  rewrite (nth_vadd _ _ j (C * D)) by lens. rewrite (nth_vmul _ _ j (C * D)) by lens.
  rewrite nth_omatvec by exact Hj. rewrite nth_Ux by exact Hj. reflexivity.
Qed.
Lemma sess_ll_index y z s x : gstat_ok C D s -> length z = (C * D)%nat ->
  sess_ll D u F y z s x = rsum (map (fun j => cell (ff s j) (off (yl y) x z j) (nn s j) (sj j)) (seq 0 (C * D))).
Proof.
  intros Hs Hz. unfold sess_ll.
  rewrite (map3_seq _ _ _ _ (C * D) (0, 0) 0 0).
  - f_equal. apply map_ext_in. intros j Hj. apply in_seq in Hj.
    rewrite combine_nth by (rewrite len_sess_mean by exact Hz; now apply len_flatpx).
    cbn [fst snd]. rewrite nth_sess_mean by (auto; lia). reflexivity.
  - rewrite combine_length, len_sess_mean by exact Hz. rewrite len_flatpx by exact Hs. lia.
  - now apply len_repn.
  - apply len_vsuper.
Qed.

Definition LPI (yy : list R) (xs : list (list R)) (z : list R) : R :=
  - / 2 * dotR yy yy
  - / 2 * rsum (map (fun h => dotR (nth h xs []) (nth h xs [])) (seq 0 (length X)))
  - / 2 * dotR z z
  + rsum (map (fun h => rsum (map (fun j => cell (ff (Xh h) j) (off yy (nth h xs []) z j) (nn (Xh h) j) (sj j)) (seq 0 (C * D))))
              (seq 0 (length X))).
Lemma logpost_index y xs z : length xs = length X -> length z = (C * D)%nat ->
  logpost D u F X y xs z = LPI (yl y) xs z.
Proof.
  intros Hxs Hz. unfold logpost, LPI.
  assert (E1 : match y with Some yy => dotR yy yy | None => 0 end = dotR (yl y) (yl y)).
  { destruct y; cbn [yl]. reflexivity. unfold dotR. cbn [V.map2 rsum]. reflexivity. }
  assert (E2 : rsum (map (fun x : list R => dotR x x) xs)
               = rsum (map (fun h => dotR (nth h xs []) (nth h xs [])) (seq 0 (length X)))).
  { rewrite (rsum_list_index _ xs []). now rewrite Hxs. }
  assert (E3 : rsum (V.map2 (fun (s : gstat) (x : list R) => sess_ll D u F y z s x) X xs)
               = rsum (map (fun h => rsum (map (fun j => cell (ff (Xh h) j) (off (yl y) (nth h xs []) z j) (nn (Xh h) j) (sj j)) (seq 0 (C * D))))
                           (seq 0 (length X)))).
  { rewrite (map2_seq _ X xs (length X) dX []) by auto. f_equal. apply map_ext_in. intros h Hh. apply in_seq in Hh.
    apply sess_ll_index. apply Xh_ok. lia. exact Hz. }
  rewrite E1, E2, E3. reflexivity.
Qed.

(* ================================================================ exact second-order expansion of LPI *)
Definition dv (b b2 : list R) (i : nat) : R := nth i b2 0 - nth i b 0.
Definition lin (p d : nat -> R) (n : nat) : R := rsum (map (fun a => p a * d a) (seq 0 n)).
Definition rr (yy : list R) (xs : list (list R)) (z : list R) (h j : nat) : R :=
  (ff (Xh h) j - nn (Xh h) j * off yy (nth h xs []) z j) / sj j.
Definition kk (h j : nat) : R := nn (Xh h) j / sj j.
Definition cy yy xs z (a : nat) : R :=
  rsum (map (fun h => rsum (map (fun j => rr yy xs z h j * nth a (Vrow j) 0) (seq 0 (C * D)))) (seq 0 (length X))).
Definition cx yy xs z (h a : nat) : R := rsum (map (fun j => rr yy xs z h j * nth a (Urow j) 0) (seq 0 (C * D))).
Definition cz yy xs z (j : nat) : R := rsum (map (fun h => rr yy xs z h j * Dj j) (seq 0 (length X))).
Definition eY (ry : nat) (yy yy2 : list R) (j : nat) : R := rsum (map (fun a => nth a (Vrow j) 0 * dv yy yy2 a) (seq 0 ry)).
Definition eX (x x2 : list R) (j : nat) : R := rsum (map (fun a => nth a (Urow j) 0 * dv x x2 a) (seq 0 rU)).
Definition eZ (z z2 : list R) (j : nat) : R := Dj j * dv z z2 j.
Definition ee ry yy (xs : list (list R)) z yy2 (xs2 : list (list R)) z2 (h j : nat) : R :=
  eY ry yy yy2 j + eX (nth h xs []) (nth h xs2 []) j + eZ z z2 j.
Definition Q1 ry yy (xs : list (list R)) z yy2 (xs2 : list (list R)) z2 : R :=
  lin (dv yy yy2) (dv yy yy2) ry
  + rsum (map (fun h => lin (dv (nth h xs []) (nth h xs2 [])) (dv (nth h xs []) (nth h xs2 [])) rU) (seq 0 (length X)))
  + lin (dv z z2) (dv z z2) (C * D).
Definition KK ry yy xs z yy2 xs2 z2 : R :=
  rsum (map (fun h => rsum (map (fun j => kk h j * (ee ry yy xs z yy2 xs2 z2 h j * ee ry yy xs z yy2 xs2 z2 h j)) (seq 0 (C * D))))
            (seq 0 (length X))).

Lemma cell_diff f o e n s : s <> 0 ->
  cell f (o + e) n s = cell f o n s + ((f - n * o) / s * e - / 2 * (n / s * (e * e))).
Proof. intros Hs. unfold cell. field. exact Hs. Qed.
Lemma dotR_diff a b b2 n : length b = n -> length b2 = n ->
  dotR a b2 = dotR a b + rsum (map (fun i => nth i a 0 * dv b b2 i) (seq 0 n)).
Proof.
  intros Hb Hb2. rewrite (dotR_index a b2 n Hb2), (dotR_index a b n Hb). rewrite <- rsum_map_add.
  apply rsum_map_ext. intros i _. unfold dv. ring.
Qed.
Lemma dotR_sq_diff b b2 n : length b = n -> length b2 = n ->
  dotR b2 b2 = dotR b b + 2 * lin (fun a => nth a b 0) (dv b b2) n + lin (dv b b2) (dv b b2) n.
Proof.
  intros Hb Hb2. rewrite (dotR_index b2 b2 n Hb2), (dotR_index b b n Hb). unfold lin.
  rewrite <- rsum_map_scal_l, <- !rsum_map_add. apply rsum_map_ext. intros i _. unfold dv. ring.
Qed.
Lemma lin_sub p q d n : lin (fun a => p a - q a) d n = lin p d n - lin q d n.
Proof. unfold lin. rewrite <- rsum_map_sub. apply rsum_map_ext. intros; ring. Qed.
Lemma lin_sq_nonneg d n : 0 <= lin d d n.
Proof. unfold lin. apply rsum_le0. intros a _. nra. Qed.
Lemma lin_swap2 (r : nat -> R) (v : nat -> nat -> R) (d : nat -> R) (lj la : list nat) :
  rsum (map (fun j => r j * rsum (map (fun a => v j a * d a) la)) lj)
  = rsum (map (fun a => rsum (map (fun j => r j * v j a) lj) * d a) la).
Proof.
  rewrite (rsum_map_ext _ (fun j => rsum (map (fun a => r j * v j a * d a) la))).
  2:{ intros j _. rewrite <- rsum_map_scal_l. apply rsum_map_ext. intros; ring. }
  rewrite rsum_swap. apply rsum_map_ext. intros a _. now rewrite rsum_map_scal_r.
Qed.
Lemma lin_swap3 (r : nat -> nat -> R) (v : nat -> nat -> R) (d : nat -> R) (lh lj la : list nat) :
  rsum (map (fun h => rsum (map (fun j => r h j * rsum (map (fun a => v j a * d a) la)) lj)) lh)
  = rsum (map (fun a => rsum (map (fun h => rsum (map (fun j => r h j * v j a) lj)) lh) * d a) la).
Proof.
  rewrite (rsum_map_ext _ (fun h => rsum (map (fun a => rsum (map (fun j => r h j * v j a) lj) * d a) la))).
  2:{ intros h _. apply lin_swap2. }
  rewrite rsum_swap. apply rsum_map_ext. intros a _. now rewrite rsum_map_scal_r.
Qed.
Lemma rsum2_split5 (A B1 B2 B3 K : nat -> nat -> R) (lh lj : list nat) :
  rsum (map (fun h => rsum (map (fun j => A h j + (B1 h j + B2 h j + B3 h j - / 2 * K h j)) lj)) lh)
  = rsum (map (fun h => rsum (map (fun j => A h j) lj)) lh)
    + rsum (map (fun h => rsum (map (fun j => B1 h j) lj)) lh)
    + rsum (map (fun h => rsum (map (fun j => B2 h j) lj)) lh)
    + rsum (map (fun h => rsum (map (fun j => B3 h j) lj)) lh)
    - / 2 * rsum (map (fun h => rsum (map (fun j => K h j) lj)) lh).
Proof.
  induction lh as [|h lh IH]; cbn [map rsum]. lra. rewrite IH.
  assert (E : rsum (map (fun j => A h j + (B1 h j + B2 h j + B3 h j - / 2 * K h j)) lj)
            = rsum (map (fun j => A h j) lj) + rsum (map (fun j => B1 h j) lj) + rsum (map (fun j => B2 h j) lj)
              + rsum (map (fun j => B3 h j) lj) - / 2 * rsum (map (fun j => K h j) lj)).
  { clear IH. induction lj as [|j lj IH]; cbn [map rsum]. lra. rewrite IH. lra. }
  rewrite E. lra.
Qed.
Lemma rsum2_ext (f g : nat -> nat -> R) n m :
  (forall h j, (h < n)%nat -> (j < m)%nat -> f h j = g h j) ->
  rsum (map (fun h => rsum (map (fun j => f h j) (seq 0 m))) (seq 0 n))
  = rsum (map (fun h => rsum (map (fun j => g h j) (seq 0 m))) (seq 0 n)).
Proof.
  intros H. apply rsum_map_ext. intros h Hh. apply in_seq in Hh. apply rsum_map_ext. intros j Hj. apply in_seq in Hj.
  apply H; lia.
Qed.

Lemma off_diff ry yy x z yy2 x2 z2 j : length yy = ry -> length yy2 = ry -> length x = rU -> length x2 = rU ->
  off yy2 x2 z2 j = off yy x z j + (eY ry yy yy2 j + eX x x2 j + eZ z z2 j).
Proof.
  intros H1 H2 H3 H4. unfold off, eY, eX, eZ.
  rewrite (dotR_diff (Vrow j) yy yy2 ry H1 H2), (dotR_diff (Urow j) x x2 rU H3 H4). unfold dv. ring.
Qed.

Lemma LPI_diff ry yy xs z yy2 xs2 z2 :
  length yy = ry -> length yy2 = ry ->
  (forall h, (h < length X)%nat -> length (nth h xs []) = rU) ->
  (forall h, (h < length X)%nat -> length (nth h xs2 []) = rU) ->
  length z = (C * D)%nat -> length z2 = (C * D)%nat ->
  LPI yy2 xs2 z2 - LPI yy xs z =
    lin (fun a => cy yy xs z a - nth a yy 0) (dv yy yy2) ry
    + rsum (map (fun h => lin (fun a => cx yy xs z h a - nth a (nth h xs []) 0) (dv (nth h xs []) (nth h xs2 [])) rU) (seq 0 (length X)))
    + lin (fun j => cz yy xs z j - nth j z 0) (dv z z2) (C * D)
    - / 2 * Q1 ry yy xs z yy2 xs2 z2 - / 2 * KK ry yy xs z yy2 xs2 z2.
Proof.
  intros Hy Hy2 Hx Hx2 Hz Hz2. unfold LPI, Q1, KK.
  rewrite (dotR_sq_diff yy yy2 ry Hy Hy2), (dotR_sq_diff z z2 (C * D) Hz Hz2).
  assert (EX : rsum (map (fun h => dotR (nth h xs2 []) (nth h xs2 [])) (seq 0 (length X)))
             = rsum (map (fun h => dotR (nth h xs []) (nth h xs [])) (seq 0 (length X)))
               + 2 * rsum (map (fun h => lin (fun a => nth a (nth h xs []) 0) (dv (nth h xs []) (nth h xs2 [])) rU) (seq 0 (length X)))
               + rsum (map (fun h => lin (dv (nth h xs []) (nth h xs2 [])) (dv (nth h xs []) (nth h xs2 [])) rU) (seq 0 (length X)))).
  { rewrite <- rsum_map_scal_l, <- !rsum_map_add. apply rsum_map_ext. intros h Hh. apply in_seq in Hh.
    apply dotR_sq_diff. apply Hx; lia. apply Hx2; lia. }
  rewrite EX. clear EX.
  assert (ES : rsum (map (fun h => rsum (map (fun j => cell (ff (Xh h) j) (off yy2 (nth h xs2 []) z2 j) (nn (Xh h) j) (sj j)) (seq 0 (C * D)))) (seq 0 (length X)))
             = rsum (map (fun h => rsum (map (fun j => cell (ff (Xh h) j) (off yy (nth h xs []) z j) (nn (Xh h) j) (sj j)) (seq 0 (C * D)))) (seq 0 (length X)))
               + lin (cy yy xs z) (dv yy yy2) ry
               + rsum (map (fun h => lin (cx yy xs z h) (dv (nth h xs []) (nth h xs2 [])) rU) (seq 0 (length X)))
               + lin (cz yy xs z) (dv z z2) (C * D)
               - / 2 * rsum (map (fun h => rsum (map (fun j => kk h j * (ee ry yy xs z yy2 xs2 z2 h j * ee ry yy xs z yy2 xs2 z2 h j)) (seq 0 (C * D)))) (seq 0 (length X)))).
  { rewrite (rsum2_ext _ (fun h j => cell (ff (Xh h) j) (off yy (nth h xs []) z j) (nn (Xh h) j) (sj j)
                 + (rr yy xs z h j * eY ry yy yy2 j + rr yy xs z h j * eX (nth h xs []) (nth h xs2 []) j + rr yy xs z h j * eZ z z2 j
                    - / 2 * (kk h j * (ee ry yy xs z yy2 xs2 z2 h j * ee ry yy xs z yy2 xs2 z2 h j))))).
    2:{ intros h j Hh Hj. rewrite (off_diff ry yy (nth h xs []) z yy2 (nth h xs2 []) z2 j Hy Hy2 (Hx h Hh) (Hx2 h Hh)).
        rewrite cell_diff by (pose proof (sj_pos j Hj); lra). unfold rr, kk, ee. ring. }
    rewrite rsum2_split5. f_equal. f_equal; [f_equal; [f_equal|]|].
    - exact (lin_swap3 (rr yy xs z) (fun j a => nth a (Vrow j) 0) (dv yy yy2) _ _ _).
    - apply rsum_map_ext. intros h _.
      exact (lin_swap2 (rr yy xs z h) (fun j a => nth a (Urow j) 0) (dv (nth h xs []) (nth h xs2 [])) _ _).
    - rewrite rsum_swap. unfold lin. apply rsum_map_ext. intros j _. unfold cz, eZ.
      rewrite <- rsum_map_scal_r. apply rsum_map_ext. intros; ring. }
  rewrite ES. clear ES.
  rewrite !lin_sub.
  rewrite (rsum_map_ext (fun h => lin (fun a => cx yy xs z h a - nth a (nth h xs []) 0) (dv (nth h xs []) (nth h xs2 [])) rU)
                        (fun h => lin (cx yy xs z h) (dv (nth h xs []) (nth h xs2 [])) rU - lin (fun a => nth a (nth h xs []) 0) (dv (nth h xs []) (nth h xs2 [])) rU)).
  2:{ intros h _. apply lin_sub. }
  rewrite rsum_map_sub. lra.
Qed.

Lemma kk_nonneg h j : (h < length X)%nat -> (j < C * D)%nat -> 0 <= kk h j.
Proof.
  intros Hh Hj. unfold kk. pose proof (nn_nonneg (Xh h) j (Xh_ok h Hh)). pose proof (sj_pos j Hj).
  apply Rmult_le_pos. lra. left. now apply Rinv_0_lt_compat.
Qed.
Lemma KK_nonneg ry yy xs z yy2 xs2 z2 : 0 <= KK ry yy xs z yy2 xs2 z2.
Proof.
  unfold KK. apply rsum_le0. intros h Hh. apply in_seq in Hh. apply rsum_le0. intros j Hj. apply in_seq in Hj.
  pose proof (kk_nonneg h j ltac:(lia) ltac:(lia)). nra.
Qed.
Lemma Q1_nonneg ry yy xs z yy2 xs2 z2 : 0 <= Q1 ry yy xs z yy2 xs2 z2.
Proof.
  unfold Q1. pose proof (lin_sq_nonneg (dv yy yy2) ry). pose proof (lin_sq_nonneg (dv z z2) (C * D)).
  assert (0 <= rsum (map (fun h => lin (dv (nth h xs []) (nth h xs2 [])) (dv (nth h xs []) (nth h xs2 [])) rU) (seq 0 (length X)))).
  { apply rsum_le0. intros h _. apply lin_sq_nonneg. }
  lra.
Qed.
Lemma lin_zero p d n : (forall a, (a < n)%nat -> p a = 0 \/ d a = 0) -> lin p d n = 0.
Proof. intros H. unfold lin. apply rsum_zero. intros a Ha. apply in_seq in Ha. destruct (H a ltac:(lia)) as [E|E]; rewrite E; ring. Qed.
Lemma lin_sq_zero d n : lin d d n = 0 -> forall a, (a < n)%nat -> d a = 0.
Proof.
  unfold lin. intros H a Ha.
  pose proof (rsum_all_zero (fun a => d a * d a) (seq 0 n) ltac:(intros; nra) H a ltac:(apply in_seq; lia)) as E.
  cbv beta in E. nra.
Qed.

Section Compare.
Variables (ry : nat) (yy : list R) (xs : list (list R)) (z : list R) (yy2 : list R) (xs2 : list (list R)) (z2 : list R).
Hypothesis Hy : length yy = ry.
Hypothesis Hy2 : length yy2 = ry.
Hypothesis Hxl : length xs = length X.
Hypothesis Hxl2 : length xs2 = length X.
Hypothesis Hx : Forall (fun x => length x = rU) xs.
Hypothesis Hx2 : Forall (fun x => length x = rU) xs2.
Hypothesis Hz : length z = (C * D)%nat.
Hypothesis Hz2 : length z2 = (C * D)%nat.
Hypothesis Sy : forall a, (a < ry)%nat -> nth a yy 0 = cy yy xs z a \/ dv yy yy2 a = 0.
Hypothesis Sx : forall h a, (h < length X)%nat -> (a < rU)%nat ->
  nth a (nth h xs []) 0 = cx yy xs z h a \/ dv (nth h xs []) (nth h xs2 []) a = 0.
Hypothesis Sz : forall j, (j < C * D)%nat -> nth j z 0 = cz yy xs z j \/ dv z z2 j = 0.

Lemma xs_nth_len (l : list (list R)) h : length l = length X -> Forall (fun x => length x = rU) l ->
  (h < length X)%nat -> length (nth h l []) = rU.
Proof. intros Hl Hf Hh. apply (Forall_nth_lt (fun x => length x = rU)). exact Hf. lia. Qed.

Lemma LPI_compare : LPI yy2 xs2 z2 - LPI yy xs z = - / 2 * Q1 ry yy xs z yy2 xs2 z2 - / 2 * KK ry yy xs z yy2 xs2 z2.
Proof.
  rewrite (LPI_diff ry) by (auto; intros; apply xs_nth_len; auto).
  rewrite lin_zero. 2:{ intros a Ha. destruct (Sy a Ha) as [E|E]; [left; lra|right; exact E]. }
  rewrite (lin_zero _ _ (C * D)). 2:{ intros a Ha. destruct (Sz a Ha) as [E|E]; [left; lra|right; exact E]. }
  rewrite rsum_zero. lra.
  intros h Hh. apply in_seq in Hh. apply lin_zero. intros a Ha. destruct (Sx h a ltac:(lia) Ha) as [E|E]; [left; lra|right; exact E].
Qed.
Lemma LPI_le : LPI yy2 xs2 z2 <= LPI yy xs z.
Proof. pose proof LPI_compare. pose proof (Q1_nonneg ry yy xs z yy2 xs2 z2). pose proof (KK_nonneg ry yy xs z yy2 xs2 z2). lra. Qed.
Lemma LPI_eq_unique : LPI yy2 xs2 z2 = LPI yy xs z -> xs2 = xs /\ yy2 = yy /\ z2 = z.
Proof.
  intros E. pose proof LPI_compare as Cmp. pose proof (Q1_nonneg ry yy xs z yy2 xs2 z2) as HQ. pose proof (KK_nonneg ry yy xs z yy2 xs2 z2).
  assert (Q0 : Q1 ry yy xs z yy2 xs2 z2 = 0) by lra. unfold Q1 in Q0, HQ.
  pose proof (lin_sq_nonneg (dv yy yy2) ry) as N1. pose proof (lin_sq_nonneg (dv z z2) (C * D)) as N3.
  assert (N2 : 0 <= rsum (map (fun h => lin (dv (nth h xs []) (nth h xs2 [])) (dv (nth h xs []) (nth h xs2 [])) rU) (seq 0 (length X)))).
  { apply rsum_le0. intros h _. apply lin_sq_nonneg. }
  assert (Z1 : lin (dv yy yy2) (dv yy yy2) ry = 0) by lra.
  assert (Z3 : lin (dv z z2) (dv z z2) (C * D) = 0) by lra.
  assert (Z2 : rsum (map (fun h => lin (dv (nth h xs []) (nth h xs2 [])) (dv (nth h xs []) (nth h xs2 [])) rU) (seq 0 (length X))) = 0) by lra.
  split; [|split].
  - apply (nth_ext xs2 xs [] []). lia. intros h Hh.
    apply (list_ext_R _ _ rU). apply xs_nth_len; auto; lia. apply xs_nth_len; auto; lia.
    intros a Ha.
    pose proof (rsum_all_zero _ _ ltac:(intros; apply lin_sq_nonneg) Z2 h ltac:(apply in_seq; lia)) as Zh. cbv beta in Zh.
    pose proof (lin_sq_zero _ _ Zh a Ha) as Za. unfold dv in Za. lra.
  - apply (list_ext_R _ _ ry Hy2 Hy). intros a Ha. pose proof (lin_sq_zero _ _ Z1 a Ha) as Za. unfold dv in Za. lra.
  - apply (list_ext_R _ _ (C * D) Hz2 Hz). intros a Ha. pose proof (lin_sq_zero _ _ Z3 a Ha) as Za. unfold dv in Za. lra.
Qed.
End Compare.

(* ================================================================ accumulators in index form *)
Lemma combine_seq {A B} (a : list A) (b : list B) n da db : length a = n -> length b = n ->
  combine a b = map (fun i => (nth i a da, nth i b db)) (seq 0 n).
Proof.
  intros Ha Hb. rewrite (list_eq_seq (combine a b) (da, db)). rewrite combine_length, Ha, Hb, Nat.min_id.
  apply map_ext_in. intros i Hi. apply combine_nth. lia.
Qed.
Lemma sum_n_gen (Xi : list gstat) : Forall (gstat_ok C D) Xi ->
  length (sum_n C Xi) = C /\
  forall j, (j < C * D)%nat -> nth j (rep D (sum_n C Xi)) 0 = rsum (map (fun s => nn s j) Xi).
Proof.
  unfold sum_n. induction 1 as [|s l Hs Hl [IH1 IH2]]; cbn [fold_right map rsum].
  - split. apply len_vzero. intros j Hj. rewrite rep_vzero. apply nth_vzero.
  - split. apply len_vadd. apply Hs. exact IH1.
    intros j Hj. rewrite rep_vadd by (destruct Hs as (H1 & _); lenR).
    rewrite (nth_vadd _ _ j (C * D)); [|now apply len_repn|rewrite len_rep; lenR|exact Hj].
    unfold nn at 1. f_equal. apply IH2. exact Hj.
Qed.
Lemma len_sum_n : length (sum_n C X) = C.
Proof. apply sum_n_gen. exact HX. Qed.
Lemma nth_rep_sum_n j : (j < C * D)%nat -> nth j (rep D (sum_n C X)) 0 = rsum (map (fun h => nn (Xh h) j) (seq 0 (length X))).
Proof.
  intros Hj. unfold Xh. rewrite <- (rsum_list_index (fun s => nn s j) X dX). apply sum_n_gen. exact HX. exact Hj.
Qed.
Lemma sum_f_gen (Xi : list gstat) : Forall (gstat_ok C D) Xi ->
  shape C D (sum_f C D Xi) /\
  forall j, (j < C * D)%nat -> nth j (flat (sum_f C D Xi)) 0 = rsum (map (fun s => ff s j) Xi).
Proof.
  unfold sum_f. induction 1 as [|s l Hs Hl [IH1 IH2]]; cbn [fold_right map rsum].
  - split. apply mzero_shape. intros j Hj. rewrite flat_mzero. apply nth_vzero.
  - pose proof Hs as (_ & _ & H3 & H4). split. apply madd_shape. split; assumption. exact IH1.
    intros j Hj. destruct IH1 as [Sl1 Sl2].
    rewrite (flat_madd D) by (auto; lenR).
    rewrite (nth_vadd _ _ j (C * D)); [|now apply len_flatpx| |exact Hj].
    + unfold ff at 1. f_equal. apply IH2. exact Hj.
    + apply (len_flat_shape C D). split; assumption.
Qed.
Lemma sum_f_shape : shape C D (sum_f C D X).
Proof. apply sum_f_gen. exact HX. Qed.
Lemma nth_flat_sum_f j : (j < C * D)%nat -> nth j (flat (sum_f C D X)) 0 = rsum (map (fun h => ff (Xh h) j) (seq 0 (length X))).
Proof.
  intros Hj. unfold Xh. rewrite <- (rsum_list_index (fun s => ff s j) X dX). apply sum_f_gen. exact HX. exact Hj.
Qed.
Lemma len_flat_sum_f : length (flat (sum_f C D X)) = (C * D)%nat.
Proof. apply (len_flat_shape C D). exact sum_f_shape. Qed.
Lemma len_rep_sum_n : length (rep D (sum_n C X)) = (C * D)%nat.
Proof. rewrite len_rep. now rewrite len_sum_n. Qed.

Lemma sess_ux_gen (Xi : list gstat) (xs : list (list R)) : Forall (gstat_ok C D) Xi ->
  length (sess_ux D F Xi xs (C * D)) = (C * D)%nat /\
  forall j, (j < C * D)%nat ->
    nth j (sess_ux D F Xi xs (C * D)) 0 = rsum (map (fun sx => nn (fst sx) j * dotR (Urow j) (snd sx)) (combine Xi xs)).
Proof.
  intros H. unfold sess_ux. revert xs; induction H as [|s l Hs Hl IH]; intros xs.
  - cbn [combine fold_right map rsum]. split. apply len_vzero. intros; apply nth_vzero.
  - destruct xs as [|x xs]; cbn [combine fold_right map rsum fst snd].
    + split. apply len_vzero. intros; apply nth_vzero.
    + destruct (IH xs) as [IH1 IH2]. split.
      * apply len_vadd. apply len_vmul. now apply len_repn. apply len_Ux. exact IH1.
      * intros j Hj. rewrite (nth_vadd _ _ j (C * D)); [| |exact IH1|exact Hj].
        2:{ apply len_vmul. now apply len_repn. apply len_Ux. }
        rewrite (nth_vmul _ _ j (C * D)); [|now apply len_repn|apply len_Ux|exact Hj].
        rewrite nth_Ux by exact Hj. rewrite IH2 by exact Hj. reflexivity.
Qed.
Lemma len_sess_ux xs : length (sess_ux D F X xs (C * D)) = (C * D)%nat.
Proof. apply sess_ux_gen. exact HX. Qed.
Lemma nth_sess_ux xs j : length xs = length X -> (j < C * D)%nat ->
  nth j (sess_ux D F X xs (C * D)) 0 = rsum (map (fun h => nn (Xh h) j * dotR (Urow j) (nth h xs [])) (seq 0 (length X))).
Proof.
  intros Hxs Hj. destruct (sess_ux_gen X xs HX) as [_ E]. rewrite E by exact Hj.
  pose proof (combine_seq X xs (length X) dX [] eq_refl Hxs) as Ec. unfold InstR.T in *. rewrite Ec, map_map. reflexivity.
Qed.
#[local] Hint Resolve len_flat_sum_f len_rep_sum_n len_sess_ux : lens.

(* ================================================================ z block *)
Definition Nj (j : nat) : R := rsum (map (fun h => nn (Xh h) j) (seq 0 (length X))).
Definition Fj (j : nat) : R := rsum (map (fun h => ff (Xh h) j) (seq 0 (length X))).
Lemma Nj_nonneg j : 0 <= Nj j.
Proof. unfold Nj. apply rsum_le0. intros h Hh. apply in_seq in Hh. apply nn_nonneg. apply Xh_ok. lia. Qed.

Lemma len_fn_z xs y : length (fn_z D u F X xs y nacc facc) = (C * D)%nat.
Proof. unfold fn_z, nacc, facc. rewrite len_msuper. lens. Qed.
Lemma nth_fn_z xs y j : length xs = length X -> (j < C * D)%nat ->
  nth j (fn_z D u F X xs y nacc facc) 0
  = Fj j - Nj j * (mj j + dotR (Vrow j) (yl y))
    - rsum (map (fun h => nn (Xh h) j * dotR (Urow j) (nth h xs [])) (seq 0 (length X))).
Proof.
  intros Hxs Hj. unfold fn_z, nacc, facc. rewrite len_msuper.
  rewrite (nth_vsub _ _ j (C * D)) by lens. rewrite (nth_vsub _ _ j (C * D)) by lens.
  rewrite (nth_vmul _ _ j (C * D)) by lens. rewrite (nth_vadd _ _ j (C * D)) by lens.
  rewrite nth_omatvec, nth_sess_ux, nth_flat_sum_f, nth_rep_sum_n by assumption. reflexivity.
Qed.
Lemma len_id_plus_d_inv : length (id_plus_d_inv D u F nacc) = (C * D)%nat.
Proof.
  unfold id_plus_d_inv, nacc. rewrite map_length. apply len_vadd. rewrite map_length. apply len_fD. lens.
Qed.
Lemma nth_id_plus_d_inv j : (j < C * D)%nat ->
  nth j (id_plus_d_inv D u F nacc) 0 = 1 / (1 + Dj j / sj j * Dj j * Nj j).
Proof.
  intros Hj. unfold id_plus_d_inv, nacc.
  assert (L1 : length (map (fun _ : InstR.T => InstR.one) (fD F)) = (C * D)%nat) by (rewrite map_length; apply len_fD).
  rewrite (nth_map_lt _ _ j 0 0). 2:{ rewrite (len_vadd _ _ (C * D)); [exact Hj|exact L1|lens]. }
  rewrite (nth_vadd _ _ j (C * D)); [|exact L1|lens|exact Hj].
  rewrite (nth_map_lt _ (fD F) j 0 0) by (pose proof len_fD; lenR).
  rewrite (nth_vmul _ _ j (C * D)) by lens. rewrite (nth_vmul _ _ j (C * D)) by lens. rewrite (nth_vdiv _ _ j (C * D)) by lens.
  rewrite nth_rep_sum_n by exact Hj. reflexivity.
Qed.
Lemma len_update_z xs y : length (update_z_class D u F X xs y nacc facc) = (C * D)%nat.
Proof. unfold update_z_class. pose proof (len_fn_z xs y). pose proof len_id_plus_d_inv. lens. Qed.
Lemma nth_update_z xs y j : length xs = length X -> (j < C * D)%nat ->
  nth j (update_z_class D u F X xs y nacc facc) 0
  = 1 / (1 + Dj j / sj j * Dj j * Nj j) * (Dj j / sj j)
    * (Fj j - Nj j * (mj j + dotR (Vrow j) (yl y))
       - rsum (map (fun h => nn (Xh h) j * dotR (Urow j) (nth h xs [])) (seq 0 (length X)))).
Proof.
  intros Hxs Hj. unfold update_z_class. pose proof (len_fn_z xs y). pose proof len_id_plus_d_inv.
  rewrite (nth_vmul _ _ j (C * D)) by lens. rewrite (nth_vmul _ _ j (C * D)) by lens. rewrite (nth_vdiv _ _ j (C * D)) by lens.
  rewrite nth_fn_z, nth_id_plus_d_inv by assumption. reflexivity.
Qed.

(* sum over sessions of the residual  (f - n (A + b_h + E)) / s  times a constant *)
Lemma sum_resid (f n b : nat -> R) (A E s k : R) (l : list nat) :
  rsum (map (fun h => (f h - n h * (A + b h + E)) / s * k) l)
  = k / s * (rsum (map f l) - rsum (map n l) * A - rsum (map (fun h => n h * b h) l) - rsum (map n l) * E).
Proof. induction l as [|h l IH]; cbn [map rsum]. unfold Rdiv; ring. rewrite IH. unfold Rdiv; ring. Qed.

Lemma z_stationary xs y j : length xs = length X -> (j < C * D)%nat ->
  nth j (update_z_class D u F X xs y nacc facc) 0 = cz (yl y) xs (update_z_class D u F X xs y nacc facc) j.
Proof.
  intros Hxs Hj. unfold cz, rr, off.
  rewrite (sum_resid (fun h => ff (Xh h) j) (fun h => nn (Xh h) j) (fun h => dotR (Urow j) (nth h xs []))).
  fold (Nj j) (Fj j). pose proof (nth_update_z xs y j Hxs Hj) as Ez. unfold InstR.T in *. rewrite Ez. clear Ez.
  pose proof (sj_pos j Hj). pose proof (Nj_nonneg j).
  assert (0 < sj j + Dj j * Dj j * Nj j) by nra.
  field. split; [|lra]. lra.
Qed.

Lemma dv_same b a : dv b b a = 0.
Proof. unfold dv. lra. Qed.

(* 1. the residual-offset update is the exact maximiser over z, the other blocks fixed *)
Theorem z_update_argmax (y : option (list R)) (xs : list (list R)) (z' : list R) :
  yopt_ok y -> length xs = length X -> Forall (fun x => length x = rU) xs -> length z' = (C * D)%nat ->
  logpost D u F X y xs z' <= logpost D u F X y xs (update_z_class D u F X xs y nacc facc).
Proof.
  intros _ Hxs Hx Hz'. pose proof (len_update_z xs y) as Lz.
  rewrite !logpost_index by assumption.
  apply (LPI_le (length (yl y))); auto.
  - intros a _. right. apply dv_same.
  - intros h a _ _. right. apply dv_same.
  - intros j Hj. left. apply z_stationary; assumption.
Qed.

(* ================================================================ the precision matrices, entrywise *)
Definition prec (r : nat) (W : list (list R)) (n : list R) : list (list R) :=
  V.madd (V.eye r) (msum r r (V.map2 (fun p nc => V.mscale nc p) (wprod r D u W) n)).
Lemma prec_terms_shape r W (n : list R) :
  Forall (shape r r) (V.map2 (fun p nc => V.mscale nc p) (wprod r D u W) n).
Proof.
  apply Forall_map2. intros p nc Hp _. apply mscale_shape.
  assert (Hw : Forall (shape r r) (wprod r D u W)).
  { unfold wprod. apply Forall_map2. intros; apply wprod1_shape. }
  rewrite Forall_forall in Hw. apply Hw. exact Hp.
Qed.
Lemma prec_shape r W n : shape r r (prec r W n).
Proof. unfold prec. apply madd_shape. apply eye_shape. apply msum_shape. apply prec_terms_shape. Qed.
Lemma prec_entry r (W : list (list R)) (n : list R) a b :
  length W = (C * D)%nat -> length n = C -> (a < r)%nat -> (b < r)%nat ->
  nth b (nth a (prec r W n) []) 0
  = (if Nat.eqb a b then 1 else 0)
    + rsum (map (fun j => nth j (rep D n) 0 * (nth a (nth j W []) 0 / sj j * nth b (nth j W []) 0)) (seq 0 (C * D))).
Proof.
  intros HW Hn Ha Hb. unfold prec.
  rewrite (nth_madd r r) by (auto using eye_shape, msum_shape, prec_terms_shape).
  rewrite nth_eye by assumption. f_equal.
  rewrite (nth_msum r r) by (auto using prec_terms_shape).
  pose proof Hu as (_ & _ & H3 & _). pose proof var_rows as Hvr.
  unfold wprod. unfold InstR.T in *. rewrite H3.
  rewrite (map2_seq _ (chunk D C W) (u_var u) C [] []) by (auto using len_chunk).
  rewrite (map2_seq _ _ n C [] 0) by (auto; now rewrite map_length, seq_length).
  rewrite map_map. rewrite rsum_seq_split. apply rsum_map_ext. intros c Hc. apply in_seq in Hc.
  rewrite nth_map_seq by lia.
  destruct (wprod1_shape r (nth c (chunk D C W) []) (nth c (u_var u) [])) as [Sw1 Sw2].
  rewrite nth_mscale.
  2:{ unfold InstR.T in *. lia. }
  2:{ pose proof (Forall_nth_lt _ _ a [] Sw2 ltac:(unfold InstR.T in *; lia)) as E. cbv beta in E. unfold InstR.T in *. lia. }
  rewrite nth_wprod1 by assumption.
  assert (Lsig : length (nth c (u_var u) []) = D).
  { apply (Forall_nth_lt (fun r0 : list R => length r0 = D)). exact Hvr. lia. }
  rewrite (map2_seq _ _ _ D [] 0) by (auto; apply (len_chunk_row D C); auto; lia).
  rewrite <- rsum_map_scal_l. apply rsum_map_ext. intros d Hd. apply in_seq in Hd.
  rewrite nth_chunk_row by lia. rewrite nth_rep by lia.
  unfold sj, vsuper, flat. unfold InstR.T in *. rewrite (nth_concat _ D) by (auto; lia). reflexivity.
Qed.
Lemma prec_matvec r (W : list (list R)) (n x : list R) a :
  length W = (C * D)%nat -> length n = C -> length x = r -> (a < r)%nat ->
  nth a (V.matvec (prec r W n) x) 0
  = nth a x 0 + rsum (map (fun j => nth j (rep D n) 0 / sj j * nth a (nth j W []) 0 * dotR (nth j W []) x) (seq 0 (C * D))).
Proof.
  intros HW Hn Hx Ha. destruct (prec_shape r W n) as [P1 P2].
  rewrite nth_matvec by lia. rewrite (dotR_index _ x r Hx).
  rewrite (rsum_map_ext _ (fun b => (if Nat.eqb a b then 1 else 0) * nth b x 0
            + rsum (map (fun j => nth j (rep D n) 0 / sj j * nth a (nth j W []) 0 * nth b (nth j W []) 0) (seq 0 (C * D))) * nth b x 0)).
  2:{ intros b Hb. apply in_seq in Hb. rewrite prec_entry by (auto; lia). rewrite Rmult_plus_distr_r. f_equal. f_equal.
      apply rsum_map_ext. intros j _. unfold Rdiv. ring. }
  rewrite rsum_map_add. rewrite (rsum_delta (fun b => nth b x 0) a r Ha). f_equal.
  rewrite <- (lin_swap2 (fun j => nth j (rep D n) 0 / sj j * nth a (nth j W []) 0) (fun j b => nth b (nth j W []) 0) (fun b => nth b x 0)).
  apply rsum_map_ext. intros j _. rewrite (dotR_index _ x r Hx). reflexivity.
Qed.
Lemma nth_wt_invsig r (W : list (list R)) (v : list R) a : length W = (C * D)%nat -> length v = (C * D)%nat -> (a < r)%nat ->
  nth a (wt_invsig r W (vsuper u) v) 0 = rsum (map (fun j => nth a (nth j W []) 0 / sj j * nth j v 0) (seq 0 (C * D))).
Proof.
  intros HW Hv Ha. unfold wt_invsig. rewrite nth_map_seq by exact Ha.
  pose proof len_vsuper. unfold InstR.T in *. rewrite (map3_seq _ W (vsuper u) v (C * D) [] 0 0) by assumption. reflexivity.
Qed.
Lemma len_wt_invsig r W sig v : length (wt_invsig r W sig v) = r.
Proof. unfold wt_invsig. now rewrite map_length, seq_length. Qed.

(* ================================================================ x block *)
Lemma len_fn_x s z y : gstat_ok C D s -> length z = (C * D)%nat -> length (fn_x D u F s (Some z) y) = (C * D)%nat.
Proof.
  intros Hs Hz. unfold fn_x. pose proof (len_repn s Hs). pose proof (len_flatpx s Hs).
  destruct y; lens.
  apply len_vsub. lens. apply len_vmul. assumption. rewrite len_matvec. apply len_fV.
Qed.
Lemma nth_fn_x s z y j : gstat_ok C D s -> length z = (C * D)%nat -> (j < C * D)%nat ->
  nth j (fn_x D u F s (Some z) y) 0 = ff s j - nn s j * (mj j + Dj j * nth j z 0) - nn s j * dotR (Vrow j) (yl y).
Proof.
  intros Hs Hz Hj. unfold fn_x. pose proof (len_repn s Hs). pose proof (len_flatpx s Hs).
  assert (E : nth j (V.vsub (flat (g_px s)) (V.vmul (rep D (g_n s)) (V.vadd (msuper u) (V.vmul (fD F) z)))) 0
              = ff s j - nn s j * (mj j + Dj j * nth j z 0)).
  { rewrite (nth_vsub _ _ j (C * D)) by lens. rewrite (nth_vmul _ _ j (C * D)) by lens.
    rewrite (nth_vadd _ _ j (C * D)) by lens. rewrite (nth_vmul _ _ j (C * D)) by lens. reflexivity. }
  destruct y as [yy|]; cbn [yl].
  - assert (LV : length (V.matvec (fV F) yy) = (C * D)%nat) by (rewrite len_matvec; apply len_fV).
    rewrite (nth_vsub _ _ j (C * D)) by lens. rewrite E.
    rewrite (nth_vmul _ _ j (C * D)) by lens. rewrite nth_matvec by (pose proof len_fV; lenR). reflexivity.
  - rewrite E. rewrite dotR_nil_r. unfold InstR.T in *. ring.
Qed.
Definition xstar (s : gstat) (z : list R) (y : option (list R)) : list R :=
  V.matvec (inv (xprec rU D u F s)) (wt_invsig rU (fU F) (vsuper u) (fn_x D u F s (Some z) y)).
Lemma latent_x_map z y :
  latent_x_class inv rU D u F (wprod rU D u (fU F)) X (Some z) y = map (fun s => xstar s z y) X.
Proof. reflexivity. Qed.
Lemma len_xstar s z y : In s X -> length (xstar s z y) = rU.
Proof. intros Hs. unfold xstar. rewrite len_matvec. apply (Hinv_x s Hs). Qed.
Lemma len_latent_x z y : length (latent_x_class inv rU D u F (wprod rU D u (fU F)) X (Some z) y) = length X.
Proof. rewrite latent_x_map. apply map_length. Qed.
Lemma latent_x_rows z y : Forall (fun x => length x = rU) (latent_x_class inv rU D u F (wprod rU D u (fU F)) X (Some z) y).
Proof. rewrite latent_x_map. rewrite Forall_map. apply Forall_forall. intros s Hs. now apply len_xstar. Qed.
Lemma nth_latent_x z y h : (h < length X)%nat ->
  nth h (latent_x_class inv rU D u F (wprod rU D u (fU F)) X (Some z) y) [] = xstar (Xh h) z y.
Proof. intros Hh. rewrite latent_x_map. apply (nth_map_lt (fun s => xstar s z y) X h [] dX Hh). Qed.

Lemma xstar_stationary s z y a : In s X -> gstat_ok C D s -> length z = (C * D)%nat -> (a < rU)%nat ->
  nth a (xstar s z y) 0
  = rsum (map (fun j => (ff s j - nn s j * (mj j + dotR (Vrow j) (yl y) + dotR (Urow j) (xstar s z y) + Dj j * nth j z 0)) / sj j
                        * nth a (Urow j) 0) (seq 0 (C * D))).
Proof.
  intros Hin Hs Hz Ha. pose proof (Hinv_x s Hin) as (I1 & I2 & I3 & _).
  pose proof (len_xstar s z y Hin) as Lx.
  assert (NE : V.matvec (xprec rU D u F s) (xstar s z y) = wt_invsig rU (fU F) (vsuper u) (fn_x D u F s (Some z) y)).
  { unfold xstar. apply I3. apply len_wt_invsig. }
  assert (NEa : nth a (V.matvec (prec rU (fU F) (g_n s)) (xstar s z y)) 0
                = nth a (wt_invsig rU (fU F) (vsuper u) (fn_x D u F s (Some z) y)) 0).
  { change (prec rU (fU F) (g_n s)) with (xprec rU D u F s). now rewrite NE. }
  rewrite prec_matvec in NEa; [|apply len_fU|apply Hs|exact Lx|exact Ha].
  rewrite nth_wt_invsig in NEa; [|apply len_fU|now apply len_fn_x|exact Ha].
  assert (E : nth a (xstar s z y) 0
              = rsum (map (fun j => nth a (nth j (fU F) []) 0 / sj j * nth j (fn_x D u F s (Some z) y) 0) (seq 0 (C * D)))
                - rsum (map (fun j => nth j (rep D (g_n s)) 0 / sj j * nth a (nth j (fU F) []) 0 * dotR (nth j (fU F) []) (xstar s z y)) (seq 0 (C * D)))) by (unfold InstR.T in *; lra).
  rewrite E at 1. rewrite <- rsum_map_sub. apply rsum_map_ext. intros j Hj. apply in_seq in Hj.
  rewrite nth_fn_x by (auto; lia). unfold Urow, nn. pose proof (sj_pos j ltac:(lia)). unfold InstR.T in *. field. lra.
Qed.
Lemma x_stationary z y h a : length z = (C * D)%nat -> (h < length X)%nat -> (a < rU)%nat ->
  nth a (nth h (latent_x_class inv rU D u F (wprod rU D u (fU F)) X (Some z) y) []) 0
  = cx (yl y) (latent_x_class inv rU D u F (wprod rU D u (fU F)) X (Some z) y) z h a.
Proof.
  intros Hz Hh Ha. unfold cx, rr, off. pose proof (nth_latent_x z y h Hh) as E. unfold InstR.T in *. rewrite E.
  apply xstar_stationary; auto. apply nth_In. exact Hh. now apply Xh_ok.
Qed.

(* 2. the channel-factor update is the exact maximiser over (x_1..x_H) *)
Theorem x_update_argmax (y : option (list R)) (z : list R) (xs' : list (list R)) :
  yopt_ok y -> length z = (C * D)%nat -> length xs' = length X -> Forall (fun x => length x = rU) xs' ->
  logpost D u F X y xs' z
  <= logpost D u F X y (latent_x_class inv rU D u F (wprod rU D u (fU F)) X (Some z) y) z.
Proof.
  intros _ Hz Hxs Hx. pose proof (len_latent_x z y) as Ll. pose proof (latent_x_rows z y) as Lr.
  rewrite !logpost_index by assumption.
  apply (LPI_le (length (yl y))); auto.
  - intros a _. right. apply dv_same.
  - intros h a Hh Ha. left. apply x_stationary; assumption.
  - intros j Hj. right. apply dv_same.
Qed.

(* ================================================================ y block *)
Lemma len_fn_y xs z : length z = (C * D)%nat -> length (fn_y D u F X xs z nacc facc) = (C * D)%nat.
Proof. intros Hz. unfold fn_y, nacc, facc. rewrite len_msuper. lens. Qed.
Lemma nth_fn_y xs z j : length xs = length X -> length z = (C * D)%nat -> (j < C * D)%nat ->
  nth j (fn_y D u F X xs z nacc facc) 0
  = Fj j - Nj j * (mj j + Dj j * nth j z 0)
    - rsum (map (fun h => nn (Xh h) j * dotR (Urow j) (nth h xs [])) (seq 0 (length X))).
Proof.
  intros Hxs Hz Hj. unfold fn_y, nacc, facc. rewrite len_msuper.
  rewrite (nth_vsub _ _ j (C * D)) by lens. rewrite (nth_vsub _ _ j (C * D)) by lens.
  rewrite (nth_vmul _ _ j (C * D)) by lens. rewrite (nth_vadd _ _ j (C * D)) by lens.
  rewrite (nth_vmul _ _ j (C * D)) by lens.
  rewrite nth_sess_ux, nth_flat_sum_f, nth_rep_sum_n by assumption. reflexivity.
Qed.
Definition ystar (xs : list (list R)) (z : list R) : list R :=
  V.matvec (inv (yprec rV D u F nacc)) (wt_invsig rV (fV F) (vsuper u) (fn_y D u F X xs z nacc facc)).
Lemma update_y_ystar xs z :
  update_y_class inv rV D u F (wprod rV D u (fV F)) X xs z nacc facc = ystar xs z.
Proof.
  unfold update_y_class, ystar, id_plus_prod_inv. destruct Hinv_y as (_ & _ & _ & I4).
  apply I4. apply len_wt_invsig.
Qed.
Lemma len_ystar xs z : length (ystar xs z) = rV.
Proof. unfold ystar. rewrite len_matvec. apply Hinv_y. Qed.
Lemma y_stationary xs z a : length xs = length X -> length z = (C * D)%nat -> (a < rV)%nat ->
  nth a (ystar xs z) 0 = cy (ystar xs z) xs z a.
Proof.
  intros Hxs Hz Ha. pose proof Hinv_y as (I1 & I2 & I3 & _). pose proof (len_ystar xs z) as Ly.
  assert (NE : V.matvec (yprec rV D u F nacc) (ystar xs z) = wt_invsig rV (fV F) (vsuper u) (fn_y D u F X xs z nacc facc)).
  { unfold ystar. apply I3. apply len_wt_invsig. }
  assert (NEa : nth a (V.matvec (prec rV (fV F) nacc) (ystar xs z)) 0
                = nth a (wt_invsig rV (fV F) (vsuper u) (fn_y D u F X xs z nacc facc)) 0).
  { change (prec rV (fV F) nacc) with (yprec rV D u F nacc). now rewrite NE. }
  rewrite prec_matvec in NEa; [|apply len_fV|apply len_sum_n|exact Ly|exact Ha].
  rewrite nth_wt_invsig in NEa; [|apply len_fV|now apply len_fn_y|exact Ha].
  assert (E : nth a (ystar xs z) 0
              = rsum (map (fun j => nth a (nth j (fV F) []) 0 / sj j * nth j (fn_y D u F X xs z nacc facc) 0) (seq 0 (C * D)))
                - rsum (map (fun j => nth j (rep D nacc) 0 / sj j * nth a (nth j (fV F) []) 0 * dotR (nth j (fV F) []) (ystar xs z)) (seq 0 (C * D))))
    by (unfold InstR.T in *; lra).
  rewrite E at 1. unfold cy. rewrite rsum_swap. rewrite <- rsum_map_sub. apply rsum_map_ext. intros j Hj. apply in_seq in Hj.
  unfold rr, off.
  rewrite (sum_resid (fun h => ff (Xh h) j) (fun h => nn (Xh h) j) (fun h => dotR (Urow j) (nth h xs []))).
  fold (Nj j) (Fj j). rewrite nth_fn_y by (auto; lia). unfold nacc. rewrite nth_rep_sum_n by lia. fold (Nj j).
  unfold Vrow, Urow. pose proof (sj_pos j ltac:(lia)). unfold InstR.T in *. field. lra.
Qed.

(* 3. the speaker-factor update is the exact maximiser over y *)
Theorem y_update_argmax (xs : list (list R)) (z : list R) (y' : list R) :
  length xs = length X -> Forall (fun x => length x = rU) xs -> length z = (C * D)%nat -> length y' = rV ->
  logpost D u F X (Some y') xs z
  <= logpost D u F X (Some (update_y_class inv rV D u F (wprod rV D u (fV F)) X xs z nacc facc)) xs z.
Proof.
  intros Hxs Hx Hz Hy'. rewrite update_y_ystar. pose proof (len_ystar xs z) as Ly.
  rewrite !logpost_index by assumption. cbn [yl].
  apply (LPI_le rV); auto.
  - intros a Ha. left. apply y_stationary; assumption.
  - intros h a _ _. right. apply dv_same.
  - intros j Hj. right. apply dv_same.
Qed.

(* 4. hence one more enrolment iteration never lowers the joint posterior.  State of ISV after k
   iterations = (x's of the k-th iteration, z of the k-th iteration). *)
Fixpoint isv_state (k : nat) : list (list R) * list R :=
  match k with
  | O => (map (fun _ => V.vzero rU) X, V.vzero (C * D))
  | S k' => let z := snd (isv_state k') in
            let xs := latent_x_class inv rU D u F (wprod rU D u (fU F)) X (Some z) None in
            (xs, update_z_class D u F X xs None nacc facc)
  end.

Definition isv_step (z : list R) : list R :=
  update_z_class D u F X (latent_x_class inv rU D u F (wprod rU D u (fU F)) X (Some z) None) None nacc facc.
Lemma isv_loop_snoc k z :
  isv_enroll_loop inv (S k) rU D u F (wprod rU D u (fU F)) X nacc facc z
  = isv_step (isv_enroll_loop inv k rU D u F (wprod rU D u (fU F)) X nacc facc z).
Proof.
  revert z; induction k as [|k IH]; intros z. reflexivity.
  change (isv_enroll_loop inv (S (S k)) rU D u F (wprod rU D u (fU F)) X nacc facc z)
    with (isv_enroll_loop inv (S k) rU D u F (wprod rU D u (fU F)) X nacc facc (isv_step z)).
  rewrite IH. reflexivity.
Qed.
Theorem isv_state_is_enroll (k : nat) : snd (isv_state k) = isv_enroll inv k rU D u F X.
Proof.
  unfold isv_enroll. destruct Hu as (HC & _). rewrite HC. fold nacc facc.
  induction k as [|k IH]. reflexivity.
  rewrite isv_loop_snoc, <- IH. reflexivity.
Qed.
Lemma isv_state_shape k :
  length (fst (isv_state k)) = length X /\ Forall (fun x => length x = rU) (fst (isv_state k))
  /\ length (snd (isv_state k)) = (C * D)%nat.
Proof.
  destruct k as [|k]; cbn [isv_state fst snd].
  - split; [|split]. apply map_length. rewrite Forall_map. apply Forall_forall. intros; apply len_vzero. apply len_vzero.
  - split; [|split]. apply len_latent_x. apply latent_x_rows. apply len_update_z.
Qed.
Theorem isv_enroll_monotone (k : nat) :
  logpost D u F X None (fst (isv_state k)) (snd (isv_state k))
  <= logpost D u F X None (fst (isv_state (S k))) (snd (isv_state (S k))).
Proof.
  destruct (isv_state_shape k) as (S1 & S2 & S3). cbn [isv_state fst snd].
  eapply Rle_trans.
  - apply (x_update_argmax None (snd (isv_state k)) (fst (isv_state k))); auto. exact I.
  - apply (z_update_argmax None); auto. exact I. apply len_latent_x. apply latent_x_rows.
Qed.

Definition jfa_state (k : nat) : list (list R) * list R * list R :=
  jfa_enroll_loop inv k rU rV D u F (wprod rU D u (fU F)) (wprod rV D u (fV F)) X nacc facc
                  (map (fun _ => V.vzero rU) X) (V.vzero rV) (V.vzero (C * D)).
Theorem jfa_state_is_enroll (k : nat) :
  jfa_enroll inv k rU rV D u F X = (snd (fst (jfa_state k)), snd (jfa_state k)).
Proof.
  unfold jfa_enroll, jfa_state. destruct Hu as (HC & _). rewrite HC. fold nacc facc.
  destruct (jfa_enroll_loop inv k rU rV D u F (wprod rU D u (fU F)) (wprod rV D u (fV F)) X nacc facc
              (map (fun _ => V.vzero rU) X) (V.vzero rV) (V.vzero (C * D))) as [[a b] c].
  reflexivity.
Qed.
Definition jfa_step (st : list (list R) * list R * list R) : list (list R) * list R * list R :=
  let '(xs, y, z) := st in
  let y' := update_y_class inv rV D u F (wprod rV D u (fV F)) X xs z nacc facc in
  let xs' := latent_x_class inv rU D u F (wprod rU D u (fU F)) X (Some z) (Some y') in
  let z' := update_z_class D u F X xs' (Some y') nacc facc in
  (xs', y', z').
Lemma jfa_loop_snoc k xs y z :
  jfa_enroll_loop inv (S k) rU rV D u F (wprod rU D u (fU F)) (wprod rV D u (fV F)) X nacc facc xs y z
  = jfa_step (jfa_enroll_loop inv k rU rV D u F (wprod rU D u (fU F)) (wprod rV D u (fV F)) X nacc facc xs y z).
Proof.
  revert xs y z; induction k as [|k IH]; intros xs y z. reflexivity.
  set (y' := update_y_class inv rV D u F (wprod rV D u (fV F)) X xs z nacc facc).
  set (xs' := latent_x_class inv rU D u F (wprod rU D u (fU F)) X (Some z) (Some y')).
  set (z' := update_z_class D u F X xs' (Some y') nacc facc).
  change (jfa_enroll_loop inv (S (S k)) rU rV D u F (wprod rU D u (fU F)) (wprod rV D u (fV F)) X nacc facc xs y z)
    with (jfa_enroll_loop inv (S k) rU rV D u F (wprod rU D u (fU F)) (wprod rV D u (fV F)) X nacc facc xs' y' z').
  rewrite IH. reflexivity.
Qed.
Definition st_ok (st : list (list R) * list R * list R) : Prop :=
  let '(xs, y, z) := st in
  length xs = length X /\ Forall (fun x => length x = rU) xs /\ length y = rV /\ length z = (C * D)%nat.
Lemma len_update_y xs z : length (update_y_class inv rV D u F (wprod rV D u (fV F)) X xs z nacc facc) = rV.
Proof. rewrite update_y_ystar. apply len_ystar. Qed.
Lemma jfa_state_shape k : st_ok (jfa_state k).
Proof.
  induction k as [|k IH].
  - cbn. split; [|split; [|split]]. apply map_length. rewrite Forall_map. apply Forall_forall. intros; apply len_vzero.
    apply len_vzero. apply len_vzero.
  - unfold jfa_state in *. rewrite jfa_loop_snoc.
    destruct (jfa_enroll_loop inv k rU rV D u F (wprod rU D u (fU F)) (wprod rV D u (fV F)) X nacc facc
              (map (fun _ => V.vzero rU) X) (V.vzero rV) (V.vzero (C * D))) as [[xs y] z].
    cbn [jfa_step st_ok]. split; [|split; [|split]].
    apply len_latent_x. apply latent_x_rows. apply len_update_y. apply len_update_z.
Qed.
Theorem jfa_enroll_monotone (k : nat) :
  let '(xs, y, z) := jfa_state k in
  let '(xs', y', z') := jfa_state (S k) in
  logpost D u F X (Some y) xs z <= logpost D u F X (Some y') xs' z'.
Proof.
  pose proof (jfa_state_shape k) as Hs. unfold jfa_state in *. rewrite jfa_loop_snoc.
  destruct (jfa_enroll_loop inv k rU rV D u F (wprod rU D u (fU F)) (wprod rV D u (fV F)) X nacc facc
              (map (fun _ => V.vzero rU) X) (V.vzero rV) (V.vzero (C * D))) as [[xs y] z].
  cbn [jfa_step]. destruct Hs as (S1 & S2 & S3 & S4).
  set (y' := update_y_class inv rV D u F (wprod rV D u (fV F)) X xs z nacc facc).
  set (xs' := latent_x_class inv rU D u F (wprod rU D u (fU F)) X (Some z) (Some y')).
  assert (Ly' : length y' = rV) by apply len_update_y.
  eapply Rle_trans; [|eapply Rle_trans].
  - apply (y_update_argmax xs z y); assumption.
  - apply (x_update_argmax (Some y') z xs); assumption.
  - apply (z_update_argmax (Some y') xs' z); auto. apply len_latent_x. apply latent_x_rows.
Qed.

(* 5. a point that every block update leaves unchanged is THE joint posterior mode (global and unique) *)
Theorem jfa_fixed_point_is_mode (xs : list (list R)) (y z : list R) :
  length xs = length X -> Forall (fun x => length x = rU) xs -> length y = rV -> length z = (C * D)%nat ->
  update_y_class inv rV D u F (wprod rV D u (fV F)) X xs z nacc facc = y ->
  latent_x_class inv rU D u F (wprod rU D u (fU F)) X (Some z) (Some y) = xs ->
  update_z_class D u F X xs (Some y) nacc facc = z ->
  forall xs2 y2 z2, length xs2 = length X -> Forall (fun x => length x = rU) xs2 -> length y2 = rV -> length z2 = (C * D)%nat ->
    logpost D u F X (Some y2) xs2 z2 <= logpost D u F X (Some y) xs z
    /\ (logpost D u F X (Some y2) xs2 z2 = logpost D u F X (Some y) xs z -> xs2 = xs /\ y2 = y /\ z2 = z).
Proof.
  intros Hxs Hx Hy Hz Fy Fx Fz xs2 y2 z2 Hxs2 Hx2 Hy2 Hz2.
  rewrite !logpost_index by assumption. cbn [yl].
  assert (SY : forall a, (a < rV)%nat -> nth a y 0 = cy y xs z a \/ dv y y2 a = 0).
  { intros a Ha. left. pose proof (y_stationary xs z a Hxs Hz Ha) as E. unfold InstR.T in *. rewrite <- update_y_ystar, Fy in E. exact E. }
  assert (SX : forall h a, (h < length X)%nat -> (a < rU)%nat ->
               nth a (nth h xs []) 0 = cx y xs z h a \/ dv (nth h xs []) (nth h xs2 []) a = 0).
  { intros h a Hh Ha. left. pose proof (x_stationary z (Some y) h a Hz Hh Ha) as E. unfold InstR.T in *. rewrite Fx in E. exact E. }
  assert (SZ : forall j, (j < C * D)%nat -> nth j z 0 = cz y xs z j \/ dv z z2 j = 0).
  { intros j Hj. left. pose proof (z_stationary xs (Some y) j Hxs Hj) as E. unfold InstR.T in *. rewrite Fz in E. exact E. }
  split.
  - apply (LPI_le rV); assumption.
  - apply (LPI_eq_unique rV); assumption.
Qed.
End Enroll.

Print Assumptions z_update_argmax.
Print Assumptions jfa_fixed_point_is_mode.
