(* C07, last clause: "as the number of iterations grows the returned factors converge to the unique joint posterior mode".
   The enrolment sweeps are exact block-coordinate ascent on a strictly concave quadratic whose Hessian is -(I + PSD)
   (standard-normal priors), so the iterates converge (geometrically) to the unique maximiser, which exists. *)
From Coq Require Import Reals Lra List Lia Bool Arith.
From BLE Require Import Num.Scalar Num.InstR Lib.Vec Model.FA Proofs.RLemmas Proofs.FAEnroll.
From BLE Require Import Proofs.SeqConv Proofs.FAEnrollConvAux.
Import ListNotations.
Open Scope R_scope.
Import FR.

(* squared Euclidean distance between two vectors / two lists of vectors *)
Definition sqd (a b : list R) : R := rsum (V.map2 (fun p q => (p - q) * (p - q)) a b).
Definition sqds (a b : list (list R)) : R := rsum (V.map2 sqd a b).

Section Conv.
Variable inv : list (list R) -> list (list R).
Variables (C D rU rV : nat) (u : ubm) (F : fa) (X : list gstat).
Hypothesis Hu : ubm_ok C D u.
Hypothesis HF : fa_ok C D rU rV F.
Hypothesis HX : Forall (gstat_ok C D) X.
Hypothesis Hinv_x : forall s, In s X -> inv_ok inv rU (xprec rU D u F s).
Hypothesis Hinv_y : inv_ok inv rV (yprec rV D u F (sum_n C X)).

Definition jfa_dist2 (st st' : list (list R) * list R * list R) : R :=
  let '(xs, y, z) := st in let '(xs', y', z') := st' in sqds xs xs' + sqd y y' + sqd z z'.
Definition isv_dist2 (st st' : list (list R) * list R) : R :=
  sqds (fst st) (fst st') + sqd (snd st) (snd st').

(* JFA: the unique joint posterior mode exists and the enrolment iterates converge to it *)
Theorem jfa_enroll_converges :
  exists xs y z,
    st_ok C D rU rV X (xs, y, z)
    /\ (forall xs2 y2 z2, st_ok C D rU rV X (xs2, y2, z2) ->
          logpost D u F X (Some y2) xs2 z2 <= logpost D u F X (Some y) xs z
          /\ (logpost D u F X (Some y2) xs2 z2 = logpost D u F X (Some y) xs z -> xs2 = xs /\ y2 = y /\ z2 = z))
    /\ (forall eps, 0 < eps -> exists K, forall k, (K <= k)%nat ->
          jfa_dist2 (jfa_state inv C D rU rV u F X k) (xs, y, z) < eps).
Proof.
  destruct (jfa_conv_aux inv C D rU rV u F X Hu HF HX Hinv_x Hinv_y) as (xs & y & z & H1 & H2 & H3).
  exists xs, y, z. split; [exact H1|]. split; [exact H2|].
  intros eps He. destruct (H3 eps He) as [K HK]. exists K. intros k Hk. specialize (HK k Hk).
  unfold jfa_dist2. destruct (jfa_state inv C D rU rV u F X k) as [[xk yk] zk]. exact HK.
Qed.

(* ISV (no speaker factors) *)
Theorem isv_enroll_converges :
  exists xs z,
    length xs = length X /\ Forall (fun x => length x = rU) xs /\ length z = (C * D)%nat
    /\ (forall xs2 z2, length xs2 = length X -> Forall (fun x => length x = rU) xs2 -> length z2 = (C * D)%nat ->
          logpost D u F X None xs2 z2 <= logpost D u F X None xs z
          /\ (logpost D u F X None xs2 z2 = logpost D u F X None xs z -> xs2 = xs /\ z2 = z))
    /\ (forall eps, 0 < eps -> exists K, forall k, (K <= k)%nat ->
          isv_dist2 (isv_state inv C D rU u F X k) (xs, z) < eps).
Proof. exact (isv_conv_aux inv C D rU rV u F X Hu HF HX Hinv_x). Qed.

(* the factors enrolment RETURNS (isv_enroll: z; jfa_enroll: (y, z)) converge to those of the unique mode *)
Corollary isv_enroll_returned_converges :
  exists xs z,
    length xs = length X /\ Forall (fun x => length x = rU) xs /\ length z = (C * D)%nat
    /\ (forall xs2 z2, length xs2 = length X -> Forall (fun x => length x = rU) xs2 -> length z2 = (C * D)%nat ->
          logpost D u F X None xs2 z2 <= logpost D u F X None xs z)
    /\ (forall eps, 0 < eps -> exists K, forall k, (K <= k)%nat -> sqd (isv_enroll inv k rU D u F X) z < eps).
Proof.
  destruct isv_enroll_converges as (xs & z & L1 & L2 & L3 & M & Cv).
  exists xs, z. split; [exact L1|]. split; [exact L2|]. split; [exact L3|]. split.
  - intros xs2 z2 B1 B2 B3. apply (M xs2 z2 B1 B2 B3).
  - intros eps He. destruct (Cv eps He) as [K HK]. exists K. intros k Hk. specialize (HK k Hk).
    rewrite <- (isv_state_is_enroll inv C D rU u F X Hu k). unfold isv_dist2 in HK. cbn [fst snd] in HK.
    pose proof (sqdsA_nonneg (fst (isv_state inv C D rU u F X k)) xs) as NN.
    change (sqdsA (fst (isv_state inv C D rU u F X k)) xs) with (sqds (fst (isv_state inv C D rU u F X k)) xs) in NN.
    lra.
Qed.
Corollary jfa_enroll_returned_converges :
  exists xs y z,
    st_ok C D rU rV X (xs, y, z)
    /\ (forall xs2 y2 z2, st_ok C D rU rV X (xs2, y2, z2) -> logpost D u F X (Some y2) xs2 z2 <= logpost D u F X (Some y) xs z)
    /\ (forall eps, 0 < eps -> exists K, forall k, (K <= k)%nat ->
          sqd (fst (jfa_enroll inv k rU rV D u F X)) y + sqd (snd (jfa_enroll inv k rU rV D u F X)) z < eps).
Proof.
  destruct jfa_enroll_converges as (xs & y & z & H1 & H2 & H3).
  exists xs, y, z. split; [exact H1|]. split.
  - intros xs2 y2 z2 B. apply (H2 xs2 y2 z2 B).
  - intros eps He. destruct (H3 eps He) as [K HK]. exists K. intros k Hk. specialize (HK k Hk).
    rewrite (jfa_state_is_enroll inv C D rU rV u F X Hu k). cbn [fst snd].
    unfold jfa_dist2 in HK. destruct (jfa_state inv C D rU rV u F X k) as [[xk yk] zk]. cbn [fst snd].
    pose proof (sqdsA_nonneg xk xs) as NN. change (sqdsA xk xs) with (sqds xk xs) in NN. lra.
Qed.
End Conv.

Print Assumptions jfa_enroll_converges.
Print Assumptions isv_enroll_converges.
Print Assumptions isv_enroll_returned_converges.
Print Assumptions jfa_enroll_returned_converges.
