(* Convergence of the ISV / JFA enrolment sweeps to the unique joint posterior mode: all the work for
   Proofs/FAEnrollConv.v.  Linear-rate argument for exact cyclic block ascent on a 1-strongly concave quadratic. *)
From Coq Require Import Reals Lra List Lia Bool Arith.
From BLE Require Import Num.Scalar Num.InstR Lib.Vec Model.FA Proofs.RLemmas Proofs.FAEnroll Proofs.SeqConv.
Import ListNotations.
Open Scope R_scope.
Import FR.

(* ================================================================ lin / dv helpers *)
Lemma lin_ext p q d e n : (forall a, (a < n)%nat -> p a = q a) -> (forall a, (a < n)%nat -> d a = e a) -> lin p d n = lin q e n.
Proof. intros H1 H2. unfold lin. apply rsum_map_ext. intros a Ha. apply in_seq in Ha. rewrite H1, H2 by lia. reflexivity. Qed.
Lemma rsum_term_le (f : nat -> R) n i : (forall a, (a < n)%nat -> 0 <= f a) -> (i < n)%nat -> f i <= rsum (map f (seq 0 n)).
Proof.
  induction n as [|n IH]; intros Hf Hi. lia.
  rewrite seq_S, map_app, rsum_app. cbn [Nat.add map rsum].
  assert (0 <= rsum (map f (seq 0 n))). { apply rsum_le0. intros a Ha. apply in_seq in Ha. apply Hf. lia. }
  destruct (Nat.eq_dec i n) as [->|Hne]. lra.
  assert (f i <= rsum (map f (seq 0 n))) by (apply IH; [intros; apply Hf; lia|lia]).
  pose proof (Hf n ltac:(lia)). lra.
Qed.
Lemma lin_term_le d n i : (i < n)%nat -> d i * d i <= lin d d n.
Proof. intros Hi. unfold lin. apply (rsum_term_le (fun a => d a * d a) n i). intros; nra. exact Hi. Qed.
Lemma lin_cs p d n : lin p d n - / 2 * lin d d n <= / 2 * lin p p n.
Proof.
  unfold lin. rewrite <- !rsum_map_scal_l. rewrite <- rsum_map_sub. apply rsum_le. intros a _.
  pose proof (Rle_0_sqr (p a - d a)) as H. unfold Rsqr in H. lra.
Qed.
Lemma lin_dv_sym b b2 n : lin (dv b b2) (dv b b2) n = lin (dv b2 b) (dv b2 b) n.
Proof. unfold lin. apply rsum_map_ext. intros a _. unfold dv. ring. Qed.
Lemma lin_dv_same b n : lin (dv b b) (dv b b) n = 0.
Proof. apply lin_zero. intros a _. left. apply dv_same. Qed.
Lemma Forall_of_nth {A} (P : A -> Prop) (l : list A) d : (forall i, (i < length l)%nat -> P (nth i l d)) -> Forall P l.
Proof.
  intros H. apply Forall_forall. intros x Hx. destruct (In_nth l x d Hx) as [i [Hi E]]. rewrite <- E. now apply H.
Qed.

(* squared Euclidean distances in list form (same bodies as sqd / sqds of Proofs/FAEnrollConv.v) *)
Definition sqdA (a b : list R) : R := rsum (V.map2 (fun p q => (p - q) * (p - q)) a b).
Definition sqdsA (a b : list (list R)) : R := rsum (V.map2 sqdA a b).
Lemma sqdA_lin a b n : length a = n -> length b = n -> sqdA a b = lin (dv a b) (dv a b) n.
Proof.
  intros Ha Hb. unfold sqdA, lin. rewrite (map2_seq _ a b n 0 0 Ha Hb).
  apply rsum_map_ext. intros i _. unfold dv. ring.
Qed.
Lemma sqdA_nonneg a b : 0 <= sqdA a b.
Proof. unfold sqdA. apply rsum_nonneg. apply Forall_map2. intros x y _ _. exact (Rle_0_sqr (x - y)). Qed.
Lemma sqdsA_nonneg a b : 0 <= sqdsA a b.
Proof. unfold sqdsA. apply rsum_nonneg. apply Forall_map2. intros x y _ _. apply sqdA_nonneg. Qed.

Section Aux.
Variable inv : list (list R) -> list (list R).
Variables (C D rU rV : nat) (u : ubm) (F : fa) (X : list gstat).
Hypothesis Hu : ubm_ok C D u.
Hypothesis HF : fa_ok C D rU rV F.
Hypothesis HX : Forall (gstat_ok C D) X.
Hypothesis Hinv_x : forall s, In s X -> inv_ok inv rU (xprec rU D u F s).
Hypothesis Hinv_y : inv_ok inv rV (yprec rV D u F (sum_n C X)).

Local Notation LPI := (FAEnroll.LPI C D u F X).
Local Notation cy := (FAEnroll.cy C D u F X).
Local Notation cx := (FAEnroll.cx C D u F X).
Local Notation cz := (FAEnroll.cz D u F X).
Local Notation rr := (FAEnroll.rr D u F X).
Local Notation kk := (FAEnroll.kk D u X).
Local Notation Q1 := (FAEnroll.Q1 C D rU X).
Local Notation KK := (FAEnroll.KK C D rU u F X).
Local Notation ee := (FAEnroll.ee rU F).
Local Notation eY := (FAEnroll.eY F).
Local Notation eX := (FAEnroll.eX rU F).
Local Notation eZ := (FAEnroll.eZ F).
Local Notation Vrow := (FAEnroll.Vrow F).
Local Notation Urow := (FAEnroll.Urow F).
Local Notation Dj := (FAEnroll.Dj F).
Local Notation sj := (FAEnroll.sj u).
Local Notation H := (length X).
Local Notation N := (C * D)%nat.

(* states in the order (y, xs, z) of the index form *)
Definition S3 : Type := (list R * list (list R) * list R)%type.
Definition sy (s : S3) : list R := fst (fst s).
Definition sx (s : S3) : list (list R) := snd (fst s).
Definition sz (s : S3) : list R := snd s.

Section Gen.
Variable ry : nat.

Definition shaped (s : S3) : Prop :=
  length (sy s) = ry /\ length (sx s) = H /\ Forall (fun x => length x = rU) (sx s) /\ length (sz s) = N.
Lemma shaped_row s h : shaped s -> (h < H)%nat -> length (nth h (sx s) []) = rU.
Proof. intros (_ & L & Fx & _) Hh. apply (Forall_nth_lt (fun x => length x = rU)). exact Fx. lia. Qed.

Definition fS (s : S3) : R := LPI (sy s) (sx s) (sz s).
Definition QY (s s2 : S3) : R := lin (dv (sy s) (sy s2)) (dv (sy s) (sy s2)) ry.
Definition QX (s s2 : S3) : R :=
  rsum (map (fun h => lin (dv (nth h (sx s) []) (nth h (sx s2) [])) (dv (nth h (sx s) []) (nth h (sx s2) [])) rU) (seq 0 H)).
Definition QZ (s s2 : S3) : R := lin (dv (sz s) (sz s2)) (dv (sz s) (sz s2)) N.
Definition QQ (s s2 : S3) : R := QY s s2 + QX s s2 + QZ s s2.
Lemma QQ_Q1 s s2 : QQ s s2 = Q1 ry (sy s) (sx s) (sz s) (sy s2) (sx s2) (sz s2).
Proof. reflexivity. Qed.
Lemma QY_nonneg s s2 : 0 <= QY s s2. Proof. apply lin_sq_nonneg. Qed.
Lemma QZ_nonneg s s2 : 0 <= QZ s s2. Proof. apply lin_sq_nonneg. Qed.
Lemma QX_nonneg s s2 : 0 <= QX s s2. Proof. unfold QX. apply rsum_le0. intros h _. apply lin_sq_nonneg. Qed.
Lemma QQ_nonneg s s2 : 0 <= QQ s s2.
Proof. pose proof (QY_nonneg s s2). pose proof (QX_nonneg s s2). pose proof (QZ_nonneg s s2). unfold QQ. lra. Qed.
Lemma QQ_sym s s2 : QQ s s2 = QQ s2 s.
Proof.
  unfold QQ, QY, QX, QZ. rewrite (lin_dv_sym (sy s)), (lin_dv_sym (sz s)). f_equal. f_equal.
  apply rsum_map_ext. intros h _. apply lin_dv_sym.
Qed.

(* gradient of fS *)
Definition gy (s : S3) (a : nat) : R := cy (sy s) (sx s) (sz s) a - nth a (sy s) 0.
Definition gx (s : S3) (h a : nat) : R := cx (sy s) (sx s) (sz s) h a - nth a (nth h (sx s) []) 0.
Definition gz (s : S3) (j : nat) : R := cz (sy s) (sx s) (sz s) j - nth j (sz s) 0.
Definition GY (s : S3) : R := lin (gy s) (gy s) ry.
Definition GX (s : S3) : R := rsum (map (fun h => lin (gx s h) (gx s h) rU) (seq 0 H)).
Definition GZ (s : S3) : R := lin (gz s) (gz s) N.
Definition G2 (s : S3) : R := GY s + GX s + GZ s.
Lemma GY_nonneg s : 0 <= GY s. Proof. apply lin_sq_nonneg. Qed.
Lemma GZ_nonneg s : 0 <= GZ s. Proof. apply lin_sq_nonneg. Qed.
Lemma GX_nonneg s : 0 <= GX s. Proof. unfold GX. apply rsum_le0. intros h _. apply lin_sq_nonneg. Qed.
Lemma G2_nonneg s : 0 <= G2 s.
Proof. pose proof (GY_nonneg s). pose proof (GX_nonneg s). pose proof (GZ_nonneg s). unfold G2. lra. Qed.

Lemma fS_diff s s2 : shaped s -> shaped s2 ->
  fS s2 - fS s =
    lin (gy s) (dv (sy s) (sy s2)) ry
    + rsum (map (fun h => lin (gx s h) (dv (nth h (sx s) []) (nth h (sx s2) [])) rU) (seq 0 H))
    + lin (gz s) (dv (sz s) (sz s2)) N
    - / 2 * QQ s s2 - / 2 * KK ry (sy s) (sx s) (sz s) (sy s2) (sx s2) (sz s2).
Proof.
  intros Hs Hs2. pose proof Hs as (A1 & A2 & A3 & A4). pose proof Hs2 as (B1 & B2 & B3 & B4).
  exact (LPI_diff C D rU u F X Hu ry (sy s) (sx s) (sz s) (sy s2) (sx s2) (sz s2) A1 B1
           (fun h Hh => shaped_row s h Hs Hh) (fun h Hh => shaped_row s2 h Hs2 Hh) A4 B4).
Qed.

(* 1. global upper bound *)
Lemma fS_upper s s2 : shaped s -> shaped s2 -> fS s2 - fS s <= G2 s / 2.
Proof.
  intros Hs Hs2. rewrite (fS_diff s s2 Hs Hs2).
  pose proof (KK_nonneg C D rU u F X Hu HX ry (sy s) (sx s) (sz s) (sy s2) (sx s2) (sz s2)) as HK.
  pose proof (lin_cs (gy s) (dv (sy s) (sy s2)) ry) as E1.
  pose proof (lin_cs (gz s) (dv (sz s) (sz s2)) N) as E3.
  assert (E2 : rsum (map (fun h => lin (gx s h) (dv (nth h (sx s) []) (nth h (sx s2) [])) rU) (seq 0 H))
               - / 2 * QX s s2 <= / 2 * GX s).
  { unfold QX, GX. rewrite <- !rsum_map_scal_l. rewrite <- rsum_map_sub. apply rsum_le. intros h _. apply lin_cs. }
  unfold QQ, G2. fold (QY s s2) in E1. fold (GY s) in E1. fold (QZ s s2) in E3. fold (GZ s) in E3. lra.
Qed.

(* a stationary point is the unique global maximiser *)
Lemma stationary_mode s : shaped s ->
  (forall a, (a < ry)%nat -> gy s a = 0) ->
  (forall h a, (h < H)%nat -> (a < rU)%nat -> gx s h a = 0) ->
  (forall j, (j < N)%nat -> gz s j = 0) ->
  forall s2, shaped s2 ->
    fS s2 <= fS s /\ (fS s2 = fS s -> sx s2 = sx s /\ sy s2 = sy s /\ sz s2 = sz s).
Proof.
  intros (A1 & A2 & A3 & A4) Gy Gx Gz s2 (B1 & B2 & B3 & B4).
  assert (SY : forall a, (a < ry)%nat -> nth a (sy s) 0 = cy (sy s) (sx s) (sz s) a \/ dv (sy s) (sy s2) a = 0).
  { intros a Ha. left. pose proof (Gy a Ha) as E. unfold gy in E. lra. }
  assert (SX : forall h a, (h < H)%nat -> (a < rU)%nat ->
               nth a (nth h (sx s) []) 0 = cx (sy s) (sx s) (sz s) h a \/ dv (nth h (sx s) []) (nth h (sx s2) []) a = 0).
  { intros h a Hh Ha. left. pose proof (Gx h a Hh Ha) as E. unfold gx in E. lra. }
  assert (SZ : forall j, (j < N)%nat -> nth j (sz s) 0 = cz (sy s) (sx s) (sz s) j \/ dv (sz s) (sz s2) j = 0).
  { intros j Hj. left. pose proof (Gz j Hj) as E. unfold gz in E. lra. }
  split.
  - apply (LPI_le C D rU u F X Hu HX ry); assumption.
  - apply (LPI_eq_unique C D rU u F X Hu HX ry); assumption.
Qed.

(* 2. sufficient increase of a (block) update: the new point is stationary wherever it moved *)
Lemma block_inc s s' : shaped s -> shaped s' ->
  (forall a, (a < ry)%nat -> nth a (sy s') 0 = cy (sy s') (sx s') (sz s') a \/ dv (sy s') (sy s) a = 0) ->
  (forall h a, (h < H)%nat -> (a < rU)%nat ->
     nth a (nth h (sx s') []) 0 = cx (sy s') (sx s') (sz s') h a \/ dv (nth h (sx s') []) (nth h (sx s) []) a = 0) ->
  (forall j, (j < N)%nat -> nth j (sz s') 0 = cz (sy s') (sx s') (sz s') j \/ dv (sz s') (sz s) j = 0) ->
  QQ s s' / 2 <= fS s' - fS s.
Proof.
  intros (A1 & A2 & A3 & A4) (B1 & B2 & B3 & B4) SY SX SZ.
  pose proof (LPI_compare C D rU u F X Hu ry (sy s') (sx s') (sz s') (sy s) (sx s) (sz s) B1 A1 B2 A2 B3 A3 B4 A4 SY SX SZ) as E.
  pose proof (KK_nonneg C D rU u F X Hu HX ry (sy s') (sx s') (sz s') (sy s) (sx s) (sz s)) as HK.
  rewrite (QQ_sym s s'), QQ_Q1. unfold fS. lra.
Qed.

(* ================================================================ 3. the gradient is Lipschitz (quadratically bounded differences) *)
Definition QB (psi : S3 -> S3 -> R) : Prop :=
  exists L, 0 <= L /\ forall s s2, shaped s -> shaped s2 -> psi s s2 <= L * QQ s s2.
Definition LipB (phi : S3 -> S3 -> R) : Prop := QB (fun s s2 => phi s s2 * phi s s2).

Lemma QB_ext (psi psi' : S3 -> S3 -> R) :
  (forall s s2, shaped s -> shaped s2 -> psi s s2 = psi' s s2) -> QB psi' -> QB psi.
Proof. intros E [L [HL B]]. exists L. split. exact HL. intros s s2 Hs Hs2. rewrite E by assumption. now apply B. Qed.
Lemma QB_rsum (psi : nat -> S3 -> S3 -> R) n :
  (forall i, (i < n)%nat -> QB (psi i)) -> QB (fun s s2 => rsum (map (fun i => psi i s s2) (seq 0 n))).
Proof.
  induction n as [|n IH]; intros Hq.
  - exists 0. split. lra. intros s s2 _ _. cbn [seq map rsum]. lra.
  - destruct IH as [L1 [HL1 B1]]. { intros i Hi. apply Hq. lia. }
    destruct (Hq n ltac:(lia)) as [L2 [HL2 B2]].
    exists (L1 + L2). split. lra. intros s s2 Hs Hs2.
    rewrite seq_S, map_app, rsum_app. cbn [Nat.add map rsum].
    pose proof (B1 s s2 Hs Hs2). pose proof (B2 s s2 Hs Hs2). lra.
Qed.
Lemma LipB_ext (phi phi' : S3 -> S3 -> R) :
  (forall s s2, shaped s -> shaped s2 -> phi s s2 = phi' s s2) -> LipB phi' -> LipB phi.
Proof. intros E. apply QB_ext. intros s s2 Hs Hs2. now rewrite E. Qed.
Lemma LipB_add (phi psi : S3 -> S3 -> R) : LipB phi -> LipB psi -> LipB (fun s s2 => phi s s2 + psi s s2).
Proof.
  intros [L1 [HL1 B1]] [L2 [HL2 B2]]. exists (2 * L1 + 2 * L2). split. lra. intros s s2 Hs Hs2.
  pose proof (B1 s s2 Hs Hs2) as E1. pose proof (B2 s s2 Hs Hs2) as E2. cbv beta in E1, E2.
  pose proof (Rle_0_sqr (phi s s2 - psi s s2)) as E3. unfold Rsqr in E3. nra.
Qed.
Lemma LipB_scal (c : R) (phi : S3 -> S3 -> R) : LipB phi -> LipB (fun s s2 => c * phi s s2).
Proof.
  intros [L [HL B]]. exists (c * c * L). split. nra. intros s s2 Hs Hs2.
  pose proof (B s s2 Hs Hs2) as E. cbv beta in E.
  replace (c * phi s s2 * (c * phi s s2)) with (c * c * (phi s s2 * phi s s2)) by ring.
  replace (c * c * L * QQ s s2) with (c * c * (L * QQ s s2)) by ring.
  apply Rmult_le_compat_l. nra. exact E.
Qed.
Lemma LipB_sub (phi psi : S3 -> S3 -> R) : LipB phi -> LipB psi -> LipB (fun s s2 => phi s s2 - psi s s2).
Proof.
  intros H1 H2. apply (LipB_ext _ (fun s s2 => phi s s2 + -1 * psi s s2)). intros; ring.
  apply LipB_add. exact H1. apply LipB_scal. exact H2.
Qed.
Lemma LipB_rsum (phi : nat -> S3 -> S3 -> R) n :
  (forall i, (i < n)%nat -> LipB (phi i)) -> LipB (fun s s2 => rsum (map (fun i => phi i s s2) (seq 0 n))).
Proof.
  induction n as [|n IH]; intros Hq.
  - exists 0. split. lra. intros s s2 _ _. cbn [seq map rsum]. lra.
  - apply (LipB_ext _ (fun s s2 => rsum (map (fun i => phi i s s2) (seq 0 n)) + phi n s s2)).
    { intros s s2 _ _. rewrite seq_S, map_app, rsum_app. cbn [Nat.add map rsum]. ring. }
    apply LipB_add. apply IH. intros i Hi. apply Hq. lia. apply Hq. lia.
Qed.

(* the coordinates of the displacement *)
Lemma dy_le s s2 a : (a < ry)%nat -> dv (sy s) (sy s2) a * dv (sy s) (sy s2) a <= QQ s s2.
Proof.
  intros Ha. pose proof (lin_term_le (dv (sy s) (sy s2)) ry a Ha) as E. fold (QY s s2) in E.
  pose proof (QX_nonneg s s2). pose proof (QZ_nonneg s s2). unfold QQ. lra.
Qed.
Lemma dz_le s s2 j : (j < N)%nat -> dv (sz s) (sz s2) j * dv (sz s) (sz s2) j <= QQ s s2.
Proof.
  intros Hj. pose proof (lin_term_le (dv (sz s) (sz s2)) N j Hj) as E. fold (QZ s s2) in E.
  pose proof (QX_nonneg s s2). pose proof (QY_nonneg s s2). unfold QQ. lra.
Qed.
Lemma dx_le s s2 h a : (h < H)%nat -> (a < rU)%nat ->
  dv (nth h (sx s) []) (nth h (sx s2) []) a * dv (nth h (sx s) []) (nth h (sx s2) []) a <= QQ s s2.
Proof.
  intros Hh Ha.
  pose proof (lin_term_le (dv (nth h (sx s) []) (nth h (sx s2) [])) rU a Ha) as E.
  pose proof (rsum_term_le (fun h => lin (dv (nth h (sx s) []) (nth h (sx s2) [])) (dv (nth h (sx s) []) (nth h (sx s2) [])) rU) H h
                ltac:(intros; apply lin_sq_nonneg) Hh) as E2. cbv beta in E2. fold (QX s s2) in E2.
  pose proof (QY_nonneg s s2). pose proof (QZ_nonneg s s2). unfold QQ. lra.
Qed.
Lemma LipB_dy a : (a < ry)%nat -> LipB (fun s s2 => dv (sy s) (sy s2) a).
Proof. intros Ha. exists 1. split. lra. intros s s2 _ _. pose proof (dy_le s s2 a Ha). lra. Qed.
Lemma LipB_dz j : (j < N)%nat -> LipB (fun s s2 => dv (sz s) (sz s2) j).
Proof. intros Hj. exists 1. split. lra. intros s s2 _ _. pose proof (dz_le s s2 j Hj). lra. Qed.
Lemma LipB_dx h a : (h < H)%nat -> (a < rU)%nat -> LipB (fun s s2 => dv (nth h (sx s) []) (nth h (sx s2) []) a).
Proof. intros Hh Ha. exists 1. split. lra. intros s s2 _ _. pose proof (dx_le s s2 h a Hh Ha). lra. Qed.
Lemma LipB_ee h j : (h < H)%nat -> (j < N)%nat ->
  LipB (fun s s2 => ee ry (sy s) (sx s) (sz s) (sy s2) (sx s2) (sz s2) h j).
Proof.
  intros Hh Hj. unfold FAEnroll.ee. apply LipB_add. apply LipB_add.
  - unfold FAEnroll.eY. apply LipB_rsum. intros a Ha. apply LipB_scal. now apply LipB_dy.
  - unfold FAEnroll.eX. apply LipB_rsum. intros a Ha. apply LipB_scal. now apply LipB_dx.
  - unfold FAEnroll.eZ. apply LipB_scal. now apply LipB_dz.
Qed.

Lemma rr_diff s s2 h j : shaped s -> shaped s2 -> (h < H)%nat ->
  rr (sy s2) (sx s2) (sz s2) h j - rr (sy s) (sx s) (sz s) h j
  = - kk h j * ee ry (sy s) (sx s) (sz s) (sy s2) (sx s2) (sz s2) h j.
Proof.
  intros Hs Hs2 Hh. unfold FAEnroll.rr, FAEnroll.kk, FAEnroll.ee.
  rewrite (off_diff rU u F ry (sy s) (nth h (sx s) []) (sz s) (sy s2) (nth h (sx s2) []) (sz s2) j
             (proj1 Hs) (proj1 Hs2) (shaped_row s h Hs Hh) (shaped_row s2 h Hs2 Hh)).
  unfold Rdiv. ring.
Qed.

Lemma LipB_gy a : (a < ry)%nat -> LipB (fun s s2 => gy s2 a - gy s a).
Proof.
  intros Ha.
  apply (LipB_ext _ (fun s s2 =>
           rsum (map (fun h => rsum (map (fun j => (- kk h j * nth a (Vrow j) 0) * ee ry (sy s) (sx s) (sz s) (sy s2) (sx s2) (sz s2) h j) (seq 0 N))) (seq 0 H))
           - dv (sy s) (sy s2) a)).
  - intros s s2 Hs Hs2. unfold gy, FAEnroll.cy, dv.
    match goal with |- ?A - ?p - (?B - ?q) = ?R - (?p - ?q) => enough (A - B = R) by lra end.
    rewrite <- rsum_map_sub. apply rsum_map_ext. intros h Hh. apply in_seq in Hh.
    rewrite <- rsum_map_sub. apply rsum_map_ext. intros j Hj.
    rewrite <- Rmult_minus_distr_r. rewrite (rr_diff s s2 h j Hs Hs2) by lia. ring.
  - apply LipB_sub; [|now apply LipB_dy].
    apply LipB_rsum. intros h Hh. apply LipB_rsum. intros j Hj. apply LipB_scal. now apply LipB_ee.
Qed.
Lemma LipB_gx h a : (h < H)%nat -> (a < rU)%nat -> LipB (fun s s2 => gx s2 h a - gx s h a).
Proof.
  intros Hh Ha.
  apply (LipB_ext _ (fun s s2 =>
           rsum (map (fun j => (- kk h j * nth a (Urow j) 0) * ee ry (sy s) (sx s) (sz s) (sy s2) (sx s2) (sz s2) h j) (seq 0 N))
           - dv (nth h (sx s) []) (nth h (sx s2) []) a)).
  - intros s s2 Hs Hs2. unfold gx, FAEnroll.cx, dv.
    match goal with |- ?A - ?p - (?B - ?q) = ?R - (?p - ?q) => enough (A - B = R) by lra end.
    rewrite <- rsum_map_sub. apply rsum_map_ext. intros j Hj.
    rewrite <- Rmult_minus_distr_r. rewrite (rr_diff s s2 h j Hs Hs2) by lia. ring.
  - apply LipB_sub; [|now apply LipB_dx].
    apply LipB_rsum. intros j Hj. apply LipB_scal. now apply LipB_ee.
Qed.
Lemma LipB_gz j : (j < N)%nat -> LipB (fun s s2 => gz s2 j - gz s j).
Proof.
  intros Hj.
  apply (LipB_ext _ (fun s s2 =>
           rsum (map (fun h => (- kk h j * Dj j) * ee ry (sy s) (sx s) (sz s) (sy s2) (sx s2) (sz s2) h j) (seq 0 H))
           - dv (sz s) (sz s2) j)).
  - intros s s2 Hs Hs2. unfold gz, FAEnroll.cz, dv.
    match goal with |- ?A - ?p - (?B - ?q) = ?R - (?p - ?q) => enough (A - B = R) by lra end.
    rewrite <- rsum_map_sub. apply rsum_map_ext. intros h Hh. apply in_seq in Hh.
    rewrite <- Rmult_minus_distr_r. rewrite (rr_diff s s2 h j Hs Hs2) by lia. ring.
  - apply LipB_sub; [|now apply LipB_dz].
    apply LipB_rsum. intros h Hh. apply LipB_scal. now apply LipB_ee.
Qed.

Lemma QB_GY : QB (fun s s2 => lin (fun a => gy s2 a - gy s a) (fun a => gy s2 a - gy s a) ry).
Proof. unfold lin. apply QB_rsum. intros a Ha. exact (LipB_gy a Ha). Qed.
Lemma QB_GX : QB (fun s s2 => rsum (map (fun h => lin (fun a => gx s2 h a - gx s h a) (fun a => gx s2 h a - gx s h a) rU) (seq 0 H))).
Proof. unfold lin. apply QB_rsum. intros h Hh. apply QB_rsum. intros a Ha. exact (LipB_gx h a Hh Ha). Qed.
Lemma QB_GZ : QB (fun s s2 => lin (fun j => gz s2 j - gz s j) (fun j => gz s2 j - gz s j) N).
Proof. unfold lin. apply QB_rsum. intros j Hj. exact (LipB_gz j Hj). Qed.

(* ================================================================ 4.-6. a sequence of states with sufficient increase
   and small gradients converges to a stationary point *)
Section SeqS.
Variable s : nat -> S3.
Hypothesis Hsh : forall k, shaped (s k).
Hypothesis Hinc : forall k, QQ (s k) (s (S k)) / 2 <= fS (s (S k)) - fS (s k).
Hypothesis Hgrad : exists L, 0 <= L /\ forall k, G2 (s (S k)) <= L * QQ (s k) (s (S k)).

Lemma steps_geo : exists Cc rho L, 0 <= Cc /\ 0 <= rho < 1 /\ 0 <= L
  /\ (forall k, QQ (s k) (s (S k)) <= Cc * rho ^ k) /\ (forall k, G2 (s (S k)) <= L * QQ (s k) (s (S k))).
Proof.
  destruct Hgrad as [L [HL HG]].
  exists (G2 (s 0%nat)), (L / (1 + L)), L. split. apply G2_nonneg. split.
  { split. apply Rmult_le_pos; [lra|left; apply Rinv_0_lt_compat; lra].
    apply Rmult_lt_reg_r with (1 + L); [lra|]. unfold Rdiv. rewrite Rmult_assoc, Rinv_l by lra. lra. }
  split. exact HL. split; [|exact HG].
  apply (lin_rate (fun k => fS (s k)) (fun k => QQ (s k) (s (S k))) (fun k => G2 (s k)) L HL Hinc HG).
  intros k m. pose proof (fS_upper (s k) (s m) (Hsh k) (Hsh m)). lra.
Qed.

Lemma coord_cv (a : nat -> R) :
  (forall k, (a (S k) - a k) * (a (S k) - a k) <= QQ (s k) (s (S k))) -> exists l, Un_cv a l.
Proof.
  destruct steps_geo as (Cc & rho & L & HC & Hr & _ & Hq & _). intros Hk.
  apply (geo_cv_sq a Cc rho Hr HC). intros k. eapply Rle_trans. apply Hk. apply Hq.
Qed.

Lemma limit_exists : exists sI, shaped sI
  /\ (forall a, (a < ry)%nat -> Un_cv (fun k => nth a (sy (s k)) 0) (nth a (sy sI) 0))
  /\ (forall h a, (h < H)%nat -> (a < rU)%nat -> Un_cv (fun k => nth a (nth h (sx (s k)) []) 0) (nth a (nth h (sx sI) []) 0))
  /\ (forall j, (j < N)%nat -> Un_cv (fun k => nth j (sz (s k)) 0) (nth j (sz sI) 0)).
Proof.
  destruct (fin_choice 0 (fun a l => Un_cv (fun k => nth a (sy (s k)) 0) l) ry) as [yI [LyI PyI]].
  { intros a Ha. apply coord_cv. intros k. exact (dy_le (s k) (s (S k)) a Ha). }
  destruct (fin_choice 0 (fun j l => Un_cv (fun k => nth j (sz (s k)) 0) l) N) as [zI [LzI PzI]].
  { intros j Hj. apply coord_cv. intros k. exact (dz_le (s k) (s (S k)) j Hj). }
  destruct (fin_choice [] (fun h row => length row = rU /\
              forall a, (a < rU)%nat -> Un_cv (fun k => nth a (nth h (sx (s k)) []) 0) (nth a row 0)) H) as [xI [LxI PxI]].
  { intros h Hh.
    destruct (fin_choice 0 (fun a l => Un_cv (fun k => nth a (nth h (sx (s k)) []) 0) l) rU) as [row [Lrow Prow]].
    { intros a Ha. apply coord_cv. intros k. exact (dx_le (s k) (s (S k)) h a Hh Ha). }
    exists row. split; assumption. }
  exists (yI, xI, zI). unfold shaped. cbn [sy sx sz fst snd]. split; [|split; [|split]].
  - split; [exact LyI|]. split; [exact LxI|]. split; [|exact LzI].
    apply (Forall_of_nth _ xI []). intros h Hh. apply PxI. lia.
  - exact PyI.
  - intros h a Hh Ha. apply PxI; assumption.
  - exact PzI.
Qed.

Lemma QQ_cv sI :
  (forall a, (a < ry)%nat -> Un_cv (fun k => nth a (sy (s k)) 0) (nth a (sy sI) 0)) ->
  (forall h a, (h < H)%nat -> (a < rU)%nat -> Un_cv (fun k => nth a (nth h (sx (s k)) []) 0) (nth a (nth h (sx sI) []) 0)) ->
  (forall j, (j < N)%nat -> Un_cv (fun k => nth j (sz (s k)) 0) (nth j (sz sI) 0)) ->
  Un_cv (fun k => QQ (s k) sI) 0.
Proof.
  intros Py Px Pz. unfold QQ, QY, QX, QZ, lin.
  replace 0 with (0 + 0 + 0) by ring. apply CV_plus; [apply CV_plus|].
  - apply (cv_rsum_seq (fun a k => dv (sy (s k)) (sy sI) a * dv (sy (s k)) (sy sI) a)).
    intros a Ha. unfold dv. apply cv0_sq_diff. now apply Py.
  - apply (cv_rsum_seq (fun h k => rsum (map (fun a => dv (nth h (sx (s k)) []) (nth h (sx sI) []) a * dv (nth h (sx (s k)) []) (nth h (sx sI) []) a) (seq 0 rU)))).
    intros h Hh.
    apply (cv_rsum_seq (fun a k => dv (nth h (sx (s k)) []) (nth h (sx sI) []) a * dv (nth h (sx (s k)) []) (nth h (sx sI) []) a)).
    intros a Ha. unfold dv. apply cv0_sq_diff. now apply Px.
  - apply (cv_rsum_seq (fun j k => dv (sz (s k)) (sz sI) j * dv (sz (s k)) (sz sI) j)).
    intros j Hj. unfold dv. apply cv0_sq_diff. now apply Pz.
Qed.

Lemma G2_cv0 : Un_cv (fun k => G2 (s k)) 0.
Proof.
  destruct steps_geo as (Cc & rho & L & HC & Hr & HL & Hq & HG). apply cv0_shift.
  apply (cv0_squeeze _ (fun k => (L * Cc) * rho ^ k)).
  - intros k. split. apply G2_nonneg. eapply Rle_trans. apply HG. rewrite Rmult_assoc. apply Rmult_le_compat_l. exact HL. apply Hq.
  - apply cv0_geo. exact Hr.
Qed.

Lemma stat_coord (g : S3 -> R) sI : shaped sI -> LipB (fun s s2 => g s2 - g s) ->
  (forall k, g (s k) * g (s k) <= G2 (s k)) -> Un_cv (fun k => QQ (s k) sI) 0 -> g sI = 0.
Proof.
  intros HsI [L [HL B]] Hg Hq.
  assert (E : g sI * g sI = 0).
  { apply (le_cv0 _ (fun k => 2 * G2 (s k) + 2 * (L * QQ (s k) sI))).
    - intros k. split. nra. pose proof (B (s k) sI (Hsh k) HsI) as E1. cbv beta in E1. pose proof (Hg k) as E2.
      pose proof (Rle_0_sqr (g (s k) + (g sI - g (s k)) - 2 * g (s k))) as E3. unfold Rsqr in E3. nra.
    - replace 0 with (0 + 0) by ring. apply CV_plus.
      + apply (cv0_scal 2 (fun k => G2 (s k))). apply G2_cv0.
      + apply (cv0_scal 2 (fun k => L * QQ (s k) sI)). apply (cv0_scal L (fun k => QQ (s k) sI)). exact Hq. }
  nra.
Qed.

Theorem gen_converges : exists sI, shaped sI
  /\ (forall s2, shaped s2 -> fS s2 <= fS sI /\ (fS s2 = fS sI -> sx s2 = sx sI /\ sy s2 = sy sI /\ sz s2 = sz sI))
  /\ Un_cv (fun k => QQ (s k) sI) 0.
Proof.
  destruct limit_exists as (sI & HsI & Py & Px & Pz).
  pose proof (QQ_cv sI Py Px Pz) as Hq.
  exists sI. split. exact HsI. split; [|exact Hq].
  apply stationary_mode. exact HsI.
  - intros a Ha. apply (stat_coord (fun s => gy s a) sI HsI (LipB_gy a Ha)); [|exact Hq].
    intros k. pose proof (lin_term_le (gy (s k)) ry a Ha) as E. fold (GY (s k)) in E.
    pose proof (GX_nonneg (s k)). pose proof (GZ_nonneg (s k)). unfold G2. lra.
  - intros h a Hh Ha. apply (stat_coord (fun s => gx s h a) sI HsI (LipB_gx h a Hh Ha)); [|exact Hq].
    intros k. pose proof (lin_term_le (gx (s k) h) rU a Ha) as E.
    pose proof (rsum_term_le (fun h => lin (gx (s k) h) (gx (s k) h) rU) H h ltac:(intros; apply lin_sq_nonneg) Hh) as E2.
    cbv beta in E2. fold (GX (s k)) in E2.
    pose proof (GY_nonneg (s k)). pose proof (GZ_nonneg (s k)). unfold G2. lra.
  - intros j Hj. apply (stat_coord (fun s => gz s j) sI HsI (LipB_gz j Hj)); [|exact Hq].
    intros k. pose proof (lin_term_le (gz (s k)) N j Hj) as E. fold (GZ (s k)) in E.
    pose proof (GX_nonneg (s k)). pose proof (GY_nonneg (s k)). unfold G2. lra.
Qed.
End SeqS.

End Gen.
(* ================================================================ the two sweeps *)
Local Notation upd_y xs z := (update_y_class inv rV D u F (wprod rV D u (fV F)) X xs z (sum_n C X) (sum_f C D X)).
Local Notation upd_x z y := (latent_x_class inv rU D u F (wprod rU D u (fU F)) X (Some z) y).
Local Notation upd_z xs y := (update_z_class D u F X xs y (sum_n C X) (sum_f C D X)).

Definition qy ry (y y2 : list R) : R := lin (dv y y2) (dv y y2) ry.
Definition qx (xs xs2 : list (list R)) : R :=
  rsum (map (fun h => lin (dv (nth h xs []) (nth h xs2 [])) (dv (nth h xs []) (nth h xs2 [])) rU) (seq 0 H)).
Definition qz (z z2 : list R) : R := lin (dv z z2) (dv z z2) N.
Lemma QQ_triple ry y xs z y2 xs2 z2 : QQ ry (y, xs, z) (y2, xs2, z2) = qy ry y y2 + qx xs xs2 + qz z z2.
Proof. reflexivity. Qed.
Lemma qy_same ry y : qy ry y y = 0. Proof. apply lin_dv_same. Qed.
Lemma qz_same z : qz z z = 0. Proof. apply lin_dv_same. Qed.
Lemma qx_same xs : qx xs xs = 0. Proof. unfold qx. apply rsum_zero. intros h _. apply lin_dv_same. Qed.
Lemma qy_nonneg ry y y2 : 0 <= qy ry y y2. Proof. apply lin_sq_nonneg. Qed.
Lemma qz_nonneg z z2 : 0 <= qz z z2. Proof. apply lin_sq_nonneg. Qed.
Lemma qx_nonneg xs xs2 : 0 <= qx xs xs2. Proof. unfold qx. apply rsum_le0. intros h _. apply lin_sq_nonneg. Qed.

(* x-update then z-update, the speaker factor (if any) fixed *)
Lemma xz_sweep ry (y : option (list R)) xs z : shaped ry (yl y, xs, z) ->
  shaped ry (yl y, upd_x z y, z) /\ shaped ry (yl y, upd_x z y, upd_z (upd_x z y) y)
  /\ qx xs (upd_x z y) / 2 <= fS (yl y, upd_x z y, z) - fS (yl y, xs, z)
  /\ qz z (upd_z (upd_x z y) y) / 2 <= fS (yl y, upd_x z y, upd_z (upd_x z y) y) - fS (yl y, upd_x z y, z)
  /\ (forall h a, (h < H)%nat -> (a < rU)%nat -> gx (yl y, upd_x z y, z) h a = 0)
  /\ (forall j, (j < N)%nat -> gz (yl y, upd_x z y, upd_z (upd_x z y) y) j = 0).
Proof.
  intros Hs. pose proof Hs as (A1 & A2 & A3 & A4). cbn [sy sx sz fst snd] in A1, A2, A3, A4.
  set (xs' := upd_x z y). set (z' := upd_z xs' y).
  assert (Lx : length xs' = H) by apply len_latent_x.
  assert (Fx : Forall (fun x : list R => length x = rU) xs') by (apply latent_x_rows; exact Hinv_x).
  assert (Lz : length z' = N) by (apply (len_update_z C D rU rV); assumption).
  assert (Sb : shaped ry (yl y, xs', z)) by (repeat split; assumption).
  assert (Sc : shaped ry (yl y, xs', z')) by (repeat split; assumption).
  assert (GXb : forall h a, (h < H)%nat -> (a < rU)%nat -> gx (yl y, xs', z) h a = 0).
  { intros h a Hh Ha. unfold gx. cbn [sy sx sz fst snd].
    pose proof (x_stationary inv C D rU rV u F X Hu HF HX Hinv_x z y h a A4 Hh Ha) as E.
    apply Rminus_diag_eq. symmetry. exact E. }
  assert (GZc : forall j, (j < N)%nat -> gz (yl y, xs', z') j = 0).
  { intros j Hj. unfold gz. cbn [sy sx sz fst snd].
    pose proof (z_stationary C D rU rV u F X Hu HF HX xs' y j Lx Hj) as E.
    apply Rminus_diag_eq. symmetry. exact E. }
  split. exact Sb. split. exact Sc. split; [|split; [|split; [exact GXb|exact GZc]]].
  - pose proof (block_inc ry (yl y, xs, z) (yl y, xs', z) Hs Sb) as E. cbn [sy sx sz fst snd] in E.
    rewrite QQ_triple, qy_same, qz_same in E. rewrite Rplus_0_l, Rplus_0_r in E. apply E.
    + intros a _. right. apply dv_same.
    + intros h a Hh Ha. left. pose proof (GXb h a Hh Ha) as G. unfold gx in G. cbn [sy sx sz fst snd] in G. lra.
    + intros j _. right. apply dv_same.
  - pose proof (block_inc ry (yl y, xs', z) (yl y, xs', z') Sb Sc) as E. cbn [sy sx sz fst snd] in E.
    rewrite QQ_triple, qy_same, qx_same in E. rewrite Rplus_0_l, Rplus_0_l in E. apply E.
    + intros a _. right. apply dv_same.
    + intros h a _ _. right. apply dv_same.
    + intros j Hj. left. pose proof (GZc j Hj) as G. unfold gz in G. cbn [sy sx sz fst snd] in G. lra.
Qed.

(* after the two updates the x- and z-gradients are bounded by the z-step *)
Lemma xz_grad ry : exists L, 0 <= L /\ forall (y : option (list R)) xs z, shaped ry (yl y, xs, z) ->
  GX (yl y, upd_x z y, upd_z (upd_x z y) y) + GZ (yl y, upd_x z y, upd_z (upd_x z y) y)
  <= L * qz z (upd_z (upd_x z y) y).
Proof.
  destruct (QB_GX ry) as [L [HL B]]. exists L. split. exact HL. intros y xs z Hs.
  destruct (xz_sweep ry y xs z Hs) as (Sb & Sc & _ & _ & GXb & GZc).
  set (xs' := upd_x z y) in *. set (z' := upd_z xs' y) in *.
  assert (E1 : GZ (yl y, xs', z') = 0).
  { unfold GZ. apply lin_zero. intros j Hj. left. now apply GZc. }
  pose proof (B (yl y, xs', z) (yl y, xs', z') Sb Sc) as E2. cbv beta in E2.
  rewrite QQ_triple, qy_same, qx_same in E2. rewrite Rplus_0_l, Rplus_0_l in E2.
  assert (E3 : GX (yl y, xs', z')
               = rsum (map (fun h => lin (fun a => gx (yl y, xs', z') h a - gx (yl y, xs', z) h a)
                                         (fun a => gx (yl y, xs', z') h a - gx (yl y, xs', z) h a) rU) (seq 0 H))).
  { unfold GX. apply rsum_map_ext. intros h Hh. apply in_seq in Hh.
    apply lin_ext; intros a Ha; rewrite (GXb h a) by (auto; lia); ring. }
  rewrite E1, E3. lra.
Qed.

(* ---------------------------------------------------------------- JFA *)
Definition jsweep (s : S3) : S3 :=
  let y' := upd_y (sx s) (sz s) in
  let xs' := upd_x (sz s) (Some y') in
  (y', xs', upd_z xs' (Some y')).
Definition J (k : nat) : S3 :=
  let st := jfa_state inv C D rU rV u F X k in (snd (fst st), fst (fst st), snd st).
Lemma J_S k : J (S k) = jsweep (J k).
Proof.
  unfold J, jfa_state. rewrite jfa_loop_snoc.
  destruct (jfa_enroll_loop inv k rU rV D u F (wprod rU D u (fU F)) (wprod rV D u (fV F)) X (sum_n C X) (sum_f C D X)
              (map (fun _ => V.vzero rU) X) (V.vzero rV) (V.vzero (C * D))) as [[xs y] z].
  reflexivity.
Qed.
Lemma J_shaped k : shaped rV (J k).
Proof.
  pose proof (jfa_state_shape inv C D rU rV u F X Hu HF HX Hinv_x Hinv_y k) as E. unfold J.
  destruct (jfa_state inv C D rU rV u F X k) as [[xs y] z]. destruct E as (E1 & E2 & E3 & E4).
  unfold shaped. cbn [sy sx sz fst snd]. repeat split; assumption.
Qed.

Lemma jsweep_props_y y xs z : shaped rV (y, xs, z) ->
  shaped rV (upd_y xs z, xs, z)
  /\ qy rV y (upd_y xs z) / 2 <= fS (upd_y xs z, xs, z) - fS (y, xs, z)
  /\ (forall a, (a < rV)%nat -> gy (upd_y xs z, xs, z) a = 0).
Proof.
  intros Hs. pose proof Hs as (A1 & A2 & A3 & A4). cbn [sy sx sz fst snd] in A1, A2, A3, A4.
  set (y' := upd_y xs z).
  assert (Ly : length y' = rV) by (apply len_update_y; exact Hinv_y).
  assert (Sa : shaped rV (y', xs, z)) by (repeat split; assumption).
  assert (GYa : forall a, (a < rV)%nat -> gy (y', xs, z) a = 0).
  { intros a Ha. unfold gy. cbn [sy sx sz fst snd].
    pose proof (y_stationary inv C D rU rV u F X Hu HF HX Hinv_y xs z a A2 A4 Ha) as E.
    rewrite <- (update_y_ystar inv C D rV u F X Hinv_y) in E.
    apply Rminus_diag_eq. symmetry. exact E. }
  split. exact Sa. split; [|exact GYa].
  pose proof (block_inc rV (y, xs, z) (y', xs, z) Hs Sa) as E. cbn [sy sx sz fst snd] in E.
  rewrite QQ_triple, qx_same, qz_same in E. rewrite !Rplus_0_r in E. apply E.
  - intros a Ha. left. pose proof (GYa a Ha) as G. unfold gy in G. cbn [sy sx sz fst snd] in G. lra.
  - intros h a _ _. right. apply dv_same.
  - intros j _. right. apply dv_same.
Qed.

Lemma jsweep_inc s : shaped rV s -> shaped rV (jsweep s) /\ QQ rV s (jsweep s) / 2 <= fS (jsweep s) - fS s.
Proof.
  destruct s as [[y xs] z]. intros Hs. unfold jsweep. cbn [sy sx sz fst snd].
  destruct (jsweep_props_y y xs z Hs) as (Sa & Iy & _).
  set (y' := upd_y xs z) in *.
  destruct (xz_sweep rV (Some y') xs z Sa) as (_ & Sc & Ix & Iz & _ & _). cbn [yl] in *.
  split. exact Sc. rewrite QQ_triple. unfold InstR.T in *. lra.
Qed.
Lemma jsweep_grad : exists L, 0 <= L /\ forall s, shaped rV s -> G2 rV (jsweep s) <= L * QQ rV s (jsweep s).
Proof.
  destruct (xz_grad rV) as [L1 [HL1 B1]]. destruct (QB_GY rV) as [L2 [HL2 B2]].
  exists (L1 + L2). split. lra. intros [[y xs] z] Hs. unfold jsweep. cbn [sy sx sz fst snd].
  destruct (jsweep_props_y y xs z Hs) as (Sa & _ & GYa).
  set (y' := upd_y xs z) in *.
  destruct (xz_sweep rV (Some y') xs z Sa) as (_ & Sc & _ & _ & _ & _).
  pose proof (B1 (Some y') xs z Sa) as E1. cbn [yl] in *.
  set (xs' := upd_x z (Some y')) in *. set (z' := upd_z xs' (Some y')) in *.
  pose proof (B2 (y', xs, z) (y', xs', z') Sa Sc) as E2. cbv beta in E2.
  rewrite QQ_triple, qy_same, Rplus_0_l in E2.
  assert (E3 : GY rV (y', xs', z')
               = lin (fun a => gy (y', xs', z') a - gy (y', xs, z) a) (fun a => gy (y', xs', z') a - gy (y', xs, z) a) rV).
  { unfold GY. apply lin_ext; intros a Ha; rewrite (GYa a Ha); ring. }
  rewrite QQ_triple. unfold G2. rewrite E3.
  pose proof (Rmult_le_pos _ _ HL1 (qy_nonneg rV y y')). pose proof (Rmult_le_pos _ _ HL1 (qx_nonneg xs xs')).
  pose proof (Rmult_le_pos _ _ HL2 (qy_nonneg rV y y')). pose proof (Rmult_le_pos _ _ HL2 (qz_nonneg z z')).
  unfold InstR.T in *. lra.
Qed.

Theorem jfa_gen : exists sI, shaped rV sI
  /\ (forall s2, shaped rV s2 -> fS s2 <= fS sI /\ (fS s2 = fS sI -> sx s2 = sx sI /\ sy s2 = sy sI /\ sz s2 = sz sI))
  /\ Un_cv (fun k => QQ rV (J k) sI) 0.
Proof.
  apply gen_converges.
  - apply J_shaped.
  - intros k. rewrite J_S. apply jsweep_inc. apply J_shaped.
  - destruct jsweep_grad as [L [HL B]]. exists L. split. exact HL. intros k. rewrite J_S. apply B. apply J_shaped.
Qed.

(* ---------------------------------------------------------------- ISV *)
Definition isweep (s : S3) : S3 :=
  let xs' := upd_x (sz s) None in ([], xs', upd_z xs' None).
Definition Iv (k : nat) : S3 :=
  let st := isv_state inv C D rU u F X k in ([], fst st, snd st).
Lemma Iv_S k : Iv (S k) = isweep (Iv k).
Proof. reflexivity. Qed.
Lemma Iv_shaped k : shaped 0 (Iv k).
Proof.
  destruct (isv_state_shape inv C D rU rV u F X Hu HF HX Hinv_x k) as (E1 & E2 & E3).
  unfold Iv, shaped. cbn [sy sx sz fst snd]. repeat split; assumption.
Qed.
Lemma isweep_inc xs z : shaped 0 ([], xs, z) ->
  shaped 0 (isweep ([], xs, z)) /\ QQ 0 ([], xs, z) (isweep ([], xs, z)) / 2 <= fS (isweep ([], xs, z)) - fS ([], xs, z).
Proof.
  intros Hs. unfold isweep. cbn [sy sx sz fst snd].
  destruct (xz_sweep 0 None xs z Hs) as (_ & Sc & Ix & Iz & _ & _). cbn [yl] in *.
  split. exact Sc. rewrite QQ_triple, qy_same. unfold InstR.T in *. lra.
Qed.
Lemma isweep_grad : exists L, 0 <= L /\ forall xs z, shaped 0 ([], xs, z) ->
  G2 0 (isweep ([], xs, z)) <= L * QQ 0 ([], xs, z) (isweep ([], xs, z)).
Proof.
  destruct (xz_grad 0) as [L1 [HL1 B1]]. exists L1. split. exact HL1. intros xs z Hs.
  unfold isweep. cbn [sy sx sz fst snd].
  pose proof (B1 None xs z Hs) as E1. cbn [yl] in E1.
  rewrite QQ_triple, qy_same. unfold G2.
  assert (E0 : forall s, GY 0 s = 0) by (intros s; reflexivity). rewrite E0.
  pose proof (Rmult_le_pos _ _ HL1 (qx_nonneg xs (upd_x z None))).
  unfold InstR.T in *. lra.
Qed.
Theorem isv_gen : exists sI, shaped 0 sI
  /\ (forall s2, shaped 0 s2 -> fS s2 <= fS sI /\ (fS s2 = fS sI -> sx s2 = sx sI /\ sy s2 = sy sI /\ sz s2 = sz sI))
  /\ Un_cv (fun k => QQ 0 (Iv k) sI) 0.
Proof.
  apply gen_converges.
  - apply Iv_shaped.
  - intros k. rewrite Iv_S. unfold Iv at 1 3 4. apply isweep_inc. apply Iv_shaped.
  - destruct isweep_grad as [L [HL B]]. exists L. split. exact HL. intros k. rewrite Iv_S. unfold Iv. apply B. apply Iv_shaped.
Qed.

(* ================================================================ the statements, in list form *)
Lemma sqdsA_qx A B : length A = H -> length B = H ->
  Forall (fun x => length x = rU) A -> Forall (fun x => length x = rU) B -> sqdsA A B = qx A B.
Proof.
  intros LA LB FA FB. unfold sqdsA, qx. rewrite (map2_seq _ A B H [] [] LA LB).
  apply rsum_map_ext. intros h Hh. apply in_seq in Hh.
  apply sqdA_lin; apply (Forall_nth_lt (fun x : list R => length x = rU)); auto; lia.
Qed.

Theorem jfa_conv_aux :
  exists xs y z,
    st_ok C D rU rV X (xs, y, z)
    /\ (forall xs2 y2 z2, st_ok C D rU rV X (xs2, y2, z2) ->
          logpost D u F X (Some y2) xs2 z2 <= logpost D u F X (Some y) xs z
          /\ (logpost D u F X (Some y2) xs2 z2 = logpost D u F X (Some y) xs z -> xs2 = xs /\ y2 = y /\ z2 = z))
    /\ (forall eps, 0 < eps -> exists K, forall k, (K <= k)%nat ->
          sqdsA (fst (fst (jfa_state inv C D rU rV u F X k))) xs
          + sqdA (snd (fst (jfa_state inv C D rU rV u F X k))) y
          + sqdA (snd (jfa_state inv C D rU rV u F X k)) z < eps).
Proof.
  destruct jfa_gen as ([[y xs] z] & Hs & Hmax & Hcv). exists xs, y, z.
  pose proof Hs as (A1 & A2 & A3 & A4). cbn [sy sx sz fst snd] in A1, A2, A3, A4.
  split; [|split].
  - unfold st_ok. repeat split; assumption.
  - intros xs2 y2 z2 (B2 & B3 & B1 & B4).
    rewrite !(logpost_index C D rU rV u F X Hu HF HX) by assumption. cbn [yl].
    apply (Hmax (y2, xs2, z2)). unfold shaped. cbn [sy sx sz fst snd]. repeat split; assumption.
  - intros eps He. destruct (cv0_lt _ Hcv eps He) as [K HK]. exists K. intros k Hk.
    specialize (HK k Hk). cbv beta in HK. unfold J in HK.
    pose proof (jfa_state_shape inv C D rU rV u F X Hu HF HX Hinv_x Hinv_y k) as Sk.
    destruct (jfa_state inv C D rU rV u F X k) as [[xk yk] zk]. destruct Sk as (E2 & E3 & E1 & E4).
    cbn [fst snd] in *. rewrite QQ_triple in HK. unfold qy, qz in HK.
    rewrite (sqdsA_qx xk xs E2 A2 E3 A3), (sqdA_lin yk y rV E1 A1), (sqdA_lin zk z N E4 A4). lra.
Qed.

Theorem isv_conv_aux :
  exists xs z,
    length xs = length X /\ Forall (fun x => length x = rU) xs /\ length z = (C * D)%nat
    /\ (forall xs2 z2, length xs2 = length X -> Forall (fun x => length x = rU) xs2 -> length z2 = (C * D)%nat ->
          logpost D u F X None xs2 z2 <= logpost D u F X None xs z
          /\ (logpost D u F X None xs2 z2 = logpost D u F X None xs z -> xs2 = xs /\ z2 = z))
    /\ (forall eps, 0 < eps -> exists K, forall k, (K <= k)%nat ->
          sqdsA (fst (isv_state inv C D rU u F X k)) xs + sqdA (snd (isv_state inv C D rU u F X k)) z < eps).
Proof.
  destruct isv_gen as ([[y xs] z] & Hs & Hmax & Hcv). exists xs, z.
  pose proof Hs as (A1 & A2 & A3 & A4). cbn [sy sx sz fst snd] in A1, A2, A3, A4.
  destruct y as [|y0 y]; [|discriminate A1].
  split; [exact A2|]. split; [exact A3|]. split; [exact A4|]. split.
  - intros xs2 z2 B2 B3 B4.
    rewrite !(logpost_index C D rU rV u F X Hu HF HX) by assumption. cbn [yl].
    destruct (Hmax ([], xs2, z2)) as [M1 M2]. { unfold shaped. cbn [sy sx sz fst snd]. repeat split; assumption. }
    split. exact M1. intros E. destruct (M2 E) as (U1 & _ & U3). split; assumption.
  - intros eps He. destruct (cv0_lt _ Hcv eps He) as [K HK]. exists K. intros k Hk.
    specialize (HK k Hk). cbv beta in HK. unfold Iv in HK.
    destruct (isv_state_shape inv C D rU rV u F X Hu HF HX Hinv_x k) as (E2 & E3 & E4).
    rewrite QQ_triple, qy_same in HK. unfold qz in HK.
    rewrite (sqdsA_qx _ xs E2 A2 E3 A3), (sqdA_lin _ z N E4 A4). lra.
Qed.

End Aux.
