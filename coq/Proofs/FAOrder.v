(* C16: whole ISV and JFA training runs (any number of EM iterations; for JFA all three phases with the latent factors handed
   from one phase to the next) do not depend on the order / numbering of the classes.  
   No shape hypothesis is used: the three statement premises other than the permutation are not needed by the proofs. *)
From Coq Require Import Reals Lra List Lia Bool Arith Permutation.
From BLE Require Import Num.Scalar Num.InstR Lib.Vec Model.FA Proofs.RLemmas Proofs.FAEnroll Proofs.FAAcc.
Import ListNotations.
Open Scope R_scope.
Import FR.

(* ---------------------------------------------------------------- generic helpers *)
Lemma iter_ext_fun {A} (f g : A -> A) : (forall x, f x = g x) -> forall n x, Nat.iter n f x = Nat.iter n g x.
Proof. intros H n. induction n as [|n IH]; intros x. reflexivity. change (f (Nat.iter n f x) = g (Nat.iter n g x)). now rewrite IH, H. Qed.
Lemma map2_map_r {A B C} (f : A -> B -> C) (g : A -> B) l : V.map2 f l (map g l) = map (fun x => f x (g x)) l.
Proof. induction l; cbn [map V.map2]; auto. now rewrite IHl. Qed.
Lemma map3_map3 {A B C D E} (f : B -> C -> D -> E) (a : A -> B) (b : A -> C) (c : A -> D) l :
  V.map3 f (map a l) (map b l) (map c l) = map (fun t => f (a t) (b t) (c t)) l.
Proof. induction l; cbn [map V.map3]; auto. now rewrite IHl. Qed.
Lemma vsum_perm n (l l' : list (list R)) : Permutation l l' ->
  fold_right V.vadd (V.vzero n) l = fold_right V.vadd (V.vzero n) l'.
Proof. apply fold_perm. apply FAAcc.vadd_comm. apply FAAcc.vadd_assoc. Qed.

(* ---------------------------------------------------------------- one iteration of each phase, for EVERY F
   (no shape hypothesis on F, u, the classes or the inverse oracle is needed) *)
Section Order.
Variable inv : list (list R) -> list (list R).
Variables (D rU rV : nat) (u : ubm).

Lemma isv_iter_order (cl cl' : list (list gstat)) (F : fa) : Permutation cl cl' ->
  isv_iter inv rU D u cl F = isv_iter inv rU D u cl' F.
Proof.
  intros H. unfold isv_iter. cbv zeta.
  match goal with |- context [acc_u inv rU D u F cl ?n1 ?n2 (map ?g cl)] =>
    pose proof (acc_u_perm_maps inv D rU u F (fun Xi => Xi) (fun _ => None) (fun _ => None)
                  (fun Xi => g Xi) cl cl' H) as E end.
  rewrite !map_id in E. cbv beta in E. unfold InstR.T in *. rewrite E. reflexivity.
Qed.

Lemma acc_v_order (cl cl' : list (list gstat)) (F : fa) : Permutation cl cl' ->
  acc_v inv rU rV D u F cl = acc_v inv rU rV D u F cl'.
Proof. intros H. rewrite !acc_v_form. apply accW_perm. now apply Permutation_map. Qed.

Lemma jfa_iter_v_order (cl cl' : list (list gstat)) (F : fa) : Permutation cl cl' ->
  jfa_iter_v inv rU rV D u cl F = jfa_iter_v inv rU rV D u cl' F.
Proof. intros H. unfold jfa_iter_v. rewrite (acc_v_order cl cl' F H). reflexivity. Qed.

(* U phase: the y of a class is a function g of the class alone *)
Lemma jfa_iter_u_order (g : list gstat -> option (list R)) (cl cl' : list (list gstat)) (F : fa) : Permutation cl cl' ->
  jfa_iter_u inv rU D u cl (map g cl) F = jfa_iter_u inv rU D u cl' (map g cl') F.
Proof.
  intros H. unfold jfa_iter_u. cbv zeta.
  pose proof (acc_u_perm_maps inv D rU u F (fun Xi => Xi) g (fun _ => None)
                (fun _ => Some (V.vzero (length (msuper u)))) cl cl' H) as E.
  rewrite !map_id in E. unfold InstR.T in *. rewrite E. reflexivity.
Qed.

(* D phase: y and the xs of a class are functions g, h of the class alone *)
Lemma acc_d_order (g : list gstat -> option (list R)) (h : list gstat -> list (list R)) (cl cl' : list (list gstat)) (F : fa) :
  Permutation cl cl' ->
  acc_d rU D u F cl (map h cl) (map g cl) = acc_d rU D u F cl' (map h cl') (map g cl').
Proof.
  intros H. rewrite !acc_d_form.
  pose proof (fun l => map3_map3 (d_class D u F) (fun Xi : list gstat => Xi) h g l) as E.
  setoid_rewrite map_id in E. unfold InstR.T in *. rewrite !E, !map_map.
  f_equal; apply vsum_perm; now apply Permutation_map.
Qed.

Lemma jfa_iter_d_order (g : list gstat -> option (list R)) (h : list gstat -> list (list R)) (cl cl' : list (list gstat)) (F : fa) :
  Permutation cl cl' ->
  jfa_iter_d rU D u cl (map h cl) (map g cl) F = jfa_iter_d rU D u cl' (map h cl') (map g cl') F.
Proof. intros H. unfold jfa_iter_d. rewrite (acc_d_order g h cl cl' F H). reflexivity. Qed.
End Order.

Theorem isv_fit_class_order (inv : list (list R) -> list (list R)) (iters C D rU rV : nat) (u : ubm) (F : fa) (cl cl' : list (list gstat)) :
  ubm_ok C D u -> Permutation cl cl' -> classes_ok C D cl ->
  isv_fit inv iters rU D u cl F = isv_fit inv iters rU D u cl' F.
Proof.
  intros _ H _. unfold isv_fit. apply iter_ext_fun. intros x. now apply isv_iter_order.
Qed.

Theorem jfa_fit_class_order (inv : list (list R) -> list (list R)) (iters C D rU rV : nat) (u : ubm) (F : fa) (cl cl' : list (list gstat)) :
  ubm_ok C D u -> Permutation cl cl' -> classes_ok C D cl ->
  jfa_fit inv iters rU rV D u cl F = jfa_fit inv iters rU rV D u cl' F.
Proof.
  intros _ H _. unfold jfa_fit. cbv zeta.
  (* V phase *)
  rewrite (iter_ext_fun _ _ (fun x => jfa_iter_v_order inv D rU rV u cl cl' x H) iters F).
  set (F1 := Nat.iter iters (jfa_iter_v inv rU rV D u cl') F).
  (* the latent y of a class *)
  unfold latent_y_all. cbv zeta. rewrite !map_map.
  set (g := fun Xi : list gstat => Some (fst (fst (estep_v_class inv rU rV D u F1 (wprod rV D u (fV F1)) Xi)))).
  (* U phase *)
  unfold InstR.T in *.
  rewrite (iter_ext_fun _ _ (fun x => jfa_iter_u_order inv D rU u g cl cl' x H) iters F1).
  set (F2 := Nat.iter iters (jfa_iter_u inv rU D u cl' (map g cl')) F1).
  (* the latent x of a class *)
  rewrite !map2_map_r.
  set (h := fun Xi : list gstat => latent_x_class inv rU D u F2 (wprod rU D u (fU F2)) Xi None (g Xi)).
  (* D phase *)
  apply iter_ext_fun. intros x. now apply jfa_iter_d_order.
Qed.
