(* C11: scoring a probe given as several statistics equals scoring their sum; the channel factor is
   estimated from the pooled statistics only. *)
From Coq Require Import Reals Lra List Lia Bool Arith.
From BLE Require Import Num.Scalar Num.InstR Lib.Vec Model.FA Model.LinScore Model.FAScore Proofs.RLemmas.
Import ListNotations.
Open Scope R_scope.

Module SR := FAScore InstR.
Import SR SR.F.

Definition gshape (C D : nat) (s : gstat) := length (g_n s) = C /\ length (g_px s) = C /\ Forall (fun r => length r = D) (g_px s).

Lemma vadd_len a b : length a = length b -> length (V.vadd a b) = length a.
Proof. unfold V.vadd. revert b; induction a as [|x a IH]; intros [|y b] H; simpl in *; try discriminate; auto. Qed.
Lemma vadd_0r n a : length a = n -> V.vadd a (V.vzero n) = a.
Proof. unfold V.vadd, V.vzero. revert a; induction n as [|n IH]; intros [|x a] H; simpl in *; try discriminate; auto. rewrite IH by lia. f_equal. unfold InstR.add, InstR.zero. ring. Qed.
Lemma madd_0r C D m : length m = C -> Forall (fun r => length r = D) m -> V.madd m (V.mzero C D) = m.
Proof.
  unfold V.madd, V.mzero. revert m; induction C as [|C IH]; intros [|r m] Hl Hf; simpl in *; try discriminate; auto.
  inversion Hf; subst. rewrite IH by (auto; lia). f_equal. now apply vadd_0r.
Qed.
Lemma sum_n_len C X : Forall (fun s => length (g_n s) = C) X -> length (sum_n C X) = C.
Proof. induction 1 as [|s X Hs HX IH]; cbn [sum_n fold_right]. apply repeat_length. rewrite vadd_len; auto. fold (sum_n C X). now rewrite IH. Qed.
Lemma madd_shape C D a b : length a = C -> Forall (fun r => length r = D) a -> length b = C -> Forall (fun r => length r = D) b ->
  length (V.madd a b) = C /\ Forall (fun r => length r = D) (V.madd a b).
Proof.
  unfold V.madd. revert a b; induction C as [|C IH]; intros [|x a] [|y b] H1 H2 H3 H4; simpl in *; try discriminate; auto.
  inversion H2; inversion H4; subst. destruct (IH a b) as [L Fo]; auto. split; [now rewrite L|]. constructor; auto. apply vadd_len. congruence.
Qed.
Lemma sum_f_shape C D X : Forall (gshape C D) X -> length (sum_f C D X) = C /\ Forall (fun r => length r = D) (sum_f C D X).
Proof.
  induction 1 as [|s X (Hn & Hl & Hf) HX IH]; cbn [sum_f fold_right].
  - unfold V.mzero. rewrite repeat_length. split; auto. apply Forall_forall. intros r Hr. apply repeat_spec in Hr. subst. apply repeat_length.
  - fold (sum_f C D X). destruct IH as [L Fo]. now apply madd_shape.
Qed.

(* pooling is idempotent: the pooled statistics of [pool X] are the pooled statistics of X *)
Theorem pool_pool (C D : nat) (X : list gstat) : Forall (gshape C D) X ->
  sum_n C [pool C D X] = sum_n C X /\ sum_f C D [pool C D X] = sum_f C D X.
Proof.
  intros H. cbn [sum_n sum_f fold_right pool g_n g_px]. split.
  - apply vadd_0r. apply sum_n_len. eapply Forall_impl; [|exact H]. intros s (Hn & _); exact Hn.
  - destruct (sum_f_shape C D X H) as [L Fo]. now apply madd_0r.
Qed.

Section Score.
Variable inv : list (list R) -> list (list R).
(* the channel factor depends on the probe only through its pooled statistics *)
Theorem estimate_x_pooled (rU D : nat) (u : ubm) (Fa : fa) (X : list gstat) :
  Forall (gshape (length (u_mu u)) D) X ->
  estimate_x inv rU D u Fa [pool (length (u_mu u)) D X] = estimate_x inv rU D u Fa X.
Proof.
  intros H. unfold estimate_x. destruct (pool_pool (length (u_mu u)) D X H) as [E1 E2]. rewrite E1, E2. reflexivity.
Qed.
(* scoring several statistics = scoring their sum *)
Theorem score_pools (eps : R) (rU D : nat) (u : ubm) (Fa : fa) (y : option (list R)) (z : list R) (X : list gstat) (frames : R) :
  Forall (gshape (length (u_mu u)) D) X ->
  score inv eps rU D u Fa y z [pool (length (u_mu u)) D X] frames = score inv eps rU D u Fa y z X frames.
Proof.
  intros H. unfold score, estimate_ux. rewrite estimate_x_pooled by assumption.
  unfold pool at 1 3. destruct (pool_pool (length (u_mu u)) D X H) as [E1 E2]. rewrite E1, E2. reflexivity.
Qed.
(* by definition of the model: the score IS the normalised linear score of the client mean with offset U x *)
Theorem score_is_linear_score (eps : R) (rU D : nat) (u : ubm) (Fa : fa) (y : option (list R)) (z : list R) (X : list gstat) (frames : R) :
  let C := length (u_mu u) in
  score inv eps rU D u Fa y z X frames
  = L.score1 eps true (chunk D C (client_mean u Fa y z)) (u_mu u) (u_var u)
             (chunk D C (V.matvec (fU Fa) (estimate_x inv rU D u Fa X)))
             {| L.ts_n := sum_n C X; L.ts_px := sum_f C D X; L.ts_t := frames |}.
Proof. reflexivity. Qed.
(* any permutation-free consequence: the order of the probe items does not matter when their sums agree *)
Theorem score_depends_on_sums (eps : R) (rU D : nat) (u : ubm) (Fa : fa) (y : option (list R)) (z : list R) (X X' : list gstat) (frames : R) :
  sum_n (length (u_mu u)) X = sum_n (length (u_mu u)) X' -> sum_f (length (u_mu u)) D X = sum_f (length (u_mu u)) D X' ->
  score inv eps rU D u Fa y z X frames = score inv eps rU D u Fa y z X' frames.
Proof. intros E1 E2. unfold score, estimate_ux, estimate_x, pool. rewrite E1, E2. reflexivity. Qed.
End Score.

Example gshape_example : gshape 2 1 {| g_n := [1; 2]; g_px := [[3]; [4]] |}.
Proof. repeat split; repeat constructor. Qed.
