(* Boolean obligations over the structural facts GENERATED from /repo/src (Generated/Facts.v).  Definitions only:
   the theorems that they evaluate to true are in Sched.v (copy-back), H5.v (reader/writer) and Heap.v (in-place
   sites); keeping the definitions here lets the check evaluate WHICH obligation / site fails when a theorem breaks. *)
From Coq Require Import List Bool Arith.
From Coq Require Import String.
From BLE Require Import Generated.Facts.
Import ListNotations.
Local Open Scope string_scope.
Local Open Scope list_scope.

Definition incl_b (a b : list string) : bool := forallb (fun x => existsb (String.eqb x) b) a.
Fixpoint assoc {B} (k : string) (l : list (string * B)) : option B :=
  match l with [] => None | (k', v) :: r => if String.eqb k k' then Some v else assoc k r end.
(* the obligations over the lists generated from /repo/src on this run *)
Definition gmm_ml_copyback_ok : bool := incl_b ml_mstep_writes gmm_copyback.
Definition gmm_map_copyback_ok : bool := incl_b map_mstep_writes gmm_copyback.
Definition ivector_copyback_ok : bool := incl_b ivector_mstep_writes ivector_copyback.

(* ------------------------------------------------------------------ obligations on the generated lists *)
Definition str_in (x : string) (l : list string) : bool := existsb (String.eqb x) l.
Definition bound_to_own_key (ctor : list (string * (string * string))) (written : list (string * string)) (arg : string) : bool :=
  match assoc arg ctor with
  | Some (kind, k) => andb (String.eqb kind "key") (existsb (fun ka => andb (String.eqb (fst ka) k) (String.eqb (snd ka) arg)) written)
  | None => false
  end.
Fixpoint nodup_b (l : list string) : bool := match l with [] => true | x :: r => andb (negb (str_in x r)) (nodup_b r) end.
Fixpoint index_of (x : string) (l : list string) (i : nat) : option nat :=
  match l with [] => None | y :: r => if String.eqb x y then Some i else index_of x r (S i) end.

(* every training setting the file records *)
Definition recorded_settings : list string :=
  ["n_gaussians"; "trainer"; "convergence_threshold"; "max_fitting_steps"; "weights"; "update_means"; "update_variances"; "update_weights"]%string.
Definition gmm_settings_ok : bool := forallb (bound_to_own_key h5_gmm_ctor h5_gmm_written) recorded_settings.
Definition gmm_keys_all_read : bool := forallb (fun ka => str_in (fst ka) h5_gmm_read) h5_gmm_written.
Definition gmm_keys_nodup : bool := nodup_b (map fst h5_gmm_written).
(* parameters assigned after construction: means, floors BEFORE variances (the variances setter clamps to the current floors) *)
Definition gmm_floors_before_variances : bool :=
  match index_of "variance_thresholds" (map fst h5_gmm_post) 0, index_of "variances" (map fst h5_gmm_post) 0, index_of "means" (map fst h5_gmm_post) 0 with
  | Some i, Some j, Some _ => Nat.ltb i j
  | _, _, _ => false
  end.
Definition gmm_post_from_own_keys : bool := forallb (fun ak => String.eqb (fst ak) (snd ak)) h5_gmm_post.
Definition stats_fields_ok : bool :=
  andb (forallb (fun ka => str_in (fst ka) h5_stats_read) h5_stats_written)
  (andb (nodup_b (map fst h5_stats_written))
        (forallb (fun a => existsb (fun ak => andb (String.eqb (fst ak) a)
                     (existsb (fun ka => andb (String.eqb (fst ka) (snd ak)) (String.eqb (snd ka) a)) h5_stats_written)) h5_stats_post)
                 ["log_likelihood"; "t"; "n"; "sum_px"; "sum_pxx"]%string)).


(* ------------------------------------------------------------------ obligation over the generated sites *)
(* in-place updates whose target is not a provably fresh local, each justified by hand:
   - `+=` of the statistics containers is SPECIFIED to update its left operand;
   - save() writes into the file object handed over for writing;
   - update_z / update_y / compute_latent_x fill the latent arrays that every caller inside the package
     obtains from initialize_XYZ (np.zeros) or creates itself;
   - the MAP M-step renormalises machine.weights, the array it assigned on the previous line; the i-vector M-step floors
     machine.sigma, the array it assigned on the previous line; the machine is the object being trained;
   - reduce(iadd, ...) accumulates into the first element of a list of freshly computed per-block statistics. *)
Definition left_operand_functions : list string := ["gmm:GMMStats.__iadd__"; "ivector:IVectorStats.__iadd__"].
Definition file_writers : list string := ["gmm:GMMMachine.save"; "gmm:GMMStats.save"].
Definition justified_sites : list (string * string) :=
  [("factor_analysis:FactorAnalysisBase.update_z", "latent_z[y_i]");
   ("factor_analysis:FactorAnalysisBase.update_y", "latent_y[label]");
   ("factor_analysis:FactorAnalysisBase.compute_latent_x", "latent_x[y_i]");
   ("gmm:map_gmm_m_step", "machine.weights");
   ("ivector:m_step", "machine.sigma[machine.sigma < machine.variance_floor]");
   ("gmm:m_step", "reduce(iadd, statistics)");
   ("factor_analysis:reduce_iadd", "reduce(iadd, a)")].
Definition site_ok (s : string * (string * string)) : bool :=
  let fn := fst s in let tgt := fst (snd s) in let prov := snd (snd s) in
  orb (String.eqb prov "fresh")
  (orb (andb (String.eqb prov "self") (str_in fn left_operand_functions))
  (orb (str_in fn file_writers)
       (existsb (fun j => andb (String.eqb (fst j) fn) (String.eqb (snd j) tgt)) justified_sites))).
Definition all_sites_ok : bool := forallb site_ok inplace_sites.
Definition offending_sites := filter (fun s => negb (site_ok s)) inplace_sites.

(* C16: seeding facts *)
Definition seeding_ok : bool :=
  andb create_uvd_reseeds_before_drawing (andb kinit_receives_seed (andb kmeans_uses_no_global_rng
  (andb gmm_passes_seed_to_kmeans (andb gmm_uses_no_global_rng wccn_uses_no_rng)))).

(* one tuple with every generated obligation, for diagnostics *)
Definition all_generated_obligations :=
  (("extraction_error", extraction_error), ("gmm_ml_copyback_ok", gmm_ml_copyback_ok), ("gmm_map_copyback_ok", gmm_map_copyback_ok),
   ("ivector_copyback_ok", ivector_copyback_ok), ("gmm_settings_ok", gmm_settings_ok), ("gmm_keys_all_read", gmm_keys_all_read),
   ("gmm_keys_nodup", gmm_keys_nodup), ("h5_gmm_trainer_decoded", h5_gmm_trainer_decoded),
   ("gmm_floors_before_variances", gmm_floors_before_variances), ("gmm_post_from_own_keys", gmm_post_from_own_keys),
   ("stats_fields_ok", stats_fields_ok), ("all_sites_ok", all_sites_ok), ("seeding_ok", seeding_ok), ("offending_sites", offending_sites)).
