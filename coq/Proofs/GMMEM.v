(* C03: one ML EM iteration never decreases the average training log-likelihood (no floor active). *)
From Coq Require Import Reals Lra List Lia Bool Arith.
From BLE Require Import Num.Scalar Num.InstR Lib.Vec Model.GMM Proofs.RLemmas Proofs.GMMLik Proofs.GMMStats.
Import ListNotations.
Open Scope R_scope.
Import MR.

Definition avg_ll (m : gmm) (X : list (list R)) : R := rsum (map (ll m) X) / INR (length X).

(* "no variance floor or count floor is active" in this M-step, in the model's own terms:
   the count clip is the identity and the variance clamp is the identity on the new variances *)
Definition new_vars_unclamped (sw : switches) (eps : R) (st : stats) (mc : machine) : list (list R) :=
  let tn := map (fun n => V.fmax n eps) (s_n st) in
  let mc1 := if upd_ws sw then set_ws mc (map (fun n => n / INR (s_t st)) tn) else mc in
  let mc2 := if upd_means sw then set_mus mc1 (V.map2 (fun sx n => map (fun a => a / n) sx) (s_px st) tn) else mc1 in
  if upd_means sw then ml_vars_updated_means st tn (mus (g mc2)) else ml_vars_frozen_means st tn (mus (g mc2)).
Definition floors_inactive (sw : switches) (eps : R) (st : stats) (mc : machine) : Prop :=
  Forall (fun n => eps <= n) (s_n st)
  /\ (upd_vars sw = true ->
      clampv (thr mc) (new_vars_unclamped sw eps st mc) = new_vars_unclamped sw eps st mc
      /\ Forall (Forall (fun v => 0 < v)) (new_vars_unclamped sw eps st mc)).

(* ------------------------------------------------------------ list helpers (index form) *)
Lemma list_eq_seq {A} (l : list A) d0 : l = map (fun i => nth i l d0) (seq 0 (length l)).
Proof.
  induction l as [|a l IH]; cbn [length seq map nth]; [reflexivity|].
  f_equal. rewrite <- seq_shift, map_map. exact IH.
Qed.
Lemma nth_map_lt {A B} (f : A -> B) l i d1 d2 : (i < length l)%nat -> nth i (map f l) d1 = f (nth i l d2).
Proof. revert i; induction l as [|a l IH]; intros [|i] H; cbn [length map nth] in *; try lia; auto. apply IH; lia. Qed.
Lemma len_map2 {A B C} (f : A -> B -> C) a b : length (V.map2 f a b) = Nat.min (length a) (length b).
Proof. revert b; induction a as [|x a IH]; intros [|y b]; cbn [V.map2 length Nat.min]; auto. Qed.
Lemma len_map3 {A B C D} (f : A -> B -> C -> D) a b c :
  length (V.map3 f a b c) = Nat.min (length a) (Nat.min (length b) (length c)).
Proof. revert b c; induction a as [|x a IH]; intros [|y b] [|z c]; cbn [V.map3 length Nat.min]; auto. Qed.
Lemma nth_map2 {A B C} (f : A -> B -> C) a b i da db dc :
  (i < length a)%nat -> (i < length b)%nat -> nth i (V.map2 f a b) dc = f (nth i a da) (nth i b db).
Proof.
  revert b i; induction a as [|x a IH]; intros [|y b] [|i] H1 H2; cbn [V.map2 length nth] in *; try lia; auto.
  apply IH; lia.
Qed.
Lemma nth_map3 {A B C D} (f : A -> B -> C -> D) a b c i da db dc dd :
  (i < length a)%nat -> (i < length b)%nat -> (i < length c)%nat ->
  nth i (V.map3 f a b c) dd = f (nth i a da) (nth i b db) (nth i c dc).
Proof.
  revert b c i; induction a as [|x a IH]; intros [|y b] [|z c] [|i] H1 H2 H3; cbn [V.map3 length nth] in *; try lia; auto.
  apply IH; lia.
Qed.
Lemma map3_seq {A B C D} (f : A -> B -> C -> D) a b c n da db dc :
  length a = n -> length b = n -> length c = n ->
  V.map3 f a b c = map (fun i => f (nth i a da) (nth i b db) (nth i c dc)) (seq 0 n).
Proof.
  intros Ha Hb Hc. rewrite (list_eq_seq (V.map3 f a b c) (f da db dc)).
  rewrite len_map3, Ha, Hb, Hc, !Nat.min_id. apply map_ext_in. intros i Hi. apply in_seq in Hi.
  apply nth_map3; lia.
Qed.
Lemma map2_map_same {A B C E} (f : A -> B -> C) (p : E -> A) (q : E -> B) l :
  V.map2 f (map p l) (map q l) = map (fun c => f (p c) (q c)) l.
Proof. induction l; cbn [map V.map2]; auto. now rewrite IHl. Qed.
Lemma map3_map_same {A B C D E} (f : A -> B -> C -> D) (p : E -> A) (q : E -> B) (r : E -> C) l :
  V.map3 f (map p l) (map q l) (map r l) = map (fun c => f (p c) (q c) (r c)) l.
Proof. induction l; cbn [map V.map3]; auto. now rewrite IHl. Qed.
Lemma combine_map_same {A B E} (p : E -> A) (q : E -> B) l :
  combine (map p l) (map q l) = map (fun c => (p c, q c)) l.
Proof. induction l; cbn [map combine]; auto. now rewrite IHl. Qed.
Lemma map_fst_combine {A B} (a : list A) (b : list B) : length a = length b -> map fst (combine a b) = a.
Proof. revert b; induction a as [|x a IH]; intros [|y b] H; cbn [combine map length fst] in *; try discriminate; auto. f_equal. apply IH. lia. Qed.
Lemma map_snd_combine {A B} (a : list A) (b : list B) : length a = length b -> map snd (combine a b) = b.
Proof. revert b; induction a as [|x a IH]; intros [|y b] H; cbn [combine map length snd] in *; try discriminate; auto. f_equal. apply IH. lia. Qed.

Lemma rsum_const {A} (k : R) (l : list A) : rsum (map (fun _ => k) l) = INR (length l) * k.
Proof. induction l; cbn [map rsum length]. simpl; ring. rewrite S_INR, IHl. ring. Qed.
Lemma rsum_map_sub {A} (f h : A -> R) l : rsum (map (fun x => f x - h x) l) = rsum (map f l) - rsum (map h l).
Proof. induction l; simpl; lra. Qed.
Lemma rsum_le0 {A} (f : A -> R) l : (forall x, In x l -> 0 <= f x) -> 0 <= rsum (map f l).
Proof. intros H. induction l; simpl; [lra|]. assert (0 <= f a) by (apply H; now left). assert (0 <= rsum (map f l)) by (apply IHl; intros; apply H; now right). lra. Qed.
Lemma Forall_nth_lt {A} (P : A -> Prop) l i d : Forall P l -> (i < length l)%nat -> P (nth i l d).
Proof. intros H Hi. rewrite Forall_forall in H. apply H. now apply nth_In. Qed.

(* ------------------------------------------------------------ one (component, feature) cell *)
Definition cellx (x mu v : R) : R := - / 2 * (ln (2 * PI) + ln v + (x - mu) * (x - mu) / v).
Definition qcell (n s1 s2 mu v : R) : R :=
  - (n / 2) * (ln (2 * PI) + ln v) - (s2 - 2 * mu * s1 + n * mu * mu) / (2 * v).

Lemma qcell_samples {A} (r xd : A -> R) (X : list A) mu v : v <> 0 ->
  rsum (map (fun x => r x * cellx (xd x) mu v) X)
  = qcell (rsum (map r X)) (rsum (map (fun x => r x * xd x) X)) (rsum (map (fun x => r x * xd x * xd x) X)) mu v.
Proof.
  intros Hv. unfold qcell, cellx. induction X as [|x t IH]; cbn [map rsum]. field; lra. rewrite IH. field. lra.
Qed.

Lemma mean_max n s1 s2 mu v : 0 < n -> 0 < v -> qcell n s1 s2 mu v <= qcell n s1 s2 (s1 / n) v.
Proof.
  intros Hn Hv. unfold qcell.
  assert (E : (s2 - 2 * mu * s1 + n * mu * mu) - (s2 - 2 * (s1/n) * s1 + n * (s1/n) * (s1/n)) = n * (mu - s1/n) * (mu - s1/n)) by (field; lra).
  assert (0 <= n * (mu - s1/n) * (mu - s1/n)) by (rewrite Rmult_assoc; apply Rmult_le_pos; [lra|apply Rle_0_sqr]).
  assert (forall a b, b <= a -> - a / (2 * v) <= - b / (2 * v)).
  { intros a b Hab. unfold Rdiv. apply Rmult_le_compat_r. left; apply Rinv_0_lt_compat; lra. lra. }
  assert (K := H0 (s2 - 2 * mu * s1 + n * mu * mu) (s2 - 2 * (s1/n) * s1 + n * (s1/n) * (s1/n))).
  unfold Rdiv in *. lra.
Qed.

Lemma var_max n s1 s2 mu v : 0 < n -> 0 < v -> 0 < s2 - 2 * mu * s1 + n * mu * mu ->
  qcell n s1 s2 mu v <= qcell n s1 s2 mu ((s2 - 2 * mu * s1 + n * mu * mu) / n).
Proof.
  intros Hn Hv HA. unfold qcell. set (A := s2 - 2 * mu * s1 + n * mu * mu) in *.
  assert (Hvs : 0 < A / n) by (apply Rdiv_lt_0_compat; lra).
  assert (Hy : 0 < A / n / v) by (apply Rdiv_lt_0_compat; lra).
  pose proof (ln_le_sub1 _ Hy) as L.
  unfold Rdiv in L at 1. rewrite ln_mult, ln_Rinv in L by (try apply Rinv_0_lt_compat; lra).
  replace (A / (2 * (A / n))) with (n / 2) by (field; lra).
  assert (E : A / (2 * v) = n / 2 * (A / n / v)) by (field; lra). rewrite E.
  assert (n / 2 * (ln (A / n) - ln v) <= n / 2 * (A / n / v - 1)) by (apply Rmult_le_compat_l; lra).
  lra.
Qed.

Lemma gibbs (nw : list (R*R)) T : 0 < T ->
  Forall (fun p => 0 < fst p /\ 0 < snd p) nw -> rsum (map fst nw) = T -> rsum (map snd nw) <= 1 ->
  rsum (map (fun p => fst p * ln (snd p)) nw) <= rsum (map (fun p => fst p * ln (fst p / T)) nw).
Proof.
  intros HT H Hn Hw.
  assert (K : rsum (map (fun p => fst p * ln (snd p)) nw) - rsum (map (fun p => fst p * ln (fst p / T)) nw)
              <= T * rsum (map snd nw) - rsum (map fst nw)).
  { clear Hn Hw. induction H as [|[n w] l [Hn Hw] Hl IH]; simpl in *. lra.
    assert (Hy : 0 < w / (n / T)) by (apply Rdiv_lt_0_compat; [lra|apply Rdiv_lt_0_compat; lra]).
    pose proof (ln_le_sub1 _ Hy) as L. unfold Rdiv in L at 1.
    rewrite ln_mult, ln_Rinv in L by (try apply Rinv_0_lt_compat; try apply Rdiv_lt_0_compat; lra).
    assert (n * (ln w - ln (n / T)) <= n * (w / (n / T) - 1)) by (apply Rmult_le_compat_l; lra).
    replace (n * (w / (n / T) - 1)) with (T * w - n) in H by (field; lra). lra. }
  rewrite Hn in K. assert (T * rsum (map snd nw) <= T * 1) by (apply Rmult_le_compat_l; lra). lra.
Qed.

(* ------------------------------------------------------------ lwl in index form, closed form of the Q-function *)
Lemma lwl_index (w : R) (mu v x : list R) nf : length x = nf -> length mu = nf -> length v = nf ->
  lwl (w, mu, v) x = ln w + rsum (map (fun d => cellx (nth d x 0) (nth d mu 0) (nth d v 0)) (seq 0 nf)).
Proof.
  intros Hx Hmu Hv. unfold lwl, gnorm, zterm. vs.
  rewrite (map3_seq _ x mu v nf 0 0 0 Hx Hmu Hv).
  rewrite (list_eq_seq v 0) at 2. rewrite map_map, !Hv. unfold_R. f_equal.
  unfold cellx.
  rewrite (rsum_map_scal_l (fun d => ln (2 * PI) + ln (nth d v 0) + (nth d x 0 - nth d mu 0) * (nth d x 0 - nth d mu 0) / nth d v 0)).
  f_equal. rewrite !rsum_map_add, rsum_const, seq_length. try rewrite Hv. reflexivity.
Qed.

Lemma Q_closed (r : list R -> R) (X : list (list R)) nf (w : R) (mu v : list R) :
  rows_ok nf X -> length mu = nf -> length v = nf -> Forall (fun a => 0 < a) v ->
  rsum (map (fun x => r x * lwl (w, mu, v) x) X)
  = rsum (map r X) * ln w
    + rsum (map (fun d => qcell (rsum (map r X)) (rsum (map (fun x => r x * nth d x 0) X))
                                (rsum (map (fun x => r x * nth d x 0 * nth d x 0) X)) (nth d mu 0) (nth d v 0)) (seq 0 nf)).
Proof.
  intros HX Hmu Hv Hpos.
  rewrite (rsum_map_ext _ (fun x => r x * ln w + rsum (map (fun d => r x * cellx (nth d x 0) (nth d mu 0) (nth d v 0)) (seq 0 nf)))).
  2:{ intros x Hin. cbv beta. unfold rows_ok in HX. rewrite Forall_forall in HX. rewrite (lwl_index w mu v x nf (HX x Hin) Hmu Hv).
      rewrite rsum_map_scal_l. ring. }
  rewrite rsum_map_add, rsum_map_scal_r. f_equal.
  rewrite (rsum_swap (fun x d => r x * cellx (nth d x 0) (nth d mu 0) (nth d v 0)) X (seq 0 nf)).
  apply rsum_map_ext. intros d Hd. apply in_seq in Hd.
  apply (qcell_samples r (fun x => nth d x 0) X).
  assert (0 < nth d v 0) by (apply Forall_nth_lt; [assumption|lia]). lra.
Qed.

(* ------------------------------------------------------------ statistics in index form *)
Lemma nth_vzero d n : nth d (V.vzero n) 0 = 0.
Proof. unfold V.vzero. revert d; induction n as [|n IH]; intros [|d]; cbn [repeat nth]; auto. Qed.
Lemma nth_vsumv nf (L : list (list R)) d : (d < nf)%nat -> Forall (fun v => length v = nf) L ->
  nth d (V.vsumv nf L) 0 = rsum (map (fun v => nth d v 0) L).
Proof.
  intros Hd H. induction H as [|v L Hv HL IH]; cbn [V.vsumv map rsum].
  - apply nth_vzero.
  - unfold V.vadd. etransitivity; [apply (nth_map2 InstR.add v (V.vsumv nf L) d 0 0 0)|].
    + lia.
    + rewrite Vvsumv_length; [lia|assumption].
    + unfold InstR.add. f_equal. exact IH.
Qed.

Definition rN (m : gmm) (X : list (list R)) (c : comp) : R := rsum (map (fun x => resp m x c) X).
Definition rS1 (nf : nat) (m : gmm) (X : list (list R)) (c : comp) : list R :=
  V.vsumv nf (map (fun x => V.vscale (resp m x c) x) X).
Definition rS2 (nf : nat) (m : gmm) (X : list (list R)) (c : comp) : list R :=
  V.vsumv nf (map (fun x => V.vmul (V.vscale (resp m x c) x) x) X).

Lemma len_rS1 nf m X c : rows_ok nf X -> length (rS1 nf m X c) = nf.
Proof.
  intros HX. unfold rS1. apply Vvsumv_length. rewrite Forall_map. eapply Forall_impl; [|exact HX].
  intros x Hx. cbv beta. now rewrite vscale_length.
Qed.
Lemma len_rS2 nf m X c : rows_ok nf X -> length (rS2 nf m X c) = nf.
Proof.
  intros HX. unfold rS2. apply Vvsumv_length. rewrite Forall_map. eapply Forall_impl; [|exact HX].
  intros x Hx. cbv beta. rewrite vmul_length; now rewrite vscale_length.
Qed.
Lemma nth_rS1 nf m X c d : rows_ok nf X -> (d < nf)%nat ->
  nth d (rS1 nf m X c) 0 = rsum (map (fun x => resp m x c * nth d x 0) X).
Proof.
  intros HX Hd. unfold rS1. rewrite nth_vsumv; [|assumption|].
  - rewrite map_map. apply rsum_map_ext. intros x Hin. unfold rows_ok in HX. rewrite Forall_forall in HX.
    pose proof (HX x Hin) as Hl. cbv beta.
    unfold V.vscale. etransitivity; [apply (nth_map_lt _ x d 0 0); unfold InstR.T in *; lia|]. reflexivity.
  - rewrite Forall_map. eapply Forall_impl; [|exact HX]. intros x Hx. cbv beta. now rewrite vscale_length.
Qed.
Lemma nth_rS2 nf m X c d : rows_ok nf X -> (d < nf)%nat ->
  nth d (rS2 nf m X c) 0 = rsum (map (fun x => resp m x c * nth d x 0 * nth d x 0) X).
Proof.
  intros HX Hd. unfold rS2. rewrite nth_vsumv; [|assumption|].
  - rewrite map_map. apply rsum_map_ext. intros x Hin. unfold rows_ok in HX. rewrite Forall_forall in HX.
    pose proof (HX x Hin) as Hl. cbv beta.
    unfold V.vmul, V.vscale. etransitivity; [apply (nth_map2 InstR.mul _ x d 0 0 0); rewrite ?map_length; unfold InstR.T in *; lia|].
    unfold InstR.mul at 1. f_equal.
    etransitivity; [apply (nth_map_lt _ x d 0 0); unfold InstR.T in *; lia|]. reflexivity.
  - rewrite Forall_map. eapply Forall_impl; [|exact HX]. intros x Hx. cbv beta. rewrite vmul_length; now rewrite vscale_length.
Qed.

(* ------------------------------------------------------------ the M-step, component by component *)
Definition new_w (sw : switches) (m : gmm) (X : list (list R)) (c : comp) : R :=
  if upd_ws sw then rN m X c / INR (length X) else fst (fst c).
Definition new_mu (sw : switches) (nf : nat) (m : gmm) (X : list (list R)) (c : comp) : list R :=
  if upd_means sw then map (fun a => a / rN m X c) (rS1 nf m X c) else snd (fst c).
Definition new_v (sw : switches) (nf : nat) (m : gmm) (X : list (list R)) (c : comp) : list R :=
  if upd_vars sw then
    (if upd_means sw
     then V.map2 (fun a b => a / rN m X c - b * b) (rS2 nf m X c) (new_mu sw nf m X c)
     else V.map3 (fun a s b => (a - (1 + 1) * b * s + b * b * rN m X c) / rN m X c) (rS2 nf m X c) (rS1 nf m X c) (snd (fst c)))
  else snd c.
Definition newcomp (sw : switches) (nf : nat) (m : gmm) (X : list (list R)) (c : comp) : comp :=
  (new_w sw m X c, new_mu sw nf m X c, new_v sw nf m X c).

Lemma fmax_id eps (l : list R) : Forall (fun n => eps <= n) l -> map (fun n => V.fmax n eps) l = l.
Proof.
  induction 1 as [|n l Hn Hl IH]; cbn [map]; [reflexivity|]. rewrite IH. f_equal.
  unfold V.fmax. apply leb_true in Hn. now rewrite Hn.
Qed.

Lemma combine3_fields {A B C} (a : list A) (b : list B) (c : list C) :
  length a = length b -> length a = length c ->
  a = map (fun t : A * B * C => fst (fst t)) (combine (combine a b) c)
  /\ b = map (fun t : A * B * C => snd (fst t)) (combine (combine a b) c)
  /\ c = map (fun t : A * B * C => snd t) (combine (combine a b) c).
Proof.
  revert b c; induction a as [|x a IH]; intros [|y b] [|z c] H1 H2; cbn [length combine map fst snd] in *; try discriminate; auto.
  destruct (IH b c) as (E1 & E2 & E3); try lia. repeat split; f_equal; assumption.
Qed.
Lemma comps_fields (m : gmm) : length (ws m) = length (mus m) -> length (ws m) = length (vars m) ->
  ws m = map (fun c : comp => fst (fst c)) (comps m)
  /\ mus m = map (fun c : comp => snd (fst c)) (comps m)
  /\ vars m = map (fun c : comp => snd c) (comps m).
Proof. intros H1 H2. unfold comps. apply combine3_fields; assumption. Qed.

Lemma m_step_struct (sw : switches) (eps : R) (nf : nat) (X : list (list R)) (mc : machine) :
  length (ws (g mc)) = length (mus (g mc)) -> length (ws (g mc)) = length (vars (g mc)) ->
  floors_inactive sw eps (e_step nf (g mc) X) mc ->
  let m' := g (ml_m_step sw eps (e_step nf (g mc) X) mc) in
  ws m' = map (new_w sw (g mc) X) (comps (g mc))
  /\ mus m' = map (new_mu sw nf (g mc) X) (comps (g mc))
  /\ vars m' = map (new_v sw nf (g mc) X) (comps (g mc)).
Proof.
  intros H1 H2 [Hn Hv]. destruct (comps_fields (g mc) H1 H2) as (Ew & Emu & Ev).
  cbv zeta. unfold ml_m_step. unfold new_vars_unclamped in Hv. rewrite (fmax_id eps _ Hn) in *.
  destruct sw as [[] [] []];
    cbn [upd_ws upd_means upd_vars set_ws set_mus set_vars g thr ws mus vars] in *;
    (split; [|split]);
    try (etransitivity; [exact (proj1 (Hv eq_refl))|]);
    unfold ml_vars_updated_means, ml_vars_frozen_means;
    cbn [e_step s_n s_px s_pxx s_t].
  all: try (etransitivity; [exact Ew|]; apply map_ext; intros c; reflexivity).
  all: try (etransitivity; [exact Emu|]; apply map_ext; intros c; reflexivity).
  all: try (etransitivity; [exact Ev|]; apply map_ext; intros c; reflexivity).
  all: try (rewrite map_map; apply map_ext; intros c; reflexivity).
  all: try (rewrite map2_map_same; apply map_ext; intros c; reflexivity).
  all: try (rewrite map2_map_same, map3_map_same; apply map_ext; intros c; reflexivity).
  all: try (rewrite !combine_map_same; rewrite Emu at 1; rewrite map3_map_same; apply map_ext; intros c; reflexivity).

Qed.

(* ------------------------------------------------------------ EM lower bound for one sample (Jensen) *)
Definition rresp (S : R) (a : R) := exp a / S.
Definition gain (ab : list (R*R)) : R :=
  let S := sexp (map fst ab) in rsum (map (fun p => rresp S (fst p) * (snd p - fst p)) ab).

Lemma tot_resp S ab : S <> 0 -> rsum (map (fun p : R*R => rresp S (fst p)) ab) = sexp (map fst ab) / S.
Proof. intros HS. unfold sexp, rresp. induction ab as [|[a b] t IH]; simpl; [field; exact HS|]. rewrite IH. field. exact HS. Qed.
Lemma wsum_resp S ab : S <> 0 ->
  rsum (map (fun p : R*R => rresp S (fst p) * exp (snd p - fst p)) ab) = sexp (map snd ab) / S.
Proof.
  intros HS. unfold sexp, rresp. induction ab as [|[a b] t IH]; simpl; [field; exact HS|]. rewrite IH.
  replace (exp b) with (exp a * exp (b - a)) by (rewrite <- exp_plus; f_equal; ring). field. exact HS.
Qed.
Lemma wln_resp S ab :
  rsum (map (fun p : R*R => rresp S (fst p) * ln (exp (snd p - fst p))) ab) =
  rsum (map (fun p : R*R => rresp S (fst p) * (snd p - fst p)) ab).
Proof. induction ab as [|[a b] t IH]; simpl; [reflexivity|]. now rewrite IH, ln_exp. Qed.

Theorem lse_lower_bound (ab : list (R*R)) : ab <> [] ->
  gain ab <= ln (sexp (map snd ab)) - ln (sexp (map fst ab)).
Proof.
  intros Hne. unfold gain.
  assert (Ha : 0 < sexp (map fst ab)) by (apply sexp_pos; destruct ab; simpl; congruence).
  assert (Hb : 0 < sexp (map snd ab)) by (apply sexp_pos; destruct ab; simpl; congruence).
  set (S := sexp (map fst ab)) in *.
  set (l := map (fun p : R*R => (rresp S (fst p), exp (snd p - fst p))) ab).
  assert (Hf : Forall (fun p => 0 <= fst p /\ 0 < snd p) l).
  { unfold l. rewrite Forall_map. apply Forall_forall. intros [a b] _; simpl. split.
    - unfold rresp. left. apply Rdiv_lt_0_compat; [apply exp_pos|exact Ha].
    - apply exp_pos. }
  assert (Ht : tot l = 1).
  { unfold tot, l. rewrite map_map. simpl. rewrite tot_resp by lra. fold S. field. lra. }
  assert (Hw : wsum l = sexp (map snd ab) / S).
  { unfold wsum, l. rewrite map_map. simpl. apply wsum_resp. lra. }
  assert (Hl : wlnsum l = rsum (map (fun p : R*R => rresp S (fst p) * (snd p - fst p)) ab)).
  { unfold wlnsum, l. rewrite map_map. simpl. apply wln_resp. }
  pose proof (jensen_ln l Hf Ht) as J. rewrite Hw, Hl in J.
  assert (0 < sexp (map snd ab) / S) by (apply Rdiv_lt_0_compat; lra).
  specialize (J H). unfold Rdiv in J. rewrite ln_mult, ln_Rinv in J by (try apply Rinv_0_lt_compat; lra). lra.
Qed.

Lemma em_sample_bound (m m' : gmm) (f : comp -> comp) (x : list R) :
  comps m <> [] -> comps m' = map f (comps m) ->
  rsum (map (fun c => resp m x c * (lwl (f c) x - lwl c x)) (comps m)) <= ll m' x - ll m x.
Proof.
  intros Hne Hm'.
  assert (Hne' : comps m' <> []) by (rewrite Hm'; destruct (comps m); simpl; congruence).
  set (ab := map (fun c => ((lwl c x : R), (lwl (f c) x : R))) (comps m) : list (R*R)).
  assert (Hab : ab <> []) by (unfold ab; destruct (comps m); simpl; congruence).
  assert (Efst : map fst ab = lwls m x) by (unfold ab, lwls; rewrite map_map; reflexivity).
  assert (Esnd : map snd ab = lwls m' x) by (unfold ab, lwls; rewrite Hm', !map_map; reflexivity).
  pose proof (lse_lower_bound ab Hab) as K. unfold InstR.T in *. rewrite Efst, Esnd in K.
  rewrite (lwl_lse m x Hne), (lwl_lse m' x Hne'). fold (sexp (lwls m x)) (sexp (lwls m' x)).
  eapply Rle_trans; [|exact K]. right. unfold gain. rewrite Efst. unfold ab. rewrite map_map. cbn [fst snd].
  apply rsum_map_ext. intros c _. f_equal.
  unfold resp, rresp. unfold_R. rewrite <- (ll_exp_pos m x Hne). unfold Rminus, Rdiv. now rewrite exp_plus, exp_Ropp.
Qed.

(* ------------------------------------------------------------ the three maximisers on one cell *)
Lemma cell_improve (um uv : bool) n s1 s2 mu v mu' v' : 0 < n -> 0 < v ->
  mu' = (if um then s1 / n else mu) ->
  v' = (if uv then (if um then s2 / n - mu' * mu' else (s2 - (1 + 1) * mu * s1 + mu * mu * n) / n) else v) ->
  0 < v' ->
  qcell n s1 s2 mu v <= qcell n s1 s2 mu' v'.
Proof.
  intros Hn Hv Emu Ev Hv'. destruct um, uv; subst mu'.
  - eapply Rle_trans; [apply (mean_max n s1 s2 mu v Hn Hv)|].
    assert (E : v' = (s2 - 2 * (s1 / n) * s1 + n * (s1 / n) * (s1 / n)) / n) by (rewrite Ev; field; lra).
    rewrite E. apply var_max; try assumption.
    replace (s2 - 2 * (s1 / n) * s1 + n * (s1 / n) * (s1 / n)) with (n * v') by (rewrite E; field; lra).
    apply Rmult_lt_0_compat; assumption.
  - subst v'. apply mean_max; assumption.
  - assert (E : v' = (s2 - 2 * mu * s1 + n * mu * mu) / n) by (rewrite Ev; field; lra).
    rewrite E. apply var_max; try assumption.
    replace (s2 - 2 * mu * s1 + n * mu * mu) with (n * v') by (rewrite E; field; lra).
    apply Rmult_lt_0_compat; assumption.
  - subst v'. lra.
Qed.

(* ------------------------------------------------------------ one component *)
Definition S1d (m : gmm) (X : list (list R)) (c : comp) (d : nat) : R := rsum (map (fun x => resp m x c * nth d x 0) X).
Definition S2d (m : gmm) (X : list (list R)) (c : comp) (d : nat) : R := rsum (map (fun x => resp m x c * nth d x 0 * nth d x 0) X).
Definition Gq (nf : nat) (m : gmm) (X : list (list R)) (c : comp) (mu v : list R) : R :=
  rsum (map (fun d => qcell (rN m X c) (S1d m X c d) (S2d m X c d) (nth d mu 0) (nth d v 0)) (seq 0 nf)).

Lemma rN_pos m X c : X <> [] -> 0 < rN m X c.
Proof.
  intros HX. unfold rN. apply rsum_pos. destruct X; simpl; congruence.
  rewrite Forall_map. apply Forall_forall. intros x _. apply resp_pos.
Qed.

Lemma F_closed nf m X c (w : R) (mu v : list R) :
  rows_ok nf X -> length mu = nf -> length v = nf -> Forall (fun a => 0 < a) v ->
  rsum (map (fun x => resp m x c * lwl (w, mu, v) x) X) = rN m X c * ln w + Gq nf m X c mu v.
Proof. intros HX Hmu Hv Hp. exact (Q_closed (fun x => resp m x c) X nf w mu v HX Hmu Hv Hp). Qed.

Lemma len_new_mu sw nf m X (c : comp) : rows_ok nf X -> length (snd (fst c)) = nf -> length (new_mu sw nf m X c) = nf.
Proof. intros HX Hl. unfold new_mu. destruct (upd_means sw); [rewrite map_length; now apply len_rS1|exact Hl]. Qed.
Lemma nth_new_mu sw nf m X (c : comp) d : rows_ok nf X -> (d < nf)%nat ->
  nth d (new_mu sw nf m X c) 0 = if upd_means sw then S1d m X c d / rN m X c else nth d (snd (fst c)) 0.
Proof.
  intros HX Hd. unfold new_mu. destruct (upd_means sw); [|reflexivity].
  rewrite (nth_map_lt _ _ d 0 0) by (rewrite len_rS1; assumption). now rewrite nth_rS1.
Qed.
Lemma len_new_v sw nf m X (c : comp) : rows_ok nf X -> length (snd (fst c)) = nf -> length (snd c) = nf ->
  length (new_v sw nf m X c) = nf.
Proof.
  intros HX Hmu Hv. unfold new_v. destruct (upd_vars sw); [|exact Hv]. destruct (upd_means sw) eqn:Em.
  - rewrite len_map2, len_rS2, len_new_mu by assumption. apply Nat.min_id.
  - rewrite len_map3, len_rS2, len_rS1 by assumption. unfold InstR.T in *. rewrite Hmu, !Nat.min_id. reflexivity.
Qed.
Lemma nth_new_v sw nf m X (c : comp) d : rows_ok nf X -> length (snd (fst c)) = nf -> (d < nf)%nat ->
  nth d (new_v sw nf m X c) 0 =
  if upd_vars sw then
    (if upd_means sw then S2d m X c d / rN m X c - nth d (new_mu sw nf m X c) 0 * nth d (new_mu sw nf m X c) 0
     else (S2d m X c d - (1 + 1) * nth d (snd (fst c)) 0 * S1d m X c d + nth d (snd (fst c)) 0 * nth d (snd (fst c)) 0 * rN m X c) / rN m X c)
  else nth d (snd c) 0.
Proof.
  intros HX Hmu Hd. unfold new_v. destruct (upd_vars sw); [|reflexivity]. destruct (upd_means sw) eqn:Em.
  - etransitivity; [apply (nth_map2 _ _ _ d 0 0 0); rewrite ?len_rS2, ?len_new_mu by assumption; assumption|].
    now rewrite nth_rS2.
  - etransitivity; [apply (nth_map3 _ _ _ _ d 0 0 0 0); rewrite ?len_rS2, ?len_rS1 by assumption; unfold InstR.T in *; lia|].
    now rewrite nth_rS2, nth_rS1.
Qed.

Lemma new_v_pos sw nf m X (c : comp) : Forall (fun a => 0 < a) (snd c) ->
  (upd_vars sw = true -> Forall (fun a => 0 < a) (new_v sw nf m X c)) -> Forall (fun a => 0 < a) (new_v sw nf m X c).
Proof. intros Hv H. destruct (upd_vars sw) eqn:E; [now apply H|]. unfold new_v. now rewrite E. Qed.

Lemma comp_improve sw nf m X (c : comp) : X <> [] -> rows_ok nf X -> wf_comp nf c ->
  Forall (fun a => 0 < a) (new_v sw nf m X c) ->
  Gq nf m X c (snd (fst c)) (snd c) <= Gq nf m X c (new_mu sw nf m X c) (new_v sw nf m X c).
Proof.
  intros HX Hrows Hwf Hpos. destruct c as [[w mu] v]. destruct Hwf as (Hw & Hmu & Hv & Hvp). cbn [fst snd].
  unfold Gq. apply rsum_le. intros d Hd. apply in_seq in Hd.
  apply (cell_improve (upd_means sw) (upd_vars sw)).
  - now apply rN_pos.
  - apply Forall_nth_lt; [assumption|(unfold InstR.T in *; cbn [fst snd] in *; lia)].
  - rewrite nth_new_mu by (try assumption; (unfold InstR.T in *; cbn [fst snd] in *; lia)). reflexivity.
  - rewrite nth_new_v by (try assumption; (unfold InstR.T in *; cbn [fst snd] in *; lia)). reflexivity.
  - apply Forall_nth_lt; [assumption|]. rewrite len_new_v; try assumption. (unfold InstR.T in *; cbn [fst snd] in *; lia).
Qed.

Lemma newcomp_wf sw nf m X (c : comp) : X <> [] -> rows_ok nf X -> wf_comp nf c ->
  (upd_vars sw = true -> Forall (fun a => 0 < a) (new_v sw nf m X c)) -> wf_comp nf (newcomp sw nf m X c).
Proof.
  intros HX Hrows Hwf Hp. destruct c as [[w mu] v]. pose proof Hwf as (Hw & Hmu & Hv & Hvp).
  unfold newcomp, wf_comp. repeat split.
  - unfold new_w. destruct (upd_ws sw); [|exact Hw]. apply Rdiv_lt_0_compat. now apply rN_pos.
    apply lt_0_INR. destruct X; simpl; [congruence|lia].
  - now apply len_new_mu.
  - now apply len_new_v.
  - now apply new_v_pos.
Qed.

Lemma comp_gain sw nf m X (c : comp) : X <> [] -> rows_ok nf X -> wf_comp nf c ->
  (upd_vars sw = true -> Forall (fun a => 0 < a) (new_v sw nf m X c)) ->
  rN m X c * (ln (new_w sw m X c) - ln (fst (fst c)))
  <= rsum (map (fun x => resp m x c * (lwl (newcomp sw nf m X c) x - lwl c x)) X).
Proof.
  intros HX Hrows Hwf Hp.
  pose proof (newcomp_wf sw nf m X c HX Hrows Hwf Hp) as Hwf'.
  assert (Hpos : Forall (fun a => 0 < a) (new_v sw nf m X c)).
  { apply new_v_pos; [|exact Hp]. destruct c as [[w mu] v]. apply Hwf. }
  pose proof (comp_improve sw nf m X c HX Hrows Hwf Hpos) as K.
  rewrite (rsum_map_ext _ (fun x => resp m x c * lwl (newcomp sw nf m X c) x - resp m x c * lwl c x)) by (intros; ring).
  rewrite rsum_map_sub.
  destruct c as [[w mu] v]. unfold newcomp in *. cbn [fst snd] in *.
  destruct Hwf as (Hw & Hmu & Hv & Hvp). destruct Hwf' as (Hw' & Hmu' & Hv' & Hvp').
  rewrite (F_closed nf m X (w, mu, v) _ _ _ Hrows Hmu' Hv' Hvp').
  rewrite (F_closed nf m X (w, mu, v) _ _ _ Hrows Hmu Hv Hvp).
  lra.
Qed.

Lemma m_step_vars_pos (sw : switches) (eps : R) (st : stats) (mc : machine) :
  floors_inactive sw eps st mc -> upd_vars sw = true ->
  Forall (Forall (fun v => 0 < v)) (vars (g (ml_m_step sw eps st mc))).
Proof.
  intros [Hn Hv] Hu. destruct (Hv Hu) as [Hc Hp]. clear Hv.
  destruct sw as [[] [] []]; try discriminate Hu;
    exact (eq_ind_r (fun l => Forall (Forall (fun v => 0 < v)) l) Hp Hc).
Qed.

Theorem em_monotone_ml (sw : switches) (eps : R) (nf : nat) (X : list (list R)) (mc : machine) :
  X <> [] -> rows_ok nf X -> wf_gmm nf (g mc) -> rsum (ws (g mc)) = 1 -> 0 < eps ->
  length (ws (g mc)) = length (mus (g mc)) -> length (ws (g mc)) = length (vars (g mc)) ->
  let st := e_step nf (g mc) X in
  floors_inactive sw eps st mc ->
  let mc' := ml_m_step sw eps st mc in
  wf_gmm nf (g mc') /\ rsum (ws (g mc')) = 1 /\ avg_ll (g mc) X <= avg_ll (g mc') X.
Proof.
  intros HX Hrows Hwf Hsum Heps Hl1 Hl2 st Hfl mc'. subst st mc'.
  destruct (m_step_struct sw eps nf X mc Hl1 Hl2 Hfl) as (Ew' & Emu' & Ev'). cbv zeta in Ew', Emu', Ev'.
  pose proof (m_step_vars_pos sw eps _ mc Hfl) as Hvpos. rewrite Ev' in Hvpos.
  destruct (comps_fields (g mc) Hl1 Hl2) as (Ew & _ & _).
  set (m := g mc) in *. set (m' := g (ml_m_step sw eps (e_step nf m X) mc)) in *. clearbody m'. clear Hfl.
  destruct Hwf as [Hne Hall].
  assert (Hcs' : comps m' = map (newcomp sw nf m X) (comps m)).
  { unfold comps at 1. rewrite Ew', Emu', Ev', !combine_map_same. reflexivity. }
  assert (HN : 0 < INR (length X)) by (apply lt_0_INR; destruct X; simpl; [congruence|lia]).
  assert (Hp : forall c, In c (comps m) -> upd_vars sw = true -> Forall (fun a => 0 < a) (new_v sw nf m X c)).
  { intros c Hin Hu. specialize (Hvpos Hu). rewrite Forall_map, Forall_forall in Hvpos. now apply Hvpos. }
  assert (HsumN : rsum (map (rN m X) (comps m)) = INR (length X)).
  { exact (n_sum_is_t nf m X Hne). }
  rewrite Forall_forall in Hall.
  split; [|split].
  - (* well-formedness *)
    split. rewrite Hcs'. destruct (comps m); simpl; congruence.
    rewrite Hcs', Forall_map. apply Forall_forall. intros c Hin.
    apply newcomp_wf; auto.
  - (* weights sum to one *)
    rewrite Ew'. unfold new_w. destruct (upd_ws sw).
    + unfold Rdiv. rewrite (rsum_map_scal_r (rN m X)), HsumN. field. lra.
    + etransitivity; [|exact Hsum]. f_equal. symmetry. exact Ew.
  - (* monotonicity *)
    unfold avg_ll. apply Rmult_le_compat_r. left; now apply Rinv_0_lt_compat.
    set (D := rsum (map (fun x => rsum (map (fun c => resp m x c * (lwl (newcomp sw nf m X c) x - lwl c x)) (comps m))) X)).
    assert (K1 : D <= rsum (map (ll m') X) - rsum (map (ll m) X)).
    { rewrite <- rsum_map_sub. unfold D. apply rsum_le. intros x _. now apply em_sample_bound. }
    assert (K2 : rsum (map (fun c => rN m X c * (ln (new_w sw m X c) - ln (fst (fst c)))) (comps m)) <= D).
    { unfold D. rewrite (rsum_swap (fun x c => resp m x c * (lwl (newcomp sw nf m X c) x - lwl c x)) X (comps m)).
      apply rsum_le. intros c Hin. apply comp_gain; auto. }
    assert (K3 : 0 <= rsum (map (fun c => rN m X c * (ln (new_w sw m X c) - ln (fst (fst c)))) (comps m))).
    { unfold new_w. destruct (upd_ws sw).
      - rewrite (rsum_map_ext _ (fun c => rN m X c * ln (rN m X c / INR (length X)) - rN m X c * ln (fst (fst c)))) by (intros; ring).
        rewrite rsum_map_sub.
        pose proof (gibbs (map (fun c : comp => (rN m X c, fst (fst c))) (comps m)) (INR (length X)) HN) as G.
        rewrite !map_map in G. cbn [fst snd] in G.
        assert (G' : rsum (map (fun c : comp => rN m X c * ln (fst (fst c))) (comps m))
                     <= rsum (map (fun c : comp => rN m X c * ln (rN m X c / INR (length X))) (comps m))).
        { apply G.
          - rewrite Forall_map. apply Forall_forall. intros c Hin. cbn [fst snd]. split. now apply rN_pos.
            specialize (Hall c Hin). destruct c as [[w mu] v]. apply Hall.
          - exact HsumN.
          - right. etransitivity; [|exact Hsum]. f_equal. symmetry. exact Ew. }
        lra.
      - rewrite (rsum_map_ext _ (fun _ => 0)) by (intros; ring). rewrite rsum_const. lra. }
    lra.
Qed.

Print Assumptions em_monotone_ml.
