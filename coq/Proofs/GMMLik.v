(* C01: the log-likelihood the model (hence, by correspondence, the code) computes is the log of the
   normalised diagonal-Gaussian mixture density; log-sum-exp structure; batch independence. *)
From Coq Require Import Reals Lra List Lia.
From BLE Require Import Num.Scalar Num.InstR Lib.Vec Model.GMM Proofs.RLemmas Proofs.VecR.
Import ListNotations.
Open Scope R_scope.

Module MR := GMM InstR.
Import MR.

Lemma Vvsum_rsum l : V.vsum l = rsum l.
Proof. induction l as [|x l IH]; simpl; [reflexivity|]. rewrite IH. reflexivity. Qed.
Lemma Vvsum_eq : @eq (list R -> R) V.vsum rsum.
Proof. reflexivity. Qed.
Ltac vs := rewrite ?Vvsum_eq in *.
Lemma Vmap3_combine {A B C D} (f : A -> B -> C -> D) a b c :
  V.map3 f a b c = map (fun t => f (fst (fst t)) (snd (fst t)) (snd t)) (combine (combine a b) c).
Proof. revert b c; induction a as [|x a IH]; intros [|y b] [|z c]; simpl; try reflexivity. now rewrite IH. Qed.
Lemma Vmap2_combine {A B C} (f : A -> B -> C) a b :
  V.map2 f a b = map (fun t => f (fst t) (snd t)) (combine a b).
Proof. revert b; induction a as [|x a IH]; intros [|y b]; simpl; try reflexivity. now rewrite IH. Qed.

(* ---------------------------------------------------------------- logaddexp / lse *)
Lemma logaddexp_spec (a b : R) : logaddexp a b = ln (exp a + exp b).
Proof.
  unfold logaddexp. destruct (InstR.eqb a b) eqn:E.
  - apply eqb_true in E. subst b. unfold_R. replace (exp a + exp a) with (exp a * 2) by ring.
    rewrite ln_mult by (try apply exp_pos; lra). now rewrite ln_exp.
  - destruct (InstR.ltb InstR.zero (InstR.sub a b)) eqn:L; unfold_R.
    + replace (exp a + exp b) with (exp a * (1 + exp (- (a - b)))).
      * rewrite ln_mult, ln_exp; [reflexivity | apply exp_pos | pose proof (exp_pos (- (a - b))); lra].
      * rewrite Rmult_plus_distr_l, <- exp_plus. f_equal; [ring | f_equal; ring].
    + replace (exp a + exp b) with (exp b * (1 + exp (a - b))).
      * rewrite ln_mult, ln_exp; [reflexivity | apply exp_pos | pose proof (exp_pos (a - b)); lra].
      * rewrite Rmult_plus_distr_l, <- exp_plus. rewrite Rplus_comm. f_equal; [f_equal; ring | ring].
Qed.

(* the reduction never exponentiates a positive number: the form that cannot overflow, and
   underflows only to the (correct) limit max a b *)
Lemma logaddexp_stable (a b : R) :
  logaddexp a b = if Req_EM_T a b then a + ln 2 else Rmax a b + ln (1 + exp (- Rabs (a - b))).
Proof.
  unfold logaddexp, InstR.eqb. destruct (Req_EM_T a b) as [E|E]; [reflexivity|].
  destruct (InstR.ltb InstR.zero (InstR.sub a b)) eqn:L; unfold_R.
  - apply ltb_true in L. rewrite Rabs_right by lra. rewrite Rmax_left by lra. reflexivity.
  - apply ltb_false in L. rewrite Rabs_left1 by lra. rewrite Rmax_right by lra. f_equal. f_equal. f_equal. f_equal. ring.
Qed.
Lemma logaddexp_exp_arg_nonpos (a b : R) : - Rabs (a - b) <= 0.
Proof. pose proof (Rabs_pos (a - b)). lra. Qed.

Lemma lse_fold x r : fold_left logaddexp r x = ln (exp x + sexp r).
Proof.
  revert x; induction r as [|y r IH]; intros x; cbn [fold_left].
  - unfold sexp; simpl. rewrite Rplus_0_r. now rewrite ln_exp.
  - rewrite IH, logaddexp_spec. rewrite exp_ln.
    + unfold sexp; simpl. f_equal. ring.
    + pose proof (exp_pos x); pose proof (exp_pos y); lra.
Qed.
Lemma lse_spec l : l <> [] -> lse l = ln (sexp l).
Proof. destruct l as [|x r]; [congruence|intros _]. unfold lse. rewrite lse_fold. reflexivity. Qed.

Lemma exp_le_sexp a l : In a l -> exp a <= sexp l.
Proof.
  induction l as [|x l IH]; intros H; [destruct H|]. unfold sexp in *; simpl.
  destruct H as [->|H].
  - pose proof (sexp_nonneg l). unfold sexp in *. lra.
  - specialize (IH H). pose proof (exp_pos x). lra.
Qed.
Lemma sexp_le_n_max M l : Forall (fun a => a <= M) l -> sexp l <= INR (length l) * exp M.
Proof.
  induction 1 as [|x l Hx Hl IH]; unfold sexp in *; cbn [map rsum length]. simpl; lra.
  rewrite S_INR. assert (exp x <= exp M). { destruct Hx as [Hx| ->]; [left; now apply exp_increasing|right; reflexivity]. } lra.
Qed.
Theorem lse_bounds x r : let l := x :: r in let M := rmax_list x r in
  M <= lse l <= M + ln (INR (length l)).
Proof.
  cbv zeta. rewrite lse_spec by congruence. set (l := x :: r). set (M := rmax_list x r).
  assert (Hp : 0 < sexp l) by (apply sexp_pos; unfold l; congruence).
  split.
  - rewrite <- (ln_exp M). assert (exp M <= sexp l) by (apply exp_le_sexp, rmax_list_in).
    destruct H as [H|H]; [left; apply ln_increasing; [apply exp_pos|exact H]|right; now rewrite H].
  - assert (Hn : 0 < INR (length l)) by (apply lt_0_INR; simpl; lia).
    rewrite <- (ln_exp M) at 1. rewrite <- ln_mult by (try apply exp_pos; lra).
    assert (H : sexp l <= exp M * INR (length l)).
    { rewrite Rmult_comm. apply sexp_le_n_max. destruct (rmax_list_ge x r) as [H1 H2]. constructor; assumption. }
    destruct H as [H|H]; [left; apply ln_increasing; assumption|right; now rewrite H].
Qed.

(* ---------------------------------------------------------------- Gaussian form *)
Definition gauss1 (x mu v : R) : R := / sqrt (2 * PI * v) * exp (- ((x - mu) * (x - mu)) / (2 * v)).

Lemma inv_sqrt_exp y : 0 < y -> / sqrt y = exp (- / 2 * ln y).
Proof.
  intros Hy. assert (Hs : 0 < sqrt y) by now apply sqrt_lt_R0.
  rewrite <- (exp_ln (/ sqrt y)) by now apply Rinv_0_lt_compat.
  f_equal. rewrite ln_Rinv by assumption.
  assert (E : ln y = 2 * ln (sqrt y)).
  { rewrite <- (sqrt_sqrt y) at 1 by lra. rewrite ln_mult by assumption. ring. }
  rewrite E. field.
Qed.
Lemma gauss1_exp x mu v : 0 < v -> gauss1 x mu v = exp (- / 2 * (ln (2 * PI) + ln v + (x - mu) * (x - mu) / v)).
Proof.
  intros Hv. unfold gauss1. pose proof PI_RGT_0.
  rewrite inv_sqrt_exp by (apply Rmult_lt_0_compat; lra).
  rewrite <- exp_plus. f_equal. rewrite ln_mult by lra. field. lra.
Qed.
Lemma gauss1_pos x mu v : 0 < v -> 0 < gauss1 x mu v.
Proof. intros. rewrite gauss1_exp by assumption. apply exp_pos. Qed.

(* density of one diagonal-Gaussian component at x *)
Definition gaussD (x mu v : list R) : R := rprod (V.map3 gauss1 x mu v).

Lemma lwl_core (c : R) (xmv : list (R * R * R)) :
  Forall (fun t => 0 < snd t) xmv ->
  exp (c - / 2 * (INR (length xmv) * ln (2 * PI)
                  + rsum (map (fun t => ln (snd t)) xmv)
                  + rsum (map (fun t => (fst (fst t) - snd (fst t)) * (fst (fst t) - snd (fst t)) / snd t) xmv)))
  = exp c * rprod (map (fun t => gauss1 (fst (fst t)) (snd (fst t)) (snd t)) xmv).
Proof.
  intros H. revert c. induction H as [|[[x mu] v] l Hv Hl IH]; intros c.
  - simpl. rewrite Rmult_1_r. f_equal. ring.
  - cbn [length map rsum rprod fst snd]. rewrite S_INR. cbn [snd] in Hv.
    rewrite (gauss1_exp x mu v Hv).
    transitivity (exp (c + - / 2 * (ln (2 * PI) + ln v + (x - mu) * (x - mu) / v))
                  * rprod (map (fun t => gauss1 (fst (fst t)) (snd (fst t)) (snd t)) l)).
    + rewrite <- IH. f_equal. field. lra.
    + rewrite exp_plus. ring.
Qed.

Definition wf_comp (D : nat) (c : comp) : Prop :=
  let '(w, mu, v) := c in 0 < w /\ length mu = D /\ length v = D /\ Forall (fun a => 0 < a) v.
Definition wf_gmm (D : nat) (m : gmm) : Prop := comps m <> [] /\ Forall (wf_comp D) (comps m).

Theorem lwl_is_log_weighted_density (c : comp) (x : list R) :
  wf_comp (length x) c -> let '(w, mu, v) := c in exp (lwl c x) = w * gaussD x mu v.
Proof.
  destruct c as [[w mu] v]. intros (Hw & Hmu & Hv & Hpos).
  unfold lwl, gnorm, zterm, gaussD. vs. rewrite !Vmap3_combine. unfold_R.
  set (xmv := combine (combine x mu) v).
  assert (Hlen : length v = length xmv) by (unfold xmv; rewrite !combine_length; lia).
  assert (Hsn : map ln v = map (fun t => ln (snd t)) xmv).
  { unfold xmv. clear - Hmu Hv. revert mu v Hmu Hv. induction x as [|a x IH]; intros [|b mu] [|c v] H1 H2; simpl in *; try discriminate; auto.
    f_equal. apply IH; lia. }
  assert (Hf : Forall (fun t : R * R * R => 0 < snd t) xmv).
  { unfold xmv. apply Forall_forall. intros [[a b] c] Hin. apply in_combine_r in Hin. simpl. rewrite Forall_forall in Hpos. now apply Hpos. }
  rewrite Hlen, Hsn.
  pose proof (lwl_core (ln w) xmv Hf) as K. rewrite exp_ln in K by assumption.
  rewrite <- K. f_equal. ring.
Qed.

(* the mixture density the property talks about *)
Definition mixture_density (m : gmm) (x : list R) : R :=
  rsum (map (fun c : comp => let '(w, mu, v) := c in w * gaussD x mu v) (comps m)).

Theorem ll_is_log_mixture (m : gmm) (x : list R) :
  wf_gmm (length x) m -> ll m x = ln (mixture_density m x).
Proof.
  intros [Hne Hwf]. unfold ll, lwls. rewrite lse_spec by (destruct (comps m); simpl; congruence).
  unfold sexp, mixture_density. rewrite map_map. f_equal. apply rsum_map_ext. intros c Hin.
  rewrite Forall_forall in Hwf. pose proof (lwl_is_log_weighted_density c x (Hwf c Hin)) as K.
  destruct c as [[w mu] v]. exact K.
Qed.

Theorem mixture_density_pos (m : gmm) (x : list R) : wf_gmm (length x) m -> 0 < mixture_density m x.
Proof.
  intros [Hne Hwf]. unfold mixture_density. apply rsum_pos. destruct (comps m); simpl; congruence.
  rewrite Forall_map. eapply Forall_impl; [|exact Hwf]. intros [[w mu] v] H.
  pose proof (lwl_is_log_weighted_density (w, mu, v) x H) as K. cbv beta iota in K. rewrite <- K. apply exp_pos.
Qed.

(* the per-component values log-sum-exp to the reported value (by definition of the model, stated for the record) *)
Theorem lwl_lse (m : gmm) (x : list R) : comps m <> [] -> ll m x = ln (rsum (map exp (lwls m x))).
Proof. intros H. unfold ll. rewrite lse_spec. reflexivity. unfold lwls. destruct (comps m); simpl; congruence. Qed.

(* a single sample scores as the same sample inside any batch; batches split at any row *)
Theorem ll_batch_app m X1 X2 : log_likelihood m (X1 ++ X2) = log_likelihood m X1 ++ log_likelihood m X2.
Proof. unfold log_likelihood. apply map_app. Qed.
Theorem ll_single_in_batch m X i x : nth_error X i = Some x -> nth_error (log_likelihood m X) i = Some (ll m x).
Proof. intros H. unfold log_likelihood. now rewrite nth_error_map, H. Qed.
Theorem ll_concat m (Bs : list (list (list R))) : log_likelihood m (concat Bs) = concat (map (log_likelihood m) Bs).
Proof. unfold log_likelihood. now rewrite concat_map. Qed.

(* responsibilities are a probability vector: used by C02/C03 *)
Lemma ll_exp_pos m x : comps m <> [] -> exp (ll m x) = sexp (lwls m x).
Proof. intros H. rewrite lwl_lse by assumption. fold (sexp (lwls m x)). rewrite exp_ln. reflexivity. apply sexp_pos. unfold lwls. destruct (comps m); simpl; congruence. Qed.

(* non-vacuity: a concrete two-component, two-feature machine meets wf_gmm *)
Example wf_example :
  wf_gmm 2 {| ws := [/4; 3/4]; mus := [[0; 0]; [4; 4]]; vars := [[1; 1]; [2; /2]] |}.
Proof.
  split. unfold comps; simpl; discriminate. unfold comps; simpl. repeat constructor; simpl; try lra; repeat constructor; lra.
Qed.
