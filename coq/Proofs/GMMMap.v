(* C05: MAP adaptation interpolates between the prior and the data by relevance. *)
From Coq Require Import Reals Lra List Lia Bool Arith.
From BLE Require Import Num.Scalar Num.InstR Lib.Vec Model.GMM Proofs.RLemmas Proofs.GMMLik Proofs.GMMStats.
Import ListNotations.
Open Scope R_scope.
Import MR.

(* the scalar blend the property talks about *)
Definition blend (a e p : R) : R := a * e + (1 - a) * p.

(* ------------------------------------------------------------ adaptation coefficient *)
Theorem map_alpha_reynolds r al n : map_alpha1 (Some r) al n = n / (n + r).
Proof. reflexivity. Qed.
Theorem map_alpha_fixed al n : map_alpha1 None al n = al.
Proof. reflexivity. Qed.
Theorem map_alpha_range r al n : 0 < r -> 0 <= n -> 0 <= map_alpha1 (Some r) al n < 1.
Proof.
  intros Hr Hn. rewrite map_alpha_reynolds. split.
  - apply Rmult_le_pos; [lra|]. left. apply Rinv_0_lt_compat. lra.
  - apply Rmult_lt_reg_r with (n + r); [lra|]. unfold Rdiv. rewrite Rmult_assoc, Rinv_l by lra. lra.
Qed.

(* ------------------------------------------------------------ means *)
Theorem map_means_blend eps a n sx pm : eps <= n ->
  map_mean1 eps a n sx pm = V.map2 (fun s p => blend a (s / n) p) sx pm.
Proof.
  intros H. unfold map_mean1. replace (InstR.ltb n eps) with false by (symmetry; now apply ltb_false). reflexivity.
Qed.
Theorem map_no_evidence_means eps a n sx pm : n < eps -> map_mean1 eps a n sx pm = pm.
Proof. intros H. unfold map_mean1. replace (InstR.ltb n eps) with true by (symmetry; now apply ltb_true). reflexivity. Qed.

Lemma map2_blend_0 e p : length e = length p -> V.map2 (fun s q => blend 0 s q) e p = p.
Proof. revert p; induction e as [|x e IH]; intros [|y p] H; simpl in *; try discriminate; auto. rewrite IH by lia. f_equal. unfold blend; ring. Qed.
Lemma map2_blend_1 e p : length e = length p -> V.map2 (fun s q => blend 1 s q) e p = e.
Proof. revert p; induction e as [|x e IH]; intros [|y p] H; simpl in *; try discriminate; auto. rewrite IH by lia. f_equal. unfold blend; ring. Qed.
(* fixed ratio 0 returns the prior mean, fixed ratio 1 the ML estimate sum_px / n *)
Theorem map_means_alpha0 eps n sx pm : length sx = length pm -> map_mean1 eps 0 n sx pm = pm.
Proof.
  intros Hl. unfold map_mean1. destruct (InstR.ltb n eps); [reflexivity|].
  transitivity (V.map2 (fun s q => blend 0 s q) (map (fun s => s / n) sx) pm).
  - clear Hl. revert pm; induction sx as [|x sx IH]; intros [|y pm]; simpl; auto. now rewrite IH.
  - apply map2_blend_0. now rewrite map_length.
Qed.
Theorem map_means_alpha1 eps n sx pm : eps <= n -> length sx = length pm ->
  map_mean1 eps 1 n sx pm = map (fun s => s / n) sx.
Proof.
  intros He Hl. rewrite map_means_blend by assumption.
  transitivity (V.map2 (fun s q => blend 1 s q) (map (fun s => s / n) sx) pm).
  - clear Hl. revert pm; induction sx as [|x sx IH]; intros [|y pm]; simpl; auto. now rewrite IH.
  - apply map2_blend_1. now rewrite map_length.
Qed.

(* ------------------------------------------------------------ limits in the relevance factor *)
Lemma blend_dist_prior a e p : blend a e p - p = a * (e - p).
Proof. unfold blend; ring. Qed.
Lemma blend_dist_ml a e p : blend a e p - e = (1 - a) * (p - e).
Proof. unfold blend; ring. Qed.

(* a very large relevance factor returns the prior ... *)
Theorem map_large_relevance n e p eps : 0 <= n -> 0 < eps ->
  exists R0, 0 < R0 /\ forall r, R0 < r -> Rabs (blend (map_alpha1 (Some r) 0 n) e p - p) < eps.
Proof.
  intros Hn He. set (d := Rabs (e - p)).
  exists (n * d / eps + 1). assert (Hd : 0 <= d) by apply Rabs_pos.
  assert (Hq : 0 <= n * d / eps). { apply Rmult_le_pos. now apply Rmult_le_pos. left; now apply Rinv_0_lt_compat. }
  split; [lra|]. intros r Hr. rewrite blend_dist_prior, Rabs_mult, map_alpha_reynolds. fold d.
  assert (Hnr : 0 < n + r) by lra.
  rewrite Rabs_right by (apply Rle_ge; apply Rmult_le_pos; [lra|left; now apply Rinv_0_lt_compat]).
  apply Rmult_lt_reg_r with (n + r); [lra|].
  replace (n / (n + r) * d * (n + r)) with (n * d) by (field; lra).
  assert (n * d < eps * r).
  { apply Rmult_lt_reg_r with (/ eps); [now apply Rinv_0_lt_compat|].
    replace (eps * r * / eps) with r by (field; lra). unfold Rdiv in Hr. lra. }
  assert (0 <= eps * n) by (apply Rmult_le_pos; lra). lra.
Qed.
(* ... and a vanishing one the maximum-likelihood estimate (for a component with evidence) *)
Theorem map_small_relevance n e p eps : 0 < n -> 0 < eps ->
  exists r0, 0 < r0 /\ forall r, 0 < r < r0 -> Rabs (blend (map_alpha1 (Some r) 0 n) e p - e) < eps.
Proof.
  intros Hn He. set (d := Rabs (p - e)). assert (Hd : 0 <= d) by apply Rabs_pos.
  exists (eps * n / (d + 1)). assert (Hd1 : 0 < d + 1) by lra.
  split. { apply Rmult_lt_0_compat. now apply Rmult_lt_0_compat. now apply Rinv_0_lt_compat. }
  intros r [Hr0 Hr]. rewrite blend_dist_ml, Rabs_mult, map_alpha_reynolds. fold d.
  assert (Hnr : 0 < n + r) by lra.
  replace (1 - n / (n + r)) with (r / (n + r)) by (field; lra).
  rewrite Rabs_right by (apply Rle_ge; apply Rmult_le_pos; [lra|left; now apply Rinv_0_lt_compat]).
  apply Rmult_lt_reg_r with (n + r); [lra|].
  replace (r / (n + r) * d * (n + r)) with (r * d) by (field; lra).
  assert (r * (d + 1) < eps * n).
  { apply Rmult_lt_reg_r with (/ (d + 1)); [now apply Rinv_0_lt_compat|].
    replace (r * (d + 1) * / (d + 1)) with r by (field; lra). unfold Rdiv in Hr. lra. }
  assert (0 < eps * r) by now apply Rmult_lt_0_compat. lra.
Qed.

(* ------------------------------------------------------------ weights *)
Theorem map_weights_blend a n t w0 : map_w0 a n t w0 = blend a (n / t) w0.
Proof. reflexivity. Qed.
Theorem map_weights_nonneg a n t w0 : 0 <= a <= 1 -> 0 <= n -> 0 < t -> 0 <= w0 -> 0 <= map_w0 a n t w0.
Proof.
  intros [Ha0 Ha1] Hn Ht Hw. rewrite map_weights_blend. unfold blend.
  assert (0 <= n / t) by (apply Rmult_le_pos; [lra|left; now apply Rinv_0_lt_compat]).
  assert (0 <= a * (n / t)) by now apply Rmult_le_pos.
  assert (0 <= (1 - a) * w0) by (apply Rmult_le_pos; lra). lra.
Qed.
(* the renormalised weights sum to one *)
Theorem map_weights_simplex (w0 : list R) : rsum w0 <> 0 -> rsum (map (fun w => w / rsum w0) w0) = 1.
Proof. intros H. unfold Rdiv. rewrite rsum_scal_r. now apply Rinv_r. Qed.
Theorem map_m_step_weights sq sw eps rel al prior st mc : upd_ws sw = true ->
  let w0 := V.map3 (fun a n w => map_w0 a n (INR (s_t st)) w) (map_alpha rel al st) (s_n st) (ws prior) in
  rsum w0 <> 0 ->
  rsum (ws (g (map_m_step sq sw eps rel al prior st mc))) = 1.
Proof.
  intros Hw w0 Hne. unfold map_m_step. rewrite Hw.
  assert (E : forall mc0, ws (g (if upd_vars sw then set_vars mc0 (V.map3 (fun a_n_sxx pv_pm m => map_var1 sq eps (fst (fst a_n_sxx)) (snd (fst a_n_sxx)) (snd a_n_sxx) (fst pv_pm) (snd pv_pm) m)
              (combine (combine (map_alpha rel al st) (s_n st)) (s_pxx st)) (combine (vars prior) (mus prior)) (mus (g mc0))) else mc0)) = ws (g mc0)).
  { intros mc0. destruct (upd_vars sw); reflexivity. }
  cbv zeta. rewrite E. destruct (upd_means sw); cbn [set_mus set_ws g ws]; vs; apply map_weights_simplex; exact Hne.
Qed.

(* ------------------------------------------------------------ variances (Reynolds eq. 13 = property C05) *)
Theorem map_vars_blend eps a n sxx pv pm m : eps <= n ->
  map_var1 true eps a n sxx pv pm m
  = V.map3 (fun s vp mm => blend a (s / n) vp - mm * mm) sxx (V.map2 (fun v p => v + p * p) pv pm) m.
Proof.
  intros H. unfold map_var1. replace (InstR.ltb n eps) with false by (symmetry; now apply ltb_false).
  rewrite !Vmap3_combine. apply map_ext. intros [[s vp] mm]. unfold blend; unfold_R; simpl. unfold Rdiv. ring.
Qed.
(* a component without evidence keeps the prior variance (its mean is the prior mean) *)
Theorem map_no_evidence_vars eps a n sxx pv pm : n < eps -> length pv = length pm ->
  map_var1 true eps a n sxx pv pm pm = pv.
Proof.
  intros H Hl. unfold map_var1. replace (InstR.ltb n eps) with true by (symmetry; now apply ltb_true).
  revert pm Hl. induction pv as [|v pv IH]; intros [|p pm] Hl; simpl in *; try discriminate; auto.
  rewrite IH by lia. f_equal. unfold prior_m2; unfold_R. ring.
Qed.
(* today's code (un-squared prior mean) does NOT keep the prior variance: kernel-checked witness.
   prior mean 3, prior variance 2, no evidence: 2 + 3 - 9 = -4, not 2.  Known finding D2. *)
Theorem map_no_evidence_vars_faithful_refuted :
  exists eps a n sxx pv pm, n < eps /\ length pv = length pm /\ map_var1 false eps a n sxx pv pm pm <> pv.
Proof.
  exists 1, 0, 0, [0], [2], [3]. split; [lra|]. split; [reflexivity|].
  unfold map_var1. replace (InstR.ltb 0 1) with true by (symmetry; apply ltb_true; lra).
  simpl. unfold prior_m2; unfold_R. intros E. inversion E. lra.
Qed.
(* and with evidence the faithful blend differs from the stated one whenever prior mean <> its square *)
Theorem map_vars_faithful_vs_spec eps a n s v p mm : eps <= n ->
  map_var1 false eps a n [s] [v] [p] [mm] = [blend a (s / n) (v + p) - mm * mm].
Proof.
  intros H. unfold map_var1. replace (InstR.ltb n eps) with false by (symmetry; now apply ltb_false).
  simpl. unfold prior_m2, blend; unfold_R. f_equal. unfold Rdiv. ring.
Qed.

Example map_alpha_example : 0 <= map_alpha1 (Some 4) 0 6 < 1.
Proof. apply map_alpha_range; lra. Qed.
