(* C05: with means-only MAP adaptation (Reynolds relevance r) one EM iteration never decreases the
   relevance-penalised likelihood  sum_x ll m x - (r/2) sum_c sum_d (mu_cd - mu0_cd)^2 / v_cd. *)
From Coq Require Import Reals Lra List Lia Bool Arith.
From BLE Require Import Num.Scalar Num.InstR Lib.Vec Model.GMM Proofs.RLemmas Proofs.GMMLik Proofs.GMMStats Proofs.GMMEM Proofs.GMMMap.
Import ListNotations.
Open Scope R_scope.
Import MR.

(* log-prior of the means: independent N(mu0_cd, v_cd / r) per component and feature, up to a constant *)
Definition map_penalty (r : R) (prior : gmm) (m : gmm) : R :=
  - (r / 2) * rsum (map (fun t : (list R * list R) * list R =>
                           rsum (V.map3 (fun mu mu0 v => (mu - mu0) * (mu - mu0) / v) (fst (fst t)) (snd (fst t)) (snd t)))
                        (combine (combine (mus m) (mus prior)) (vars m))).
Definition map_objective (r : R) (prior : gmm) (m : gmm) (X : list (list R)) : R :=
  rsum (map (ll m) X) + map_penalty r prior m.

Definition means_only : switches := {| upd_means := true; upd_vars := false; upd_ws := false |}.

(* ------------------------------------------------------------ Jensen bound, components indexed by any list *)
Lemma em_sample_bound_gen {A} (m m' : gmm) (L : list A) (p q : A -> comp) (x : list R) :
  L <> [] -> comps m = map p L -> comps m' = map q L ->
  rsum (map (fun a => resp m x (p a) * (lwl (q a) x - lwl (p a) x)) L) <= ll m' x - ll m x.
Proof.
  intros HL Hm Hm'.
  assert (Hne : comps m <> []) by (rewrite Hm; destruct L; simpl; congruence).
  assert (Hne' : comps m' <> []) by (rewrite Hm'; destruct L; simpl; congruence).
  set (ab := map (fun a => ((lwl (p a) x : R), (lwl (q a) x : R))) L : list (R*R)).
  assert (Hab : ab <> []) by (unfold ab; destruct L; simpl; congruence).
  assert (Efst : map fst ab = lwls m x) by (unfold ab, lwls; rewrite Hm, !map_map; reflexivity).
  assert (Esnd : map snd ab = lwls m' x) by (unfold ab, lwls; rewrite Hm', !map_map; reflexivity).
  pose proof (lse_lower_bound ab Hab) as K. unfold InstR.T in *. rewrite Efst, Esnd in K.
  rewrite (lwl_lse m x Hne), (lwl_lse m' x Hne'). fold (sexp (lwls m x)) (sexp (lwls m' x)).
  eapply Rle_trans; [|exact K]. right. unfold gain. rewrite Efst. unfold ab. rewrite map_map. cbn [fst snd].
  apply rsum_map_ext. intros c _. f_equal.
  unfold resp, rresp. unfold_R. rewrite <- (ll_exp_pos m x Hne). unfold Rminus, Rdiv. now rewrite exp_plus, exp_Ropp.
Qed.

Lemma rsum_pen_le {A} (k : R) (f g h j : A -> R) l :
  (forall x, In x l -> f x - k * g x <= h x - k * j x) ->
  rsum (map f l) - k * rsum (map g l) <= rsum (map h l) - k * rsum (map j l).
Proof.
  intros H. induction l as [|a l IH]; cbn [map rsum]; [lra|].
  assert (H0 : f a - k * g a <= h a - k * j a) by (apply H; now left).
  assert (H1 : rsum (map f l) - k * rsum (map g l) <= rsum (map h l) - k * rsum (map j l)) by (apply IH; intros; apply H; now right).
  lra.
Qed.

(* ------------------------------------------------------------ one (component, feature) cell *)
Lemma map_cell n s1 s2 mu mu0 v r : 0 < n -> 0 < r -> 0 < v ->
  qcell n s1 s2 mu v - r / 2 * ((mu - mu0) * (mu - mu0) / v)
  <= qcell n s1 s2 (blend (n / (n + r)) (s1 / n) mu0) v
     - r / 2 * ((blend (n / (n + r)) (s1 / n) mu0 - mu0) * (blend (n / (n + r)) (s1 / n) mu0 - mu0) / v).
Proof.
  intros Hn Hr Hv. set (mu' := blend (n / (n + r)) (s1 / n) mu0).
  assert (E : (qcell n s1 s2 mu' v - r / 2 * ((mu' - mu0) * (mu' - mu0) / v))
              - (qcell n s1 s2 mu v - r / 2 * ((mu - mu0) * (mu - mu0) / v))
              = (n + r) / (2 * v) * ((mu - mu') * (mu - mu'))).
  { unfold mu', qcell, blend. field. lra. }
  assert (0 <= (n + r) / (2 * v) * ((mu - mu') * (mu - mu'))).
  { apply Rmult_le_pos. left. apply Rdiv_lt_0_compat; lra. apply Rle_0_sqr. }
  lra.
Qed.

(* ------------------------------------------------------------ one component with its prior mean *)
Definition pcomp := (comp * list R)%type.
Definition pen1 (mu mu0 v : list R) : R := rsum (V.map3 (fun a b c => (a - b) * (a - b) / c) mu mu0 v).
Definition map_mu (r : R) (nf : nat) (m : gmm) (X : list (list R)) (a : pcomp) : list R :=
  V.map2 (fun s p => blend (rN m X (fst a) / (rN m X (fst a) + r)) (s / rN m X (fst a)) p) (rS1 nf m X (fst a)) (snd a).
Definition map_newc (r : R) (nf : nat) (m : gmm) (X : list (list R)) (a : pcomp) : comp :=
  (fst (fst (fst a)), map_mu r nf m X a, snd (fst a)).

Lemma pen1_seq nf (mu mu0 v : list R) : length mu = nf -> length mu0 = nf -> length v = nf ->
  pen1 mu mu0 v = rsum (map (fun d => (nth d mu 0 - nth d mu0 0) * (nth d mu 0 - nth d mu0 0) / nth d v 0) (seq 0 nf)).
Proof. intros H1 H2 H3. unfold pen1. rewrite (map3_seq _ mu mu0 v nf 0 0 0 H1 H2 H3). reflexivity. Qed.

Lemma len_map_mu r nf m X (a : pcomp) : rows_ok nf X -> length (snd a) = nf -> length (map_mu r nf m X a) = nf.
Proof. intros HX Hl. unfold map_mu. rewrite len_map2, len_rS1 by assumption. rewrite Hl. apply Nat.min_id. Qed.

Lemma nth_map_mu r nf m X (a : pcomp) d : rows_ok nf X -> length (snd a) = nf -> (d < nf)%nat ->
  nth d (map_mu r nf m X a) 0
  = blend (rN m X (fst a) / (rN m X (fst a) + r)) (S1d m X (fst a) d / rN m X (fst a)) (nth d (snd a) 0).
Proof.
  intros HX Hl Hd. unfold map_mu.
  etransitivity; [apply (nth_map2 _ _ _ d 0 0 0); rewrite ?len_rS1 by assumption; lia|].
  rewrite nth_rS1 by assumption. reflexivity.
Qed.

Lemma map_newc_wf r nf m X (a : pcomp) : rows_ok nf X -> wf_comp nf (fst a) -> length (snd a) = nf ->
  wf_comp nf (map_newc r nf m X a).
Proof.
  intros HX Hwa Hla. pose proof (len_map_mu r nf m X a HX Hla) as Hl'.
  destruct a as [[[w mu] v] mu0]. unfold map_newc. cbn [fst snd] in *.
  destruct Hwa as (Hw & Hmu & Hv & Hvp). repeat split; assumption.
Qed.

Lemma F_closed_c nf m X c (c' : comp) : rows_ok nf X -> wf_comp nf c' ->
  rsum (map (fun x => resp m x c * lwl c' x) X) = rN m X c * ln (fst (fst c')) + Gq nf m X c (snd (fst c')) (snd c').
Proof.
  destruct c' as [[w mu] v]. intros HX (Hw & Hmu & Hv & Hvp). cbn [fst snd]. apply F_closed; assumption.
Qed.

Lemma map_comp_improve r nf m X (a : pcomp) : X <> [] -> rows_ok nf X -> 0 < r ->
  wf_comp nf (fst a) -> length (snd a) = nf ->
  Gq nf m X (fst a) (snd (fst (fst a))) (snd (fst a)) - r / 2 * pen1 (snd (fst (fst a))) (snd a) (snd (fst a))
  <= Gq nf m X (fst a) (map_mu r nf m X a) (snd (fst a)) - r / 2 * pen1 (map_mu r nf m X a) (snd a) (snd (fst a)).
Proof.
  intros HX Hrows Hr Hwf Hl0.
  pose proof (len_map_mu r nf m X a Hrows Hl0) as Hl'.
  destruct a as [[[w mu] v] mu0]. cbn [fst snd] in *. destruct Hwf as (Hw & Hmu & Hv & Hvp).
  rewrite (pen1_seq nf mu mu0 v Hmu Hl0 Hv), (pen1_seq nf _ mu0 v Hl' Hl0 Hv).
  unfold Gq. apply rsum_pen_le. intros d Hd. apply in_seq in Hd.
  match goal with |- context [nth d (map_mu r nf m X ?a) 0] =>
    pose proof (nth_map_mu r nf m X a d Hrows Hl0 ltac:(lia)) as En end.
  cbn [fst snd] in En. rewrite En.
  apply map_cell.
  - now apply rN_pos.
  - exact Hr.
  - apply Forall_nth_lt; [assumption|unfold InstR.T in *; lia].
Qed.

(* ------------------------------------------------------------ the means-only MAP M-step, component by component *)
Lemma map_step_struct sq eps r al nf X prior mc :
  length (ws (g mc)) = length (mus (g mc)) -> length (ws (g mc)) = length (vars (g mc)) ->
  length (mus prior) = length (ws (g mc)) ->
  Forall (fun n => eps <= n) (s_n (e_step nf (g mc) X)) ->
  let L := combine (comps (g mc)) (mus prior) in
  let m' := g (map_m_step sq means_only eps (Some r) al prior (e_step nf (g mc) X) mc) in
  comps (g mc) = map fst L /\ mus prior = map snd L /\
  ws m' = ws (g mc) /\ vars m' = vars (g mc) /\ mus m' = map (map_mu r nf (g mc) X) L.
Proof.
  intros H1 H2 H3 Hn L m'.
  assert (Hlc : length (comps (g mc)) = length (mus prior)).
  { unfold comps. etransitivity; [apply combine_length|].
    etransitivity; [apply (f_equal2 Nat.min); [apply combine_length|reflexivity]|]. unfold InstR.T in *. lia. }
  assert (Ec : comps (g mc) = map fst L) by (symmetry; apply map_fst_combine; exact Hlc).
  assert (Ep : mus prior = map snd L) by (symmetry; apply map_snd_combine; exact Hlc).
  split; [exact Ec|]. split; [exact Ep|]. split; [reflexivity|]. split; [reflexivity|].
  subst m'. unfold map_m_step. cbn [means_only upd_ws upd_means upd_vars set_mus g mus].
  unfold map_alpha.
  change (s_n (e_step nf (g mc) X)) with (map (rN (g mc) X) (comps (g mc))) in *.
  change (s_px (e_step nf (g mc) X)) with (map (rS1 nf (g mc) X) (comps (g mc))).
  clearbody L. rewrite Ec in Hn. rewrite Forall_forall in Hn.
  rewrite Ep, Ec, !map_map, combine_map_same, map3_map_same.
  apply map_ext_in. intros a Hin. cbn [fst snd].
  rewrite (map_means_blend eps _ _ _ _ (Hn _ (in_map (rN (g mc) X) _ _ (in_map fst L a Hin)))). reflexivity.
Qed.

Theorem map_means_only_monotone (sq : bool) (eps r al : R) (nf : nat) (X : list (list R)) (prior : gmm) (mc : machine) :
  X <> [] -> rows_ok nf X -> wf_gmm nf (g mc) -> 0 < r -> 0 < eps ->
  length (ws (g mc)) = length (mus (g mc)) -> length (ws (g mc)) = length (vars (g mc)) ->
  length (mus prior) = length (ws (g mc)) -> Forall (fun mu0 => length mu0 = nf) (mus prior) ->
  let st := e_step nf (g mc) X in
  Forall (fun n => eps <= n) (s_n st) ->
  let mc' := map_m_step sq means_only eps (Some r) al prior st mc in
  wf_gmm nf (g mc') /\ map_objective r prior (g mc) X <= map_objective r prior (g mc') X.
Proof.
  intros HX Hrows Hwf Hr Heps Hl1 Hl2 Hl3 Hp0 st Hn mc'.
  pose proof (map_step_struct sq eps r al nf X prior mc Hl1 Hl2 Hl3 Hn) as S. cbv zeta in S.
  destruct S as (Ec & Ep & Ew0 & Ev0 & Emu0).
  assert (Ew' : ws (g mc') = ws (g mc)) by exact Ew0.
  assert (Ev' : vars (g mc') = vars (g mc)) by exact Ev0.
  assert (Emu' : mus (g mc') = map (map_mu r nf (g mc) X) (combine (comps (g mc)) (mus prior))) by exact Emu0.
  clear Ew0 Ev0 Emu0.
  destruct (comps_fields (g mc) Hl1 Hl2) as (Ew & Emu & Ev).
  set (m' := g mc') in *. set (m := g mc) in *.
  clearbody m'. clear Hn.
  destruct Hwf as [Hne Hall]. rewrite Forall_forall in Hall. rewrite Forall_forall in Hp0.
  assert (HL : forall a : pcomp, In a (combine (comps m) (mus prior)) -> wf_comp nf (fst a) /\ length (snd a) = nf).
  { intros [c mu0] Hin. cbn [fst snd]. split.
    - apply Hall. eapply in_combine_l; exact Hin.
    - apply Hp0. eapply in_combine_r; exact Hin. }
  set (L := combine (comps m) (mus prior)) in *. clearbody L.
  assert (HLne : L <> []) by (intros E; apply Hne; rewrite Ec, E; reflexivity).
  assert (Hcs' : comps m' = map (map_newc r nf m X) L).
  { unfold comps at 1. rewrite Ew', Ev', Emu', Ew, Ev, Ec, !map_map, !combine_map_same. reflexivity. }
  split.
  - (* well-formedness *)
    split. rewrite Hcs'. destruct L; simpl; congruence.
    rewrite Hcs', Forall_map. apply Forall_forall. intros a Hin. destruct (HL a Hin) as [Hwa Hla].
    now apply map_newc_wf.
  - (* monotonicity *)
    assert (P0 : map_penalty r prior m = - (r / 2) * rsum (map (fun a : pcomp => pen1 (snd (fst (fst a))) (snd a) (snd (fst a))) L)).
    { unfold map_penalty. f_equal. rewrite Emu, Ev, Ep, Ec, !map_map, !combine_map_same, map_map. reflexivity. }
    assert (P1 : map_penalty r prior m' = - (r / 2) * rsum (map (fun a : pcomp => pen1 (map_mu r nf m X a) (snd a) (snd (fst a))) L)).
    { unfold map_penalty. f_equal. rewrite Emu', Ev', Ev, Ep, Ec, !map_map, !combine_map_same, map_map. reflexivity. }
    unfold map_objective. rewrite P0, P1.
    set (D := rsum (map (fun x => rsum (map (fun a : pcomp => resp m x (fst a) * (lwl (map_newc r nf m X a) x - lwl (fst a) x)) L)) X)).
    assert (K1 : D <= rsum (map (ll m') X) - rsum (map (ll m) X)).
    { rewrite <- rsum_map_sub. unfold D. apply rsum_le. intros x _.
      exact (em_sample_bound_gen m m' L fst (map_newc r nf m X) x HLne Ec Hcs'). }
    assert (K2 : D = rsum (map (fun a : pcomp => Gq nf m X (fst a) (map_mu r nf m X a) (snd (fst a))) L)
                     - rsum (map (fun a : pcomp => Gq nf m X (fst a) (snd (fst (fst a))) (snd (fst a))) L)).
    { unfold D. rewrite (rsum_swap (fun x (a : pcomp) => resp m x (fst a) * (lwl (map_newc r nf m X a) x - lwl (fst a) x)) X L).
      rewrite <- rsum_map_sub. apply rsum_map_ext. intros a Hin. destruct (HL a Hin) as [Hwa Hla].
      rewrite (rsum_map_ext _ (fun x => resp m x (fst a) * lwl (map_newc r nf m X a) x - resp m x (fst a) * lwl (fst a) x)) by (intros; ring).
      rewrite rsum_map_sub.
      rewrite (F_closed_c nf m X (fst a) (map_newc r nf m X a) Hrows (map_newc_wf r nf m X a Hrows Hwa Hla)).
      rewrite (F_closed_c nf m X (fst a) (fst a) Hrows Hwa).
      unfold map_newc. cbn [fst snd]. ring. }
    assert (K3 : rsum (map (fun a : pcomp => Gq nf m X (fst a) (snd (fst (fst a))) (snd (fst a))) L)
                 - r / 2 * rsum (map (fun a : pcomp => pen1 (snd (fst (fst a))) (snd a) (snd (fst a))) L)
                 <= rsum (map (fun a : pcomp => Gq nf m X (fst a) (map_mu r nf m X a) (snd (fst a))) L)
                    - r / 2 * rsum (map (fun a : pcomp => pen1 (map_mu r nf m X a) (snd a) (snd (fst a))) L)).
    { apply rsum_pen_le. intros a Hin. destruct (HL a Hin) as [Hwa Hla]. now apply map_comp_improve. }
    lra.
Qed.

Print Assumptions map_means_only_monotone.
