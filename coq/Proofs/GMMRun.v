(* C03: a whole maximum-likelihood training run never lowers the average training log-likelihood: along the run the reported
   values (each is the average log-likelihood of the parameters ENTERING that iteration) never decrease from one iteration to the
   next, and the returned model scores at or above every reported value - for any subset of updated parameters, as long as no
   variance floor or count floor is active at any iteration of the run (the property's own proviso).
   *)
From Coq Require Import Reals Lra List Lia Bool Arith.
From BLE Require Import Num.Scalar Num.InstR Lib.Vec Model.GMM Proofs.RLemmas Proofs.GMMLik Proofs.GMMStats Proofs.GMMEM Proofs.GMMFit.
Import ListNotations.
Open Scope R_scope.
Import MR.

(* no floor is active at any of the next n iterations starting from mc *)
Fixpoint inactive_along (sw : switches) (eps : R) (nf : nat) (X : list (list R)) (n : nat) (mc : machine) : Prop :=
  match n with
  | O => True
  | S k => floors_inactive sw eps (e_step nf (g mc) X) mc
           /\ inactive_along sw eps nf X k (ml_m_step sw eps (e_step nf (g mc) X) mc)
  end.

(* what an iteration reports is the average log-likelihood of the model it starts from *)
Theorem reported_is_avg_ll (sw : switches) (eps : R) (nf : nat) (X : list (list R)) (mc mc1 : machine) (cur : R) :
  X <> [] -> em_iter ML sw eps nf [X] mc = Some (mc1, cur) ->
  mc1 = ml_m_step sw eps (e_step nf (g mc) X) mc /\ cur = avg_ll (g mc) X.
Proof.
  intros _ H. unfold em_iter in H. cbn [map stats_reduce] in H. inversion H; subst. clear H.
  split; [reflexivity|].
  unfold avg_ll. cbn [e_step s_ll s_t]. vs. unfold_R. reflexivity.
Qed.

(* one M-step keeps the three parameter lists equally long *)
Lemma m_step_lengths (sw : switches) (eps : R) (nf : nat) (X : list (list R)) (mc : machine) :
  length (ws (g mc)) = length (mus (g mc)) -> length (ws (g mc)) = length (vars (g mc)) ->
  floors_inactive sw eps (e_step nf (g mc) X) mc ->
  let m' := g (ml_m_step sw eps (e_step nf (g mc) X) mc) in
  length (ws m') = length (mus m') /\ length (ws m') = length (vars m').
Proof.
  intros H1 H2 Hfl. destruct (m_step_struct sw eps nf X mc H1 H2 Hfl) as (Ew & Emu & Ev).
  cbv zeta in *. rewrite Ew, Emu, Ev, !map_length. split; reflexivity.
Qed.


Theorem ml_run_monotone (sw : switches) (eps : R) (nf : nat) (X : list (list R)) :
  X <> [] -> GMMStats.rows_ok nf X -> 0 < eps ->
  forall (n : nat) (mc mc' : machine) (hist : list R),
    wf_gmm nf (g mc) -> rsum (ws (g mc)) = 1 ->
    length (ws (g mc)) = length (mus (g mc)) -> length (ws (g mc)) = length (vars (g mc)) ->
    inactive_along sw eps nf X n mc ->
    iterate ML sw eps nf [X] n mc = Some (mc', hist) ->
    length hist = n
    /\ wf_gmm nf (g mc') /\ rsum (ws (g mc')) = 1
    /\ (forall i, (S i < n)%nat -> nth (S i) hist 0 <= nth i hist 0)              (* most recent first *)
    /\ (forall i, (i < n)%nat -> nth i hist 0 <= avg_ll (g mc') X)
    /\ ((0 < n)%nat -> nth (n - 1) hist 0 = avg_ll (g mc) X).
Proof.
  intros HXne HX Heps.
  induction n as [|n IH]; intros mc mc' hist Hwf Hsum Hl1 Hl2 Hin Hit; cbn [iterate] in Hit.
  - inversion Hit; subst. simpl. split; [reflexivity|]. split; [exact Hwf|]. split; [exact Hsum|].
    repeat split; intros; lia.
  - destruct (em_iter ML sw eps nf [X] mc) as [[c1 cur]|] eqn:E; [|discriminate].
    destruct (iterate ML sw eps nf [X] n c1) as [[c2 h]|] eqn:E2; [|discriminate].
    inversion Hit; subst c2 hist. clear Hit.
    destruct (reported_is_avg_ll sw eps nf X mc c1 cur HXne E) as (Ec1 & Hcur).
    cbn [inactive_along] in Hin. destruct Hin as (Hfl & Hin1). rewrite <- Ec1 in Hin1.
    destruct (em_monotone_ml sw eps nf X mc HXne HX Hwf Hsum Heps Hl1 Hl2 Hfl) as (Hwf1 & Hsum1 & Hup).
    destruct (m_step_lengths sw eps nf X mc Hl1 Hl2 Hfl) as (Hl1' & Hl2').
    cbv zeta in Hl1', Hl2'. rewrite <- Ec1 in Hwf1, Hsum1, Hup, Hl1', Hl2'.
    destruct (IH c1 mc' h Hwf1 Hsum1 Hl1' Hl2' Hin1 E2) as (Hl & Hwf' & Hsum' & Hmono & Hret & Hlast).
    assert (Hcurn : nth n (h ++ [cur]) 0 = cur).
    { rewrite app_nth2 by lia. rewrite Hl, Nat.sub_diag. reflexivity. }
    assert (Hret' : cur <= avg_ll (g mc') X).
    { rewrite Hcur. destruct n as [|m].
      - simpl in E2. inversion E2; subst. exact Hup.
      - eapply Rle_trans; [exact Hup|].
        specialize (Hlast ltac:(lia)). replace (S m - 1)%nat with m in Hlast by lia.
        rewrite <- Hlast. apply (Hret m); lia. }
    split; [rewrite app_length; simpl; lia|]. split; [exact Hwf'|]. split; [exact Hsum'|]. split; [|split].
    + intros i Hi. destruct (Nat.eq_dec (S i) n) as [En|En].
      * rewrite <- En in Hcurn. rewrite Hcurn. rewrite app_nth1 by lia.
        specialize (Hlast ltac:(lia)). replace (n - 1)%nat with i in Hlast by lia.
        rewrite Hlast, Hcur. exact Hup.
      * rewrite !app_nth1 by lia. apply Hmono. lia.
    + intros i Hi. destruct (Nat.eq_dec i n) as [En|En].
      * subst i. rewrite Hcurn. exact Hret'.
      * rewrite app_nth1 by lia. apply Hret. lia.
    + intros _. replace (S n - 1)%nat with n by lia. rewrite Hcurn. exact Hcur.
Qed.

(* the same for the training entry point, whatever the threshold and the cap *)
Theorem ml_fit_monotone (sw : switches) (eps : R) (cthr : option R) (nf cap : nat) (X : list (list R)) (mc mc' : machine) (n : nat) (hist : list R) :
  X <> [] -> GMMStats.rows_ok nf X -> 0 < eps ->
  wf_gmm nf (g mc) -> rsum (ws (g mc)) = 1 ->
  length (ws (g mc)) = length (mus (g mc)) -> length (ws (g mc)) = length (vars (g mc)) ->
  fit cap ML sw eps cthr nf [X] mc = Some (mc', n, hist) ->
  inactive_along sw eps nf X n mc ->
  (forall i, (S i < n)%nat -> nth (S i) hist 0 <= nth i hist 0)
  /\ (forall i, (i < n)%nat -> nth i hist 0 <= avg_ll (g mc') X)
  /\ wf_gmm nf (g mc').
Proof.
  intros HXne HX Heps Hwf Hsum Hl1 Hl2 Hfit Hin.
  destruct (fit_iterations ML sw eps cthr nf [X] cap mc mc' n hist Hfit) as (_ & Hit & _).
  destruct (ml_run_monotone sw eps nf X HXne HX Heps n mc mc' hist Hwf Hsum Hl1 Hl2 Hin Hit)
    as (_ & Hwf' & _ & H1 & H2 & _).
  split; [exact H1|]. split; [exact H2|exact Hwf'].
Qed.

