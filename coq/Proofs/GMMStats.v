(* C02: statistics are responsibility-weighted moments, additive over any split. *)
From Coq Require Import Reals Lra List Lia Permutation Bool Arith.
From BLE Require Import Num.Scalar Num.InstR Lib.Vec Model.GMM Proofs.RLemmas Proofs.GMMLik.
Import ListNotations.
Open Scope R_scope.
Import MR.

(* ------------------------------------------------------------ responsibilities *)
Lemma resp_pos m x c : 0 < resp m x c.
Proof. unfold resp. unfold_R. apply exp_pos. Qed.

Lemma resp_sum_one m x : comps m <> [] -> rsum (map (resp m x) (comps m)) = 1.
Proof.
  intros Hne. unfold resp. unfold_R.
  assert (E : forall c, exp (lwl c x - ll m x) = exp (lwl c x) * / exp (ll m x)).
  { intros c. unfold Rminus. rewrite exp_plus, exp_Ropp. reflexivity. }
  rewrite (rsum_map_ext _ (fun c => exp (lwl c x) * / exp (ll m x))) by (intros; apply E).
  rewrite rsum_map_scal_r. rewrite ll_exp_pos by assumption.
  assert (Hp : 0 < sexp (lwls m x)) by (apply sexp_pos; unfold lwls; destruct (comps m); simpl; congruence).
  unfold sexp, lwls in *. rewrite map_map in *. apply Rinv_r. lra.
Qed.

(* ------------------------------------------------------------ vector-sum helpers at MR.V *)

Lemma Vvadd_length a b : length a = length b -> length (V.vadd a b) = length a.
Proof. unfold V.vadd. revert b; induction a as [|x a IH]; intros [|y b] H; simpl in *; try discriminate; auto. Qed.
Lemma Vvadd_comm a b : V.vadd a b = V.vadd b a.
Proof. unfold V.vadd. revert b; induction a as [|x a IH]; intros [|y b]; simpl; try reflexivity. rewrite IH. f_equal. unfold InstR.add. ring. Qed.
Lemma Vvadd_assoc a b c : V.vadd a (V.vadd b c) = V.vadd (V.vadd a b) c.
Proof. unfold V.vadd. revert b c; induction a as [|x a IH]; intros [|y b] [|z c]; simpl; try reflexivity. rewrite IH. f_equal. unfold InstR.add. ring. Qed.
Lemma Vvadd_zero_l n a : length a = n -> V.vadd (V.vzero n) a = a.
Proof. unfold V.vadd, V.vzero. revert a; induction n as [|n IH]; intros [|x a] H; simpl in *; try discriminate; auto. rewrite IH by lia. f_equal. unfold InstR.add, InstR.zero. ring. Qed.
Lemma Vvzero_length n : length (V.vzero n) = n.
Proof. apply repeat_length. Qed.
Lemma Vvsumv_length d l : Forall (fun v => length v = d) l -> length (V.vsumv d l) = d.
Proof. induction 1; simpl. apply Vvzero_length. rewrite Vvadd_length; auto. now rewrite IHForall. Qed.
Lemma Vvsumv_app d a b : Forall (fun v => length v = d) a -> Forall (fun v => length v = d) b ->
  V.vsumv d (a ++ b) = V.vadd (V.vsumv d a) (V.vsumv d b).
Proof.
  intros Ha Hb. induction Ha as [|x a Hx Ha IH]; simpl.
  - rewrite Vvadd_zero_l; auto. now apply Vvsumv_length.
  - rewrite IH. apply Vvadd_assoc.
Qed.
Lemma Vvsumv_perm d a b : Permutation a b -> V.vsumv d a = V.vsumv d b.
Proof.
  induction 1; simpl; auto.
  - now rewrite IHPermutation.
  - rewrite !Vvadd_assoc. f_equal. apply Vvadd_comm.
  - congruence.
Qed.
Lemma rsum_perm a b : Permutation a b -> rsum a = rsum b.
Proof. induction 1; simpl; lra. Qed.
Lemma vadd_map {A} (f g : A -> R) l : V.vadd (map f l) (map g l) = map (fun c => f c + g c) l.
Proof. unfold V.vadd. induction l; simpl; auto. now rewrite IHl. Qed.
Lemma madd_map {A} (f g : A -> list R) l : V.madd (map f l) (map g l) = map (fun c => V.vadd (f c) (g c)) l.
Proof. unfold V.madd. induction l; simpl; auto. now rewrite IHl. Qed.
Lemma vscale_length k v : length (V.vscale k v) = length v.
Proof. unfold V.vscale. apply map_length. Qed.
Lemma vmul_length a b : length a = length b -> length (V.vmul a b) = length a.
Proof. unfold V.vmul. revert b; induction a as [|x a IH]; intros [|y b] H; simpl in *; try discriminate; auto. Qed.

(* ------------------------------------------------------------ the statistics *)
Definition rows_ok (nf : nat) (X : list (list R)) := Forall (fun x => length x = nf) X.

Theorem n_sum_is_t nf m X : comps m <> [] -> rsum (s_n (e_step nf m X)) = INR (s_t (e_step nf m X)).
Proof.
  intros Hne. cbn [e_step s_n s_t]. vs. unfold InstR.T in *.
  etransitivity; [exact (rsum_swap (fun c x => resp m x c) (comps m) X)|]. cbv beta.
  rewrite (rsum_map_ext _ (fun _ => 1)) by (intros; now apply resp_sum_one).
  induction X; cbn [map rsum length]. reflexivity. rewrite S_INR. lra.
Qed.

Theorem n_nonneg nf m X : Forall (fun n => 0 <= n) (s_n (e_step nf m X)).
Proof.
  cbn [e_step s_n]. rewrite Forall_map. apply Forall_forall. intros c _. vs.
  apply rsum_nonneg. rewrite Forall_map. apply Forall_forall. intros x _. left. apply resp_pos.
Qed.

(* explicit moments, field by field (the definition of the model restated against rsum) *)
Theorem e_step_moments nf m X :
  s_t (e_step nf m X) = length X
  /\ s_n (e_step nf m X) = map (fun c => rsum (map (fun x => resp m x c) X)) (comps m)
  /\ s_px (e_step nf m X) = map (fun c => V.vsumv nf (map (fun x => V.vscale (resp m x c) x) X)) (comps m)
  /\ s_pxx (e_step nf m X) = map (fun c => V.vsumv nf (map (fun x => V.vmul (V.vscale (resp m x c) x) x) X)) (comps m)
  /\ s_ll (e_step nf m X) = rsum (map (ll m) X).
Proof. repeat split. Qed.

Theorem e_step_app nf m X1 X2 : rows_ok nf X1 -> rows_ok nf X2 ->
  stats_add (e_step nf m X1) (e_step nf m X2) = Some (e_step nf m (X1 ++ X2)).
Proof.
  intros H1 H2. unfold stats_add. cbn [e_step s_ng s_nf s_t s_n s_px s_pxx s_ll]. rewrite !Nat.eqb_refl. cbn [andb].
  f_equal. unfold e_step. f_equal.
  - now rewrite app_length.
  - rewrite vadd_map. apply map_ext. intros c. vs. now rewrite map_app, rsum_app.
  - rewrite madd_map. apply map_ext. intros c. rewrite map_app, Vvsumv_app; auto.
    + rewrite Forall_map. eapply Forall_impl; [|exact H1]. intros x Hx. now rewrite vscale_length.
    + rewrite Forall_map. eapply Forall_impl; [|exact H2]. intros x Hx. now rewrite vscale_length.
  - rewrite madd_map. apply map_ext. intros c. rewrite map_app, Vvsumv_app; auto.
    + rewrite Forall_map. eapply Forall_impl; [|exact H1]. intros x Hx. rewrite vmul_length; now rewrite vscale_length.
    + rewrite Forall_map. eapply Forall_impl; [|exact H2]. intros x Hx. rewrite vmul_length; now rewrite vscale_length.
  - vs. unfold_R. now rewrite map_app, rsum_app.
Qed.

(* every composition of the rows into consecutive blocks: reduce(iadd) over the per-block statistics
   is the statistics of the whole *)
Theorem e_step_concat nf m B0 Bs : rows_ok nf B0 -> Forall (rows_ok nf) Bs ->
  stats_reduce (e_step nf m B0) (map (e_step nf m) Bs) = Some (e_step nf m (concat (B0 :: Bs))).
Proof.
  intros H0 H. revert B0 H0. induction H as [|B Bs HB HBs IH]; intros B0 H0; cbn [map stats_reduce concat].
  - now rewrite app_nil_r.
  - rewrite e_step_app by assumption. rewrite IH.
    + cbn [concat]. now rewrite app_assoc.
    + unfold rows_ok in *. apply Forall_app; split; assumption.
Qed.

(* arbitrary (non-consecutive) blocks: the statistics only depend on the multiset of rows *)
Theorem e_step_perm nf m X X' : Permutation X X' -> e_step nf m X = e_step nf m X'.
Proof.
  intros P. unfold e_step. f_equal.
  - now apply Permutation_length.
  - apply map_ext. intros c. vs. apply rsum_perm. now apply Permutation_map.
  - apply map_ext. intros c. apply Vvsumv_perm. now apply Permutation_map.
  - apply map_ext. intros c. apply Vvsumv_perm. now apply Permutation_map.
  - vs. apply rsum_perm. now apply Permutation_map.
Qed.

(* addition: refusal exactly on declared-shape mismatch; commutative; associative *)
Theorem stats_add_refuses a b : stats_add a b = None <-> (s_ng a <> s_ng b \/ s_nf a <> s_nf b).
Proof.
  unfold stats_add. destruct (Nat.eqb_spec (s_ng a) (s_ng b)); destruct (Nat.eqb_spec (s_nf a) (s_nf b)); cbn [andb];
    split; intros H; try discriminate; try tauto; destruct H; contradiction.
Qed.
Lemma Vmadd_comm a b : V.madd a b = V.madd b a.
Proof. unfold V.madd. revert b; induction a as [|x a IH]; intros [|y b]; simpl; try reflexivity. rewrite IH. f_equal. apply Vvadd_comm. Qed.
Lemma Vmadd_assoc a b c : V.madd a (V.madd b c) = V.madd (V.madd a b) c.
Proof. unfold V.madd. revert b c; induction a as [|x a IH]; intros [|y b] [|z c]; simpl; try reflexivity. rewrite IH. f_equal. apply Vvadd_assoc. Qed.
Theorem stats_add_comm a b : stats_add a b = stats_add b a.
Proof.
  unfold stats_add. rewrite (Nat.eqb_sym (s_ng b)), (Nat.eqb_sym (s_nf b)).
  destruct (Nat.eqb_spec (s_ng a) (s_ng b)) as [E1|]; destruct (Nat.eqb_spec (s_nf a) (s_nf b)) as [E2|]; cbn [andb]; auto.
  f_equal. rewrite E1, E2. f_equal; try lia; try apply Vvadd_comm; try apply Vmadd_comm. unfold_R. ring.
Qed.
Definition obind {A B} (o : option A) (f : A -> option B) := match o with Some a => f a | None => None end.
Theorem stats_add_assoc a b c :
  obind (stats_add b c) (stats_add a) = obind (stats_add a b) (fun ab => stats_add ab c).
Proof.
  unfold stats_add, obind.
  destruct (Nat.eqb_spec (s_ng b) (s_ng c)) as [E1|N1]; destruct (Nat.eqb_spec (s_nf b) (s_nf c)) as [E2|N2];
  destruct (Nat.eqb_spec (s_ng a) (s_ng b)) as [E3|N3]; destruct (Nat.eqb_spec (s_nf a) (s_nf b)) as [E4|N4]; cbn [andb s_ng s_nf s_t s_n s_px s_pxx s_ll];
  repeat match goal with |- context [Nat.eqb ?x ?y] => destruct (Nat.eqb_spec x y) end; cbn [andb]; try congruence.
  f_equal. f_equal; try lia; try apply Vvadd_assoc; try apply Vmadd_assoc. unfold_R. ring.
Qed.

Example e_step_example_rows : rows_ok 2 [[1; 2]; [3; 4]].
Proof. repeat constructor. Qed.
