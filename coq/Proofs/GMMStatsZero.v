(* C02: a fresh (empty) statistics container is the left identity of the addition: accumulating any well-shaped statistics
   into it with += gives exactly those statistics; and an empty block of samples contributes the identity. *)
From Coq Require Import Reals Lra List Lia Bool Arith.
From BLE Require Import Num.Scalar Num.InstR Lib.Vec Model.GMM Proofs.RLemmas Proofs.GMMLik Proofs.GMMStats.
Import ListNotations.
Open Scope R_scope.
Import MR.

Lemma Vmadd_zero_l r c (M : list (list R)) : length M = r -> Forall (fun row => length row = c) M -> V.madd (V.mzero r c) M = M.
Proof.
  unfold V.madd, V.mzero. revert M. induction r as [|r IH]; intros [|row M] HL HR; cbn in *; try discriminate; [reflexivity|].
  pose proof (Forall_inv HR) as Hrow. pose proof (Forall_inv_tail HR) as HR'. f_equal.
  - apply Vvadd_zero_l. exact Hrow.
  - apply IH; [lia|exact HR'].
Qed.

Definition stats_shaped (ng nf : nat) (s : stats) : Prop :=
  s_ng s = ng /\ s_nf s = nf /\ length (s_n s) = ng
  /\ length (s_px s) = ng /\ Forall (fun r => length r = nf) (s_px s)
  /\ length (s_pxx s) = ng /\ Forall (fun r => length r = nf) (s_pxx s).

Theorem zero_stats_left_identity (ng nf : nat) (s : stats) : stats_shaped ng nf s -> stats_add (zero_stats ng nf) s = Some s.
Proof.
  intros (H1 & H2 & H3 & H4 & H5 & H6 & H7). destruct s as [a b t n px pxx l]. cbn [s_ng s_nf s_t s_n s_px s_pxx s_ll] in *.
  subst a b. unfold stats_add, zero_stats. cbn [s_ng s_nf s_t s_n s_px s_pxx s_ll].
  rewrite !Nat.eqb_refl. cbn [andb Nat.add]. f_equal.
  rewrite (Vvadd_zero_l ng n H3), (Vmadd_zero_l ng nf px H4 H5), (Vmadd_zero_l ng nf pxx H6 H7).
  f_equal. unfold InstR.add, InstR.zero. ring.
Qed.

(* the statistics of any block of samples are well-shaped, so they can be accumulated into a fresh container *)
Theorem e_step_shaped (nf : nat) (m : gmm) (X : list (list R)) :
  length (ws m) = length (mus m) -> length (ws m) = length (vars m) -> rows_ok nf X ->
  stats_shaped (length (ws m)) nf (e_step nf m X).
Proof.
  intros L1 L2 HX. unfold stats_shaped, e_step. cbn [s_ng s_nf s_n s_px s_pxx].
  assert (LC : length (comps m) = length (ws m)).
  { unfold comps, comp. rewrite !combine_length. unfold InstR.T in *. lia. }
  repeat split; try (rewrite map_length; exact LC).
  - rewrite Forall_map. apply Forall_forall. intros c _. apply Vvsumv_length. rewrite Forall_map. apply Forall_forall.
    intros x Hx. rewrite vscale_length. unfold rows_ok in HX. rewrite Forall_forall in HX. auto.
  - rewrite Forall_map. apply Forall_forall. intros c _. apply Vvsumv_length. rewrite Forall_map. apply Forall_forall.
    intros x Hx. unfold rows_ok in HX. rewrite Forall_forall in HX. rewrite vmul_length; rewrite vscale_length; auto.
Qed.

Theorem accumulate_into_fresh_container (nf : nat) (m : gmm) (X : list (list R)) :
  length (ws m) = length (mus m) -> length (ws m) = length (vars m) -> rows_ok nf X ->
  stats_add (zero_stats (length (ws m)) nf) (e_step nf m X) = Some (e_step nf m X).
Proof. intros L1 L2 HX. apply zero_stats_left_identity. now apply e_step_shaped. Qed.

(* an empty block contributes the identity *)
Theorem empty_block_contributes_nothing (nf : nat) (m : gmm) (X : list (list R)) : rows_ok nf X ->
  stats_add (e_step nf m []) (e_step nf m X) = Some (e_step nf m X).
Proof. intros HX. exact (e_step_app nf m [] X (Forall_nil _) HX). Qed.
