(* C01 (the "integrates to one" clause): the one-dimensional normalised Gaussian gauss1 . mu v integrates to one over R,
   GIVEN the textbook Gaussian integral  int exp(-t^2/2) dt = sqrt(2 pi)  (which Coquelicot does not provide) as a
   hypothesis of the lemma. *)
From Coq Require Import Reals Lra List Lia.
From Coquelicot Require Import Coquelicot.
From BLE Require Import Num.InstR Model.GMM Proofs.RLemmas Proofs.GMMLik.
Open Scope R_scope.

Definition std_gauss_integral : Prop :=
  is_RInt_gen (fun t => exp (- (t * t) / 2)) (Rbar_locally m_infty) (Rbar_locally p_infty) (sqrt (2 * PI)).

(* proper-interval change of variable t = (x - mu) / sqrt v *)
Lemma gauss1_is_RInt_affine (mu v a b I : R) : 0 < v ->
  is_RInt (fun t => exp (- (t * t) / 2)) ((a - mu) / sqrt v) ((b - mu) / sqrt v) I ->
  is_RInt (fun x => gauss1 x mu v) a b (/ sqrt (2 * PI) * I).
Proof.
  intros Hv HI.
  pose proof PI_RGT_0 as Hpi.
  assert (Hs : 0 < sqrt v) by (apply sqrt_lt_R0; exact Hv).
  assert (Hss : sqrt v * sqrt v = v) by (apply sqrt_sqrt; lra).
  replace ((a - mu) / sqrt v) with (/ sqrt v * a + - mu / sqrt v) in HI by (field; lra).
  replace ((b - mu) / sqrt v) with (/ sqrt v * b + - mu / sqrt v) in HI by (field; lra).
  apply (is_RInt_comp_lin (fun t => exp (- (t * t) / 2))) in HI.
  apply (is_RInt_scal _ _ _ (/ sqrt (2 * PI))) in HI.
  change (scal (/ sqrt (2 * PI)) I) with (/ sqrt (2 * PI) * I) in HI.
  eapply is_RInt_ext; [ | exact HI ].
  intros x _. simpl.
  unfold scal; simpl; unfold mult; simpl.
  unfold gauss1.
  rewrite (sqrt_mult (2 * PI) v) by lra.
  assert (Hs2 : 0 < sqrt (2 * PI)) by (apply sqrt_lt_R0; lra).
  replace (- ((/ sqrt v * x + - mu / sqrt v) * (/ sqrt v * x + - mu / sqrt v)) / 2)
    with (- ((x - mu) * (x - mu)) / (2 * v)).
  - field; lra.
  - rewrite <- Hss at 1. field; lra.
Qed.

(* affine substitution t = (x - mu) / sqrt v *)
Theorem gauss1_integral_partial (mu v : R) : 0 < v -> std_gauss_integral ->
  is_RInt_gen (fun x => gauss1 x mu v) (Rbar_locally m_infty) (Rbar_locally p_infty) 1.
Proof.
  intros Hv H.
  pose proof PI_RGT_0 as Hpi.
  assert (Hs : 0 < sqrt v) by (apply sqrt_lt_R0; exact Hv).
  assert (Hs2 : 0 < sqrt (2 * PI)) by (apply sqrt_lt_R0; lra).
  unfold std_gauss_integral, is_RInt_gen, filterlimi, filter_le, filtermapi in *.
  intros P HP.
  assert (HQ : locally (sqrt (2 * PI)) (fun y => P (/ sqrt (2 * PI) * y))).
  { pose proof (filterlim_scal_r (V := R_NormedModule) (/ sqrt (2 * PI)) (sqrt (2 * PI))) as Hlim.
    apply Hlim.
    assert (E : scal (V := R_NormedModule) (/ sqrt (2 * PI)) (sqrt (2 * PI)) = 1).
    { unfold scal; simpl; unfold mult; simpl. field; lra. }
    rewrite E. exact HP. }
  specialize (H _ HQ).
  destruct H as [Qa Qb [Ma HMa] [Mb HMb] HQab].
  apply (Filter_prod _ _ _ (fun a => Qa ((a - mu) / sqrt v)) (fun b => Qb ((b - mu) / sqrt v))).
  - exists (Ma * sqrt v + mu). intros x Hx. apply HMa.
    apply Rmult_lt_reg_r with (sqrt v); [exact Hs|].
    unfold Rdiv. rewrite Rmult_assoc, Rinv_l by lra. lra.
  - exists (Mb * sqrt v + mu). intros x Hx. apply HMb.
    apply Rmult_lt_reg_r with (sqrt v); [exact Hs|].
    unfold Rdiv. rewrite Rmult_assoc, Rinv_l by lra. lra.
  - intros a b Ha Hb.
    destruct (HQab _ _ Ha Hb) as [y [Hy HPy]]. simpl in Hy.
    exists (/ sqrt (2 * PI) * y). split; [|exact HPy].
    simpl. apply gauss1_is_RInt_affine; assumption.
Qed.

Print Assumptions gauss1_integral_partial.
