(* Auxiliary results for the Gaussian integral  int_{-oo}^{+oo} exp(-t^2/2) dt = sqrt (2 pi)  (Proofs/GaussIntFull.v):
   with g x = int_0^x exp(-t^2) dt and K x = int_0^1 exp(-x^2 (1+t^2)) / (1+t^2) dt, the function g^2 + K is constant = pi/4. *)
From Coq Require Import Reals Lra.
From Coquelicot Require Import Coquelicot.
Open Scope R_scope.

Definition gexp (t : R) : R := exp (- (t * t)).
Definition gg (x : R) : R := RInt gexp 0 x.
Definition gh (x t : R) : R := exp (- (x * x) * (1 + t * t)) / (1 + t * t).
Definition gK (x : R) : R := RInt (gh x) 0 1.
Definition gF (x : R) : R := gg x * gg x + gK x.

Lemma gexp_continuous (t : R) : continuous gexp t.
Proof.
  apply (ex_derive_continuous (K := R_AbsRing) (V := R_NormedModule)).
  unfold gexp. auto_derive. exact I.
Qed.

Lemma gexp_ex_RInt (a b : R) : ex_RInt gexp a b.
Proof. apply (ex_RInt_continuous (V := R_CompleteNormedModule)). intros z _. apply gexp_continuous. Qed.

Lemma gg_is_RInt (x : R) : is_RInt gexp 0 x (gg x).
Proof. apply (RInt_correct (V := R_CompleteNormedModule)). apply gexp_ex_RInt. Qed.

Lemma gg_is_derive (x : R) : is_derive gg x (gexp x).
Proof.
  apply (is_derive_RInt (V := R_NormedModule) gexp gg 0 x).
  - apply filter_forall. intros y. apply gg_is_RInt.
  - apply gexp_continuous.
Qed.

Lemma gg_0 : gg 0 = 0.
Proof. unfold gg. exact (RInt_point (V := R_CompleteNormedModule) 0 gexp). Qed.

Lemma one_tt_pos (t : R) : 0 < 1 + t * t.
Proof. pose proof (Rle_0_sqr t) as H. unfold Rsqr in H. lra. Qed.

Lemma gh_is_derive (x t : R) : is_derive (fun u => gh u t) x (- 2 * x * exp (- (x * x) * (1 + t * t))).
Proof.
  pose proof (one_tt_pos t) as Ht.
  unfold gh. auto_derive.
  - lra.
  - field. lra.
Qed.

Lemma gh_Derive (x t : R) : Derive (fun u => gh u t) x = - 2 * x * exp (- (x * x) * (1 + t * t)).
Proof. apply is_derive_unique. apply gh_is_derive. Qed.

Lemma gh_continuous (x t : R) : continuous (gh x) t.
Proof.
  apply (ex_derive_continuous (K := R_AbsRing) (V := R_NormedModule)).
  pose proof (one_tt_pos t) as Ht.
  unfold gh. auto_derive. lra.
Qed.

Lemma gh_ex_RInt (x a b : R) : ex_RInt (gh x) a b.
Proof. apply (ex_RInt_continuous (V := R_CompleteNormedModule)). intros z _. apply gh_continuous. Qed.

Lemma dgh_cont2 (x t : R) : continuity_2d_pt (fun u v => - 2 * u * exp (- (u * u) * (1 + v * v))) x t.
Proof.
  apply continuity_2d_pt_mult.
  - apply continuity_2d_pt_mult.
    + apply continuity_2d_pt_const.
    + apply continuity_2d_pt_id1.
  - apply (continuity_1d_2d_pt_comp exp).
    + apply derivable_continuous_pt. apply derivable_pt_exp.
    + apply continuity_2d_pt_mult.
      * apply continuity_2d_pt_opp. apply continuity_2d_pt_mult; apply continuity_2d_pt_id1.
      * apply continuity_2d_pt_plus.
        -- apply continuity_2d_pt_const.
        -- apply continuity_2d_pt_mult; apply continuity_2d_pt_id2.
Qed.

Lemma gK_is_derive_raw (x : R) :
  is_derive gK x (RInt (fun t => - 2 * x * exp (- (x * x) * (1 + t * t))) 0 1).
Proof.
  replace (RInt (fun t => - 2 * x * exp (- (x * x) * (1 + t * t))) 0 1)
    with (RInt (fun t => Derive (fun u => gh u t) x) 0 1).
  - apply (is_derive_RInt_param gh 0 1 x).
    + apply filter_forall. intros y t _. eexists. apply gh_is_derive.
    + intros t _.
      apply continuity_2d_pt_ext with (2 := dgh_cont2 x t).
      intros u v. symmetry. apply gh_Derive.
    + apply filter_forall. intros y. apply gh_ex_RInt.
  - apply RInt_ext. intros t _. apply gh_Derive.
Qed.

Lemma dgK_is_RInt (x : R) :
  is_RInt (fun t => - 2 * x * exp (- (x * x) * (1 + t * t))) 0 1 (- 2 * gexp x * gg x).
Proof.
  assert (H : is_RInt gexp (x * 0 + 0) (x * 1 + 0) (gg x)).
  { replace (x * 0 + 0) with 0 by ring. replace (x * 1 + 0) with x by ring. apply gg_is_RInt. }
  apply (is_RInt_comp_lin (V := R_NormedModule) gexp) in H.
  apply (is_RInt_scal (V := R_NormedModule) _ _ _ (- 2 * gexp x)) in H.
  eapply is_RInt_ext; [ | exact H ].
  intros t _. unfold scal; cbn; unfold mult; cbn. unfold gexp.
  replace (- (x * x) * (1 + t * t)) with (- (x * x) + - ((x * t + 0) * (x * t + 0))) by ring.
  rewrite exp_plus. ring.
Qed.

Lemma gK_is_derive (x : R) : is_derive gK x (- 2 * gexp x * gg x).
Proof.
  rewrite <- (is_RInt_unique (V := R_CompleteNormedModule) _ _ _ _ (dgK_is_RInt x)).
  apply gK_is_derive_raw.
Qed.

Lemma gF_is_derive (x : R) : is_derive gF x 0.
Proof.
  unfold gF.
  pose proof (gg_is_derive x) as H1. pose proof (gK_is_derive x) as H2.
  auto_derive.
  - split; [ eexists; exact H1 | ]. split; [ eexists; exact H1 | ]. split; [ eexists; exact H2 | exact I ].
  - replace (Derive (fun x0 : R => gg x0) x) with (gexp x) by (symmetry; apply is_derive_unique; exact H1).
    replace (Derive (fun x0 : R => gK x0) x) with (- 2 * gexp x * gg x) by (symmetry; apply is_derive_unique; exact H2).
    ring.
Qed.

Lemma gF_const (x : R) : gF x = gF 0.
Proof.
  assert (H : is_RInt (fun _ : R => 0) 0 x (minus (gF x) (gF 0))).
  { apply (is_RInt_derive (V := R_CompleteNormedModule) gF (fun _ => 0) 0 x).
    - intros y _. apply gF_is_derive.
    - intros y _. apply continuous_const. }
  pose proof (is_RInt_const (V := R_NormedModule) 0 x 0) as H0.
  pose proof (is_RInt_unique (V := R_CompleteNormedModule) _ _ _ _ H) as E1.
  pose proof (is_RInt_unique (V := R_CompleteNormedModule) _ _ _ _ H0) as E2.
  rewrite E1 in E2. unfold minus, plus, opp, scal in E2; cbn in E2. unfold mult in E2; cbn in E2. lra.
Qed.

Lemma gK_0 : gK 0 = PI / 4.
Proof.
  unfold gK. apply (is_RInt_unique (V := R_CompleteNormedModule)).
  replace (PI / 4) with (minus (atan 1) (atan 0)).
  2:{ rewrite atan_1, atan_0. unfold minus, plus, opp; cbn. lra. }
  apply (is_RInt_derive (V := R_CompleteNormedModule) atan (gh 0) 0 1).
  - intros t _. pose proof (one_tt_pos t) as Ht.
    replace (gh 0 t) with (/ (1 + t²)).
    + apply is_derive_atan.
    + unfold gh, Rsqr. replace (- (0 * 0) * (1 + t * t)) with 0 by ring. rewrite exp_0. field. lra.
  - intros t _. apply gh_continuous.
Qed.

Lemma gF_0 : gF 0 = PI / 4.
Proof. unfold gF. rewrite gg_0, gK_0. ring. Qed.

Lemma gF_eq (x : R) : gg x * gg x + gK x = PI / 4.
Proof. rewrite <- gF_0, <- (gF_const x). reflexivity. Qed.

Lemma gK_nonneg (x : R) : 0 <= gK x.
Proof.
  unfold gK.
  apply (RInt_ge_0 (gh x) 0 1).
  - lra.
  - apply gh_ex_RInt.
  - intros t _. unfold gh. pose proof (one_tt_pos t). pose proof (exp_pos (- (x * x) * (1 + t * t))).
    apply Rlt_le. apply Rdiv_lt_0_compat; assumption.
Qed.

Lemma gK_le (x : R) : gK x <= gexp x.
Proof.
  unfold gK.
  replace (gexp x) with (RInt (fun _ => gexp x) 0 1).
  2:{ rewrite RInt_const. unfold scal; cbn; unfold mult; cbn. ring. }
  apply RInt_le.
  - lra.
  - apply gh_ex_RInt.
  - apply ex_RInt_const.
  - intros t _. unfold gh, gexp. pose proof (one_tt_pos t) as Ht.
    pose proof (Rle_0_sqr t) as Ht2. unfold Rsqr in Ht2.
    pose proof (Rle_0_sqr x) as Hx2. unfold Rsqr in Hx2.
    apply Rle_trans with (exp (- (x * x) * (1 + t * t))).
    + pose proof (exp_pos (- (x * x) * (1 + t * t))) as He.
      apply (Rmult_le_reg_r (1 + t * t)); [ exact Ht | ].
      unfold Rdiv. rewrite Rmult_assoc, Rinv_l by lra. nra.
    + destruct (Req_dec (- (x * x) * (1 + t * t)) (- (x * x))) as [E | E].
      * rewrite E. lra.
      * apply Rlt_le. apply exp_increasing. nra.
Qed.

Lemma gg_nonneg (x : R) : 0 <= x -> 0 <= gg x.
Proof.
  intros Hx. unfold gg. apply RInt_ge_0.
  - exact Hx.
  - apply gexp_ex_RInt.
  - intros t _. unfold gexp. apply Rlt_le, exp_pos.
Qed.

Lemma gg_sqrt (x : R) : 0 <= x -> gg x = sqrt (PI / 4 - gK x).
Proof.
  intros Hx. pose proof (gF_eq x) as E. pose proof (gg_nonneg x Hx) as Hg.
  replace (PI / 4 - gK x) with (gg x * gg x) by lra.
  symmetry. apply sqrt_square. exact Hg.
Qed.

Lemma gexp_lim_p : filterlim gexp (Rbar_locally p_infty) (locally 0).
Proof.
  intros P [eps HP].
  exists (Rmax 1 (/ eps)). intros x Hx. apply HP.
  pose proof (cond_pos eps) as He.
  assert (H1 : 1 < x) by (eapply Rle_lt_trans; [ apply Rmax_l | exact Hx ]).
  assert (H2 : / eps < x) by (eapply Rle_lt_trans; [ apply Rmax_r | exact Hx ]).
  unfold ball; cbn. unfold AbsRing_ball, abs, minus, plus, opp; cbn.
  unfold gexp. pose proof (exp_pos (- (x * x))) as Hp.
  replace (exp (- (x * x)) + - 0) with (exp (- (x * x))) by ring.
  rewrite Rabs_pos_eq by lra.
  rewrite exp_Ropp.
  assert (H3 : x < exp (x * x)).
  { pose proof (exp_ineq1 (x * x)) as H. assert (x * x <> 0) by nra. specialize (H H0). assert (x * 1 < x * x) by (apply Rmult_lt_compat_l; lra). lra. }
  apply Rlt_trans with (/ x).
  - apply Rinv_lt_contravar; [ | exact H3 ]. apply Rmult_lt_0_compat; lra.
  - rewrite <- (Rinv_inv eps). apply Rinv_lt_contravar; [ | exact H2 ].
    apply Rmult_lt_0_compat; [ apply Rinv_0_lt_compat; exact He | lra ].
Qed.

Lemma gK_lim_p : filterlim gK (Rbar_locally p_infty) (locally 0).
Proof.
  intros P [eps HP].
  destruct (gexp_lim_p (ball 0 eps)) as [M HM]; [ exists eps; intros y Hy; exact Hy | ].
  exists M. intros x Hx. apply HP. specialize (HM x Hx).
  change (Rabs (gexp x + - 0) < eps) in HM. change (Rabs (gK x + - 0) < eps).
  pose proof (gK_nonneg x). pose proof (gK_le x).
  replace (gK x + - 0) with (gK x) by ring. replace (gexp x + - 0) with (gexp x) in HM by ring.
  rewrite Rabs_pos_eq by lra. rewrite Rabs_pos_eq in HM by lra. lra.
Qed.

Lemma gg_lim_p : filterlim gg (Rbar_locally p_infty) (locally (sqrt PI / 2)).
Proof.
  apply (filterlim_ext_loc (fun x => sqrt (PI / 4 - gK x))).
  - exists 0. intros x Hx. symmetry. apply gg_sqrt. lra.
  - replace (sqrt PI / 2) with (sqrt (PI / 4 - 0)).
    2:{ replace (PI / 4 - 0) with (PI * / 4) by field. pose proof PI_RGT_0.
        rewrite sqrt_mult by lra. replace (/ 4) with (/ 2 * / 2) by field.
        rewrite sqrt_square by lra. field. }
    apply (filterlim_comp _ _ _ (fun x => PI / 4 - gK x) sqrt _ (locally (PI / 4 - 0))).
    + apply (filterlim_comp _ _ _ gK (fun y => PI / 4 - y) _ (locally 0)).
      * apply gK_lim_p.
      * apply (continuous_minus (V := R_NormedModule) (fun _ => PI / 4) (fun y => y) 0).
        -- apply continuous_const.
        -- apply continuous_id.
    + apply continuous_sqrt.
Qed.

Lemma gg_odd (x : R) : gg (- x) = - gg x.
Proof.
  unfold gg at 1. apply (is_RInt_unique (V := R_CompleteNormedModule)).
  assert (H : is_RInt gexp (- 0) (- - x) (gg x)).
  { replace (- 0) with 0 by ring. replace (- - x) with x by ring. apply gg_is_RInt. }
  apply (is_RInt_comp_opp (V := R_NormedModule)) in H.
  apply (is_RInt_opp (V := R_NormedModule)) in H.
  eapply is_RInt_ext; [ | exact H ].
  intros t _. unfold opp; cbn. unfold gexp. replace (- t * - t) with (t * t) by ring. ring.
Qed.

Lemma gg_lim_m : filterlim gg (Rbar_locally m_infty) (locally (- (sqrt PI / 2))).
Proof.
  apply (filterlim_ext (fun x => - gg (- x))).
  - intros x. rewrite gg_odd. ring.
  - apply (filterlim_comp _ _ _ (fun x => gg (- x)) Ropp _ (locally (sqrt PI / 2))).
    + apply (filterlim_comp _ _ _ Ropp gg _ (Rbar_locally p_infty)).
      * intros P [M HM]. exists (- M). intros x Hx. apply HM. lra.
      * apply gg_lim_p.
    + apply (continuous_opp (V := R_NormedModule) (fun y => y)). apply continuous_id.
Qed.

(* improper integral over R from an antiderivative-like function with limits at both ends *)
Lemma is_RInt_gen_of_limits (f G : R -> R) (lm lp : R) :
  (forall a b, is_RInt f a b (G b - G a)) ->
  filterlim G (Rbar_locally m_infty) (locally lm) ->
  filterlim G (Rbar_locally p_infty) (locally lp) ->
  is_RInt_gen f (Rbar_locally m_infty) (Rbar_locally p_infty) (lp - lm).
Proof.
  intros HI Hm Hp.
  unfold is_RInt_gen, filterlimi, filter_le, filtermapi.
  intros P [eps HP].
  pose (e2 := mkposreal (eps / 2) (is_pos_div_2 eps)).
  pose proof (Hm (ball lm e2) (locally_ball lm e2)) as Hm'.
  pose proof (Hp (ball lp e2) (locally_ball lp e2)) as Hp'.
  unfold filtermap in Hm', Hp'.
  apply (Filter_prod _ _ _ _ _ Hm' Hp').
  intros a b Ha Hb. cbn [fst snd].
  exists (G b - G a). split; [ apply HI | ].
  apply HP.
  change (Rabs (G a + - lm) < eps / 2) in Ha.
  change (Rabs (G b + - lp) < eps / 2) in Hb.
  change (Rabs (G b - G a + - (lp - lm)) < eps).
  replace (G b - G a + - (lp - lm)) with ((G b + - lp) - (G a + - lm)) by ring.
  eapply Rle_lt_trans; [ apply Rabs_triang | ].
  rewrite Rabs_Ropp. lra.
Qed.

Definition gG (x : R) : R := sqrt 2 * gg (x / sqrt 2).

Lemma sqrt2_pos : 0 < sqrt 2.
Proof. apply sqrt_lt_R0. lra. Qed.

Lemma gG_is_RInt (a b : R) : is_RInt (fun t => exp (- (t * t) / 2)) a b (gG b - gG a).
Proof.
  pose proof sqrt2_pos as Hs.
  assert (Hss : sqrt 2 * sqrt 2 = 2) by (apply sqrt_sqrt; lra).
  assert (H : is_RInt gexp (/ sqrt 2 * a + 0) (/ sqrt 2 * b + 0) (gg (b / sqrt 2) - gg (a / sqrt 2))).
  { replace (/ sqrt 2 * a + 0) with (a / sqrt 2) by (field; lra).
    replace (/ sqrt 2 * b + 0) with (b / sqrt 2) by (field; lra).
    replace (gg (b / sqrt 2) - gg (a / sqrt 2)) with (plus (opp (gg (a / sqrt 2))) (gg (b / sqrt 2)))
      by (unfold plus, opp; cbn; ring).
    apply (is_RInt_Chasles (V := R_NormedModule) gexp _ 0 _).
    - apply (is_RInt_swap (V := R_NormedModule)). apply gg_is_RInt.
    - apply gg_is_RInt. }
  apply (is_RInt_comp_lin (V := R_NormedModule) gexp) in H.
  apply (is_RInt_scal (V := R_NormedModule) _ _ _ (sqrt 2)) in H.
  replace (gG b - gG a) with (scal (V := R_NormedModule) (sqrt 2) (gg (b / sqrt 2) - gg (a / sqrt 2)))
    by (unfold gG, scal; cbn; unfold mult; cbn; ring).
  eapply is_RInt_ext; [ | exact H ].
  intros t _. unfold scal; cbn; unfold mult; cbn. unfold gexp.
  replace (- ((/ sqrt 2 * t + 0) * (/ sqrt 2 * t + 0))) with (- (t * t) / 2).
  - field. lra.
  - rewrite <- Hss at 1. field. lra.
Qed.

Lemma div_sqrt2_lim_p : filterlim (fun x => x / sqrt 2) (Rbar_locally p_infty) (Rbar_locally p_infty).
Proof.
  pose proof sqrt2_pos as Hs.
  intros P [M HM]. exists (M * sqrt 2). intros x Hx. apply HM.
  apply (Rmult_lt_reg_r (sqrt 2)); [ exact Hs | ].
  unfold Rdiv. rewrite Rmult_assoc, Rinv_l by lra. lra.
Qed.

Lemma div_sqrt2_lim_m : filterlim (fun x => x / sqrt 2) (Rbar_locally m_infty) (Rbar_locally m_infty).
Proof.
  pose proof sqrt2_pos as Hs.
  intros P [M HM]. exists (M * sqrt 2). intros x Hx. apply HM.
  apply (Rmult_lt_reg_r (sqrt 2)); [ exact Hs | ].
  unfold Rdiv. rewrite Rmult_assoc, Rinv_l by lra. lra.
Qed.

Lemma gG_lim_p : filterlim gG (Rbar_locally p_infty) (locally (sqrt 2 * (sqrt PI / 2))).
Proof.
  unfold gG.
  apply (filterlim_comp _ _ _ (fun x => gg (x / sqrt 2)) (fun y => sqrt 2 * y) _ (locally (sqrt PI / 2))).
  - apply (filterlim_comp _ _ _ (fun x => x / sqrt 2) gg _ (Rbar_locally p_infty)).
    + apply div_sqrt2_lim_p.
    + apply gg_lim_p.
  - apply (continuous_scal_r (K := R_AbsRing) (V := R_NormedModule) (sqrt 2) (fun y => y)). apply continuous_id.
Qed.

Lemma gG_lim_m : filterlim gG (Rbar_locally m_infty) (locally (sqrt 2 * (- (sqrt PI / 2)))).
Proof.
  unfold gG.
  apply (filterlim_comp _ _ _ (fun x => gg (x / sqrt 2)) (fun y => sqrt 2 * y) _ (locally (- (sqrt PI / 2)))).
  - apply (filterlim_comp _ _ _ (fun x => x / sqrt 2) gg _ (Rbar_locally m_infty)).
    + apply div_sqrt2_lim_m.
    + apply gg_lim_m.
  - apply (continuous_scal_r (K := R_AbsRing) (V := R_NormedModule) (sqrt 2) (fun y => y)). apply continuous_id.
Qed.

Theorem gauss_integral_sqrt_2PI :
  is_RInt_gen (fun t => exp (- (t * t) / 2)) (Rbar_locally m_infty) (Rbar_locally p_infty) (sqrt (2 * PI)).
Proof.
  pose proof PI_RGT_0 as Hpi.
  replace (sqrt (2 * PI)) with (sqrt 2 * (sqrt PI / 2) - sqrt 2 * (- (sqrt PI / 2))).
  - apply (is_RInt_gen_of_limits _ gG).
    + apply gG_is_RInt.
    + apply gG_lim_m.
    + apply gG_lim_p.
  - rewrite sqrt_mult by lra. field.
Qed.
