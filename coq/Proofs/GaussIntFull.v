(* C01 ("integrates to one"): the textbook Gaussian integral  int_{-oo}^{+oo} exp(-t^2/2) dt = sqrt(2 pi), which Proofs/GaussInt.v takes
   as a hypothesis (std_gauss_integral), proved here with Coquelicot; hence the one-dimensional normalised Gaussian integrates to one
   over R without any hypothesis. *)
From Coq Require Import Reals Lra List Lia.
From Coquelicot Require Import Coquelicot.
From BLE Require Import Num.InstR Model.GMM Proofs.RLemmas Proofs.GMMLik Proofs.GaussInt Proofs.GaussIntAux.
Open Scope R_scope.

Theorem std_gauss_integral_holds : std_gauss_integral.
Proof. unfold std_gauss_integral. exact gauss_integral_sqrt_2PI. Qed.

Theorem gauss1_integral (mu v : R) : 0 < v ->
  is_RInt_gen (fun x => gauss1 x mu v) (Rbar_locally m_infty) (Rbar_locally p_infty) 1.
Proof. intros Hv. apply gauss1_integral_partial; [ exact Hv | exact std_gauss_integral_holds ]. Qed.

Print Assumptions std_gauss_integral_holds.
Print Assumptions gauss1_integral.
