(* C18: typed key/value file, writer and reader driven by key lists, round trip.
   The generic theorem says: a reader restores an attribute exactly when the writer stored it under the
   key the reader binds it from (modulo h5py's str -> bytes, undone by decoding).  The obligations are then
   decided on the key lists GENERATED from gmm.py on this run. *)
From Coq Require Import List Bool Arith Lia.
From Coq Require Import String.
From BLE Require Import Generated.Facts Proofs.FactsDefs.
Import ListNotations.
Local Open Scope string_scope.
Local Open Scope list_scope.

Section H5.
Variable num : Type.
Inductive hval := HStr (s : string) | HBytes (s : string) | HNum (x : num) | HBool (b : bool) | HArr (a : list (list num)) | HNone.
Definition store := list (string * hval).
(* h5py: a Python str is returned as bytes when read back; everything else round-trips *)
Definition h5_read (v : hval) : hval := match v with HStr s => HBytes s | _ => v end.
Definition decode (v : hval) : hval := match v with HBytes s => HStr s | _ => v end.
Fixpoint lookup (k : string) (st : store) : option hval :=
  match st with [] => None | (k', v) :: r => if String.eqb k k' then Some v else lookup k r end.

(* the writer: key k receives the value of attribute a, for every (k, a) in [written]; None is not stored *)
Definition save (written : list (string * string)) (attrs : string -> hval) : store :=
  flat_map (fun ka => match attrs (snd ka) with HNone => [] | v => [(fst ka, v)] end) written.
(* the reader: constructor argument [arg] is bound by [ctor] to a file key, a literal or something else *)
Definition load_arg (ctor : list (string * (string * string))) (decoded : string -> bool) (st : store) (arg : string) : option hval :=
  match assoc arg ctor with
  | Some (kind, k) =>
      if String.eqb kind "key" then
        match lookup k st with
        | Some v => Some (if decoded arg then decode (h5_read v) else h5_read v)
        | None => Some HNone                       (* an omitted key reads back as None *)
        end
      else None                                     (* bound to a literal: the saved value is NOT restored *)
  | None => None
  end.

Lemma lookup_app_single k k' v r : lookup k ((k', v) :: r) = if String.eqb k k' then Some v else lookup k r.
Proof. reflexivity. Qed.
Lemma save_cons ka w attrs : save (ka :: w) attrs = (match attrs (snd ka) with HNone => [] | v => [(fst ka, v)] end) ++ save w attrs.
Proof. reflexivity. Qed.
Lemma lookup_save_notin written attrs k : ~ In k (map fst written) -> lookup k (save written attrs) = None.
Proof.
  induction written as [|[k' a'] w IH]; intros H; [reflexivity|]. rewrite save_cons. cbn [fst snd map] in *.
  assert (Hk : k <> k') by (intro; subst; apply H; now left).
  assert (IH' : lookup k (save w attrs) = None) by (apply IH; intro; apply H; now right).
  destruct (attrs a'); cbn [app]; rewrite ?lookup_app_single; try exact IH';
    destruct (String.eqb_spec k k'); congruence.
Qed.
Lemma lookup_save written attrs k a :
  NoDup (map fst written) -> In (k, a) written ->
  lookup k (save written attrs) = match attrs a with HNone => None | v => Some v end.
Proof.
  induction written as [|[k' a'] w IH]; intros Hnd Hin; [destruct Hin|].
  cbn [map fst] in Hnd. inversion Hnd as [|? ? Hni Hnd']; subst. rewrite save_cons. cbn [fst snd].
  destruct Hin as [E|Hin].
  - inversion E; subst.
    destruct (attrs a) eqn:Ea; cbn [app]; rewrite ?lookup_app_single, ?String.eqb_refl; try reflexivity.
    now apply lookup_save_notin.
  - assert (Hk : k <> k') by (intro; subst; apply Hni; apply (in_map fst) in Hin; exact Hin).
    specialize (IH Hnd' Hin).
    destruct (attrs a'); cbn [app]; rewrite ?lookup_app_single; try exact IH;
      destruct (String.eqb_spec k k'); congruence.
Qed.

Definition is_str (v : hval) : bool := match v with HStr _ => true | _ => false end.
(* ROUND TRIP of one setting: stored under the key it is read from, decoded when it is a string *)
Theorem setting_restored written ctor decoded attrs arg k :
  NoDup (map fst written) ->
  assoc arg ctor = Some ("key", k) -> In (k, arg) written ->
  (is_str (attrs arg) = true -> decoded arg = true) ->
  (forall s, attrs arg <> HBytes s) ->
  load_arg ctor decoded (save written attrs) arg = Some (attrs arg).
Proof.
  intros Hnd Hc Hw Hdec Hnb. unfold load_arg. rewrite Hc.
  replace (String.eqb "key" "key") with true by reflexivity.
  rewrite (lookup_save written attrs k arg Hnd Hw).
  destruct (attrs arg) as [s|s|x|b|a|] eqn:E; try reflexivity.
  - rewrite Hdec by reflexivity. reflexivity.
  - exfalso. now apply (Hnb s).
  - destruct (decoded arg); reflexivity.
  - destruct (decoded arg); reflexivity.
  - destruct (decoded arg); reflexivity.
Qed.
(* and a setting bound to a literal is NOT restored, whatever was saved *)
Theorem literal_not_restored ctor decoded st arg lit :
  assoc arg ctor = Some ("literal", lit) -> load_arg ctor decoded st arg = None.
Proof. intros H. unfold load_arg. rewrite H. reflexivity. Qed.
End H5.

Theorem generated_h5_obligations :
  extraction_error = false /\ gmm_settings_ok = true /\ gmm_keys_all_read = true /\ gmm_keys_nodup = true
  /\ h5_gmm_trainer_decoded = true /\ gmm_floors_before_variances = true /\ gmm_post_from_own_keys = true
  /\ stats_fields_ok = true.
Proof. repeat split; vm_compute; reflexivity. Qed.
