(* C19: an effect language for array aliasing with a verified taint check, and the obligation over
   the in-place update sites GENERATED from /repo/src on this run. *)
From Coq Require Import List Arith Lia Bool.
From Coq Require Import String.
From BLE Require Import Generated.Facts Proofs.FactsDefs.
Import ListNotations.
Local Open Scope string_scope.
Local Open Scope list_scope.

Section Heap.
Variable arr : Type.                       (* array contents, abstract *)
Definition var := nat.
Definition loc := nat.
Inductive instr :=
| Alloc (x : var) (f : list arr -> arr) (ys : list var)      (* x = <arithmetic / np.array / copy / deepcopy>: a fresh array *)
| Alias (x y : var)                                          (* x = y | y[...] | np.asarray(y) | atleast_2d(y): may share memory *)
| InPlace (x : var) (f : arr -> list arr -> arr) (ys : list var).   (* x += .. | x[..] = .. | x /= .. *)
Record state := { env : var -> loc; heap : loc -> arr; next : loc }.
Definition upd {A} (m : nat -> A) k v := fun j => if Nat.eqb j k then v else m j.
Definition vals (s : state) ys := map (fun y => heap s (env s y)) ys.
Definition step (s : state) (i : instr) : state :=
  match i with
  | Alloc x f ys => {| env := upd (env s) x (next s); heap := upd (heap s) (next s) (f (vals s ys)); next := S (next s) |}
  | Alias x y => {| env := upd (env s) x (env s y); heap := heap s; next := next s |}
  | InPlace x f ys => {| env := env s; heap := upd (heap s) (env s x) (f (heap s (env s x)) (vals s ys)); next := next s |}
  end.
Definition run (p : list instr) (s : state) := fold_left step p s.

(* taint = "may share memory with something the caller owns" *)
Definition taint := var -> bool.
Definition tstep (t : taint) (i : instr) : option taint :=
  match i with
  | Alloc x _ _ => Some (upd t x false)
  | Alias x y => Some (upd t x (t y))
  | InPlace x _ _ => if t x then None else Some t
  end.
Fixpoint check (t : taint) (p : list instr) : option taint :=
  match p with [] => Some t | i :: r => match tstep t i with Some t' => check t' r | None => None end end.

Definition inv (n0 : loc) (h0 : loc -> arr) (t : taint) (s : state) :=
  n0 <= next s /\ (forall x, t x = false -> n0 <= env s x < next s) /\ (forall l, l < n0 -> heap s l = h0 l).

Lemma step_inv n0 h0 t t' s i : inv n0 h0 t s -> tstep t i = Some t' -> inv n0 h0 t' (step s i).
Proof.
  intros (Hn & Hu & Hh) Ht. destruct i as [x f ys|x y|x f ys]; simpl in *.
  - inversion Ht; subst; clear Ht. split; [|split]; simpl.
    + lia.
    + intros z Hz. unfold upd in *. destruct (Nat.eqb_spec z x); [lia|]. specialize (Hu _ Hz). lia.
    + intros l Hl. unfold upd. destruct (Nat.eqb_spec l (next s)); [lia|auto].
  - inversion Ht; subst; clear Ht. split; [|split]; simpl; auto.
    intros z Hz. unfold upd in *. destruct (Nat.eqb_spec z x); auto.
  - destruct (t x) eqn:Tx; [discriminate|]. inversion Ht; subst; clear Ht. split; [|split]; simpl; auto.
    intros l Hl. unfold upd. destruct (Nat.eqb_spec l (env s x)) as [->|]; [|auto].
    specialize (Hu _ Tx). lia.
Qed.

(* a checked program leaves every caller-owned location unchanged and its untainted results are fresh *)
Theorem check_sound p t t' s :
  check t p = Some t' ->
  (forall x, t x = false -> next s <= env s x < next s) ->
  let s' := run p s in
  (forall l, l < next s -> heap s' l = heap s l) /\ (forall x, t' x = false -> next s <= env s' x).
Proof.
  intros Hc H0. cbv zeta.
  assert (G : forall p t s0, inv (next s) (heap s) t s0 -> check t p = Some t' -> inv (next s) (heap s) t' (run p s0)).
  { induction p0 as [|i r IH]; intros t0 s0 Hi Hck; simpl in *.
    - now inversion Hck; subst.
    - destruct (tstep t0 i) as [t1|] eqn:E; [|discriminate]. eapply IH; [|exact Hck]. eapply step_inv; eauto. }
  assert (I0 : inv (next s) (heap s) t s) by (split; [lia|split; [exact H0|reflexivity]]).
  destruct (G p t s I0 Hc) as (_ & Hu & Hh). split; [exact Hh|]. intros x Hx. apply Hu in Hx. lia.
Qed.

(* any SEQUENCE of checked calls that reuse the same caller-owned inputs leaves them unchanged: each call starts
   with every variable tainted (caller-owned) *)
Definition all_tainted : taint := fun _ => true.
Theorem calls_compose (calls : list (list instr)) s :
  Forall (fun p => check all_tainted p <> None) calls ->
  forall l, l < next s -> heap (fold_left (fun st p => run p st) calls s) l = heap s l.
Proof.
  revert s. induction calls as [|p calls IH]; intros s H l Hl; simpl; auto.
  inversion H as [|? ? Hp Hrest]; subst.
  destruct (check all_tainted p) as [t'|] eqn:E; [|congruence].
  assert (Hs : forall x, all_tainted x = false -> next s <= env s x < next s) by (intros x Hx; discriminate).
  destruct (check_sound p all_tainted t' s E Hs) as [Hh _].
  assert (Hn : next s <= next (run p s)).
  { clear -s. revert s. induction p as [|i r IHr]; intros s; simpl; auto. eapply Nat.le_trans; [|apply IHr]. destruct i; simpl; lia. }
  rewrite IH by (auto; lia). apply Hh; exact Hl.
Qed.
End Heap.

(* effect programs of four places the property names (variables: 0 = caller's array, others local) *)
Section Programs.
Variable arr : Type.
Variables (f1 : list arr -> arr) (f2 : arr -> list arr -> arr).
(* KMeansMachine.initialize: centroids_ = np.array(k_init(init=caller_array)); M-step rebinds *)
Definition prog_kmeans_init : list (instr arr) := [Alias arr 1 0; Alloc arr 2 f1 [1]; Alloc arr 3 f1 [2]].
(* GMMMachine.__init__ (MAP): means = deepcopy(ubm.means); later M-steps assign fresh arrays; weights /= gamma on the fresh one *)
Definition prog_map_init : list (instr arr) := [Alloc arr 1 f1 [0]; Alloc arr 2 f1 [1]; InPlace arr 2 f2 []].
(* score: data_sum = sum(data[1:], start=data[0]) with the NON-mutating + ; then linear_scoring reads *)
Definition prog_score_pool : list (instr arr) := [Alloc arr 1 f1 [0]; Alloc arr 2 f1 [1; 0]].
(* the same with += on the first probe item: rejected by the check *)
Definition prog_score_pool_inplace : list (instr arr) := [Alias arr 1 0; InPlace arr 1 f2 [0]].
(* ivector e_step: stats.x = stats.x + ... (rebinding) *)
Definition prog_iv_estep : list (instr arr) := [Alloc arr 1 f1 []; Alloc arr 1 f1 [1; 0]; Alloc arr 1 f1 [1; 0]].
Theorem programs_checked :
  check arr (all_tainted) prog_kmeans_init <> None /\ check arr all_tainted prog_map_init <> None
  /\ check arr all_tainted prog_score_pool <> None /\ check arr all_tainted prog_iv_estep <> None
  /\ check arr all_tainted prog_score_pool_inplace = None.
Proof. repeat split; vm_compute; congruence. Qed.
End Programs.

Theorem generated_inplace_obligation : extraction_error = false /\ all_sites_ok = true /\ inplace_sites <> [].
Proof. repeat split; try (vm_compute; reflexivity). intro H; vm_compute in H; discriminate H. Qed.
