(* C15: i-vectors do not depend on the units or the origin of the features.  Under x -> a*x + b per feature (a <> 0) with the
   extractor transformed accordingly (UBM means a*mu+b, covariances a^2*sigma, every row d of every T_c scaled by a_d) and the
   statistics of the transformed data (counts unchanged, first order a*F + N b, second order a^2 S + 2ab F + N b^2):
   the posterior precision and the linear term are unchanged, hence the i-vector; the E-step accumulators are equivariant and one
   training iteration with fixed covariances gives the transformed extractor. *)
From Coq Require Import Reals Lra List Lia Bool Arith.
From BLE Require Import Num.Scalar Num.InstR Lib.Vec Model.IVector Proofs.RLemmas Proofs.IVectorR Proofs.Affine.
Import ListNotations.
Open Scope R_scope.
Import IR.

Definition scale_rows (a : list R) (M : list (list R)) : list (list R) := V.map2 (fun ad row => map (Rmult ad) row) a M.
Definition aff_ivm (a b : list R) (m : ivm) : ivm :=
  {| iv_mu := map (aff a b) (iv_mu m);
     iv_T := map (scale_rows a) (iv_T m);
     iv_sigma := map (aff_var a) (iv_sigma m) |}.
Definition aff_px (a b : list R) (n : R) (px : list R) : list R := V.map3 (fun ad bd f => ad * f + n * bd) a b px.
Definition aff_pxx (a b : list R) (n : R) (px pxx : list R) : list R :=
  map (fun q => let '(ad, bd, f, s) := q in ad * ad * s + 2 * ad * bd * f + n * bd * bd) (combine (combine (combine a b) px) pxx).
Definition aff_gstat (a b : list R) (s : gstat) : gstat :=
  {| g_n := g_n s;
     g_px := V.map2 (aff_px a b) (g_n s) (g_px s);
     g_pxx := V.map3 (aff_pxx a b) (g_n s) (g_px s) (g_pxx s) |}.

(* ------------------------------------------------------------------ generic list helpers *)
Lemma nth_scale k (r : list R) i : nth i (map (Rmult k) r) 0 = k * nth i r 0.
Proof. revert i; induction r as [|x r IH]; intros [|i]; cbn [map nth]; try ring. apply IH. Qed.
Lemma map3_map12 {A A' B B' C E} (f : A' -> B' -> C -> E) (g : A -> A') (h : B -> B') l1 l2 l3 :
  V.map3 f (map g l1) (map h l2) l3 = V.map3 (fun x y z => f (g x) (h y) z) l1 l2 l3.
Proof. revert l2 l3; induction l1 as [|x l1 IH]; intros [|y l2] [|z l3]; cbn [map V.map3]; try reflexivity. now rewrite IH. Qed.
Lemma map3_map123 {A A' B B' C C' E} (f : A' -> B' -> C' -> E) (g : A -> A') (h : B -> B') (k : C -> C') l1 l2 l3 :
  V.map3 f (map g l1) (map h l2) (map k l3) = V.map3 (fun x y z => f (g x) (h y) (k z)) l1 l2 l3.
Proof. revert l2 l3; induction l1 as [|x l1 IH]; intros [|y l2] [|z l3]; cbn [map V.map3]; try reflexivity. now rewrite IH. Qed.
Lemma map3_ext_F {A B C E} (f f' : A -> B -> C -> E) (P : A -> Prop) (Q : B -> Prop) (S : C -> Prop) a b c :
  (forall x y z, P x -> Q y -> S z -> f x y z = f' x y z) -> Forall P a -> Forall Q b -> Forall S c ->
  V.map3 f a b c = V.map3 f' a b c.
Proof.
  intros H Ha. revert b c; induction Ha as [|x a Hx Ha IH]; intros b c Hb Hc;
    destruct Hb as [|y b Hy Hb]; destruct Hc as [|z c Hz Hc]; cbn [V.map3]; try reflexivity.
  rewrite H by assumption. f_equal. now apply IH.
Qed.
Lemma map2_ext {A B C} (f f' : A -> B -> C) a b : (forall x y, f x y = f' x y) -> V.map2 f a b = V.map2 f' a b.
Proof. intros H. revert b; induction a as [|x a IH]; intros [|y b]; cbn [V.map2]; try reflexivity. now rewrite H, IH. Qed.
Lemma map_map2 {A B C E} (g : C -> E) (f : A -> B -> C) a b : map g (V.map2 f a b) = V.map2 (fun x y => g (f x y)) a b.
Proof. revert b; induction a as [|x a IH]; intros [|y b]; cbn [V.map2 map]; try reflexivity. now rewrite IH. Qed.
Lemma map2_map_r {A B B' C} (f : A -> B' -> C) (g : B -> B') a b : V.map2 f a (map g b) = V.map2 (fun x y => f x (g y)) a b.
Proof. revert b; induction a as [|x a IH]; intros [|y b]; cbn [V.map2 map]; try reflexivity. now rewrite IH. Qed.
Lemma map2_map_hom {A} (f : A -> A -> A) (g : A -> A) a b : (forall x y, f (g x) (g y) = g (f x y)) ->
  V.map2 f (map g a) (map g b) = map g (V.map2 f a b).
Proof. intros H. revert b; induction a as [|x a IH]; intros [|y b]; cbn [V.map2 map]; try reflexivity. now rewrite H, IH. Qed.

Lemma map_repeat {A B} (f : A -> B) x n : map f (repeat x n) = repeat (f x) n.
Proof. induction n as [|n IH]; cbn [repeat map]; [reflexivity|]. now rewrite IH. Qed.

(* ------------------------------------------------------------------ unfolding the transformed rows *)
Lemma scale_rows_cons ad a row M : scale_rows (ad :: a) (row :: M) = map (Rmult ad) row :: scale_rows a M.
Proof. reflexivity. Qed.
Lemma aff_var_cons ad a s sig : aff_var (ad :: a) (s :: sig) = (ad * ad * s) :: aff_var a sig.
Proof. reflexivity. Qed.
Lemma aff_cons ad a bd b x xs : aff (ad :: a) (bd :: b) (x :: xs) = (ad * x + bd) :: aff a b xs.
Proof. reflexivity. Qed.
Lemma aff_px_cons ad a bd b n f fs : aff_px (ad :: a) (bd :: b) n (f :: fs) = (ad * f + n * bd) :: aff_px a b n fs.
Proof. reflexivity. Qed.

(* T_c' Sigma_c^-1 T_c is unchanged *)
Lemma tst1_inner (a : list R) (Tc : list (list R)) (sig : list R) i j :
  length Tc = length a -> length sig = length a -> Forall (fun ad => ad <> 0) a -> Forall (fun v => 0 < v) sig ->
  V.map2 (fun row s => InstR.mul (InstR.div (nth i row InstR.zero) s) (nth j row InstR.zero)) (scale_rows a Tc) (aff_var a sig)
  = V.map2 (fun row s => InstR.mul (InstR.div (nth i row InstR.zero) s) (nth j row InstR.zero)) Tc sig.
Proof.
  revert Tc sig; induction a as [|ad a IH]; intros [|row Tc] [|s sig] H1 H2 Ha Hs; cbn [length] in *; try discriminate; try reflexivity.
  pose proof (Forall_inv Ha) as Ha0. pose proof (Forall_inv_tail Ha) as Ha1.
  pose proof (Forall_inv Hs) as Hs0. pose proof (Forall_inv_tail Hs) as Hs1. cbv beta in Ha0, Hs0.
  rewrite scale_rows_cons, aff_var_cons. cbn [V.map2]. rewrite IH by (auto; lia). f_equal.
  unfold_R. rewrite !nth_scale. field. split; [lra|assumption].
Qed.
Lemma tst1_affine t (a : list R) (Tc : list (list R)) (sig : list R) :
  length Tc = length a -> length sig = length a -> Forall (fun ad => ad <> 0) a -> Forall (fun v => 0 < v) sig ->
  tst1 t (scale_rows a Tc) (aff_var a sig) = tst1 t Tc sig.
Proof.
  intros H1 H2 Ha Hs. unfold tst1. apply map_ext. intros i. apply map_ext. intros j. f_equal. now apply tst1_inner.
Qed.

Theorem precision_affine (C D t : nat) (a b : list R) (m : ivm) (s : gstat) :
  scale_ok D a b -> ivm_ok C D t m -> IVectorR.gstat_ok C D s ->
  precision t (aff_ivm a b m) (aff_gstat a b s) = precision t m s.
Proof.
  intros (Ha & Hb & Hnz) (_ & _ & _ & HT & _ & Hsig) _. unfold precision. f_equal. f_equal.
  cbn [aff_ivm aff_gstat iv_T iv_sigma g_n]. rewrite map3_map12.
  eapply map3_ext_F; [|exact HT|exact Hsig|apply (Forall_True (g_n s))].
  cbv beta. intros Tc sig n [HTc _] [Hsg Hpos] _. f_equal. apply tst1_affine; auto; unfold InstR.T in *; congruence.
Qed.

(* centred first-order statistics: row d scaled by a_d *)
Lemma fnorm_row (a b : list R) n (f mu : list R) :
  length b = length a -> length f = length a -> length mu = length a ->
  V.map2 (fun x y => InstR.sub x (InstR.mul n y)) (aff_px a b n f) (aff a b mu)
  = V.map2 Rmult a (V.map2 (fun x y => InstR.sub x (InstR.mul n y)) f mu).
Proof.
  revert b f mu; induction a as [|ad a IH]; intros [|bd b] [|x f] [|y mu] H1 H2 H3; cbn [length] in *; try discriminate; try reflexivity.
  rewrite aff_px_cons, aff_cons. cbn [V.map2]. rewrite IH by lia. f_equal. unfold_R. ring.
Qed.
Lemma fnorm_affine_gen (D : nat) (a b : list R) (ns : list R) (px mu : list (list R)) :
  length a = D -> length b = D -> Forall (fun r => length r = D) px -> Forall (fun r => length r = D) mu ->
  V.map3 (fun f n mu => V.map2 (fun x y => InstR.sub x (InstR.mul n y)) f mu) (V.map2 (aff_px a b) ns px) ns (map (aff a b) mu)
  = map (V.map2 Rmult a) (V.map3 (fun f n mu => V.map2 (fun x y => InstR.sub x (InstR.mul n y)) f mu) px ns mu).
Proof.
  intros Ha Hb Hpx. revert ns mu; induction Hpx as [|f px Hf Hpx IH]; intros [|n ns] mu Hmu; destruct Hmu as [|y mu Hy Hmu];
    cbn [V.map2 V.map3 map]; try reflexivity.
  rewrite IH by assumption. f_equal. apply fnorm_row; unfold InstR.T in *; congruence.
Qed.
Lemma fnorm_affine (C D t : nat) (a b : list R) (m : ivm) (s : gstat) :
  scale_ok D a b -> ivm_ok C D t m -> IVectorR.gstat_ok C D s ->
  fnorm (aff_ivm a b m) (aff_gstat a b s) = map (V.map2 Rmult a) (fnorm m s).
Proof.
  intros (Ha & Hb & _) (_ & Hmu & _) (_ & _ & _ & Hpx & _). unfold fnorm. cbn [aff_ivm aff_gstat iv_mu g_px g_n].
  now apply (fnorm_affine_gen D).
Qed.
Lemma fnorm_rows (C D t : nat) (m : ivm) (s : gstat) : ivm_ok C D t m -> IVectorR.gstat_ok C D s ->
  Forall (fun r : list R => length r = D) (fnorm m s).
Proof.
  intros (_ & Hmu & _) (_ & _ & _ & Hpx & _). unfold fnorm.
  eapply Forall_map3; [|exact Hpx|apply (Forall_True (g_n s))|exact Hmu].
  cbv beta. intros f n mu Hf _ Hm. rewrite len_map2. unfold InstR.T in *. rewrite Hf, Hm. apply Nat.min_id.
Qed.

Lemma lin_inner (a : list R) (Tc : list (list R)) (sig fn : list R) i :
  length Tc = length a -> length sig = length a -> length fn = length a ->
  Forall (fun ad => ad <> 0) a -> Forall (fun v => 0 < v) sig ->
  V.map3 (fun row sg f => InstR.mul (InstR.div (nth i row InstR.zero) sg) f) (scale_rows a Tc) (aff_var a sig) (V.map2 Rmult a fn)
  = V.map3 (fun row sg f => InstR.mul (InstR.div (nth i row InstR.zero) sg) f) Tc sig fn.
Proof.
  revert Tc sig fn; induction a as [|ad a IH]; intros [|row Tc] [|s sig] [|f fn] H1 H2 H3 Ha Hs; cbn [length] in *; try discriminate; try reflexivity.
  pose proof (Forall_inv Ha) as Ha0. pose proof (Forall_inv_tail Ha) as Ha1.
  pose proof (Forall_inv Hs) as Hs0. pose proof (Forall_inv_tail Hs) as Hs1. cbv beta in Ha0, Hs0.
  rewrite scale_rows_cons, aff_var_cons. cbn [V.map2 V.map3]. rewrite IH by (auto; lia). f_equal.
  unfold_R. rewrite !nth_scale. field. split; [lra|assumption].
Qed.

Theorem linterm_affine (C D t : nat) (a b : list R) (m : ivm) (s : gstat) :
  scale_ok D a b -> ivm_ok C D t m -> IVectorR.gstat_ok C D s ->
  linterm t (aff_ivm a b m) (aff_gstat a b s) = linterm t m s.
Proof.
  intros Hsc Hm Hs. unfold linterm. f_equal. rewrite (fnorm_affine C D t) by assumption.
  pose proof (fnorm_rows C D t m s Hm Hs) as Hfn.
  destruct Hsc as (Ha & Hb & Hnz). destruct Hm as (_ & _ & _ & HT & _ & Hsig).
  cbn [aff_ivm iv_T iv_sigma]. rewrite map3_map123.
  eapply map3_ext_F; [|exact HT|exact Hsig|exact Hfn].
  cbv beta. intros Tc sig fn [HTc _] [Hsg Hpos] Hf. apply map_ext. intros i. f_equal.
  apply lin_inner; auto; unfold InstR.T in *; congruence.
Qed.

(* the i-vector itself: whatever the external solver does, it is applied to the same matrix and the same right-hand side *)
Theorem project_affine (inv : list (list R) -> list (list R)) (C D t : nat) (a b : list R) (m : ivm) (s : gstat) :
  scale_ok D a b -> ivm_ok C D t m -> IVectorR.gstat_ok C D s ->
  project inv t (aff_ivm a b m) (aff_gstat a b s) = project inv t m s.
Proof.
  intros Hsc Hm Hs. unfold project. rewrite (precision_affine C D t), (linterm_affine C D t) by assumption. reflexivity.
Qed.

(* ------------------------------------------------------------------ E-step *)
Lemma vadd_scale k (x y : list R) : V.vadd (map (Rmult k) x) (map (Rmult k) y) = map (Rmult k) (V.vadd x y).
Proof. unfold V.vadd. apply map2_map_hom. intros; unfold_R; ring. Qed.
Lemma madd_scale_rows a (A B : list (list R)) : V.madd (scale_rows a A) (scale_rows a B) = scale_rows a (V.madd A B).
Proof.
  revert A B; induction a as [|ad a IH]; intros [|x A] [|y B]; try reflexivity.
  rewrite !scale_rows_cons. change (V.madd (x :: A) (y :: B)) with (V.vadd x y :: V.madd A B).
  rewrite scale_rows_cons, <- IH, <- vadd_scale. reflexivity.
Qed.
Lemma scale_vzero k t : map (Rmult k) (V.vzero t) = V.vzero t.
Proof. unfold V.vzero. induction t as [|t IH]; cbn [repeat map]; [reflexivity|]. rewrite IH. f_equal. unfold_R. ring. Qed.
Lemma scale_rows_mzero a D t : length a = D -> scale_rows a (V.mzero D t) = V.mzero D t.
Proof.
  revert D; induction a as [|ad a IH]; intros [|D] H; cbn [length] in *; try discriminate; try reflexivity.
  change (V.mzero (S D) t) with (V.vzero t :: V.mzero D t). rewrite scale_rows_cons, IH, scale_vzero by lia. reflexivity.
Qed.
Lemma outer_scale a (fc w : list R) : V.outer (V.map2 Rmult a fc) w = scale_rows a (V.outer fc w).
Proof.
  revert fc; induction a as [|ad a IH]; intros [|x fc]; try reflexivity.
  change (V.outer (V.map2 Rmult (ad :: a) (x :: fc)) w) with (map (fun y => InstR.mul (ad * x) y) w :: V.outer (V.map2 Rmult a fc) w).
  change (V.outer (x :: fc) w) with (map (fun y => InstR.mul x y) w :: V.outer fc w).
  rewrite scale_rows_cons, IH, map_map. f_equal. apply map_ext. intros y. unfold_R. ring.
Qed.

Definition acc_rel (a : list R) (x x' : acc) : Prop :=
  a_w2 x' = a_w2 x /\ a_n x' = a_n x /\ a_fw x' = map (scale_rows a) (a_fw x).
Lemma acc_rel_add a x x' y y' : acc_rel a x x' -> acc_rel a y y' -> acc_rel a (acc_add x y) (acc_add x' y').
Proof.
  intros (X1 & X2 & X3) (Y1 & Y2 & Y3). unfold acc_rel, acc_add; cbn [a_w2 a_n a_fw].
  rewrite X1, X2, X3, Y1, Y2, Y3. repeat split. apply map2_map_hom. apply madd_scale_rows.
Qed.
Lemma acc1_affine (inv : list (list R) -> list (list R)) (C D t : nat) (a b : list R) (m : ivm) (s : gstat) :
  scale_ok D a b -> ivm_ok C D t m -> IVectorR.gstat_ok C D s ->
  acc_rel a (acc1 inv t m s) (acc1 inv t (aff_ivm a b m) (aff_gstat a b s)).
Proof.
  intros Hsc Hm Hs. unfold acc_rel, acc1; cbn [a_w2 a_n a_fw].
  rewrite (precision_affine C D t), (linterm_affine C D t), (fnorm_affine C D t) by assumption.
  cbn [aff_gstat g_n]. repeat split. rewrite !map_map. apply map_ext. intros fc. apply outer_scale.
Qed.
Lemma fold_acc_rel (inv : list (list R) -> list (list R)) (C D t : nat) (a b : list R) (m : ivm) (X : list gstat) :
  scale_ok D a b -> ivm_ok C D t m -> Forall (IVectorR.gstat_ok C D) X ->
  forall x x', acc_rel a x x' ->
  acc_rel a (fold_left (fun u s => acc_add u (acc1 inv t m s)) X x)
            (fold_left (fun u s => acc_add u (acc1 inv t (aff_ivm a b m) s)) (map (aff_gstat a b) X) x').
Proof.
  intros Hsc Hm HX. induction HX as [|s X Hs HX IH]; intros x x' Hr; cbn [map fold_left]; [exact Hr|].
  apply IH. apply acc_rel_add; [exact Hr|]. now apply (acc1_affine inv C D t).
Qed.

(* E-step accumulators: second moments of w and counts unchanged, the F w' accumulator scaled row by row *)
Theorem e_step_affine (inv : list (list R) -> list (list R)) (C D t : nat) (a b : list R) (m : ivm) (X : list gstat) :
  scale_ok D a b -> ivm_ok C D t m -> Forall (IVectorR.gstat_ok C D) X ->
  let st := e_step inv C D t m X in
  let st' := e_step inv C D t (aff_ivm a b m) (map (aff_gstat a b) X) in
  a_w2 st' = a_w2 st /\ a_n st' = a_n st /\ a_fw st' = map (scale_rows a) (a_fw st).
Proof.
  intros Hsc Hm HX. cbv zeta. unfold e_step. apply (fold_acc_rel inv C D t a b m X Hsc Hm HX).
  unfold acc_rel, zero_acc; cbn [a_w2 a_n a_fw]. repeat split.
  destruct Hsc as (Ha & _). rewrite map_repeat, scale_rows_mzero by exact Ha. reflexivity.
Qed.

(* ------------------------------------------------------------------ M-step *)
Lemma hd_scale k (r : list R) : hd 0 (map (Rmult k) r) = k * hd 0 r.
Proof. destruct r; cbn [map hd]; [ring|reflexivity]. Qed.
Lemma tl_scale k (r : list R) : tl (map (Rmult k) r) = map (Rmult k) (tl r).
Proof. destruct r; reflexivity. Qed.
Lemma map_hd_scale_rows a (M : list (list R)) : map (fun r => hd 0 r) (scale_rows a M) = V.map2 Rmult a (map (fun r => hd 0 r) M).
Proof.
  revert M; induction a as [|ad a IH]; intros [|row M]; try reflexivity.
  rewrite scale_rows_cons. cbn [map V.map2]. now rewrite IH, hd_scale.
Qed.
Lemma map_tl_scale_rows a (M : list (list R)) : map (fun r => tl r) (scale_rows a M) = scale_rows a (map (fun r => tl r) M).
Proof.
  revert M; induction a as [|ad a IH]; intros [|row M]; try reflexivity.
  cbn [map]. rewrite !scale_rows_cons. cbn [map]. now rewrite IH, tl_scale.
Qed.
(* transposing a row-scaled matrix scales the columns *)
Lemma transpose_scale_rows t a (M : list (list R)) : V.transpose t (scale_rows a M) = map (V.map2 Rmult a) (V.transpose t M).
Proof.
  revert M; induction t as [|t IH]; intros M; [reflexivity|].
  change (V.transpose (S t) (scale_rows a M)) with (map (fun r => hd 0 r) (scale_rows a M) :: V.transpose t (map (fun r => tl r) (scale_rows a M))).
  change (V.transpose (S t) M) with (map (fun r => hd 0 r) M :: V.transpose t (map (fun r => tl r) M)).
  cbn [map]. now rewrite map_hd_scale_rows, map_tl_scale_rows, IH.
Qed.
(* ... and conversely *)
Lemma transpose_scale_cols D a (B : list (list R)) : length a = D -> Forall (fun r => length r = D) B ->
  V.transpose D (map (V.map2 Rmult a) B) = scale_rows a (V.transpose D B).
Proof.
  revert a B; induction D as [|D IH]; intros [|ad a] B Ha HB; cbn [length] in *; try discriminate; [reflexivity|].
  change (V.transpose (S D) (map (V.map2 Rmult (ad :: a)) B))
    with (map (fun r => hd 0 r) (map (V.map2 Rmult (ad :: a)) B) :: V.transpose D (map (fun r => tl r) (map (V.map2 Rmult (ad :: a)) B))).
  change (V.transpose (S D) B) with (map (fun r => hd 0 r) B :: V.transpose D (map (fun r => tl r) B)).
  rewrite scale_rows_cons.
  assert (E1 : map (fun r => hd 0 r) (map (V.map2 Rmult (ad :: a)) B) = map (Rmult ad) (map (fun r => hd 0 r) B)).
  { rewrite !map_map. apply map_ext_in. intros r Hr. rewrite Forall_forall in HB. specialize (HB r Hr).
    destruct r as [|x r]; [discriminate|reflexivity]. }
  assert (E2 : map (fun r => tl r) (map (V.map2 Rmult (ad :: a)) B) = map (V.map2 Rmult a) (map (fun r => tl r) B)).
  { rewrite !map_map. apply map_ext_in. intros r Hr. rewrite Forall_forall in HB. specialize (HB r Hr).
    destruct r as [|x r]; [discriminate|reflexivity]. }
  rewrite E1, E2, IH; [reflexivity|lia|].
  apply Forall_map. eapply Forall_impl; [|exact HB]. cbv beta. intros r Hr. destruct r; cbn [length tl] in *; [discriminate|lia].
Qed.
Lemma transpose_len c (M : list (list R)) : length (V.transpose c M) = c.
Proof. revert M; induction c as [|c IH]; intros M; [reflexivity|]. cbn [V.transpose length]. now rewrite IH. Qed.
Lemma transpose_rows c (M : list (list R)) : Forall (fun r => length r = length M) (V.transpose c M).
Proof.
  revert M; induction c as [|c IH]; intros M; cbn [V.transpose]; constructor.
  - now rewrite map_length.
  - specialize (IH (map (fun r => tl r) M)). now rewrite map_length in IH.
Qed.
Lemma matmul_scale_cols D a (A B : list (list R)) : length a = D -> Forall (fun r => length r = D) B ->
  V.matmul D A (map (V.map2 Rmult a) B) = map (V.map2 Rmult a) (V.matmul D A B).
Proof.
  intros Ha HB. unfold V.matmul. rewrite transpose_scale_cols by assumption. rewrite map_map. apply map_ext. intros r.
  unfold scale_rows. rewrite map_map2, map2_map_r. apply map2_ext. intros ad col.
  change (V.dot r (map (Rmult ad) col)) with (dotR r (map (Rmult ad) col)). rewrite dotR_scal_r. reflexivity.
Qed.
Lemma matmul_rows D (A B : list (list R)) : Forall (fun r => length r = D) (V.matmul D A B).
Proof. unfold V.matmul. apply Forall_map. apply Forall_forall. intros r _. now rewrite map_length, transpose_len. Qed.
Lemma scale_cols_mzero a t D : length a = D -> map (V.map2 Rmult a) (V.mzero t D) = V.mzero t D.
Proof.
  intros Ha. unfold V.mzero. rewrite map_repeat. f_equal. subst D. unfold V.vzero.
  induction a as [|ad a IH]; cbn [length repeat V.map2]; [reflexivity|]. rewrite IH. f_equal. unfold_R. ring.
Qed.

(* T update of one component *)
Lemma Tc_affine (inv : list (list R) -> list (list R)) D t a (w2 fw : list (list R)) : length a = D -> length fw = D ->
  V.transpose D (if mat_any w2 then V.matmul D (inv (V.transpose t w2)) (V.transpose t (scale_rows a fw)) else V.mzero t D)
  = scale_rows a (V.transpose D (if mat_any w2 then V.matmul D (inv (V.transpose t w2)) (V.transpose t fw) else V.mzero t D)).
Proof.
  intros Ha Hfw. destruct (mat_any w2).
  - rewrite transpose_scale_rows. rewrite (matmul_scale_cols D) by (auto; rewrite <- Hfw; apply transpose_rows).
    apply transpose_scale_cols; [exact Ha|apply matmul_rows].
  - rewrite <- (scale_cols_mzero a t D Ha) at 1. apply transpose_scale_cols; [exact Ha|apply mzero_shape].
Qed.
Lemma T_affine (inv : list (list R) -> list (list R)) D t a (W F : list (list (list R))) : length a = D ->
  Forall (fun fw => length fw = D) F ->
  map (fun X => V.transpose D X)
      (V.map2 (fun w2 fw => if mat_any w2 then V.matmul D (inv (V.transpose t w2)) (V.transpose t fw) else V.mzero t D) W (map (scale_rows a) F))
  = map (scale_rows a) (map (fun X => V.transpose D X)
      (V.map2 (fun w2 fw => if mat_any w2 then V.matmul D (inv (V.transpose t w2)) (V.transpose t fw) else V.mzero t D) W F)).
Proof.
  intros Ha HF. revert W; induction HF as [|fw F Hfw HF IH]; intros [|w2 W]; try reflexivity.
  cbn [map V.map2]. rewrite IH. f_equal. now apply Tc_affine.
Qed.

(* shapes of the F w' accumulator (independent of the solver) *)
Lemma fold_fw_len (inv : list (list R) -> list (list R)) (C D t : nat) (m : ivm) (X : list gstat) :
  ivm_ok C D t m -> Forall (IVectorR.gstat_ok C D) X ->
  forall x, Forall (fun M : list (list R) => length M = D) (a_fw x) ->
  Forall (fun M : list (list R) => length M = D) (a_fw (fold_left (fun u s => acc_add u (acc1 inv t m s)) X x)).
Proof.
  intros Hm HX. induction HX as [|s X Hs HX IH]; intros x Hx; cbn [fold_left]; [exact Hx|].
  apply IH. unfold acc_add, acc1; cbn [a_fw].
  set (w := V.matvec (inv (precision t m s)) (linterm t m s)).
  assert (HF : Forall (fun M : list (list R) => length M = D) (map (fun fc => V.outer fc w) (fnorm m s))).
  { apply Forall_map. eapply Forall_impl; [|apply (fnorm_rows C D t m s Hm Hs)].
    cbv beta. intros fc Hfc. unfold V.outer. rewrite map_length. exact Hfc. }
  eapply Forall_map2; [|exact Hx|exact HF].
  cbv beta. intros A B HA HB. unfold V.madd. rewrite len_map2. unfold InstR.T in *. rewrite HA, HB. apply Nat.min_id.
Qed.

(* one training iteration with fixed covariances is equivariant: T of the transformed problem = transformed T *)
Theorem m_step_affine (inv : list (list R) -> list (list R)) (C D t : nat) (floor : R) (a b : list R) (m : ivm) (X : list gstat) :
  scale_ok D a b -> ivm_ok C D t m -> Forall (IVectorR.gstat_ok C D) X ->
  let m1 := m_step inv D t false floor m (e_step inv C D t m X) in
  let m1' := m_step inv D t false floor (aff_ivm a b m) (e_step inv C D t (aff_ivm a b m) (map (aff_gstat a b) X)) in
  iv_T m1' = iv_T (aff_ivm a b m1) /\ iv_sigma m1' = iv_sigma (aff_ivm a b m1) /\ iv_mu m1' = iv_mu (aff_ivm a b m1).
Proof.
  intros Hsc Hm HX. cbv zeta.
  destruct (e_step_affine inv C D t a b m X Hsc Hm HX) as (E1 & _ & E3). cbv zeta in E1, E3.
  unfold m_step. cbn [aff_ivm iv_T iv_sigma iv_mu]. split; [|split; reflexivity].
  rewrite E1, E3. apply T_affine. apply Hsc.
  unfold e_step. apply (fold_fw_len inv C D t m X Hm HX).
  unfold zero_acc; cbn [a_fw]. apply Forall_forall. intros M HM. apply repeat_spec in HM. subst M. apply mzero_shape.
Qed.
