(* C10: i-vector training with a total-variability subspace of ANY dimension t and fixed covariances (update_sigma = False) is exact
   EM and never decreases the marginal likelihood of the training statistics (the i-vector of every utterance integrated out).
   No determinant theory is used: ln det P is expressed through a Cholesky factor of P (2 * sum ln L_ii), supplied by an oracle `chol`
   with a contract, like the inverse oracle `inv`. *)
From Coq Require Import Reals Lra List Lia Bool Arith.
From BLE Require Import Num.Scalar Num.InstR Lib.Vec Model.IVector Proofs.RLemmas Proofs.IVectorR.
From BLE Require Import Proofs.SPDCore Proofs.IVGeneralAux.
Import ListNotations.
Open Scope R_scope.
Import IR.

Definition lower_tri (L : list (list R)) : Prop := forall i j, (i < j)%nat -> nth j (nth i L []) 0 = 0.
(* L is a Cholesky factor of the t x t matrix P *)
Definition chol_fact (t : nat) (L P : list (list R)) : Prop :=
  length L = t /\ Forall (fun r => length r = t) L /\ lower_tri L
  /\ (forall i, (i < t)%nat -> 0 < nth i (nth i L []) 0)
  /\ V.matmul t L (V.transpose t L) = P.
Definition logdet (chol : list (list R) -> list (list R)) (t : nat) (P : list (list R)) : R :=
  2 * rsum (map (fun i => ln (nth i (nth i (chol P) []) 0)) (seq 0 t)).

(* log marginal of the statistics of the training utterances under machine m, as far as it depends on T (up to an additive term that
   depends on the means and covariances only):  sum_s [ 1/2 b_s' P_s^-1 b_s - 1/2 ln det P_s ],
   P_s = I + sum_c N_sc T_c' S_c^-1 T_c (precision),  b_s = sum_c T_c' S_c^-1 (F_sc - N_sc m_c) (linterm) *)
Definition iv_marginal_t (inv chol : list (list R) -> list (list R)) (t : nat) (m : ivm) (X : list gstat) : R :=
  rsum (map (fun s => / 2 * dotR (linterm t m s) (V.matvec (inv (precision t m s)) (linterm t m s))
                      - / 2 * logdet chol t (precision t m s)) X).

(* contracts of the two oracles on the posterior precision of every training utterance under a machine *)
Definition oracles_ok (inv chol : list (list R) -> list (list R)) (t : nat) (m : ivm) (X : list gstat) : Prop :=
  forall s, In s X -> inv_ok inv t (precision t m s) /\ chol_fact t (chol (precision t m s)) (precision t m s).

(* the core inequality (Gaussian KL >= 0 without determinants): for A = L L', B = K K' (Cholesky factors) and S a right inverse of A,
   ln det B - ln det A <= tr(S B) - t *)
Theorem logdet_kl (t : nat) (A B L K S : list (list R)) :
  chol_fact t L A -> chol_fact t K B ->
  length S = t -> Forall (fun r => length r = t) S -> (forall v, length v = t -> V.matvec A (V.matvec S v) = v) ->
  2 * rsum (map (fun i => ln (nth i (nth i K []) 0)) (seq 0 t)) - 2 * rsum (map (fun i => ln (nth i (nth i L []) 0)) (seq 0 t))
  <= rsum (map (fun i => nth i (nth i (V.matmul t S B) []) 0) (seq 0 t)) - INR t.
Proof.
  intros (L1 & L2 & L3 & L4 & L5) (K1 & K2 & K3 & K4 & K5) S1 S2 HS.
  assert (HL : shp t t L) by (split; assumption). assert (HK : shp t t K) by (split; assumption).
  assert (HSs : shp t t S) by (split; assumption).
  assert (HA : shp t t A) by (rewrite <- L5; now apply shp_matmul).
  assert (HB : shp t t B) by (rewrite <- K5; now apply shp_matmul).
  assert (HS' : forall i m, (i < t)%nat -> (m < t)%nat -> Sm (seq 0 t) (fun j => gram t (ent L) i j * ent S j m) = dl i m).
  { intros i m Hi Hm. rewrite <- (right_inv_ent t A S (proj1 HA) S1 HS i m Hi Hm).
    apply Sm_ext_n. intros j Hj. f_equal. rewrite <- L5. symmetry. now apply gram_ent. }
  pose proof (kl_core t (ent L) (ent K) (ent S) L3 K3 L4 K4 HS') as H.
  assert (E : rsum (map (fun i => nth i (nth i (V.matmul t S B) []) 0) (seq 0 t))
              = Sm (seq 0 t) (fun i => Sm (seq 0 t) (fun j => ent S i j * gram t (ent K) j i))).
  { apply Sm_ext_n. intros i Hi.
    etransitivity. { exact (ent_mm t t t S B i i HSs HB Hi Hi). }
    apply Sm_ext_n. intros j Hj. f_equal. rewrite <- K5. now apply gram_ent. }
  rewrite E. exact H.
Qed.

(* one training iteration (E-step on the list, M-step without covariance updating) never lowers the marginal likelihood *)
Theorem iv_em_monotone_general (inv chol : list (list R) -> list (list R)) (C D t : nat) (floor : R) (m : ivm) (X : list gstat) :
  ivm_ok C D t m -> Forall (IVectorR.gstat_ok C D) X ->
  oracles_ok inv chol t m X ->
  let st := e_step inv C D t m X in
  (forall c, (c < C)%nat -> mat_any (nth c (a_w2 st) []) = true /\ inv_ok inv t (V.transpose t (nth c (a_w2 st) []))) ->
  let m' := m_step inv D t false floor m st in
  oracles_ok inv chol t m' X ->
  iv_marginal_t inv chol t m X <= iv_marginal_t inv chol t m' X.
Proof.
  intros Hm HX Hor st Hsolve m' Hor'.
  assert (HXs : forall s, In s X -> IVectorR.gstat_ok C D s) by (apply Forall_forall; exact HX).
  assert (Hinv : forall s, In s X -> inv_ok inv t (precision t m s)) by (intros s Hs; apply (Hor s Hs)).
  destruct (estep_w2 inv C D t m Hm X HX Hinv) as [W1 W2]. destruct (estep_fw inv C D t m Hm X HX Hinv) as [F1 F2].
  fold st in W1, W2, F1, F2.
  assert (Hm' : ivm_ok C D t m') by (apply (mstep_ivm_ok inv C D t floor m st W1 F1 Hsolve Hm)).
  set (ldo := fun s => logdet chol t (precision t m s)). set (ldn := fun s => logdet chol t (precision t m' s)).
  unfold iv_marginal_t.
  assert (E1 : rsum (map (fun s => / 2 * dotR (linterm t m s) (V.matvec (inv (precision t m s)) (linterm t m s))
                                   - / 2 * logdet chol t (precision t m s)) X)
               = Sm X (marg C D t gstat (ffm m) (sgm m) (Tm m) (Som inv t m) ldo)).
  { apply Sm_ext. intros s Hs. exact (marg_ent inv C D t m s ldo Hm (HXs s Hs) (Hinv s Hs)). }
  assert (E2 : rsum (map (fun s => / 2 * dotR (linterm t m' s) (V.matvec (inv (precision t m' s)) (linterm t m' s))
                                   - / 2 * logdet chol t (precision t m' s)) X)
               = Sm X (marg C D t gstat (ffm m) (sgm m) (Tm m') (Som inv t m') ldn)).
  { apply Sm_ext. intros s Hs. exact (marg_ent inv C D t m' s ldn Hm' (HXs s Hs) (proj1 (Hor' s Hs))). }
  rewrite E1, E2.
  apply (em_core C D t gstat X nnm (ffm m) (sgm m)).
  - intros s Hs c Hc. exact (nnm_nonneg C D s (HXs s Hs) c Hc).
  - intros c d Hc Hd. exact (sgm_pos C D t m Hm c d Hc Hd).
  - intros s Hs i k Hi Hk.
    destruct (Hinv s Hs) as (I1 & I2 & I3). destruct (precision_shape C D t m s Hm (HXs s Hs)) as [P1 P2].
    rewrite <- (right_inv_ent t (precision t m s) (inv (precision t m s)) P1 I1 I3 i k Hi Hk).
    apply Sm_ext_n. intros j Hj. f_equal. symmetry. exact (precision_ent C D t m s Hm (HXs s Hs) i j Hi Hj).
  - intros s Hs i k Hi Hk.
    destruct (proj1 (Hor' s Hs)) as (I1 & I2 & I3). destruct (precision_shape C D t m' s Hm' (HXs s Hs)) as [P1 P2].
    rewrite <- (right_inv_ent t (precision t m' s) (inv (precision t m' s)) P1 I1 I3 i k Hi Hk).
    apply Sm_ext_n. intros j Hj. f_equal. symmetry. exact (precision_ent C D t m' s Hm' (HXs s Hs) i j Hi Hj).
  - intros s Hs. destruct (Hor s Hs) as [(I1 & I2 & I3) Hc1]. destruct (Hor' s Hs) as [_ Hc2].
    pose proof (logdet_kl t (precision t m s) (precision t m' s) (chol (precision t m s)) (chol (precision t m' s))
                  (inv (precision t m s)) Hc1 Hc2 I1 I2 I3) as H.
    assert (E : rsum (map (fun i => nth i (nth i (V.matmul t (inv (precision t m s)) (precision t m' s)) []) 0) (seq 0 t))
                = Sm (seq 0 t) (fun i => Sm (seq 0 t) (fun j => Som inv t m s i j * Pe C D gstat nnm (sgm m) (Tm m') s j i))).
    { apply Sm_ext_n. intros i Hi.
      etransitivity. { exact (ent_mm t t t _ _ i i (conj I1 I2) (precision_shape C D t m' s Hm' (HXs s Hs)) Hi Hi). }
      apply Sm_ext_n. intros j Hj. f_equal. exact (precision_ent C D t m' s Hm' (HXs s Hs) j i Hj Hi). }
    rewrite E in H. exact H.
  - intros c d i Hc Hd Hi.
    rewrite <- (F2 c d i Hc Hd Hi). rewrite <- (mstep_grad inv C D t floor m st W1 F1 Hsolve c d i Hc Hd Hi).
    apply Sm_ext_n. intros j Hj. f_equal. symmetry. exact (W2 c j i Hc Hj Hi).
Qed.

(* the same through the training entry point, statistics given as one partition *)
Theorem iv_em_iter_monotone_general (inv chol : list (list R) -> list (list R)) (C D t : nat) (floor : R) (m m' : ivm) (X : list gstat) :
  ivm_ok C D t m -> Forall (IVectorR.gstat_ok C D) X ->
  oracles_ok inv chol t m X ->
  (forall c, (c < C)%nat -> mat_any (nth c (a_w2 (e_step inv C D t m X)) []) = true
                            /\ inv_ok inv t (V.transpose t (nth c (a_w2 (e_step inv C D t m X)) []))) ->
  em_iter inv C D t false floor [X] m = Some m' ->
  oracles_ok inv chol t m' X ->
  iv_marginal_t inv chol t m X <= iv_marginal_t inv chol t m' X.
Proof.
  intros Hm HX Hor Hsolve Hit Hor'. unfold em_iter in Hit. cbn [length map tree_reduce] in Hit.
  injection Hit as <-. exact (iv_em_monotone_general inv chol C D t floor m X Hm HX Hor Hsolve Hor').
Qed.

(* non-vacuity of the Cholesky contract: a 2 x 2 example *)
Example chol_fact_example : chol_fact 2 [[2; 0]; [1; 3]] [[4; 2]; [2; 10]].
Proof.
  unfold chol_fact. split; [reflexivity|]. split; [repeat constructor|]. split; [|split].
  - intros i j Hij. destruct i as [|[|i]].
    + destruct j as [|[|j]]; [lia|reflexivity|]. cbn [nth]. destruct j; reflexivity.
    + destruct j as [|[|j]]; [lia|lia|]. cbn [nth]. destruct j; reflexivity.
    + cbn [nth]. destruct i; destruct j; reflexivity.
  - intros i Hi. destruct i as [|[|i]]; cbn [nth]; try lia; lra.
  - cbv [V.matmul V.transpose V.dot V.vmul V.vsum V.map2 map hd tl InstR.add InstR.mul InstR.zero].
    repeat f_equal; ring.
Qed.

Print Assumptions iv_em_monotone_general.
Print Assumptions logdet_kl.
