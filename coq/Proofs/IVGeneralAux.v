(* List-level to index-level bridge for Proofs/IVGeneral.v: entries of the posterior precision, the linear term, the E-step
   accumulators and the M-step result of the i-vector model, in the index form used by Proofs/SPDCore.v. *)
From Coq Require Import Reals Lra List Lia Bool Arith.
From BLE Require Import Num.Scalar Num.InstR Lib.Vec Model.IVector Proofs.RLemmas Proofs.IVectorR Proofs.SPDCore.
From BLE Require Proofs.LinearR Proofs.FAEnroll.
Import ListNotations.
Open Scope R_scope.
Import IR.

Ltac rwT H := let E := fresh "E" in pose proof H as E; unfold InstR.T in E; unfold InstR.T; rewrite E; clear E.

Definition ent (M : list (list R)) (i j : nat) : R := nth j (nth i M []) 0.
Definition shp (r c : nat) (M : list (list R)) : Prop := length M = r /\ Forall (fun row => length row = c) M.

(* ------------------------------------------------------------------ generic list facts (bridged from other instances of Vec) *)
Lemma g_nth_map_lt {A B} (f : A -> B) l i d1 d2 : (i < length l)%nat -> nth i (map f l) d1 = f (nth i l d2).
Proof. exact (FAEnroll.nth_map_lt f l i d1 d2). Qed.
Lemma g_nth_map_seq {B} (f : nat -> B) n i d0 : (i < n)%nat -> nth i (map f (seq 0 n)) d0 = f i.
Proof. exact (FAEnroll.nth_map_seq f n i d0). Qed.
Lemma g_Forall_nth_lt {A} (P : A -> Prop) l i d : Forall P l -> (i < length l)%nat -> P (nth i l d).
Proof. exact (FAEnroll.Forall_nth_lt P l i d). Qed.
Lemma g_nth_map2 {A B C} (f : A -> B -> C) a b i da db dc :
  (i < length a)%nat -> (i < length b)%nat -> nth i (V.map2 f a b) dc = f (nth i a da) (nth i b db).
Proof. exact (FAEnroll.nth_map2 f a b i da db dc). Qed.
Lemma g_map2_seq {A B C} (f : A -> B -> C) a b n da db :
  length a = n -> length b = n -> V.map2 f a b = map (fun i => f (nth i a da) (nth i b db)) (seq 0 n).
Proof. exact (FAEnroll.map2_seq f a b n da db). Qed.
Lemma g_map3_seq {A B C D} (f : A -> B -> C -> D) a b c n da db dc :
  length a = n -> length b = n -> length c = n ->
  V.map3 f a b c = map (fun i => f (nth i a da) (nth i b db) (nth i c dc)) (seq 0 n).
Proof. exact (FAEnroll.map3_seq f a b c n da db dc). Qed.
Lemma g_vsum_rsum l : V.vsum l = rsum l.
Proof. induction l as [|x l IH]; cbn [V.vsum rsum]; [reflexivity|]. rewrite IH. reflexivity. Qed.
Lemma g_dotR_index (a b : list R) n : length b = n -> dotR a b = Sm (seq 0 n) (fun i => nth i a 0 * nth i b 0).
Proof. exact (FAEnroll.dotR_index a b n). Qed.
Lemma g_nth_matvec (M : list (list R)) v i n : (i < length M)%nat -> length v = n ->
  nth i (V.matvec M v) 0 = Sm (seq 0 n) (fun j => ent M i j * nth j v 0).
Proof.
  intros Hi Hv. transitivity (dotR (nth i M []) v). exact (FAEnroll.nth_matvec M v i Hi).
  exact (g_dotR_index (nth i M []) v n Hv).
Qed.

Lemma shp_madd r c a b : shp r c a -> shp r c b -> shp r c (V.madd a b).
Proof. exact (FAEnroll.madd_shape r c a b). Qed.
Lemma shp_mzero r c : shp r c (V.mzero r c).
Proof. exact (FAEnroll.mzero_shape r c). Qed.
Lemma shp_mscale r c k m : shp r c m -> shp r c (V.mscale k m).
Proof. exact (FAEnroll.mscale_shape r c k m). Qed.
Lemma shp_eye r : shp r r (V.eye r).
Proof. exact (FAEnroll.eye_shape r). Qed.
Lemma shp_msum r c ms : Forall (shp r c) ms -> shp r c (msum r c ms).
Proof. exact (FAEnroll.msum_shape r c ms). Qed.
Lemma shp_matmul r c (A B : list (list R)) : length A = r -> shp r c (V.matmul c A B).
Proof. exact (LinearR.shape_matmul r c A B). Qed.
Lemma shp_transpose r c (A : list (list R)) : length A = r -> shp c r (V.transpose c A).
Proof. exact (LinearR.shape_transpose r c A). Qed.
Lemma shp_row r c M i : shp r c M -> (i < r)%nat -> length (nth i M []) = c.
Proof. intros [H1 H2] Hi. apply (g_Forall_nth_lt (fun row : list R => length row = c)). exact H2. unfold InstR.T in *. lia. Qed.
Lemma shp_outer (a b : list R) : shp (length a) (length b) (V.outer a b).
Proof.
  unfold V.outer. split. now rewrite map_length. rewrite Forall_map. apply Forall_forall. intros x _. now rewrite map_length.
Qed.

Lemma ent_madd r c A B a b : shp r c A -> shp r c B -> (a < r)%nat -> (b < c)%nat ->
  ent (V.madd A B) a b = ent A a b + ent B a b.
Proof. exact (FAEnroll.nth_madd r c A B a b). Qed.
Lemma ent_msum r c ms a b : Forall (shp r c) ms -> (a < r)%nat -> (b < c)%nat ->
  ent (msum r c ms) a b = Sm ms (fun m => ent m a b).
Proof. exact (FAEnroll.nth_msum r c ms a b). Qed.
Lemma ent_mscale r c k m a b : shp r c m -> (a < r)%nat -> (b < c)%nat -> ent (V.mscale k m) a b = k * ent m a b.
Proof.
  intros Hs Ha Hb. apply (FAEnroll.nth_mscale k m a b). destruct Hs as [H1 _]. unfold InstR.T in *. lia.
  rewrite (shp_row r c m a Hs Ha). exact Hb.
Qed.
Lemma ent_eye r a b : (a < r)%nat -> (b < r)%nat -> ent (V.eye r) a b = dl a b.
Proof. exact (FAEnroll.nth_eye r a b). Qed.
Lemma ent_mzero r c a b : ent (V.mzero r c) a b = 0.
Proof.
  unfold ent, V.mzero. revert a; induction r as [|r IH]; intros [|a]; cbn [repeat nth]; try (destruct b; reflexivity).
  - apply FAEnroll.nth_vzero.
  - apply IH.
Qed.
Lemma ent_outer (u v : list R) a b : (a < length u)%nat -> (b < length v)%nat -> ent (V.outer u v) a b = nth a u 0 * nth b v 0.
Proof.
  intros Ha Hb. unfold ent, V.outer. rewrite (g_nth_map_lt _ u a [] 0 Ha). rewrite (g_nth_map_lt _ v b 0 0 Hb). reflexivity.
Qed.
Lemma ent_mm r K c (A B : list (list R)) i j : shp r K A -> shp K c B -> (i < r)%nat -> (j < c)%nat ->
  ent (V.matmul c A B) i j = Sm (seq 0 K) (fun k => ent A i k * ent B k j).
Proof. exact (LinearR.ent_mm r K c A B i j). Qed.
Lemma ent_transpose c (M : list (list R)) i j : (i < c)%nat -> (j < length M)%nat -> ent (V.transpose c M) i j = ent M j i.
Proof.
  intros Hi Hj. unfold ent.
  pose proof (LinearR.transpose_ix c M) as E. change (V.transpose c M = LinearR.mkv c (fun j0 => map (fun r : list R => nth j0 r 0) M)) in E.
  rewrite E. rewrite LinearR.mkv_nth by exact Hi. apply (g_nth_map_lt (fun r : list R => nth i r 0) M j 0 [] Hj).
Qed.

(* ------------------------------------------------------------------ entries of the model *)
Definition Tm (th : ivm) (c d i : nat) : R := nth i (nth d (nth c (iv_T th) []) []) 0.
Definition sgm (th : ivm) (c d : nat) : R := nth d (nth c (iv_sigma th) []) 0.
Definition nnm (s : gstat) (c : nat) : R := nth c (g_n s) 0.
Definition ffm (th : ivm) (s : gstat) (c d : nat) : R := nth d (nth c (fnorm th s) []) 0.

Lemma fold_vadd_len t (L : list (list R)) : Forall (fun v => length v = t) L -> length (fold_right V.vadd (V.vzero t) L) = t.
Proof.
  induction 1 as [|v L Hv HL IH]; cbn [fold_right]. apply vzero_len.
  rewrite vadd_len. unfold InstR.T in *. rewrite Hv, IH. apply Nat.min_id.
Qed.
Lemma fold_vadd_nth t (L : list (list R)) i : Forall (fun v => length v = t) L -> (i < t)%nat ->
  nth i (fold_right V.vadd (V.vzero t) L) 0 = Sm L (fun v => nth i v 0).
Proof.
  intros HL Hi. induction HL as [|v L Hv HL IH]; cbn [fold_right].
  - apply FAEnroll.nth_vzero.
  - unfold Sm. cbn [map rsum]. fold (Sm L (fun v => nth i v 0)). rewrite <- IH.
    apply (FAEnroll.nth_vadd v (fold_right V.vadd (V.vzero t) L) i t Hv (fold_vadd_len t L HL) Hi).
Qed.

Section Entries.
Variables (C D t : nat) (th : ivm) (s : gstat).
Hypothesis Hm : ivm_ok C D t th.
Hypothesis Hs : IVectorR.gstat_ok C D s.

Lemma len_T : length (iv_T th) = C. Proof. apply Hm. Qed.
Lemma len_sig : length (iv_sigma th) = C. Proof. apply Hm. Qed.
Lemma len_gn : length (g_n s) = C. Proof. apply Hs. Qed.
Lemma len_Tc c : (c < C)%nat -> length (nth c (iv_T th) []) = D.
Proof.
  intros Hc. destruct Hm as (_ & _ & H3 & H4 & _).
  apply (g_Forall_nth_lt (fun Tc : list (list R) => length Tc = D /\ Forall (fun r => length r = t) Tc) (iv_T th) c [] H4).
  unfold InstR.T in *. lia.
Qed.
Lemma len_sigc c : (c < C)%nat -> length (nth c (iv_sigma th) []) = D.
Proof.
  intros Hc. destruct Hm as (_ & _ & _ & _ & H5 & H6).
  apply (g_Forall_nth_lt (fun r : list R => length r = D /\ Forall (fun v => 0 < v) r) (iv_sigma th) c [] H6).
  unfold InstR.T in *. lia.
Qed.
Lemma sgm_pos c d : (c < C)%nat -> (d < D)%nat -> 0 < sgm th c d.
Proof.
  intros Hc Hd. destruct Hm as (_ & _ & _ & _ & H5 & H6).
  pose proof (g_Forall_nth_lt (fun r : list R => length r = D /\ Forall (fun v => 0 < v) r) (iv_sigma th) c [] H6 ltac:(unfold InstR.T in *; lia)) as [E1 E2].
  unfold sgm. apply (g_Forall_nth_lt (fun v => 0 < v) _ d 0 E2). unfold InstR.T in *. lia.
Qed.
Lemma nnm_nonneg c : (c < C)%nat -> 0 <= nnm s c.
Proof.
  intros Hc. destruct Hs as (G1 & G2 & _). unfold nnm. apply (g_Forall_nth_lt (fun n => 0 <= n) _ c 0 G2). unfold InstR.T in *. lia.
Qed.
Lemma fnorm_shape : shp C D (fnorm th s).
Proof.
  destruct Hs as (G1 & G2 & G3 & G4 & _). destruct Hm as (M1 & M2 & _). unfold fnorm. split.
  - rewrite len_map3. unfold InstR.T in *. rewrite G3, G1, M1, !Nat.min_id. reflexivity.
  - eapply (Forall_map3 _ (fun r : list R => length r = D) (fun _ => True) (fun r : list R => length r = D)); [|exact G4|apply Forall_True|exact M2].
    intros f n mu0 Hf _ Hmu. cbv beta. rewrite len_map2. unfold InstR.T in *. rewrite Hf, Hmu. apply Nat.min_id.
Qed.

Lemma tst1_ent Tc sig a b : length Tc = D -> length sig = D -> (a < t)%nat -> (b < t)%nat ->
  ent (tst1 t Tc sig) a b = Sm (seq 0 D) (fun d => nth a (nth d Tc []) 0 / nth d sig 0 * nth b (nth d Tc []) 0).
Proof.
  intros H1 H2 Ha Hb. unfold ent, tst1. rewrite g_nth_map_seq by exact Ha. rewrite g_nth_map_seq by exact Hb.
  rewrite g_vsum_rsum. rewrite (g_map2_seq _ Tc sig D [] 0 H1 H2). reflexivity.
Qed.

Lemma precision_ent i j : (i < t)%nat -> (j < t)%nat ->
  ent (precision t th s) i j = Pe C D gstat nnm (sgm th) (Tm th) s i j.
Proof.
  intros Hi Hj. unfold precision.
  rewrite (g_map3_seq _ (iv_T th) (iv_sigma th) (g_n s) C [] [] 0 len_T len_sig len_gn).
  assert (HF : Forall (shp t t) (map (fun c => V.mscale (nth c (g_n s) 0) (tst1 t (nth c (iv_T th) []) (nth c (iv_sigma th) []))) (seq 0 C))).
  { rewrite Forall_map. apply Forall_forall. intros c _. apply shp_mscale. apply tst1_shape. }
  rewrite (ent_madd t t _ _ i j (shp_eye t) (shp_msum t t _ HF) Hi Hj).
  rewrite (ent_eye t i j Hi Hj). unfold Pe. f_equal.
  rewrite (ent_msum t t _ i j HF Hi Hj). unfold Sm at 1. rewrite map_map. apply Sm_ext_n. intros c Hc.
  rewrite (ent_mscale t t _ _ i j (tst1_shape t _ _) Hi Hj). unfold nnm. f_equal.
  rewrite (tst1_ent _ _ i j (len_Tc c Hc) (len_sigc c Hc) Hi Hj). reflexivity.
Qed.

Lemma linterm_ent i : (i < t)%nat -> @nth R i (linterm t th s) 0 = be C D gstat (ffm th) (sgm th) (Tm th) s i.
Proof.
  intros Hi. unfold linterm. destruct fnorm_shape as [F1 F2].
  rewrite (g_map3_seq _ (iv_T th) (iv_sigma th) (fnorm th s) C [] [] [] len_T len_sig F1).
  rewrite fold_vadd_nth; [| |exact Hi].
  2:{ rewrite Forall_map. apply Forall_forall. intros c _. now rewrite map_length, seq_length. }
  unfold Sm at 1. rewrite map_map. unfold be. apply Sm_ext_n. intros c Hc.
  rewrite g_nth_map_seq by exact Hi. rewrite g_vsum_rsum.
  rewrite (g_map3_seq _ (nth c (iv_T th) []) (nth c (iv_sigma th) []) (nth c (fnorm th s) []) D [] 0 0
             (len_Tc c Hc) (len_sigc c Hc) (shp_row C D _ c fnorm_shape Hc)).
  reflexivity.
Qed.
End Entries.

(* ------------------------------------------------------------------ the E-step accumulators *)
Definition stk_ok (C r c : nat) (W : list (list (list R))) : Prop := length W = C /\ Forall (shp r c) W.

Lemma stk_add C r c A B : stk_ok C r c A -> stk_ok C r c B -> stk_ok C r c (V.map2 V.madd A B).
Proof.
  intros [A1 A2] [B1 B2]. split.
  - rewrite len_map2. unfold InstR.T in *. rewrite A1, B1. apply Nat.min_id.
  - eapply (Forall_map2 _ (shp r c) (shp r c) (shp r c)); [|exact A2|exact B2]. intros x y Hx Hy. now apply shp_madd.
Qed.
Lemma stk_nth C r c A k : stk_ok C r c A -> (k < C)%nat -> shp r c (nth k A []).
Proof. intros [A1 A2] Hk. apply (g_Forall_nth_lt (shp r c) A k [] A2). unfold InstR.T in *. lia. Qed.
Lemma stk_add_ent C r c A B k i j : stk_ok C r c A -> stk_ok C r c B -> (k < C)%nat -> (i < r)%nat -> (j < c)%nat ->
  ent (nth k (V.map2 V.madd A B) []) i j = ent (nth k A []) i j + ent (nth k B []) i j.
Proof.
  intros HA HB Hk Hi Hj. rewrite (g_nth_map2 V.madd A B k [] [] []).
  - apply (ent_madd r c); auto; apply (stk_nth C); auto.
  - destruct HA as [A1 _]. unfold InstR.T in *. lia.
  - destruct HB as [B1 _]. unfold InstR.T in *. lia.
Qed.
Lemma stk_zero C r c : stk_ok C r c (repeat (V.mzero r c) C).
Proof. split. apply repeat_length. apply Forall_forall. intros x Hx. apply repeat_spec in Hx. subst. apply shp_mzero. Qed.

Section Acc.
Variable inv : list (list R) -> list (list R).
Variables (C D t : nat) (m : ivm).
Hypothesis Hm : ivm_ok C D t m.

Definition Som (s : gstat) (i j : nat) : R := ent (inv (precision t m s)) i j.
Notation mum := (mu C D t gstat (ffm m) (sgm m) (Tm m) Som).

Lemma project_ent s i : IVectorR.gstat_ok C D s -> inv_ok inv t (precision t m s) -> (i < t)%nat ->
  @nth R i (V.matvec (inv (precision t m s)) (linterm t m s)) 0 = mum s i.
Proof.
  intros Hs (I1 & I2 & _) Hi.
  rewrite (g_nth_matvec _ _ i t); [|unfold InstR.T in *; rewrite I1; exact Hi|exact (linterm_len t m s)].
  unfold mu. apply Sm_ext_n. intros j Hj. rwT (linterm_ent C D t m s Hm Hs j Hj). reflexivity.
Qed.

Lemma acc1_w2 s : IVectorR.gstat_ok C D s -> inv_ok inv t (precision t m s) ->
  stk_ok C t t (a_w2 (acc1 inv t m s)) /\
  forall c i j, (c < C)%nat -> (i < t)%nat -> (j < t)%nat ->
    ent (nth c (a_w2 (acc1 inv t m s)) []) i j = nnm s c * (Som s i j + mum s i * mum s j).
Proof.
  intros Hs Hinv. pose proof Hinv as (I1 & I2 & _).
  unfold acc1. cbv zeta. cbn [a_w2].
  set (P := inv (precision t m s)). set (w := V.matvec P (linterm t m s)).
  assert (Lw : length w = t). { unfold w. rewrite matvec_len. exact I1. }
  assert (SP : shp t t P) by (split; assumption).
  assert (SO : shp t t (V.outer w w)). { pose proof (shp_outer w w) as H. unfold InstR.T in *. now rewrite Lw in H. }
  assert (SW : shp t t (V.madd P (V.outer w w))) by now apply shp_madd.
  split.
  - split. rewrite map_length. apply Hs. rewrite Forall_map. apply Forall_forall. intros n _. now apply shp_mscale.
  - intros c i j Hc Hi Hj.
    rewrite (g_nth_map_lt (fun n => V.mscale n (V.madd P (V.outer w w))) (g_n s) c [] 0) by (destruct Hs as (G1 & _); unfold InstR.T in *; lia).
    rewrite (ent_mscale t t _ _ i j SW Hi Hj). unfold nnm. f_equal.
    rewrite (ent_madd t t _ _ i j SP SO Hi Hj). f_equal.
    rewrite ent_outer by (unfold InstR.T in *; lia).
    unfold w, P. rewrite !(project_ent s) by assumption. reflexivity.
Qed.
Lemma acc1_fw s : IVectorR.gstat_ok C D s -> inv_ok inv t (precision t m s) ->
  stk_ok C D t (a_fw (acc1 inv t m s)) /\
  forall c d i, (c < C)%nat -> (d < D)%nat -> (i < t)%nat ->
    ent (nth c (a_fw (acc1 inv t m s)) []) d i = ffm m s c d * mum s i.
Proof.
  intros Hs Hinv. pose proof Hinv as (I1 & I2 & _).
  unfold acc1. cbv zeta. cbn [a_fw].
  set (P := inv (precision t m s)). set (w := V.matvec P (linterm t m s)).
  assert (Lw : length w = t). { unfold w. rewrite matvec_len. exact I1. }
  pose proof (fnorm_shape C D t m s Hm Hs) as SF. pose proof SF as [F1 F2].
  split.
  - split. now rewrite map_length. rewrite Forall_map. eapply Forall_impl; [|exact F2]. intros fc Hfc. cbv beta.
    pose proof (shp_outer fc w) as H. unfold InstR.T in *. now rewrite Lw, Hfc in H.
  - intros c d i Hc Hd Hi.
    rewrite (g_nth_map_lt (fun fc => V.outer fc w) (fnorm m s) c [] []) by (unfold InstR.T in *; lia).
    pose proof (shp_row C D _ c SF Hc) as Lr.
    rewrite ent_outer; [|unfold InstR.T in *; lia|unfold InstR.T in *; lia].
    unfold ffm. f_equal. unfold w, P. now apply project_ent.
Qed.

Lemma fold_w2 (X : list gstat) : Forall (IVectorR.gstat_ok C D) X -> (forall s, In s X -> inv_ok inv t (precision t m s)) ->
  forall a0, stk_ok C t t (a_w2 a0) ->
  stk_ok C t t (a_w2 (fold_left (fun a s => acc_add a (acc1 inv t m s)) X a0)) /\
  forall c i j, (c < C)%nat -> (i < t)%nat -> (j < t)%nat ->
    ent (nth c (a_w2 (fold_left (fun a s => acc_add a (acc1 inv t m s)) X a0)) []) i j
    = ent (nth c (a_w2 a0) []) i j + Sm X (fun s => nnm s c * (Som s i j + mum s i * mum s j)).
Proof.
  induction 1 as [|s X Hs HX IH]; intros Hinv a0 H0; cbn [fold_left].
  - split; [exact H0|]. intros. unfold Sm. cbn [map rsum]. ring.
  - destruct (acc1_w2 s Hs (Hinv s (or_introl eq_refl))) as [K1 K2].
    assert (H1 : stk_ok C t t (a_w2 (acc_add a0 (acc1 inv t m s)))) by (cbn [acc_add a_w2]; now apply stk_add).
    destruct (IH (fun s' Hs' => Hinv s' (or_intror Hs')) _ H1) as [J1 J2]. split; [exact J1|].
    intros c i j Hc Hi Hj. rewrite (J2 c i j Hc Hi Hj). cbn [acc_add a_w2].
    rewrite (stk_add_ent C t t _ _ c i j H0 K1 Hc Hi Hj). unfold InstR.T in *. rewrite (K2 c i j Hc Hi Hj). unfold Sm. cbn [map rsum]. ring.
Qed.
Lemma fold_fw (X : list gstat) : Forall (IVectorR.gstat_ok C D) X -> (forall s, In s X -> inv_ok inv t (precision t m s)) ->
  forall a0, stk_ok C D t (a_fw a0) ->
  stk_ok C D t (a_fw (fold_left (fun a s => acc_add a (acc1 inv t m s)) X a0)) /\
  forall c d i, (c < C)%nat -> (d < D)%nat -> (i < t)%nat ->
    ent (nth c (a_fw (fold_left (fun a s => acc_add a (acc1 inv t m s)) X a0)) []) d i
    = ent (nth c (a_fw a0) []) d i + Sm X (fun s => ffm m s c d * mum s i).
Proof.
  induction 1 as [|s X Hs HX IH]; intros Hinv a0 H0; cbn [fold_left].
  - split; [exact H0|]. intros. unfold Sm. cbn [map rsum]. ring.
  - destruct (acc1_fw s Hs (Hinv s (or_introl eq_refl))) as [K1 K2].
    assert (H1 : stk_ok C D t (a_fw (acc_add a0 (acc1 inv t m s)))) by (cbn [acc_add a_fw]; now apply stk_add).
    destruct (IH (fun s' Hs' => Hinv s' (or_intror Hs')) _ H1) as [J1 J2]. split; [exact J1|].
    intros c d i Hc Hd Hi. rewrite (J2 c d i Hc Hd Hi). cbn [acc_add a_fw].
    rewrite (stk_add_ent C D t _ _ c d i H0 K1 Hc Hd Hi). unfold InstR.T in *. rewrite (K2 c d i Hc Hd Hi). unfold Sm. cbn [map rsum]. ring.
Qed.

Variable X : list gstat.
Hypothesis HX : Forall (IVectorR.gstat_ok C D) X.
Hypothesis Hinv : forall s, In s X -> inv_ok inv t (precision t m s).

Lemma estep_w2 : stk_ok C t t (a_w2 (e_step inv C D t m X)) /\
  forall c i j, (c < C)%nat -> (i < t)%nat -> (j < t)%nat ->
    ent (nth c (a_w2 (e_step inv C D t m X)) []) i j = Ac C D t gstat X nnm (ffm m) (sgm m) (Tm m) Som c i j.
Proof.
  unfold e_step. destruct (fold_w2 X HX Hinv (zero_acc C D t) (stk_zero C t t)) as [J1 J2]. split; [exact J1|].
  intros c i j Hc Hi Hj. rewrite (J2 c i j Hc Hi Hj). cbn [zero_acc a_w2].
  rewrite (FAEnroll.nth_repeat_lt (V.mzero t t) [] C c Hc), ent_mzero. unfold Ac, W. ring.
Qed.
Lemma estep_fw : stk_ok C D t (a_fw (e_step inv C D t m X)) /\
  forall c d i, (c < C)%nat -> (d < D)%nat -> (i < t)%nat ->
    ent (nth c (a_fw (e_step inv C D t m X)) []) d i = Bc C D t gstat X (ffm m) (sgm m) (Tm m) Som c d i.
Proof.
  unfold e_step. destruct (fold_fw X HX Hinv (zero_acc C D t) (stk_zero C D t)) as [J1 J2]. split; [exact J1|].
  intros c d i Hc Hd Hi. rewrite (J2 c d i Hc Hd Hi). cbn [zero_acc a_fw].
  rewrite (FAEnroll.nth_repeat_lt (V.mzero D t) [] C c Hc), ent_mzero. unfold Bc. ring.
Qed.
End Acc.

(* ------------------------------------------------------------------ the M-step without covariance updating *)
Section MStep.
Variable inv : list (list R) -> list (list R).
Variables (C D t : nat) (floor : R) (m : ivm) (st : acc).
Hypothesis Hw2 : stk_ok C t t (a_w2 st).
Hypothesis Hfw : stk_ok C D t (a_fw st).
Hypothesis Hsolve : forall c, (c < C)%nat ->
  mat_any (nth c (a_w2 st) []) = true /\ inv_ok inv t (V.transpose t (nth c (a_w2 st) [])).
Notation m' := (m_step inv D t false floor m st).

Lemma mstep_T : iv_T m' = map (fun c => V.transpose D (V.matmul D (inv (V.transpose t (nth c (a_w2 st) []))) (V.transpose t (nth c (a_fw st) []))))
                              (seq 0 C).
Proof.
  unfold m_step. cbn [iv_T]. destruct Hw2 as [W1 _]. destruct Hfw as [F1 _].
  rewrite (g_map2_seq _ (a_w2 st) (a_fw st) C [] [] W1 F1). rewrite map_map.
  apply map_ext_in. intros c Hc. apply in_seq in Hc. destruct (Hsolve c ltac:(lia)) as [E _].
  unfold InstR.T in *. rewrite E. reflexivity.
Qed.
Lemma mstep_Tc c : (c < C)%nat ->
  nth c (iv_T m') [] = V.transpose D (V.matmul D (inv (V.transpose t (nth c (a_w2 st) []))) (V.transpose t (nth c (a_fw st) []))).
Proof. intros Hc. rewrite mstep_T. now rewrite g_nth_map_seq. Qed.
Lemma mstep_X_len c : (c < C)%nat ->
  length (V.matmul D (inv (V.transpose t (nth c (a_w2 st) []))) (V.transpose t (nth c (a_fw st) []))) = t.
Proof. intros Hc. destruct (Hsolve c Hc) as [_ (I1 & _)]. destruct (shp_matmul t D _ (V.transpose t (nth c (a_fw st) [])) I1) as [H _]. exact H. Qed.

Lemma mstep_ivm_ok : ivm_ok C D t m -> ivm_ok C D t m'.
Proof.
  intros (M1 & M2 & M3 & M4 & M5 & M6). unfold ivm_ok. change (iv_mu m') with (iv_mu m). change (iv_sigma m') with (iv_sigma m).
  repeat split; try assumption.
  - rewrite mstep_T. now rewrite map_length, seq_length.
  - rewrite mstep_T. rewrite Forall_map. apply Forall_forall. intros c Hc. apply in_seq in Hc.
    exact (shp_transpose t D _ (mstep_X_len c ltac:(lia))).
Qed.

Lemma mstep_T_ent c d i : (c < C)%nat -> (d < D)%nat -> (i < t)%nat ->
  Tm m' c d i = Sm (seq 0 t) (fun j => ent (inv (V.transpose t (nth c (a_w2 st) []))) i j * ent (nth c (a_fw st) []) d j).
Proof.
  intros Hc Hd Hi. unfold Tm. rewrite (mstep_Tc c Hc).
  change (nth i (nth d (V.transpose D ?X) []) 0) with (ent (V.transpose D X) d i).
  destruct (Hsolve c Hc) as [_ (I1 & I2 & _)].
  pose proof (stk_nth C D t _ c Hfw Hc) as SF. pose proof SF as [F1 F2].
  etransitivity. { apply ent_transpose. exact Hd. pose proof (mstep_X_len c Hc) as E. unfold InstR.T in *. rewrite E. exact Hi. }
  etransitivity. { exact (ent_mm t t D _ _ i d (conj I1 I2) (shp_transpose D t _ F1) Hi Hd). }
  apply Sm_ext_n. intros j Hj. f_equal. apply ent_transpose. exact Hj. unfold InstR.T in *. lia.
Qed.
Lemma mstep_grad c d i : (c < C)%nat -> (d < D)%nat -> (i < t)%nat ->
  Sm (seq 0 t) (fun j => ent (nth c (a_w2 st) []) j i * Tm m' c d j) = ent (nth c (a_fw st) []) d i.
Proof.
  intros Hc Hd Hi. destruct (Hsolve c Hc) as [_ (I1 & I2 & I3)].
  pose proof (stk_nth C D t _ c Hfw Hc) as SF. pose proof (stk_nth C t t _ c Hw2 Hc) as SW. pose proof SW as [W1 W2].
  set (v := nth d (nth c (a_fw st) []) []).
  assert (Lv : length v = t) by (apply (shp_row D t _ d SF Hd)).
  specialize (I3 v Lv).
  assert (E : nth i (V.matvec (V.transpose t (nth c (a_w2 st) [])) (V.matvec (inv (V.transpose t (nth c (a_w2 st) []))) v)) 0 = nth i v 0)
    by now rewrite I3.
  rewrite (g_nth_matvec _ _ i t) in E.
  2:{ destruct (shp_transpose t t (nth c (a_w2 st) []) W1) as [H _]. unfold InstR.T in *. rewrite H. exact Hi. }
  2:{ rewrite matvec_len. exact I1. }
  change (nth i v 0) with (ent (nth c (a_fw st) []) d i) in E. rewrite <- E.
  apply Sm_ext_n. intros j Hj. f_equal.
  - symmetry. apply ent_transpose. exact Hi. unfold InstR.T in *. lia.
  - rewrite (mstep_T_ent c d j Hc Hd Hj). rewrite (g_nth_matvec _ _ j t); [reflexivity|unfold InstR.T in *; lia|exact Lv].
Qed.
End MStep.

(* ------------------------------------------------------------------ Gram matrices, right inverses, the marginal *)
Lemma gram_ent t (L : list (list R)) i j : shp t t L -> (i < t)%nat -> (j < t)%nat ->
  ent (V.matmul t L (V.transpose t L)) i j = gram t (ent L) i j.
Proof.
  intros HL Hi Hj. pose proof HL as [L1 L2].
  etransitivity. { exact (ent_mm t t t L (V.transpose t L) i j HL (shp_transpose t t L L1) Hi Hj). }
  unfold gram. apply Sm_ext_n. intros r Hr. f_equal. apply ent_transpose. exact Hr. unfold InstR.T in *. lia.
Qed.

Definition unitv (t k : nat) : list R := map (fun j => dl j k) (seq 0 t).
Lemma right_inv_ent t (A S : list (list R)) : length A = t -> length S = t ->
  (forall v, length v = t -> V.matvec A (V.matvec S v) = v) ->
  forall i k, (i < t)%nat -> (k < t)%nat -> Sm (seq 0 t) (fun j => ent A i j * ent S j k) = dl i k.
Proof.
  intros HA HS H i k Hi Hk.
  assert (Lv : length (unitv t k) = t) by (unfold unitv; now rewrite map_length, seq_length).
  pose proof (H (unitv t k) Lv) as E.
  assert (E' : nth i (V.matvec A (V.matvec S (unitv t k))) 0 = nth i (unitv t k) 0) by now rewrite E.
  rewrite (g_nth_matvec _ _ i t) in E'; [|unfold InstR.T in *; lia|rewrite matvec_len; exact HS].
  unfold unitv in E' at 2. rewrite g_nth_map_seq in E' by exact Hi. rewrite <- E'.
  apply Sm_ext_n. intros j Hj. f_equal. symmetry.
  rewrite (g_nth_matvec _ _ j t); [|unfold InstR.T in *; lia|exact Lv].
  transitivity (Sm (seq 0 t) (fun q => ent S j q * dl q k)).
  - apply Sm_ext_n. intros q Hq. f_equal. unfold unitv. now rewrite g_nth_map_seq.
  - exact (Sm_dl_r t k (fun q => ent S j q) Hk).
Qed.

Lemma marg_ent (inv : list (list R) -> list (list R)) (C D t : nat) (th : ivm) (s : gstat) (ld : gstat -> R) :
  ivm_ok C D t th -> IVectorR.gstat_ok C D s -> inv_ok inv t (precision t th s) ->
  / 2 * dotR (linterm t th s) (V.matvec (inv (precision t th s)) (linterm t th s)) - / 2 * ld s
  = marg C D t gstat (ffm th) (sgm th) (Tm th) (Som inv t th) ld s.
Proof.
  intros Hm Hs (I1 & I2 & _). unfold marg. f_equal. f_equal.
  rewrite (g_dotR_index _ _ t) by (rewrite matvec_len; exact I1).
  apply Sm_ext_n. intros i Hi. rwT (linterm_ent C D t th s Hm Hs i Hi). f_equal.
  rewrite (g_nth_matvec _ _ i t); [|unfold InstR.T in *; lia|exact (linterm_len t th s)].
  apply Sm_ext_n. intros j Hj. rwT (linterm_ent C D t th s Hm Hs j Hj). reflexivity.
Qed.
