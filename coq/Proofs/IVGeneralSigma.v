(* C10: i-vector training with a total-variability subspace of ANY dimension t WITH covariance updating (update_sigma = True), no floor
   active: the code's iteration is the exact EM step on the pair (T, sigma) and never decreases the marginal likelihood of the
   training statistics as a function of both,
     sum_s [ 1/2 b_s' P_s^-1 b_s - 1/2 ln det P_s - 1/2 sum_cd ( N_sc ln sigma_cd + Q_scd / sigma_cd ) ],
   Q_s the centred second-order statistics of utterance s (they depend on the means only).  ln det through a Cholesky factor as in
   Proofs/IVGeneral.v. *)
From Coq Require Import Reals Lra List Lia Bool Arith.
From BLE Require Import Num.Scalar Num.InstR Lib.Vec Model.IVector Proofs.RLemmas Proofs.IVectorR Proofs.IVGeneral.
From BLE Require Proofs.IVRank1Sigma.
From BLE Require Proofs.IVGeneralSigmaAux.
Import ListNotations.
Open Scope R_scope.
Import IR.

Notation snorm1 := BLE.Proofs.IVRank1Sigma.snorm1.

Definition iv_marginal2_t (inv chol : list (list R) -> list (list R)) (t : nat) (m : ivm) (X : list gstat) : R :=
  rsum (map (fun s => / 2 * dotR (linterm t m s) (V.matvec (inv (precision t m s)) (linterm t m s))
                      - / 2 * logdet chol t (precision t m s)
                      - / 2 * rsum (V.map3 (fun sig n q => rsum (V.map2 (fun sg qd => n * ln sg + qd / sg) sig q))
                                           (iv_sigma m) (g_n s) (snorm1 m s))) X).

Theorem iv_em_sigma_monotone_general (inv chol : list (list R) -> list (list R)) (C D t : nat) (floor : R) (m : ivm) (X : list gstat) :
  ivm_ok C D t m -> Forall (IVectorR.gstat_ok C D) X -> 0 < floor ->
  oracles_ok inv chol t m X ->
  let st := e_step inv C D t m X in
  (forall c, (c < C)%nat -> mat_any (nth c (a_w2 st) []) = true /\ inv_ok inv t (V.transpose t (nth c (a_w2 st) []))) ->
  Forall (fun n => 0 < n) (a_n st) ->
  let m' := m_step inv D t true floor m st in
  (* no floor is active: every new covariance lies strictly above the floor (a floored entry would be equal to it) *)
  Forall (Forall (fun v => floor < v)) (iv_sigma m') ->
  oracles_ok inv chol t m' X ->
  iv_mu m' = iv_mu m
  /\ iv_marginal2_t inv chol t m X <= iv_marginal2_t inv chol t m' X.
Proof.
  intros Hm HX Hfl0 Hor st Hsolve Hnpos m' Hfloor Hor'. split; [reflexivity|].
  unfold iv_marginal2_t.
  exact (IVGeneralSigmaAux.iv_em_sigma_bridge inv chol C D t floor m X Hm HX Hfl0 Hor Hsolve Hnpos Hfloor Hor').
Qed.

Theorem iv_em_iter_sigma_monotone_general (inv chol : list (list R) -> list (list R)) (C D t : nat) (floor : R) (m m' : ivm) (X : list gstat) :
  ivm_ok C D t m -> Forall (IVectorR.gstat_ok C D) X -> 0 < floor ->
  oracles_ok inv chol t m X ->
  (forall c, (c < C)%nat -> mat_any (nth c (a_w2 (e_step inv C D t m X)) []) = true
                            /\ inv_ok inv t (V.transpose t (nth c (a_w2 (e_step inv C D t m X)) []))) ->
  Forall (fun n => 0 < n) (a_n (e_step inv C D t m X)) ->
  em_iter inv C D t true floor [X] m = Some m' ->
  Forall (Forall (fun v => floor < v)) (iv_sigma m') ->
  oracles_ok inv chol t m' X ->
  iv_marginal2_t inv chol t m X <= iv_marginal2_t inv chol t m' X.
Proof.
  intros Hm HX Hfl0 Hor Hsolve Hnpos Hit Hfloor Hor'. unfold em_iter in Hit. cbn [length map tree_reduce] in Hit.
  injection Hit as <-.
  exact (proj2 (iv_em_sigma_monotone_general inv chol C D t floor m X Hm HX Hfl0 Hor Hsolve Hnpos Hfloor Hor')).
Qed.

Print Assumptions iv_em_sigma_monotone_general.
Print Assumptions iv_em_iter_sigma_monotone_general.
