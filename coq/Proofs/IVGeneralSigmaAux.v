(* List-level to index-level bridge for Proofs/IVGeneralSigma.v (covariance updating): the centred second-order statistics and the
   counts in the E-step accumulators for any t, the entries of the new covariances after the M-step, the covariance part of the
   marginal in the index form of Proofs/SPDCoreSigma.v. *)
From Coq Require Import Reals Lra List Lia Bool Arith.
From BLE Require Import Num.Scalar Num.InstR Lib.Vec Model.IVector Proofs.RLemmas Proofs.IVectorR Proofs.SPDCore Proofs.SPDCoreSigma
  Proofs.IVGeneralAux Proofs.IVGeneral.
From BLE Require Proofs.FAEnroll Proofs.JFARank1 Proofs.IVRank1 Proofs.IVRank1Sigma.
Import ListNotations.
Open Scope R_scope.
Import IR.

Local Notation snorm1 := BLE.Proofs.IVRank1Sigma.snorm1.
Local Notation SN := BLE.Proofs.IVRank1Sigma.SN.
Local Notation NN := BLE.Proofs.IVRank1Sigma.NN.

Definition qqm (th : ivm) (s : gstat) (c d : nat) : R := nth d (nth c (snorm1 th s) []) 0.

Lemma SN_SQc (m : ivm) (X : list gstat) c d : SN m X c d = SQc gstat X (qqm m) c d.
Proof. reflexivity. Qed.
Lemma NN_NNc (X : list gstat) c : NN X c = NNc gstat X nnm c.
Proof. reflexivity. Qed.

(* ------------------------------------------------------------------ the second-order statistics and counts, any t *)
Section SNt.
Variable inv : list (list R) -> list (list R).
Variables (C D t : nat) (m : ivm).
Hypothesis Hm : ivm_ok C D t m.

Lemma snorm1_shape_t s : IVectorR.gstat_ok C D s -> shp C D (snorm1 m s).
Proof.
  intros (G1 & G2 & G3 & G4 & G5 & G6). destruct Hm as (M1 & M2 & _). unfold IVRank1Sigma.snorm1. split.
  - rewrite len_map3, combine_length. unfold InstR.T in *. rewrite G5, G3, G1, M1, !Nat.min_id. reflexivity.
  - eapply (Forall_map3 _ (fun p : list R * list R => length (fst p) = D /\ length (snd p) = D) (fun _ => True) (fun r : list R => length r = D));
      [| |apply Forall_True|exact M2].
    + intros p n mu [Hp1 Hp2] _ Hmu. cbv beta. rewrite len_map3. unfold InstR.T in *. rewrite Hp1, Hp2, Hmu, !Nat.min_id. reflexivity.
    + clear - G4 G6. revert G4. generalize (g_px s). induction G6 as [|a l Ha Hl IH]; intros l2 H2; cbn [combine]; [constructor|].
      destruct H2 as [|b l2 Hb H2]; constructor; [now split|now apply IH].
Qed.

Lemma add_sn_t (f0 : nat -> nat -> R) (M : list (list R)) : length M = C -> Forall (fun r => length r = D) M ->
  V.madd (map (fun c => map (fun d => f0 c d) (seq 0 D)) (seq 0 C)) M
  = map (fun c => map (fun d => f0 c d + nth d (nth c M []) 0) (seq 0 D)) (seq 0 C).
Proof.
  intros H1 H2. rewrite (IVRank1.mat_eq_seq C D M H1 H2) at 1.
  rewrite madd_map. apply map_ext. intros c. apply vadd_map.
Qed.
Lemma add_n_t (f0 : nat -> R) (l : list R) : length l = C ->
  V.vadd (map f0 (seq 0 C)) l = map (fun c => f0 c + nth c l 0) (seq 0 C).
Proof.
  intros Hl. rewrite (list_eq_seq l 0) at 1. unfold InstR.T in *. rewrite Hl. apply vadd_map.
Qed.
Lemma fold_sn_t (X : list gstat) : Forall (IVectorR.gstat_ok C D) X -> forall a0 f0,
  a_sn a0 = map (fun c => map (fun d => f0 c d) (seq 0 D)) (seq 0 C) ->
  a_sn (fold_left (fun a s => acc_add a (acc1 inv t m s)) X a0)
  = map (fun c => map (fun d => f0 c d + SN m X c d) (seq 0 D)) (seq 0 C).
Proof.
  induction 1 as [|s X Hs HX IH]; intros a0 f0 H0; cbn [fold_left].
  - rewrite H0. apply map_ext. intros c. apply map_ext. intros d. unfold IVRank1Sigma.SN. cbn [map rsum]. now rewrite Rplus_0_r.
  - rewrite (IH _ (fun c d => f0 c d + nth d (nth c (snorm1 m s) []) 0)).
    + apply map_ext. intros c. apply map_ext. intros d. unfold IVRank1Sigma.SN. cbn [map rsum]. now rewrite Rplus_assoc.
    + cbn [acc_add a_sn]. rewrite H0. change (a_sn (acc1 inv t m s)) with (snorm1 m s).
      destruct (snorm1_shape_t s Hs) as [F1 F2]. apply add_sn_t; assumption.
Qed.
Lemma fold_n_t (X : list gstat) : Forall (IVectorR.gstat_ok C D) X -> forall a0 f0,
  a_n a0 = map f0 (seq 0 C) ->
  a_n (fold_left (fun a s => acc_add a (acc1 inv t m s)) X a0) = map (fun c => f0 c + NN X c) (seq 0 C).
Proof.
  induction 1 as [|s X Hs HX IH]; intros a0 f0 H0; cbn [fold_left].
  - rewrite H0. apply map_ext. intros c. unfold IVRank1Sigma.NN. cbn [map rsum]. now rewrite Rplus_0_r.
  - rewrite (IH _ (fun c => f0 c + nth c (g_n s) 0)).
    + apply map_ext. intros c. unfold IVRank1Sigma.NN. cbn [map rsum]. now rewrite Rplus_assoc.
    + cbn [acc_add a_n]. rewrite H0. change (a_n (acc1 inv t m s)) with (g_n s).
      apply add_n_t. apply Hs.
Qed.
Lemma estep_sn_n_t (X : list gstat) : Forall (IVectorR.gstat_ok C D) X ->
  a_sn (e_step inv C D t m X) = map (fun c => map (fun d => SN m X c d) (seq 0 D)) (seq 0 C) /\
  a_n (e_step inv C D t m X) = map (fun c => NN X c) (seq 0 C).
Proof.
  intros HX. unfold e_step. split.
  - rewrite (fold_sn_t X HX _ (fun _ _ => 0)).
    + apply map_ext. intros c. apply map_ext. intros d. now rewrite Rplus_0_l.
    + unfold zero_acc. cbn [a_sn]. unfold V.mzero. rewrite JFARank1.repeat_map_seq. apply map_ext. intros c.
      unfold V.vzero. apply JFARank1.repeat_map_seq.
  - rewrite (fold_n_t X HX _ (fun _ => 0)).
    + apply map_ext. intros c. now rewrite Rplus_0_l.
    + unfold zero_acc. cbn [a_n]. unfold V.vzero. apply JFARank1.repeat_map_seq.
Qed.
End SNt.

(* ------------------------------------------------------------------ the covariance part of the marginal *)
Lemma pen_ent (C D : nat) (th mq : ivm) (t : nat) (s : gstat) :
  ivm_ok C D t th -> ivm_ok C D t mq -> IVectorR.gstat_ok C D s ->
  / 2 * rsum (V.map3 (fun sig n q => rsum (V.map2 (fun sg qd => n * ln sg + qd / sg) sig q)) (iv_sigma th) (g_n s) (snorm1 mq s))
  = pen C D gstat nnm (qqm mq) (sgm th) s.
Proof.
  intros Hth Hmq Hs. unfold pen. f_equal.
  pose proof (snorm1_shape_t C D t mq Hmq s Hs) as SQ. pose proof SQ as [Q1 Q2].
  rewrite (g_map3_seq _ (iv_sigma th) (g_n s) (snorm1 mq s) C [] 0 [] (len_sig C D t th Hth) (len_gn C D s Hs) Q1).
  apply Sm_ext_n. intros c Hc.
  rewrite (g_map2_seq _ (nth c (iv_sigma th) []) (nth c (snorm1 mq s) []) D 0 0 (len_sigc C D t th Hth c Hc) (shp_row C D _ c SQ Hc)).
  reflexivity.
Qed.

(* ------------------------------------------------------------------ the M-step with covariance updating *)
Section MStepS.
Variable inv : list (list R) -> list (list R).
Variables (C D t : nat) (floor : R) (m : ivm) (st : acc).
Hypothesis Hm : ivm_ok C D t m.
Hypothesis Hw2 : stk_ok C t t (a_w2 st).
Hypothesis Hfw : stk_ok C D t (a_fw st).
Hypothesis Hsn : shp C D (a_sn st).
Hypothesis Hn : length (a_n st) = C.
Hypothesis Hn0 : forall c, (c < C)%nat -> nth c (a_n st) 0 <> 0.
Hypothesis Hsolve : forall c, (c < C)%nat ->
  mat_any (nth c (a_w2 st) []) = true /\ inv_ok inv t (V.transpose t (nth c (a_w2 st) [])).
Notation m' := (m_step inv D t true floor m st).
Notation m0 := (m_step inv D t false floor m st).
Notation Xc c := (V.matmul D (inv (V.transpose t (nth c (a_w2 st) []))) (V.transpose t (nth c (a_fw st) []))).

Lemma mstepS_T : iv_T m' = iv_T m0.
Proof. reflexivity. Qed.
Lemma mstepS_Tm c d i : Tm m' c d i = Tm m0 c d i.
Proof. reflexivity. Qed.
Lemma mstepS_mu : iv_mu m' = iv_mu m.
Proof. reflexivity. Qed.

Lemma mstepS_grad c d i : (c < C)%nat -> (d < D)%nat -> (i < t)%nat ->
  Sm (seq 0 t) (fun j => ent (nth c (a_w2 st) []) j i * Tm m' c d j) = ent (nth c (a_fw st) []) d i.
Proof. exact (mstep_grad inv C D t floor m st Hw2 Hfw Hsolve c d i). Qed.

Lemma Xs_eq :
  V.map2 (fun w2 fw => if mat_any w2 then V.matmul D (inv (V.transpose t w2)) (V.transpose t fw) else V.mzero t D) (a_w2 st) (a_fw st)
  = map (fun c => Xc c) (seq 0 C).
Proof.
  destruct Hw2 as [W1 _]. destruct Hfw as [F1 _].
  rewrite (g_map2_seq _ (a_w2 st) (a_fw st) C [] [] W1 F1).
  apply map_ext_in. intros c Hc. apply in_seq in Hc. destruct (Hsolve c ltac:(lia)) as [E _].
  unfold InstR.T in *. rewrite E. reflexivity.
Qed.

Lemma mstepS_sig_row c : (c < C)%nat ->
  nth c (iv_sigma m') []
  = V.map2 (fun a b => let v := (a - b) / nth c (a_n st) 0 in if InstR.ltb v floor then floor else v)
           (nth c (a_sn st) []) (V.map2 V.dot (nth c (a_fw st) []) (V.transpose D (Xc c))).
Proof.
  intros Hc. unfold m_step. cbv zeta. cbn [iv_sigma]. rewrite Xs_eq.
  destruct Hsn as [S1 _]. destruct Hfw as [F1 _]. pose proof (len_sig C D t m Hm) as Ls.
  assert (L1 : length (combine (a_sn st) (iv_sigma m)) = C) by (rewrite combine_length; unfold InstR.T in *; rewrite S1, Ls; apply Nat.min_id).
  assert (L2 : length (combine (a_fw st) (map (fun c => Xc c) (seq 0 C))) = C)
    by (rewrite combine_length, map_length, seq_length; unfold InstR.T in *; rewrite F1; apply Nat.min_id).
  rewrite (g_map3_seq _ _ _ (a_n st) C (@nil R, @nil R) (@nil (list R), @nil (list R)) 0 L1 L2 Hn).
  rewrite g_nth_map_seq by exact Hc.
  rewrite combine_nth by (unfold InstR.T in *; rewrite S1, Ls; reflexivity).
  rewrite combine_nth by (rewrite map_length, seq_length; unfold InstR.T in *; rewrite F1; reflexivity).
  cbn [fst snd]. rewrite g_nth_map_seq by exact Hc.
  destruct (InstR.eqb (nth c (a_n st) 0) InstR.zero) eqn:E; [apply eqb_true in E; exfalso; exact (Hn0 c Hc E)|].
  reflexivity.
Qed.

Lemma Xc_len c : (c < C)%nat -> length (Xc c) = t.
Proof. exact (mstep_X_len inv C D t st Hsolve c). Qed.

Lemma mstepS_sig_len : length (iv_sigma m') = C.
Proof.
  unfold m_step. cbv zeta. cbn [iv_sigma]. rewrite Xs_eq.
  destruct Hsn as [S1 _]. destruct Hfw as [F1 _]. pose proof (len_sig C D t m Hm) as Ls.
  rewrite len_map3, !combine_length, map_length, seq_length. unfold InstR.T in *. rewrite S1, Ls, F1, Hn, !Nat.min_id. reflexivity.
Qed.
Lemma mstepS_sig_row_len c : (c < C)%nat -> length (nth c (iv_sigma m') []) = D.
Proof.
  intros Hc. rewrite (mstepS_sig_row c Hc). rewrite !len_map2.
  pose proof (shp_row C D _ c Hsn Hc) as E1. destruct (stk_nth C D t _ c Hfw Hc) as [E2 _].
  destruct (shp_transpose t D (Xc c) (Xc_len c Hc)) as [E3 _].
  unfold InstR.T in *. rewrite E1, E2, E3, !Nat.min_id. reflexivity.
Qed.

Lemma mstepS_sig_ent c d : (c < C)%nat -> (d < D)%nat ->
  sgm m' c d
  = (let v := (ent (a_sn st) c d - Sm (seq 0 t) (fun i => ent (nth c (a_fw st) []) d i * Tm m' c d i)) / nth c (a_n st) 0 in
     if InstR.ltb v floor then floor else v).
Proof.
  intros Hc Hd. unfold sgm. rewrite (mstepS_sig_row c Hc).
  pose proof (shp_row C D _ c Hsn Hc) as E1. pose proof (stk_nth C D t _ c Hfw Hc) as SF. pose proof SF as [E2 _].
  pose proof (shp_transpose t D (Xc c) (Xc_len c Hc)) as ST. pose proof ST as [E3 _].
  rewrite (g_nth_map2 _ _ _ d 0 0 0); [| unfold InstR.T in *; lia | rewrite len_map2; unfold InstR.T in *; rewrite E2, E3, Nat.min_id; exact Hd].
  rewrite (g_nth_map2 V.dot _ _ d [] [] 0); [| unfold InstR.T in *; lia | unfold InstR.T in *; lia].
  rewrite Vdot_eq. rewrite (g_dotR_index _ _ t (shp_row D t _ d ST Hd)).
  assert (ET : forall i, nth i (nth d (V.transpose D (Xc c)) []) 0 = Tm m' c d i).
  { intros i. unfold Tm. change (iv_T m') with (iv_T m0). rewrite (mstep_Tc inv C D t floor m st Hw2 Hfw Hsolve c Hc). reflexivity. }
  cbv zeta. unfold ent at 1.
  assert (ES : Sm (seq 0 t) (fun i => nth i (nth d (nth c (a_fw st) []) []) 0 * nth i (nth d (V.transpose D (Xc c)) []) 0)
               = Sm (seq 0 t) (fun i => ent (nth c (a_fw st) []) d i * Tm m' c d i)).
  { apply Sm_ext. intros i _. rewrite ET. reflexivity. }
  unfold InstR.T in *. rewrite ES. reflexivity.
Qed.

Lemma mstepS_ivm_ok : Forall (Forall (fun v => 0 < v)) (iv_sigma m') -> ivm_ok C D t m'.
Proof.
  intros Hpos. destruct (mstep_ivm_ok inv C D t floor m st Hw2 Hfw Hsolve Hm) as (M1 & M2 & M3 & M4 & _).
  unfold ivm_ok. repeat split.
  - exact M1.
  - exact M2.
  - exact M3.
  - exact M4.
  - exact mstepS_sig_len.
  - rewrite Forall_forall in Hpos. apply Forall_forall. intros r Hr. split; [|exact (Hpos r Hr)].
    destruct (In_nth _ _ [] Hr) as (c & Hc & <-). pose proof mstepS_sig_len as L. unfold InstR.T in *. rewrite L in Hc.
    exact (mstepS_sig_row_len c Hc).
Qed.
End MStepS.

(* ------------------------------------------------------------------ one iteration with covariance updating, marginal unfolded *)
Theorem iv_em_sigma_bridge (inv chol : list (list R) -> list (list R)) (C D t : nat) (floor : R) (m : ivm) (X : list gstat) :
  ivm_ok C D t m -> Forall (IVectorR.gstat_ok C D) X -> 0 < floor ->
  oracles_ok inv chol t m X ->
  let st := e_step inv C D t m X in
  (forall c, (c < C)%nat -> mat_any (nth c (a_w2 st) []) = true /\ inv_ok inv t (V.transpose t (nth c (a_w2 st) []))) ->
  Forall (fun n => 0 < n) (a_n st) ->
  let m' := m_step inv D t true floor m st in
  Forall (Forall (fun v => floor < v)) (iv_sigma m') ->
  oracles_ok inv chol t m' X ->
  rsum (map (fun s => / 2 * dotR (linterm t m s) (V.matvec (inv (precision t m s)) (linterm t m s))
                      - / 2 * logdet chol t (precision t m s)
                      - / 2 * rsum (V.map3 (fun sig n q => rsum (V.map2 (fun sg qd => n * ln sg + qd / sg) sig q))
                                           (iv_sigma m) (g_n s) (snorm1 m s))) X)
  <= rsum (map (fun s => / 2 * dotR (linterm t m' s) (V.matvec (inv (precision t m' s)) (linterm t m' s))
                      - / 2 * logdet chol t (precision t m' s)
                      - / 2 * rsum (V.map3 (fun sig n q => rsum (V.map2 (fun sg qd => n * ln sg + qd / sg) sig q))
                                           (iv_sigma m') (g_n s) (snorm1 m' s))) X).
Proof.
  intros Hm HX Hfl0 Hor st Hsolve Hnpos m' Hfloor Hor'.
  assert (HXs : forall s, In s X -> IVectorR.gstat_ok C D s) by (apply Forall_forall; exact HX).
  assert (Hinv : forall s, In s X -> inv_ok inv t (precision t m s)) by (intros s Hs; apply (Hor s Hs)).
  destruct (estep_w2 inv C D t m Hm X HX Hinv) as [W1 W2]. destruct (estep_fw inv C D t m Hm X HX Hinv) as [F1 F2].
  destruct (estep_sn_n_t inv C D t m Hm X HX) as [E3 E4].
  fold st in W1, W2, F1, F2, E3, E4.
  assert (HNN : forall c, (c < C)%nat -> 0 < NN X c).
  { intros c Hc. rewrite E4 in Hnpos. rewrite Forall_map, Forall_forall in Hnpos. apply Hnpos. apply in_seq. lia. }
  assert (Ssn : shp C D (a_sn st)).
  { rewrite E3. split. now rewrite map_length, seq_length. rewrite Forall_map. apply Forall_forall. intros c _. now rewrite map_length, seq_length. }
  assert (Ln : length (a_n st) = C) by (rewrite E4; now rewrite map_length, seq_length).
  assert (En : forall c, (c < C)%nat -> nth c (a_n st) 0 = NN X c).
  { intros c Hc. rewrite E4. now rewrite g_nth_map_seq. }
  assert (Hn0 : forall c, (c < C)%nat -> nth c (a_n st) 0 <> 0).
  { intros c Hc. rewrite (En c Hc). pose proof (HNN c Hc). lra. }
  assert (Hpos' : Forall (Forall (fun v => 0 < v)) (iv_sigma m')).
  { eapply Forall_impl; [|exact Hfloor]. intros r Hr. eapply Forall_impl; [|exact Hr]. intros v Hv. cbv beta in Hv. lra. }
  assert (Hm' : ivm_ok C D t m') by (apply (mstepS_ivm_ok inv C D t floor m st Hm W1 F1 Ssn Ln Hn0 Hsolve Hpos')).
  set (ldo := fun s => logdet chol t (precision t m s)). set (ldn := fun s => logdet chol t (precision t m' s)).
  assert (E1 : rsum (map (fun s => / 2 * dotR (linterm t m s) (V.matvec (inv (precision t m s)) (linterm t m s))
                      - / 2 * logdet chol t (precision t m s)
                      - / 2 * rsum (V.map3 (fun sig n q => rsum (V.map2 (fun sg qd => n * ln sg + qd / sg) sig q))
                                           (iv_sigma m) (g_n s) (snorm1 m s))) X)
               = Sm X (marg2 C D t gstat nnm (ffm m) (qqm m) (sgm m) (Tm m) (Som inv t m) ldo)).
  { apply Sm_ext. intros s Hs. unfold marg2.
    rewrite <- (marg_ent inv C D t m s ldo Hm (HXs s Hs) (Hinv s Hs)).
    rewrite <- (pen_ent C D m m t s Hm Hm (HXs s Hs)). reflexivity. }
  assert (E2 : rsum (map (fun s => / 2 * dotR (linterm t m' s) (V.matvec (inv (precision t m' s)) (linterm t m' s))
                      - / 2 * logdet chol t (precision t m' s)
                      - / 2 * rsum (V.map3 (fun sig n q => rsum (V.map2 (fun sg qd => n * ln sg + qd / sg) sig q))
                                           (iv_sigma m') (g_n s) (snorm1 m' s))) X)
               = Sm X (marg2 C D t gstat nnm (ffm m) (qqm m) (sgm m') (Tm m') (Som inv t m') ldn)).
  { apply Sm_ext. intros s Hs. unfold marg2.
    change (ffm m) with (ffm m').
    rewrite <- (marg_ent inv C D t m' s ldn Hm' (HXs s Hs) (proj1 (Hor' s Hs))).
    change (qqm m) with (qqm m').
    rewrite <- (pen_ent C D m' m' t s Hm' Hm' (HXs s Hs)). reflexivity. }
  rewrite E1, E2.
  apply (em_sigma_core C D t gstat X nnm (ffm m) (qqm m) (sgm m) (sgm m')).
  - intros s Hs c Hc. exact (nnm_nonneg C D s (HXs s Hs) c Hc).
  - intros c d Hc Hd. exact (sgm_pos C D t m Hm c d Hc Hd).
  - intros c d Hc Hd. exact (sgm_pos C D t m' Hm' c d Hc Hd).
  - intros s Hs i k Hi Hk.
    destruct (Hinv s Hs) as (I1 & I2 & I3). destruct (precision_shape C D t m s Hm (HXs s Hs)) as [P1 P2].
    rewrite <- (right_inv_ent t (precision t m s) (inv (precision t m s)) P1 I1 I3 i k Hi Hk).
    apply Sm_ext_n. intros j Hj. f_equal. symmetry. exact (precision_ent C D t m s Hm (HXs s Hs) i j Hi Hj).
  - intros s Hs i k Hi Hk.
    destruct (proj1 (Hor' s Hs)) as (I1 & I2 & I3). destruct (precision_shape C D t m' s Hm' (HXs s Hs)) as [P1 P2].
    rewrite <- (right_inv_ent t (precision t m' s) (inv (precision t m' s)) P1 I1 I3 i k Hi Hk).
    apply Sm_ext_n. intros j Hj. f_equal. symmetry. exact (precision_ent C D t m' s Hm' (HXs s Hs) i j Hi Hj).
  - intros s Hs. destruct (Hor s Hs) as [(I1 & I2 & I3) Hc1]. destruct (Hor' s Hs) as [_ Hc2].
    pose proof (logdet_kl t (precision t m s) (precision t m' s) (chol (precision t m s)) (chol (precision t m' s))
                  (inv (precision t m s)) Hc1 Hc2 I1 I2 I3) as H.
    assert (E : rsum (map (fun i => nth i (nth i (V.matmul t (inv (precision t m s)) (precision t m' s)) []) 0) (seq 0 t))
                = Sm (seq 0 t) (fun i => Sm (seq 0 t) (fun j => Som inv t m s i j * Pe C D gstat nnm (sgm m') (Tm m') s j i))).
    { apply Sm_ext_n. intros i Hi.
      etransitivity. { exact (ent_mm t t t _ _ i i (conj I1 I2) (precision_shape C D t m' s Hm' (HXs s Hs)) Hi Hi). }
      apply Sm_ext_n. intros j Hj. f_equal. exact (precision_ent C D t m' s Hm' (HXs s Hs) j i Hj Hi). }
    rewrite E in H. exact H.
  - intros c d i Hc Hd Hi.
    rewrite <- (F2 c d i Hc Hd Hi). rewrite <- (mstepS_grad inv C D t floor m st W1 F1 Hsolve c d i Hc Hd Hi).
    apply Sm_ext_n. intros j Hj. f_equal. symmetry. exact (W2 c j i Hc Hj Hi).
  - intros c Hc. rewrite <- NN_NNc. exact (HNN c Hc).
  - intros c d Hc Hd.
    pose proof (mstepS_sig_ent inv C D t floor m st Hm W1 F1 Ssn Ln Hn0 Hsolve c d Hc Hd) as Es. cbv zeta in Es. fold m' in Es.
    assert (Hgt : floor < sgm m' c d).
    { unfold sgm. apply (g_Forall_nth_lt (fun v => floor < v)).
      - apply (g_Forall_nth_lt (Forall (fun v => floor < v)) (iv_sigma m') c [] Hfloor).
        pose proof (len_sig C D t m' Hm') as L. unfold InstR.T in *. lia.
      - pose proof (len_sigc C D t m' Hm' c Hc) as L. unfold InstR.T in *. lia. }
    destruct (InstR.ltb _ floor) in Es; [rewrite Es in Hgt; lra|].
    rewrite Es. rewrite (En c Hc), <- NN_NNc, <- SN_SQc. f_equal. f_equal.
    + unfold ent. rewrite E3. rewrite g_nth_map_seq by exact Hc. now rewrite g_nth_map_seq.
    + apply Sm_ext_n. intros i Hi. rewrite (F2 c d i Hc Hd Hi). reflexivity.
Qed.

Print Assumptions iv_em_sigma_bridge.
