(* C10: "components with zero count".  The general-dimension EM theorem of Proofs/IVGeneral.v asks every component to have data (the M-step
   then solves T_c A_c = B_c).  A component that receives no count from ANY training utterance (and hence has zero first-order
   statistics) takes the other branch of the code's M-step (T_c := 0); it does not enter the marginal likelihood at all, and the iteration
   is still monotone.  This file proves the theorem with that case included, with fixed covariances. *)
From Coq Require Import Reals Lra List Lia Bool Arith.
From BLE Require Import Num.Scalar Num.InstR Lib.Vec Model.IVector Proofs.RLemmas Proofs.IVectorR Proofs.IVGeneral.
Import ListNotations.
Open Scope R_scope.
Import IR.
From BLE Require Import Proofs.SPDCore Proofs.IVGeneralAux Proofs.IVGeneralZeroAux.

(* component c is unoccupied in the training set: zero count and zero first-order statistics in every utterance *)
Definition unoccupied (D : nat) (X : list gstat) (c : nat) : Prop :=
  forall s, In s X -> nth c (g_n s) 0 = 0 /\ nth c (g_px s) [] = repeat 0 D.

Theorem iv_em_monotone_general_zero_counts (inv chol : list (list R) -> list (list R)) (C D t : nat) (floor : R) (m : ivm) (X : list gstat) :
  ivm_ok C D t m -> Forall (IVectorR.gstat_ok C D) X ->
  oracles_ok inv chol t m X ->
  let st := e_step inv C D t m X in
  (forall c, (c < C)%nat ->
     (mat_any (nth c (a_w2 st) []) = true /\ inv_ok inv t (V.transpose t (nth c (a_w2 st) [])))
     \/ unoccupied D X c) ->
  let m' := m_step inv D t false floor m st in
  oracles_ok inv chol t m' X ->
  iv_marginal_t inv chol t m X <= iv_marginal_t inv chol t m' X.
Proof.
  intros Hm HX Hor st Hsolve m' Hor'.
  assert (HXs : forall s, In s X -> IVectorR.gstat_ok C D s) by (apply Forall_forall; exact HX).
  assert (Hinv : forall s, In s X -> inv_ok inv t (precision t m s)) by (intros s Hs; apply (Hor s Hs)).
  destruct (estep_w2 inv C D t m Hm X HX Hinv) as [W1 W2]. destruct (estep_fw inv C D t m Hm X HX Hinv) as [F1 F2].
  fold st in W1, W2, F1, F2.
  assert (Hcase : forall c, (c < C)%nat ->
            (mat_any (nth c (a_w2 st) []) = true /\ inv_ok inv t (V.transpose t (nth c (a_w2 st) [])))
            \/ mat_any (nth c (a_w2 st) []) = false).
  { intros c Hc. destruct (Hsolve c Hc) as [H|H]; [left; exact H|right].
    apply (estep_w2_allz inv C D t m X c HX Hc). intros s Hs. exact (proj1 (H s Hs)). }
  assert (Hm' : ivm_ok C D t m') by (apply (mstepz_ivm_ok inv C D t floor m st W1 F1 Hcase Hm)).
  set (ldo := fun s => logdet chol t (precision t m s)). set (ldn := fun s => logdet chol t (precision t m' s)).
  unfold iv_marginal_t.
  assert (E1 : rsum (map (fun s => / 2 * dotR (linterm t m s) (V.matvec (inv (precision t m s)) (linterm t m s))
                                   - / 2 * logdet chol t (precision t m s)) X)
               = Sm X (marg C D t gstat (ffm m) (sgm m) (Tm m) (Som inv t m) ldo)).
  { apply Sm_ext. intros s Hs. exact (marg_ent inv C D t m s ldo Hm (HXs s Hs) (Hinv s Hs)). }
  assert (E2 : rsum (map (fun s => / 2 * dotR (linterm t m' s) (V.matvec (inv (precision t m' s)) (linterm t m' s))
                                   - / 2 * logdet chol t (precision t m' s)) X)
               = Sm X (marg C D t gstat (ffm m) (sgm m) (Tm m') (Som inv t m') ldn)).
  { apply Sm_ext. intros s Hs. exact (marg_ent inv C D t m' s ldn Hm' (HXs s Hs) (proj1 (Hor' s Hs))). }
  rewrite E1, E2.
  apply (em_core C D t gstat X nnm (ffm m) (sgm m)).
  - intros s Hs c Hc. exact (nnm_nonneg C D s (HXs s Hs) c Hc).
  - intros c d Hc Hd. exact (sgm_pos C D t m Hm c d Hc Hd).
  - intros s Hs i k Hi Hk.
    destruct (Hinv s Hs) as (I1 & I2 & I3). destruct (precision_shape C D t m s Hm (HXs s Hs)) as [P1 P2].
    rewrite <- (right_inv_ent t (precision t m s) (inv (precision t m s)) P1 I1 I3 i k Hi Hk).
    apply Sm_ext_n. intros j Hj. f_equal. symmetry. exact (precision_ent C D t m s Hm (HXs s Hs) i j Hi Hj).
  - intros s Hs i k Hi Hk.
    destruct (proj1 (Hor' s Hs)) as (I1 & I2 & I3). destruct (precision_shape C D t m' s Hm' (HXs s Hs)) as [P1 P2].
    rewrite <- (right_inv_ent t (precision t m' s) (inv (precision t m' s)) P1 I1 I3 i k Hi Hk).
    apply Sm_ext_n. intros j Hj. f_equal. symmetry. exact (precision_ent C D t m' s Hm' (HXs s Hs) i j Hi Hj).
  - intros s Hs. destruct (Hor s Hs) as [(I1 & I2 & I3) Hc1]. destruct (Hor' s Hs) as [_ Hc2].
    pose proof (logdet_kl t (precision t m s) (precision t m' s) (chol (precision t m s)) (chol (precision t m' s))
                  (inv (precision t m s)) Hc1 Hc2 I1 I2 I3) as H.
    assert (E : rsum (map (fun i => nth i (nth i (V.matmul t (inv (precision t m s)) (precision t m' s)) []) 0) (seq 0 t))
                = Sm (seq 0 t) (fun i => Sm (seq 0 t) (fun j => Som inv t m s i j * Pe C D gstat nnm (sgm m) (Tm m') s j i))).
    { apply Sm_ext_n. intros i Hi.
      etransitivity. { exact (ent_mm t t t _ _ i i (conj I1 I2) (precision_shape C D t m' s Hm' (HXs s Hs)) Hi Hi). }
      apply Sm_ext_n. intros j Hj. f_equal. exact (precision_ent C D t m' s Hm' (HXs s Hs) j i Hj Hi). }
    rewrite E in H. exact H.
  - intros c d i Hc Hd Hi. destruct (Hsolve c Hc) as [[Ht Hi2]|Hun].
    + rewrite <- (F2 c d i Hc Hd Hi). rewrite <- (mstepz_grad inv C D t floor m st W1 F1 Hcase c d i Hc Hd Hi Ht Hi2).
      apply Sm_ext_n. intros j Hj. f_equal. symmetry. exact (W2 c j i Hc Hj Hi).
    + transitivity 0.
      * apply Sm_zero. intros j _. unfold Ac. rewrite (Sm_zero X); [ring|].
        intros s Hs. unfold nnm. rewrite (proj1 (Hun s Hs)). ring.
      * symmetry. unfold Bc. apply Sm_zero. intros s Hs. destruct (Hun s Hs) as [U1 U2].
        rewrite (ffm_unocc C D t m s c d Hm (HXs s Hs) Hc Hd U1 U2). ring.
Qed.

(* an unoccupied component takes the zero branch of the M-step: its accumulated second-moment matrix is the zero matrix *)
Theorem unoccupied_takes_zero_branch (inv : list (list R) -> list (list R)) (C D t : nat) (m : ivm) (X : list gstat) (c : nat) :
  ivm_ok C D t m -> Forall (IVectorR.gstat_ok C D) X -> (c < C)%nat -> unoccupied D X c ->
  mat_any (nth c (a_w2 (e_step inv C D t m X)) []) = false.
Proof.
  intros Hm HX Hc Hun. apply (estep_w2_allz inv C D t m X c HX Hc). intros s Hs. exact (proj1 (Hun s Hs)).
Qed.

Print Assumptions iv_em_monotone_general_zero_counts.
Print Assumptions unoccupied_takes_zero_branch.
