(* Helpers for Proofs/IVGeneralZero.v: all-zero matrices through the E-step fold, and the M-step bridge lemmas of
   Proofs/IVGeneralAux.v with the case split "solving branch / zero branch" per component. *)
From Coq Require Import Reals Lra List Lia Bool Arith.
From BLE Require Import Num.Scalar Num.InstR Lib.Vec Model.IVector Proofs.RLemmas Proofs.IVectorR Proofs.SPDCore Proofs.IVGeneralAux.
Import ListNotations.
Open Scope R_scope.
Import IR.

(* ------------------------------------------------------------------ matrices all of whose entries are zero (any shape) *)
Definition allz (M : list (list R)) : Prop := Forall (Forall (fun a : R => a = 0)) M.

Lemma mat_any_allz M : allz M -> mat_any M = false.
Proof.
  unfold mat_any. induction 1 as [|r M Hr HM IH]; cbn [existsb]; [reflexivity|].
  rewrite IH, orb_false_r. clear IH HM. induction Hr as [|a r Ha Hr IH]; cbn [existsb]; [reflexivity|].
  rewrite IH, orb_false_r. subst a. apply negb_false_iff. apply eqb_true. reflexivity.
Qed.
Lemma allz_mzero r c : allz (V.mzero r c).
Proof.
  unfold allz, V.mzero, V.vzero. apply Forall_forall. intros x Hx. apply repeat_spec in Hx. subst x.
  apply Forall_forall. intros a Ha. apply repeat_spec in Ha. exact Ha.
Qed.
Lemma allz_mscale0 M : allz (V.mscale 0 M).
Proof.
  unfold allz, V.mscale, V.vscale. rewrite Forall_map. apply Forall_forall. intros r _.
  rewrite Forall_map. apply Forall_forall. intros a _. unfold InstR.mul. ring.
Qed.
Lemma allz_madd A B : allz A -> allz B -> allz (V.madd A B).
Proof.
  unfold allz, V.madd. intros HA HB.
  eapply (Forall_map2 _ (Forall (fun a : R => a = 0)) (Forall (fun a : R => a = 0)) (Forall (fun a : R => a = 0))); [|exact HA|exact HB].
  intros x y Hx Hy. unfold V.vadd.
  eapply (Forall_map2 _ (fun a : R => a = 0) (fun a : R => a = 0) (fun a : R => a = 0)); [|exact Hx|exact Hy].
  intros a b -> ->. unfold InstR.add. ring.
Qed.
Lemma allz_nth_map2 c : forall (A B : list (list (list R))),
  allz (nth c A []) -> allz (nth c B []) -> allz (nth c (V.map2 V.madd A B) []).
Proof.
  induction c as [|c IH]; intros [|x A] [|y B] HA HB; cbn [V.map2 nth] in *; try (constructor; fail).
  - now apply allz_madd.
  - now apply IH.
Qed.

Lemma fold_allz (inv : list (list R) -> list (list R)) (t : nat) (m : ivm) (c : nat) (X : list gstat) :
  (forall s, In s X -> (c < length (g_n s))%nat /\ nth c (g_n s) 0 = 0) ->
  forall a0, allz (nth c (a_w2 a0) []) ->
  allz (nth c (a_w2 (fold_left (fun a s => acc_add a (acc1 inv t m s)) X a0)) []).
Proof.
  induction X as [|s X IH]; intros HX a0 H0; cbn [fold_left]; [exact H0|].
  apply IH. { intros s' Hs'. apply HX. now right. }
  cbn [acc_add a_w2]. apply allz_nth_map2; [exact H0|].
  destruct (HX s (or_introl eq_refl)) as [Hl Hn].
  unfold acc1. cbv zeta. cbn [a_w2].
  rewrite (g_nth_map_lt (fun n => V.mscale n _) (g_n s) c [] 0 Hl).
  unfold InstR.T in *. rewrite Hn. apply allz_mscale0.
Qed.

Lemma estep_w2_allz (inv : list (list R) -> list (list R)) (C D t : nat) (m : ivm) (X : list gstat) (c : nat) :
  Forall (IVectorR.gstat_ok C D) X -> (c < C)%nat ->
  (forall s, In s X -> nth c (g_n s) 0 = 0) ->
  mat_any (nth c (a_w2 (e_step inv C D t m X)) []) = false.
Proof.
  intros HX Hc H0. apply mat_any_allz. unfold e_step. apply fold_allz.
  - intros s Hs. split; [|exact (H0 s Hs)].
    pose proof (proj1 (Forall_forall _ X) HX s Hs) as (G1 & _). unfold InstR.T in *. lia.
  - cbn [zero_acc a_w2]. rewrite (FAEnroll.nth_repeat_lt (V.mzero t t) [] C c Hc). apply allz_mzero.
Qed.

(* ------------------------------------------------------------------ index form: an unoccupied component has A_c = 0 and B_c = 0 *)
Lemma ffm_unocc (C D t : nat) (m : ivm) (s : gstat) (c d : nat) :
  ivm_ok C D t m -> IVectorR.gstat_ok C D s -> (c < C)%nat -> (d < D)%nat ->
  nth c (g_n s) 0 = 0 -> nth c (g_px s) [] = repeat 0 D -> ffm m s c d = 0.
Proof.
  intros Hm Hs Hc Hd Hn Hf. unfold ffm, fnorm.
  pose proof Hs as (G1 & G2 & G3 & G4 & _). pose proof Hm as (M1 & M2 & _).
  rewrite (g_map3_seq _ (g_px s) (g_n s) (iv_mu m) C [] 0 [] G3 G1 M1).
  rewrite (g_nth_map_seq _ C c [] Hc).
  unfold InstR.T in *. rewrite Hn, Hf.
  assert (Lm : length (nth c (iv_mu m) []) = D).
  { apply (g_Forall_nth_lt (fun r : list R => length r = D) (iv_mu m) c [] M2). unfold InstR.T in *. lia. }
  rewrite (g_nth_map2 _ (repeat 0 D) (nth c (iv_mu m) []) d 0 0 0).
  - rewrite (FAEnroll.nth_repeat_lt 0 0 D d Hd). unfold InstR.sub, InstR.mul. ring.
  - rewrite repeat_length. exact Hd.
  - unfold InstR.T in *. lia.
Qed.

(* ------------------------------------------------------------------ the M-step, each component on either branch *)
Section MStepZ.
Variable inv : list (list R) -> list (list R).
Variables (C D t : nat) (floor : R) (m : ivm) (st : acc).
Hypothesis Hw2 : stk_ok C t t (a_w2 st).
Hypothesis Hfw : stk_ok C D t (a_fw st).
Hypothesis Hcase : forall c, (c < C)%nat ->
  (mat_any (nth c (a_w2 st) []) = true /\ inv_ok inv t (V.transpose t (nth c (a_w2 st) [])))
  \/ mat_any (nth c (a_w2 st) []) = false.
Notation m' := (m_step inv D t false floor m st).

Definition Xz (c : nat) : list (list R) :=
  if mat_any (nth c (a_w2 st) []) then V.matmul D (inv (V.transpose t (nth c (a_w2 st) []))) (V.transpose t (nth c (a_fw st) []))
  else V.mzero t D.

Lemma mstepz_T : iv_T m' = map (fun c => V.transpose D (Xz c)) (seq 0 C).
Proof.
  unfold m_step. cbn [iv_T]. destruct Hw2 as [W1 _]. destruct Hfw as [F1 _].
  rewrite (g_map2_seq _ (a_w2 st) (a_fw st) C [] [] W1 F1). rewrite map_map. reflexivity.
Qed.
Lemma mstepz_Tc c : (c < C)%nat -> nth c (iv_T m') [] = V.transpose D (Xz c).
Proof. intros Hc. rewrite mstepz_T. now rewrite g_nth_map_seq. Qed.
Lemma mstepz_X_len c : (c < C)%nat -> length (Xz c) = t.
Proof.
  intros Hc. unfold Xz. destruct (Hcase c Hc) as [[E (I1 & _)]|E]; unfold InstR.T in *; rewrite E.
  - destruct (shp_matmul t D _ (V.transpose t (nth c (a_fw st) [])) I1) as [H _]. exact H.
  - destruct (shp_mzero t D) as [H _]. exact H.
Qed.

Lemma mstepz_ivm_ok : ivm_ok C D t m -> ivm_ok C D t m'.
Proof.
  intros (M1 & M2 & M3 & M4 & M5 & M6). unfold ivm_ok. change (iv_mu m') with (iv_mu m). change (iv_sigma m') with (iv_sigma m).
  repeat split; try assumption.
  - rewrite mstepz_T. now rewrite map_length, seq_length.
  - rewrite mstepz_T. rewrite Forall_map. apply Forall_forall. intros c Hc. apply in_seq in Hc.
    exact (shp_transpose t D _ (mstepz_X_len c ltac:(lia))).
Qed.

Lemma mstepz_T_ent c d i : (c < C)%nat -> (d < D)%nat -> (i < t)%nat ->
  mat_any (nth c (a_w2 st) []) = true -> inv_ok inv t (V.transpose t (nth c (a_w2 st) [])) ->
  Tm m' c d i = Sm (seq 0 t) (fun j => ent (inv (V.transpose t (nth c (a_w2 st) []))) i j * ent (nth c (a_fw st) []) d j).
Proof.
  intros Hc Hd Hi E (I1 & I2 & _). unfold Tm. rewrite (mstepz_Tc c Hc).
  pose proof (mstepz_X_len c Hc) as LX. unfold Xz in *. unfold InstR.T in *. rewrite E in *.
  change (nth i (nth d (V.transpose D ?X) []) 0) with (ent (V.transpose D X) d i).
  pose proof (stk_nth C D t _ c Hfw Hc) as SF. pose proof SF as [F1 F2].
  etransitivity. { apply ent_transpose. exact Hd. unfold InstR.T in *. rewrite LX. exact Hi. }
  etransitivity. { exact (ent_mm t t D _ _ i d (conj I1 I2) (shp_transpose D t _ F1) Hi Hd). }
  apply Sm_ext_n. intros j Hj. f_equal. apply ent_transpose. exact Hj. unfold InstR.T in *. lia.
Qed.
Lemma mstepz_grad c d i : (c < C)%nat -> (d < D)%nat -> (i < t)%nat ->
  mat_any (nth c (a_w2 st) []) = true -> inv_ok inv t (V.transpose t (nth c (a_w2 st) [])) ->
  Sm (seq 0 t) (fun j => ent (nth c (a_w2 st) []) j i * Tm m' c d j) = ent (nth c (a_fw st) []) d i.
Proof.
  intros Hc Hd Hi E Hinv. pose proof Hinv as (I1 & I2 & I3).
  pose proof (stk_nth C D t _ c Hfw Hc) as SF. pose proof (stk_nth C t t _ c Hw2 Hc) as SW. pose proof SW as [W1 W2].
  set (v := nth d (nth c (a_fw st) []) []).
  assert (Lv : length v = t) by (apply (shp_row D t _ d SF Hd)).
  specialize (I3 v Lv).
  assert (E' : nth i (V.matvec (V.transpose t (nth c (a_w2 st) [])) (V.matvec (inv (V.transpose t (nth c (a_w2 st) []))) v)) 0 = nth i v 0)
    by now rewrite I3.
  rewrite (g_nth_matvec _ _ i t) in E'.
  2:{ destruct (shp_transpose t t (nth c (a_w2 st) []) W1) as [H _]. unfold InstR.T in *. rewrite H. exact Hi. }
  2:{ rewrite matvec_len. exact I1. }
  change (nth i v 0) with (ent (nth c (a_fw st) []) d i) in E'. rewrite <- E'.
  apply Sm_ext_n. intros j Hj. f_equal.
  - symmetry. apply ent_transpose. exact Hi. unfold InstR.T in *. lia.
  - rewrite (mstepz_T_ent c d j Hc Hd Hj E Hinv). rewrite (g_nth_matvec _ _ j t); [reflexivity|unfold InstR.T in *; lia|exact Lv].
Qed.
End MStepZ.
