(* C10: i-vector training with a rank-1 total-variability subspace (t = 1) and fixed covariances
   (update_sigma = False) is exact EM: the code's iteration (e_step then m_step, the external solver used only on
   1x1 matrices) is the EM step on the column T and never decreases the marginal likelihood of the training
   statistics (the scalar i-vector of every utterance integrated out).  The abstract core is
   rank1_core_monotone of JFARank1.v with "class" read as "utterance". *)
From Coq Require Import Reals Lra List Lia Bool Arith.
From BLE Require Import Num.Scalar Num.InstR Lib.Vec Model.IVector Proofs.RLemmas Proofs.IVectorR Proofs.JFATrain Proofs.JFARank1.
Import ListNotations.
Open Scope R_scope.
Import IR.

(* rank 1: T_c is a column (D rows of length 1); the supervector-sized column *)
Definition tcol (Ts : list (list (list R))) : list R := concat (map (fun Tc => map (fun r => nth 0 r 0) Tc) Ts).
(* utterance s:  N_s (each count repeated D times) and the centred first-order statistics F_s - N_s m, both flat *)
Definition utt_NG (D : nat) (m : ivm) (s : gstat) : list R * list R :=
  (concat (map (fun a => repeat a D) (g_n s)), concat (fnorm m s)).
(* log marginal of the statistics as a function of T (means and covariances held fixed), up to a constant:
   sum_s [ b_s^2 / (2 L_s) - 1/2 ln L_s ],  L_s = 1 + sum_cd N_sc T_cd^2 / sigma_cd,  b_s = sum_cd T_cd (F_s - N_s m)_cd / sigma_cd *)
Definition iv_marginal (D : nat) (m : ivm) (Ts : list (list (list R))) (X : list gstat) : R :=
  rsum (map (fun s => v_marg (tcol Ts) (concat (iv_sigma m)) (fst (utt_NG D m s)) (snd (utt_NG D m s))) X).


(* ------------------------------------------------------------------ generic helpers *)
Lemma v_prec_IR v s n : v_prec v s n = 1 + rsum (V.map3 (fun vj sj nj => nj * vj * vj / sj) v s n).
Proof. reflexivity. Qed.
Lemma v_lin_IR v s g : v_lin v s g = rsum (V.map3 (fun vj sj gj => vj * gj / sj) v s g).
Proof. reflexivity. Qed.
Lemma iv_vsum_rsum l : V.vsum l = rsum l.
Proof. induction l as [|x l IH]; cbn [V.vsum rsum]; [reflexivity|]. rewrite IH. reflexivity. Qed.
Lemma iv_map3_app {A B C0 E} (f : A -> B -> C0 -> E) a1 a2 b1 b2 c1 c2 :
  length a1 = length b1 -> length a1 = length c1 ->
  V.map3 f (a1 ++ a2) (b1 ++ b2) (c1 ++ c2) = V.map3 f a1 b1 c1 ++ V.map3 f a2 b2 c2.
Proof.
  revert b1 c1; induction a1 as [|x a1 IH]; intros [|y b1] [|z c1] H1 H2; cbn [length app V.map3] in *; try discriminate; auto.
  f_equal. apply IH; lia.
Qed.
Lemma iv_msum11_map3 {A B C0} (f : A -> B -> C0 -> R) As Bs Cs :
  msum 1 1 (V.map3 (fun a b c => [[f a b c]]) As Bs Cs) = [[rsum (V.map3 f As Bs Cs)]].
Proof.
  revert Bs Cs; induction As as [|a As IH]; intros [|b Bs] [|c Cs]; try reflexivity.
  cbn [V.map3 rsum]. unfold msum in *. cbn [fold_right]. rewrite IH. reflexivity.
Qed.
Lemma iv_fold_vadd1_map3 {A B C0} (f : A -> B -> C0 -> R) As Bs Cs :
  fold_right V.vadd (V.vzero 1) (V.map3 (fun a b c => [f a b c]) As Bs Cs) = [rsum (V.map3 f As Bs Cs)].
Proof.
  revert Bs Cs; induction As as [|a As IH]; intros [|b Bs] [|c Cs]; try reflexivity.
  cbn [V.map3 rsum fold_right]. rewrite IH. reflexivity.
Qed.
Lemma mat_eq_seq (C D : nat) (M : list (list R)) : length M = C -> Forall (fun r => length r = D) M ->
  M = map (fun c => map (fun d => nth d (nth c M []) 0) (seq 0 D)) (seq 0 C).
Proof.
  intros H1 H2. etransitivity; [apply (list_eq_seq M [])|]. unfold InstR.T in *. rewrite H1.
  apply map_ext_in. intros c Hc. apply in_seq in Hc.
  etransitivity; [apply (list_eq_seq (nth c M []) 0)|].
  assert (E : length (nth c M []) = D). { apply (FAEnroll.Forall_nth_lt (fun r : list R => length r = D)); [exact H2|lia]. }
  unfold InstR.T in *. rewrite E. reflexivity.
Qed.
Lemma transpose_row (D : nat) (row : list R) : length row = D -> V.transpose D [row] = map (fun x => [x]) row.
Proof.
  revert row; induction D as [|D IH]; intros [|x row] H; cbn [length] in H; try discriminate; [reflexivity|].
  cbn [V.transpose map hd tl]. f_equal. apply IH. lia.
Qed.
Lemma concat_blocks_seq {B} (G : nat -> B) (C D : nat) :
  concat (map (fun c => map (fun d => G (c * D + d)%nat) (seq 0 D)) (seq 0 C)) = map G (seq 0 (C * D)).
Proof.
  induction C as [|C IH]; [reflexivity|].
  rewrite seq_S, map_app, concat_app, IH. cbn [map concat Nat.add Nat.mul]. rewrite app_nil_r.
  replace (D + C * D)%nat with (C * D + D)%nat by lia. rewrite seq_app, map_app. f_equal.
  cbn [Nat.add]. symmetry. apply FAEnroll.map_seq_shift.
Qed.
(* per-component pieces of L_s and b_s *)
Lemma block_prec (D : nat) (n : R) (Tc : list (list R)) (sig : list R) : length Tc = D -> length sig = D ->
  rsum (V.map3 (fun vj sj nj => nj * vj * vj / sj) (map (fun r => nth 0 r 0) Tc) sig (repeat n D))
  = n * V.vsum (V.map2 (fun row s0 => nth 0 row 0 / s0 * nth 0 row 0) Tc sig).
Proof.
  revert D sig; induction Tc as [|row Tc IH]; intros [|D] [|s0 sig] H1 H2; cbn [length] in *; try discriminate.
  - cbn. unfold_R. ring.
  - cbn [map repeat V.map3 V.map2 rsum V.vsum]. rewrite (IH D sig) by lia. unfold_R. unfold Rdiv. ring.
Qed.
Lemma block_lin (Tc : list (list R)) (sig fn : list R) :
  rsum (V.map3 (fun vj sj gj => vj * gj / sj) (map (fun r => nth 0 r 0) Tc) sig fn)
  = V.vsum (V.map3 (fun row sg f => nth 0 row 0 / sg * f) Tc sig fn).
Proof.
  revert sig fn; induction Tc as [|row Tc IH]; intros [|s0 sig] [|f fn]; try reflexivity.
  cbn [map V.map3 rsum V.vsum]. rewrite IH. unfold_R. unfold Rdiv. ring.
Qed.
Lemma prec_blocks (D : nat) Ts (sigs : list (list R)) (ns : list R) :
  Forall (fun Tc : list (list R) => length Tc = D) Ts -> Forall (fun r => length r = D) sigs ->
  length Ts = length sigs -> length Ts = length ns ->
  rsum (V.map3 (fun vj sj nj => nj * vj * vj / sj) (tcol Ts) (concat sigs) (concat (map (fun a => repeat a D) ns)))
  = rsum (V.map3 (fun Tc sig n => n * V.vsum (V.map2 (fun row s0 => nth 0 row 0 / s0 * nth 0 row 0) Tc sig)) Ts sigs ns).
Proof.
  intros FT; revert sigs ns; induction FT as [|Tc Ts HT FT IH]; intros [|sig sigs] [|n ns] FS H1 H2; cbn [length] in *; try discriminate; try reflexivity.
  apply Forall_cons_iff in FS; destruct FS as [Hs FS']. unfold tcol in *. cbn [map concat V.map3 rsum].
  rewrite iv_map3_app by (rewrite ?map_length, ?repeat_length; unfold InstR.T in *; congruence).
  rewrite rsum_app, (IH sigs ns) by (auto; lia). rewrite (block_prec D) by assumption. reflexivity.
Qed.
Lemma lin_blocks (D : nat) Ts (sigs fns : list (list R)) :
  Forall (fun Tc : list (list R) => length Tc = D) Ts -> Forall (fun r => length r = D) sigs -> Forall (fun r => length r = D) fns ->
  length Ts = length sigs -> length Ts = length fns ->
  rsum (V.map3 (fun vj sj gj => vj * gj / sj) (tcol Ts) (concat sigs) (concat fns))
  = rsum (V.map3 (fun Tc sig fn => V.vsum (V.map3 (fun row sg f => nth 0 row 0 / sg * f) Tc sig fn)) Ts sigs fns).
Proof.
  intros FT; revert sigs fns; induction FT as [|Tc Ts HT FT IH]; intros [|sig sigs] [|fn fns] FS FF H1 H2; cbn [length] in *; try discriminate; try reflexivity.
  apply Forall_cons_iff in FS; destruct FS as [Hs FS']. apply Forall_cons_iff in FF; destruct FF as [Hf FF']. unfold tcol in *. cbn [map concat V.map3 rsum].
  rewrite iv_map3_app by (rewrite ?map_length; unfold InstR.T in *; congruence).
  rewrite rsum_app, (IH sigs fns) by (auto; lia). rewrite block_lin. reflexivity.
Qed.


Section R1.
Variable inv : list (list R) -> list (list R).
Variables (C D : nat) (m : ivm).
Hypothesis Hinv : inv1_ok inv.
Hypothesis Hm : ivm_ok C D 1 m.

(* posterior mean and variance of the scalar i-vector of utterance s *)
Definition ybs (s : gstat) : R := yb (tcol (iv_T m)) (concat (iv_sigma m)) (utt_NG D m s).
Definition vrs (s : gstat) : R := vr (tcol (iv_T m)) (concat (iv_sigma m)) (utt_NG D m s).

Lemma T_rows : Forall (fun Tc : list (list R) => length Tc = D) (iv_T m).
Proof. destruct Hm as (_ & _ & _ & H & _). eapply Forall_impl; [|exact H]. intros Tc [H1 _]. exact H1. Qed.
Lemma sig_rows : Forall (fun r : list R => length r = D) (iv_sigma m).
Proof. destruct Hm as (_ & _ & _ & _ & _ & H). eapply Forall_impl; [|exact H]. intros r [H1 _]. exact H1. Qed.
Lemma len_T : length (iv_T m) = C. Proof. apply Hm. Qed.
Lemma len_sig : length (iv_sigma m) = C. Proof. apply Hm. Qed.
Lemma len_tcol : length (tcol (iv_T m)) = (C * D)%nat.
Proof.
  unfold tcol. rewrite (FAEnroll.len_concat _ D).
  - rewrite map_length. pose proof len_T as E. unfold InstR.T in *. now rewrite E.
  - apply Forall_map. eapply Forall_impl; [|exact T_rows]. intros Tc H. cbv beta. now rewrite map_length.
Qed.
Lemma len_ss : length (concat (iv_sigma m)) = (C * D)%nat.
Proof. etransitivity; [apply (FAEnroll.len_concat _ D sig_rows)|]. pose proof len_sig as E. unfold InstR.T in *. now rewrite E. Qed.
Lemma ss_pos : Forall (fun x => 0 < x) (concat (iv_sigma m)).
Proof.
  apply FAEnroll.Forall_concat'. destruct Hm as (_ & _ & _ & _ & _ & H). eapply Forall_impl; [|exact H]. intros r [_ H2]. exact H2.
Qed.

Lemma fnorm_shape s : IVectorR.gstat_ok C D s -> length (fnorm m s) = C /\ Forall (fun r : list R => length r = D) (fnorm m s).
Proof.
  intros (G1 & G2 & G3 & G4 & _). destruct Hm as (M1 & M2 & _). unfold fnorm. split.
  - rewrite len_map3. unfold InstR.T in *. rewrite G3, G1, M1, !Nat.min_id. reflexivity.
  - eapply (Forall_map3 _ (fun r : list R => length r = D) (fun _ => True) (fun r : list R => length r = D)); [|exact G4|apply Forall_True|exact M2].
    intros f n mu Hf _ Hmu. cbv beta. rewrite len_map2. unfold InstR.T in *. rewrite Hf, Hmu. apply Nat.min_id.
Qed.
Lemma rep_rows (ns : list R) : Forall (fun r : list R => length r = D) (map (fun a => repeat a D) ns).
Proof. apply Forall_map. apply Forall_forall. intros x _. apply repeat_length. Qed.
Lemma utt_ok s : IVectorR.gstat_ok C D s ->
  length (fst (utt_NG D m s)) = (C * D)%nat /\ length (snd (utt_NG D m s)) = (C * D)%nat
  /\ Forall (fun n => 0 <= n) (fst (utt_NG D m s)).
Proof.
  intros Hs. destruct (fnorm_shape s Hs) as [F1 F2]. destruct Hs as (G1 & G2 & _). unfold utt_NG. cbn [fst snd]. repeat split.
  - etransitivity; [apply (FAEnroll.len_concat _ D (rep_rows _))|]. rewrite map_length. unfold InstR.T in *. now rewrite G1.
  - etransitivity; [apply (FAEnroll.len_concat _ D F2)|]. unfold InstR.T in *. now rewrite F1.
  - apply FAEnroll.Forall_concat'. apply Forall_map. eapply Forall_impl; [|exact G2]. intros a Ha. cbv beta.
    apply Forall_forall. intros x Hx. apply repeat_spec in Hx. now subst.
Qed.
Lemma nth_utt_fst s c d : IVectorR.gstat_ok C D s -> (c < C)%nat -> (d < D)%nat ->
  nth (c * D + d) (fst (utt_NG D m s)) 0 = nth c (g_n s) 0.
Proof.
  intros (G1 & _) Hc Hd. unfold utt_NG. cbn [fst].
  rewrite (FAEnroll.nth_concat _ D c d 0 (rep_rows _)); [|rewrite map_length; unfold InstR.T in *; lia|exact Hd].
  rewrite (FAEnroll.nth_map_lt (fun a : R => repeat a D) (g_n s) c [] 0) by (unfold InstR.T in *; lia).
  apply FAEnroll.nth_repeat_lt. exact Hd.
Qed.
Lemma nth_utt_snd s c d : IVectorR.gstat_ok C D s -> (c < C)%nat -> (d < D)%nat ->
  nth (c * D + d) (snd (utt_NG D m s)) 0 = nth d (nth c (fnorm m s) []) 0.
Proof.
  intros Hs Hc Hd. destruct (fnorm_shape s Hs) as [F1 F2]. unfold utt_NG. cbn [snd].
  apply (FAEnroll.nth_concat _ D c d 0 F2); [unfold InstR.T in *; lia|exact Hd].
Qed.
Lemma L_pos s : IVectorR.gstat_ok C D s -> 0 < v_prec (tcol (iv_T m)) (concat (iv_sigma m)) (fst (utt_NG D m s)).
Proof.
  intros Hs. destruct (utt_ok s Hs) as (L1 & L2 & P).
  apply (v_prec_pos _ _ _ (C * D)); auto using len_tcol, len_ss, ss_pos.
Qed.

(* (1) precision and linear term for t = 1 *)
Lemma precision_rank1 s : IVectorR.gstat_ok C D s ->
  precision 1 m s = [[ v_prec (tcol (iv_T m)) (concat (iv_sigma m)) (fst (utt_NG D m s)) ]].
Proof.
  intros Hs. unfold precision.
  change (V.map3 (fun Tc sig n => V.mscale n (tst1 1 Tc sig)) (iv_T m) (iv_sigma m) (g_n s))
    with (V.map3 (fun Tc sig n => [[ n * V.vsum (V.map2 (fun row s0 => nth 0 row 0 / s0 * nth 0 row 0) Tc sig) ]]) (iv_T m) (iv_sigma m) (g_n s)).
  rewrite iv_msum11_map3. rewrite v_prec_IR. unfold utt_NG. cbn [fst].
  match goal with |- V.madd (V.eye 1) [[?r]] = _ => transitivity [[1 + r]]; [reflexivity|] end.
  apply (f_equal (fun x : R => [[1 + x]])). symmetry.
  apply (prec_blocks D (iv_T m) (iv_sigma m) (g_n s) T_rows sig_rows).
  - pose proof len_T; pose proof len_sig; unfold InstR.T in *; congruence.
  - pose proof len_T; destruct Hs as (G1 & _); unfold InstR.T in *; congruence.
Qed.
Lemma linterm_rank1 s : IVectorR.gstat_ok C D s ->
  linterm 1 m s = [ v_lin (tcol (iv_T m)) (concat (iv_sigma m)) (snd (utt_NG D m s)) ].
Proof.
  intros Hs. destruct (fnorm_shape s Hs) as [F1 F2]. unfold linterm.
  change (V.map3 (fun Tc sig fn => map (fun a => V.vsum (V.map3 (fun row sg f => InstR.mul (InstR.div (nth a row InstR.zero) sg) f) Tc sig fn)) (seq 0 1))
                 (iv_T m) (iv_sigma m) (fnorm m s))
    with (V.map3 (fun Tc sig fn => [ V.vsum (V.map3 (fun row sg f => nth 0 row 0 / sg * f) Tc sig fn) ]) (iv_T m) (iv_sigma m) (fnorm m s)).
  rewrite iv_fold_vadd1_map3. rewrite v_lin_IR. unfold utt_NG. cbn [snd].
  apply (f_equal (fun x : R => [x])). symmetry.
  apply (lin_blocks D (iv_T m) (iv_sigma m) (fnorm m s) T_rows sig_rows F2).
  - pose proof len_T; pose proof len_sig; unfold InstR.T in *; congruence.
  - pose proof len_T; unfold InstR.T in *; congruence.
Qed.
(* the per-utterance accumulator *)
Lemma acc1_rank1 s : IVectorR.gstat_ok C D s ->
  a_w2 (acc1 inv 1 m s) = map (fun n => [[ n * (vrs s + ybs s * ybs s) ]]) (g_n s) /\
  a_fw (acc1 inv 1 m s) = map (fun fc => map (fun x => [ x * ybs s ]) fc) (fnorm m s).
Proof.
  intros Hs. unfold acc1. cbv zeta. cbn [a_w2 a_fw].
  rewrite (precision_rank1 s Hs), (linterm_rank1 s Hs).
  pose proof (L_pos s Hs) as HL.
  rewrite (Hinv _ (Rgt_not_eq _ _ HL)).
  set (L := v_prec _ _ _) in *. set (b := v_lin _ _ _).
  change (V.matvec [[/ L]] [b]) with [/ L * b + 0].
  assert (E : / L * b + 0 = ybs s). { unfold ybs, yb. fold L b. unfold Rdiv. ring. }
  rewrite E. change (/ L) with (vrs s). split; reflexivity.
Qed.


(* (2) the E-step accumulators in closed form *)
Definition A2 (X : list gstat) (c : nat) : R :=
  rsum (map (fun s => nth c (g_n s) 0 * (vrs s + ybs s * ybs s)) X).
Definition B2 (X : list gstat) (c d : nat) : R :=
  rsum (map (fun s => nth d (nth c (fnorm m s) []) 0 * ybs s) X).

Lemma add_w2 (f0 : nat -> R) (q : R) (l : list R) : length l = C ->
  V.map2 V.madd (map (fun c => [[f0 c]]) (seq 0 C)) (map (fun n => [[n * q]]) l)
  = map (fun c => [[f0 c + nth c l 0 * q]]) (seq 0 C).
Proof.
  intros Hl.
  transitivity (V.map2 V.madd (map (fun c => [[f0 c]]) (seq 0 C)) (map (fun n => [[n * q]]) (map (fun i => nth i l 0) (seq 0 C)))).
  - f_equal. f_equal. rewrite <- Hl. apply list_eq_seq.
  - rewrite map_map, map2_map. reflexivity.
Qed.
Lemma add_fw (f0 : nat -> nat -> R) (y : R) (M : list (list R)) : length M = C -> Forall (fun r => length r = D) M ->
  V.map2 V.madd (map (fun c => map (fun d => [f0 c d]) (seq 0 D)) (seq 0 C)) (map (fun fc => map (fun x => [x * y]) fc) M)
  = map (fun c => map (fun d => [f0 c d + nth d (nth c M []) 0 * y]) (seq 0 D)) (seq 0 C).
Proof.
  intros H1 H2.
  transitivity (V.map2 V.madd (map (fun c => map (fun d => [f0 c d]) (seq 0 D)) (seq 0 C))
                  (map (fun fc => map (fun x => [x * y]) fc) (map (fun c => map (fun d => nth d (nth c M []) 0) (seq 0 D)) (seq 0 C)))).
  - f_equal. f_equal. apply (mat_eq_seq C D M H1 H2).
  - rewrite map_map, map2_map. apply map_ext. intros c. rewrite map_map. unfold V.madd. rewrite map2_map. reflexivity.
Qed.
Lemma fold_w2 (X : list gstat) : Forall (IVectorR.gstat_ok C D) X -> forall a0 f0,
  a_w2 a0 = map (fun c => [[f0 c]]) (seq 0 C) ->
  a_w2 (fold_left (fun a s => acc_add a (acc1 inv 1 m s)) X a0) = map (fun c => [[f0 c + A2 X c]]) (seq 0 C).
Proof.
  induction 1 as [|s X Hs HX IH]; intros a0 f0 H0; cbn [fold_left].
  - rewrite H0. apply map_ext. intros c. unfold A2. cbn [map rsum]. now rewrite Rplus_0_r.
  - rewrite (IH _ (fun c => f0 c + nth c (g_n s) 0 * (vrs s + ybs s * ybs s))).
    + apply map_ext. intros c. unfold A2. cbn [map rsum]. now rewrite Rplus_assoc.
    + cbn [acc_add a_w2]. rewrite H0. destruct (acc1_rank1 s Hs) as [E _]. rewrite E.
      apply add_w2. apply Hs.
Qed.
Lemma fold_fw (X : list gstat) : Forall (IVectorR.gstat_ok C D) X -> forall a0 f0,
  a_fw a0 = map (fun c => map (fun d => [f0 c d]) (seq 0 D)) (seq 0 C) ->
  a_fw (fold_left (fun a s => acc_add a (acc1 inv 1 m s)) X a0)
  = map (fun c => map (fun d => [f0 c d + B2 X c d]) (seq 0 D)) (seq 0 C).
Proof.
  induction 1 as [|s X Hs HX IH]; intros a0 f0 H0; cbn [fold_left].
  - rewrite H0. apply map_ext. intros c. apply map_ext. intros d. unfold B2. cbn [map rsum]. now rewrite Rplus_0_r.
  - rewrite (IH _ (fun c d => f0 c d + nth d (nth c (fnorm m s) []) 0 * ybs s)).
    + apply map_ext. intros c. apply map_ext. intros d. unfold B2. cbn [map rsum]. now rewrite Rplus_assoc.
    + cbn [acc_add a_fw]. rewrite H0. destruct (acc1_rank1 s Hs) as [_ E]. rewrite E.
      destruct (fnorm_shape s Hs) as [F1 F2]. apply add_fw; assumption.
Qed.
Lemma estep_rank1 (X : list gstat) : Forall (IVectorR.gstat_ok C D) X ->
  a_w2 (e_step inv C D 1 m X) = map (fun c => [[A2 X c]]) (seq 0 C) /\
  a_fw (e_step inv C D 1 m X) = map (fun c => map (fun d => [B2 X c d]) (seq 0 D)) (seq 0 C).
Proof.
  intros HX. unfold e_step. split.
  - rewrite (fold_w2 X HX _ (fun _ => 0)).
    + apply map_ext. intros c. now rewrite Rplus_0_l.
    + unfold zero_acc. cbn [a_w2]. apply repeat_map_seq.
  - rewrite (fold_fw X HX _ (fun _ _ => 0)).
    + apply map_ext. intros c. apply map_ext. intros d. now rewrite Rplus_0_l.
    + unfold zero_acc. cbn [a_fw]. rewrite repeat_map_seq. apply map_ext. intros c.
      unfold V.mzero. apply repeat_map_seq.
Qed.

(* (3) the M-step with 1x1 blocks *)
Lemma mstep_rank1 (floor : R) (A : nat -> R) (B : nat -> nat -> R) (st : acc) :
  a_w2 st = map (fun c => [[A c]]) (seq 0 C) ->
  a_fw st = map (fun c => map (fun d => [B c d]) (seq 0 D)) (seq 0 C) ->
  (forall c, (c < C)%nat -> A c <> 0) ->
  iv_T (m_step inv D 1 false floor m st) = map (fun c => map (fun d => [B c d / A c]) (seq 0 D)) (seq 0 C).
Proof.
  intros H1 H2 Hne. unfold m_step. cbn [iv_T]. rewrite H1, H2, map2_map, map_map.
  apply map_ext_in. intros c Hc. apply in_seq in Hc.
  assert (Ha : A c <> 0) by (apply Hne; lia).
  unfold mat_any. cbn [existsb].
  destruct (InstR.eqb (A c) InstR.zero) eqn:E; [apply eqb_true in E; contradiction|]. cbn [negb orb].
  change (V.transpose 1 [[A c]]) with [[A c]]. rewrite (Hinv _ Ha).
  change (V.transpose 1 (map (fun d => [B c d]) (seq 0 D))) with [map (fun r : list R => hd InstR.zero r) (map (fun d => [B c d]) (seq 0 D))].
  rewrite map_map. cbn [hd]. unfold V.matmul. cbn [map].
  rewrite (transpose_row D (map (fun x => B c x) (seq 0 D))) by now rewrite map_length, seq_length.
  rewrite !map_map. rewrite (transpose_row D) by now rewrite map_length, seq_length.
  rewrite map_map. apply map_ext. intros d.
  change (V.dot [/ A c] [B c d]) with (/ A c * B c d + 0). f_equal. unfold Rdiv. ring.
Qed.
Lemma tcol_form (F : nat -> nat -> R) :
  tcol (map (fun c => map (fun d => [F c d]) (seq 0 D)) (seq 0 C)) = concat (map (fun c => map (fun d => F c d) (seq 0 D)) (seq 0 C)).
Proof. unfold tcol. rewrite map_map. f_equal. apply map_ext. intros c. rewrite map_map. reflexivity. Qed.

(* (4) the coordinate sums of em_v_step are the accumulators *)
Lemma Aj_B2 (X : list gstat) c d : Forall (IVectorR.gstat_ok C D) X -> (c < C)%nat -> (d < D)%nat ->
  Aj (tcol (iv_T m)) (concat (iv_sigma m)) (map (utt_NG D m) X) (c * D + d) = B2 X c d.
Proof.
  intros HX Hc Hd. rewrite Forall_forall in HX. unfold Aj, B2. rewrite map_map. apply rsum_map_ext. intros s Hs.
  rewrite (nth_utt_snd s c d (HX s Hs) Hc Hd). reflexivity.
Qed.
Lemma Bj_A2 (X : list gstat) c d : Forall (IVectorR.gstat_ok C D) X -> (c < C)%nat -> (d < D)%nat ->
  Bj (tcol (iv_T m)) (concat (iv_sigma m)) (map (utt_NG D m) X) (c * D + d) = A2 X c.
Proof.
  intros HX Hc Hd. rewrite Forall_forall in HX. unfold Bj, A2. rewrite map_map. apply rsum_map_ext. intros s Hs.
  rewrite (nth_utt_fst s c d (HX s Hs) Hc Hd). reflexivity.
Qed.

Lemma iv_em_rank1_T (floor : R) (X : list gstat) : Forall (IVectorR.gstat_ok C D) X ->
  (forall c, (c < C)%nat -> A2 X c <> 0) ->
  tcol (iv_T (m_step inv D 1 false floor m (e_step inv C D 1 m X)))
  = em_v_step (tcol (iv_T m)) (concat (iv_sigma m)) (map (utt_NG D m) X).
Proof.
  intros HX Hne. destruct (estep_rank1 X HX) as [E1 E2].
  rewrite (mstep_rank1 floor (A2 X) (B2 X) _ E1 E2 Hne), tcol_form.
  rewrite em_v_step_form, len_tcol, <- concat_blocks_seq. f_equal.
  apply map_ext_in. intros c Hc. apply in_seq in Hc. apply map_ext_in. intros d Hd. apply in_seq in Hd.
  rewrite (Aj_B2 X c d HX) by lia. rewrite (Bj_A2 X c d HX) by lia. reflexivity.
Qed.
End R1.

Theorem iv_em_rank1 (inv : list (list R) -> list (list R)) (C D : nat) (floor : R) (m : ivm) (X : list gstat) :
  inv1_ok inv -> ivm_ok C D 1 m -> Forall (IVectorR.gstat_ok C D) X ->
  Forall (fun w2 => nth 0 (nth 0 w2 []) 0 <> 0) (a_w2 (e_step inv C D 1 m X)) ->
  let m' := m_step inv D 1 false floor m (e_step inv C D 1 m X) in
  iv_mu m' = iv_mu m /\ iv_sigma m' = iv_sigma m
  /\ tcol (iv_T m') = em_v_step (tcol (iv_T m)) (concat (iv_sigma m)) (map (utt_NG D m) X).
Proof.
  intros Hinv Hm HX Hne m'. subst m'. split; [reflexivity|split; [reflexivity|]].
  apply (iv_em_rank1_T inv C D m Hinv Hm floor X HX).
  intros c Hc. destruct (estep_rank1 inv C D m Hinv Hm X HX) as [E1 _]. rewrite E1 in Hne.
  rewrite Forall_map, Forall_forall in Hne. apply (Hne c). apply in_seq. lia.
Qed.

Theorem iv_em_monotone_rank1 (inv : list (list R) -> list (list R)) (C D : nat) (floor : R) (m : ivm) (X : list gstat) :
  inv1_ok inv -> ivm_ok C D 1 m -> Forall (IVectorR.gstat_ok C D) X ->
  Forall (fun w2 => 0 < nth 0 (nth 0 w2 []) 0) (a_w2 (e_step inv C D 1 m X)) ->
  let m' := m_step inv D 1 false floor m (e_step inv C D 1 m X) in
  iv_marginal D m (iv_T m) X <= iv_marginal D m (iv_T m') X.
Proof.
  intros Hinv Hm HX Hpos m'. subst m'.
  assert (Hne : Forall (fun w2 => nth 0 (nth 0 w2 []) 0 <> 0) (a_w2 (e_step inv C D 1 m X))).
  { eapply Forall_impl; [|exact Hpos]. intros a Ha. cbv beta in *. lra. }
  destruct (iv_em_rank1 inv C D floor m X Hinv Hm HX Hne) as (_ & _ & ET). cbv zeta in ET.
  unfold iv_marginal. rewrite ET.
  destruct (estep_rank1 inv C D m Hinv Hm X HX) as [E1 _]. rewrite E1 in Hpos.
  rewrite Forall_map, Forall_forall in Hpos.
  assert (Hpos' : forall c, (c < C)%nat -> 0 < A2 D m X c).
  { intros c Hc. apply (Hpos c). apply in_seq. lia. }
  assert (Em : forall w, rsum (map (fun s => v_marg w (concat (iv_sigma m)) (fst (utt_NG D m s)) (snd (utt_NG D m s))) X)
                         = rsum (map (fun p => v_marg w (concat (iv_sigma m)) (fst p) (snd p)) (map (utt_NG D m) X))).
  { intros w. rewrite map_map. reflexivity. }
  rewrite !Em.
  apply (rank1_core_monotone (C * D)).
  - apply (len_tcol C D m Hm).
  - apply (len_ss C D m Hm).
  - apply (ss_pos C D m Hm).
  - rewrite Forall_map. rewrite Forall_forall in HX. apply Forall_forall. intros s Hs.
    apply (utt_ok C D m Hm s (HX s Hs)).
  - intros j Hj. rewrite den_form. destruct (split_index C D j Hj) as (c & d & Hc & Hd & ->).
    rewrite (Bj_A2 C D m X c d HX Hc Hd). apply Hpos'. exact Hc.
Qed.

(* the same through the training entry point, statistics given as one partition *)
Theorem iv_em_iter_monotone_rank1 (inv : list (list R) -> list (list R)) (C D : nat) (floor : R) (m m' : ivm) (X : list gstat) :
  inv1_ok inv -> ivm_ok C D 1 m -> Forall (IVectorR.gstat_ok C D) X ->
  Forall (fun w2 => 0 < nth 0 (nth 0 w2 []) 0) (a_w2 (e_step inv C D 1 m X)) ->
  em_iter inv C D 1 false floor [X] m = Some m' ->
  iv_marginal D m (iv_T m) X <= iv_marginal D m (iv_T m') X.
Proof.
  intros Hinv Hm HX Hpos Hit. unfold em_iter in Hit. cbn [length map tree_reduce] in Hit.
  injection Hit as <-. apply (iv_em_monotone_rank1 inv C D floor m X Hinv Hm HX Hpos).
Qed.
