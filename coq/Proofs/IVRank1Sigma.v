(* C10: i-vector training with a rank-1 total-variability subspace (t = 1) WITH covariance updating (update_sigma = True), no
   floor active: the code's iteration is the exact EM step on the pair (T, sigma) and never decreases the marginal likelihood of the
   training statistics, now as a function of T and of the covariances:
       sum_s [ b_s^2/(2 L_s) - 1/2 ln L_s - 1/2 sum_j ( N_sj ln sigma_j + Q_sj / sigma_j ) ]
   with Q_s the centred second-order statistics. *)
From Coq Require Import Reals Lra List Lia Bool Arith.
From BLE Require Import Num.Scalar Num.InstR Lib.Vec Model.IVector Proofs.RLemmas Proofs.IVectorR Proofs.JFATrain Proofs.JFARank1 Proofs.IVRank1.
Import ListNotations.
Open Scope R_scope.
Import IR.

(* ---------------------------------------------------------------- abstract core: items (n_i, g_i, q_i), vectors of length M *)
Definition ng_of (t : list R * list R * list R) : list R * list R := (fst (fst t), snd (fst t)).
Definition marg2 (v s : list R) (t : list R * list R * list R) : R :=
  v_marg v s (fst (fst t)) (snd (fst t))
  - / 2 * rsum (V.map3 (fun sj nj qj => nj * ln sj + qj / sj) s (fst (fst t)) (snd t)).
(* the covariance part of the EM step: s'_j = ( sum_i q_ij - v'_j * sum_i g_ij E[y_i] ) / sum_i n_ij,  v' the new column *)
Definition em_s_step (v s : list R) (ngq : list (list R * list R * list R)) : list R :=
  let ng := map ng_of ngq in
  let v' := em_v_step v s ng in
  let post := map (fun p => let L := v_prec v s (fst p) in (v_lin v s (snd p) / L, / L)) ng in
  map (fun j =>
         (rsum (map (fun t => nth j (snd t) 0) ngq)
          - nth j v' 0 * rsum (V.map2 (fun p q => nth j (snd p) 0 * fst q) ng post))
         / rsum (map (fun p => nth j (fst p) 0) ng))
      (seq 0 (length v)).

(* ---- helpers for the abstract core *)
Definition elbo2 (v s w t : list R) (x : list R * list R * list R) : R :=
  elbo (v_prec w t (fst (fst x))) (v_lin w t (snd (fst x))) (yb v s (ng_of x)) (vr v s (ng_of x))
  - / 2 * rsum (V.map3 (fun sj nj qj => nj * ln sj + qj / sj) t (fst (fst x)) (snd x)).
Lemma marg2_elbo2 v s x : 0 < v_prec v s (fst (fst x)) -> marg2 v s x = elbo2 v s v s x.
Proof.
  intros HL. unfold marg2, elbo2. f_equal. rewrite v_marg_marg. unfold yb, vr, ng_of. cbn [fst snd].
  symmetry. apply elbo_tight. exact HL.
Qed.
Lemma elbo2_le_marg2 v s w t x : 0 < v_prec w t (fst (fst x)) -> 0 < vr v s (ng_of x) -> elbo2 v s w t x <= marg2 w t x.
Proof.
  intros HL Hr. unfold marg2, elbo2. apply Rplus_le_compat_r. rewrite v_marg_marg. apply elbo_le_marg; assumption.
Qed.
Lemma elbo_sum_gen (M : nat) (y r : list R * list R -> R) w t (ng : list (list R * list R)) : length w = M -> length t = M ->
  Forall (fun p : list R * list R => length (fst p) = M /\ length (snd p) = M) ng ->
  rsum (map (fun p => elbo (v_prec w t (fst p)) (v_lin w t (snd p)) (y p) (r p)) ng)
  = rsum (map (fun p => - / 2 * (r p + y p * y p) + / 2 * ln (r p) + / 2) ng)
    + rsum (map (fun j => nth j w 0 * rsum (map (fun p => nth j (snd p) 0 * y p) ng) / nth j t 0
                          - / 2 * (nth j w 0 * nth j w 0) * rsum (map (fun p => nth j (fst p) 0 * (r p + y p * y p)) ng) / nth j t 0) (seq 0 M)).
Proof.
  intros Hw Ht Hng. rewrite Forall_forall in Hng.
  rewrite (rsum_map_ext (fun p => elbo (v_prec w t (fst p)) (v_lin w t (snd p)) (y p) (r p))
     (fun p => (- / 2 * (r p + y p * y p) + / 2 * ln (r p) + / 2)
               + rsum (map (fun j => nth j (snd p) 0 * y p * (nth j w 0 / nth j t 0)
                                     - nth j (fst p) 0 * (r p + y p * y p) * (/ 2 * (nth j w 0 * nth j w 0) / nth j t 0)) (seq 0 M)))).
  2:{ intros p Hp. destruct (Hng p Hp) as [L1 L2]. unfold elbo.
      rewrite (v_prec_index w t (fst p) M Hw Ht L1), (v_lin_index w t (snd p) M Hw Ht L2).
      set (yy := y p). set (rr := r p). set (lr := ln rr).
      rewrite (rsum_map_ext (fun j => nth j (snd p) 0 * yy * (nth j w 0 / nth j t 0) - nth j (fst p) 0 * (rr + yy * yy) * (/ 2 * (nth j w 0 * nth j w 0) / nth j t 0))
                 (fun j => (nth j w 0 * nth j (snd p) 0 / nth j t 0) * yy - (nth j (fst p) 0 * nth j w 0 * nth j w 0 / nth j t 0) * (/ 2 * (rr + yy * yy)))).
      2:{ intros j _. unfold Rdiv. ring. }
      rewrite rsum_lin2. ring. }
  rewrite rsum_map_add. f_equal.
  rewrite (rsum_swap (fun (p : list R * list R) (j : nat) => nth j (snd p) 0 * y p * (nth j w 0 / nth j t 0)
                                     - nth j (fst p) 0 * (r p + y p * y p) * (/ 2 * (nth j w 0 * nth j w 0) / nth j t 0))).
  apply rsum_map_ext. intros j _. rewrite rsum_lin2. unfold Rdiv. ring.
Qed.
Lemma rsum_lin2p {A} (a b : A -> R) c1 c2 l :
  rsum (map (fun x => a x * c1 + b x * c2) l) = rsum (map a l) * c1 + rsum (map b l) * c2.
Proof. induction l as [|x l IH]; cbn [map rsum]; [ring|rewrite IH; ring]. Qed.
Lemma elbo2_sum (M : nat) v s w t (ngq : list (list R * list R * list R)) : length w = M -> length t = M ->
  Forall (fun t => length (fst (fst t)) = M /\ length (snd (fst t)) = M /\ length (snd t) = M /\ Forall (fun n => 0 <= n) (fst (fst t))) ngq ->
  rsum (map (elbo2 v s w t) ngq)
  = rsum (map (fun p => - / 2 * (vr v s p + yb v s p * yb v s p) + / 2 * ln (vr v s p) + / 2) (map ng_of ngq))
    + rsum (map (fun j => nth j w 0 * Aj v s (map ng_of ngq) j / nth j t 0
                          - / 2 * (nth j w 0 * nth j w 0) * Bj v s (map ng_of ngq) j / nth j t 0
                          - / 2 * (rsum (map (fun p => nth j (fst p) 0) (map ng_of ngq)) * ln (nth j t 0)
                                   + rsum (map (fun x => nth j (snd x) 0) ngq) / nth j t 0)) (seq 0 M)).
Proof.
  intros Hw Ht Hngq.
  assert (Hng : Forall (fun p : list R * list R => length (fst p) = M /\ length (snd p) = M) (map ng_of ngq)).
  { rewrite Forall_map. eapply Forall_impl; [|exact Hngq]. intros x (A & B & _). unfold ng_of. cbn [fst snd]. now split. }
  rewrite Forall_forall in Hngq.
  unfold elbo2.
  rewrite (FAEnroll.rsum_map_sub
             (fun x : list R * list R * list R => elbo (v_prec w t (fst (fst x))) (v_lin w t (snd (fst x))) (yb v s (ng_of x)) (vr v s (ng_of x)))
             (fun x : list R * list R * list R => / 2 * rsum (V.map3 (fun sj nj qj => nj * ln sj + qj / sj) t (fst (fst x)) (snd x)))).
  pose proof (elbo_sum_gen M (yb v s) (vr v s) w t (map ng_of ngq) Hw Ht Hng) as E.
  rewrite map_map in E. unfold ng_of at 1 2 in E. cbn [fst snd] in E. rewrite E. clear E.
  unfold Rminus at 1. rewrite Rplus_assoc. f_equal.
  rewrite (rsum_map_ext (fun x : list R * list R * list R => / 2 * rsum (V.map3 (fun sj nj qj => nj * ln sj + qj / sj) t (fst (fst x)) (snd x)))
             (fun x => rsum (map (fun j => / 2 * (nth j (fst (fst x)) 0 * ln (nth j t 0) + nth j (snd x) 0 * / nth j t 0)) (seq 0 M)))).
  2:{ intros x Hx. destruct (Hngq x Hx) as (L1 & L2 & L3 & _).
      rewrite (FAEnroll.map3_seq _ t (fst (fst x)) (snd x) M 0 0 0 Ht L1 L3). rewrite rsum_map_scal_l. reflexivity. }
  rewrite (rsum_swap (fun (x : list R * list R * list R) (j : nat) => / 2 * (nth j (fst (fst x)) 0 * ln (nth j t 0) + nth j (snd x) 0 * / nth j t 0))).
  match goal with |- ?a + - ?b = _ => change (a + - b) with (a - b) end.
  rewrite <- FAEnroll.rsum_map_sub. apply rsum_map_ext. intros j _.
  rewrite rsum_map_scal_l, rsum_lin2p. unfold Aj, Bj. rewrite !map_map. unfold ng_of. cbn [fst snd]. unfold Rdiv. ring.
Qed.
(* one coordinate: the joint (column, covariance) update maximises the expected complete-data term *)
Lemma percoord (A B N Q d sj : R) : 0 < B -> 0 < N -> 0 < sj -> 0 < (Q - A / B * A) / N ->
  d * A / sj - / 2 * (d * d) * B / sj - / 2 * (N * ln sj + Q / sj)
  <= A / B * A / ((Q - A / B * A) / N) - / 2 * (A / B * (A / B)) * B / ((Q - A / B * A) / N)
     - / 2 * (N * ln ((Q - A / B * A) / N) + Q / ((Q - A / B * A) / N)).
Proof.
  intros HB HN Hs Ht. set (ts := (Q - A / B * A) / N) in *.
  assert (EK : Q - A / B * A = ts * N) by (subst ts; field; lra).
  assert (Hx : 0 < ts / sj) by (apply Rdiv_lt_0_compat; assumption).
  pose proof (ln_le_sub1 _ Hx) as K. unfold Rdiv in K at 1. rewrite ln_mult in K by (try apply Rinv_0_lt_compat; lra).
  rewrite ln_Rinv in K by lra.
  assert (K2 : N * (ln ts - ln sj) <= N * (ts / sj - 1)) by (apply Rmult_le_compat_l; lra).
  assert (Sq : 0 <= B / (2 * sj) * ((d - A / B) * (d - A / B))).
  { apply Rmult_le_pos. apply Rmult_le_pos. lra. left. apply Rinv_0_lt_compat. lra. apply Rle_0_sqr. }
  assert (EQ : Q = ts * N + A / B * A) by lra.
  rewrite EQ.
  replace (A / B * A / ts - / 2 * (A / B * (A / B)) * B / ts - / 2 * (N * ln ts + (ts * N + A / B * A) / ts))
    with (- / 2 * (N * ln ts + N)) by (field; lra).
  replace (d * A / sj - / 2 * (d * d) * B / sj - / 2 * (N * ln sj + (ts * N + A / B * A) / sj))
    with (- / 2 * (N * ln sj + N * (ts / sj)) - B / (2 * sj) * ((d - A / B) * (d - A / B))) by (field; lra).
  lra.
Qed.


Theorem rank1_sigma_core_monotone (M : nat) (v s : list R) (ngq : list (list R * list R * list R)) :
  length v = M -> length s = M -> Forall (fun sj => 0 < sj) s ->
  Forall (fun t => length (fst (fst t)) = M /\ length (snd (fst t)) = M /\ length (snd t) = M /\ Forall (fun n => 0 <= n) (fst (fst t))) ngq ->
  (* the M-step denominators of the column are positive (as in rank1_core_monotone) *)
  (forall j, (j < M)%nat ->
     0 < rsum (V.map2 (fun p q => nth j (fst p) 0 * (snd q + fst q * fst q)) (map ng_of ngq)
                      (map (fun p => let L := v_prec v s (fst p) in (v_lin v s (snd p) / L, / L)) (map ng_of ngq)))) ->
  (* every coordinate has a positive total count and a positive new covariance (no floor needed) *)
  (forall j, (j < M)%nat -> 0 < rsum (map (fun p => nth j (fst p) 0) (map ng_of ngq))) ->
  (forall j, (j < M)%nat -> 0 < nth j (em_s_step v s ngq) 0) ->
  rsum (map (marg2 v s) ngq)
  <= rsum (map (marg2 (em_v_step v s (map ng_of ngq)) (em_s_step v s ngq)) ngq).
Proof.
  intros Hv Hs Ps Hngq Hden HN Hts.
  set (ng := map ng_of ngq) in *.
  set (w' := em_v_step v s ng). set (t' := em_s_step v s ngq).
  assert (Lw : length w' = M). { subst w'. rewrite em_v_step_form, map_length, seq_length. exact Hv. }
  assert (Lt : length t' = M). { subst t'. unfold em_s_step. rewrite map_length, seq_length. exact Hv. }
  assert (Pt : Forall (fun sj => 0 < sj) t').
  { apply Forall_forall. intros x Hx. apply (In_nth _ _ 0) in Hx. destruct Hx as (j & Hj & <-). apply Hts. lia. }
  pose proof Hngq as Hngq'. rewrite Forall_forall in Hngq'.
  apply Rle_trans with (rsum (map (elbo2 v s v s) ngq)); [|apply Rle_trans with (rsum (map (elbo2 v s w' t') ngq))].
  - right. apply rsum_map_ext. intros x Hx. destruct (Hngq' x Hx) as (L1 & L2 & L3 & Pn).
    apply marg2_elbo2. apply (v_prec_pos v s _ M); assumption.
  - rewrite (elbo2_sum M v s v s ngq Hv Hs Hngq), (elbo2_sum M v s w' t' ngq Lw Lt Hngq).
    apply Rplus_le_compat_l. apply rsum_le. intros j Hj. apply in_seq in Hj. assert (Hj' : (j < M)%nat) by lia.
    fold ng.
    assert (Hsj : 0 < nth j s 0) by (apply (FAEnroll.Forall_nth_lt (fun sj => 0 < sj)); [exact Ps|lia]).
    pose proof (Hden j Hj') as HB. rewrite den_form in HB.
    pose proof (HN j Hj') as HNj. pose proof (Hts j Hj') as Htj. fold t' in Htj.
    assert (Ew : nth j w' 0 = Aj v s ng j / Bj v s ng j).
    { subst w'. rewrite em_v_step_form, Hv. apply (FAEnroll.nth_map_seq (fun j => Aj v s ng j / Bj v s ng j) M j 0 Hj'). }
    assert (Et : nth j t' 0 = (rsum (map (fun t => nth j (snd t) 0) ngq) - nth j w' 0 * Aj v s ng j)
                              / rsum (map (fun p => nth j (fst p) 0) ng)).
    { subst t'. unfold em_s_step. cbv zeta. fold ng. fold w'. rewrite Hv.
      etransitivity; [apply (FAEnroll.nth_map_seq _ M j 0 Hj')|]. rewrite FAEnroll.map2_map_r. reflexivity. }
    rewrite Ew in *.
    rewrite Et in Htj. rewrite Et. apply percoord; assumption.
  - apply rsum_le. intros x Hx. destruct (Hngq' x Hx) as (L1 & L2 & L3 & Pn).
    apply elbo2_le_marg2.
    + apply (v_prec_pos w' t' _ M); assumption.
    + unfold vr, ng_of. cbn [fst]. apply Rinv_0_lt_compat. apply (v_prec_pos v s _ M); assumption.
Qed.

(* ---------------------------------------------------------------- the code *)
(* centred second-order statistics of one utterance (what acc1 adds to a_sn), flat *)
Definition snorm1 (m : ivm) (s : gstat) : list (list R) :=
  V.map3 (fun sxx_f n mu => V.map3 (fun sx f b => sx - (1 + 1) * f * b + n * b * b) (fst sxx_f) (snd sxx_f) mu)
         (combine (g_pxx s) (g_px s)) (g_n s) (iv_mu m).
Definition utt_NGQ (D : nat) (m : ivm) (s : gstat) : list R * list R * list R := (utt_NG D m s, concat (snorm1 m s)).
Definition iv_marginal2 (D : nat) (m : ivm) (Ts : list (list (list R))) (sig : list (list R)) (X : list gstat) : R :=
  rsum (map (fun s => marg2 (tcol Ts) (concat sig) (utt_NGQ D m s)) X).

(* no floor is active in this M-step: every count is non-zero and every unfloored new covariance is at or above the floor *)
Definition sigma_floor_inactive (inv : list (list R) -> list (list R)) (C D : nat) (floor : R) (m : ivm) (X : list gstat) : Prop :=
  Forall (fun n => n <> 0) (a_n (e_step inv C D 1 m X))
  /\ Forall (fun x => floor <= x) (em_s_step (tcol (iv_T m)) (concat (iv_sigma m)) (map (utt_NGQ D m) X)).

(* ---- helpers for the code tie *)
Lemma ng_of_utt (D : nat) (m : ivm) (X : list gstat) : map ng_of (map (utt_NGQ D m) X) = map (utt_NG D m) X.
Proof. rewrite map_map. apply map_ext. intros s. reflexivity. Qed.

Lemma em_s_step_form v s ngq :
  em_s_step v s ngq
  = map (fun j => (rsum (map (fun t => nth j (snd t) 0) ngq)
                   - Aj v s (map ng_of ngq) j / Bj v s (map ng_of ngq) j * Aj v s (map ng_of ngq) j)
                  / rsum (map (fun p => nth j (fst p) 0) (map ng_of ngq))) (seq 0 (length v)).
Proof.
  unfold em_s_step. cbv zeta. apply map_ext_in. intros j Hj. apply in_seq in Hj.
  rewrite FAEnroll.map2_map_r, em_v_step_form.
  rewrite (FAEnroll.nth_map_seq (fun j => Aj v s (map ng_of ngq) j / Bj v s (map ng_of ngq) j) (length v) j 0) by lia.
  reflexivity.
Qed.

Section S1.
Variable inv : list (list R) -> list (list R).
Variables (C D : nat) (m : ivm).
Hypothesis Hinv : inv1_ok inv.
Hypothesis Hm : ivm_ok C D 1 m.

Lemma snorm1_shape s : IVectorR.gstat_ok C D s -> length (snorm1 m s) = C /\ Forall (fun r : list R => length r = D) (snorm1 m s).
Proof.
  intros (G1 & G2 & G3 & G4 & G5 & G6). destruct Hm as (M1 & M2 & _). unfold snorm1. split.
  - rewrite len_map3, combine_length. unfold InstR.T in *. rewrite G5, G3, G1, M1, !Nat.min_id. reflexivity.
  - eapply (Forall_map3 _ (fun p : list R * list R => length (fst p) = D /\ length (snd p) = D) (fun _ => True) (fun r : list R => length r = D));
      [| |apply Forall_True|exact M2].
    + intros p n mu [Hp1 Hp2] _ Hmu. cbv beta. rewrite len_map3. unfold InstR.T in *. rewrite Hp1, Hp2, Hmu, !Nat.min_id. reflexivity.
    + clear - G4 G6. revert G4. generalize (g_px s). induction G6 as [|a l Ha Hl IH]; intros l2 H2; cbn [combine]; [constructor|].
      destruct H2 as [|b l2 Hb H2]; constructor; [now split|now apply IH].
Qed.
Lemma acc1_sn_n s : a_sn (acc1 inv 1 m s) = snorm1 m s /\ a_n (acc1 inv 1 m s) = g_n s.
Proof. split; reflexivity. Qed.

Definition SN (X : list gstat) (c d : nat) : R := rsum (map (fun s => nth d (nth c (snorm1 m s) []) 0) X).
Definition NN (X : list gstat) (c : nat) : R := rsum (map (fun s => nth c (g_n s) 0) X).

Lemma add_sn (f0 : nat -> nat -> R) (M : list (list R)) : length M = C -> Forall (fun r => length r = D) M ->
  V.madd (map (fun c => map (fun d => f0 c d) (seq 0 D)) (seq 0 C)) M
  = map (fun c => map (fun d => f0 c d + nth d (nth c M []) 0) (seq 0 D)) (seq 0 C).
Proof.
  intros H1 H2. rewrite (mat_eq_seq C D M H1 H2) at 1.
  rewrite madd_map. apply map_ext. intros c. apply vadd_map.
Qed.
Lemma add_n (f0 : nat -> R) (l : list R) : length l = C ->
  V.vadd (map f0 (seq 0 C)) l = map (fun c => f0 c + nth c l 0) (seq 0 C).
Proof.
  intros Hl. rewrite (list_eq_seq l 0) at 1. unfold InstR.T in *. rewrite Hl. apply vadd_map.
Qed.
Lemma fold_sn (X : list gstat) : Forall (IVectorR.gstat_ok C D) X -> forall a0 f0,
  a_sn a0 = map (fun c => map (fun d => f0 c d) (seq 0 D)) (seq 0 C) ->
  a_sn (fold_left (fun a s => acc_add a (acc1 inv 1 m s)) X a0)
  = map (fun c => map (fun d => f0 c d + SN X c d) (seq 0 D)) (seq 0 C).
Proof.
  induction 1 as [|s X Hs HX IH]; intros a0 f0 H0; cbn [fold_left].
  - rewrite H0. apply map_ext. intros c. apply map_ext. intros d. unfold SN. cbn [map rsum]. now rewrite Rplus_0_r.
  - rewrite (IH _ (fun c d => f0 c d + nth d (nth c (snorm1 m s) []) 0)).
    + apply map_ext. intros c. apply map_ext. intros d. unfold SN. cbn [map rsum]. now rewrite Rplus_assoc.
    + cbn [acc_add a_sn]. rewrite H0. destruct (acc1_sn_n s) as [E _]. rewrite E.
      destruct (snorm1_shape s Hs) as [F1 F2]. apply add_sn; assumption.
Qed.
Lemma fold_n (X : list gstat) : Forall (IVectorR.gstat_ok C D) X -> forall a0 f0,
  a_n a0 = map f0 (seq 0 C) ->
  a_n (fold_left (fun a s => acc_add a (acc1 inv 1 m s)) X a0) = map (fun c => f0 c + NN X c) (seq 0 C).
Proof.
  induction 1 as [|s X Hs HX IH]; intros a0 f0 H0; cbn [fold_left].
  - rewrite H0. apply map_ext. intros c. unfold NN. cbn [map rsum]. now rewrite Rplus_0_r.
  - rewrite (IH _ (fun c => f0 c + nth c (g_n s) 0)).
    + apply map_ext. intros c. unfold NN. cbn [map rsum]. now rewrite Rplus_assoc.
    + cbn [acc_add a_n]. rewrite H0. destruct (acc1_sn_n s) as [_ E]. rewrite E.
      apply add_n. apply Hs.
Qed.
Lemma estep_sn_n (X : list gstat) : Forall (IVectorR.gstat_ok C D) X ->
  a_sn (e_step inv C D 1 m X) = map (fun c => map (fun d => SN X c d) (seq 0 D)) (seq 0 C) /\
  a_n (e_step inv C D 1 m X) = map (fun c => NN X c) (seq 0 C).
Proof.
  intros HX. unfold e_step. split.
  - rewrite (fold_sn X HX _ (fun _ _ => 0)).
    + apply map_ext. intros c. apply map_ext. intros d. now rewrite Rplus_0_l.
    + unfold zero_acc. cbn [a_sn]. unfold V.mzero. rewrite repeat_map_seq. apply map_ext. intros c.
      unfold V.vzero. apply repeat_map_seq.
  - rewrite (fold_n X HX _ (fun _ => 0)).
    + apply map_ext. intros c. now rewrite Rplus_0_l.
    + unfold zero_acc. cbn [a_n]. unfold V.vzero. apply repeat_map_seq.
Qed.
(* the solved blocks X_c (1 x D) of the M-step *)
Lemma Xs_rank1 (A : nat -> R) (B : nat -> nat -> R) (st : acc) :
  a_w2 st = map (fun c => [[A c]]) (seq 0 C) ->
  a_fw st = map (fun c => map (fun d => [B c d]) (seq 0 D)) (seq 0 C) ->
  (forall c, (c < C)%nat -> A c <> 0) ->
  V.map2 (fun w2 fw => if mat_any w2 then V.matmul D (inv (V.transpose 1 w2)) (V.transpose 1 fw) else V.mzero 1 D) (a_w2 st) (a_fw st)
  = map (fun c => [map (fun d => B c d / A c) (seq 0 D)]) (seq 0 C).
Proof.
  intros H1 H2 Hne. rewrite H1, H2, map2_map.
  apply map_ext_in. intros c Hc. apply in_seq in Hc.
  assert (Ha : A c <> 0) by (apply Hne; lia).
  unfold mat_any. cbn [existsb].
  destruct (InstR.eqb (A c) InstR.zero) eqn:E; [apply eqb_true in E; contradiction|]. cbn [negb orb].
  change (V.transpose 1 [[A c]]) with [[A c]]. rewrite (Hinv _ Ha).
  change (V.transpose 1 (map (fun d => [B c d]) (seq 0 D))) with [map (fun r : list R => hd InstR.zero r) (map (fun d => [B c d]) (seq 0 D))].
  rewrite map_map. cbn [hd]. unfold V.matmul. cbn [map].
  rewrite (transpose_row D (map (fun x => B c x) (seq 0 D))) by now rewrite map_length, seq_length.
  rewrite !map_map. f_equal. apply map_ext. intros d.
  change (V.dot [/ A c] [B c d]) with (/ A c * B c d + 0). unfold Rdiv. ring.
Qed.
Lemma combine_mm {A0 B0 E} (g : A0 -> B0) (h : A0 -> E) l : combine (map g l) (map h l) = map (fun x => (g x, h x)) l.
Proof. induction l as [|x l IH]; cbn [map combine]; [reflexivity|]. now rewrite IH. Qed.
Lemma map3_mmm {A0 B0 C0 E F} (f : B0 -> C0 -> E -> F) (g : A0 -> B0) (h : A0 -> C0) (k : A0 -> E) l :
  V.map3 f (map g l) (map h l) (map k l) = map (fun x => f (g x) (h x) (k x)) l.
Proof. induction l as [|x l IH]; cbn [map V.map3]; [reflexivity|]. now rewrite IH. Qed.
Lemma mstep_sigma_rank1 (floor : R) (A : nat -> R) (B S : nat -> nat -> R) (N : nat -> R) (st : acc) :
  a_w2 st = map (fun c => [[A c]]) (seq 0 C) ->
  a_fw st = map (fun c => map (fun d => [B c d]) (seq 0 D)) (seq 0 C) ->
  a_sn st = map (fun c => map (fun d => S c d) (seq 0 D)) (seq 0 C) ->
  a_n st = map (fun c => N c) (seq 0 C) ->
  (forall c, (c < C)%nat -> A c <> 0) ->
  (forall c, (c < C)%nat -> N c <> 0) ->
  (forall c d, (c < C)%nat -> (d < D)%nat -> floor <= (S c d - (B c d * (B c d / A c) + 0)) / N c) ->
  iv_sigma (m_step inv D 1 true floor m st)
  = map (fun c => map (fun d => (S c d - (B c d * (B c d / A c) + 0)) / N c) (seq 0 D)) (seq 0 C).
Proof.
  intros H1 H2 H3 H4 HA HN Hfl. unfold m_step. cbv zeta. cbn [iv_sigma].
  rewrite (Xs_rank1 A B st H1 H2 HA). rewrite H2, H3, H4.
  rewrite (list_eq_seq (iv_sigma m) []). pose proof (len_sig C D m Hm) as Ls. unfold InstR.T in *. rewrite Ls.
  rewrite !combine_mm, map3_mmm.
  apply map_ext_in. intros c Hc. apply in_seq in Hc. cbn [fst snd].
  destruct (InstR.eqb (N c) InstR.zero) eqn:E; [apply eqb_true in E; exfalso; apply (HN c); [lia|exact E]|].
  rewrite (transpose_row D (map (fun d => B c d / A c) (seq 0 D))) by now rewrite map_length, seq_length.
  rewrite map_map, !map2_map.
  apply map_ext_in. intros d Hd. apply in_seq in Hd.
  change (V.dot [B c d] [B c d / A c]) with (B c d * (B c d / A c) + 0).
  change (InstR.div (InstR.sub (S c d) (B c d * (B c d / A c) + 0)) (N c)) with ((S c d - (B c d * (B c d / A c) + 0)) / N c).
  destruct (InstR.ltb _ floor) eqn:E2; [|reflexivity].
  apply ltb_true in E2. pose proof (Hfl c d ltac:(lia) ltac:(lia)). lra.
Qed.
(* the abstract covariance step on the utterance statistics, in block form *)
Lemma em_s_form (X : list gstat) : Forall (IVectorR.gstat_ok C D) X ->
  em_s_step (tcol (iv_T m)) (concat (iv_sigma m)) (map (utt_NGQ D m) X)
  = concat (map (fun c => map (fun d => (SN X c d - (B2 D m X c d * (B2 D m X c d / A2 D m X c) + 0)) / NN X c) (seq 0 D)) (seq 0 C)).
Proof.
  intros HX. rewrite em_s_step_form, ng_of_utt, (len_tcol C D m Hm), <- concat_blocks_seq. f_equal.
  apply map_ext_in. intros c Hc. apply in_seq in Hc. apply map_ext_in. intros d Hd. apply in_seq in Hd.
  rewrite (Aj_B2 C D m Hm X c d HX) by lia. rewrite (Bj_A2 C D m X c d HX) by lia.
  rewrite Forall_forall in HX.
  assert (EQ : rsum (map (fun t : list R * list R * list R => nth (c * D + d) (snd t) 0) (map (utt_NGQ D m) X)) = SN X c d).
  { rewrite map_map. unfold SN. apply rsum_map_ext. intros s Hs. unfold utt_NGQ. cbn [snd].
    destruct (snorm1_shape s (HX s Hs)) as [F1 F2].
    apply (FAEnroll.nth_concat _ D c d 0 F2); [unfold InstR.T in *; lia|lia]. }
  assert (EN : rsum (map (fun p : list R * list R => nth (c * D + d) (fst p) 0) (map (utt_NG D m) X)) = NN X c).
  { rewrite map_map. unfold NN. apply rsum_map_ext. intros s Hs. apply (nth_utt_fst C D m s c d (HX s Hs)); lia. }
  rewrite EQ, EN. unfold Rdiv. ring.
Qed.
Lemma iv_em_rank1_sigma_S (floor : R) (X : list gstat) : Forall (IVectorR.gstat_ok C D) X ->
  Forall (fun w2 => nth 0 (nth 0 w2 []) 0 <> 0) (a_w2 (e_step inv C D 1 m X)) ->
  sigma_floor_inactive inv C D floor m X ->
  concat (iv_sigma (m_step inv D 1 true floor m (e_step inv C D 1 m X)))
  = em_s_step (tcol (iv_T m)) (concat (iv_sigma m)) (map (utt_NGQ D m) X).
Proof.
  intros HX Hne [Hn0 Hfl].
  destruct (estep_rank1 inv C D m Hinv Hm X HX) as [E1 E2]. destruct (estep_sn_n X HX) as [E3 E4].
  rewrite E1 in Hne. rewrite Forall_map, Forall_forall in Hne.
  rewrite E4 in Hn0. rewrite Forall_map, Forall_forall in Hn0.
  rewrite (em_s_form X HX) in Hfl. rewrite Forall_forall in Hfl.
  rewrite (em_s_form X HX). f_equal.
  apply (mstep_sigma_rank1 floor (A2 D m X) (B2 D m X) (SN X) (NN X) _ E1 E2 E3 E4).
  - intros c Hc. apply (Hne c). apply in_seq. lia.
  - intros c Hc. apply (Hn0 c). apply in_seq. lia.
  - intros c d Hc Hd. apply Hfl. apply in_concat.
    exists (map (fun d => (SN X c d - (B2 D m X c d * (B2 D m X c d / A2 D m X c) + 0)) / NN X c) (seq 0 D)). split.
    + apply in_map_iff. exists c. split; [reflexivity|apply in_seq; lia].
    + apply in_map_iff. exists d. split; [reflexivity|apply in_seq; lia].
Qed.
Lemma utt_NGQ_ok s : IVectorR.gstat_ok C D s ->
  length (fst (fst (utt_NGQ D m s))) = (C * D)%nat /\ length (snd (fst (utt_NGQ D m s))) = (C * D)%nat
  /\ length (snd (utt_NGQ D m s)) = (C * D)%nat /\ Forall (fun n => 0 <= n) (fst (fst (utt_NGQ D m s))).
Proof.
  intros Hs. destruct (utt_ok C D m Hm s Hs) as (L1 & L2 & P). unfold utt_NGQ. cbn [fst snd].
  repeat split; try assumption.
  destruct (snorm1_shape s Hs) as [F1 F2].
  etransitivity; [apply (FAEnroll.len_concat _ D F2)|]. unfold InstR.T in *. now rewrite F1.
Qed.
Lemma Nj_NN (X : list gstat) c d : Forall (IVectorR.gstat_ok C D) X -> (c < C)%nat -> (d < D)%nat ->
  rsum (map (fun p : list R * list R => nth (c * D + d) (fst p) 0) (map (utt_NG D m) X)) = NN X c.
Proof.
  intros HX Hc Hd. rewrite Forall_forall in HX.
  rewrite map_map. unfold NN. apply rsum_map_ext. intros s Hs. apply (nth_utt_fst C D m s c d (HX s Hs)); lia.
Qed.
Lemma iv_em_sigma_monotone_S (floor : R) (X : list gstat) : Forall (IVectorR.gstat_ok C D) X -> 0 < floor ->
  Forall (fun w2 => 0 < nth 0 (nth 0 w2 []) 0) (a_w2 (e_step inv C D 1 m X)) ->
  Forall (fun n => 0 < n) (a_n (e_step inv C D 1 m X)) ->
  sigma_floor_inactive inv C D floor m X ->
  rsum (map (marg2 (tcol (iv_T m)) (concat (iv_sigma m))) (map (utt_NGQ D m) X))
  <= rsum (map (marg2 (em_v_step (tcol (iv_T m)) (concat (iv_sigma m)) (map ng_of (map (utt_NGQ D m) X)))
                      (em_s_step (tcol (iv_T m)) (concat (iv_sigma m)) (map (utt_NGQ D m) X))) (map (utt_NGQ D m) X)).
Proof.
  intros HX Hfl0 Hpos Hnpos [_ Hfl].
  destruct (estep_rank1 inv C D m Hinv Hm X HX) as [E1 _]. destruct (estep_sn_n X HX) as [_ E4].
  rewrite E1 in Hpos. rewrite Forall_map, Forall_forall in Hpos.
  rewrite E4 in Hnpos. rewrite Forall_map, Forall_forall in Hnpos.
  apply (rank1_sigma_core_monotone (C * D)).
  - apply (len_tcol C D m Hm).
  - apply (len_ss C D m Hm).
  - apply (ss_pos C D m Hm).
  - rewrite Forall_map. rewrite Forall_forall in HX. apply Forall_forall. intros s Hs.
    apply (utt_NGQ_ok s (HX s Hs)).
  - intros j Hj. rewrite ng_of_utt, den_form. destruct (split_index C D j Hj) as (c & d & Hc & Hd & ->).
    rewrite (Bj_A2 C D m X c d HX Hc Hd). apply (Hpos c). apply in_seq. lia.
  - intros j Hj. rewrite ng_of_utt. destruct (split_index C D j Hj) as (c & d & Hc & Hd & ->).
    rewrite (Nj_NN X c d HX Hc Hd). apply (Hnpos c). apply in_seq. lia.
  - intros j Hj. apply Rlt_le_trans with floor; [exact Hfl0|].
    apply (FAEnroll.Forall_nth_lt (fun x => floor <= x)); [exact Hfl|].
    rewrite em_s_step_form, map_length, seq_length, (len_tcol C D m Hm). exact Hj.
Qed.
End S1.

Theorem iv_em_rank1_sigma (inv : list (list R) -> list (list R)) (C D : nat) (floor : R) (m : ivm) (X : list gstat) :
  inv1_ok inv -> ivm_ok C D 1 m -> Forall (IVectorR.gstat_ok C D) X ->
  Forall (fun w2 => nth 0 (nth 0 w2 []) 0 <> 0) (a_w2 (e_step inv C D 1 m X)) ->
  sigma_floor_inactive inv C D floor m X ->
  let m' := m_step inv D 1 true floor m (e_step inv C D 1 m X) in
  iv_mu m' = iv_mu m
  /\ tcol (iv_T m') = em_v_step (tcol (iv_T m)) (concat (iv_sigma m)) (map (utt_NG D m) X)
  /\ concat (iv_sigma m') = em_s_step (tcol (iv_T m)) (concat (iv_sigma m)) (map (utt_NGQ D m) X).
Proof.
  intros Hinv Hm HX Hne Hfl m'. subst m'. split; [reflexivity|split].
  - destruct (iv_em_rank1 inv C D floor m X Hinv Hm HX Hne) as (_ & _ & ET). exact ET.
  - apply (iv_em_rank1_sigma_S inv C D m Hinv Hm floor X HX Hne Hfl).
Qed.

Theorem iv_em_sigma_monotone_rank1 (inv : list (list R) -> list (list R)) (C D : nat) (floor : R) (m : ivm) (X : list gstat) :
  inv1_ok inv -> ivm_ok C D 1 m -> Forall (IVectorR.gstat_ok C D) X -> 0 < floor ->
  Forall (fun w2 => 0 < nth 0 (nth 0 w2 []) 0) (a_w2 (e_step inv C D 1 m X)) ->
  Forall (fun n => 0 < n) (a_n (e_step inv C D 1 m X)) ->
  sigma_floor_inactive inv C D floor m X ->
  let m' := m_step inv D 1 true floor m (e_step inv C D 1 m X) in
  iv_marginal2 D m (iv_T m) (iv_sigma m) X <= iv_marginal2 D m (iv_T m') (iv_sigma m') X.
Proof.
  intros Hinv Hm HX Hfl0 Hpos Hnpos Hfl m'. subst m'.
  assert (Hne : Forall (fun w2 => nth 0 (nth 0 w2 []) 0 <> 0) (a_w2 (e_step inv C D 1 m X))).
  { eapply Forall_impl; [|exact Hpos]. intros a Ha. cbv beta in *. lra. }
  destruct (iv_em_rank1_sigma inv C D floor m X Hinv Hm HX Hne Hfl) as (_ & ET & ES). cbv zeta in ET, ES.
  unfold iv_marginal2. rewrite ET. unfold InstR.T in *. rewrite ES. rewrite <- (ng_of_utt D m X).
  assert (Em : forall w t, rsum (map (fun s => marg2 w t (utt_NGQ D m s)) X) = rsum (map (marg2 w t) (map (utt_NGQ D m) X))).
  { intros w t. rewrite map_map. reflexivity. }
  rewrite !Em.
  apply (iv_em_sigma_monotone_S inv C D m Hinv Hm floor X HX Hfl0 Hpos Hnpos Hfl).
Qed.
