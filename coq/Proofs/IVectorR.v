(* C10 / C12: i-vector projection is the unique posterior mean; covariance floor; the accumulators
   form a commutative monoid and the pairwise tree reduction equals the plain sum, so every
   partition of the statistics enters the M-step exactly once. *)
From Coq Require Import Reals Lra List Lia Bool Arith Permutation.
From BLE Require Import Num.Scalar Num.InstR Lib.Vec Model.IVector Proofs.RLemmas.
Import ListNotations.
Open Scope R_scope.

Module IR := IVector InstR.
Import IR.

Definition dotR (a b : list R) : R := rsum (V.map2 Rmult a b).

(* shapes: C components, D features, t = i-vector dimension *)
Definition ivm_ok (C D t : nat) (m : ivm) :=
  length (iv_mu m) = C /\ Forall (fun r => length r = D) (iv_mu m) /\
  length (iv_T m) = C /\ Forall (fun Tc => length Tc = D /\ Forall (fun r => length r = t) Tc) (iv_T m) /\
  length (iv_sigma m) = C /\ Forall (fun r => length r = D /\ Forall (fun v => 0 < v) r) (iv_sigma m).
Definition gstat_ok (C D : nat) (s : gstat) :=
  length (g_n s) = C /\ Forall (fun n => 0 <= n) (g_n s) /\
  length (g_px s) = C /\ Forall (fun r => length r = D) (g_px s) /\
  length (g_pxx s) = C /\ Forall (fun r => length r = D) (g_pxx s).

(* contract of the external solver / inverse for the matrix it is applied to *)
Definition inv_ok (inv : list (list R) -> list (list R)) (t : nat) (A : list (list R)) : Prop :=
  length (inv A) = t /\ Forall (fun row => length row = t) (inv A) /\
  (forall v, length v = t -> V.matvec A (V.matvec (inv A) v) = v).


(* ------------------------------------------------------------------ generic list helpers at IR.V *)
Lemma map2_comm {A B} (f : A -> A -> B) a b : (forall x y, f x y = f y x) -> V.map2 f a b = V.map2 f b a.
Proof. intros H. revert b; induction a as [|x a IH]; intros [|y b]; cbn [V.map2]; try reflexivity. now rewrite IH, H. Qed.
Lemma map2_assoc {A} (f : A -> A -> A) a b c : (forall x y z, f x (f y z) = f (f x y) z) ->
  V.map2 f a (V.map2 f b c) = V.map2 f (V.map2 f a b) c.
Proof. intros H. revert b c; induction a as [|x a IH]; intros [|y b] [|z c]; cbn [V.map2]; try reflexivity. now rewrite IH, H. Qed.
Lemma map2_repeat_l {A} (f : A -> A -> A) (P : A -> Prop) z n a :
  (forall x, P x -> f z x = x) -> length a = n -> Forall P a -> V.map2 f (repeat z n) a = a.
Proof.
  intros H. revert a; induction n as [|n IH]; intros [|x a] Hl Hf; cbn [repeat V.map2 length] in *; try discriminate; auto.
  inversion Hf; subst. rewrite IH by (auto; lia). now rewrite H.
Qed.
Lemma len_map2 {A B C} (f : A -> B -> C) a b : length (V.map2 f a b) = Nat.min (length a) (length b).
Proof. revert b; induction a as [|x a IH]; intros [|y b]; cbn [V.map2 length Nat.min]; auto. Qed.
Lemma len_map3 {A B C D} (f : A -> B -> C -> D) a b c :
  length (V.map3 f a b c) = Nat.min (length a) (Nat.min (length b) (length c)).
Proof. revert b c; induction a as [|x a IH]; intros [|y b] [|z c]; cbn [V.map3 length Nat.min]; auto. Qed.
Lemma Forall_map2 {A B C} (f : A -> B -> C) (P : A -> Prop) (Q : B -> Prop) (S : C -> Prop) a b :
  (forall x y, P x -> Q y -> S (f x y)) -> Forall P a -> Forall Q b -> Forall S (V.map2 f a b).
Proof.
  intros H Ha. revert b; induction Ha as [|x a Hx Ha IH]; intros b Hb; destruct Hb as [|y b Hy Hb]; cbn [V.map2]; constructor; auto.
Qed.
Lemma Forall_map3 {A B C D} (f : A -> B -> C -> D) (P : A -> Prop) (Q : B -> Prop) (S : C -> Prop) (U : D -> Prop) a b c :
  (forall x y z, P x -> Q y -> S z -> U (f x y z)) -> Forall P a -> Forall Q b -> Forall S c -> Forall U (V.map3 f a b c).
Proof.
  intros H Ha. revert b c; induction Ha as [|x a Hx Ha IH]; intros b c Hb Hc;
    destruct Hb as [|y b Hy Hb]; destruct Hc as [|z c Hz Hc]; cbn [V.map3]; constructor; auto.
Qed.
Lemma Forall_True {A} (l : list A) : Forall (fun _ => True) l.
Proof. induction l; constructor; auto. Qed.
Lemma map2_map {A B C D} (f : B -> C -> D) (g : A -> B) (h : A -> C) l :
  V.map2 f (map g l) (map h l) = map (fun a => f (g a) (h a)) l.
Proof. induction l; cbn [map V.map2]; auto. now rewrite IHl. Qed.
Lemma list_eq_seq {A} (l : list A) d0 : l = map (fun i => nth i l d0) (seq 0 (length l)).
Proof.
  induction l as [|a l IH]; cbn [length seq map nth]; [reflexivity|].
  f_equal. rewrite <- seq_shift, map_map. exact IH.
Qed.

(* ------------------------------------------------------------------ vadd / madd algebra *)
Lemma vadd_comm a b : V.vadd a b = V.vadd b a.
Proof. apply map2_comm. intros; unfold_R; ring. Qed.
Lemma vadd_assoc a b c : V.vadd a (V.vadd b c) = V.vadd (V.vadd a b) c.
Proof. apply map2_assoc. intros; unfold_R; ring. Qed.
Lemma madd_comm a b : V.madd a b = V.madd b a.
Proof. apply map2_comm. apply vadd_comm. Qed.
Lemma madd_assoc a b c : V.madd a (V.madd b c) = V.madd (V.madd a b) c.
Proof. apply map2_assoc. apply vadd_assoc. Qed.
Lemma vadd_zero_l n (a : list R) : length a = n -> V.vadd (V.vzero n) a = a.
Proof.
  intros H. apply (map2_repeat_l InstR.add (fun _ => True)); auto.
  - intros; unfold_R; ring.
  - apply Forall_True.
Qed.
Lemma madd_zero_l r c (M : list (list R)) : length M = r -> Forall (fun row => length row = c) M ->
  V.madd (V.mzero r c) M = M.
Proof. intros H1 H2. apply (map2_repeat_l V.vadd (fun row => length row = c)); auto. intros; now apply vadd_zero_l. Qed.
Lemma vadd_len (a b : list R) : length (V.vadd a b) = Nat.min (length a) (length b).
Proof. apply len_map2. Qed.
Lemma madd_shape r c (A B : list (list R)) :
  length A = r /\ Forall (fun row => length row = c) A -> length B = r /\ Forall (fun row => length row = c) B ->
  length (V.madd A B) = r /\ Forall (fun row => length row = c) (V.madd A B).
Proof.
  intros [HA FA] [HB FB]. split.
  - unfold V.madd. rewrite len_map2; unfold InstR.T in *; rewrite HA, HB. apply Nat.min_id.
  - unfold V.madd. eapply Forall_map2; [|exact FA|exact FB]. cbv beta. intros x y Hx Hy. rewrite vadd_len; unfold InstR.T in *; rewrite Hx, Hy. apply Nat.min_id.
Qed.
Lemma vzero_len n : length (V.vzero n) = n.
Proof. apply repeat_length. Qed.
Lemma mzero_shape r c : length (V.mzero r c) = r /\ Forall (fun row => length row = c) (V.mzero r c).
Proof. unfold V.mzero. split. apply repeat_length. apply Forall_forall. intros x Hx. apply repeat_spec in Hx. subst. apply vzero_len. Qed.
(* ------------------------------------------------------------------ dot products and quadratic forms *)
Lemma Vdot_eq : @eq (list R -> list R -> R) V.dot dotR.
Proof. reflexivity. Qed.
Lemma dotR_cons x a y b : dotR (x :: a) (y :: b) = x * y + dotR a b.
Proof. reflexivity. Qed.
Lemma dotR_nil_r a : dotR a [] = 0.
Proof. destruct a; reflexivity. Qed.
Lemma dotR_add_l (r1 r2 d : list R) : length r1 = length r2 -> dotR (V.vadd r1 r2) d = dotR r1 d + dotR r2 d.
Proof.
  revert r2 d; induction r1 as [|x r1 IH]; intros [|y r2] [|z d] H; cbn [length] in *; try discriminate;
    try (cbn; lra).
  change (V.vadd (x :: r1) (y :: r2)) with ((x + y) :: V.vadd r1 r2). rewrite !dotR_cons, IH by lia. ring.
Qed.
Lemma dotR_add_r (d u v : list R) : length u = length v -> dotR d (V.vadd u v) = dotR d u + dotR d v.
Proof.
  revert u v; induction d as [|z d IH]; intros [|x u] [|y v] H; cbn [length] in *; try discriminate;
    try (cbn; lra).
  change (V.vadd (x :: u) (y :: v)) with ((x + y) :: V.vadd u v). rewrite !dotR_cons, IH by lia. ring.
Qed.
Lemma dotR_sub_r (d u v : list R) : length u = length v -> dotR d (V.map2 Rminus u v) = dotR d u - dotR d v.
Proof.
  revert u v; induction d as [|z d IH]; intros [|x u] [|y v] H; cbn [length] in *; try discriminate;
    try (cbn; lra).
  cbn [V.map2]. rewrite !dotR_cons, IH by lia. ring.
Qed.
Lemma dotR_scal_l k (r d : list R) : dotR (V.vscale k r) d = k * dotR r d.
Proof.
  revert d; induction r as [|x r IH]; intros [|z d]; try (cbn; lra).
  change (V.vscale k (x :: r)) with ((k * x) :: V.vscale k r). rewrite !dotR_cons, IH. ring.
Qed.
Lemma dotR_scal_r k (d v : list R) : dotR d (map (Rmult k) v) = k * dotR d v.
Proof.
  revert v; induction d as [|z d IH]; intros [|x v]; try (cbn; lra).
  cbn [map]. rewrite !dotR_cons, IH. ring.
Qed.
Lemma dotR_zero_l n (d : list R) : dotR (repeat 0 n) d = 0.
Proof. revert d; induction n as [|n IH]; intros [|z d]; try (cbn; lra). cbn [repeat]. rewrite dotR_cons, IH. ring. Qed.
Lemma dotR_zero_r n (d : list R) : dotR d (repeat 0 n) = 0.
Proof. revert d; induction n as [|n IH]; intros [|z d]; try (cbn; lra). cbn [repeat]. rewrite dotR_cons, IH. ring. Qed.
Lemma dotR_self_nonneg (d : list R) : 0 <= dotR d d.
Proof. induction d as [|z d IH]; [cbn; lra|]. rewrite dotR_cons. nra. Qed.
Lemma sub_norm_zero (w w' : list R) : length w = length w' ->
  dotR (V.map2 Rminus w w') (V.map2 Rminus w w') <= 0 -> w = w'.
Proof.
  revert w'; induction w as [|x w IH]; intros [|y w'] H; cbn [length] in *; try discriminate; auto.
  cbn [V.map2]. rewrite dotR_cons. intros K.
  pose proof (dotR_self_nonneg (V.map2 Rminus w w')) as N.
  assert (x = y) by nra. subst y. f_equal. apply IH. lia. nra.
Qed.
Lemma map2_sub_self (l : list R) : V.map2 Rminus l l = repeat 0 (length l).
Proof. induction l as [|x l IH]; cbn [V.map2 length repeat]; auto. rewrite IH. f_equal. ring. Qed.

Definition qf (M : list (list R)) (d : list R) : R := dotR d (V.matvec M d).

Lemma matvec_len (M : list (list R)) d : length (V.matvec M d) = length M.
Proof. apply map_length. Qed.
Lemma matvec_madd c (A B : list (list R)) d :
  Forall (fun row => length row = c) A -> Forall (fun row => length row = c) B ->
  V.matvec (V.madd A B) d = V.vadd (V.matvec A d) (V.matvec B d).
Proof.
  intros HA. revert B; induction HA as [|x A Hx HA IH]; intros B HB; destruct HB as [|y B Hy HB]; try reflexivity.
  change (V.madd (x :: A) (y :: B)) with (V.vadd x y :: V.madd A B).
  change (V.matvec (V.vadd x y :: V.madd A B) d) with (dotR (V.vadd x y) d :: V.matvec (V.madd A B) d).
  change (V.matvec (x :: A) d) with (dotR x d :: V.matvec A d).
  change (V.matvec (y :: B) d) with (dotR y d :: V.matvec B d).
  change (V.vadd (dotR x d :: V.matvec A d) (dotR y d :: V.matvec B d))
    with ((dotR x d + dotR y d) :: V.vadd (V.matvec A d) (V.matvec B d)).
  rewrite IH by auto. f_equal. apply dotR_add_l. congruence.
Qed.
Lemma matvec_sub (P : list (list R)) (w w' : list R) :
  length w = length w' ->
  V.matvec P (V.map2 Rminus w w') = V.map2 Rminus (V.matvec P w) (V.matvec P w').
Proof.
  intros H. induction P as [|r P IH]; try reflexivity.
  change (V.matvec (r :: P) (V.map2 Rminus w w')) with (dotR r (V.map2 Rminus w w') :: V.matvec P (V.map2 Rminus w w')).
  change (V.matvec (r :: P) w) with (dotR r w :: V.matvec P w).
  change (V.matvec (r :: P) w') with (dotR r w' :: V.matvec P w').
  cbn [V.map2]. rewrite IH. f_equal. now apply dotR_sub_r.
Qed.
Lemma matvec_mscale k (M : list (list R)) d : V.matvec (V.mscale k M) d = map (Rmult k) (V.matvec M d).
Proof.
  induction M as [|r M IH]; try reflexivity.
  change (V.matvec (V.mscale k (r :: M)) d) with (dotR (V.vscale k r) d :: V.matvec (V.mscale k M) d).
  change (V.matvec (r :: M) d) with (dotR r d :: V.matvec M d).
  cbn [map]. rewrite IH. f_equal. apply dotR_scal_l.
Qed.
Lemma matvec_zero_r n (M : list (list R)) : V.matvec M (repeat 0 n) = repeat 0 (length M).
Proof.
  induction M as [|r M IH]; try reflexivity.
  change (V.matvec (r :: M) (repeat 0 n)) with (dotR r (repeat 0 n) :: V.matvec M (repeat 0 n)).
  cbn [length repeat]. rewrite IH. f_equal. apply dotR_zero_r.
Qed.

Lemma qf_madd r c (A B : list (list R)) d :
  length A = r /\ Forall (fun row => length row = c) A -> length B = r /\ Forall (fun row => length row = c) B ->
  qf (V.madd A B) d = qf A d + qf B d.
Proof.
  intros [HA FA] [HB FB]. unfold qf. rewrite (matvec_madd c) by auto. apply dotR_add_r.
  rewrite !matvec_len. congruence.
Qed.
Lemma qf_mscale k (M : list (list R)) d : qf (V.mscale k M) d = k * qf M d.
Proof. unfold qf. rewrite matvec_mscale. apply dotR_scal_r. Qed.
Lemma qf_mzero r c d : qf (V.mzero r c) d = 0.
Proof.
  unfold qf. replace (V.matvec (V.mzero r c) d) with (repeat 0 r). apply dotR_zero_r.
  unfold V.mzero. induction r as [|r IH]; try reflexivity.
  cbn [repeat]. change (V.matvec (V.vzero c :: repeat (V.vzero c) r) d) with (dotR (repeat 0 c) d :: V.matvec (repeat (V.vzero c) r) d).
  rewrite <- IH. f_equal. symmetry. apply dotR_zero_l.
Qed.

(* index forms *)
Lemma dotR_map_seq_l (G : nat -> R) (d : list R) t : length d = t ->
  dotR (map G (seq 0 t)) d = rsum (map (fun b => G b * nth b d 0) (seq 0 t)).
Proof.
  intros H. pose proof (list_eq_seq d 0) as E. rewrite H in E.
  transitivity (dotR (map G (seq 0 t)) (map (fun i => nth i d 0) (seq 0 t))); [now rewrite <- E|].
  unfold dotR. now rewrite map2_map.
Qed.
Lemma dotR_map_seq_r (G : nat -> R) (d : list R) t : length d = t ->
  dotR d (map G (seq 0 t)) = rsum (map (fun a => nth a d 0 * G a) (seq 0 t)).
Proof.
  intros H. pose proof (list_eq_seq d 0) as E. rewrite H in E.
  transitivity (dotR (map (fun i => nth i d 0) (seq 0 t)) (map G (seq 0 t))); [now rewrite <- E|].
  unfold dotR. now rewrite map2_map.
Qed.
Lemma matvec_gen (F : nat -> nat -> R) t d :
  V.matvec (map (fun a => map (fun b => F a b) (seq 0 t)) (seq 0 t)) d =
  map (fun a => dotR (map (fun b => F a b) (seq 0 t)) d) (seq 0 t).
Proof. unfold V.matvec. rewrite map_map. reflexivity. Qed.
Lemma gen_shape (F : nat -> nat -> R) t :
  length (map (fun a => map (fun b => F a b) (seq 0 t)) (seq 0 t)) = t /\
  Forall (fun row => length row = t) (map (fun a => map (fun b => F a b) (seq 0 t)) (seq 0 t)).
Proof.
  split. now rewrite map_length, seq_length.
  apply Forall_forall. intros x Hx. apply in_map_iff in Hx. destruct Hx as [a [<- _]]. now rewrite map_length, seq_length.
Qed.
Lemma rsum_delta (g : nat -> R) i s n :
  rsum (map (fun j => (if Nat.eqb i j then 1 else 0) * g j) (seq s n)) =
  if (s <=? i)%nat && (i <? s + n)%nat then g i else 0.
Proof.
  revert s; induction n as [|n IH]; intros s; cbn [seq map rsum].
  - destruct (Nat.leb_spec s i); destruct (Nat.ltb_spec i (s + 0)); cbn [andb]; try lra; lia.
  - rewrite IH.
    destruct (Nat.eqb_spec i s); destruct (Nat.leb_spec s i); destruct (Nat.ltb_spec i (s + S n));
      destruct (Nat.leb_spec (S s) i); destruct (Nat.ltb_spec i (S s + n)); cbn [andb]; try lia; subst; try lra.
Qed.
Lemma matvec_eye t (d : list R) : length d = t -> V.matvec (V.eye t) d = d.
Proof.
  intros H. unfold V.eye. change InstR.one with 1. change InstR.zero with 0.
  rewrite (matvec_gen (fun i j => if Nat.eqb i j then 1 else 0)).
  etransitivity; [|symmetry; apply (list_eq_seq d 0)]. rewrite H. apply map_ext_in. intros a Ha. apply in_seq in Ha.
  rewrite dotR_map_seq_l by auto. rewrite rsum_delta.
  destruct (Nat.leb_spec 0 a); destruct (Nat.ltb_spec a (0 + t)); cbn [andb]; try lia. reflexivity.
Qed.
Lemma eye_shape t : length (V.eye t) = t /\ Forall (fun row : list R => length row = t) (V.eye t).
Proof. unfold V.eye. apply (gen_shape (fun i j => if Nat.eqb i j then InstR.one else InstR.zero)). Qed.

(* rank-one piece  (row[a]/s) * row[b]  of T_c' Sigma_c^-1 T_c *)
Definition rank1 (t : nat) (row : list R) (s : R) : list (list R) :=
  map (fun a => map (fun b => nth a row 0 / s * nth b row 0) (seq 0 t)) (seq 0 t).
Lemma qf_rank1 t row s d : length d = t -> 0 < s -> 0 <= qf (rank1 t row s) d.
Proof.
  intros Hd Hs. unfold qf, rank1.
  rewrite (matvec_gen (fun a b => nth a row 0 / s * nth b row 0)).
  rewrite dotR_map_seq_r by auto.
  set (S := rsum (map (fun b => nth b row 0 * nth b d 0) (seq 0 t))).
  assert (E : rsum (map (fun a => nth a d 0 * dotR (map (fun b => nth a row 0 / s * nth b row 0) (seq 0 t)) d) (seq 0 t))
              = S * S / s).
  { transitivity (rsum (map (fun a => (nth a row 0 * nth a d 0) * (S / s)) (seq 0 t))).
    - apply rsum_map_ext. intros a _. rewrite dotR_map_seq_l by auto.
      transitivity (nth a d 0 * (nth a row 0 / s * S)); [|field; lra].
      f_equal. unfold S. rewrite <- rsum_map_scal_l. apply rsum_map_ext. intros b _. ring.
    - rewrite rsum_map_scal_r. fold S. field. lra. }
  rewrite E. apply Rmult_le_pos. nra. left. now apply Rinv_0_lt_compat.
Qed.
Lemma vadd_map {A} (f g : A -> R) l : V.vadd (map f l) (map g l) = map (fun c => f c + g c) l.
Proof. unfold V.vadd. apply map2_map. Qed.
Lemma madd_map {A} (f g : A -> list R) l : V.madd (map f l) (map g l) = map (fun c => V.vadd (f c) (g c)) l.
Proof. unfold V.madd. apply map2_map. Qed.
Lemma tst1_cons t row Tc s sig : tst1 t (row :: Tc) (s :: sig) = V.madd (rank1 t row s) (tst1 t Tc sig).
Proof.
  unfold tst1, rank1. rewrite madd_map. apply map_ext. intros a. rewrite vadd_map. apply map_ext. intros b.
  reflexivity.
Qed.
Lemma tst1_shape t Tc sig : length (tst1 t Tc sig) = t /\ Forall (fun row : list R => length row = t) (tst1 t Tc sig).
Proof. unfold tst1. apply (gen_shape (fun a b => V.vsum (V.map2 (fun row s => InstR.mul (InstR.div (nth a row InstR.zero) s) (nth b row InstR.zero)) Tc sig))). Qed.
Lemma tst1_nil t Tc sig : Tc = [] \/ sig = [] -> tst1 t Tc sig = V.mzero t t.
Proof.
  intros H. unfold tst1.
  assert (E : forall a b, V.vsum (V.map2 (fun row s => InstR.mul (InstR.div (nth a row InstR.zero) s) (nth b row InstR.zero)) Tc sig) = 0).
  { intros a b. destruct H; subst; [reflexivity|]. destruct Tc; reflexivity. }
  unfold V.mzero, V.vzero.
  assert (R0 : forall {A} (x : A) n, repeat x n = map (fun _ => x) (seq 0 n)).
  { intros A x n. generalize 0%nat. induction n; intros k; cbn [repeat seq map]; auto. now rewrite <- IHn. }
  etransitivity; [|symmetry; apply R0]. apply map_ext. intros a. etransitivity; [|symmetry; apply R0]. apply map_ext. intros b. apply E.
Qed.
Lemma qf_tst1 t Tc sig d : length d = t -> Forall (fun v => 0 < v) sig -> 0 <= qf (tst1 t Tc sig) d.
Proof.
  intros Hd Hsig. revert Tc; induction Hsig as [|s sig Hs Hsig IH]; intros Tc.
  - rewrite tst1_nil by auto. rewrite qf_mzero. lra.
  - destruct Tc as [|row Tc]. { rewrite tst1_nil by auto. rewrite qf_mzero. lra. }
    rewrite tst1_cons. rewrite (qf_madd t t).
    + pose proof (qf_rank1 t row s d Hd Hs). specialize (IH Tc). lra.
    + apply (gen_shape (fun a b => nth a row 0 / s * nth b row 0)).
    + apply tst1_shape.
Qed.
Lemma mscale_shape k r c (M : list (list R)) : length M = r /\ Forall (fun row => length row = c) M ->
  length (V.mscale k M) = r /\ Forall (fun row => length row = c) (V.mscale k M).
Proof.
  intros [H1 H2]. unfold V.mscale. split. now rewrite map_length.
  apply Forall_map. eapply Forall_impl; [|exact H2]. cbv beta. intros row Hr. unfold V.vscale. now rewrite map_length.
Qed.
Lemma msum_shape_qf t d (Ms : list (list (list R))) :
  Forall (fun M => (length M = t /\ Forall (fun row => length row = t) M) /\ 0 <= qf M d) Ms ->
  (length (msum t t Ms) = t /\ Forall (fun row => length row = t) (msum t t Ms)) /\ 0 <= qf (msum t t Ms) d.
Proof.
  induction 1 as [|M Ms [HM HQ] _ [IH1 IH2]]; unfold msum; cbn [fold_right].
  - split. apply mzero_shape. rewrite qf_mzero. lra.
  - fold (msum t t Ms). split. now apply madd_shape. rewrite (qf_madd t t); auto. lra.
Qed.

Section Project.
Variable inv : list (list R) -> list (list R).
Variables (C D t : nat) (m : ivm) (s : gstat).
Hypothesis Hm : ivm_ok C D t m.
Hypothesis Hs : gstat_ok C D s.

Lemma precision_parts (d : list R) : length d = t ->
  let S := msum t t (V.map3 (fun Tc sig n => V.mscale n (tst1 t Tc sig)) (iv_T m) (iv_sigma m) (g_n s)) in
  (length S = t /\ Forall (fun row => length row = t) S) /\ 0 <= qf S d.
Proof.
  intros Hd. cbv zeta. apply msum_shape_qf.
  destruct Hm as (_ & _ & _ & _ & _ & Hsig). destruct Hs as (_ & Hn & _).
  eapply Forall_map3; [|apply Forall_True|exact Hsig|exact Hn].
  cbv beta. intros Tc sig n _ [_ Hp] Hn0. split.
  - apply mscale_shape. apply tst1_shape.
  - rewrite qf_mscale. apply Rmult_le_pos; auto. now apply qf_tst1.
Qed.
Lemma precision_shape : length (precision t m s) = t /\ Forall (fun row => length row = t) (precision t m s).
Proof.
  unfold precision. apply madd_shape. apply eye_shape.
  apply (precision_parts (repeat 0 t)). apply repeat_length.
Qed.

(* the precision matrix is I + PSD: its quadratic form dominates |d|^2 *)
Theorem precision_quadratic_form (d : list R) : length d = t ->
  dotR d d <= dotR d (V.matvec (precision t m s) d).
Proof.
  intros Hd. change (dotR d (V.matvec (precision t m s) d)) with (qf (precision t m s) d).
  unfold precision. destruct (precision_parts d Hd) as [Hsh Hq].
  rewrite (qf_madd t t); [|apply eye_shape|exact Hsh].
  unfold qf at 1. rewrite matvec_eye by auto. lra.
Qed.

Lemma linterm_len : length (linterm t m s) = t.
Proof.
  unfold linterm.
  set (L := V.map3 _ _ _ _).
  assert (HL : Forall (fun v : list R => length v = t) L).
  { unfold L. eapply Forall_map3; [|apply Forall_True|apply Forall_True|apply Forall_True].
    cbv beta. intros. now rewrite map_length, seq_length. }
  clearbody L. induction HL as [|v L Hv HL IH]; cbn [fold_right]. apply vzero_len.
  rewrite vadd_len. unfold InstR.T in *. rewrite Hv, IH. apply Nat.min_id.
Qed.

(* the i-vector solves (I + sum_c N_c T_c' S_c^-1 T_c) w = sum_c T_c' S_c^-1 (F_c - N_c m_c) ... *)
Theorem project_solves : inv_ok inv t (precision t m s) ->
  V.matvec (precision t m s) (project inv t m s) = linterm t m s /\ length (project inv t m s) = t.
Proof.
  intros (H1 & H2 & H3). unfold project. split.
  - apply H3. apply linterm_len.
  - rewrite matvec_len. exact H1.
Qed.

(* ... and that equation has a unique solution *)
Theorem project_unique (w w' : list R) : length w = t -> length w' = t ->
  V.matvec (precision t m s) w = linterm t m s -> V.matvec (precision t m s) w' = linterm t m s -> w = w'.
Proof.
  intros Hw Hw' E1 E2. apply sub_norm_zero; [congruence|].
  set (d := V.map2 Rminus w w').
  assert (Hd : length d = t). { unfold d. rewrite len_map2. unfold InstR.T in *. rewrite Hw, Hw'. apply Nat.min_id. }
  pose proof (precision_quadratic_form d Hd) as Q.
  assert (Z : V.matvec (precision t m s) d = repeat 0 (length (linterm t m s))).
  { unfold d. rewrite matvec_sub by congruence. rewrite E1, E2. apply map2_sub_self. }
  rewrite Z, dotR_zero_r in Q. exact Q.
Qed.

(* statistics with no frames (all counts and first-order sums zero) give the zero i-vector *)
Theorem project_zero_stats : inv_ok inv t (precision t m s) ->
  Forall (fun n => n = 0) (g_n s) -> Forall (Forall (fun f => f = 0)) (g_px s) ->
  project inv t m s = V.vzero t.
Proof.
  intros (H1 & H2 & H3) Hn Hpx.
  assert (HL : linterm t m s = V.vzero t).
  { unfold linterm.
    assert (Hf : Forall (Forall (fun f => f = 0)) (fnorm m s)).
    { unfold fnorm. eapply Forall_map3; [|exact Hpx|exact Hn|apply Forall_True].
      cbv beta. intros f n mu Hf -> _. eapply Forall_map2; [|exact Hf|apply Forall_True].
      cbv beta. intros a b -> _. unfold_R. ring. }
    set (L := V.map3 _ _ _ _).
    assert (HLz : Forall (fun v : list R => v = V.vzero t) L).
    { unfold L. eapply Forall_map3; [|apply Forall_True|apply Forall_True|exact Hf].
      cbv beta. intros Tc sig fn _ _ Hfn.
      assert (R0 : forall n, V.vzero n = map (fun _ => 0) (seq 0 n)).
      { unfold V.vzero. intros n. generalize 0%nat. induction n; intros k; cbn [repeat seq map]; auto. now rewrite <- IHn. }
      rewrite R0. apply map_ext. intros a.
      revert Tc sig; induction Hfn as [|f fn Hf0 Hfn IH]; intros [|row Tc] [|sg sig]; try reflexivity.
      cbn [V.map3 V.vsum]. rewrite IH. subst f. unfold_R. ring. }
    clearbody L. induction HLz as [|v L Hv HLz IH]; cbn [fold_right]; auto.
    rewrite IH, Hv. apply vadd_zero_l. apply vzero_len. }
  unfold project. rewrite HL. unfold V.vzero. change InstR.zero with 0.
  rewrite matvec_zero_r. unfold InstR.T in *. now rewrite H1.
Qed.
End Project.

(* updated covariances never fall below the configured floor (every component, zero-count ones included) *)
Theorem sigma_floor (inv : list (list R) -> list (list R)) (D t : nat) (floor : R) (m : ivm) (st : acc) :
  Forall (Forall (fun v => floor <= v)) (iv_sigma (m_step inv D t true floor m st)).
Proof.
  unfold m_step; cbn [iv_sigma].
  eapply Forall_map3; [|apply Forall_True|apply Forall_True|apply Forall_True].
  cbv beta. intros [sn old] [fw X] n _ _ _. cbn [fst snd]. cbv zeta.
  destruct (InstR.eqb n InstR.zero).
  - apply Forall_forall. intros v Hv. apply in_map_iff in Hv. destruct Hv as [o [<- _]].
    destruct (InstR.ltb o floor) eqn:E; [lra|]. apply ltb_false in E. exact E.
  - eapply Forall_map2; [|apply Forall_True|apply Forall_True].
    cbv beta. intros a b _ _.
    destruct (InstR.ltb (InstR.div (InstR.sub a b) n) floor) eqn:E; [lra|]. apply ltb_false in E. exact E.
Qed.
(* without covariance updating the covariances are untouched *)
Theorem sigma_unchanged (inv : list (list R) -> list (list R)) (D t : nat) (floor : R) (m : ivm) (st : acc) :
  iv_sigma (m_step inv D t false floor m st) = iv_sigma m.
Proof. reflexivity. Qed.

(* ------------------------------------------------------------------ accumulators (C12) *)
Definition acc_ok (C D t : nat) (a : acc) :=
  length (a_w2 a) = C /\ Forall (fun M => length M = t /\ Forall (fun r => length r = t) M) (a_w2 a) /\
  length (a_fw a) = C /\ Forall (fun M => length M = D /\ Forall (fun r => length r = t) M) (a_fw a) /\
  length (a_sn a) = C /\ Forall (fun r => length r = D) (a_sn a) /\ length (a_n a) = C.

Theorem acc_add_comm (a b : acc) : acc_add a b = acc_add b a.
Proof.
  unfold acc_add. f_equal.
  - apply map2_comm. apply madd_comm.
  - apply map2_comm. apply madd_comm.
  - apply madd_comm.
  - apply vadd_comm.
Qed.
Theorem acc_add_assoc (a b c : acc) : acc_add a (acc_add b c) = acc_add (acc_add a b) c.
Proof.
  unfold acc_add; cbn [a_w2 a_fw a_sn a_n]. f_equal.
  - apply map2_assoc. apply madd_assoc.
  - apply map2_assoc. apply madd_assoc.
  - apply madd_assoc.
  - apply vadd_assoc.
Qed.
Theorem acc_add_zero_l (C D t : nat) (a : acc) : acc_ok C D t a -> acc_add (zero_acc C D t) a = a.
Proof.
  destruct a as [w2 fw sn n]. unfold acc_ok, acc_add, zero_acc; cbn [a_w2 a_fw a_sn a_n].
  intros (H1 & H2 & H3 & H4 & H5 & H6 & H7). f_equal.
  - apply (map2_repeat_l V.madd (fun M => length M = t /\ Forall (fun r => length r = t) M)); auto.
    intros x [Hx1 Hx2]. now apply madd_zero_l.
  - apply (map2_repeat_l V.madd (fun M => length M = D /\ Forall (fun r => length r = t) M)); auto.
    intros x [Hx1 Hx2]. now apply madd_zero_l.
  - now apply madd_zero_l.
  - now apply vadd_zero_l.
Qed.
Theorem acc_add_ok (C D t : nat) (a b : acc) : acc_ok C D t a -> acc_ok C D t b -> acc_ok C D t (acc_add a b).
Proof.
  unfold acc_ok, acc_add; cbn [a_w2 a_fw a_sn a_n].
  intros (A1 & A2 & A3 & A4 & A5 & A6 & A7) (B1 & B2 & B3 & B4 & B5 & B6 & B7).
  repeat split.
  - rewrite len_map2; unfold InstR.T in *; rewrite A1, B1. apply Nat.min_id.
  - eapply Forall_map2; [|exact A2|exact B2]. cbv beta. intros x y Hx Hy. now apply madd_shape.
  - rewrite len_map2; unfold InstR.T in *; rewrite A3, B3. apply Nat.min_id.
  - eapply Forall_map2; [|exact A4|exact B4]. cbv beta. intros x y Hx Hy. now apply madd_shape.
  - apply (madd_shape C D); auto.
  - apply (madd_shape C D); auto.
  - rewrite vadd_len; unfold InstR.T in *; rewrite A7, B7. apply Nat.min_id.
Qed.
Theorem zero_acc_ok (C D t : nat) : acc_ok C D t (zero_acc C D t).
Proof.
  unfold acc_ok, zero_acc; cbn [a_w2 a_fw a_sn a_n]. repeat split.
  - apply repeat_length.
  - apply Forall_forall. intros x Hx. apply repeat_spec in Hx. subst. apply mzero_shape.
  - apply repeat_length.
  - apply Forall_forall. intros x Hx. apply repeat_spec in Hx. subst. apply mzero_shape.
  - apply mzero_shape.
  - apply mzero_shape.
  - apply vzero_len.
Qed.

(* the plain left-to-right sum of a list of accumulators *)
Definition acc_sum (C D t : nat) (l : list acc) : acc := fold_right acc_add (zero_acc C D t) l.

(* --- port of the abstract tree-reduction proof (PROBES.md, Tree.v) to the accumulator monoid on acc_ok *)
Lemma acc_add_zero_r (C D t : nat) (a : acc) : acc_ok C D t a -> acc_add a (zero_acc C D t) = a.
Proof. intros H. rewrite acc_add_comm. now apply acc_add_zero_l. Qed.
Lemma acc_sum_ok C D t l : Forall (acc_ok C D t) l -> acc_ok C D t (acc_sum C D t l).
Proof. induction 1 as [|a l Ha Hl IH]; cbn [acc_sum fold_right]. apply zero_acc_ok. apply acc_add_ok; auto. Qed.
Lemma sum_app C D t l1 l2 : Forall (acc_ok C D t) l2 ->
  acc_sum C D t (l1 ++ l2) = acc_add (acc_sum C D t l1) (acc_sum C D t l2).
Proof.
  intros H2. induction l1 as [|a l1 IH]; cbn [app acc_sum fold_right].
  - symmetry. apply acc_add_zero_l. now apply acc_sum_ok.
  - fold (acc_sum C D t (l1 ++ l2)). fold (acc_sum C D t l1). now rewrite IH, acc_add_assoc.
Qed.
Lemma sum_zip C D t l1 l2 : length l1 = length l2 ->
  acc_sum C D t (map (fun p => acc_add (fst p) (snd p)) (combine l1 l2)) = acc_add (acc_sum C D t l1) (acc_sum C D t l2).
Proof.
  revert l2; induction l1 as [|a l1 IH]; intros [|b l2] H; cbn [combine map acc_sum fold_right fst snd length] in *; try discriminate.
  - symmetry. apply acc_add_zero_l. apply zero_acc_ok.
  - fold (acc_sum C D t l1). fold (acc_sum C D t l2).
    fold (acc_sum C D t (map (fun p => acc_add (fst p) (snd p)) (combine l1 l2))).
    rewrite IH by lia. rewrite <- !acc_add_assoc. f_equal. rewrite !acc_add_assoc. f_equal. apply acc_add_comm.
Qed.
Lemma split3 {A} (l : list A) : let n := length l in let h := Nat.div n 2 in
  l = firstn h l ++ firstn h (skipn h l) ++ skipn h (skipn h l).
Proof. cbv zeta. now rewrite !firstn_skipn. Qed.
Lemma Forall_split3 {A} (P : A -> Prop) (l : list A) h : Forall P l ->
  Forall P (firstn h l) /\ Forall P (firstn h (skipn h l)) /\ Forall P (skipn h (skipn h l)).
Proof.
  intros H. rewrite <- (firstn_skipn h l) in H. apply Forall_app in H. destruct H as [H1 H2].
  rewrite <- (firstn_skipn h (skipn h l)) in H2. apply Forall_app in H2. tauto.
Qed.
Lemma last_ok C D t l : Forall (acc_ok C D t) l -> acc_ok C D t (last l (zero_acc C D t)).
Proof. induction 1 as [|a l Ha Hl IH]; cbn [last]. apply zero_acc_ok. destruct l; auto. Qed.
Lemma round_ok C D t l : Forall (acc_ok C D t) l -> Forall (acc_ok C D t) (round l (zero_acc C D t)).
Proof.
  intros H. unfold round. apply Forall_app. split.
  - destruct (Forall_split3 _ l (Nat.div (length l) 2) H) as (H1 & H2 & _).
    apply Forall_forall. intros x Hx. apply in_map_iff in Hx. destruct Hx as [[p q] [<- Hp]]. cbn [fst snd].
    rewrite Forall_forall in H1, H2. apply acc_add_ok; [apply H1|apply H2].
    eapply in_combine_l; eauto. eapply in_combine_r; eauto.
  - destruct (Nat.odd (length l)); constructor; auto. now apply last_ok.
Qed.
Lemma round_sum C D t l : Forall (acc_ok C D t) l ->
  acc_sum C D t (round l (zero_acc C D t)) = acc_sum C D t l.
Proof.
  intros Hok. unfold round. set (n := length l). set (h := Nat.div n 2).
  destruct (Forall_split3 _ l h Hok) as (F1 & F2 & F3).
  assert (Hlast : acc_ok C D t (last l (zero_acc C D t))) by now apply last_ok.
  rewrite sum_app.
  2:{ destruct (Nat.odd n); constructor; auto. }
  rewrite sum_zip.
  2:{ rewrite !firstn_length, skipn_length. fold n.
      pose proof (Nat.div2_odd n) as Hd. rewrite Nat.div2_div in Hd. fold h in Hd. destruct (Nat.odd n); simpl in Hd; lia. }
  rewrite (split3 l) at 4. fold n; fold h.
  rewrite sum_app by (apply Forall_app; auto). rewrite sum_app by auto.
  rewrite <- acc_add_assoc. f_equal. f_equal.
  assert (Hlen : length (skipn h (skipn h l)) = (n - 2 * h)%nat) by (rewrite !skipn_length; fold n; lia).
  pose proof (Nat.div2_odd n) as Hd. rewrite Nat.div2_div in Hd. fold h in Hd.
  destruct (Nat.odd n) eqn:Ho; simpl in Hd.
  - assert (n = 2 * h + 1)%nat by lia.
    assert (Hl1 : length (skipn h (skipn h l)) = 1%nat) by lia.
    destruct (skipn h (skipn h l)) as [|x [|? ?]] eqn:E; simpl in Hl1; try lia.
    rewrite (split3 l). fold n; fold h. rewrite E, !app_assoc, last_last. reflexivity.
  - assert (n = 2 * h)%nat by lia.
    destruct (skipn h (skipn h l)); simpl in *; [reflexivity|lia].
Qed.
Lemma round_length l dflt : (2 <= length l)%nat -> (length (round l dflt) < length l)%nat /\ (1 <= length (round l dflt))%nat.
Proof.
  intros H. unfold round. rewrite app_length, map_length, combine_length, !firstn_length, skipn_length.
  set (n := length l) in *. pose proof (Nat.div2_odd n) as Hd. rewrite Nat.div2_div in Hd.
  destruct (Nat.odd n); simpl in *; lia.
Qed.

(* the pairwise reduction of ivector.py:308-318 returns the plain sum for EVERY number of partitions
   (odd and even lengths at every level), given enough fuel (the code's while loop always terminates) *)
Theorem tree_reduce_eq_sum (C D t : nat) : forall fuel l, (length l <= S fuel)%nat -> l <> [] ->
  Forall (acc_ok C D t) l ->
  tree_reduce fuel l (zero_acc C D t) = Some (acc_sum C D t l).
Proof.
  induction fuel as [|f IH]; intros l Hl Hne Hok.
  - destruct l as [|x [|y r]]; simpl in Hl; try congruence; try lia.
    cbn [tree_reduce acc_sum fold_right]. rewrite acc_add_zero_r; auto. now inversion Hok.
  - destruct l as [|x [|y r]]; [congruence | |].
    + cbn [tree_reduce acc_sum fold_right]. rewrite acc_add_zero_r; auto. now inversion Hok.
    + change (tree_reduce (S f) (x :: y :: r) (zero_acc C D t))
        with (tree_reduce f (round (x :: y :: r) (zero_acc C D t)) (zero_acc C D t)).
      pose proof (round_length (x :: y :: r) (zero_acc C D t)) as [H1 H2]; [simpl; lia|].
      rewrite IH.
      * now rewrite round_sum.
      * simpl in *; lia.
      * intros E; rewrite E in H2; simpl in H2; lia.
      * now apply round_ok.
Qed.

(* the E-step over a concatenation of partitions is the sum of the per-partition E-steps:
   every partition's contribution enters exactly once, whatever the partitioning *)
Section EStep.
Variable inv : list (list R) -> list (list R).
Lemma fold_left_sum (C D t : nat) (m : ivm) (X : list gstat) : forall a0, acc_ok C D t a0 ->
  Forall (fun s => acc_ok C D t (acc1 inv t m s)) X ->
  fold_left (fun a s => acc_add a (acc1 inv t m s)) X a0 = acc_add a0 (acc_sum C D t (map (acc1 inv t m) X)).
Proof.
  induction X as [|s X IH]; intros a0 H0 HX; cbn [fold_left map acc_sum fold_right].
  - symmetry. now apply acc_add_zero_r.
  - inversion HX; subst. fold (acc_sum C D t (map (acc1 inv t m) X)).
    rewrite IH; auto. now rewrite acc_add_assoc. now apply acc_add_ok.
Qed.
Lemma e_step_sum (C D t : nat) (m : ivm) (X : list gstat) :
  Forall (fun s => acc_ok C D t (acc1 inv t m s)) X ->
  e_step inv C D t m X = acc_sum C D t (map (acc1 inv t m) X).
Proof.
  intros H. unfold e_step. rewrite (fold_left_sum C D t); auto. 2: apply zero_acc_ok.
  apply acc_add_zero_l. apply acc_sum_ok. now apply Forall_map.
Qed.
Lemma e_step_ok (C D t : nat) (m : ivm) (X : list gstat) :
  Forall (fun s => acc_ok C D t (acc1 inv t m s)) X -> acc_ok C D t (e_step inv C D t m X).
Proof. intros H. rewrite e_step_sum by auto. apply acc_sum_ok. now apply Forall_map. Qed.
Theorem e_step_app (C D t : nat) (m : ivm) (X1 X2 : list gstat) :
  Forall (fun s => acc_ok C D t (acc1 inv t m s)) (X1 ++ X2) ->
  e_step inv C D t m (X1 ++ X2) = acc_add (e_step inv C D t m X1) (e_step inv C D t m X2).
Proof.
  intros H. pose proof H as H'. apply Forall_app in H'. destruct H' as [H1 H2].
  rewrite !e_step_sum by auto. rewrite map_app. apply sum_app. now apply Forall_map.
Qed.
Theorem e_step_parts (C D t : nat) (m : ivm) (parts : list (list gstat)) :
  Forall (fun s => acc_ok C D t (acc1 inv t m s)) (concat parts) ->
  acc_sum C D t (map (e_step inv C D t m) parts) = e_step inv C D t m (concat parts).
Proof.
  induction parts as [|p parts IH]; intros H; cbn [concat map acc_sum fold_right] in *.
  - reflexivity.
  - fold (acc_sum C D t (map (e_step inv C D t m) parts)).
    pose proof H as H'. apply Forall_app in H'. destruct H' as [H1 H2].
    rewrite IH by auto. symmetry. now apply e_step_app.
Qed.
(* one training iteration from any non-empty list of partitions = the iteration on the whole list *)
Theorem em_iter_partition_independent (C D t : nat) (upd : bool) (floor : R) (m : ivm) (parts : list (list gstat)) :
  parts <> [] -> Forall (fun s => acc_ok C D t (acc1 inv t m s)) (concat parts) ->
  em_iter inv C D t upd floor parts m = em_iter inv C D t upd floor [concat parts] m.
Proof.
  intros Hne H. unfold em_iter.
  rewrite (tree_reduce_eq_sum C D t).
  - rewrite e_step_parts by auto. reflexivity.
  - rewrite map_length. lia.
  - destruct parts; cbn [map]; congruence.
  - apply Forall_map. apply Forall_forall. intros p Hp. apply e_step_ok.
    rewrite Forall_forall in H |- *. intros s Hs. apply H. apply in_concat. exists p. auto.
Qed.
End EStep.

Print Assumptions tree_reduce_eq_sum.
Print Assumptions project_unique.
