(* C09: the V phase and the U phase of JFA training are exact EM for speaker / channel subspaces of ANY rank: one iteration never lowers
   the phase's marginal likelihood of the training statistics (speaker factors, resp. channel factors, integrated out; the other
   parameters and point estimates held fixed).  ln det is expressed through a Cholesky factor supplied by an oracle under a contract
   (Proofs/IVGeneral.v: chol_fact, logdet); the engine is the determinant-free EM core of Proofs/SPDCore.v (em_core). *)
From Coq Require Import Reals Lra List Lia Bool Arith.
From BLE Require Import Num.Scalar Num.InstR Lib.Vec Model.FA Proofs.RLemmas Proofs.FAEnroll Proofs.JFATrain Proofs.JFARank1 Proofs.JFARank1U.
From BLE Require Proofs.IVGeneral.
From BLE Require Proofs.JFAGeneralAux.
Import ListNotations.
Open Scope R_scope.
Import FR.

Notation chol_fact := BLE.Proofs.IVGeneral.chol_fact.
Notation logdet := BLE.Proofs.IVGeneral.logdet.

(* ---------------------------------------------------------------- V phase: units = classes, pooled statistics *)
(* class i: P_i = I + sum_c N_ic V_c' S_c^-1 V_c (= yprec),  b_i = V' S^-1 (F_i - N_i m)  *)
Definition class_b (rV D : nat) (u : ubm) (F : fa) (Xi : list gstat) : list R :=
  wt_invsig rV (fV F) (vsuper u) (snd (class_NG D u Xi)).
Definition class_P (rV D : nat) (u : ubm) (F : fa) (Xi : list gstat) : list (list R) :=
  yprec rV D u F (sum_n (length (u_mu u)) Xi).
Definition marginal_v_t (inv chol : list (list R) -> list (list R)) (rV D : nat) (u : ubm) (F : fa) (classes : list (list gstat)) : R :=
  rsum (map (fun Xi => / 2 * dotR (class_b rV D u F Xi) (V.matvec (inv (class_P rV D u F Xi)) (class_b rV D u F Xi))
                       - / 2 * logdet chol rV (class_P rV D u F Xi)) classes).
Definition v_oracles_ok (inv chol : list (list R) -> list (list R)) (rV D : nat) (u : ubm) (F : fa) (classes : list (list gstat)) : Prop :=
  forall Xi, In Xi classes -> inv_ok inv rV (class_P rV D u F Xi) /\ chol_fact rV (chol (class_P rV D u F Xi)) (class_P rV D u F Xi).

Theorem phase_v_monotone_general (inv chol : list (list R) -> list (list R)) (C D rU rV : nat) (u : ubm) (F : fa) (classes : list (list gstat)) :
  ubm_ok C D u -> fa_ok C D rU rV F -> Forall (Forall (gstat_ok C D)) classes ->
  v_oracles_ok inv chol rV D u F classes ->
  (* the M-step's solver contract on the accumulated A1_c (rV x rV, one per component) *)
  (forall c, (c < C)%nat -> inv_ok inv rV (nth c (fst (acc_v inv rU rV D u F classes)) [])) ->
  let F' := jfa_iter_v inv rU rV D u classes F in
  v_oracles_ok inv chol rV D u F' classes ->
  fU F' = fU F /\ fD F' = fD F
  /\ marginal_v_t inv chol rV D u F classes <= marginal_v_t inv chol rV D u F' classes.
Proof.
  intros Hu HF Hcl Hor Hsolve F' Hor'.
  split; [|split].
  - subst F'. unfold jfa_iter_v. destruct (acc_v _ _ _ _ _ _ _) as [A1 A2]. reflexivity.
  - subst F'. unfold jfa_iter_v. destruct (acc_v _ _ _ _ _ _ _) as [A1 A2]. reflexivity.
  - exact (BLE.Proofs.JFAGeneralAux.phase_v_core inv C D rU rV u F Hu HF classes Hcl chol Hor Hsolve Hor').
Qed.

(* ---------------------------------------------------------------- U phase: units = sessions, statistics centred by m + V y_i *)
Definition sess_b (rU D : nat) (u : ubm) (F : fa) (Fc : fa) (y : option (list R)) (s : gstat) : list R :=
  wt_invsig rU (fU F) (vsuper u) (snd (sess_NG D u Fc y s)).
(* Fc is the machine the centring is taken from (V and the y's are held fixed during the phase); F carries the U under evaluation *)
Definition marginal_u_t (inv chol : list (list R) -> list (list R)) (rU D : nat) (u : ubm) (Fc F : fa)
           (classes : list (list gstat)) (ys : list (option (list R))) : R :=
  rsum (map (fun sy => / 2 * dotR (sess_b rU D u F Fc (snd sy) (fst sy)) (V.matvec (inv (xprec rU D u F (fst sy))) (sess_b rU D u F Fc (snd sy) (fst sy)))
                       - / 2 * logdet chol rU (xprec rU D u F (fst sy)))
            (sess_list classes ys)).
Definition u_oracles_ok (inv chol : list (list R) -> list (list R)) (rU D : nat) (u : ubm) (F : fa) (classes : list (list gstat)) : Prop :=
  forall Xi s, In Xi classes -> In s Xi -> inv_ok inv rU (xprec rU D u F s) /\ chol_fact rU (chol (xprec rU D u F s)) (xprec rU D u F s).

Theorem phase_u_monotone_general (inv chol : list (list R) -> list (list R)) (C D rU rV : nat) (u : ubm) (F : fa)
    (classes : list (list gstat)) (ys : list (option (list R))) :
  ubm_ok C D u -> fa_ok C D rU rV F -> Forall (Forall (gstat_ok C D)) classes ->
  length ys = length classes -> Forall (yopt_ok rV) ys ->
  u_oracles_ok inv chol rU D u F classes ->
  (forall c, (c < C)%nat ->
     inv_ok inv rU (nth c (fst (acc_u inv rU D u F classes ys (map (fun _ => @None (list R)) classes)
                                      (map (fun _ => Some (V.vzero (length (msuper u)))) classes))) [])) ->
  let F' := jfa_iter_u inv rU D u classes ys F in
  u_oracles_ok inv chol rU D u F' classes ->
  fV F' = fV F /\ fD F' = fD F
  /\ marginal_u_t inv chol rU D u F F classes ys <= marginal_u_t inv chol rU D u F F' classes ys.
Proof.
  intros Hu HF Hcl Hly Hys Hor Hsolve F' Hor'.
  split; [|split].
  - subst F'. unfold jfa_iter_u. destruct (acc_u _ _ _ _ _ _ _ _ _) as [A1 A2]. reflexivity.
  - subst F'. unfold jfa_iter_u. destruct (acc_u _ _ _ _ _ _ _ _ _) as [A1 A2]. reflexivity.
  - exact (BLE.Proofs.JFAGeneralAux.phase_u_core inv C D rU rV u F Hu HF classes ys Hcl chol Hor Hsolve Hor').
Qed.

Print Assumptions phase_v_monotone_general.
Print Assumptions phase_u_monotone_general.
