(* List-level to index-level bridge for Proofs/JFAGeneral.v: a generic "subspace phase" (units with a count vector and a flat centred
   first-order statistic, a subspace W of C*D rows) in the index form of Proofs/SPDCore.v, its E-step accumulators, the M-step
   W_c = A2_c inv(A1_c), and the monotonicity of the phase marginal (gen_monotone, an instance of em_core). *)
From Coq Require Import Reals Lra List Lia Bool Arith.
From BLE Require Import Num.Scalar Num.InstR Lib.Vec Model.FA Proofs.RLemmas Proofs.FAEnroll Proofs.JFARank1 Proofs.JFARank1U.
From BLE Require Import Proofs.SPDCore Proofs.IVGeneralAux.
From BLE Require Proofs.IVGeneral.
Import ListNotations.
Open Scope R_scope.
Import FR.

Notation chol_fact := BLE.Proofs.IVGeneral.chol_fact.
Notation logdet := BLE.Proofs.IVGeneral.logdet.

(* ------------------------------------------------------------------ the generic entry lemmas of IVGeneralAux at this instance of Vec *)
Lemma fshp_madd r c a b : shp r c a -> shp r c b -> shp r c (V.madd a b).
Proof. exact (shp_madd r c a b). Qed.
Lemma fshp_mzero r c : shp r c (V.mzero r c).
Proof. exact (shp_mzero r c). Qed.
Lemma fshp_mscale r c k m : shp r c m -> shp r c (V.mscale k m).
Proof. exact (shp_mscale r c k m). Qed.
Lemma fshp_msum r c ms : Forall (shp r c) ms -> shp r c (msum r c ms).
Proof. exact (shp_msum r c ms). Qed.
Lemma fshp_outer (a b : list R) : shp (length a) (length b) (V.outer a b).
Proof. exact (shp_outer a b). Qed.
Lemma fent_madd r c A B a b : shp r c A -> shp r c B -> (a < r)%nat -> (b < c)%nat ->
  ent (V.madd A B) a b = ent A a b + ent B a b.
Proof. exact (ent_madd r c A B a b). Qed.
Lemma fent_msum r c ms a b : Forall (shp r c) ms -> (a < r)%nat -> (b < c)%nat ->
  ent (msum r c ms) a b = Sm ms (fun m => ent m a b).
Proof. exact (ent_msum r c ms a b). Qed.
Lemma fent_mscale r c k m a b : shp r c m -> (a < r)%nat -> (b < c)%nat -> ent (V.mscale k m) a b = k * ent m a b.
Proof. exact (ent_mscale r c k m a b). Qed.
Lemma fent_mzero r c a b : ent (V.mzero r c) a b = 0.
Proof. exact (ent_mzero r c a b). Qed.
Lemma fent_outer (u v : list R) a b : (a < length u)%nat -> (b < length v)%nat -> ent (V.outer u v) a b = nth a u 0 * nth b v 0.
Proof. exact (ent_outer u v a b). Qed.
Lemma fent_mm r K c (A B : list (list R)) i j : shp r K A -> shp K c B -> (i < r)%nat -> (j < c)%nat ->
  ent (V.matmul c A B) i j = Sm (seq 0 K) (fun k => ent A i k * ent B k j).
Proof. exact (ent_mm r K c A B i j). Qed.
Lemma fg_nth_matvec (M : list (list R)) v i n : (i < length M)%nat -> length v = n ->
  nth i (V.matvec M v) 0 = Sm (seq 0 n) (fun j => ent M i j * nth j v 0).
Proof. exact (g_nth_matvec M v i n). Qed.
Lemma fg_map2_seq {A B C} (f : A -> B -> C) a b n da db :
  length a = n -> length b = n -> V.map2 f a b = map (fun i => f (nth i a da) (nth i b db)) (seq 0 n).
Proof. exact (FAEnroll.map2_seq f a b n da db). Qed.
Lemma fg_vsum_rsum l : V.vsum l = rsum l.
Proof. exact (g_vsum_rsum l). Qed.
Lemma fg_nth_map_seq {B} (f : nat -> B) n i d0 : (i < n)%nat -> nth i (map f (seq 0 n)) d0 = f i.
Proof. exact (FAEnroll.nth_map_seq f n i d0). Qed.
Lemma fright_inv_ent t (A S : list (list R)) : length A = t -> length S = t ->
  (forall v, length v = t -> V.matvec A (V.matvec S v) = v) ->
  forall i k, (i < t)%nat -> (k < t)%nat -> Sm (seq 0 t) (fun j => ent A i j * ent S j k) = dl i k.
Proof. exact (right_inv_ent t A S). Qed.

(* ------------------------------------------------------------------ generic list facts *)
Lemma Forall_firstn {A} (P : A -> Prop) n l : Forall P l -> Forall P (firstn n l).
Proof. revert l; induction n as [|n IH]; intros [|x l] H; cbn [firstn]; try constructor. now inversion H. apply IH. now inversion H. Qed.
Lemma Forall_skipn {A} (P : A -> Prop) n l : Forall P l -> Forall P (skipn n l).
Proof. revert l; induction n as [|n IH]; intros [|x l] H; cbn [skipn]; try assumption. apply IH. now inversion H. Qed.
Lemma chunk_rows {A} (P : A -> Prop) D C (W : list A) c : Forall P W -> (c < C)%nat -> Forall P (nth c (chunk D C W) []).
Proof. intros H Hc. rewrite nth_chunk by exact Hc. apply Forall_firstn. now apply Forall_skipn. Qed.

Lemma nth_vecmat r (v : list R) (M : list (list R)) K b : length v = K -> length M = K -> (b < r)%nat ->
  nth b (vecmat r v M) 0 = Sm (seq 0 K) (fun k => nth k v 0 * ent M k b).
Proof.
  intros Hv HM Hb. unfold vecmat. rewrite fg_nth_map_seq by exact Hb. rewrite fg_vsum_rsum.
  rewrite (fg_map2_seq _ v M K 0 [] Hv HM). reflexivity.
Qed.

Lemma outer_acc_ent len r (pairs : list (list R * list R)) :
  Forall (fun p => length (fst p) = len /\ length (snd p) = r) pairs ->
  shp len r (outer_acc len r pairs) /\
  forall a b, (a < len)%nat -> (b < r)%nat ->
    ent (outer_acc len r pairs) a b = Sm pairs (fun p => nth a (fst p) 0 * nth b (snd p) 0).
Proof.
  unfold outer_acc. induction 1 as [|p l [H1 H2] Hl [IH1 IH2]]; cbn [fold_right].
  - split. apply fshp_mzero. intros a b _ _. rewrite fent_mzero. reflexivity.
  - assert (SO : shp len r (V.outer (fst p) (snd p))).
    { pose proof (fshp_outer (fst p) (snd p)) as H. unfold InstR.T in *. now rewrite H1, H2 in H. }
    split. now apply fshp_madd.
    intros a b Ha Hb. etransitivity. { exact (fent_madd len r _ _ a b SO IH1 Ha Hb). }
    unfold InstR.T in *. rewrite (IH2 a b Ha Hb).
    rewrite fent_outer by lia. unfold Sm. cbn [map rsum]. reflexivity.
Qed.

(* rows of the M-step result *)
Lemma mstep_w_len inv r D C (A1 : list (list (list R))) (A2 : list (list R)) : length A1 = C -> length A2 = (C * D)%nat ->
  length (mstep_w inv r D C A1 A2) = (C * D)%nat.
Proof.
  intros H1 H2. unfold mstep_w.
  set (Mm := V.map2 _ _ _).
  assert (FM : Forall (fun b : list (list R) => length b = D) Mm).
  { subst Mm. apply Forall_map2. intros x y Hx _. unfold V.matmul. rewrite map_length. now apply (In_chunk_len D C A2). }
  assert (LM : length Mm = C). { subst Mm. apply len_map2_eq. apply len_chunk. exact H1. }
  unfold InstR.T in *. rewrite (len_concat _ D FM). now rewrite LM.
Qed.
Lemma mstep_w_row inv r D C (A1 : list (list (list R))) (A2 : list (list R)) c d : length A1 = C -> length A2 = (C * D)%nat ->
  (c < C)%nat -> (d < D)%nat ->
  nth (c * D + d) (mstep_w inv r D C A1 A2) [] = nth d (V.matmul r (nth c (chunk D C A2) []) (inv (nth c A1 []))) [].
Proof.
  intros H1 H2 Hc Hd. unfold mstep_w.
  set (Mm := V.map2 _ _ _).
  assert (FM : Forall (fun b : list (list R) => length b = D) Mm).
  { subst Mm. apply Forall_map2. intros x y Hx _. unfold V.matmul. rewrite map_length. now apply (In_chunk_len D C A2). }
  assert (LM : length Mm = C). { subst Mm. apply len_map2_eq. apply len_chunk. exact H1. }
  unfold InstR.T in *.
  rewrite (nth_concat Mm D c d [] FM) by lia.
  subst Mm. rewrite (nth_map2 _ (chunk D C A2) A1 c [] [] []) by (rewrite ?len_chunk; lia). reflexivity.
Qed.
Lemma mstep_w_ent inv r D C (A1 : list (list (list R))) (A2 : list (list R)) c d i :
  length A1 = C -> shp (C * D) r A2 -> shp r r (inv (nth c A1 [])) ->
  (c < C)%nat -> (d < D)%nat -> (i < r)%nat ->
  nth i (nth (c * D + d) (mstep_w inv r D C A1 A2) []) 0
  = Sm (seq 0 r) (fun k => ent A2 (c * D + d) k * ent (inv (nth c A1 [])) k i).
Proof.
  intros H1 [H2 H3] HI Hc Hd Hi. rewrite (mstep_w_row inv r D C A1 A2 c d H1 H2 Hc Hd).
  assert (SC : shp D r (nth c (chunk D C A2) [])).
  { split. now apply (len_chunk_row D C). now apply chunk_rows. }
  etransitivity. { exact (fent_mm D r r _ _ d i SC HI Hd Hi). }
  apply Sm_ext_n. intros k Hk. f_equal. unfold ent. f_equal. now apply nth_chunk_row.
Qed.

(* ================================================================== a generic subspace phase *)
Section Gen.
Variable inv : list (list R) -> list (list R).
Variables (C D r : nat) (u : ubm).
Hypothesis Hu : ubm_ok C D u.
Variable A : Type.
Variables nv gv : A -> list R.       (* per unit: counts (C, nonnegative) and flat centred first-order statistics (C*D) *)
Variable X : list A.
Hypothesis Hnv : forall s, In s X -> length (nv s) = C /\ Forall (fun a => 0 <= a) (nv s).
Hypothesis Hgv : forall s, In s X -> length (gv s) = (C * D)%nat.

Definition Tw (W : list (list R)) (c d i : nat) : R := nth i (nth (c * D + d) W []) 0.
Definition sgw (c d : nat) : R := nth (c * D + d) (vsuper u) 0.
Definition nnw (s : A) (c : nat) : R := nth c (nv s) 0.
Definition ffw (s : A) (c d : nat) : R := nth (c * D + d) (gv s) 0.
Definition Pw (W : list (list R)) (s : A) : list (list R) := prec D u r W (nv s).
Definition bw (W : list (list R)) (s : A) : list R := wt_invsig r W (vsuper u) (gv s).
Definition xw (W : list (list R)) (s : A) : list R := V.matvec (inv (Pw W s)) (bw W s).
Definition Sow (W : list (list R)) (s : A) (i j : nat) : R := ent (inv (Pw W s)) i j.

Lemma sgw_pos c d : (c < C)%nat -> (d < D)%nat -> 0 < sgw c d.
Proof. intros Hc Hd. apply (sj_pos C D u Hu). nia. Qed.
Lemma nnw_nonneg s : In s X -> forall c, (c < C)%nat -> 0 <= nnw s c.
Proof.
  intros Hs c Hc. destruct (Hnv s Hs) as [L1 L2]. unfold nnw. apply (g_Forall_nth_lt (fun a => 0 <= a) _ c 0 L2). unfold InstR.T in *. lia.
Qed.
Lemma Pw_shape W s : shp r r (Pw W s).
Proof. apply prec_shape. Qed.

Lemma Pw_ent W s i j : length W = (C * D)%nat -> length (nv s) = C -> (i < r)%nat -> (j < r)%nat ->
  ent (Pw W s) i j = Pe C D A nnw sgw (Tw W) s i j.
Proof.
  intros HW Hn Hi Hj. unfold ent, Pw. rewrite (prec_entry C D u Hu r W (nv s) i j HW Hn Hi Hj).
  unfold Pe. f_equal. rewrite rsum_seq_split. apply Sm_ext_n. intros c Hc.
  rewrite Sm_mul_l. apply Sm_ext_n. intros d Hd.
  rewrite nth_rep by (unfold InstR.T in *; lia). reflexivity.
Qed.
Lemma bw_len W s : length (bw W s) = r.
Proof. apply len_wt_invsig. Qed.
Lemma bw_ent W s i : length W = (C * D)%nat -> length (gv s) = (C * D)%nat -> (i < r)%nat ->
  nth i (bw W s) 0 = be C D A ffw sgw (Tw W) s i.
Proof.
  intros HW Hg Hi. unfold bw. rwT (nth_wt_invsig C D u Hu r W (gv s) i HW Hg Hi).
  unfold be. rewrite rsum_seq_split. reflexivity.
Qed.

Lemma xw_ent W s i : length W = (C * D)%nat -> length (gv s) = (C * D)%nat -> inv_ok inv r (Pw W s) -> (i < r)%nat ->
  nth i (xw W s) 0 = mu C D r A ffw sgw (Tw W) (Sow W) s i.
Proof.
  intros HW Hg (I1 & I2 & _) Hi. unfold xw.
  rewrite (fg_nth_matvec _ _ i r); [|unfold InstR.T in *; rewrite I1; exact Hi|apply bw_len].
  unfold mu. apply Sm_ext_n. intros j Hj. rwT (bw_ent W s j HW Hg Hj). reflexivity.
Qed.
Lemma xw_len W s : inv_ok inv r (Pw W s) -> length (xw W s) = r.
Proof. intros (I1 & _). unfold xw. rewrite len_matvec. exact I1. Qed.

Lemma marg_w W s (ld : A -> R) : length W = (C * D)%nat -> length (gv s) = (C * D)%nat -> inv_ok inv r (Pw W s) ->
  / 2 * dotR (bw W s) (V.matvec (inv (Pw W s)) (bw W s)) - / 2 * ld s
  = marg C D r A ffw sgw (Tw W) (Sow W) ld s.
Proof.
  intros HW Hg (I1 & I2 & _). unfold marg. f_equal. f_equal.
  rewrite (dotR_index _ _ r) by (rewrite len_matvec; exact I1).
  apply Sm_ext_n. intros i Hi. rwT (bw_ent W s i HW Hg Hi). f_equal.
  rewrite (fg_nth_matvec _ _ i r); [|unfold InstR.T in *; lia|apply bw_len].
  apply Sm_ext_n. intros j Hj. rwT (bw_ent W s j HW Hg Hj). reflexivity.
Qed.

Lemma HSo_w W : length W = (C * D)%nat -> (forall s, In s X -> inv_ok inv r (Pw W s)) ->
  forall s, In s X -> forall i k, (i < r)%nat -> (k < r)%nat ->
    Sm (seq 0 r) (fun j => Pe C D A nnw sgw (Tw W) s i j * Sow W s j k) = dl i k.
Proof.
  intros HW Hinv s Hs i k Hi Hk. destruct (Hinv s Hs) as (I1 & I2 & I3 & _). destruct (Pw_shape W s) as [P1 P2].
  rewrite <- (fright_inv_ent r (Pw W s) (inv (Pw W s)) P1 I1 I3 i k Hi Hk).
  apply Sm_ext_n. intros j Hj. f_equal. symmetry. apply Pw_ent; auto. apply (Hnv s Hs).
Qed.

(* the E-step accumulators *)
Definition M2w (W : list (list R)) (s : A) : list (list R) := V.madd (inv (Pw W s)) (V.outer (xw W s) (xw W s)).
Definition A1g (W : list (list R)) : list (list (list R)) :=
  map (fun c => msum r r (map (fun s => V.mscale (nth c (nv s) 0) (M2w W s)) X)) (seq 0 C).
Definition A2g (W : list (list R)) : list (list R) := outer_acc (C * D) r (map (fun s => (gv s, xw W s)) X).

Section Acc.
Variable W : list (list R).
Hypothesis HW : length W = (C * D)%nat.
Hypothesis Hinv : forall s, In s X -> inv_ok inv r (Pw W s).

Lemma M2w_shape s : In s X -> shp r r (M2w W s).
Proof.
  intros Hs. pose proof (Hinv s Hs) as HI. pose proof HI as (I1 & I2 & _). pose proof (xw_len W s HI) as Lx.
  apply fshp_madd. split; assumption. pose proof (fshp_outer (xw W s) (xw W s)) as H. unfold InstR.T in *. now rewrite Lx in H.
Qed.
Lemma M2w_ent s i j : In s X -> (i < r)%nat -> (j < r)%nat ->
  ent (M2w W s) i j = SPDCore.W C D r A ffw sgw (Tw W) (Sow W) s i j.
Proof.
  intros Hs Hi Hj. pose proof (Hinv s Hs) as HI. pose proof HI as (I1 & I2 & _). pose proof (xw_len W s HI) as Lx.
  unfold M2w. rewrite (fent_madd r r _ _ i j); [|split; assumption| |exact Hi|exact Hj].
  2:{ pose proof (fshp_outer (xw W s) (xw W s)) as H. unfold InstR.T in *. now rewrite Lx in H. }
  rewrite fent_outer by (unfold InstR.T in *; lia).
  rewrite !(xw_ent W s) by (auto; apply (Hgv s Hs)). reflexivity.
Qed.
Lemma A1g_len : length (A1g W) = C.
Proof. unfold A1g. now rewrite map_length, seq_length. Qed.
Lemma A1g_terms c : Forall (shp r r) (map (fun s => V.mscale (nth c (nv s) 0) (M2w W s)) X).
Proof. rewrite Forall_map. apply Forall_forall. intros s Hs. apply fshp_mscale. now apply M2w_shape. Qed.
Lemma A1g_shape c : (c < C)%nat -> shp r r (nth c (A1g W) []).
Proof. intros Hc. unfold A1g. rewrite fg_nth_map_seq by exact Hc. apply fshp_msum. apply A1g_terms. Qed.
Lemma A1g_ent c i j : (c < C)%nat -> (i < r)%nat -> (j < r)%nat ->
  ent (nth c (A1g W) []) i j = Ac C D r A X nnw ffw sgw (Tw W) (Sow W) c i j.
Proof.
  intros Hc Hi Hj. unfold A1g. rewrite fg_nth_map_seq by exact Hc.
  rewrite (fent_msum r r _ i j (A1g_terms c) Hi Hj). unfold Sm at 1. rewrite map_map. unfold Ac. apply Sm_ext. intros s Hs.
  rewrite (fent_mscale r r _ _ i j (M2w_shape s Hs) Hi Hj). unfold nnw. f_equal. now apply M2w_ent.
Qed.
Lemma A2g_pairs : Forall (fun p : list R * list R => length (fst p) = (C * D)%nat /\ length (snd p) = r) (map (fun s => (gv s, xw W s)) X).
Proof. rewrite Forall_map. apply Forall_forall. intros s Hs. cbn [fst snd]. split. apply (Hgv s Hs). apply xw_len. now apply Hinv. Qed.
Lemma A2g_shape : shp (C * D) r (A2g W).
Proof. apply (outer_acc_ent (C * D) r _ A2g_pairs). Qed.
Lemma A2g_ent c d i : (c < C)%nat -> (d < D)%nat -> (i < r)%nat ->
  ent (A2g W) (c * D + d) i = Bc C D r A X ffw sgw (Tw W) (Sow W) c d i.
Proof.
  intros Hc Hd Hi. destruct (outer_acc_ent (C * D) r _ A2g_pairs) as [_ E]. unfold A2g. rewrite E by (auto; nia).
  unfold Sm at 1. rewrite map_map. unfold Bc. apply Sm_ext. intros s Hs. cbn [fst snd]. unfold ffw. f_equal.
  apply xw_ent; auto.
Qed.

(* the M-step and its normal equations *)
Hypothesis Hsolve : forall c, (c < C)%nat -> inv_ok inv r (nth c (A1g W) []).
Notation W' := (mstep_w inv r D C (A1g W) (A2g W)).

Lemma W'_len : length W' = (C * D)%nat.
Proof. apply mstep_w_len. apply A1g_len. apply A2g_shape. Qed.
Lemma W'_ent c d i : (c < C)%nat -> (d < D)%nat -> (i < r)%nat ->
  Tw W' c d i = nth i (V.matvec (inv (nth c (A1g W) [])) (nth (c * D + d) (A2g W) [])) 0.
Proof.
  intros Hc Hd Hi. destruct (Hsolve c Hc) as (I1 & I2 & I3 & I4). pose proof A2g_shape as SA.
  assert (Lv : length (nth (c * D + d) (A2g W) []) = r) by (apply (shp_row (C * D) r _ _ SA); nia).
  rewrite <- (I4 _ Lv). rewrite (nth_vecmat r _ _ r i Lv I1 Hi).
  unfold Tw. exact (mstep_w_ent inv r D C (A1g W) (A2g W) c d i A1g_len SA (conj I1 I2) Hc Hd Hi).
Qed.
Lemma W'_grad c d i : (c < C)%nat -> (d < D)%nat -> (i < r)%nat ->
  Sm (seq 0 r) (fun j => Ac C D r A X nnw ffw sgw (Tw W) (Sow W) c j i * Tw W' c d j) = Bc C D r A X ffw sgw (Tw W) (Sow W) c d i.
Proof.
  intros Hc Hd Hi. destruct (Hsolve c Hc) as (I1 & I2 & I3 & I4). pose proof A2g_shape as SA.
  set (v := nth (c * D + d) (A2g W) []).
  assert (Lv : length v = r) by (apply (shp_row (C * D) r _ _ SA); nia).
  specialize (I3 v Lv).
  assert (E : nth i (V.matvec (nth c (A1g W) []) (V.matvec (inv (nth c (A1g W) [])) v)) 0 = nth i v 0) by now rewrite I3.
  rewrite (fg_nth_matvec _ _ i r) in E.
  2:{ destruct (A1g_shape c Hc) as [H _]. unfold InstR.T in *. rewrite H. exact Hi. }
  2:{ rewrite len_matvec. exact I1. }
  rewrite <- (A2g_ent c d i Hc Hd Hi). change (ent (A2g W) (c * D + d) i) with (nth i v 0). rewrite <- E.
  apply Sm_ext_n. intros j Hj. rewrite (W'_ent c d j Hc Hd Hj). fold v. f_equal.
  rewrite (Ac_sym C D r A X nnw ffw sgw (Tw W) (Sow W) (HSo_w W HW Hinv) c j i Hj Hi). symmetry. now apply A1g_ent.
Qed.
End Acc.

Theorem gen_monotone (chol : list (list R) -> list (list R)) (W : list (list R)) :
  length W = (C * D)%nat ->
  (forall s, In s X -> inv_ok inv r (Pw W s) /\ chol_fact r (chol (Pw W s)) (Pw W s)) ->
  (forall c, (c < C)%nat -> inv_ok inv r (nth c (A1g W) [])) ->
  (forall s, In s X -> inv_ok inv r (Pw (mstep_w inv r D C (A1g W) (A2g W)) s)
                       /\ chol_fact r (chol (Pw (mstep_w inv r D C (A1g W) (A2g W)) s)) (Pw (mstep_w inv r D C (A1g W) (A2g W)) s)) ->
  rsum (map (fun s => / 2 * dotR (bw W s) (V.matvec (inv (Pw W s)) (bw W s)) - / 2 * logdet chol r (Pw W s)) X)
  <= rsum (map (fun s => / 2 * dotR (bw (mstep_w inv r D C (A1g W) (A2g W)) s)
                                    (V.matvec (inv (Pw (mstep_w inv r D C (A1g W) (A2g W)) s)) (bw (mstep_w inv r D C (A1g W) (A2g W)) s))
                         - / 2 * logdet chol r (Pw (mstep_w inv r D C (A1g W) (A2g W)) s)) X).
Proof.
  intros HW Hor Hsolve Hor'.
  set (W' := mstep_w inv r D C (A1g W) (A2g W)) in *.
  assert (Hinv : forall s, In s X -> inv_ok inv r (Pw W s)) by (intros s Hs; apply (Hor s Hs)).
  assert (Hinv' : forall s, In s X -> inv_ok inv r (Pw W' s)) by (intros s Hs; apply (Hor' s Hs)).
  assert (HW' : length W' = (C * D)%nat) by (apply W'_len; assumption).
  set (ldo := fun s => logdet chol r (Pw W s)). set (ldn := fun s => logdet chol r (Pw W' s)).
  assert (E1 : rsum (map (fun s => / 2 * dotR (bw W s) (V.matvec (inv (Pw W s)) (bw W s)) - / 2 * logdet chol r (Pw W s)) X)
               = Sm X (marg C D r A ffw sgw (Tw W) (Sow W) ldo)).
  { apply Sm_ext. intros s Hs. exact (marg_w W s ldo HW (Hgv s Hs) (Hinv s Hs)). }
  assert (E2 : rsum (map (fun s => / 2 * dotR (bw W' s) (V.matvec (inv (Pw W' s)) (bw W' s)) - / 2 * logdet chol r (Pw W' s)) X)
               = Sm X (marg C D r A ffw sgw (Tw W') (Sow W') ldn)).
  { apply Sm_ext. intros s Hs. exact (marg_w W' s ldn HW' (Hgv s Hs) (Hinv' s Hs)). }
  rewrite E1, E2.
  apply (em_core C D r A X nnw ffw sgw).
  - exact nnw_nonneg.
  - exact sgw_pos.
  - exact (HSo_w W HW Hinv).
  - exact (HSo_w W' HW' Hinv').
  - intros s Hs. destruct (Hor s Hs) as [(I1 & I2 & I3 & _) Hc1]. destruct (Hor' s Hs) as [_ Hc2].
    assert (H : ldn s - ldo s <= rsum (map (fun i => nth i (nth i (V.matmul r (inv (Pw W s)) (Pw W' s)) []) 0) (seq 0 r)) - INR r).
    { exact (BLE.Proofs.IVGeneral.logdet_kl r (Pw W s) (Pw W' s) (chol (Pw W s)) (chol (Pw W' s)) (inv (Pw W s)) Hc1 Hc2 I1 I2 I3). }
    assert (E : rsum (map (fun i => nth i (nth i (V.matmul r (inv (Pw W s)) (Pw W' s)) []) 0) (seq 0 r))
                = Sm (seq 0 r) (fun i => Sm (seq 0 r) (fun j => Sow W s i j * Pe C D A nnw sgw (Tw W') s j i))).
    { apply Sm_ext_n. intros i Hi.
      etransitivity. { exact (fent_mm r r r _ _ i i (conj I1 I2) (Pw_shape W' s) Hi Hi). }
      apply Sm_ext_n. intros j Hj. f_equal. apply Pw_ent; auto. apply (Hnv s Hs). }
    rewrite E in H. exact H.
  - intros c d i Hc Hd Hi. exact (W'_grad W HW Hinv Hsolve c d i Hc Hd Hi).
Qed.
End Gen.

(* ================================================================== V phase: units = classes *)
Section VPhase.
Variable inv : list (list R) -> list (list R).
Variables (C D rU rV : nat) (u : ubm) (F : fa).
Hypothesis Hu : ubm_ok C D u.
Hypothesis HF : fa_ok C D rU rV F.

Definition nvV (Xi : list gstat) : list R := sum_n C Xi.
Definition gvV (Xi : list gstat) : list R := snd (class_NG D u Xi).

Lemma HC_u : length (u_mu u) = C. Proof. destruct Hu as (H & _). exact H. Qed.

Lemma fn_y_zero_gen Xi : Forall (gstat_ok C D) Xi ->
  fn_y D u F Xi (map (fun _ => V.vzero rU) Xi) (V.vzero (C * D)) (sum_n C Xi) (sum_f C D Xi) = snd (class_NG D u Xi).
Proof.
  intros HX. rewrite (class_NG_C C D u Hu). cbn [snd].
  pose proof (len_rep_sum_n C D Xi HX) as L1. pose proof (len_flat_sum_f C D Xi HX) as L2. pose proof (len_msuper C D u Hu) as L3.
  apply (list_ext_R _ _ (C * D)).
  - apply (len_fn_y C D rU rV u F Xi Hu HF HX). apply len_vzero.
  - apply len_vsub. exact L2. apply len_vmul; assumption.
  - intros j Hj. rewrite (nth_fn_y C D rU rV u F Xi Hu HF HX) by (rewrite ?map_length, ?len_vzero; auto).
    rewrite nth_vzero. rewrite rsum_zero.
    2:{ intros h Hh. apply in_seq in Hh.
        rewrite (nth_map_lt (fun _ : gstat => V.vzero rU) Xi h [] (dX)) by lia. rewrite dotR_vzero. ring. }
    rewrite (nth_vsub _ _ j (C * D)); [|exact L2|apply len_vmul; assumption|exact Hj].
    rewrite (nth_vmul _ _ j (C * D)) by assumption.
    rewrite (nth_flat_sum_f C D Xi HX j Hj), (nth_rep_sum_n C D Xi HX j Hj). unfold Fj, Nj, mj. ring.
Qed.

Lemma nvV_ok Xi : Forall (gstat_ok C D) Xi -> length (nvV Xi) = C /\ Forall (fun a => 0 <= a) (nvV Xi).
Proof. intros HX. split. apply (len_sum_n C D Xi HX). apply (sum_n_nonneg C D Xi HX). Qed.
Lemma gvV_ok Xi : Forall (gstat_ok C D) Xi -> length (gvV Xi) = (C * D)%nat.
Proof. intros HX. apply (class_NG_ok C D u Hu Xi HX). Qed.

Lemma estep_v_gen Xi : Forall (gstat_ok C D) Xi -> inv_ok inv rV (Pw D rV u (list gstat) nvV (fV F) Xi) ->
  estep_v_class inv rU rV D u F (wprod rV D u (fV F)) Xi
  = (xw inv D rV u (list gstat) nvV gvV (fV F) Xi, M2w inv D rV u (list gstat) nvV gvV (fV F) Xi, gvV Xi).
Proof.
  intros HX (_ & _ & _ & I4). unfold estep_v_class. rewrite HC_u. cbv zeta.
  unfold update_y_class. rewrite (fn_y_zero_gen Xi HX).
  change (id_plus_prod_inv inv rV (wprod rV D u (fV F)) (sum_n C Xi)) with (inv (Pw D rV u (list gstat) nvV (fV F) Xi)).
  change (wt_invsig rV (fV F) (vsuper u) (snd (class_NG D u Xi))) with (bw rV u (list gstat) gvV (fV F) Xi).
  rewrite (I4 _ (bw_len rV u (list gstat) gvV (fV F) Xi)). reflexivity.
Qed.

Variable classes : list (list gstat).
Hypothesis Hcl : Forall (Forall (gstat_ok C D)) classes.

Lemma acc_v_gen : (forall Xi, In Xi classes -> inv_ok inv rV (Pw D rV u (list gstat) nvV (fV F) Xi)) ->
  acc_v inv rU rV D u F classes
  = (A1g inv C D rV u (list gstat) nvV gvV classes (fV F), A2g inv C D rV u (list gstat) nvV gvV classes (fV F)).
Proof.
  intros Hinv. rewrite Forall_forall in Hcl.
  unfold acc_v. rewrite HC_u. cbv zeta. rewrite !map_map. cbn [fst snd]. unfold A1g, A2g. f_equal.
  - apply map_ext. intros c. rewrite map_map. cbn [fst snd]. f_equal. apply map_ext_in. intros Xi HXi.
    rewrite (estep_v_gen Xi (Hcl Xi HXi) (Hinv Xi HXi)). reflexivity.
  - f_equal. apply map_ext_in. intros Xi HXi. rewrite (estep_v_gen Xi (Hcl Xi HXi) (Hinv Xi HXi)). reflexivity.
Qed.

Theorem phase_v_core (chol : list (list R) -> list (list R)) :
  (forall Xi, In Xi classes -> inv_ok inv rV (yprec rV D u F (sum_n (length (u_mu u)) Xi))
                               /\ chol_fact rV (chol (yprec rV D u F (sum_n (length (u_mu u)) Xi))) (yprec rV D u F (sum_n (length (u_mu u)) Xi))) ->
  (forall c, (c < C)%nat -> inv_ok inv rV (nth c (fst (acc_v inv rU rV D u F classes)) [])) ->
  let F' := jfa_iter_v inv rU rV D u classes F in
  (forall Xi, In Xi classes -> inv_ok inv rV (yprec rV D u F' (sum_n (length (u_mu u)) Xi))
                               /\ chol_fact rV (chol (yprec rV D u F' (sum_n (length (u_mu u)) Xi))) (yprec rV D u F' (sum_n (length (u_mu u)) Xi))) ->
  rsum (map (fun Xi => / 2 * dotR (wt_invsig rV (fV F) (vsuper u) (snd (class_NG D u Xi)))
                                  (V.matvec (inv (yprec rV D u F (sum_n (length (u_mu u)) Xi))) (wt_invsig rV (fV F) (vsuper u) (snd (class_NG D u Xi))))
                       - / 2 * logdet chol rV (yprec rV D u F (sum_n (length (u_mu u)) Xi))) classes)
  <= rsum (map (fun Xi => / 2 * dotR (wt_invsig rV (fV F') (vsuper u) (snd (class_NG D u Xi)))
                                  (V.matvec (inv (yprec rV D u F' (sum_n (length (u_mu u)) Xi))) (wt_invsig rV (fV F') (vsuper u) (snd (class_NG D u Xi))))
                       - / 2 * logdet chol rV (yprec rV D u F' (sum_n (length (u_mu u)) Xi))) classes).
Proof.
  rewrite HC_u. intros Hor Hsolve F' Hor'.
  assert (Hinv : forall Xi, In Xi classes -> inv_ok inv rV (Pw D rV u (list gstat) nvV (fV F) Xi)) by (intros Xi HXi; apply (Hor Xi HXi)).
  assert (EF : fV F' = mstep_w inv rV D C (A1g inv C D rV u (list gstat) nvV gvV classes (fV F)) (A2g inv C D rV u (list gstat) nvV gvV classes (fV F))).
  { subst F'. unfold jfa_iter_v. rewrite (acc_v_gen Hinv). rewrite HC_u. reflexivity. }
  rewrite (acc_v_gen Hinv) in Hsolve. cbn [fst] in Hsolve.
  pose proof Hcl as Hcl'. rewrite Forall_forall in Hcl'.
  change (forall Xi, In Xi classes -> inv_ok inv rV (Pw D rV u (list gstat) nvV (fV F') Xi)
            /\ chol_fact rV (chol (Pw D rV u (list gstat) nvV (fV F') Xi)) (Pw D rV u (list gstat) nvV (fV F') Xi)) in Hor'.
  change (rsum (map (fun Xi => / 2 * dotR (bw rV u (list gstat) gvV (fV F) Xi)
                                  (V.matvec (inv (Pw D rV u (list gstat) nvV (fV F) Xi)) (bw rV u (list gstat) gvV (fV F) Xi))
                       - / 2 * logdet chol rV (Pw D rV u (list gstat) nvV (fV F) Xi)) classes)
          <= rsum (map (fun Xi => / 2 * dotR (bw rV u (list gstat) gvV (fV F') Xi)
                                  (V.matvec (inv (Pw D rV u (list gstat) nvV (fV F') Xi)) (bw rV u (list gstat) gvV (fV F') Xi))
                       - / 2 * logdet chol rV (Pw D rV u (list gstat) nvV (fV F') Xi)) classes)).
  rewrite EF in Hor' |- *.
  apply (gen_monotone inv C D rV u Hu (list gstat) nvV gvV classes).
  - intros Xi HXi. apply nvV_ok. apply (Hcl' Xi HXi).
  - intros Xi HXi. apply gvV_ok. apply (Hcl' Xi HXi).
  - apply (len_fV C D rU rV F HF).
  - exact Hor.
  - exact Hsolve.
  - exact Hor'.
Qed.
End VPhase.

(* ================================================================== U phase: units = (session, speaker factor of its class) *)
Lemma sess_list_in (classes : list (list gstat)) (ys : list (option (list R))) sy :
  In sy (sess_list classes ys) -> exists Xi, In Xi classes /\ In (fst sy) Xi.
Proof.
  unfold sess_list. revert ys. induction classes as [|Xi cl IH]; intros [|y ys]; cbn [V.map2 concat]; intros H; try contradiction.
  apply in_app_or in H. destruct H as [H|H].
  - apply in_map_iff in H. destruct H as (s & <- & Hs). exists Xi. split. now left. exact Hs.
  - destruct (IH ys H) as (Xj & H1 & H2). exists Xj. split. now right. exact H2.
Qed.

Section UPhase.
Variable inv : list (list R) -> list (list R).
Variables (C D rU rV : nat) (u : ubm) (F : fa).
Hypothesis Hu : ubm_ok C D u.
Hypothesis HF : fa_ok C D rU rV F.

Definition SY : Type := (gstat * option (list R))%type.
Definition nvU (sy : SY) : list R := g_n (fst sy).
Definition gvU (sy : SY) : list R := snd (sess_NG D u F (snd sy) (fst sy)).

Variable classes : list (list gstat).
Variable ys : list (option (list R)).
Hypothesis Hcl : Forall (Forall (gstat_ok C D)) classes.

Lemma nvU_ok sy : In sy (sess_list classes ys) -> length (nvU sy) = C /\ Forall (fun a => 0 <= a) (nvU sy).
Proof.
  intros Hsy. pose proof (sess_list_ok C D classes ys Hcl) as Hsl. rewrite Forall_forall in Hsl.
  destruct (Hsl sy Hsy) as (G1 & G2 & _). split; assumption.
Qed.
Lemma gvU_ok sy : In sy (sess_list classes ys) -> length (gvU sy) = (C * D)%nat.
Proof.
  intros Hsy. pose proof (sess_list_ok C D classes ys Hcl) as Hsl. rewrite Forall_forall in Hsl.
  unfold gvU, sess_NG. cbn [snd]. apply (len_fn_x C D rU rV u F Hu HF (fst sy) _ (snd sy) (Hsl sy Hsy)).
  rewrite len_vzero. apply (len_msuper C D u Hu).
Qed.

Lemma acc_u_gen :
  acc_u inv rU D u F classes ys (map (fun _ => @None (list R)) classes) (map (fun _ => Some (V.vzero (length (msuper u)))) classes)
  = (A1g inv C D rU u SY nvU gvU (sess_list classes ys) (fU F), A2g inv C D rU u SY nvU gvU (sess_list classes ys) (fU F)).
Proof.
  unfold acc_u. rewrite (HC_u C D u Hu). cbv zeta.
  rewrite combine_map_const, map3_const_r. cbn [fst snd]. unfold latent_x_class.
  set (per := concat _).
  assert (E : per = map (fun sy : SY => (M2w inv D rU u SY nvU gvU (fU F) sy, g_n (fst sy), gvU sy, xw inv D rU u SY nvU gvU (fU F) sy))
                        (sess_list classes ys)).
  { subst per.
    etransitivity; [apply (per_form
       (fun y s x => (V.madd (id_plus_prod_inv inv rU (wprod rU D u (fU F)) (g_n s)) (V.outer x x), g_n s,
                      fn_x D u F s (Some (V.vzero (length (msuper u)))) y, x))
       (fun y s => V.matvec (id_plus_prod_inv inv rU (wprod rU D u (fU F)) (g_n s))
                            (wt_invsig rU (fU F) (vsuper u) (fn_x D u F s None y))))|].
    apply map_ext_in. intros [s y] Hsy. cbn [fst snd]. rewrite <- (fn_x_zero_none C D rU rV u F s y Hu HF). reflexivity. }
  rewrite E. clear E per. rewrite !map_map. cbn [fst snd]. unfold A1g, A2g. f_equal.
  apply map_ext. intros c. rewrite map_map. cbn [fst snd]. reflexivity.
Qed.

Theorem phase_u_core (chol : list (list R) -> list (list R)) :
  (forall Xi s, In Xi classes -> In s Xi ->
     inv_ok inv rU (xprec rU D u F s) /\ chol_fact rU (chol (xprec rU D u F s)) (xprec rU D u F s)) ->
  (forall c, (c < C)%nat ->
     inv_ok inv rU (nth c (fst (acc_u inv rU D u F classes ys (map (fun _ => @None (list R)) classes)
                                      (map (fun _ => Some (V.vzero (length (msuper u)))) classes))) [])) ->
  let F' := jfa_iter_u inv rU D u classes ys F in
  (forall Xi s, In Xi classes -> In s Xi ->
     inv_ok inv rU (xprec rU D u F' s) /\ chol_fact rU (chol (xprec rU D u F' s)) (xprec rU D u F' s)) ->
  rsum (map (fun sy : gstat * option (list R) =>
               / 2 * dotR (wt_invsig rU (fU F) (vsuper u) (snd (sess_NG D u F (snd sy) (fst sy))))
                          (V.matvec (inv (xprec rU D u F (fst sy))) (wt_invsig rU (fU F) (vsuper u) (snd (sess_NG D u F (snd sy) (fst sy)))))
               - / 2 * logdet chol rU (xprec rU D u F (fst sy))) (sess_list classes ys))
  <= rsum (map (fun sy : gstat * option (list R) =>
               / 2 * dotR (wt_invsig rU (fU F') (vsuper u) (snd (sess_NG D u F (snd sy) (fst sy))))
                          (V.matvec (inv (xprec rU D u F' (fst sy))) (wt_invsig rU (fU F') (vsuper u) (snd (sess_NG D u F (snd sy) (fst sy)))))
               - / 2 * logdet chol rU (xprec rU D u F' (fst sy))) (sess_list classes ys)).
Proof.
  intros Hor Hsolve F' Hor'.
  assert (EF : fU F' = mstep_w inv rU D C (A1g inv C D rU u SY nvU gvU (sess_list classes ys) (fU F))
                                         (A2g inv C D rU u SY nvU gvU (sess_list classes ys) (fU F))).
  { subst F'. unfold jfa_iter_u. cbv zeta. rwT acc_u_gen. rwT (HC_u C D u Hu). reflexivity. }
  rewrite acc_u_gen in Hsolve. cbn [fst] in Hsolve.
  assert (Hor1 : forall sy, In sy (sess_list classes ys) ->
            inv_ok inv rU (Pw D rU u SY nvU (fU F) sy) /\ chol_fact rU (chol (Pw D rU u SY nvU (fU F) sy)) (Pw D rU u SY nvU (fU F) sy)).
  { intros sy Hsy. destruct (sess_list_in classes ys sy Hsy) as (Xi & H1 & H2). exact (Hor Xi (fst sy) H1 H2). }
  assert (Hor2 : forall sy, In sy (sess_list classes ys) ->
            inv_ok inv rU (Pw D rU u SY nvU (fU F') sy) /\ chol_fact rU (chol (Pw D rU u SY nvU (fU F') sy)) (Pw D rU u SY nvU (fU F') sy)).
  { intros sy Hsy. destruct (sess_list_in classes ys sy Hsy) as (Xi & H1 & H2). exact (Hor' Xi (fst sy) H1 H2). }
  change (rsum (map (fun sy : SY => / 2 * dotR (bw rU u SY gvU (fU F) sy)
                                  (V.matvec (inv (Pw D rU u SY nvU (fU F) sy)) (bw rU u SY gvU (fU F) sy))
                       - / 2 * logdet chol rU (Pw D rU u SY nvU (fU F) sy)) (sess_list classes ys))
          <= rsum (map (fun sy : SY => / 2 * dotR (bw rU u SY gvU (fU F') sy)
                                  (V.matvec (inv (Pw D rU u SY nvU (fU F') sy)) (bw rU u SY gvU (fU F') sy))
                       - / 2 * logdet chol rU (Pw D rU u SY nvU (fU F') sy)) (sess_list classes ys))).
  rewrite EF in Hor2 |- *.
  apply (gen_monotone inv C D rU u Hu SY nvU gvU (sess_list classes ys)).
  - exact nvU_ok.
  - exact gvU_ok.
  - apply (len_fU C D rU rV F HF).
  - exact Hor1.
  - exact Hsolve.
  - exact Hor2.
Qed.
End UPhase.
