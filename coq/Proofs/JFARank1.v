(* C09: the V phase of JFA training with a rank-1 speaker subspace is exact EM: one E/M iteration never
   decreases the phase marginal likelihood (the scalar speaker factor integrated out; x = 0, z = 0 as in e_step_v).
   All statements below are proved (mirrors the D-phase development of JFATrain.v). *)
From Coq Require Import Reals Lra List Lia Bool Arith.
From BLE Require Import Num.Scalar Num.InstR Lib.Vec Model.FA Proofs.RLemmas Proofs.FAEnroll Proofs.JFATrain.
Import ListNotations.
Open Scope R_scope.
Import FR.

(* rank 1: V is a column (C*D rows of length 1); v_j = its j-th entry *)
Definition vcol (Vm : list (list R)) : list R := map (fun r => nth 0 r 0) Vm.

(* class i with pooled statistics N_i (flat, rep D) and G_i = F_i - N_i m:
     L_i = 1 + sum_j N_ij v_j^2 / s_j ,  b_i = sum_j v_j G_ij / s_j ,
     log marginal_i(V) = b_i^2 / (2 L_i) - 1/2 ln L_i  + const                       *)
Definition v_prec (v s n : list R) : R := 1 + rsum (V.map3 (fun vj sj nj => nj * vj * vj / sj) v s n).
Definition v_lin (v s g : list R) : R := rsum (V.map3 (fun vj sj gj => vj * gj / sj) v s g).
Definition v_marg (v s n g : list R) : R := let L := v_prec v s n in let b := v_lin v s g in b * b / (2 * L) - / 2 * ln L.
Definition class_NG (D : nat) (u : ubm) (Xi : list gstat) : list R * list R :=
  let C := length (u_mu u) in
  let nacc := sum_n C Xi in let facc := sum_f C D Xi in
  (rep D nacc, V.vsub (flat facc) (V.vmul (rep D nacc) (msuper u))).
Definition marginal_v (D : nat) (u : ubm) (Vm : list (list R)) (classes : list (list gstat)) : R :=
  rsum (map (fun Xi => let '(n, g) := class_NG D u Xi in v_marg (vcol Vm) (vsuper u) n g) classes).

(* abstract core: classes as a list of (n_i, g_i) vectors of length M; one EM step on the column v *)
Definition em_v_step (v s : list R) (ng : list (list R * list R)) : list R :=
  let post := map (fun p => let L := v_prec v s (fst p) in (v_lin v s (snd p) / L, / L)) ng in       (* (ybar_i, var_i) *)
  map (fun j =>
         rsum (V.map2 (fun p q => nth j (snd p) 0 * fst q) ng post)
         / rsum (V.map2 (fun p q => nth j (fst p) 0 * (snd q + fst q * fst q)) ng post))
      (seq 0 (length v)).
(* ---- helpers for the abstract core *)
Definition yb (v s : list R) (p : list R * list R) : R := v_lin v s (snd p) / v_prec v s (fst p).
Definition vr (v s : list R) (p : list R * list R) : R := / v_prec v s (fst p).
Definition Aj (v s : list R) (ng : list (list R * list R)) (j : nat) : R :=
  rsum (map (fun p => nth j (snd p) 0 * yb v s p) ng).
Definition Bj (v s : list R) (ng : list (list R * list R)) (j : nat) : R :=
  rsum (map (fun p => nth j (fst p) 0 * (vr v s p + yb v s p * yb v s p)) ng).
Lemma em_v_step_form v s ng : em_v_step v s ng = map (fun j => Aj v s ng j / Bj v s ng j) (seq 0 (length v)).
Proof.
  unfold em_v_step. cbv zeta. apply map_ext. intros j. rewrite !map2_map_r. reflexivity.
Qed.
Lemma den_form v s ng j :
  rsum (V.map2 (fun p q => nth j (fst p) 0 * (snd q + fst q * fst q)) ng
               (map (fun p => let L := v_prec v s (fst p) in (v_lin v s (snd p) / L, / L)) ng)) = Bj v s ng j.
Proof. rewrite map2_map_r. reflexivity. Qed.
Lemma v_prec_index w s n M : length w = M -> length s = M -> length n = M ->
  v_prec w s n = 1 + rsum (map (fun j => nth j n 0 * nth j w 0 * nth j w 0 / nth j s 0) (seq 0 M)).
Proof. intros Hw Hs Hn. unfold v_prec. rewrite (map3_seq _ w s n M 0 0 0 Hw Hs Hn). reflexivity. Qed.
Lemma v_lin_index w s g M : length w = M -> length s = M -> length g = M ->
  v_lin w s g = rsum (map (fun j => nth j w 0 * nth j g 0 / nth j s 0) (seq 0 M)).
Proof. intros Hw Hs Hg. unfold v_lin. rewrite (map3_seq _ w s g M 0 0 0 Hw Hs Hg). reflexivity. Qed.
Lemma v_prec_pos w s n M : length w = M -> length s = M -> length n = M ->
  Forall (fun sj => 0 < sj) s -> Forall (fun a => 0 <= a) n -> 0 < v_prec w s n.
Proof.
  intros Hw Hs Hn Ps Pn. rewrite (v_prec_index w s n M Hw Hs Hn).
  assert (0 <= rsum (map (fun j => nth j n 0 * nth j w 0 * nth j w 0 / nth j s 0) (seq 0 M))); [|lra].
  apply rsum_le0. intros j Hj. apply in_seq in Hj.
  assert (0 < nth j s 0) by (apply (Forall_nth_lt (fun sj => 0 < sj)); [exact Ps|lia]).
  assert (0 <= nth j n 0) by (apply (Forall_nth_lt (fun a => 0 <= a)); [exact Pn|lia]).
  unfold Rdiv. apply Rmult_le_pos; [|left; now apply Rinv_0_lt_compat].
  rewrite Rmult_assoc. apply Rmult_le_pos; [assumption|nra].
Qed.
Lemma v_marg_marg w s n g : v_marg w s n g = marg (v_prec w s n) (v_lin w s g).
Proof. reflexivity. Qed.
Lemma rsum_lin2 {A} (a b : A -> R) c1 c2 l :
  rsum (map (fun x => a x * c1 - b x * c2) l) = rsum (map a l) * c1 - rsum (map b l) * c2.
Proof. induction l as [|x l IH]; cbn [map rsum]; [ring|rewrite IH; ring]. Qed.

Definition elbo_v (v s w : list R) (p : list R * list R) : R :=
  elbo (v_prec w s (fst p)) (v_lin w s (snd p)) (yb v s p) (vr v s p).
Lemma elbo_v_sum (M : nat) v s w ng : length w = M -> length s = M ->
  Forall (fun p : list R * list R => length (fst p) = M /\ length (snd p) = M) ng ->
  rsum (map (elbo_v v s w) ng)
  = rsum (map (fun p => - / 2 * (vr v s p + yb v s p * yb v s p) + / 2 * ln (vr v s p) + / 2) ng)
    + rsum (map (fun j => nth j w 0 * Aj v s ng j / nth j s 0 - / 2 * (nth j w 0 * nth j w 0) * Bj v s ng j / nth j s 0) (seq 0 M)).
Proof.
  intros Hw Hs Hng. rewrite Forall_forall in Hng.
  rewrite (rsum_map_ext (elbo_v v s w)
     (fun p => (- / 2 * (vr v s p + yb v s p * yb v s p) + / 2 * ln (vr v s p) + / 2)
               + rsum (map (fun j => nth j (snd p) 0 * yb v s p * (nth j w 0 / nth j s 0)
                                     - nth j (fst p) 0 * (vr v s p + yb v s p * yb v s p) * (/ 2 * (nth j w 0 * nth j w 0) / nth j s 0)) (seq 0 M)))).
  2:{ intros p Hp. destruct (Hng p Hp) as [L1 L2]. unfold elbo_v, elbo.
      rewrite (v_prec_index w s (fst p) M Hw Hs L1), (v_lin_index w s (snd p) M Hw Hs L2).
      set (y := yb v s p). set (r := vr v s p). set (lr := ln r).
      rewrite (rsum_map_ext (fun j => nth j (snd p) 0 * y * (nth j w 0 / nth j s 0) - nth j (fst p) 0 * (r + y * y) * (/ 2 * (nth j w 0 * nth j w 0) / nth j s 0))
                 (fun j => (nth j w 0 * nth j (snd p) 0 / nth j s 0) * y - (nth j (fst p) 0 * nth j w 0 * nth j w 0 / nth j s 0) * (/ 2 * (r + y * y)))).
      2:{ intros j _. unfold Rdiv. ring. }
      rewrite rsum_lin2. ring. }
  rewrite rsum_map_add. f_equal.
  rewrite (rsum_swap (fun (p : list R * list R) (j : nat) => nth j (snd p) 0 * yb v s p * (nth j w 0 / nth j s 0)
                                     - nth j (fst p) 0 * (vr v s p + yb v s p * yb v s p) * (/ 2 * (nth j w 0 * nth j w 0) / nth j s 0))).
  apply rsum_map_ext. intros j _. rewrite rsum_lin2. unfold Aj, Bj, Rdiv. ring.
Qed.

Theorem rank1_core_monotone (M : nat) (v s : list R) (ng : list (list R * list R)) :
  length v = M -> length s = M -> Forall (fun sj => 0 < sj) s ->
  Forall (fun p => length (fst p) = M /\ length (snd p) = M /\ Forall (fun n => 0 <= n) (fst p)) ng ->
  (* every coordinate is observed by some class: the M-step denominators are positive *)
  (forall j, (j < M)%nat ->
     0 < rsum (V.map2 (fun p q => nth j (fst p) 0 * (snd q + fst q * fst q)) ng
                      (map (fun p => let L := v_prec v s (fst p) in (v_lin v s (snd p) / L, / L)) ng))) ->
  rsum (map (fun p => v_marg v s (fst p) (snd p)) ng)
  <= rsum (map (fun p => v_marg (em_v_step v s ng) s (fst p) (snd p)) ng).
Proof.
  intros Hv Hs Ps Hng Hden. rewrite Forall_forall in Hng.
  assert (Hng2 : Forall (fun p : list R * list R => length (fst p) = M /\ length (snd p) = M) ng).
  { apply Forall_forall. intros p Hp. destruct (Hng p Hp) as (A & B & _). now split. }
  set (vs := em_v_step v s ng).
  assert (Lvs : length vs = M). { subst vs. rewrite em_v_step_form, map_length, seq_length. exact Hv. }
  assert (HL : forall w p, length w = M -> In p ng -> 0 < v_prec w s (fst p)).
  { intros w p Hw Hp. destruct (Hng p Hp) as (A & B & Cn). apply (v_prec_pos w s (fst p) M); assumption. }
  apply Rle_trans with (rsum (map (elbo_v v s v) ng)); [|apply Rle_trans with (rsum (map (elbo_v v s vs) ng))].
  - right. apply rsum_map_ext. intros p Hp. rewrite v_marg_marg. unfold elbo_v, yb, vr.
    symmetry. apply elbo_tight. apply HL; assumption.
  - rewrite (elbo_v_sum M v s v ng Hv Hs Hng2), (elbo_v_sum M v s vs ng Lvs Hs Hng2).
    apply Rplus_le_compat_l. apply rsum_le. intros j Hj. apply in_seq in Hj. assert (Hj' : (j < M)%nat) by lia.
    assert (Hsj : 0 < nth j s 0) by (apply (Forall_nth_lt (fun sj => 0 < sj)); [exact Ps|lia]).
    pose proof (Hden j Hj') as HB. rewrite den_form in HB.
    assert (Evs : nth j vs 0 = Aj v s ng j / Bj v s ng j).
    { subst vs. rewrite em_v_step_form, Hv. apply (nth_map_seq (fun j => Aj v s ng j / Bj v s ng j) M j 0 Hj'). }
    rewrite Evs. set (A := Aj v s ng j) in *. set (B := Bj v s ng j) in *. set (d := nth j v 0). set (sj := nth j s 0) in *.
    set (ds := A / B).
    assert (EA : A = ds * B) by (subst ds; field; lra).
    rewrite EA.
    assert (0 <= B / (2 * sj) * ((ds - d) * (ds - d))).
    { apply Rmult_le_pos. apply Rmult_le_pos. lra. left. apply Rinv_0_lt_compat. lra. apply Rle_0_sqr. }
    replace (B / (2 * sj) * ((ds - d) * (ds - d)))
      with ((ds * (ds * B) / sj - / 2 * (ds * ds) * B / sj) - (d * (ds * B) / sj - / 2 * (d * d) * B / sj)) in H by (field; lra).
    lra.
  - apply rsum_le. intros p Hp. rewrite v_marg_marg. unfold elbo_v.
    apply elbo_le_marg. apply HL; assumption. unfold vr. apply Rinv_0_lt_compat. apply HL; assumption.
Qed.

(* the code's V-phase iteration with rank 1 computes em_v_step, under the contract of the 1x1 inverse *)
Definition inv1_ok (inv : list (list R) -> list (list R)) : Prop := forall a, a <> 0 -> inv [[a]] = [[/ a]].

(* ---- the code's rank-1 V phase in index form *)
Lemma shape11 (m : list (list R)) : shape 1 1 m -> m = [[nth 0 (nth 0 m []) 0]].
Proof.
  intros [L1 L2]. destruct m as [|r [|r' m]]; cbn [length] in L1; try discriminate.
  inversion L2 as [|? ? Hr _]. destruct r as [|x0 [|x1 r]]; cbn [length] in Hr; try discriminate. reflexivity.
Qed.
Lemma len1 (l : list R) : length l = 1%nat -> l = [nth 0 l 0].
Proof. destruct l as [|x [|x' l]]; cbn [length]; intros H; try discriminate. reflexivity. Qed.
Lemma dotR_vzero a n : dotR a (V.vzero n) = 0.
Proof.
  rewrite (dotR_index a (V.vzero n) n (len_vzero n)). apply rsum_zero. intros i _. rewrite nth_vzero. ring.
Qed.
Lemma repeat_map_seq {A} (x : A) n : repeat x n = map (fun _ => x) (seq 0 n).
Proof. induction n as [|n IH]; cbn [repeat seq map]; [reflexivity|]. rewrite <- seq_shift, map_map. now f_equal. Qed.
Lemma map2_mm {A B C0 E} (f : B -> C0 -> E) (g : A -> B) (h : A -> C0) l :
  V.map2 f (map g l) (map h l) = map (fun x => f (g x) (h x)) l.
Proof. induction l as [|x l IH]; cbn [map V.map2]; [reflexivity|]. now rewrite IH. Qed.
Lemma msum11 {A} (f : A -> R) l : msum 1 1 (map (fun x => [[f x]]) l) = [[rsum (map f l)]].
Proof. induction l as [|x l IH]; cbn [map msum fold_right rsum]; [reflexivity|]. unfold msum in IH. rewrite IH. reflexivity. Qed.
Lemma outer_acc_col {A} n (g : A -> list R) (y : A -> R) l : (forall x, In x l -> length (g x) = n) ->
  outer_acc n 1 (map (fun x => (g x, [y x])) l) = map (fun j => [rsum (map (fun x => nth j (g x) 0 * y x) l)]) (seq 0 n).
Proof.
  unfold outer_acc. induction l as [|a l IH]; intros H; cbn [map fold_right rsum fst snd].
  - unfold V.mzero. rewrite repeat_map_seq. reflexivity.
  - rewrite IH by (intros x Hx; apply H; now right).
    assert (La : length (g a) = n) by (apply H; now left).
    rewrite (list_eq_seq (g a) 0) at 1. unfold InstR.T in *. rewrite La. unfold V.outer. rewrite map_map.
    unfold V.madd. rewrite map2_mm. reflexivity.
Qed.
Lemma In_chunk_len {A} D C (W : list A) x : length W = (C * D)%nat -> In x (chunk D C W) -> length x = D.
Proof.
  intros HW Hx. apply (In_nth _ _ []) in Hx. destruct Hx as (c & Hc & <-). rewrite len_chunk in Hc.
  now apply (len_chunk_row D C).
Qed.
(* the M-step with 1x1 blocks *)
Lemma mstep_w_rank1 (inv : list (list R) -> list (list R)) (C D : nat) (a1 a2 : nat -> R) :
  inv1_ok inv -> (forall c, (c < C)%nat -> a1 c <> 0) ->
  length (vcol (mstep_w inv 1 D C (map (fun c => [[a1 c]]) (seq 0 C)) (map (fun j => [a2 j]) (seq 0 (C * D))))) = (C * D)%nat /\
  forall c d, (c < C)%nat -> (d < D)%nat ->
    nth (c * D + d) (vcol (mstep_w inv 1 D C (map (fun c => [[a1 c]]) (seq 0 C)) (map (fun j => [a2 j]) (seq 0 (C * D))))) 0
    = a2 (c * D + d)%nat / a1 c.
Proof.
  intros Hinv Hne. unfold mstep_w, vcol.
  set (A1 := map (fun c => [[a1 c]]) (seq 0 C)). set (A2 := map (fun j => [a2 j]) (seq 0 (C * D))).
  assert (LA2 : length A2 = (C * D)%nat) by (subst A2; now rewrite map_length, seq_length).
  assert (LA1 : length A1 = C) by (subst A1; now rewrite map_length, seq_length).
  set (Mm := V.map2 _ _ _).
  assert (FM : Forall (fun r : list (list R) => length r = D) Mm).
  { subst Mm. apply Forall_map2. intros x y Hx _. unfold V.matmul. rewrite map_length. now apply (In_chunk_len D C A2). }
  assert (LM : length Mm = C). { subst Mm. apply len_map2_eq. apply len_chunk. exact LA1. }
  assert (LC : length (concat Mm) = (C * D)%nat). { unfold InstR.T in *. rewrite (len_concat _ D FM). now rewrite LM. }
  split. { rewrite map_length. exact LC. }
  intros c d Hc Hd.
  assert (Hj : (c * D + d < C * D)%nat) by nia.
  rewrite (nth_map_lt (fun r : list R => nth 0 r 0) (concat Mm) (c * D + d) 0 []) by (unfold InstR.T in *; lia).
  unfold InstR.T in *.
  rewrite (nth_concat Mm D c d [] FM) by lia.
  subst Mm. rewrite (nth_map2 _ (chunk D C A2) A1 c [] [] []) by (rewrite ?len_chunk; lia).
  assert (EA1 : nth c A1 [] = [[a1 c]]). { subst A1. apply (nth_map_seq (fun c => [[a1 c]]) C c [] Hc). }
  rewrite EA1, (Hinv (a1 c) (Hne c Hc)).
  change (V.matmul 1 (nth c (chunk D C A2) []) [[/ a1 c]]) with (map (fun r : list R => [V.dot r [/ a1 c]]) (nth c (chunk D C A2) [])).
  rewrite (nth_map_lt _ _ d [] []) by (rewrite (len_chunk_row D C A2 c LA2 Hc); exact Hd).
  rewrite (nth_chunk_row D C A2 c d [] Hc Hd).
  assert (EA2 : nth (c * D + d) A2 [] = [a2 (c * D + d)%nat]). { subst A2. apply (nth_map_seq (fun j => [a2 j]) (C * D) _ [] Hj). }
  rewrite EA2. cbn [nth]. change (V.dot [a2 (c * D + d)%nat] [/ a1 c]) with (a2 (c * D + d)%nat * / a1 c + 0).
  unfold Rdiv. ring.
Qed.

Section V1.
Variable inv : list (list R) -> list (list R).
Variables (C D rU : nat) (u : ubm) (F : fa).
Hypothesis Hinv : inv1_ok inv.
Hypothesis Hu : ubm_ok C D u.
Hypothesis HF : fa_ok C D rU 1 F.

Lemma v1_HC : length (u_mu u) = C. Proof. destruct Hu as (H & _). exact H. Qed.
Lemma len_vv : length (vcol (fV F)) = (C * D)%nat.
Proof. unfold vcol. rewrite map_length. apply (len_fV C D rU 1 F HF). Qed.
Lemma nth_vv j : (j < C * D)%nat -> nth j (vcol (fV F)) 0 = nth 0 (nth j (fV F) []) 0.
Proof.
  intros Hj. unfold vcol. apply (nth_map_lt (fun r : list R => nth 0 r 0) (fV F) j 0 []).
  pose proof (len_fV C D rU 1 F HF). unfold InstR.T in *. lia.
Qed.
Lemma vsuper_pos : Forall (fun sj => 0 < sj) (vsuper u).
Proof.
  unfold vsuper, flat. apply Forall_concat'. destruct Hu as (_ & _ & _ & H4). eapply Forall_impl; [|exact H4]. intros r Hr; apply Hr.
Qed.
Lemma sum_n_nonneg Xi : Forall (gstat_ok C D) Xi -> Forall (fun a => 0 <= a) (sum_n C Xi).
Proof.
  unfold sum_n. induction 1 as [|s l Hs Hl IH]; cbn [fold_right].
  - apply Forall_forall. intros x Hx. apply repeat_spec in Hx. subst. unfold InstR.zero. lra.
  - apply Forall_map2. intros a b Ha Hb. destruct Hs as (_ & Hn & _). rewrite Forall_forall in Hn, IH.
    specialize (Hn a Ha). specialize (IH b Hb). unfold InstR.add. lra.
Qed.
Lemma class_NG_C Xi : class_NG D u Xi
  = (rep D (sum_n C Xi), V.vsub (flat (sum_f C D Xi)) (V.vmul (rep D (sum_n C Xi)) (msuper u))).
Proof. unfold class_NG. rewrite v1_HC. reflexivity. Qed.
Lemma class_NG_ok Xi : Forall (gstat_ok C D) Xi ->
  length (fst (class_NG D u Xi)) = (C * D)%nat /\ length (snd (class_NG D u Xi)) = (C * D)%nat
  /\ Forall (fun n => 0 <= n) (fst (class_NG D u Xi)).
Proof.
  intros HX. rewrite class_NG_C. cbn [fst snd].
  pose proof (len_rep_sum_n C D Xi HX) as L1. pose proof (len_flat_sum_f C D Xi HX) as L2. pose proof (len_msuper C D u Hu) as L3.
  split; [exact L1|split].
  - apply len_vsub. exact L2. apply len_vmul; assumption.
  - apply rep_nonneg. now apply sum_n_nonneg.
Qed.
Lemma class_L_pos Xi : Forall (gstat_ok C D) Xi -> 0 < v_prec (vcol (fV F)) (vsuper u) (fst (class_NG D u Xi)).
Proof.
  intros HX. destruct (class_NG_ok Xi HX) as (L1 & L2 & P).
  apply (v_prec_pos _ _ _ (C * D)); auto using len_vv, (len_vsuper C D u Hu), vsuper_pos.
Qed.

Lemma fn_y_zero Xi : Forall (gstat_ok C D) Xi ->
  fn_y D u F Xi (map (fun _ => V.vzero rU) Xi) (V.vzero (C * D)) (sum_n C Xi) (sum_f C D Xi) = snd (class_NG D u Xi).
Proof.
  intros HX. rewrite class_NG_C. cbn [snd].
  pose proof (len_rep_sum_n C D Xi HX) as L1. pose proof (len_flat_sum_f C D Xi HX) as L2. pose proof (len_msuper C D u Hu) as L3.
  apply (list_ext_R _ _ (C * D)).
  - apply (len_fn_y C D rU 1 u F Xi Hu HF HX). apply len_vzero.
  - apply len_vsub. exact L2. apply len_vmul; assumption.
  - intros j Hj. rewrite (nth_fn_y C D rU 1 u F Xi Hu HF HX) by (rewrite ?map_length, ?len_vzero; auto).
    rewrite nth_vzero. rewrite rsum_zero.
    2:{ intros h Hh. apply in_seq in Hh.
        rewrite (nth_map_lt (fun _ : gstat => V.vzero rU) Xi h [] (dX)) by lia. rewrite dotR_vzero. ring. }
    rewrite (nth_vsub _ _ j (C * D)); [|exact L2|apply len_vmul; assumption|exact Hj].
    rewrite (nth_vmul _ _ j (C * D)) by assumption.
    rewrite (nth_flat_sum_f C D Xi HX j Hj), (nth_rep_sum_n C D Xi HX j Hj). unfold Fj, Nj, mj. ring.
Qed.
Lemma prec1 Xi : Forall (gstat_ok C D) Xi ->
  prec D u 1 (fV F) (sum_n C Xi) = [[ v_prec (vcol (fV F)) (vsuper u) (fst (class_NG D u Xi)) ]].
Proof.
  intros HX. rewrite (shape11 _ (prec_shape D u 1 (fV F) (sum_n C Xi))). f_equal. f_equal.
  rewrite (prec_entry C D u Hu 1 (fV F) (sum_n C Xi) 0 0 (len_fV C D rU 1 F HF) (len_sum_n C D Xi HX)) by lia.
  destruct (class_NG_ok Xi HX) as (L1 & _).
  rewrite (v_prec_index _ _ _ (C * D) len_vv (len_vsuper C D u Hu) L1). cbn [Nat.eqb]. f_equal.
  rewrite class_NG_C. cbn [fst].
  apply rsum_map_ext. intros j Hj. apply in_seq in Hj. rewrite nth_vv by lia. unfold sj, Rdiv. unfold_R. ring.
Qed.
Lemma idinv1 Xi : Forall (gstat_ok C D) Xi ->
  id_plus_prod_inv inv 1 (wprod 1 D u (fV F)) (sum_n C Xi) = [[ vr (vcol (fV F)) (vsuper u) (class_NG D u Xi) ]].
Proof.
  intros HX. change (id_plus_prod_inv inv 1 (wprod 1 D u (fV F)) (sum_n C Xi)) with (inv (prec D u 1 (fV F) (sum_n C Xi))).
  rewrite (prec1 Xi HX). apply Hinv. pose proof (class_L_pos Xi HX). lra.
Qed.
Lemma wt1 g : length g = (C * D)%nat -> wt_invsig 1 (fV F) (vsuper u) g = [ v_lin (vcol (fV F)) (vsuper u) g ].
Proof.
  intros Hg. rewrite (len1 _ (len_wt_invsig 1 (fV F) (vsuper u) g)). f_equal.
  etransitivity; [apply (nth_wt_invsig C D u Hu 1 (fV F) g 0 (len_fV C D rU 1 F HF) Hg); lia|].
  rewrite (v_lin_index _ _ _ (C * D) len_vv (len_vsuper C D u Hu) Hg).
  apply rsum_map_ext. intros j Hj. apply in_seq in Hj. rewrite nth_vv by lia. unfold sj, Rdiv. unfold_R. ring.
Qed.
Lemma estep_v_rank1 Xi : Forall (gstat_ok C D) Xi ->
  estep_v_class inv rU 1 D u F (wprod 1 D u (fV F)) Xi
  = ([yb (vcol (fV F)) (vsuper u) (class_NG D u Xi)],
     [[vr (vcol (fV F)) (vsuper u) (class_NG D u Xi)
       + yb (vcol (fV F)) (vsuper u) (class_NG D u Xi) * yb (vcol (fV F)) (vsuper u) (class_NG D u Xi)]],
     snd (class_NG D u Xi)).
Proof.
  intros HX. unfold estep_v_class. rewrite v1_HC. cbv zeta.
  destruct (class_NG_ok Xi HX) as (L1 & L2 & _).
  unfold update_y_class. rewrite (fn_y_zero Xi HX), (idinv1 Xi HX), (wt1 _ L2).
  set (b := v_lin _ _ _). set (r := vr _ _ _).
  change (vecmat 1 [b] [[r]]) with [b * r + 0].
  assert (E : b * r + 0 = yb (vcol (fV F)) (vsuper u) (class_NG D u Xi)).
  { subst b r. unfold yb, vr, Rdiv. ring. }
  rewrite E. reflexivity.
Qed.

Variable classes : list (list gstat).
Hypothesis Hcl : Forall (Forall (gstat_ok C D)) classes.
Definition a1c (c : nat) : R :=
  rsum (map (fun Xi => nth c (sum_n C Xi) 0
                       * (vr (vcol (fV F)) (vsuper u) (class_NG D u Xi)
                          + yb (vcol (fV F)) (vsuper u) (class_NG D u Xi) * yb (vcol (fV F)) (vsuper u) (class_NG D u Xi))) classes).
Definition a2j (j : nat) : R :=
  rsum (map (fun Xi => nth j (snd (class_NG D u Xi)) 0 * yb (vcol (fV F)) (vsuper u) (class_NG D u Xi)) classes).
Lemma acc_v_rank1 :
  acc_v inv rU 1 D u F classes = (map (fun c => [[a1c c]]) (seq 0 C), map (fun j => [a2j j]) (seq 0 (C * D))).
Proof.
  rewrite Forall_forall in Hcl.
  unfold acc_v. rewrite v1_HC. cbv zeta. rewrite !map_map. cbn [fst snd]. f_equal.
  - apply map_ext. intros c. rewrite map_map. cbn [fst snd].
    rewrite (map_ext_in _ (fun Xi => [[nth c (sum_n C Xi) 0
                       * (vr (vcol (fV F)) (vsuper u) (class_NG D u Xi)
                          + yb (vcol (fV F)) (vsuper u) (class_NG D u Xi) * yb (vcol (fV F)) (vsuper u) (class_NG D u Xi))]])).
    2:{ intros Xi HXi. rewrite (estep_v_rank1 Xi (Hcl Xi HXi)). reflexivity. }
    apply msum11.
  - rewrite (map_ext_in _ (fun Xi => (snd (class_NG D u Xi), [yb (vcol (fV F)) (vsuper u) (class_NG D u Xi)]))).
    2:{ intros Xi HXi. rewrite (estep_v_rank1 Xi (Hcl Xi HXi)). reflexivity. }
    apply outer_acc_col. intros Xi HXi. apply (class_NG_ok Xi (Hcl Xi HXi)).
Qed.
(* the per-coordinate sums of em_v_step are the accumulators *)
Lemma Aj_a2j j : Aj (vcol (fV F)) (vsuper u) (map (class_NG D u) classes) j = a2j j.
Proof. unfold Aj, a2j. rewrite map_map. reflexivity. Qed.
Lemma Bj_a1c c d : (c < C)%nat -> (d < D)%nat ->
  Bj (vcol (fV F)) (vsuper u) (map (class_NG D u) classes) (c * D + d) = a1c c.
Proof.
  intros Hc Hd. rewrite Forall_forall in Hcl. unfold Bj, a1c. rewrite map_map. apply rsum_map_ext. intros Xi HXi.
  f_equal. rewrite class_NG_C. cbn [fst]. apply nth_rep; [|exact Hd]. pose proof (len_sum_n C D Xi (Hcl Xi HXi)) as E. unfold InstR.T in *. rewrite E. exact Hc.
Qed.
Lemma split_index j : (j < C * D)%nat -> exists c d, (c < C)%nat /\ (d < D)%nat /\ j = (c * D + d)%nat.
Proof.
  intros Hj. assert (HD : (0 < D)%nat) by nia. exists (j / D)%nat, (j mod D)%nat.
  split; [apply Nat.div_lt_upper_bound; nia|split; [apply Nat.mod_upper_bound; lia|]].
  rewrite (Nat.div_mod j D) at 1 by lia. lia.
Qed.
End V1.

Theorem jfa_iter_v_rank1 (inv : list (list R) -> list (list R)) (C D rU : nat) (u : ubm) (F : fa) (classes : list (list gstat)) :
  inv1_ok inv -> ubm_ok C D u -> fa_ok C D rU 1 F -> Forall (Forall (gstat_ok C D)) classes ->
  (* the accumulated A1_c (1x1 per component) are non-zero *)
  Forall (fun A1c => nth 0 (nth 0 A1c []) 0 <> 0) (fst (acc_v inv rU 1 D u F classes)) ->
  vcol (fV (jfa_iter_v inv rU 1 D u classes F))
  = em_v_step (vcol (fV F)) (vsuper u) (map (class_NG D u) classes).
Proof.
  intros Hinv Hu HF Hcl Hne.
  rewrite (acc_v_rank1 inv C D rU u F Hinv Hu HF classes Hcl) in Hne. cbn [fst] in Hne.
  rewrite Forall_map, Forall_forall in Hne.
  assert (Hne' : forall c, (c < C)%nat -> a1c C D u F classes c <> 0).
  { intros c Hc. apply (Hne c). apply in_seq. lia. }
  unfold jfa_iter_v. rewrite (acc_v_rank1 inv C D rU u F Hinv Hu HF classes Hcl). cbn [set_V fV].
  rewrite (v1_HC C D u Hu).
  destruct (mstep_w_rank1 inv C D (a1c C D u F classes) (a2j D u F classes) Hinv Hne') as [LL EE].
  apply (list_ext_R _ _ (C * D)).
  - exact LL.
  - rewrite em_v_step_form, map_length, seq_length. apply (len_vv C D rU F HF).
  - intros j Hj. destruct (split_index C D j Hj) as (c & d & Hc & Hd & ->).
    rewrite (EE c d Hc Hd). rewrite em_v_step_form, (len_vv C D rU F HF).
    rewrite (nth_map_seq _ (C * D) (c * D + d) 0 Hj).
    rewrite (Aj_a2j D u F classes), (Bj_a1c C D u F Hu classes Hcl c d Hc Hd). reflexivity.
Qed.

Theorem phase_v_monotone_rank1 (inv : list (list R) -> list (list R)) (C D rU : nat) (u : ubm) (F : fa) (classes : list (list gstat)) :
  inv1_ok inv -> ubm_ok C D u -> fa_ok C D rU 1 F -> Forall (Forall (gstat_ok C D)) classes ->
  Forall (fun A1c => 0 < nth 0 (nth 0 A1c []) 0) (fst (acc_v inv rU 1 D u F classes)) ->
  marginal_v D u (fV F) classes <= marginal_v D u (fV (jfa_iter_v inv rU 1 D u classes F)) classes.
Proof.
  intros Hinv Hu HF Hcl Hpos.
  assert (Hne : Forall (fun A1c => nth 0 (nth 0 A1c []) 0 <> 0) (fst (acc_v inv rU 1 D u F classes))).
  { eapply Forall_impl; [|exact Hpos]. intros a Ha. cbv beta in *. lra. }
  unfold marginal_v. rewrite (jfa_iter_v_rank1 inv C D rU u F classes Hinv Hu HF Hcl Hne).
  rewrite (acc_v_rank1 inv C D rU u F Hinv Hu HF classes Hcl) in Hpos. cbn [fst] in Hpos.
  rewrite Forall_map, Forall_forall in Hpos.
  assert (Hpos' : forall c, (c < C)%nat -> 0 < a1c C D u F classes c).
  { intros c Hc. apply (Hpos c). apply in_seq. lia. }
  assert (Em : forall w, rsum (map (fun Xi => let '(n, g) := class_NG D u Xi in v_marg w (vsuper u) n g) classes)
                         = rsum (map (fun p => v_marg w (vsuper u) (fst p) (snd p)) (map (class_NG D u) classes))).
  { intros w. rewrite map_map. reflexivity. }
  rewrite !Em.
  apply (rank1_core_monotone (C * D)).
  - apply (len_vv C D rU F HF).
  - apply (len_vsuper C D u Hu).
  - apply (vsuper_pos C D u Hu).
  - rewrite Forall_map. rewrite Forall_forall in Hcl. apply Forall_forall. intros Xi HXi.
    apply (class_NG_ok C D u Hu Xi (Hcl Xi HXi)).
  - intros j Hj. rewrite den_form. destruct (split_index C D j Hj) as (c & d & Hc & Hd & ->).
    rewrite (Bj_a1c C D u F Hu classes Hcl c d Hc Hd). apply Hpos'. exact Hc.
Qed.




