(* C09: the U phase of JFA training with a rank-1 session subspace is exact EM: with the speaker factors y fixed
   (and z = 0, as in e_step_u of the JFA trainer) one E/M iteration never decreases the phase marginal likelihood
   (the scalar session factor of every session integrated out).  The abstract core is rank1_core_monotone of
   JFARank1.v with "class" read as "session". *)
From Coq Require Import Reals Lra List Lia Bool Arith.
From BLE Require Import Num.Scalar Num.InstR Lib.Vec Model.FA Proofs.RLemmas Proofs.FAEnroll Proofs.JFATrain Proofs.JFARank1.
Import ListNotations.
Open Scope R_scope.
Import FR.

(* session s of a class with speaker factor y:  N_s (flat, rep D) and G_s = F_s - N_s (m + D*0 + V y)  (fn_x with z = 0) *)
Definition sess_NG (D : nat) (u : ubm) (F : fa) (y : option (list R)) (s : gstat) : list R * list R :=
  (rep D (g_n s), fn_x D u F s (Some (V.vzero (length (msuper u)))) y).
Definition sessions_NG (D : nat) (u : ubm) (F : fa) (classes : list (list gstat)) (ys : list (option (list R))) : list (list R * list R) :=
  concat (V.map2 (fun Xi y => map (sess_NG D u F y) Xi) classes ys).
(* phase marginal as a function of the column U (everything else - V, D, the y's - held fixed) *)
Definition marginal_u (D : nat) (u : ubm) (F : fa) (Um : list (list R)) (classes : list (list gstat)) (ys : list (option (list R))) : R :=
  rsum (map (fun p => v_marg (vcol Um) (vsuper u) (fst p) (snd p)) (sessions_NG D u F classes ys)).

Definition acc_u_jfa (inv : list (list R) -> list (list R)) (D : nat) (u : ubm) (F : fa) (classes : list (list gstat)) (ys : list (option (list R))) :=
  acc_u inv 1 D u F classes ys (map (fun _ => @None (list R)) classes) (map (fun _ => Some (V.vzero (length (msuper u)))) classes).

(* ---------------------------------------------------------------- helpers *)
Lemma vadd_fD_zero (C D rU rV : nat) (u : ubm) (F : fa) : ubm_ok C D u -> fa_ok C D rU rV F ->
  V.vadd (msuper u) (V.vmul (fD F) (V.vzero (length (msuper u)))) = msuper u.
Proof.
  intros Hu HF. pose proof (len_msuper C D u Hu) as Lm. pose proof (len_fD C D rU rV F HF) as Ld.
  unfold InstR.T in *. rewrite Lm.
  assert (Lz : length (V.vmul (fD F) (V.vzero (C * D))) = (C * D)%nat) by (apply len_vmul; [exact Ld|apply len_vzero]).
  apply (list_ext_R _ _ (C * D)).
  - apply len_vadd; assumption.
  - exact Lm.
  - intros i Hi. etransitivity; [apply (nth_vadd _ _ i (C * D) Lm Lz Hi)|].
    assert (E : nth i (V.vmul (fD F) (V.vzero (C * D))) 0 = 0).
    { etransitivity; [apply (nth_vmul _ _ i (C * D) Ld (len_vzero (C * D)) Hi)|]. rewrite nth_vzero. unfold_R. ring. }
    unfold InstR.T in *. rewrite E. ring.
Qed.
Lemma fn_x_zero_none (C D rU rV : nat) (u : ubm) (F : fa) s y : ubm_ok C D u -> fa_ok C D rU rV F ->
  fn_x D u F s (Some (V.vzero (length (msuper u)))) y = fn_x D u F s None y.
Proof. intros Hu HF. unfold fn_x. rewrite (vadd_fD_zero C D rU rV u F Hu HF). reflexivity. Qed.

(* all sessions, each paired with the speaker factor of its class *)
Definition sess_list (classes : list (list gstat)) (ys : list (option (list R))) : list (gstat * option (list R)) :=
  concat (V.map2 (fun Xi y => map (fun s => (s, y)) Xi) classes ys).
Lemma concat_map2_sess {B} (f : option (list R) -> gstat -> B) classes ys :
  concat (V.map2 (fun Xi y => map (f y) Xi) classes ys) = map (fun sy => f (snd sy) (fst sy)) (sess_list classes ys).
Proof.
  unfold sess_list. revert ys. induction classes as [|Xi cl IH]; intros [|y ys]; cbn [V.map2 concat map]; try reflexivity.
  rewrite map_app, map_map, IH. reflexivity.
Qed.
Lemma per_form {B E} (g : option (list R) -> gstat -> B -> E) (h : option (list R) -> gstat -> B) classes ys :
  concat (V.map2 (fun Xi y => V.map2 (g y) Xi (map (h y) Xi)) classes ys)
  = map (fun sy => g (snd sy) (fst sy) (h (snd sy) (fst sy))) (sess_list classes ys).
Proof.
  unfold sess_list. revert ys. induction classes as [|Xi cl IH]; intros [|y ys]; cbn [V.map2 concat map]; try reflexivity.
  rewrite map2_map_r, map_app, map_map, IH. reflexivity.
Qed.
Lemma sess_list_ok (C D : nat) classes ys : Forall (Forall (gstat_ok C D)) classes ->
  Forall (fun sy : gstat * option (list R) => gstat_ok C D (fst sy)) (sess_list classes ys).
Proof.
  unfold sess_list. intros H. revert ys. induction H as [|Xi cl HX Hcl IH]; intros [|y ys]; cbn [V.map2 concat]; try constructor.
  apply Forall_app. split; [|apply IH]. rewrite Forall_map. exact HX.
Qed.
Lemma map3_const_r {A B C0 E} (f : A -> B -> C0 -> E) (c : C0) a b :
  V.map3 f a b (map (fun _ => c) a) = V.map2 (fun x y => f x y c) a b.
Proof. revert b. induction a as [|x a IH]; intros [|y b]; cbn [V.map3 V.map2 map]; try reflexivity. now rewrite IH. Qed.
Lemma combine_map_const {A B C0} (a : B) (b : C0) (l : list A) :
  combine (map (fun _ => a) l) (map (fun _ => b) l) = map (fun _ => (a, b)) l.
Proof. induction l as [|x l IH]; cbn [map combine]; [reflexivity|]. now rewrite IH. Qed.

Section U1.
Variable inv : list (list R) -> list (list R).
Variables (C D rV : nat) (u : ubm) (F : fa).
Hypothesis Hinv : inv1_ok inv.
Hypothesis Hu : ubm_ok C D u.
Hypothesis HF : fa_ok C D 1 rV F.

Lemma len_uu : length (vcol (fU F)) = (C * D)%nat.
Proof. unfold vcol. rewrite map_length. apply (len_fU C D 1 rV F HF). Qed.
Lemma nth_uu j : (j < C * D)%nat -> nth j (vcol (fU F)) 0 = nth 0 (nth j (fU F) []) 0.
Proof.
  intros Hj. unfold vcol. apply (nth_map_lt (fun r : list R => nth 0 r 0) (fU F) j 0 []).
  pose proof (len_fU C D 1 rV F HF). unfold InstR.T in *. lia.
Qed.
Lemma sess_NG_ok s y : gstat_ok C D s ->
  length (fst (sess_NG D u F y s)) = (C * D)%nat /\ length (snd (sess_NG D u F y s)) = (C * D)%nat
  /\ Forall (fun n => 0 <= n) (fst (sess_NG D u F y s)).
Proof.
  intros Hs. unfold sess_NG. cbn [fst snd]. split; [apply (len_repn C D s Hs)|split].
  - apply (len_fn_x C D 1 rV u F Hu HF s _ y Hs). rewrite len_vzero. apply (len_msuper C D u Hu).
  - apply rep_nonneg. apply Hs.
Qed.
Lemma sess_L_pos s y : gstat_ok C D s -> 0 < v_prec (vcol (fU F)) (vsuper u) (fst (sess_NG D u F y s)).
Proof.
  intros Hs. destruct (sess_NG_ok s y Hs) as (L1 & L2 & P).
  apply (v_prec_pos _ _ _ (C * D)); auto using len_uu, (len_vsuper C D u Hu), (JFARank1.vsuper_pos C D u Hu).
Qed.
Lemma prec1u s y : gstat_ok C D s ->
  prec D u 1 (fU F) (g_n s) = [[ v_prec (vcol (fU F)) (vsuper u) (fst (sess_NG D u F y s)) ]].
Proof.
  intros Hs. rewrite (JFARank1.shape11 _ (prec_shape D u 1 (fU F) (g_n s))). f_equal. f_equal.
  assert (Ln : length (g_n s) = C) by apply Hs.
  rewrite (prec_entry C D u Hu 1 (fU F) (g_n s) 0 0 (len_fU C D 1 rV F HF) Ln) by lia.
  destruct (sess_NG_ok s y Hs) as (L1 & _).
  rewrite (v_prec_index _ _ _ (C * D) len_uu (len_vsuper C D u Hu) L1). cbn [Nat.eqb]. f_equal.
  unfold sess_NG. cbn [fst].
  apply rsum_map_ext. intros j Hj. apply in_seq in Hj. rewrite nth_uu by lia. unfold sj, Rdiv. unfold_R. ring.
Qed.
Lemma idinv1u s y : gstat_ok C D s ->
  id_plus_prod_inv inv 1 (wprod 1 D u (fU F)) (g_n s) = [[ vr (vcol (fU F)) (vsuper u) (sess_NG D u F y s) ]].
Proof.
  intros Hs. change (id_plus_prod_inv inv 1 (wprod 1 D u (fU F)) (g_n s)) with (inv (prec D u 1 (fU F) (g_n s))).
  rewrite (prec1u s y Hs). apply Hinv. pose proof (sess_L_pos s y Hs). lra.
Qed.
Lemma wt1u g : length g = (C * D)%nat -> wt_invsig 1 (fU F) (vsuper u) g = [ v_lin (vcol (fU F)) (vsuper u) g ].
Proof.
  intros Hg. rewrite (JFARank1.len1 _ (len_wt_invsig 1 (fU F) (vsuper u) g)). f_equal.
  etransitivity; [apply (nth_wt_invsig C D u Hu 1 (fU F) g 0 (len_fU C D 1 rV F HF) Hg); lia|].
  rewrite (v_lin_index _ _ _ (C * D) len_uu (len_vsuper C D u Hu) Hg).
  apply rsum_map_ext. intros j Hj. apply in_seq in Hj. rewrite nth_uu by lia. unfold sj, Rdiv. unfold_R. ring.
Qed.

Definition ybu (sy : gstat * option (list R)) : R := yb (vcol (fU F)) (vsuper u) (sess_NG D u F (snd sy) (fst sy)).
Definition vru (sy : gstat * option (list R)) : R := vr (vcol (fU F)) (vsuper u) (sess_NG D u F (snd sy) (fst sy)).

(* the per-session tuple of acc_u *)
Lemma tuple_rank1 s y : gstat_ok C D s ->
  let x := V.matvec (id_plus_prod_inv inv 1 (wprod 1 D u (fU F)) (g_n s))
                    (wt_invsig 1 (fU F) (vsuper u) (fn_x D u F s None y)) in
  (V.madd (id_plus_prod_inv inv 1 (wprod 1 D u (fU F)) (g_n s)) (V.outer x x), g_n s,
   fn_x D u F s (Some (V.vzero (length (msuper u)))) y, x)
  = ([[vru (s, y) + ybu (s, y) * ybu (s, y)]], g_n s, snd (sess_NG D u F y s), [ybu (s, y)]).
Proof.
  intros Hs. cbv zeta. destruct (sess_NG_ok s y Hs) as (L1 & L2 & _).
  rewrite <- (fn_x_zero_none C D 1 rV u F s y Hu HF).
  change (fn_x D u F s (Some (V.vzero (length (msuper u)))) y) with (snd (sess_NG D u F y s)).
  rewrite (idinv1u s y Hs), (wt1u _ L2).
  unfold ybu, vru. cbn [fst snd].
  set (b := v_lin _ _ _). set (r := vr _ _ _).
  change (V.matvec [[r]] [b]) with [r * b + 0].
  assert (E : r * b + 0 = yb (vcol (fU F)) (vsuper u) (sess_NG D u F y s)).
  { subst b r. unfold yb, vr, Rdiv. ring. }
  rewrite E. reflexivity.
Qed.

Variable classes : list (list gstat).
Variable ys : list (option (list R)).
Hypothesis Hcl : Forall (Forall (gstat_ok C D)) classes.

Definition a1u (c : nat) : R :=
  rsum (map (fun sy => nth c (g_n (fst sy)) 0 * (vru sy + ybu sy * ybu sy)) (sess_list classes ys)).
Definition a2u (j : nat) : R :=
  rsum (map (fun sy => nth j (snd (sess_NG D u F (snd sy) (fst sy))) 0 * ybu sy) (sess_list classes ys)).

Lemma sessions_NG_list : sessions_NG D u F classes ys = map (fun sy => sess_NG D u F (snd sy) (fst sy)) (sess_list classes ys).
Proof. unfold sessions_NG. apply (concat_map2_sess (fun y s => sess_NG D u F y s)). Qed.

Lemma acc_u_rank1 :
  acc_u_jfa inv D u F classes ys = (map (fun c => [[a1u c]]) (seq 0 C), map (fun j => [a2u j]) (seq 0 (C * D))).
Proof.
  pose proof (sess_list_ok C D classes ys Hcl) as Hsl. rewrite Forall_forall in Hsl.
  unfold acc_u_jfa, acc_u. rewrite (JFARank1.v1_HC C D u Hu). cbv zeta.
  rewrite combine_map_const, map3_const_r. cbn [fst snd]. unfold latent_x_class.
  set (per := concat _).
  assert (E : per = map (fun sy => ([[vru sy + ybu sy * ybu sy]], g_n (fst sy), snd (sess_NG D u F (snd sy) (fst sy)), [ybu sy]))
                        (sess_list classes ys)).
  { subst per.
    etransitivity; [apply (per_form
       (fun y s x => (V.madd (id_plus_prod_inv inv 1 (wprod 1 D u (fU F)) (g_n s)) (V.outer x x), g_n s,
                      fn_x D u F s (Some (V.vzero (length (msuper u)))) y, x))
       (fun y s => V.matvec (id_plus_prod_inv inv 1 (wprod 1 D u (fU F)) (g_n s))
                            (wt_invsig 1 (fU F) (vsuper u) (fn_x D u F s None y))))|].
    apply map_ext_in. intros [s y] Hsy. cbn [fst snd]. apply (tuple_rank1 s y (Hsl (s, y) Hsy)). }
  rewrite E. clear E per. rewrite !map_map. cbn [fst snd]. f_equal.
  - apply map_ext. intros c. rewrite map_map. cbn [fst snd]. apply (msum11 (fun sy => nth c (g_n (fst sy)) 0 * (vru sy + ybu sy * ybu sy))).
  - apply (outer_acc_col (C * D) (fun sy => snd (sess_NG D u F (snd sy) (fst sy))) ybu).
    intros sy Hsy. apply (sess_NG_ok (fst sy) (snd sy) (Hsl sy Hsy)).
Qed.

Lemma Aj_a2u j : Aj (vcol (fU F)) (vsuper u) (sessions_NG D u F classes ys) j = a2u j.
Proof. rewrite sessions_NG_list. unfold Aj, a2u. rewrite map_map. reflexivity. Qed.
Lemma Bj_a1u c d : (c < C)%nat -> (d < D)%nat ->
  Bj (vcol (fU F)) (vsuper u) (sessions_NG D u F classes ys) (c * D + d) = a1u c.
Proof.
  intros Hc Hd. pose proof (sess_list_ok C D classes ys Hcl) as Hsl. rewrite Forall_forall in Hsl.
  rewrite sessions_NG_list. unfold Bj, a1u. rewrite map_map. apply rsum_map_ext. intros sy Hsy.
  f_equal. unfold sess_NG. cbn [fst]. apply nth_rep; [|exact Hd].
  assert (E : length (g_n (fst sy)) = C) by apply (Hsl sy Hsy). unfold InstR.T in *. rewrite E. exact Hc.
Qed.
Lemma sessions_NG_ok :
  Forall (fun p : list R * list R => length (fst p) = (C * D)%nat /\ length (snd p) = (C * D)%nat /\ Forall (fun n => 0 <= n) (fst p))
         (sessions_NG D u F classes ys).
Proof.
  pose proof (sess_list_ok C D classes ys Hcl) as Hsl. rewrite Forall_forall in Hsl.
  rewrite sessions_NG_list, Forall_map. apply Forall_forall. intros sy Hsy. apply (sess_NG_ok _ _ (Hsl sy Hsy)).
Qed.
End U1.

(* the code's iteration (jfa_iter_u: x from y with z absent, accumulators with z = 0, then m_step with the external inverse
   used only on 1x1 matrices) IS the exact EM step on the column U *)
Theorem jfa_iter_u_rank1 (inv : list (list R) -> list (list R)) (C D rV : nat) (u : ubm) (F : fa)
    (classes : list (list gstat)) (ys : list (option (list R))) :
  inv1_ok inv -> ubm_ok C D u -> fa_ok C D 1 rV F -> Forall (Forall (gstat_ok C D)) classes ->
  length ys = length classes -> Forall (yopt_ok rV) ys ->
  Forall (fun A1c => nth 0 (nth 0 A1c []) 0 <> 0) (fst (acc_u_jfa inv D u F classes ys)) ->
  vcol (fU (jfa_iter_u inv 1 D u classes ys F)) = em_v_step (vcol (fU F)) (vsuper u) (sessions_NG D u F classes ys).
Proof.
  intros Hinv Hu HF Hcl Hly Hys Hne.
  rewrite (acc_u_rank1 inv C D rV u F Hinv Hu HF classes ys Hcl) in Hne. cbn [fst] in Hne.
  rewrite Forall_map, Forall_forall in Hne.
  assert (Hne' : forall c, (c < C)%nat -> a1u D u F classes ys c <> 0).
  { intros c Hc. apply (Hne c). apply in_seq. lia. }
  unfold jfa_iter_u.
  change (acc_u inv 1 D u F classes ys (map (fun _ => @None (list InstR.T)) classes)
                (map (fun _ => Some (V.vzero (length (msuper u)))) classes))
    with (acc_u_jfa inv D u F classes ys).
  rewrite (acc_u_rank1 inv C D rV u F Hinv Hu HF classes ys Hcl). cbn [set_U fU].
  rewrite (JFARank1.v1_HC C D u Hu).
  destruct (mstep_w_rank1 inv C D (a1u D u F classes ys) (a2u D u F classes ys) Hinv Hne') as [LL EE].
  apply (list_ext_R _ _ (C * D)).
  - exact LL.
  - rewrite em_v_step_form, map_length, seq_length. apply (len_uu C D rV F HF).
  - intros j Hj. destruct (JFARank1.split_index C D j Hj) as (c & d & Hc & Hd & ->).
    rewrite (EE c d Hc Hd). rewrite em_v_step_form, (len_uu C D rV F HF).
    rewrite (nth_map_seq _ (C * D) (c * D + d) 0 Hj).
    rewrite (Aj_a2u D u F classes ys), (Bj_a1u C D u F classes ys Hcl c d Hc Hd). reflexivity.
Qed.

Theorem phase_u_monotone_rank1 (inv : list (list R) -> list (list R)) (C D rV : nat) (u : ubm) (F : fa)
    (classes : list (list gstat)) (ys : list (option (list R))) :
  inv1_ok inv -> ubm_ok C D u -> fa_ok C D 1 rV F -> Forall (Forall (gstat_ok C D)) classes ->
  length ys = length classes -> Forall (yopt_ok rV) ys ->
  Forall (fun A1c => 0 < nth 0 (nth 0 A1c []) 0) (fst (acc_u_jfa inv D u F classes ys)) ->
  let F' := jfa_iter_u inv 1 D u classes ys F in
  fV F' = fV F /\ fD F' = fD F
  /\ marginal_u D u F (fU F) classes ys <= marginal_u D u F (fU F') classes ys.
Proof.
  intros Hinv Hu HF Hcl Hly Hys Hpos F'.
  assert (Hne : Forall (fun A1c => nth 0 (nth 0 A1c []) 0 <> 0) (fst (acc_u_jfa inv D u F classes ys))).
  { eapply Forall_impl; [|exact Hpos]. intros a Ha. cbv beta in *. lra. }
  split; [|split].
  - subst F'. unfold jfa_iter_u. destruct (acc_u _ _ _ _ _ _ _ _ _) as [A1 A2]. reflexivity.
  - subst F'. unfold jfa_iter_u. destruct (acc_u _ _ _ _ _ _ _ _ _) as [A1 A2]. reflexivity.
  - unfold marginal_u. subst F'. rewrite (jfa_iter_u_rank1 inv C D rV u F classes ys Hinv Hu HF Hcl Hly Hys Hne).
    rewrite (acc_u_rank1 inv C D rV u F Hinv Hu HF classes ys Hcl) in Hpos. cbn [fst] in Hpos.
    rewrite Forall_map, Forall_forall in Hpos.
    assert (Hpos' : forall c, (c < C)%nat -> 0 < a1u D u F classes ys c).
    { intros c Hc. apply (Hpos c). apply in_seq. lia. }
    apply (rank1_core_monotone (C * D)).
    + apply (len_uu C D rV F HF).
    + apply (len_vsuper C D u Hu).
    + apply (JFARank1.vsuper_pos C D u Hu).
    + apply (sessions_NG_ok C D rV u F Hu HF classes ys Hcl).
    + intros j Hj. rewrite den_form. destruct (JFARank1.split_index C D j Hj) as (c & d & Hc & Hd & ->).
      rewrite (Bj_a1u C D u F classes ys Hcl c d Hc Hd). apply Hpos'. exact Hc.
Qed.
