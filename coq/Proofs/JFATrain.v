(* C09: the D phase of JFA training is exact EM: one E/M iteration never decreases the marginal
   likelihood of the training statistics under that phase's (diagonal, scalar-per-coordinate) factor
   analysis model. *)
From Coq Require Import Reals Lra List Lia Bool Arith.
From BLE Require Import Num.Scalar Num.InstR Lib.Vec Model.FA Proofs.RLemmas Proofs.FAEnroll.
Import ListNotations.
Open Scope R_scope.
Import FR.

(* D phase.  The speaker and channel factors are point estimates held fixed: for class i (statistics Xi,
   channel factors xs_i, speaker factor y_i), flat coordinate j:
     N_ij = sum_h n_ihj,   G_ij = F_ij - N_ij (m + V y_i)_j - sum_h n_ihj (U x_ih)_j   ( = fn_z )
   residual offset D_j z_ij with z_ij ~ N(0,1).  Integrating z out (completing the square),
     log marginal_i(D) = sum_j [ b_ij^2 / (2 P_ij) - 1/2 ln P_ij ] + const,
     P_ij = 1 + D_j^2 N_ij / s_j ,  b_ij = D_j G_ij / s_j. *)
Definition d_cell (dj sj nij gij : R) : R :=
  let P := 1 + dj * dj * nij / sj in let b := dj * gij / sj in b * b / (2 * P) - / 2 * ln P.
Definition class_marginal_d (D : nat) (u : ubm) (F : fa) (Dvec : list R) (Xi : list gstat) (xs : list (list R)) (y : option (list R)) : R :=
  let C := length (u_mu u) in
  let nacc := sum_n C Xi in let facc := sum_f C D Xi in
  rsum (V.map3 (fun d_s n g => d_cell (fst d_s) (snd d_s) n g)
               (combine Dvec (vsuper u)) (rep D nacc) (fn_z D u F Xi xs y nacc facc)).
Definition marginal_d (D : nat) (u : ubm) (F : fa) (Dvec : list R)
           (classes : list (list gstat)) (xss : list (list (list R))) (ys : list (option (list R))) : R :=
  rsum (V.map3 (fun Xi xs y => class_marginal_d D u F Dvec Xi xs y) classes xss ys).

(* the scalar core (one coordinate, any number of classes): EM for  o = d z + noise
   E-step at d:  zbar_i = (d/s) g_i / P_i ,  v_i = 1 / P_i ,  P_i = 1 + d^2 n_i / s
   M-step:       d' = sum_i g_i zbar_i / sum_i n_i (v_i + zbar_i^2)                       *)
Definition em_d_scalar (d s : R) (ng : list (R * R)) : R :=
  let P := fun n => 1 + d * d * n / s in
  rsum (map (fun p => snd p * ((d / s) * snd p / P (fst p))) ng)
  / rsum (map (fun p => fst p * (/ P (fst p) + ((d / s) * snd p / P (fst p)) * ((d / s) * snd p / P (fst p)))) ng).
(* ---- scalar factor analysis: ELBO <= marginal, tight at the posterior (PROBES FA1.v) *)
Definition marg (L b : R) : R := b * b / (2 * L) - / 2 * ln L.
Definition elbo (L' b' ybar s : R) : R := - / 2 * L' * (s + ybar * ybar) + b' * ybar + / 2 * ln s + / 2.
Lemma elbo_le_marg L' b' ybar s : 0 < L' -> 0 < s -> elbo L' b' ybar s <= marg L' b'.
Proof.
  intros HL Hs. unfold elbo, marg.
  assert (Hu : 0 < L' * s) by (apply Rmult_lt_0_compat; lra).
  pose proof (ln_le_sub1 _ Hu) as K. rewrite ln_mult in K by lra.
  assert (Sq : 0 <= L' / 2 * ((ybar - b' / L') * (ybar - b' / L'))).
  { apply Rmult_le_pos. lra. pose proof (Rle_0_sqr (ybar - b'/L')). unfold Rsqr in *; lra. }
  replace (L' / 2 * ((ybar - b' / L') * (ybar - b' / L'))) with (b' * b' / (2 * L') - b' * ybar + / 2 * L' * (ybar * ybar)) in Sq by (field; lra).
  lra.
Qed.
Lemma elbo_tight L b : 0 < L -> elbo L b (b / L) (/ L) = marg L b.
Proof. intros HL. unfold elbo, marg. rewrite ln_Rinv by lra. field. lra. Qed.
Lemma d_cell_marg d s n g : d_cell d s n g = marg (1 + d * d * n / s) (d * g / s).
Proof. reflexivity. Qed.
Lemma P_pos d s n : 0 < s -> 0 <= n -> 0 < 1 + d * d * n / s.
Proof.
  intros Hs Hn. assert (0 <= d * d * n / s).
  { apply Rmult_le_pos. apply Rmult_le_pos. nra. exact Hn. left. now apply Rinv_0_lt_compat. }
  lra.
Qed.
(* the class ELBO at d', posterior taken at d *)
Definition elbo_d (d s d' : R) (p : R * R) : R :=
  elbo (1 + d' * d' * fst p / s) (d' * snd p / s) ((d / s) * snd p / (1 + d * d * fst p / s)) (/ (1 + d * d * fst p / s)).
Lemma elbo_d_sum d s d' ng : s <> 0 ->
  rsum (map (elbo_d d s d') ng)
  = rsum (map (fun p => - / 2 * (/ (1 + d * d * fst p / s) + ((d / s) * snd p / (1 + d * d * fst p / s)) * ((d / s) * snd p / (1 + d * d * fst p / s)))
                        + / 2 * ln (/ (1 + d * d * fst p / s)) + / 2) ng)
    + d' * rsum (map (fun p => snd p * ((d / s) * snd p / (1 + d * d * fst p / s))) ng) / s
    - / 2 * (d' * d') * rsum (map (fun p => fst p * (/ (1 + d * d * fst p / s) + ((d / s) * snd p / (1 + d * d * fst p / s)) * ((d / s) * snd p / (1 + d * d * fst p / s)))) ng) / s.
Proof.
  intros Hs. induction ng as [|p ng IH]; cbn [map rsum].
  - unfold Rdiv. ring.
  - rewrite IH. unfold elbo_d, elbo.
    set (zb := d / s * snd p / (1 + d * d * fst p / s)). set (v := / (1 + d * d * fst p / s)).
    set (lv := ln v). unfold Rdiv. ring.
Qed.

Theorem scalar_d_monotone (d s : R) (ng : list (R * R)) :
  0 < s -> Forall (fun p => 0 <= fst p) ng ->
  0 < rsum (map (fun p => fst p * (/ (1 + d * d * fst p / s) + ((d / s) * snd p / (1 + d * d * fst p / s)) * ((d / s) * snd p / (1 + d * d * fst p / s)))) ng) ->
  rsum (map (fun p => d_cell d s (fst p) (snd p)) ng)
  <= rsum (map (fun p => d_cell (em_d_scalar d s ng) s (fst p) (snd p)) ng).
Proof.
  intros Hs Hn HB. rewrite Forall_forall in Hn.
  set (ds := em_d_scalar d s ng).
  apply Rle_trans with (rsum (map (elbo_d d s d) ng)); [|apply Rle_trans with (rsum (map (elbo_d d s ds) ng))].
  - right. apply rsum_map_ext. intros p Hp. rewrite d_cell_marg. unfold elbo_d.
    pose proof (P_pos d s (fst p) Hs (Hn p Hp)) as HP.
    rewrite <- (elbo_tight _ _ HP). f_equal. unfold Rdiv. ring.
  - rewrite !elbo_d_sum by lra.
    set (K := rsum (map (fun p => - / 2 * (/ (1 + d * d * fst p / s) + ((d / s) * snd p / (1 + d * d * fst p / s)) * ((d / s) * snd p / (1 + d * d * fst p / s)))
                        + / 2 * ln (/ (1 + d * d * fst p / s)) + / 2) ng)).
    assert (Eds : ds = rsum (map (fun p => snd p * ((d / s) * snd p / (1 + d * d * fst p / s))) ng)
                       / rsum (map (fun p => fst p * (/ (1 + d * d * fst p / s) + ((d / s) * snd p / (1 + d * d * fst p / s)) * ((d / s) * snd p / (1 + d * d * fst p / s)))) ng)) by reflexivity.
    set (A := rsum (map (fun p => snd p * ((d / s) * snd p / (1 + d * d * fst p / s))) ng)) in *.
    set (B := rsum (map (fun p => fst p * (/ (1 + d * d * fst p / s) + ((d / s) * snd p / (1 + d * d * fst p / s)) * ((d / s) * snd p / (1 + d * d * fst p / s)))) ng)) in *.
    assert (EA : A = ds * B) by (rewrite Eds; field; lra).
    rewrite EA.
    assert (0 <= B / (2 * s) * ((ds - d) * (ds - d))).
    { apply Rmult_le_pos. apply Rmult_le_pos. lra. left. apply Rinv_0_lt_compat. lra. apply Rle_0_sqr. }
    replace (B / (2 * s) * ((ds - d) * (ds - d)))
      with ((K + ds * (ds * B) / s - / 2 * (ds * ds) * B / s) - (K + d * (ds * B) / s - / 2 * (d * d) * B / s)) in H by (field; lra).
    lra.
  - apply rsum_le. intros p Hp. rewrite d_cell_marg. unfold elbo_d.
    apply elbo_le_marg. apply P_pos; auto. apply Rinv_0_lt_compat. apply P_pos; auto.
Qed.

(* what the code's D-phase iteration computes, coordinate by coordinate, is em_d_scalar *)
Definition shapes_ok (C D rU rV : nat) (u : ubm) (F : fa) (classes : list (list gstat)) (xss : list (list (list R))) (ys : list (option (list R))) :=
  ubm_ok C D u /\ fa_ok C D rU rV F /\ Forall (Forall (gstat_ok C D)) classes
  /\ length xss = length classes /\ length ys = length classes
  /\ Forall2 (fun Xi xs => length xs = length Xi /\ Forall (fun x => length x = rU) xs) classes xss
  /\ Forall (yopt_ok rV) ys.

(* the full theorem: one D-phase EM iteration (jfa_iter_d) never lowers the phase marginal, for any
   numbers of components, features, classes and sessions; the other subspaces and the point estimates
   xss, ys are held fixed.  A1_j > 0 says coordinate j is observed by at least one class. *)
(* ---- index form of the D-phase accumulators and of the phase marginal *)
Lemma fold_vadd_gen {A} (f : A -> list R) (l : list A) n :
  (forall p, In p l -> length (f p) = n) ->
  length (fold_right (fun p acc => V.vadd (f p) acc) (V.vzero n) l) = n /\
  forall j, (j < n)%nat ->
    nth j (fold_right (fun p acc => V.vadd (f p) acc) (V.vzero n) l) 0 = rsum (map (fun p => nth j (f p) 0) l).
Proof.
  induction l as [|p l IH]; intros H; cbn [fold_right map rsum].
  - split. apply len_vzero. intros; apply nth_vzero.
  - destruct IH as [IH1 IH2]. { intros q Hq. apply H. now right. }
    assert (Lp : length (f p) = n) by (apply H; now left).
    split. apply len_vadd; assumption.
    intros j Hj. rewrite (nth_vadd _ _ j n) by assumption. rewrite IH2 by exact Hj. reflexivity.
Qed.

Section Phase.
Variables (C D rU rV : nat) (u : ubm) (F : fa).
Variables (classes : list (list gstat)) (xss : list (list (list R))) (ys : list (option (list R))).
Hypothesis Hsh : shapes_ok C D rU rV u F classes xss ys.

Definition clsX (i : nat) : list gstat := nth i classes [].
Definition clsx (i : nat) : list (list R) := nth i xss [].
Definition clsy (i : nat) : option (list R) := nth i ys None.
Definition Nij (i j : nat) : R := nth j (rep D (sum_n C (clsX i))) 0.
Definition Gij (i j : nat) : R := nth j (fn_z D u F (clsX i) (clsx i) (clsy i) (sum_n C (clsX i)) (sum_f C D (clsX i))) 0.
Definition Pij (i j : nat) : R := 1 + Dj F j / sj u j * Dj F j * Nij i j.
Definition Zij (i j : nat) : R := 1 / Pij i j * (Dj F j / sj u j) * Gij i j.

Lemma ph_Hu : ubm_ok C D u. Proof. destruct Hsh as (H & _). exact H. Qed.
Lemma ph_HF : fa_ok C D rU rV F. Proof. destruct Hsh as (_ & H & _). exact H. Qed.
Lemma ph_HC : length (u_mu u) = C. Proof. destruct ph_Hu as (H & _). exact H. Qed.
Lemma ph_lx : length xss = length classes. Proof. destruct Hsh as (_ & _ & _ & H & _). exact H. Qed.
Lemma ph_ly : length ys = length classes. Proof. destruct Hsh as (_ & _ & _ & _ & H & _). exact H. Qed.
Lemma clsX_ok i : (i < length classes)%nat -> Forall (gstat_ok C D) (clsX i).
Proof.
  intros Hi. destruct Hsh as (_ & _ & H & _). unfold clsX.
  apply (Forall_nth_lt (Forall (gstat_ok C D)) classes i [] H Hi).
Qed.
Lemma Nij_Nj i j : (i < length classes)%nat -> (j < C * D)%nat -> Nij i j = Nj D (clsX i) j.
Proof. intros Hi Hj. unfold Nij. rewrite (nth_rep_sum_n C D _ (clsX_ok i Hi) j Hj). reflexivity. Qed.
Lemma Nij_nonneg i j : (i < length classes)%nat -> (j < C * D)%nat -> 0 <= Nij i j.
Proof. intros Hi Hj. rewrite Nij_Nj by assumption. apply (Nj_nonneg C D). now apply clsX_ok. Qed.
Lemma Pij_pos i j : (i < length classes)%nat -> (j < C * D)%nat -> 0 < Pij i j.
Proof.
  intros Hi Hj. pose proof (Nij_nonneg i j Hi Hj). pose proof (sj_pos C D u ph_Hu j Hj).
  pose proof (P_pos (Dj F j) (sj u j) (Nij i j) H0 H) as HP. unfold Pij.
  replace (1 + Dj F j / sj u j * Dj F j * Nij i j) with (1 + Dj F j * Dj F j * Nij i j / sj u j) by (field; lra). exact HP.
Qed.

Lemma len_Zv i : (i < length classes)%nat ->
  length (update_z_class D u F (clsX i) (clsx i) (clsy i) (sum_n C (clsX i)) (sum_f C D (clsX i))) = (C * D)%nat.
Proof. intros Hi. apply (len_update_z C D rU rV u F _ ph_Hu ph_HF (clsX_ok i Hi)). Qed.
Lemma nth_Zv i j : (i < length classes)%nat -> (j < C * D)%nat ->
  nth j (update_z_class D u F (clsX i) (clsx i) (clsy i) (sum_n C (clsX i)) (sum_f C D (clsX i))) 0 = Zij i j.
Proof.
  intros Hi Hj. unfold update_z_class.
  pose proof (len_fn_z C D rU rV u F _ ph_Hu ph_HF (clsX_ok i Hi) (clsx i) (clsy i)) as L1.
  pose proof (len_id_plus_d_inv C D rU rV u F _ ph_Hu ph_HF (clsX_ok i Hi)) as L2.
  pose proof (len_fD C D rU rV F ph_HF) as L3. pose proof (len_vsuper C D u ph_Hu) as L4.
  rewrite (nth_vmul _ _ j (C * D)); [|apply len_vmul; [exact L2|apply len_vdiv; assumption]|exact L1|exact Hj].
  rewrite (nth_vmul _ _ j (C * D)); [|exact L2|apply len_vdiv; assumption|exact Hj].
  rewrite (nth_vdiv _ _ j (C * D)) by assumption.
  rewrite (nth_id_plus_d_inv C D rU rV u F _ ph_Hu ph_HF (clsX_ok i Hi) j Hj).
  unfold Zij, Pij. rewrite Nij_Nj by assumption. reflexivity.
Qed.

Lemma acc_d_index :
  length (fst (acc_d rU D u F classes xss ys)) = (C * D)%nat /\
  length (snd (acc_d rU D u F classes xss ys)) = (C * D)%nat /\
  forall j, (j < C * D)%nat ->
    nth j (fst (acc_d rU D u F classes xss ys)) 0
      = rsum (map (fun i => (1 / Pij i j + Zij i j * Zij i j) * Nij i j) (seq 0 (length classes)))
    /\ nth j (snd (acc_d rU D u F classes xss ys)) 0
      = rsum (map (fun i => Gij i j * Zij i j) (seq 0 (length classes))).
Proof.
  unfold acc_d. rewrite ph_HC. cbn [fst snd].
  rewrite (map3_seq _ classes xss ys (length classes) [] [] None eq_refl ph_lx ph_ly).
  fold clsX. fold clsx. fold clsy. cbv zeta.
  set (g := fun i : nat => (_, _)).
  assert (Lg : forall p, In p (map g (seq 0 (length classes))) -> length (fst p) = (C * D)%nat /\ length (snd p) = (C * D)%nat).
  { intros p Hp. apply in_map_iff in Hp. destruct Hp as (i & <- & Hi). apply in_seq in Hi. subst g. cbn [fst snd].
    pose proof (len_fn_z C D rU rV u F _ ph_Hu ph_HF (clsX_ok i ltac:(lia)) (clsx i) (clsy i)) as L1.
    pose proof (len_id_plus_d_inv C D rU rV u F _ ph_Hu ph_HF (clsX_ok i ltac:(lia))) as L2.
    pose proof (len_Zv i ltac:(lia)) as L3.
    pose proof (len_rep_sum_n C D _ (clsX_ok i ltac:(lia))) as L4.
    split. apply len_vmul; [apply len_vadd; [exact L2|apply len_vmul; exact L3]|exact L4].
    apply len_vmul; assumption. }
  destruct (fold_vadd_gen fst (map g (seq 0 (length classes))) (C * D) (fun p Hp => proj1 (Lg p Hp))) as [F1 F2].
  destruct (fold_vadd_gen snd (map g (seq 0 (length classes))) (C * D) (fun p Hp => proj2 (Lg p Hp))) as [S1 S2].
  unfold InstR.T in *. split; [exact F1|split; [exact S1|]].
  intros j Hj. rewrite (F2 j Hj), (S2 j Hj), !map_map. split.
  - apply rsum_map_ext. intros i Hi. apply in_seq in Hi. subst g. cbn [fst]. fold (clsX i); fold (clsx i); fold (clsy i).
    pose proof (len_id_plus_d_inv C D rU rV u F _ ph_Hu ph_HF (clsX_ok i ltac:(lia))) as L2.
    pose proof (len_Zv i ltac:(lia)) as L3.
    pose proof (len_rep_sum_n C D _ (clsX_ok i ltac:(lia))) as L4.
    rewrite (nth_vmul _ _ j (C * D)); [|apply len_vadd; [exact L2|apply len_vmul; exact L3]|exact L4|exact Hj].
    rewrite (nth_vadd _ _ j (C * D)); [|exact L2|apply len_vmul; exact L3|exact Hj].
    rewrite (nth_vmul _ _ j (C * D)) by assumption.
    rewrite (nth_id_plus_d_inv C D rU rV u F _ ph_Hu ph_HF (clsX_ok i ltac:(lia)) j Hj).
    rewrite nth_Zv by (auto; lia). unfold Pij. fold (Nij i j). rewrite (Nij_Nj i j) by (auto; lia). reflexivity.
  - apply rsum_map_ext. intros i Hi. apply in_seq in Hi. subst g. cbn [snd]. fold (clsX i); fold (clsx i); fold (clsy i).
    pose proof (len_fn_z C D rU rV u F _ ph_Hu ph_HF (clsX_ok i ltac:(lia)) (clsx i) (clsy i)) as L1.
    pose proof (len_Zv i ltac:(lia)) as L3.
    rewrite (nth_vmul _ _ j (C * D)) by assumption.
    rewrite nth_Zv by (auto; lia). reflexivity.
Qed.

(* the list of per-class statistics seen by flat coordinate j *)
Definition ng_of (j : nat) : list (R * R) := map (fun i => (Nij i j, Gij i j)) (seq 0 (length classes)).

(* the coordinate characterisation: the code's new D_j is the scalar EM update *)
Lemma iter_d_coord j : (j < C * D)%nat ->
  nth j (fD (jfa_iter_d rU D u classes xss ys F)) 0 = em_d_scalar (Dj F j) (sj u j) (ng_of j).
Proof.
  intros Hj. destruct acc_d_index as (L1 & L2 & E).
  unfold jfa_iter_d. destruct (acc_d rU D u F classes xss ys) as [A1 A2]. cbn [fst snd set_D fD] in *.
  rewrite (nth_vdiv _ _ j (C * D)) by assumption. destruct (E j Hj) as [E1 E2]. unfold InstR.T in *. rewrite E1, E2.
  unfold em_d_scalar, ng_of. rewrite !map_map. cbn [fst snd].
  pose proof (sj_pos C D u ph_Hu j Hj) as Hs.
  f_equal.
  - apply rsum_map_ext. intros i Hi. apply in_seq in Hi. pose proof (Pij_pos i j ltac:(lia) Hj) as HP.
    unfold Zij. unfold Pij in *.
    replace (1 + Dj F j * Dj F j * Nij i j / sj u j) with (1 + Dj F j / sj u j * Dj F j * Nij i j) by (field; lra).
    set (P := 1 + Dj F j / sj u j * Dj F j * Nij i j) in *. field. split; lra.
  - apply rsum_map_ext. intros i Hi. apply in_seq in Hi. pose proof (Pij_pos i j ltac:(lia) Hj) as HP.
    unfold Zij. unfold Pij in *.
    replace (1 + Dj F j * Dj F j * Nij i j / sj u j) with (1 + Dj F j / sj u j * Dj F j * Nij i j) by (field; lra).
    set (P := 1 + Dj F j / sj u j * Dj F j * Nij i j) in *. field. split; lra.
Qed.

Lemma marginal_d_index (Dvec : list R) : length Dvec = (C * D)%nat ->
  marginal_d D u F Dvec classes xss ys
  = rsum (map (fun i => rsum (map (fun j => d_cell (nth j Dvec 0) (sj u j) (Nij i j) (Gij i j)) (seq 0 (C * D)))) (seq 0 (length classes))).
Proof.
  intros HD. unfold marginal_d.
  rewrite (map3_seq _ classes xss ys (length classes) [] [] None eq_refl ph_lx ph_ly).
  f_equal. apply map_ext_in. intros i Hi. apply in_seq in Hi.
  fold (clsX i). fold (clsx i). fold (clsy i).
  unfold class_marginal_d. rewrite ph_HC. cbv zeta.
  pose proof (len_fn_z C D rU rV u F _ ph_Hu ph_HF (clsX_ok i ltac:(lia)) (clsx i) (clsy i)) as L1.
  pose proof (len_rep_sum_n C D _ (clsX_ok i ltac:(lia))) as L4.
  pose proof (len_vsuper C D u ph_Hu) as L5.
  rewrite (map3_seq _ _ _ _ (C * D) (0, 0) 0 0); [| |exact L4|exact L1].
  2:{ rewrite combine_length. unfold InstR.T in *. rewrite HD, L5. apply Nat.min_id. }
  f_equal. apply map_ext_in. intros j Hj. apply in_seq in Hj.
  rewrite combine_nth by (unfold InstR.T in *; lia). cbn [fst snd]. reflexivity.
Qed.
Lemma den_index j : (j < C * D)%nat ->
  rsum (map (fun i => (1 / Pij i j + Zij i j * Zij i j) * Nij i j) (seq 0 (length classes)))
  = rsum (map (fun p => fst p * (/ (1 + Dj F j * Dj F j * fst p / sj u j)
                                 + ((Dj F j / sj u j) * snd p / (1 + Dj F j * Dj F j * fst p / sj u j))
                                   * ((Dj F j / sj u j) * snd p / (1 + Dj F j * Dj F j * fst p / sj u j)))) (ng_of j)).
Proof.
  intros Hj. unfold ng_of. rewrite map_map. cbn [fst snd]. pose proof (sj_pos C D u ph_Hu j Hj) as Hs.
  apply rsum_map_ext. intros i Hi. apply in_seq in Hi. pose proof (Pij_pos i j ltac:(lia) Hj) as HP.
  unfold Zij. unfold Pij in *.
  replace (1 + Dj F j * Dj F j * Nij i j / sj u j) with (1 + Dj F j / sj u j * Dj F j * Nij i j) by (field; lra).
  set (P := 1 + Dj F j / sj u j * Dj F j * Nij i j) in *. field. split; lra.
Qed.
Lemma ng_of_nonneg j : (j < C * D)%nat -> Forall (fun p => 0 <= fst p) (ng_of j).
Proof.
  intros Hj. unfold ng_of. rewrite Forall_map. apply Forall_forall. intros i Hi. apply in_seq in Hi. cbn [fst].
  apply Nij_nonneg. lia. exact Hj.
Qed.
Lemma ng_of_sum (dd s : R) j :
  rsum (map (fun p => d_cell dd s (fst p) (snd p)) (ng_of j))
  = rsum (map (fun i => d_cell dd s (Nij i j) (Gij i j)) (seq 0 (length classes))).
Proof. unfold ng_of. rewrite map_map. reflexivity. Qed.
End Phase.


Theorem phase_d_monotone (C D rU rV : nat) (u : ubm) (F : fa)
        (classes : list (list gstat)) (xss : list (list (list R))) (ys : list (option (list R))) :
  shapes_ok C D rU rV u F classes xss ys ->
  Forall (fun a1 => 0 < a1) (fst (acc_d rU D u F classes xss ys)) ->
  let F' := jfa_iter_d rU D u classes xss ys F in
  fU F' = fU F /\ fV F' = fV F /\ length (fD F') = (C * D)%nat
  /\ marginal_d D u F (fD F) classes xss ys <= marginal_d D u F (fD F') classes xss ys.
Proof.
  intros Hsh Hpos F'.
  destruct (acc_d_index C D rU rV u F classes xss ys Hsh) as (L1 & L2 & E).
  assert (EF' : F' = set_D F (V.vdiv (snd (acc_d rU D u F classes xss ys)) (fst (acc_d rU D u F classes xss ys)))).
  { subst F'. unfold jfa_iter_d. destruct (acc_d rU D u F classes xss ys) as [A1 A2]. reflexivity. }
  assert (LF' : length (fD F') = (C * D)%nat).
  { rewrite EF'. cbn [set_D fD]. apply len_vdiv; assumption. }
  split; [|split; [|split]].
  - rewrite EF'. reflexivity.
  - rewrite EF'. reflexivity.
  - exact LF'.
  - rewrite (marginal_d_index C D rU rV u F classes xss ys Hsh (fD F) (len_fD C D rU rV F (ph_HF C D rU rV u F classes xss ys Hsh))).
    rewrite (marginal_d_index C D rU rV u F classes xss ys Hsh (fD F') LF').
    rewrite (rsum_swap (fun i j => d_cell (nth j (fD F) 0) (sj u j) (Nij C D classes i j) (Gij C D u F classes xss ys i j))).
    rewrite (rsum_swap (fun i j => d_cell (nth j (fD F') 0) (sj u j) (Nij C D classes i j) (Gij C D u F classes xss ys i j))).
    apply rsum_le. intros j Hj. apply in_seq in Hj. assert (Hj' : (j < C * D)%nat) by lia.
    subst F'. rewrite (iter_d_coord C D rU rV u F classes xss ys Hsh j Hj').
    pose proof (sj_pos C D u (ph_Hu C D rU rV u F classes xss ys Hsh) j Hj') as Hs.
    assert (Hden : 0 < nth j (fst (acc_d rU D u F classes xss ys)) 0).
    { apply (Forall_nth_lt (fun a1 => 0 < a1)). exact Hpos. unfold InstR.T in *. lia. }
    destruct (E j Hj') as [E1 _]. unfold InstR.T in *. rewrite E1 in Hden.
    rewrite (den_index C D rU rV u F classes xss ys Hsh j Hj') in Hden.
    pose proof (scalar_d_monotone (Dj F j) (sj u j) (ng_of C D u F classes xss ys j) Hs
                  (ng_of_nonneg C D rU rV u F classes xss ys Hsh j Hj') Hden) as M.
    rewrite !ng_of_sum in M. exact M.
Qed.

Print Assumptions scalar_d_monotone.
Print Assumptions phase_d_monotone.
