(* C06 (loop): the k-means loop performs exactly k* = min(cap, first k >= 2 whose relative change of the
   criterion is at or below the threshold) iterations and returns the k*-times iterated centroids.
   (Same proof as Proofs/GMMFit.v: the two loops have the same shape.) *)
From Coq Require Import Reals Lra List Lia Bool Arith.
From BLE Require Import Num.Scalar Num.InstR Lib.Vec Model.KMeans Proofs.RLemmas Proofs.KMeansR.
Import ListNotations.
Open Scope R_scope.
Import KR.

Section Fit.
Variables (cthr : option R) (nf : nat) (chunks : list (list (list R))).

(* k EM iterations; reported average log-likelihoods most recent first.  The value reported by
   iteration j is the average log-likelihood of the parameters ENTERING iteration j. *)
Fixpoint iterate (k : nat) (mc : list (list R)) : option (list (list R) * list R) :=
  match k with
  | O => Some (mc, [])
  | S k' => match em_iter nf chunks mc with
            | None => None
            | Some (mc1, cur) => match iterate k' mc1 with
                                 | None => None
                                 | Some (mc2, h) => Some (mc2, h ++ [cur])
                                 end
            end
  end.

(* the stopping test, as a function of the reported history only (most recent first) *)
Definition rel_change (prev cur : R) : R := Rabs ((prev - cur) / prev).
Definition stops (h : list R) : bool :=
  match h, cthr with
  | cur :: prev :: _, Some th => InstR.leb (V.fabs (InstR.div (InstR.sub prev cur) prev)) th
  | _, _ => false
  end.

Lemma fabs_Rabs x : V.fabs x = Rabs x.
Proof.
  unfold V.fabs. destruct (InstR.ltb x InstR.zero) eqn:E; unfold_R.
  - apply ltb_true in E. rewrite Rabs_left; auto.
  - apply ltb_false in E. rewrite Rabs_right; auto. lra.
Qed.
Lemma stops_spec cur prev rest th : cthr = Some th ->
  (stops (cur :: prev :: rest) = true <-> rel_change prev cur <= th).
Proof. intros E. unfold stops. rewrite E, fabs_Rabs. unfold rel_change. unfold_R. apply leb_true. Qed.

(* invariant tying the loop's redundant state (step, prev) to the history *)
Definition loop_inv (step : nat) (prev : R) (hist : list R) := step = length hist /\ prev = hd 0 hist.

Lemma fit_loop_spec cap : forall step prev mc hist mc' n hist',
  loop_inv step prev hist ->
  fit_loop cap step prev cthr nf chunks mc hist = Some (mc', n, hist') ->
  exists j new,
    (j <= cap)%nat /\ n = (step + j)%nat /\ iterate j mc = Some (mc', new) /\ hist' = new ++ hist /\ length new = j
    /\ ((j < cap)%nat -> stops hist' = true)
    /\ (forall i, (0 < i < j)%nat -> stops (skipn (j - i) hist') = false).
Proof.
  induction cap as [|cap IH]; intros step prev mc hist mc' n hist' [Hs Hp] H; cbn [fit_loop] in H.
  - inversion H; subst. exists 0%nat, []. repeat split; simpl; auto; try lia.
  - destruct (em_iter nf chunks mc) as [[mc1 cur]|] eqn:E; [|discriminate].
    cbv zeta in H.
    match type of H with (if ?c then _ else _) = _ => assert (Hstop : c = stops (cur :: hist)) end.
    { unfold stops. destruct hist as [|p rest]; simpl in Hs, Hp; subst.
      - simpl. reflexivity.
      - replace (Nat.ltb 1 (S (S (length rest)))) with true by (symmetry; apply Nat.ltb_lt; lia). reflexivity. }
    rewrite Hstop in H. clear Hstop. destruct (stops (cur :: hist)) eqn:Est.
    + inversion H; subst. exists 1%nat, [cur]. cbn [iterate]. rewrite E. cbn [iterate app].
      split; [lia|]. split; [lia|]. split; [reflexivity|]. split; [reflexivity|]. split; [reflexivity|]. split.
      * intros _. simpl. exact Est.
      * intros i Hi; lia.
    + assert (Hinv : loop_inv (S step) cur (cur :: hist)) by (split; simpl; congruence).
      destruct (IH _ _ _ _ _ _ _ Hinv H) as (j & new & Hj & Hn & Hit & Hh & Hl & Hlast & Hbefore).
      exists (S j), (new ++ [cur]). cbn [iterate]. rewrite E, Hit.
      repeat split; try lia.
      * subst hist'. now rewrite <- app_assoc.
      * rewrite app_length; simpl; lia.
      * intros Hlt. apply Hlast. lia.
      * intros i Hi. destruct (Nat.eq_dec i 1) as [->|Hne].
        -- replace (S j - 1)%nat with j by lia. subst hist'. rewrite skipn_app, Hl, Nat.sub_diag.
           rewrite skipn_all2 by lia. simpl. exact Est.
        -- replace (S j - i)%nat with (j - (i - 1))%nat by lia. apply Hbefore. lia.
Qed.

(* the public statement about fit *)
Theorem fit_iterations cap mc mc' n hist :
  fit cap cthr nf chunks mc = Some (mc', n, hist) ->
  (n <= cap)%nat /\ iterate n mc = Some (mc', hist) /\ length hist = n
  /\ ((n < cap)%nat -> stops hist = true)                                    (* stopped early => the rule fired at n *)
  /\ (forall i, (0 < i < n)%nat -> stops (skipn (n - i) hist) = false).      (* and at no earlier iteration *)
Proof.
  unfold fit. intros H. destruct (fit_loop_spec cap 0 InstR.zero mc [] mc' n hist) as (j & new & Hj & Hn & Hit & Hh & Hl & Hlast & Hb).
  - split; reflexivity.
  - exact H.
  - rewrite app_nil_r in Hh. subst new. simpl in Hn. subst j. repeat split; auto.
Qed.

(* the rule never fires at the first iteration *)
Lemma stops_first x : stops [x] = false.
Proof. unfold stops. destruct cthr; reflexivity. Qed.

(* without a threshold the loop runs exactly cap iterations *)
Theorem fit_no_threshold cap mc mc' n hist : cthr = None ->
  fit cap cthr nf chunks mc = Some (mc', n, hist) -> n = cap.
Proof.
  intros Hc H. destruct (fit_iterations cap mc mc' n hist H) as (Hle & _ & _ & Hst & _).
  destruct (Nat.eq_dec n cap); auto. assert (n < cap)%nat by lia. specialize (Hst H0).
  unfold stops in Hst. rewrite Hc in Hst. destruct hist as [|? [|? ?]]; discriminate.
Qed.

(* a larger cap does not change a run that stopped by the threshold ("no iteration limit") *)
Theorem fit_cap_irrelevant_after_stop cap : forall cap' step prev mc hist r,
  (cap <= cap')%nat ->
  fit_loop cap step prev cthr nf chunks mc hist = Some r ->
  (let '(_, n, _) := r in (n < step + cap)%nat) ->
  fit_loop cap' step prev cthr nf chunks mc hist = Some r.
Proof.
  induction cap as [|cap IH]; intros cap' step prev mc hist [[mc' n] h'] Hle H Hn; cbn [fit_loop] in H.
  - inversion H; subst. lia.
  - destruct cap' as [|cap']; [lia|]. cbn [fit_loop]. cbv zeta in H |- *.
    destruct (em_iter nf chunks mc) as [[mc1 cur]|]; [|discriminate].
    match type of H with (if ?c then _ else _) = _ => destruct c end.
    + exact H.
    + apply IH with (r := (mc', n, h')); try lia; auto.
Qed.
End Fit.
