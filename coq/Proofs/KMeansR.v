(* C06 / C20 / C04: k-means at R. *)
From Coq Require Import Reals Lra List Lia Bool Arith Permutation.
From BLE Require Import Num.Scalar Num.InstR Lib.Vec Model.KMeans Proofs.RLemmas.
Import ListNotations.
Open Scope R_scope.

Module KR := KMeans InstR.
Import KR.

(* ------------------------------------------------------------------ helpers *)
Lemma Vvsum_eq : @eq (list R -> R) V.vsum rsum.
Proof. reflexivity. Qed.
Ltac vs := rewrite ?Vvsum_eq in *.

Lemma map2_map {A B C D} (f : B -> C -> D) (g : A -> B) (h : A -> C) l :
  V.map2 f (map g l) (map h l) = map (fun a => f (g a) (h a)) l.
Proof. induction l; simpl; auto. now rewrite IHl. Qed.
Lemma map3_map {A B C D E} (f : B -> C -> D -> E) (g : A -> B) (h : A -> C) (i : A -> D) l :
  V.map3 f (map g l) (map h l) (map i l) = map (fun a => f (g a) (h a) (i a)) l.
Proof. induction l; simpl; auto. now rewrite IHl. Qed.
Lemma nth_map_seq {A} (F : nat -> A) K k d : (k < K)%nat -> nth k (map F (seq 0 K)) d = F k.
Proof.
  intros H. rewrite (nth_indep _ d (F 0%nat)) by (rewrite map_length, seq_length; lia).
  rewrite (map_nth F (seq 0 K) 0%nat k). rewrite seq_nth by lia. reflexivity.
Qed.
Lemma list_map_nth {A} (d0 : A) (x : list A) n : length x = n -> x = map (fun d => nth d x d0) (seq 0 n).
Proof.
  revert n; induction x as [|a x IH]; intros [|n] H; simpl in *; try discriminate; auto.
  f_equal. rewrite <- seq_shift, map_map. apply IH. lia.
Qed.
Lemma map2_seq {C} (f : R -> R -> C) a b n : length a = n -> length b = n ->
  V.map2 f a b = map (fun d => f (nth d a 0) (nth d b 0)) (seq 0 n).
Proof.
  intros Ha Hb.
  transitivity (V.map2 f (map (fun d => nth d a 0) (seq 0 n)) (map (fun d => nth d b 0) (seq 0 n))).
  { f_equal; apply list_map_nth; auto. }
  apply map2_map.
Qed.
Lemma map3_seq {A B C D} (f : A -> B -> C -> D) (a : nat -> A) (b : nat -> B) (c : list C) (d0 : C) K :
  length c = K ->
  V.map3 f (map a (seq 0 K)) (map b (seq 0 K)) c = map (fun k => f (a k) (b k) (nth k c d0)) (seq 0 K).
Proof.
  intros Hc.
  transitivity (V.map3 f (map a (seq 0 K)) (map b (seq 0 K)) (map (fun k => nth k c d0) (seq 0 K))).
  { f_equal. apply list_map_nth; auto. }
  apply map3_map.
Qed.

(* ------------------------------------------------------------------ C20: distances and assignment *)
Theorem dist_is_sqeuclid (c x : list R) :
  sqdist c x = rsum (V.map2 (fun a b => (a - b) * (a - b)) c x).
Proof. reflexivity. Qed.
Theorem dist_nonneg (c x : list R) : 0 <= sqdist c x.
Proof.
  rewrite dist_is_sqeuclid. revert x; induction c as [|a c IH]; intros [|b x]; simpl; try lra.
  specialize (IH x). unfold_R. pose proof (Rle_0_sqr (a - b)) as S. unfold Rsqr in S. lra.
Qed.
Theorem dist_shape (cents X : list (list R)) :
  length (distances cents X) = length cents /\ Forall (fun row => length row = length X) (distances cents X).
Proof.
  unfold distances. split. apply map_length.
  rewrite Forall_map. apply Forall_forall. intros c _. apply map_length.
Qed.

Lemma argmin_from_spec (l : list R) : forall (pre : list R) (best : R) bi i,
  length pre = i -> (bi < i)%nat -> nth bi pre 0 = best ->
  (forall j, (j < i)%nat -> best <= nth j pre 0) ->
  (forall j, (j < bi)%nat -> best < nth j pre 0) ->
  (V.argmin_from best bi i l < i + length l)%nat
  /\ (forall j, (j < i + length l)%nat -> nth (V.argmin_from best bi i l) (pre ++ l) 0 <= nth j (pre ++ l) 0)
  /\ (forall j, (j < V.argmin_from best bi i l)%nat -> nth (V.argmin_from best bi i l) (pre ++ l) 0 < nth j (pre ++ l) 0)
  /\ V.vmin_from best l = nth (V.argmin_from best bi i l) (pre ++ l) 0.
Proof.
  induction l as [|x r IH]; intros pre best bi i Hlen Hbi Hb Hle Hlt; cbn [V.argmin_from V.vmin_from length].
  - rewrite app_nil_r, Nat.add_0_r. rewrite Hb. repeat split; auto; lia.
  - replace (pre ++ x :: r) with ((pre ++ [x]) ++ r) by (rewrite <- app_assoc; reflexivity).
    replace (i + S (length r))%nat with (S i + length r)%nat by lia.
    destruct (InstR.ltb x best) eqn:E.
    + apply ltb_true in E. apply IH.
      * rewrite app_length; simpl; lia.
      * lia.
      * rewrite app_nth2 by lia. rewrite Hlen, Nat.sub_diag. reflexivity.
      * intros j Hj. destruct (Nat.eq_dec j i) as [->|Hne].
        -- rewrite app_nth2 by lia. rewrite Hlen, Nat.sub_diag. simpl. lra.
        -- rewrite app_nth1 by lia. specialize (Hle j ltac:(lia)). lra.
      * intros j Hj. rewrite app_nth1 by lia. specialize (Hle j ltac:(lia)). lra.
    + apply ltb_false in E. apply IH.
      * rewrite app_length; simpl; lia.
      * lia.
      * rewrite app_nth1 by lia. exact Hb.
      * intros j Hj. destruct (Nat.eq_dec j i) as [->|Hne].
        -- rewrite app_nth2 by lia. rewrite Hlen, Nat.sub_diag. simpl. lra.
        -- rewrite app_nth1 by lia. apply Hle. lia.
      * intros j Hj. rewrite app_nth1 by lia. apply Hlt. lia.
Qed.
Lemma argmin_spec (l : list R) : l <> [] ->
  (V.argmin l < length l)%nat
  /\ (forall j, (j < length l)%nat -> nth (V.argmin l) l 0 <= nth j l 0)
  /\ (forall j, (j < V.argmin l)%nat -> nth (V.argmin l) l 0 < nth j l 0)
  /\ V.vmin l = nth (V.argmin l) l 0.
Proof.
  intros Hne. destruct l as [|x r]; [congruence|]. cbn [V.argmin V.vmin].
  apply (argmin_from_spec r [x] x 0%nat 1%nat); auto.
  - intros j Hj. replace j with 0%nat by lia. simpl. lra.
  - intros j Hj. lia.
Qed.

(* the predicted label is the FIRST index of a nearest centroid *)
Theorem predict_is_argmin (cents : list (list R)) (x : list R) : cents <> [] ->
  let k := closest cents x in
  (k < length cents)%nat
  /\ (forall j, (j < length cents)%nat -> nth k (dists cents x) 0 <= nth j (dists cents x) 0)
  /\ (forall j, (j < k)%nat -> nth k (dists cents x) 0 < nth j (dists cents x) 0).
Proof.
  intros Hne k. unfold k, closest.
  assert (Hd : dists cents x <> []) by (unfold dists; destruct cents; simpl; congruence).
  assert (Hl : length (dists cents x) = length cents) by (unfold dists; apply map_length).
  destruct (argmin_spec (dists cents x) Hd) as (H1 & H2 & H3 & _).
  split; [|split].
  - eapply Nat.lt_le_trans; [exact H1|]. apply Nat.eq_le_incl. exact Hl.
  - intros j Hj. apply H2. eapply Nat.lt_le_trans; [exact Hj|]. apply Nat.eq_le_incl. symmetry. exact Hl.
  - exact H3.
Qed.
Theorem mindist_is_min (cents : list (list R)) (x : list R) : cents <> [] ->
  mindist cents x = nth (closest cents x) (dists cents x) 0.
Proof.
  intros Hne. unfold mindist, closest.
  assert (Hd : dists cents x <> []) by (unfold dists; destruct cents; simpl; congruence).
  apply (argmin_spec (dists cents x) Hd).
Qed.
Theorem predict_batch (cents X1 X2 : list (list R)) : predict cents (X1 ++ X2) = predict cents X1 ++ predict cents X2.
Proof. unfold predict. apply map_app. Qed.

(* ------------------------------------------------------------------ vector-sum helpers at KR.V *)
Lemma Vvadd_length a b : length a = length b -> length (V.vadd a b) = length a.
Proof. unfold V.vadd. revert b; induction a as [|x a IH]; intros [|y b] H; simpl in *; try discriminate; auto. Qed.
Lemma Vvadd_assoc a b c : V.vadd a (V.vadd b c) = V.vadd (V.vadd a b) c.
Proof. unfold V.vadd. revert b c; induction a as [|x a IH]; intros [|y b] [|z c]; simpl; try reflexivity. rewrite IH. f_equal. unfold InstR.add. ring. Qed.
Lemma Vvadd_zero_l n a : length a = n -> V.vadd (V.vzero n) a = a.
Proof. unfold V.vadd, V.vzero. revert a; induction n as [|n IH]; intros [|x a] H; simpl in *; try discriminate; auto. rewrite IH by lia. f_equal. unfold InstR.add, InstR.zero. ring. Qed.
Lemma Vvadd_zero_r n a : length a = n -> V.vadd a (V.vzero n) = a.
Proof. unfold V.vadd, V.vzero. revert a; induction n as [|n IH]; intros [|x a] H; simpl in *; try discriminate; auto. rewrite IH by lia. f_equal. unfold InstR.add, InstR.zero. ring. Qed.
Lemma Vvzero_length n : length (V.vzero n) = n.
Proof. apply repeat_length. Qed.
Lemma Vvsumv_length d l : Forall (fun v => length v = d) l -> length (V.vsumv d l) = d.
Proof. induction 1; simpl. apply Vvzero_length. rewrite Vvadd_length; auto. now rewrite IHForall. Qed.
Lemma Vvsumv_app d a b : Forall (fun v => length v = d) a -> Forall (fun v => length v = d) b ->
  V.vsumv d (a ++ b) = V.vadd (V.vsumv d a) (V.vsumv d b).
Proof.
  intros Ha Hb. induction Ha as [|x a Hx Ha IH]; simpl.
  - rewrite Vvadd_zero_l; auto. now apply Vvsumv_length.
  - rewrite IH. apply Vvadd_assoc.
Qed.
Lemma vadd_map {A} (f g : A -> R) l : V.vadd (map f l) (map g l) = map (fun c => f c + g c) l.
Proof. unfold V.vadd. induction l; simpl; auto. now rewrite IHl. Qed.
Lemma madd_map {A} (f g : A -> list R) l : V.madd (map f l) (map g l) = map (fun c => V.vadd (f c) (g c)) l.
Proof. unfold V.madd. induction l; simpl; auto. now rewrite IHl. Qed.
Lemma vmul_length a b : length a = length b -> length (V.vmul a b) = length a.
Proof. unfold V.vmul. revert b; induction a as [|x a IH]; intros [|y b] H; simpl in *; try discriminate; auto. Qed.
Lemma vzero_seq n : V.vzero n = map (fun _ => 0) (seq 0 n).
Proof.
  unfold V.vzero. generalize 0%nat. induction n as [|n IH]; intros s; simpl; auto. f_equal. apply IH.
Qed.

(* ------------------------------------------------------------------ C06: descent *)
Definition rows_ok (nf : nat) (X : list (list R)) := Forall (fun x => length x = nf) X.
(* the (un-normalised) distortion: sum over samples of the squared distance to the nearest centroid *)
Definition J (cents X : list (list R)) : R := rsum (map (mindist cents) X).
Definition vmean (nf : nat) (M : list (list R)) : list R := map (fun a => a / INR (length M)) (V.vsumv nf M).

(* index form of the vector sum and of the squared distance *)
Lemma vsumv_nth nf L : rows_ok nf L ->
  V.vsumv nf L = map (fun d => rsum (map (fun x => nth d x 0) L)) (seq 0 nf).
Proof.
  induction 1 as [|x L Hx HL IH]; cbn [V.vsumv map rsum].
  - apply vzero_seq.
  - rewrite IH. rewrite (list_map_nth 0 x nf Hx) at 1. apply vadd_map.
Qed.
Lemma sqdist_nth nf c x : length c = nf -> length x = nf ->
  sqdist c x = rsum (map (fun d => (nth d c 0 - nth d x 0) * (nth d c 0 - nth d x 0)) (seq 0 nf)).
Proof. intros Hc Hx. rewrite dist_is_sqeuclid. f_equal. apply map2_seq; auto. Qed.
Lemma vmean_length nf M : rows_ok nf M -> length (vmean nf M) = nf.
Proof. intros H. unfold vmean. rewrite map_length. now apply Vvsumv_length. Qed.
Lemma vmean_nth nf M d : rows_ok nf M -> (d < nf)%nat ->
  nth d (vmean nf M) 0 = rsum (map (fun x => nth d x 0) M) / INR (length M).
Proof.
  intros H Hd. unfold vmean. rewrite (vsumv_nth nf M H), map_map. now rewrite nth_map_seq.
Qed.

(* 1-D core *)
Lemma ssd_shift {A} (f : A -> R) (l : list A) (a b : R) :
  rsum (map (fun x => (a - f x) * (a - f x)) l)
  = rsum (map (fun x => (b - f x) * (b - f x)) l) + 2 * (b - a) * (rsum (map f l) - INR (length l) * b)
    + INR (length l) * ((b - a) * (b - a)).
Proof.
  induction l as [|x t IH]; [simpl; ring|]. cbn [map rsum length]. rewrite S_INR, IH. ring.
Qed.
Lemma INR_length_pos {A} (l : list A) : l <> [] -> 0 < INR (length l).
Proof. intros H. destruct l; [congruence|]. apply lt_0_INR. simpl; lia. Qed.
Lemma mean_optimal_1d {A} (f : A -> R) (l : list A) (c : R) : l <> [] ->
  rsum (map (fun x => (rsum (map f l) / INR (length l) - f x) * (rsum (map f l) / INR (length l) - f x)) l)
  <= rsum (map (fun x => (c - f x) * (c - f x)) l).
Proof.
  intros Hne. pose proof (INR_length_pos l Hne) as Hn.
  set (m := rsum (map f l) / INR (length l)).
  rewrite (ssd_shift f l c m).
  replace (rsum (map f l) - INR (length l) * m) with 0 by (unfold m; field; lra).
  pose proof (Rle_0_sqr (m - c)) as S. unfold Rsqr in S.
  assert (0 <= INR (length l) * ((m - c) * (m - c))) by (apply Rmult_le_pos; lra).
  lra.
Qed.

(* the mean of a non-empty set of points minimises the sum of squared distances to them *)
Theorem mean_optimal (nf : nat) (M : list (list R)) (c : list R) : M <> [] -> rows_ok nf M -> length c = nf ->
  rsum (map (sqdist (vmean nf M)) M) <= rsum (map (sqdist c) M).
Proof.
  intros Hne HM Hc.
  assert (E : forall c', length c' = nf ->
     rsum (map (sqdist c') M)
     = rsum (map (fun d => rsum (map (fun x => (nth d c' 0 - nth d x 0) * (nth d c' 0 - nth d x 0)) M)) (seq 0 nf))).
  { intros c' Hc'.
    rewrite (rsum_map_ext (sqdist c') (fun x => rsum (map (fun d => (nth d c' 0 - nth d x 0) * (nth d c' 0 - nth d x 0)) (seq 0 nf)))).
    - apply (rsum_swap (fun x d => (nth d c' 0 - nth d x 0) * (nth d c' 0 - nth d x 0))).
    - intros x Hx. apply sqdist_nth; auto. unfold rows_ok in HM. rewrite Forall_forall in HM. now apply HM. }
  rewrite (E _ (vmean_length nf M HM)), (E c Hc).
  apply rsum_le. intros d Hd. apply in_seq in Hd. cbv beta. unfold InstR.T in *.
  rewrite (vmean_nth nf M d HM) by lia.
  apply (mean_optimal_1d (fun x => nth d x 0) M (nth d c 0) Hne).
Qed.

Lemma filter_rows nf (f : list R -> bool) X : rows_ok nf X -> rows_ok nf (filter f X).
Proof. unfold rows_ok. rewrite !Forall_forall. intros H x Hx. apply filter_In in Hx. apply H, Hx. Qed.
Lemma members_rows nf cents k X : rows_ok nf X -> rows_ok nf (members cents k X).
Proof. apply filter_rows. Qed.
Lemma members_app cents k X1 X2 : members cents k (X1 ++ X2) = members cents k X1 ++ members cents k X2.
Proof. unfold members. apply filter_app. Qed.

(* E-step statistics of any chunking add up to those of the whole (counts, sums AND criterion) *)
Theorem e_step_app (nf : nat) (cents X1 X2 : list (list R)) : rows_ok nf X1 -> rows_ok nf X2 ->
  kadd (e_step nf cents X1) (e_step nf cents X2) = e_step nf cents (X1 ++ X2).
Proof.
  intros H1 H2. unfold kadd, e_step. cbn [k_cnt k_sum k_crit]. f_equal.
  - rewrite map2_map. apply map_ext. intros k. now rewrite members_app, app_length.
  - rewrite madd_map. apply map_ext. intros k. rewrite members_app. symmetry.
    apply Vvsumv_app; apply members_rows; assumption.
  - vs. unfold_R. now rewrite map_app, rsum_app.
Qed.
Theorem e_step_concat (nf : nat) (cents B0 : list (list R)) (Bs : list (list (list R))) :
  rows_ok nf B0 -> Forall (rows_ok nf) Bs ->
  fold_left kadd (map (e_step nf cents) Bs) (e_step nf cents B0) = e_step nf cents (concat (B0 :: Bs)).
Proof.
  intros H0 H. revert B0 H0. induction H as [|B Bs HB HBs IH]; intros B0 H0; cbn [map fold_left concat].
  - now rewrite app_nil_r.
  - rewrite e_step_app by assumption. rewrite IH.
    + cbn [concat]. now rewrite app_assoc.
    + unfold rows_ok in *. apply Forall_app; split; assumption.
Qed.
(* hence one EM iteration on any chunking equals the iteration on the single concatenated chunk *)
Theorem em_iter_chunk_independent (nf : nat) (cents : list (list R)) (B0 : list (list R)) (Bs : list (list (list R))) :
  rows_ok nf B0 -> Forall (rows_ok nf) Bs ->
  em_iter nf (B0 :: Bs) cents = em_iter nf [concat (B0 :: Bs)] cents.
Proof.
  intros H0 H. unfold em_iter, m_step. cbn [map fold_left].
  rewrite (e_step_concat nf cents B0 Bs H0 H). unfold nsamples.
  set (Y := concat (B0 :: Bs)). cbn [concat]. rewrite app_nil_r. reflexivity.
Qed.

(* every returned centroid is the arithmetic mean of the samples nearest to its predecessor; an empty
   cluster keeps its centroid; the reported criterion is the mean squared distance of the centroids ENTERING the iteration *)
Theorem em_iter_spec (nf : nat) (cents X : list (list R)) (cents' : list (list R)) (crit : R) :
  em_iter nf [X] cents = Some (cents', crit) ->
  length cents' = length cents
  /\ crit = J cents X / INR (length X)
  /\ forall k, (k < length cents)%nat ->
       nth k cents' [] = (if Nat.eqb (length (members cents k X)) 0 then nth k cents [] else vmean nf (members cents k X)).
Proof.
  intros H. unfold em_iter, m_step in H. cbn [map fold_left] in H.
  unfold e_step in H. cbn [k_cnt k_sum k_crit] in H. unfold nsamples in H. cbn [concat] in H.
  rewrite app_nil_r in H.
  rewrite (map3_seq _ _ _ cents [] (length cents) eq_refl) in H.
  injection H as Hc Hcr. subst cents' crit.
  split; [|split].
  - now rewrite map_length, seq_length.
  - reflexivity.
  - intros k Hk. rewrite nth_map_seq by assumption. reflexivity.
Qed.

(* regrouping a sum by cluster label *)
Section Regroup.
Variable A : Type.
Variable lab : A -> nat.
Definition gmembers (k : nat) (l : list A) := filter (fun x => Nat.eqb (lab x) k) l.
Lemma regroup (g : A -> nat -> R) (K : nat) (l : list A) : Forall (fun x => (lab x < K)%nat) l ->
  rsum (map (fun x => g x (lab x)) l) = rsum (map (fun k => rsum (map (fun x => g x k) (gmembers k l))) (seq 0 K)).
Proof.
  intros H. induction H as [|x l Hx Hl IH]; cbn [map rsum].
  - induction (seq 0 K) as [|k ks IHks]; simpl in *; [reflexivity|lra].
  - rewrite IH. clear IH Hl.
    assert (G : forall ks, NoDup ks ->
       rsum (map (fun k => rsum (map (fun y => g y k) (gmembers k (x :: l)))) ks)
       = (if in_dec Nat.eq_dec (lab x) ks then g x (lab x) else 0)
         + rsum (map (fun k => rsum (map (fun y => g y k) (gmembers k l))) ks)).
    { induction 1 as [|k ks Hnin Hnd IHk]; [simpl; ring|].
      cbn [map rsum]. rewrite IHk. unfold gmembers at 1. cbn [filter].
      destruct (Nat.eqb_spec (lab x) k) as [E|E].
      - subst k. cbn [map rsum]. destruct (in_dec Nat.eq_dec (lab x) (lab x :: ks)) as [_|n]; [|exfalso; apply n; now left].
        destruct (in_dec Nat.eq_dec (lab x) ks); [contradiction|]. fold (gmembers (lab x) l). ring.
      - fold (gmembers k l).
        destruct (in_dec Nat.eq_dec (lab x) (k :: ks)) as [i|n]; destruct (in_dec Nat.eq_dec (lab x) ks) as [i'|n']; try ring.
        + destruct i as [->|i]; [congruence|contradiction].
        + exfalso; apply n; now right. }
    rewrite (G (seq 0 K) (seq_NoDup K 0)).
    destruct (in_dec Nat.eq_dec (lab x) (seq 0 K)) as [_|n]; [ring|]. exfalso; apply n. apply in_seq. lia.
Qed.
End Regroup.

Lemma closest_lt cents x : cents <> [] -> (closest cents x < length cents)%nat.
Proof. intros H. apply (predict_is_argmin cents x H). Qed.
Lemma dists_nth cents x k : (k < length cents)%nat -> nth k (dists cents x) 0 = sqdist (nth k cents []) x.
Proof.
  intros Hk. unfold dists. rewrite (nth_indep _ 0 (sqdist [] x)) by (rewrite map_length; exact Hk).
  apply (map_nth (fun c => sqdist c x)).
Qed.
Lemma regroup_members (cents X : list (list R)) (g : list R -> nat -> R) : cents <> [] ->
  rsum (map (fun x => g x (closest cents x)) X)
  = rsum (map (fun k => rsum (map (fun x => g x k) (members cents k X))) (seq 0 (length cents))).
Proof.
  intros Hne. apply (regroup (list R) (closest cents) g (length cents) X).
  apply Forall_forall. intros x _. now apply closest_lt.
Qed.

(* while every cluster keeps at least one sample the distortion does not increase *)
Theorem kmeans_descent (nf : nat) (cents X : list (list R)) (cents' : list (list R)) (crit : R) :
  cents <> [] -> rows_ok nf X -> rows_ok nf cents ->
  (forall k, (k < length cents)%nat -> members cents k X <> []) ->
  em_iter nf [X] cents = Some (cents', crit) ->
  J cents' X <= J cents X.
Proof.
  intros Hne HX Hcs Hmem Hit.
  destruct (em_iter_spec nf cents X cents' crit Hit) as (Hlen & _ & Hk).
  assert (Hne' : cents' <> []) by (intros E; rewrite E in Hlen; destruct cents; [congruence|discriminate]).
  unfold J.
  (* J cents X as a sum over clusters *)
  assert (E1 : rsum (map (mindist cents) X)
     = rsum (map (fun k => rsum (map (fun x => sqdist (nth k cents []) x) (members cents k X))) (seq 0 (length cents)))).
  { etransitivity; [|exact (regroup_members cents X (fun x k => sqdist (nth k cents []) x) Hne)].
    apply rsum_map_ext. intros x _. rewrite (mindist_is_min cents x Hne). apply dists_nth. now apply closest_lt. }
  rewrite E1.
  (* upper bound of J cents' X by the same regrouping *)
  apply Rle_trans with (rsum (map (fun x => sqdist (nth (closest cents x) cents' []) x) X)).
  { apply rsum_le. intros x _. rewrite (mindist_is_min cents' x Hne').
    destruct (predict_is_argmin cents' x Hne') as (_ & Hmin & _).
    assert (Hl : (closest cents x < length cents')%nat) by (rewrite Hlen; now apply closest_lt).
    eapply Rle_trans; [apply Hmin; exact Hl|]. apply Req_le. apply dists_nth. exact Hl. }
  eapply Rle_trans; [apply Req_le; exact (regroup_members cents X (fun x k => sqdist (nth k cents' []) x) Hne)|].
  apply rsum_le. intros k Hin. apply in_seq in Hin. assert (Hkl : (k < length cents)%nat) by lia.
  cbv beta. rewrite (Hk k Hkl).
  pose proof (Hmem k Hkl) as Hm.
  destruct (Nat.eqb_spec (length (members cents k X)) 0) as [E0|_].
  { apply length_zero_iff_nil in E0. contradiction. }
  apply mean_optimal.
  - exact Hm.
  - apply members_rows. exact HX.
  - unfold rows_ok in Hcs. rewrite Forall_forall in Hcs. apply Hcs. apply nth_In. exact Hkl.
Qed.

(* ------------------------------------------------------------------ C20: cluster weights and variances *)
Lemma rows_ok_concat nf chunks : Forall (rows_ok nf) chunks -> rows_ok nf (concat chunks).
Proof. unfold rows_ok. induction 1; cbn [concat]. constructor. apply Forall_app; split; assumption. Qed.
Lemma vsumv_chunks nf (g : list (list R) -> list (list R)) chunks :
  g [] = [] -> (forall a b, g (a ++ b) = g a ++ g b) -> (forall b, rows_ok nf b -> rows_ok nf (g b)) ->
  Forall (rows_ok nf) chunks ->
  V.vsumv nf (map (fun b => V.vsumv nf (g b)) chunks) = V.vsumv nf (g (concat chunks)).
Proof.
  intros G0 Gapp Grows H. induction H as [|b chunks Hb Hc IH]; cbn [map V.vsumv concat].
  - rewrite G0. reflexivity.
  - rewrite IH, Gapp. symmetry. apply Vvsumv_app.
    + apply Grows, Hb.
    + apply Grows. now apply rows_ok_concat.
Qed.
Lemma sq_rows nf M : rows_ok nf M -> rows_ok nf (map (fun x => V.vmul x x) M).
Proof.
  unfold rows_ok. intros H. rewrite Forall_map. eapply Forall_impl; [|exact H].
  intros x Hx. cbv beta. now rewrite vmul_length.
Qed.

(* the single-block normal form of var_weights *)
Definition vw1 (nf : nat) (cents X : list (list R)) : list (list R) * list R :=
  let ks := seq 0 (length cents) in
  let cnt := map (fun k => length (members cents k X)) ks in
  let total := fold_right Nat.add 0%nat cnt in
  let msum := map (fun k => V.vsumv nf (members cents k X)) ks in
  let vsum_ := map (fun k => V.vsumv nf (map (fun x => V.vmul x x) (members cents k X))) ks in
  let safe := map (fun c => if Nat.eqb c 0 then 1%nat else c) cnt in
  let means := V.map2 (fun s c => map (fun a => a / INR c) s) msum safe in
  (V.map3 (fun s c m => V.map2 (fun a b => a / INR c - b * b) s m) vsum_ safe means,
   map (fun c => INR c / INR total) cnt).

Lemma var_weights_norm nf cents chunks : Forall (rows_ok nf) chunks ->
  var_weights nf cents chunks = vw1 nf cents (concat chunks).
Proof.
  intros H. unfold var_weights, vw1. cbv zeta.
  assert (E1 : map (fun k => V.vsumv nf (map (fun b => V.vsumv nf (members cents k b)) chunks)) (seq 0 (length cents))
             = map (fun k => V.vsumv nf (members cents k (concat chunks))) (seq 0 (length cents))).
  { apply map_ext. intros k. apply (vsumv_chunks nf (members cents k)); auto.
    - apply members_app.
    - intros b. apply members_rows. }
  assert (E2 : map (fun k => V.vsumv nf (map (fun b => V.vsumv nf (map (fun x => V.vmul x x) (members cents k b))) chunks)) (seq 0 (length cents))
             = map (fun k => V.vsumv nf (map (fun x => V.vmul x x) (members cents k (concat chunks)))) (seq 0 (length cents))).
  { apply map_ext. intros k. apply (vsumv_chunks nf (fun b => map (fun x => V.vmul x x) (members cents k b))); auto.
    - intros a b. now rewrite members_app, map_app.
    - intros b Hb. apply sq_rows. now apply members_rows. }
  unfold InstR.T in *. rewrite E1, E2. reflexivity.
Qed.

Theorem var_weights_chunk_independent (nf : nat) (cents : list (list R)) (chunks : list (list (list R))) :
  Forall (rows_ok nf) chunks ->
  var_weights nf cents chunks = var_weights nf cents [concat chunks].
Proof.
  intros H. rewrite (var_weights_norm nf cents chunks H).
  rewrite (var_weights_norm nf cents [concat chunks]).
  - cbn [concat]. now rewrite app_nil_r.
  - constructor; [|constructor]. now apply rows_ok_concat.
Qed.

Lemma rsum_const1 {A} (l : list A) : rsum (map (fun _ => 1) l) = INR (length l).
Proof. induction l as [|a l IH]; [reflexivity|]. cbn [map rsum length]. rewrite S_INR, IH. ring. Qed.
Lemma rsum_INR {A} (f : A -> nat) (l : list A) :
  rsum (map (fun k => INR (f k)) l) = INR (fold_right Nat.add 0%nat (map f l)).
Proof. induction l as [|a l IH]; [reflexivity|]. cbn [map rsum fold_right]. rewrite plus_INR, IH. reflexivity. Qed.
Lemma count_total (cents X : list (list R)) : cents <> [] ->
  fold_right Nat.add 0%nat (map (fun k => length (members cents k X)) (seq 0 (length cents))) = length X.
Proof.
  intros Hne. apply INR_eq. rewrite <- rsum_INR, <- (rsum_const1 X).
  etransitivity; [|symmetry; exact (regroup_members cents X (fun _ _ => 1) Hne)].
  apply rsum_map_ext. intros k _. symmetry. apply rsum_const1.
Qed.

(* the weights are the fractions of samples assigned to each cluster and sum to one *)
Theorem weights_are_fractions (nf : nat) (cents X : list (list R)) : cents <> [] -> X <> [] ->
  snd (var_weights nf cents [X]) = map (fun k => INR (length (members cents k X)) / INR (length X)) (seq 0 (length cents))
  /\ rsum (snd (var_weights nf cents [X])) = 1.
Proof.
  intros Hne HX. pose proof (count_total cents X Hne) as Ct. unfold InstR.T in Ct.
  assert (E : snd (var_weights nf cents [X])
              = map (fun k => INR (length (members cents k X)) / INR (length X)) (seq 0 (length cents))).
  { unfold var_weights. cbv zeta. cbn [snd concat]. rewrite app_nil_r. unfold_R.
    rewrite Ct, map_map. reflexivity. }
  split; [exact E|]. rewrite E. unfold Rdiv.
  rewrite (rsum_map_scal_r (fun k => INR (length (members cents k X))) (/ INR (length X))).
  unfold InstR.T in *. rewrite rsum_INR, Ct.
  apply Rinv_r. pose proof (INR_length_pos X HX). lra.
Qed.

Lemma vmul_self_nth (x : list R) d : nth d (V.vmul x x) 0 = nth d x 0 * nth d x 0.
Proof.
  unfold V.vmul. revert d; induction x as [|a x IH]; intros [|d]; simpl; unfold_R; try ring.
  apply IH.
Qed.
Lemma ssd_expand {A} (f : A -> R) (l : list A) (m : R) :
  rsum (map (fun x => (f x - m) * (f x - m)) l)
  = rsum (map (fun x => f x * f x) l) - 2 * m * rsum (map f l) + INR (length l) * (m * m).
Proof. induction l as [|x t IH]; [simpl; ring|]. cbn [map rsum length]. rewrite S_INR, IH. ring. Qed.

(* the variances are the biased per-feature variances of the assigned samples, hence non-negative *)
Theorem variances_biased (nf : nat) (cents X : list (list R)) (k : nat) : rows_ok nf X ->
  (k < length cents)%nat -> members cents k X <> [] ->
  let M := members cents k X in
  nth k (fst (var_weights nf cents [X])) []
  = map (fun d => rsum (map (fun x => (nth d x 0 - nth d (vmean nf M) 0) * (nth d x 0 - nth d (vmean nf M) 0)) M) / INR (length M)) (seq 0 nf)
  /\ Forall (fun v => 0 <= v) (nth k (fst (var_weights nf cents [X])) []).
Proof.
  intros HX Hk Hm M.
  assert (HM : rows_ok nf M) by (apply members_rows; exact HX).
  pose proof (INR_length_pos M Hm) as Hn.
  assert (E : nth k (fst (var_weights nf cents [X])) []
    = map (fun d => rsum (map (fun x => (nth d x 0 - nth d (vmean nf M) 0) * (nth d x 0 - nth d (vmean nf M) 0)) M) / INR (length M)) (seq 0 nf)).
  { rewrite (var_weights_norm nf cents [X]) by (constructor; [exact HX|constructor]).
    cbn [concat]. rewrite app_nil_r. unfold vw1. cbv zeta. cbn [fst]. unfold InstR.T in *.
    rewrite map_map, map2_map, map3_map. rewrite nth_map_seq by exact Hk. fold M.
    destruct (Nat.eqb_spec (length M) 0) as [E0|_].
    { apply length_zero_iff_nil in E0. contradiction. }
    fold (vmean nf M).
    rewrite (map2_seq _ _ _ nf).
    2:{ apply Vvsumv_length. apply sq_rows. exact HM. }
    2:{ apply vmean_length. exact HM. }
    apply map_ext_in. intros d Hd. apply in_seq in Hd.
    pose proof (vsumv_nth nf _ (sq_rows nf M HM)) as Ev. unfold InstR.T in Ev.
    rewrite Ev. rewrite nth_map_seq by lia. rewrite map_map.
    rewrite (rsum_map_ext _ (fun x => nth d x 0 * nth d x 0)) by (intros; apply vmul_self_nth).
    rewrite (ssd_expand (fun x => nth d x 0) M).
    rewrite (vmean_nth nf M d HM) by lia.
    field. lra. }
  split; [exact E|]. rewrite E. rewrite Forall_map. apply Forall_forall. intros d _.
  apply Rmult_le_pos; [|left; now apply Rinv_0_lt_compat].
  apply rsum_nonneg. rewrite Forall_map. apply Forall_forall. intros x _.
  pose proof (Rle_0_sqr (nth d x 0 - nth d (vmean nf M) 0)) as S. unfold Rsqr in S. exact S.
Qed.

Print Assumptions kmeans_descent.
Print Assumptions variances_biased.
