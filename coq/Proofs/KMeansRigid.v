(* C15 (k-means): "k-means centroids follow any rotation, uniform scaling and translation of the data".
   f(x) = s * (Q x) + t  with  Q orthogonal (Q^T Q = I, rotations and reflections), s <> 0:
   squared distances are multiplied by s^2, the assignment is unchanged, one EM iteration and the whole training loop
   commute with f (centroids mapped by f, criterion values multiplied by s^2, same number of iterations). *)
From Coq Require Import Reals Lra List Lia Bool Arith.
From BLE Require Import Num.Scalar Num.InstR Lib.Vec Model.KMeans Proofs.RLemmas Proofs.KMeansR Proofs.KMeansFit.
Import ListNotations.
Open Scope R_scope.
Import KR.

(* Q is a D x D matrix (list of rows) with orthonormal columns: sum_k Q[k][i] * Q[k][j] = delta_ij *)
Definition qentry (Q : list (list R)) (k i : nat) : R := nth i (nth k Q []) 0.
Definition orthogonal (D : nat) (Q : list (list R)) : Prop :=
  length Q = D /\ Forall (fun row => length row = D) Q /\
  forall i j, (i < D)%nat -> (j < D)%nat ->
    rsum (map (fun k => qentry Q k i * qentry Q k j) (seq 0 D)) = if Nat.eqb i j then 1 else 0.

Definition rigid (s : R) (Q : list (list R)) (t x : list R) : list R :=
  V.vadd (V.vscale s (V.matvec Q x)) t.


(* ------------------------------------------------------------------ helper lemmas: finite sums *)
Lemma rsum_mul {A B} (f : A -> R) (g : B -> R) la lb :
  rsum (map f la) * rsum (map g lb) = rsum (map (fun a => rsum (map (fun b => f a * g b) lb)) la).
Proof.
  rewrite <- (rsum_map_scal_r f (rsum (map g lb)) la). apply rsum_map_ext. intros a _.
  symmetry. apply rsum_map_scal_l.
Qed.
Lemma rsum_map_sub {A} (f g : A -> R) l : rsum (map (fun x => f x - g x) l) = rsum (map f l) - rsum (map g l).
Proof. induction l; simpl; lra. Qed.
Lemma rsum_const {A} (c : R) (l : list A) : rsum (map (fun _ => c) l) = INR (length l) * c.
Proof. induction l as [|a l IH]; [simpl; ring|]. cbn [map rsum length]. rewrite S_INR, IH. ring. Qed.
Lemma rsum_delta (g : nat -> R) i : forall n a,
  rsum (map (fun j => if Nat.eqb i j then g j else 0) (seq a n))
  = if andb (Nat.leb a i) (Nat.ltb i (a + n)) then g i else 0.
Proof.
  induction n as [|n IH]; intros a; cbn [seq map rsum].
  - destruct (Nat.leb_spec a i), (Nat.ltb_spec i (a + 0)); simpl; try reflexivity; lia.
  - rewrite IH.
    destruct (Nat.eqb_spec i a), (Nat.leb_spec a i), (Nat.leb_spec (S a) i),
             (Nat.ltb_spec i (a + S n)), (Nat.ltb_spec i (S a + n)); simpl; subst; try lra; lia.
Qed.

(* |Q v|^2 = |v|^2 in index form *)
Lemma orth_norm D Q (v : nat -> R) : orthogonal D Q ->
  rsum (map (fun k => rsum (map (fun i => qentry Q k i * v i) (seq 0 D)) * rsum (map (fun i => qentry Q k i * v i) (seq 0 D))) (seq 0 D))
  = rsum (map (fun i => v i * v i) (seq 0 D)).
Proof.
  intros (_ & _ & H).
  transitivity (rsum (map (fun k => rsum (map (fun i => rsum (map (fun j => (qentry Q k i * qentry Q k j) * (v i * v j)) (seq 0 D))) (seq 0 D))) (seq 0 D))).
  { apply rsum_map_ext; intros k _. rewrite rsum_mul. apply rsum_map_ext; intros i _. apply rsum_map_ext; intros j _. ring. }
  rewrite (rsum_swap (fun k i => rsum (map (fun j => (qentry Q k i * qentry Q k j) * (v i * v j)) (seq 0 D)))).
  apply rsum_map_ext; intros i Hi. apply in_seq in Hi.
  rewrite (rsum_swap (fun k j => (qentry Q k i * qentry Q k j) * (v i * v j))).
  transitivity (rsum (map (fun j => if Nat.eqb i j then v i * v j else 0) (seq 0 D))).
  { apply rsum_map_ext; intros j Hj; apply in_seq in Hj.
    rewrite (rsum_map_scal_r (fun k => qentry Q k i * qentry Q k j)). rewrite H by lia. destruct (Nat.eqb i j); ring. }
  rewrite (rsum_delta (fun j => v i * v j)).
  destruct (Nat.leb_spec 0 i), (Nat.ltb_spec i (0 + D)); simpl; try reflexivity; lia.
Qed.

(* ------------------------------------------------------------------ index forms *)
Lemma dot_idx D (r x : list R) : length r = D -> length x = D ->
  V.dot r x = rsum (map (fun i => nth i r 0 * nth i x 0) (seq 0 D)).
Proof. intros Hr Hx. unfold V.dot, V.vmul. rewrite (map2_seq _ r x D Hr Hx). reflexivity. Qed.

Lemma rigid_idx D s Q t x : length Q = D -> length t = D ->
  rigid s Q t x = map (fun k => s * V.dot (nth k Q []) x + nth k t 0) (seq 0 D).
Proof.
  intros HQ Ht. unfold rigid, V.vadd, V.vscale, V.matvec.
  transitivity (V.map2 InstR.add (map (fun k => InstR.mul s (V.dot (nth k Q []) x)) (seq 0 D)) (map (fun k => nth k t 0) (seq 0 D))).
  { f_equal.
    - rewrite map_map. rewrite (list_map_nth [] Q D HQ) at 1. rewrite map_map. reflexivity.
    - apply list_map_nth; auto. }
  apply map2_map.
Qed.
Lemma rigid_length D s Q t x : length Q = D -> length t = D -> length (rigid s Q t x) = D.
Proof. intros HQ Ht. rewrite (rigid_idx D) by assumption. now rewrite map_length, seq_length. Qed.
Lemma rigid_nth D s Q t x k : length Q = D -> length t = D -> (k < D)%nat ->
  nth k (rigid s Q t x) 0 = s * V.dot (nth k Q []) x + nth k t 0.
Proof. intros HQ Ht Hk. rewrite (rigid_idx D) by assumption. now rewrite nth_map_seq. Qed.
Lemma orth_row D Q k : orthogonal D Q -> (k < D)%nat -> length (nth k Q []) = D.
Proof.
  intros (HQ & HR & _) Hk. rewrite Forall_forall in HR. apply HR. apply nth_In. lia.
Qed.

Theorem sqdist_rigid (D : nat) (s : R) (Q : list (list R)) (t c x : list R) :
  orthogonal D Q -> length t = D -> length c = D -> length x = D ->
  sqdist (rigid s Q t c) (rigid s Q t x) = s * s * sqdist c x.
Proof.
  intros HO Ht Hc Hx. pose proof HO as (HQ & HR & _).
  rewrite !(rigid_idx D) by assumption. unfold sqdist at 1. rewrite map2_map. change V.vsum with rsum.
  rewrite (sqdist_nth D c x Hc Hx).
  pose proof (orth_norm D Q (fun i => nth i c 0 - nth i x 0) HO) as N. cbv beta in N. unfold InstR.T in *. rewrite <- N. clear N.
  rewrite <- rsum_map_scal_l. apply rsum_map_ext. intros k Hk. apply in_seq in Hk.
  pose proof (orth_row D Q k HO ltac:(lia)) as Lk.
  rewrite (dot_idx D _ c Lk Hc), (dot_idx D _ x Lk Hx).
  assert (E : rsum (map (fun i => qentry Q k i * (nth i c 0 - nth i x 0)) (seq 0 D))
            = rsum (map (fun i => nth i (nth k Q []) 0 * nth i c 0) (seq 0 D))
              - rsum (map (fun i => nth i (nth k Q []) 0 * nth i x 0) (seq 0 D))).
  { rewrite <- rsum_map_sub. apply rsum_map_ext. intros i _. unfold qentry. ring. }
  cbv beta. rewrite E. unfold V.sqr. unfold_R. ring.
Qed.


(* ------------------------------------------------------------------ argmin / vmin under a positive factor *)
Lemma ltb_scale k x best : 0 < k -> InstR.ltb (k * x) (k * best) = InstR.ltb x best.
Proof.
  intros Hk. destruct (InstR.ltb x best) eqn:E.
  - apply ltb_true in E. apply ltb_true. apply Rmult_lt_compat_l; assumption.
  - apply ltb_false in E. apply ltb_false. apply Rmult_le_compat_l; lra.
Qed.
Lemma argmin_from_scale' k (l : list R) : 0 < k -> forall best bi i,
  V.argmin_from (k * best) bi i (map (fun d => k * d) l) = V.argmin_from best bi i l.
Proof.
  intros Hk. induction l as [|x r IH]; intros best bi i; cbn [map V.argmin_from]; [reflexivity|].
  rewrite (ltb_scale k x best Hk). destruct (InstR.ltb x best); apply IH.
Qed.
Lemma argmin_scale' k (l : list R) : 0 < k -> V.argmin (map (fun d => k * d) l) = V.argmin l.
Proof. intros Hk. destruct l as [|x r]; cbn [map V.argmin]; [reflexivity|]. apply argmin_from_scale'. exact Hk. Qed.
Lemma vmin_from_scale k (l : list R) : 0 < k -> forall best,
  V.vmin_from (k * best) (map (fun d => k * d) l) = k * V.vmin_from best l.
Proof.
  intros Hk. induction l as [|x r IH]; intros best; cbn [map V.vmin_from]; [reflexivity|].
  rewrite (ltb_scale k x best Hk). destruct (InstR.ltb x best); apply IH.
Qed.
Lemma vmin_scale k (l : list R) : 0 < k -> V.vmin (map (fun d => k * d) l) = k * V.vmin l.
Proof.
  intros Hk. destruct l as [|x r]; cbn [map V.vmin]; [unfold_R; ring|]. apply vmin_from_scale. exact Hk.
Qed.
Lemma sq_pos s : s <> 0 -> 0 < s * s.
Proof.
  intros Hs. assert (0 <= s * s) by apply Rle_0_sqr.
  assert (s * s <> 0) by (apply Rmult_integral_contrapositive_currified; assumption). lra.
Qed.

Lemma dists_rigid (D : nat) (s : R) (Q : list (list R)) (t : list R) (cents : list (list R)) (x : list R) :
  orthogonal D Q -> length t = D -> length x = D -> KMeansR.rows_ok D cents ->
  dists (map (rigid s Q t) cents) (rigid s Q t x) = map (fun d => s * s * d) (dists cents x).
Proof.
  intros HO Ht Hx Hc. unfold dists. rewrite !map_map. apply map_ext_in. intros c Hin.
  unfold KMeansR.rows_ok in Hc. rewrite Forall_forall in Hc. pose proof (Hc c Hin) as Lc.
  apply (sqdist_rigid D); assumption.
Qed.

Theorem closest_rigid (D : nat) (s : R) (Q : list (list R)) (t : list R) (cents : list (list R)) (x : list R) :
  s <> 0 -> orthogonal D Q -> length t = D -> length x = D -> KMeansR.rows_ok D cents ->
  closest (map (rigid s Q t) cents) (rigid s Q t x) = closest cents x.
Proof.
  intros Hs HO Ht Hx Hc. unfold closest. rewrite (dists_rigid D) by assumption.
  apply argmin_scale'. now apply sq_pos.
Qed.


(* ------------------------------------------------------------------ one E-step / M-step on a single chunk *)
Section Rigid.
Variables (D : nat) (s : R) (Q : list (list R)) (t : list R).
Hypothesis (Hs : s <> 0) (HO : orthogonal D Q) (Ht : length t = D).
Let f := rigid s Q t.

Lemma HQlen : length Q = D.
Proof. apply HO. Qed.

Lemma rigid_rows X : KMeansR.rows_ok D (map f X).
Proof.
  unfold KMeansR.rows_ok. rewrite Forall_map. apply Forall_forall. intros x _.
  apply rigid_length; [apply HQlen|exact Ht].
Qed.

Lemma members_rigid cents k X : KMeansR.rows_ok D X -> KMeansR.rows_ok D cents ->
  members (map f cents) k (map f X) = map f (members cents k X).
Proof.
  intros HX Hc. unfold members, f. induction HX as [|x X Hx HX IH]; cbn [map filter]; [reflexivity|].
  rewrite (closest_rigid D s Q t cents x Hs HO Ht Hx Hc).
  destruct (Nat.eqb (closest cents x) k); cbn [map]; now rewrite IH.
Qed.

Lemma mindist_rigid cents x : length x = D -> KMeansR.rows_ok D cents ->
  mindist (map f cents) (f x) = s * s * mindist cents x.
Proof.
  intros Hx Hc. unfold mindist, f. rewrite (dists_rigid D) by assumption.
  apply vmin_scale. now apply sq_pos.
Qed.

(* the mean of the images is the image of the mean *)
Lemma rigid_mean M : M <> [] -> KMeansR.rows_ok D M ->
  map (fun a => InstR.div a (InstR.ofnat (length M))) (V.vsumv D (map f M))
  = f (map (fun a => InstR.div a (InstR.ofnat (length M))) (V.vsumv D M)).
Proof.
  intros Hne HM. pose proof HQlen as HQ. pose proof (INR_length_pos M Hne) as Hn.
  unfold f at 2. rewrite (rigid_idx D) by assumption.
  rewrite (vsumv_nth D (map f M) (rigid_rows M)). rewrite map_map.
  apply map_ext_in. intros k Hk. apply in_seq in Hk.
  pose proof (orth_row D Q k HO ltac:(lia)) as Lk.
  rewrite map_map.
  rewrite (rsum_map_ext (fun x => nth k (f x) 0) (fun x => s * V.dot (nth k Q []) x + nth k t 0))
    by (intros x _; unfold f; apply (rigid_nth D); auto; lia).
  rewrite rsum_map_add, rsum_map_scal_l, rsum_const.
  assert (Lm : length (map (fun a => InstR.div a (InstR.ofnat (length M))) (V.vsumv D M)) = D).
  { rewrite map_length. now apply Vvsumv_length. }
  rewrite (dot_idx D _ _ Lk Lm).
  assert (E1 : rsum (map (V.dot (nth k Q [])) M)
             = rsum (map (fun i => nth i (nth k Q []) 0 * rsum (map (fun x => nth i x 0) M)) (seq 0 D))).
  { rewrite (rsum_map_ext (V.dot (nth k Q []))
                          (fun x => rsum (map (fun i => nth i (nth k Q []) 0 * nth i x 0) (seq 0 D)))).
    - rewrite (rsum_swap (fun x i => nth i (nth k Q []) 0 * nth i x 0)).
      apply rsum_map_ext. intros i _. apply rsum_map_scal_l.
    - intros x Hx. apply dot_idx; auto. unfold KMeansR.rows_ok in HM. rewrite Forall_forall in HM. now apply HM. }
  assert (E2 : rsum (map (fun i => nth i (nth k Q []) 0
                          * nth i (map (fun a => InstR.div a (InstR.ofnat (length M))) (V.vsumv D M)) 0) (seq 0 D))
             = rsum (map (fun i => nth i (nth k Q []) 0 * rsum (map (fun x => nth i x 0) M)) (seq 0 D)) * / INR (length M)).
  { rewrite <- rsum_map_scal_r. apply rsum_map_ext. intros i Hi. apply in_seq in Hi.
    rewrite (vsumv_nth D M HM), map_map. rewrite nth_map_seq by lia. unfold_R. unfold Rdiv. ring. }
  unfold InstR.T in *.
  rewrite E1, E2. unfold_R. field. lra.
Qed.

Lemma nth_map_f cents k : (k < length cents)%nat -> nth k (map f cents) [] = f (nth k cents []).
Proof.
  intros Hk. rewrite (nth_indep _ [] (f [])) by (rewrite map_length; exact Hk). apply map_nth.
Qed.

Lemma em_iter_rigid1 X cents : KMeansR.rows_ok D X -> KMeansR.rows_ok D cents ->
  em_iter D [map f X] (map f cents)
  = match em_iter D [X] cents with
    | Some (cents', crit) => Some (map f cents', s * s * crit)
    | None => None
    end.
Proof.
  intros HX Hc. unfold em_iter, m_step. cbn [map fold_left].
  unfold e_step. cbn [k_cnt k_sum k_crit]. unfold nsamples. cbn [concat]. rewrite !app_nil_r.
  rewrite (map3_seq _ _ _ (map f cents) [] (length (map f cents)) eq_refl).
  rewrite (map3_seq _ _ _ cents [] (length cents) eq_refl).
  f_equal. f_equal.
  - rewrite (map_length f cents). rewrite map_map. apply map_ext_in. intros k Hk. apply in_seq in Hk.
    rewrite (members_rigid cents k X HX Hc). unfold InstR.T in *. rewrite (map_length f (members cents k X)).
    match goal with |- context [Nat.eqb ?a 0] => destruct (Nat.eqb_spec a 0) as [E0|E0] end.
    + apply nth_map_f. lia.
    + apply rigid_mean.
      * intros E. rewrite E in E0. now apply E0.
      * apply members_rows. exact HX.
  - change V.vsum with rsum. unfold InstR.T in *. rewrite map_map. rewrite (map_length f X).
    rewrite (rsum_map_ext (fun x => mindist (map f cents) (f x)) (fun x => s * s * mindist cents x)).
    + rewrite rsum_map_scal_l. unfold_R. unfold Rdiv. ring.
    + intros x Hx. apply mindist_rigid; auto. unfold KMeansR.rows_ok in HX. rewrite Forall_forall in HX. now apply HX.
Qed.

Lemma em_iter_rigid_sec chunks cents : Forall (KMeansR.rows_ok D) chunks -> KMeansR.rows_ok D cents ->
  em_iter D (map (map f) chunks) (map f cents)
  = match em_iter D chunks cents with
    | Some (cents', crit) => Some (map f cents', s * s * crit)
    | None => None
    end.
Proof.
  intros Hch Hc. destruct chunks as [|B0 Bs]; [reflexivity|].
  apply Forall_cons_iff in Hch. destruct Hch as [HB0 HBs].
  rewrite (em_iter_chunk_independent D cents B0 Bs HB0 HBs).
  cbn [map]. rewrite (em_iter_chunk_independent D (map f cents) (map f B0) (map (map f) Bs)).
  - change (map f B0 :: map (map f) Bs) with (map (map f) (B0 :: Bs)). rewrite <- concat_map.
    apply em_iter_rigid1; [|exact Hc]. apply rows_ok_concat. constructor; assumption.
  - apply rigid_rows.
  - rewrite Forall_map. apply Forall_forall. intros B _. apply rigid_rows.
Qed.

(* an iteration keeps the shape of the centroids *)
Lemma em_iter_rows chunks cents cents' crit : Forall (KMeansR.rows_ok D) chunks -> KMeansR.rows_ok D cents ->
  em_iter D chunks cents = Some (cents', crit) -> KMeansR.rows_ok D cents'.
Proof.
  intros Hch Hc H. destruct chunks as [|B0 Bs]; [discriminate|].
  apply Forall_cons_iff in Hch. destruct Hch as [HB0 HBs].
  rewrite (em_iter_chunk_independent D cents B0 Bs HB0 HBs) in H.
  destruct (em_iter_spec D cents _ cents' crit H) as (Hlen & _ & Hk).
  unfold KMeansR.rows_ok. apply Forall_forall. intros c Hin.
  destruct (In_nth cents' c [] Hin) as (k & Hkl & Hnth). unfold InstR.T in *. rewrite Hlen in Hkl.
  rewrite (Hk k Hkl) in Hnth. subst c.
  match goal with |- context [Nat.eqb ?a 0] => destruct (Nat.eqb a 0) end.
  - unfold KMeansR.rows_ok in Hc. rewrite Forall_forall in Hc. apply Hc. now apply nth_In.
  - apply vmean_length. apply members_rows. apply rows_ok_concat. constructor; assumption.
Qed.
End Rigid.

(* one EM iteration: new centroids are the images of the new centroids, the criterion is multiplied by s^2 *)
Theorem em_iter_rigid (D : nat) (s : R) (Q : list (list R)) (t : list R) (chunks : list (list (list R))) (cents : list (list R)) :
  s <> 0 -> orthogonal D Q -> length t = D -> Forall (KMeansR.rows_ok D) chunks -> KMeansR.rows_ok D cents ->
  em_iter D (map (map (rigid s Q t)) chunks) (map (rigid s Q t) cents)
  = match em_iter D chunks cents with
    | Some (cents', crit) => Some (map (rigid s Q t) cents', s * s * crit)
    | None => None
    end.
Proof. intros Hs HO Ht Hch Hc. now apply em_iter_rigid_sec. Qed.

(* ------------------------------------------------------------------ the loop *)
Section Loop.
Variables (D : nat) (s : R) (Q : list (list R)) (t : list R) (chunks : list (list (list R))).
Hypothesis (Hs : s <> 0) (HO : orthogonal D Q) (Ht : length t = D) (Hch : Forall (KMeansR.rows_ok D) chunks).
Let f := rigid s Q t.

Lemma fit_loop_rigid_none cap : forall step prev prev' cents hist0, KMeansR.rows_ok D cents ->
  fit_loop cap step prev' None D (map (map f) chunks) (map f cents) (map (Rmult (s * s)) hist0)
  = match fit_loop cap step prev None D chunks cents hist0 with
    | Some (cents', n, hist) => Some (map f cents', n, map (Rmult (s * s)) hist)
    | None => None
    end.
Proof.
  induction cap as [|cap IH]; intros step prev prev' cents hist0 Hc; cbn [fit_loop]; [reflexivity|].
  unfold f. rewrite (em_iter_rigid D s Q t chunks cents Hs HO Ht Hch Hc). fold f.
  destruct (em_iter D chunks cents) as [[c1 cur]|] eqn:E; [|reflexivity].
  cbv zeta.
  assert (Hc1 : KMeansR.rows_ok D c1) by (eapply (em_iter_rows D); eassumption).
  destruct (Nat.ltb 1 (S step)); exact (IH (S step) cur (s * s * cur) c1 (cur :: hist0) Hc1).
Qed.

(* the returned history extends the incoming one *)
Lemma fit_loop_hist_incl cthr cap : forall step prev cents hist0 cents' n hist,
  fit_loop cap step prev cthr D chunks cents hist0 = Some (cents', n, hist) ->
  forall c, In c hist0 -> In c hist.
Proof.
  induction cap as [|cap IH]; intros step prev cents hist0 cents' n hist H c Hin; cbn [fit_loop] in H.
  - inversion H; subst; exact Hin.
  - destruct (em_iter D chunks cents) as [[c1 cur]|]; [|discriminate]. cbv zeta in H.
    match type of H with (if ?b then _ else _) = _ => destruct b end.
    + inversion H; subst. now right.
    + eapply IH; [exact H|]. now right.
Qed.

Lemma fit_loop_rigid cthr cap : forall step prev prev' cents hist0 cents' n hist,
  KMeansR.rows_ok D cents ->
  ((1 <= step)%nat -> prev' = s * s * prev /\ prev <> 0) ->
  fit_loop cap step prev cthr D chunks cents hist0 = Some (cents', n, hist) ->
  Forall (fun c => c <> 0) hist ->
  fit_loop cap step prev' cthr D (map (map f) chunks) (map f cents) (map (Rmult (s * s)) hist0)
  = Some (map f cents', n, map (Rmult (s * s)) hist).
Proof.
  induction cap as [|cap IH]; intros step prev prev' cents hist0 cents' n hist Hc Hp H Hnz; cbn [fit_loop] in H |- *.
  - inversion H; subst. reflexivity.
  - unfold f. rewrite (em_iter_rigid D s Q t chunks cents Hs HO Ht Hch Hc). fold f.
    destruct (em_iter D chunks cents) as [[c1 cur]|] eqn:E; [|discriminate].
    cbv zeta in H |- *.
    assert (Hc1 : KMeansR.rows_ok D c1) by (eapply (em_iter_rows D); eassumption).
    assert (Hstop : (if Nat.ltb 1 (S step)
                     then match cthr with
                          | Some th => InstR.leb (V.fabs (InstR.div (InstR.sub prev' (s * s * cur)) prev')) th
                          | None => false
                          end
                     else false)
                  = (if Nat.ltb 1 (S step)
                     then match cthr with
                          | Some th => InstR.leb (V.fabs (InstR.div (InstR.sub prev cur) prev)) th
                          | None => false
                          end
                     else false)).
    { destruct (Nat.ltb_spec 1 (S step)) as [L|L]; [|reflexivity].
      destruct cthr as [th|]; [|reflexivity].
      destruct (Hp ltac:(lia)) as [-> Hp0].
      f_equal. f_equal. unfold_R. field. split; assumption. }
    rewrite Hstop. clear Hstop.
    match type of H with (if ?b then _ else _) = _ => destruct b end.
    + inversion H; subst. reflexivity.
    + apply (IH (S step) cur (s * s * cur) c1 (cur :: hist0) cents' n hist Hc1); auto.
      intros _. split; [reflexivity|].
      rewrite Forall_forall in Hnz. apply Hnz.
      eapply fit_loop_hist_incl; [exact H|]. now left.
Qed.
End Loop.

(* the whole loop without a threshold *)
Theorem kmeans_fit_rigid_no_threshold (D cap : nat) (s : R) (Q : list (list R)) (t : list R) (chunks : list (list (list R))) (cents : list (list R)) :
  s <> 0 -> orthogonal D Q -> length t = D -> Forall (KMeansR.rows_ok D) chunks -> KMeansR.rows_ok D cents ->
  fit cap None D (map (map (rigid s Q t)) chunks) (map (rigid s Q t) cents)
  = match fit cap None D chunks cents with
    | Some (cents', n, hist) => Some (map (rigid s Q t) cents', n, map (Rmult (s * s)) hist)
    | None => None
    end.
Proof.
  intros Hs HO Ht Hch Hc. unfold fit.
  exact (fit_loop_rigid_none D s Q t chunks Hs HO Ht Hch cap 0%nat InstR.zero InstR.zero cents [] Hc).
Qed.

(* the whole loop with the relative-change stopping rule: same number of iterations, as long as no criterion value of the run is 0
   (a zero criterion makes the implementation's relative change 0/0) *)
Theorem kmeans_fit_rigid (D cap : nat) (cthr : option R) (s : R) (Q : list (list R)) (t : list R) (chunks : list (list (list R)))
        (cents cents' : list (list R)) (n : nat) (hist : list R) :
  s <> 0 -> orthogonal D Q -> length t = D -> Forall (KMeansR.rows_ok D) chunks -> KMeansR.rows_ok D cents ->
  fit cap cthr D chunks cents = Some (cents', n, hist) -> Forall (fun c => c <> 0) hist ->
  fit cap cthr D (map (map (rigid s Q t)) chunks) (map (rigid s Q t) cents)
  = Some (map (rigid s Q t) cents', n, map (Rmult (s * s)) hist).
Proof.
  intros Hs HO Ht Hch Hc H Hnz. unfold fit in *.
  apply (fit_loop_rigid D s Q t chunks Hs HO Ht Hch cthr cap 0%nat InstR.zero InstR.zero cents [] cents' n hist Hc); auto.
  intros L. inversion L.
Qed.

(* non-vacuity: a rotation by 90 degrees in the plane is orthogonal *)
Example rot90_orthogonal : orthogonal 2 [[0; -1]; [1; 0]].
Proof.
  split; [reflexivity|]. split; [repeat constructor|].
  intros i j Hi Hj. unfold qentry.
  destruct i as [|[|i]]; [| |lia]; (destruct j as [|[|j]]; [| |lia]); simpl; ring.
Qed.

Print Assumptions kmeans_fit_rigid.
Print Assumptions em_iter_rigid.
