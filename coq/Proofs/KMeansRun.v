(* C06: k-means training descends the distortion - unconditionally (an empty cluster keeps its centroid and contributes
   nothing to either side), for single iterations and along whole training runs: the criteria reported by consecutive
   iterations never increase, and the distortion of the returned centroids is at or below the last reported one.
  *)
From Coq Require Import Reals Lra List Lia Bool Arith.
From BLE Require Import Num.Scalar Num.InstR Lib.Vec Model.KMeans Proofs.RLemmas Proofs.KMeansR Proofs.KMeansFit.
Import ListNotations.
Open Scope R_scope.
Import KR.

(* one iteration never increases the distortion, empty clusters included *)
Theorem kmeans_descent_always (nf : nat) (cents X cents' : list (list R)) (crit : R) :
  cents <> [] -> rows_ok nf X -> rows_ok nf cents ->
  em_iter nf [X] cents = Some (cents', crit) ->
  J cents' X <= J cents X.
Proof.
  intros Hne HX Hcs Hit.
  destruct (em_iter_spec nf cents X cents' crit Hit) as (Hlen & _ & Hk).
  assert (Hne' : cents' <> []) by (intros E; rewrite E in Hlen; destruct cents; [congruence|discriminate]).
  unfold J.
  assert (E1 : rsum (map (mindist cents) X)
     = rsum (map (fun k => rsum (map (fun x => sqdist (nth k cents []) x) (members cents k X))) (seq 0 (length cents)))).
  { etransitivity; [|exact (regroup_members cents X (fun x k => sqdist (nth k cents []) x) Hne)].
    apply rsum_map_ext. intros x _. rewrite (mindist_is_min cents x Hne). apply dists_nth. now apply closest_lt. }
  rewrite E1.
  apply Rle_trans with (rsum (map (fun x => sqdist (nth (closest cents x) cents' []) x) X)).
  { apply rsum_le. intros x _. rewrite (mindist_is_min cents' x Hne').
    destruct (predict_is_argmin cents' x Hne') as (_ & Hmin & _).
    assert (Hl : (closest cents x < length cents')%nat) by (rewrite Hlen; now apply closest_lt).
    eapply Rle_trans; [apply Hmin; exact Hl|]. apply Req_le. apply dists_nth. exact Hl. }
  eapply Rle_trans; [apply Req_le; exact (regroup_members cents X (fun x k => sqdist (nth k cents' []) x) Hne)|].
  apply rsum_le. intros k Hin. apply in_seq in Hin. assert (Hkl : (k < length cents)%nat) by lia.
  cbv beta. rewrite (Hk k Hkl).
  destruct (Nat.eqb_spec (length (members cents k X)) 0) as [E0|E0].
  { apply length_zero_iff_nil in E0. rewrite E0. simpl. apply Rle_refl. }
  apply mean_optimal.
  - intros E. apply E0. rewrite E. reflexivity.
  - apply members_rows. exact HX.
  - unfold rows_ok in Hcs. rewrite Forall_forall in Hcs. apply Hcs. apply nth_In. exact Hkl.
Qed.

(* an iteration keeps the shape of the centroid set *)
Theorem em_iter_rows (nf : nat) (cents X cents' : list (list R)) (crit : R) :
  cents <> [] -> rows_ok nf X -> rows_ok nf cents -> em_iter nf [X] cents = Some (cents', crit) ->
  cents' <> [] /\ length cents' = length cents /\ rows_ok nf cents'.
Proof.
  intros Hne HX Hcs Hit.
  destruct (em_iter_spec nf cents X cents' crit Hit) as (Hlen & _ & Hk).
  assert (Hne' : cents' <> []) by (intros E; rewrite E in Hlen; destruct cents; [congruence|discriminate]).
  split; [exact Hne'|]. split; [exact Hlen|].
  unfold rows_ok. apply Forall_forall. intros c Hc.
  destruct (In_nth _ _ [] Hc) as (k & Hkl & Ek). rewrite Hlen in Hkl.
  rewrite <- Ek, (Hk k Hkl).
  destruct (Nat.eqb (length (members cents k X)) 0).
  - unfold rows_ok in Hcs. rewrite Forall_forall in Hcs. apply Hcs. apply nth_In. exact Hkl.
  - apply vmean_length. apply members_rows. exact HX.
Qed.

(* a whole run of n iterations: the reported criteria (most recent first) never increase from one iteration to the next,
   each is the distortion per sample of the centroids entering that iteration, and the returned centroids have a
   distortion at or below every reported criterion *)
Theorem kmeans_run_descends (nf : nat) (X : list (list R)) :
  X <> [] -> rows_ok nf X ->
  forall (n : nat) (cents cents' : list (list R)) (hist : list R),
    cents <> [] -> rows_ok nf cents ->
    iterate nf [X] n cents = Some (cents', hist) ->
    length hist = n
    /\ (forall i, (S i < n)%nat -> nth i hist 0 <= nth (S i) hist 0)
    /\ (forall i, (i < n)%nat -> J cents' X / INR (length X) <= nth i hist 0)
    /\ ((0 < n)%nat -> nth (n - 1) hist 0 = J cents X / INR (length X)).
Proof.
  intros HXne HX.
  pose proof (INR_length_pos X HXne) as HN.
  assert (Hdiv : forall a b, a <= b -> a / INR (length X) <= b / INR (length X)).
  { intros a b Hab. unfold Rdiv. apply Rmult_le_compat_r; [|exact Hab].
    left. apply Rinv_0_lt_compat. exact HN. }
  induction n as [|n IH]; intros cents cents' hist Hne Hcs Hit; cbn [iterate] in Hit.
  - inversion Hit; subst. simpl. repeat split; intros; lia.
  - destruct (em_iter nf [X] cents) as [[c1 cur]|] eqn:E; [|discriminate].
    destruct (iterate nf [X] n c1) as [[c2 h]|] eqn:E2; [|discriminate].
    inversion Hit; subst c2 hist. clear Hit.
    destruct (em_iter_rows nf cents X c1 cur Hne HX Hcs E) as (Hne1 & Hlen1 & Hcs1).
    pose proof (kmeans_descent_always nf cents X c1 cur Hne HX Hcs E) as Hdesc.
    destruct (em_iter_spec nf cents X c1 cur E) as (_ & Hcur & _).
    destruct (IH c1 cents' h Hne1 Hcs1 E2) as (Hl & Hmono & Hret & Hlast).
    assert (Hcurn : nth n (h ++ [cur]) 0 = cur).
    { rewrite app_nth2 by lia. rewrite Hl, Nat.sub_diag. reflexivity. }
    assert (Hret' : J cents' X / INR (length X) <= cur).
    { rewrite Hcur. destruct n as [|m].
      - simpl in E2. inversion E2; subst. apply Hdiv. exact Hdesc.
      - eapply Rle_trans; [apply (Hret m); lia|].
        specialize (Hlast ltac:(lia)). replace (S m - 1)%nat with m in Hlast by lia.
        rewrite Hlast. apply Hdiv. exact Hdesc. }
    split; [rewrite app_length; simpl; lia|]. split; [|split].
    + intros i Hi. destruct (Nat.eq_dec (S i) n) as [En|En].
      * rewrite <- En in Hcurn. rewrite Hcurn. rewrite app_nth1 by lia.
        specialize (Hlast ltac:(lia)). replace (n - 1)%nat with i in Hlast by lia.
        rewrite Hlast, Hcur. apply Hdiv. exact Hdesc.
      * rewrite !app_nth1 by lia. apply Hmono. lia.
    + intros i Hi. destruct (Nat.eq_dec i n) as [En|En].
      * subst i. rewrite Hcurn. exact Hret'.
      * rewrite app_nth1 by lia. apply Hret. lia.
    + intros _. replace (S n - 1)%nat with n by lia. rewrite Hcurn. exact Hcur.
Qed.

(* the same for the training entry point *)
Theorem kmeans_fit_descends (cthr : option R) (nf cap : nat) (X cents cents' : list (list R)) (n : nat) (hist : list R) :
  X <> [] -> rows_ok nf X -> cents <> [] -> rows_ok nf cents ->
  fit cap cthr nf [X] cents = Some (cents', n, hist) ->
  (forall i, (S i < n)%nat -> nth i hist 0 <= nth (S i) hist 0)
  /\ (forall i, (i < n)%nat -> J cents' X / INR (length X) <= nth i hist 0).
Proof.
  intros HXne HX Hne Hcs Hfit.
  destruct (fit_iterations cthr nf [X] cap cents cents' n hist Hfit) as (_ & Hit & _).
  destruct (kmeans_run_descends nf X HXne HX n cents cents' hist Hne Hcs Hit) as (_ & H1 & H2 & _).
  split; assumption.
Qed.
