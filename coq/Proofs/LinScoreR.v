(* C08: linear scoring at R. *)
From Coq Require Import Reals Lra List Lia Bool Arith.
From Coquelicot Require Import Coquelicot.
From BLE Require Import Num.Scalar Num.InstR Lib.Vec Model.LinScore Model.GMM Proofs.RLemmas Proofs.GMMLik Proofs.GMMStats Proofs.GMMEM.
Import ListNotations.
Open Scope R_scope.

Module LR := LinScore InstR.
Import LR.

Definition shape_ok (C D : nat) (m : list (list R)) := length m = C /\ List.Forall (fun r => length r = D) m.
Definition tstat_ok (C D : nat) (s : tstat) := length (ts_n s) = C /\ shape_ok C D (ts_px s).
(* the formula of the property, index form: sum_c sum_d (m_cd - u_cd)/v_cd * (F_cd - N_c (u_cd + o_cd)) *)
Definition at2 (m : list (list R)) (c d : nat) : R := nth d (nth c m []) 0.
Definition score_spec (C D : nat) (model umu uvar off : list (list R)) (s : tstat) : R :=
  rsum (map (fun c => rsum (map (fun d =>
        (at2 model c d - at2 umu c d) / at2 uvar c d
        * (at2 (ts_px s) c d - nth c (ts_n s) 0 * (at2 umu c d + at2 off c d))) (seq 0 D))) (seq 0 C)).

(* LinScore's own instance of the vector library is convertible with the GMM model's *)
Lemma LV_map2 : @LR.V.map2 = @MR.V.map2. Proof. reflexivity. Qed.
Lemma LV_map3 : @LR.V.map3 = @MR.V.map3. Proof. reflexivity. Qed.
Lemma LV_vsum : LR.V.vsum = rsum. Proof. reflexivity. Qed.

Lemma map2_seq {A B C} (f : A -> B -> C) a b n da db : length a = n -> length b = n ->
  MR.V.map2 f a b = map (fun i => f (nth i a da) (nth i b db)) (seq 0 n).
Proof.
  intros Ha Hb. rewrite (list_eq_seq (MR.V.map2 f a b) (f da db)).
  rewrite len_map2, Ha, Hb, Nat.min_id. apply map_ext_in. intros i Hi. apply in_seq in Hi. apply nth_map2; lia.
Qed.
Lemma shape_nth C D m c : shape_ok C D m -> (c < C)%nat -> length (nth c m []) = D.
Proof. intros [H1 H2] Hc. apply (Forall_nth_lt (fun r : list R => length r = D)); [exact H2|lia]. Qed.

Theorem score_formula (eps : R) (C D : nat) (model umu uvar off : list (list R)) (s : tstat) :
  shape_ok C D model -> shape_ok C D umu -> shape_ok C D uvar -> shape_ok C D off -> tstat_ok C D s ->
  score1 eps false model umu uvar off s = score_spec C D model umu uvar off s.
Proof.
  intros Hm Hu Hv Ho [Hn Hp].
  unfold score1, normalise, dot2, amat, bmat, score_spec, V.dot, V.vmul.
  rewrite LV_map3, LV_map2, LV_vsum.
  unfold_R.
  destruct Hm as [Hm1 Hm2], Hu as [Hu1 Hu2], Hv as [Hv1 Hv2], Ho as [Ho1 Ho2], Hp as [Hp1 Hp2].
  rewrite (map3_seq _ model umu uvar C [] [] [] Hm1 Hu1 Hv1).
  assert (Hcl : length (combine (ts_px s) (ts_n s)) = C) by (rewrite combine_length; unfold InstR.T in *; lia).
  rewrite (map3_seq _ (combine (ts_px s) (ts_n s)) umu off C ([], 0) [] [] Hcl Hu1 Ho1).
  rewrite map2_map_same. apply rsum_map_ext. intros c Hc. apply in_seq in Hc.
  rewrite combine_nth by (unfold InstR.T in *; lia). cbn [fst snd].
  assert (L : forall m, shape_ok C D m -> length (nth c m []) = D) by (intros m Hm; apply (shape_nth C D m c Hm); lia).
  rewrite (map3_seq _ (nth c model []) (nth c umu []) (nth c uvar []) D 0 0 0) by (apply L; split; assumption).
  rewrite (map3_seq _ (nth c (ts_px s) []) (nth c umu []) (nth c off []) D 0 0 0) by (apply L; split; assumption).
  rewrite map2_map_same. reflexivity.
Qed.

(* ---------- shape-free helpers on dot2 *)
Lemma fabs_Rabs x : V.fabs x = Rabs x.
Proof.
  unfold V.fabs. destruct (InstR.ltb x InstR.zero) eqn:E.
  - apply ltb_true in E. unfold InstR.zero in E. unfold InstR.opp. rewrite Rabs_left; auto.
  - apply ltb_false in E. unfold InstR.zero in E. rewrite Rabs_right; auto. lra.
Qed.
Lemma dot_map_r (f : R -> R) k (a b : list R) : (forall y x, x * f y = k * (x * y)) ->
  V.dot a (map f b) = k * V.dot a b.
Proof.
  intros Hf. unfold V.dot, V.vmul. revert b; induction a as [|x a IH]; intros [|y b]; cbn [map V.map2 V.vsum]; unfold_R; try ring.
  unfold_R. unfold InstR.T in *. rewrite IH. rewrite Hf. ring.
Qed.
Lemma dot2_map_r (f : R -> R) k (a b : list (list R)) : (forall y x, x * f y = k * (x * y)) ->
  dot2 a (map (map f) b) = k * dot2 a b.
Proof.
  intros Hf. unfold dot2. revert b; induction a as [|x a IH]; intros [|y b]; cbn [map V.map2 V.vsum]; unfold_R; try ring.
  unfold_R. unfold InstR.T in *. rewrite IH. rewrite (dot_map_r f k) by exact Hf. ring.
Qed.
Lemma dot_map_l (f : R -> R) k (a b : list R) : (forall x y, f x * y = k * (x * y)) ->
  V.dot (map f a) b = k * V.dot a b.
Proof.
  intros Hf. unfold V.dot, V.vmul. revert b; induction a as [|x a IH]; intros [|y b]; cbn [map V.map2 V.vsum]; unfold_R; try ring.
  unfold_R. unfold InstR.T in *. rewrite IH. rewrite Hf. ring.
Qed.
Lemma dot2_map_l (f : R -> R) k (a b : list (list R)) : (forall x y, f x * y = k * (x * y)) ->
  dot2 (map (map f) a) b = k * dot2 a b.
Proof.
  intros Hf. unfold dot2. revert b; induction a as [|x a IH]; intros [|y b]; cbn [map V.map2 V.vsum]; unfold_R; try ring.
  unfold_R. unfold InstR.T in *. rewrite IH. rewrite (dot_map_l f k) by exact Hf. ring.
Qed.

Theorem score_normalised (eps : R) (model umu uvar off : list (list R)) (s : tstat) :
  eps < Rabs (ts_t s) ->
  score1 eps true model umu uvar off s = score1 eps false model umu uvar off s / ts_t s.
Proof.
  intros H. unfold score1, normalise. rewrite fabs_Rabs.
  assert (E : InstR.leb (Rabs (ts_t s)) eps = false) by (apply leb_false; exact H). rewrite E.
  unfold_R. rewrite (dot2_map_r (fun x => x / ts_t s) (/ ts_t s)). unfold Rdiv; ring.
  intros; unfold Rdiv; ring.
Qed.

(* zero-frame statistics score zero when normalisation is requested (instead of 0/0) *)
Theorem score_zero_frames (eps : R) (model umu uvar off : list (list R)) (s : tstat) :
  Rabs (ts_t s) <= eps -> score1 eps true model umu uvar off s = 0.
Proof.
  intros H. unfold score1, normalise. rewrite fabs_Rabs.
  assert (E : InstR.leb (Rabs (ts_t s)) eps = true) by (apply leb_true; exact H). rewrite E.
  unfold_R. rewrite (dot2_map_r (fun _ => 0) 0). ring. intros; ring.
Qed.

(* linear in the model offset *)
Definition along (lam : R) (umu model : list (list R)) : list (list R) :=
  V.map2 (V.map2 (fun u m => u + lam * (m - u))) umu model.

Lemma arow_along lam (m u v : list R) :
  V.map3 (fun a b c => InstR.div (InstR.sub a b) c) (V.map2 (fun u m => u + lam * (m - u)) u m) u v
  = map (fun x => lam * x) (V.map3 (fun a b c => InstR.div (InstR.sub a b) c) m u v).
Proof.
  revert m v; induction u as [|x u IH]; intros [|y m] [|z v]; cbn [V.map2 V.map3 map]; try reflexivity.
  rewrite IH. f_equal. unfold_R. unfold Rdiv. ring.
Qed.
Lemma amat_along lam model umu uvar :
  amat (along lam umu model) umu uvar = map (map (fun x => lam * x)) (amat model umu uvar).
Proof.
  unfold amat, along. revert model uvar; induction umu as [|x u IH]; intros [|y m] [|z v]; cbn [V.map2 V.map3 map]; try reflexivity.
  rewrite IH. f_equal. apply arow_along.
Qed.

Theorem score_linear (eps lam : R) (norm : bool) (C D : nat) (model umu uvar off : list (list R)) (s : tstat) :
  shape_ok C D model -> shape_ok C D umu -> shape_ok C D uvar -> shape_ok C D off -> tstat_ok C D s ->
  score1 eps norm (along lam umu model) umu uvar off s = lam * score1 eps norm model umu uvar off s.
Proof.
  intros _ _ _ _ _. unfold score1. rewrite amat_along. apply dot2_map_l. intros; ring.
Qed.

(* the UBM itself scores zero *)
Theorem score_ubm_zero (eps : R) (norm : bool) (umu uvar off : list (list R)) (s : tstat) :
  score1 eps norm umu umu uvar off s = 0.
Proof.
  assert (E : along 0 umu umu = umu).
  { unfold along. induction umu as [|r t IH]; cbn [V.map2]; [reflexivity|]. rewrite IH. f_equal.
    clear. induction r as [|x r IH]; cbn [V.map2]; [reflexivity|]. rewrite IH. f_equal. ring. }
  rewrite <- E at 1. unfold score1. rewrite amat_along. rewrite (dot2_map_l (fun x => 0 * x) 0). unfold_R; ring. intros; ring.
Qed.

(* one row per model, one column per test item *)
Theorem score_shape (eps : R) (norm : bool) (models : list (list (list R))) (umu uvar : list (list R)) (stats : list tstat) (o : offsets) :
  length (linear_scoring eps norm models umu uvar stats o) = length models
  /\ List.Forall (fun row => length row = length stats) (linear_scoring eps norm models umu uvar stats o).
Proof.
  unfold linear_scoring. split. apply map_length.
  rewrite Forall_map. apply Forall_forall. intros m _. rewrite map_length, combine_length, seq_length. apply Nat.min_id.
Qed.

(* additive over test statistics before normalisation *)
Definition tadd (a b : tstat) : tstat :=
  {| ts_n := V.vadd (ts_n a) (ts_n b); ts_px := V.madd (ts_px a) (ts_px b); ts_t := ts_t a + ts_t b |}.

Lemma madd_shape C D a b : shape_ok C D a -> shape_ok C D b -> shape_ok C D (V.madd a b).
Proof.
  intros [Ha1 Ha2] [Hb1 Hb2]. unfold V.madd, V.vadd. rewrite LV_map2. unfold InstR.T in *. split.
  - rewrite len_map2, Ha1, Hb1. apply Nat.min_id.
  - rewrite (map2_seq _ a b C [] [] Ha1 Hb1). rewrite Forall_map. apply Forall_forall. intros c Hc. apply in_seq in Hc.
    rewrite len_map2.
    rewrite (shape_nth C D a c (conj Ha1 Ha2)), (shape_nth C D b c (conj Hb1 Hb2)) by lia. apply Nat.min_id.
Qed.
Lemma at2_madd C D a b c d : shape_ok C D a -> shape_ok C D b -> (c < C)%nat -> (d < D)%nat ->
  at2 (V.madd a b) c d = at2 a c d + at2 b c d.
Proof.
  intros Ha Hb Hc Hd. unfold at2, V.madd, V.vadd. rewrite LV_map2.
  pose proof (shape_nth C D a c Ha Hc) as La. pose proof (shape_nth C D b c Hb Hc) as Lb.
  destruct Ha as [Ha1 Ha2], Hb as [Hb1 Hb2].
  rewrite (nth_map2 _ a b c [] [] []) by lia.
  etransitivity; [apply (nth_map2 InstR.add _ _ d 0 0 0); lia|]. reflexivity.
Qed.

Theorem score_additive (eps : R) (C D : nat) (model umu uvar off : list (list R)) (s1 s2 : tstat) :
  shape_ok C D model -> shape_ok C D umu -> shape_ok C D uvar -> shape_ok C D off -> tstat_ok C D s1 -> tstat_ok C D s2 ->
  score1 eps false model umu uvar off (tadd s1 s2)
  = score1 eps false model umu uvar off s1 + score1 eps false model umu uvar off s2.
Proof.
  intros Hm Hu Hv Ho [Hn1 Hp1] [Hn2 Hp2].
  assert (Ht : tstat_ok C D (tadd s1 s2)).
  { split; cbn [tadd ts_n ts_px]. unfold V.vadd. rewrite LV_map2, len_map2. unfold InstR.T in *. rewrite Hn1, Hn2. apply Nat.min_id.
    now apply madd_shape. }
  rewrite (score_formula eps C D model umu uvar off (tadd s1 s2)) by assumption.
  rewrite (score_formula eps C D model umu uvar off s1) by (try assumption; split; assumption).
  rewrite (score_formula eps C D model umu uvar off s2) by (try assumption; split; assumption).
  unfold score_spec. rewrite <- rsum_map_add. apply rsum_map_ext. intros c Hc. apply in_seq in Hc.
  rewrite <- rsum_map_add. apply rsum_map_ext. intros d Hd. apply in_seq in Hd.
  cbn [tadd ts_n ts_px]. rewrite (at2_madd C D) by (try assumption; lia).
  assert (E : nth c (V.vadd (ts_n s1) (ts_n s2)) 0 = nth c (ts_n s1) 0 + nth c (ts_n s2) 0).
  { unfold V.vadd. rewrite LV_map2. etransitivity; [apply (nth_map2 InstR.add _ _ c 0 0 0); unfold InstR.T in *; lia|]. reflexivity. }
  rewrite E. unfold Rdiv. ring.
Qed.

(* ---------------------------------------------------------------- the derivative identity *)
Import MR.
Definition shift_means (e : R) (m : gmm) (model : list (list R)) : gmm :=
  {| ws := ws m; mus := along e (mus m) model; vars := vars m |}.
Definition tstat_of (st : stats) : tstat := {| ts_n := s_n st; ts_px := s_px st; ts_t := INR (s_t st) |}.

Lemma is_derive_rsum {A} (f : A -> R -> R) (df : A -> R) (l : list A) (e0 : R) :
  (forall a, In a l -> is_derive (f a) e0 (df a)) ->
  is_derive (fun e => rsum (map (fun a => f a e) l)) e0 (rsum (map df l)).
Proof.
  induction l as [|a l IH]; intros H; cbn [map rsum].
  - apply (is_derive_const (V := R_NormedModule) 0 e0).
  - apply (is_derive_plus (f a) (fun e => rsum (map (fun a => f a e) l))).
    + apply H. now left.
    + apply IH. intros b Hb. apply H. now right.
Qed.

Lemma lnsum_derive {A} (F : A -> R -> R) (dF : A -> R) (l : list A) (e0 : R) :
  (forall a, In a l -> is_derive (F a) e0 (dF a)) ->
  0 < rsum (map (fun a => exp (F a e0)) l) ->
  is_derive (fun e => ln (rsum (map (fun a => exp (F a e)) l))) e0
            (rsum (map (fun a => exp (F a e0) * dF a) l) / rsum (map (fun a => exp (F a e0)) l)).
Proof.
  intros H Hp. evar_last.
  - apply (is_derive_comp ln (fun e => rsum (map (fun a => exp (F a e)) l)) e0
             (/ rsum (map (fun a => exp (F a e0)) l)) (rsum (map (fun a => exp (F a e0) * dF a) l))).
    + apply is_derive_Reals. apply derivable_pt_lim_ln. exact Hp.
    + apply (is_derive_rsum (fun a e => exp (F a e)) (fun a => exp (F a e0) * dF a)).
      intros a Ha. evar_last.
      * apply (is_derive_comp exp (F a) e0 (exp (F a e0)) (dF a)).
        -- apply is_derive_Reals. apply derivable_pt_lim_exp.
        -- now apply H.
      * unfold scal; simpl; unfold mult; simpl. ring.
  - unfold scal; simpl; unfold mult; simpl. unfold Rdiv. ring.
Qed.

Lemma cell_derive (x mu delta v : R) :
  is_derive (fun e => cellx x (mu + e * delta) v) 0 ((x - mu) * delta / v).
Proof.
  unfold cellx, Rdiv. generalize (/ v) as iv. generalize (ln (2 * PI) + ln v) as K. intros K iv.
  auto_derive. exact I. field.
Qed.

(* one component paired with its row of the target model *)
Definition shiftc (e : R) (p : comp * list R) : comp :=
  let '((w, mu, v), mrow) := p in (w, MR.V.map2 (fun u mm => u + e * (mm - u)) mu mrow, v).
Definition Fc (nf : nat) (x : list R) (p : comp * list R) (e : R) : R :=
  let '((w, mu, v), mrow) := p in
  ln w + rsum (map (fun d => cellx (nth d x 0) (nth d mu 0 + e * (nth d mrow 0 - nth d mu 0)) (nth d v 0)) (seq 0 nf)).
Definition dFc (nf : nat) (x : list R) (p : comp * list R) : R :=
  let '((w, mu, v), mrow) := p in
  rsum (map (fun d => (nth d x 0 - nth d mu 0) * (nth d mrow 0 - nth d mu 0) / nth d v 0) (seq 0 nf)).

Lemma comps_shift e m model : comps (shift_means e m model) = map (shiftc e) (combine (comps m) model).
Proof.
  destruct m as [w mu v]. unfold comps, shift_means, along. cbn [ws mus vars]. rewrite LV_map2.
  revert mu v model. induction w as [|a w IH]; intros [|b mu] [|c v] [|r model]; cbn [combine MR.V.map2 map]; try reflexivity.
  rewrite IH. reflexivity.
Qed.

Lemma lwl_shift nf e x p : wf_comp nf (fst p) -> length (snd p) = nf -> length x = nf ->
  lwl (shiftc e p) x = Fc nf x p e.
Proof.
  destruct p as [[[w mu] v] mrow]. cbn [fst snd]. intros (Hw & Hmu & Hv & Hpos) Hr Hx. unfold shiftc, Fc.
  rewrite (lwl_index w _ v x nf Hx) by (try assumption; rewrite len_map2; unfold InstR.T in *; rewrite Hmu, Hr; apply Nat.min_id).
  f_equal. apply rsum_map_ext. intros d Hd. apply in_seq in Hd. f_equal.
  apply (nth_map2 (fun u mm : R => u + e * (mm - u)) mu mrow d 0 0 0); unfold InstR.T in *; lia.
Qed.
Lemma Fc_zero nf x p : wf_comp nf (fst p) -> length x = nf -> Fc nf x p 0 = lwl (fst p) x.
Proof.
  destruct p as [[[w mu] v] mrow]. cbn [fst snd]. intros (Hw & Hmu & Hv & Hpos) Hx. unfold Fc.
  symmetry. etransitivity; [exact (lwl_index w mu v x nf Hx Hmu Hv)|]. f_equal. apply rsum_map_ext. intros d _. f_equal. unfold InstR.T in *. ring.
Qed.
Lemma Fc_derive nf x p : is_derive (Fc nf x p) 0 (dFc nf x p).
Proof.
  destruct p as [[[w mu] v] mrow]. unfold Fc, dFc. evar_last.
  - apply (is_derive_plus (fun _ => ln w) (fun e => rsum (map (fun d => cellx (nth d x 0) (nth d mu 0 + e * (nth d mrow 0 - nth d mu 0)) (nth d v 0)) (seq 0 nf)))).
    + apply (is_derive_const (V := R_NormedModule) (ln w) 0).
    + apply (is_derive_rsum (fun d e => cellx (nth d x 0) (nth d mu 0 + e * (nth d mrow 0 - nth d mu 0)) (nth d v 0))
                            (fun d => (nth d x 0 - nth d mu 0) * (nth d mrow 0 - nth d mu 0) / nth d v 0)).
      intros d _. apply cell_derive.
  - unfold plus, zero; simpl. ring.
Qed.

Lemma comps_length m : length (ws m) = length (mus m) -> length (ws m) = length (vars m) ->
  length (comps m) = length (mus m).
Proof. intros H1 H2. unfold comps. change (length (combine (combine (ws m) (mus m)) (vars m)) = length (mus m)). rewrite !combine_length. lia. Qed.

(* per sample: the derivative of the log-likelihood is the responsibility-weighted sum of the components' derivatives *)
Lemma ll_shift_derive nf m model x :
  wf_gmm nf m -> length x = nf ->
  length (ws m) = length (mus m) -> length (ws m) = length (vars m) ->
  shape_ok (length (mus m)) nf model ->
  is_derive (fun e => ll (shift_means e m model) x) 0
            (rsum (map (fun p => resp m x (fst p) * dFc nf x p) (combine (comps m) model))).
Proof.
  intros [Hne Hwf] Hx H1 H2 [Hs1 Hs2].
  pose proof (comps_length m H1 H2) as HC.
  set (L := combine (comps m) model).
  assert (HfstL : map fst L = comps m) by (apply map_fst_combine; lia).
  assert (HLne : L <> []).
  { intros E. apply Hne. rewrite <- HfstL, E. reflexivity. }
  assert (HL : forall p, In p L -> wf_comp nf (fst p) /\ length (snd p) = nf).
  { intros [c r] Hin. cbn [fst snd]. split.
    - rewrite Forall_forall in Hwf. apply Hwf. eapply in_combine_l; exact Hin.
    - rewrite Forall_forall in Hs2. apply Hs2. eapply in_combine_r; exact Hin. }
  assert (Hpos : 0 < rsum (map (fun p => exp (Fc nf x p 0)) L)).
  { apply rsum_pos. destruct L; [congruence|discriminate]. rewrite Forall_map. apply Forall_forall. intros p _. apply exp_pos. }
  apply (is_derive_ext (fun e => ln (rsum (map (fun p => exp (Fc nf x p e)) L)))).
  - intros t. symmetry. rewrite lwl_lse.
    + f_equal. unfold lwls. rewrite comps_shift, !map_map. fold L. apply rsum_map_ext. intros p Hp.
      destruct (HL p Hp) as [Hw Hr]. f_equal. now apply lwl_shift.
    + rewrite comps_shift. fold L. destruct L; [congruence|discriminate].
  - evar_last.
    + apply (lnsum_derive (Fc nf x) (dFc nf x) L 0); [|exact Hpos]. intros p _. apply Fc_derive.
    + assert (Eden : rsum (map (fun p => exp (Fc nf x p 0)) L) = exp (ll m x)).
      { rewrite (ll_exp_pos m x Hne). unfold sexp, lwls. rewrite <- HfstL, !map_map. apply rsum_map_ext. intros p Hp.
        destruct (HL p Hp) as [Hw Hr]. f_equal. now apply Fc_zero. }
      rewrite Eden. unfold Rdiv. rewrite <- rsum_map_scal_r. apply rsum_map_ext. intros p Hp.
      destruct (HL p Hp) as [Hw Hr]. rewrite (Fc_zero nf x p Hw Hx). unfold resp. unfold_R.
      unfold Rminus. rewrite exp_plus, exp_Ropp. ring.
Qed.

Lemma rsum_map_index {A} (g : A -> R) (l : list A) (d0 : A) :
  rsum (map g l) = rsum (map (fun i => g (nth i l d0)) (seq 0 (length l))).
Proof. rewrite (list_eq_seq l d0) at 1. rewrite map_map. reflexivity. Qed.
Lemma lin_sum {A} (r xd : A -> R) (X : list A) (mu delta iv : R) :
  rsum (map (fun x => r x * ((xd x - mu) * delta * iv)) X)
  = delta * iv * (rsum (map (fun x => r x * xd x) X) - rsum (map r X) * (mu + 0)).
Proof. induction X as [|x X IH]; cbn [map rsum]; [ring|]. rewrite IH. ring. Qed.
Lemma nth_repeat_lt {A} (a d : A) n i : (i < n)%nat -> nth i (repeat a n) d = a.
Proof. revert i; induction n as [|n IH]; intros [|i] H; cbn [repeat nth]; try lia; auto. apply IH; lia. Qed.
Lemma mzero_shape C D : shape_ok C D (MR.V.mzero C D).
Proof.
  unfold MR.V.mzero, MR.V.vzero. split. apply repeat_length.
  apply Forall_forall. intros r Hr. apply repeat_spec in Hr. subst r. apply repeat_length.
Qed.
Lemma at2_mzero C D c d : (c < C)%nat -> at2 (MR.V.mzero C D) c d = 0.
Proof.
  intros Hc. unfold at2, MR.V.mzero.
  etransitivity; [apply (f_equal (fun r : list R => nth d r 0)); apply (nth_repeat_lt (MR.V.vzero D) [] C c Hc)|]. apply nth_vzero.
Qed.

(* the un-normalised linear score with zero channel offset is the derivative at 0 of the data's UBM
   log-likelihood as the UBM means are moved towards the model *)
Theorem score_is_derivative (eps : R) (nf : nat) (m : gmm) (model : list (list R)) (X : list (list R)) :
  wf_gmm nf m -> GMMStats.rows_ok nf X ->
  length (ws m) = length (mus m) -> length (ws m) = length (vars m) ->
  shape_ok (length (mus m)) nf model ->
  is_derive (fun e => rsum (map (ll (shift_means e m model)) X)) 0
            (score1 eps false model (mus m) (vars m) (V.mzero (length (mus m)) nf) (tstat_of (e_step nf m X))).
Proof.
  intros Hwf HX H1 H2 Hs.
  pose proof (comps_length m H1 H2) as HC.
  destruct (comps_fields m H1 H2) as (Ew & Emu & Ev).
  pose proof Hwf as [Hne Hall].
  set (L := combine (comps m) model).
  evar_last.
  - apply (is_derive_rsum (fun x e => ll (shift_means e m model) x)
                          (fun x => rsum (map (fun p => resp m x (fst p) * dFc nf x p) L))).
    intros x Hx. apply ll_shift_derive; try assumption.
    unfold rows_ok in HX. rewrite Forall_forall in HX. now apply HX.
  - assert (Smu : shape_ok (length (mus m)) nf (mus m)).
    { split; [reflexivity|]. rewrite Emu, Forall_map. eapply Forall_impl; [|exact Hall].
      intros [[w mu] v] (_ & Hmu & _). exact Hmu. }
    assert (Sv : shape_ok (length (mus m)) nf (vars m)).
    { split; [unfold InstR.T in *; lia|]. rewrite Ev, Forall_map. eapply Forall_impl; [|exact Hall].
      intros [[w mu] v] (_ & _ & Hv & _). exact Hv. }
    assert (St : tstat_ok (length (mus m)) nf (tstat_of (e_step nf m X))).
    { unfold tstat_of, tstat_ok. cbn [ts_n ts_px e_step s_n s_px]. split; [|split].
      - rewrite map_length. exact HC.
      - rewrite map_length. exact HC.
      - rewrite Forall_map. apply Forall_forall. intros c _. exact (len_rS1 nf m X c HX). }
    rewrite (score_formula eps (length (mus m)) nf model (mus m) (vars m) _ _ Hs Smu Sv (mzero_shape _ _) St).
    unfold score_spec.
    rewrite (rsum_swap (fun x p => resp m x (fst p) * dFc nf x p) X L).
    destruct Hs as [Hs1 Hs2].
    assert (HLlen : length L = length (mus m)) by (unfold L; rewrite combine_length; lia).
    rewrite (rsum_map_index _ L ((0, [], []), [])). rewrite HLlen.
    apply rsum_map_ext. intros c Hc. apply in_seq in Hc.
    set (wc := nth c (ws m) 0). set (muc := nth c (mus m) []). set (vc := nth c (vars m) []). set (mrow := nth c model []).
    assert (Ecc : nth c (comps m) (0, [], []) = (wc, muc, vc)).
    { unfold comps. unfold InstR.T in *.
      etransitivity; [apply (combine_nth (combine (ws m) (mus m)) (vars m) c (0, []) []); rewrite combine_length; unfold InstR.T in *; lia|].
      unfold wc, muc, vc. f_equal. apply (combine_nth (ws m) (mus m) c 0 []). unfold InstR.T in *; lia. }
    assert (EL : nth c L (0, [], [], []) = ((wc, muc, vc), mrow)).
    { unfold L. etransitivity; [apply (combine_nth (comps m) model c (0, [], []) []); unfold InstR.T in *; lia|]. rewrite Ecc. reflexivity. }
    rewrite EL. cbn [fst]. unfold dFc.
    assert (Epx : forall d, (d < nf)%nat -> at2 (ts_px (tstat_of (e_step nf m X))) c d
                                          = rsum (map (fun x => resp m x (wc, muc, vc) * nth d x 0) X)).
    { intros d Hd. unfold at2, tstat_of. cbn [ts_px e_step s_px].
      rewrite (nth_map_lt _ (comps m) c [] (0, [], [])) by (unfold InstR.T in *; lia). rewrite Ecc.
      exact (nth_rS1 nf m X (wc, muc, vc) d HX Hd). }
    assert (En : nth c (ts_n (tstat_of (e_step nf m X))) 0 = rsum (map (fun x => resp m x (wc, muc, vc)) X)).
    { unfold tstat_of. cbn [ts_n e_step s_n].
      rewrite (nth_map_lt _ (comps m) c 0 (0, [], [])) by (unfold InstR.T in *; lia). rewrite Ecc. reflexivity. }
    assert (Ez : forall d, (d < nf)%nat -> at2 (V.mzero (length (mus m)) nf) c d = 0).
    { intros d Hd. apply at2_mzero. lia. }
    transitivity (rsum (map (fun x => rsum (map (fun d => resp m x (wc, muc, vc)
                    * ((nth d x 0 - nth d muc 0) * (nth d mrow 0 - nth d muc 0) * / nth d vc 0)) (seq 0 nf))) X)).
    { apply rsum_map_ext. intros x _. symmetry.
      apply (rsum_map_scal_l (fun d => (nth d x 0 - nth d muc 0) * (nth d mrow 0 - nth d muc 0) * / nth d vc 0)). }
    rewrite (rsum_swap (fun x d => resp m x (wc, muc, vc)
                    * ((nth d x 0 - nth d muc 0) * (nth d mrow 0 - nth d muc 0) * / nth d vc 0)) X (seq 0 nf)).
    apply rsum_map_ext. intros d Hd. apply in_seq in Hd.
    rewrite (lin_sum (fun x => resp m x (wc, muc, vc)) (fun x => nth d x 0) X).
    rewrite (Epx d) by lia. rewrite En. rewrite (Ez d) by lia.
    unfold at2. fold muc vc mrow. unfold Rdiv. reflexivity.
Qed.
Print Assumptions score_additive.
Print Assumptions score_is_derivative.
