(* C14: whitening / WCCN at R. *)
From Coq Require Import Reals Lra List Lia Bool Arith Permutation.
From BLE Require Import Num.Scalar Num.InstR Lib.Vec Model.Linear Proofs.RLemmas.
Import ListNotations.
Open Scope R_scope.

Module NR := Linear InstR.
Import NR.

Definition rows_ok (D : nat) (X : list (list R)) := Forall (fun x => length x = D) X.
Definition mat_ok (D : nat) (M : list (list R)) := length M = D /\ rows_ok D M.
Definition mmul (D : nat) (A B : list (list R)) := V.matmul D A B.       (* all matrices here have D columns *)
Definition mT (D : nat) (A : list (list R)) := V.transpose D A.

(* contracts of the external numerics *)
Definition inv_ok (D : nat) (A M : list (list R)) : Prop :=
  mat_ok D M /\ mmul D A M = V.eye D /\ mmul D M A = V.eye D.
Definition lower_tri (L : list (list R)) : Prop := forall i j, (i < j)%nat -> nth j (nth i L []) 0 = 0.
Definition pos_diag (D : nat) (L : list (list R)) : Prop := forall i, (i < D)%nat -> 0 < nth i (nth i L []) 0.
Definition chol_ok (D : nat) (M L : list (list R)) : Prop :=
  mat_ok D L /\ lower_tri L /\ pos_diag D L /\ mmul D L (mT D L) = M.

(* ================================================================== helpers *)
(* ------------------------------------------------------------------ sums are order-independent *)
Lemma Vvsum_eq : @eq (list R -> R) V.vsum rsum.
Proof. reflexivity. Qed.

Lemma vadd_comm a b : V.vadd a b = V.vadd b a.
Proof. unfold V.vadd. revert b; induction a as [|x a IH]; intros [|y b]; simpl; try reflexivity. rewrite IH. f_equal. unfold InstR.add. ring. Qed.
Lemma vadd_assoc a b c : V.vadd a (V.vadd b c) = V.vadd (V.vadd a b) c.
Proof. unfold V.vadd. revert b c; induction a as [|x a IH]; intros [|y b] [|z c]; simpl; try reflexivity. rewrite IH. f_equal. unfold InstR.add. ring. Qed.
Lemma madd_comm a b : V.madd a b = V.madd b a.
Proof. unfold V.madd. revert b; induction a as [|x a IH]; intros [|y b]; simpl; try reflexivity. rewrite IH. f_equal. apply vadd_comm. Qed.
Lemma madd_assoc a b c : V.madd a (V.madd b c) = V.madd (V.madd a b) c.
Proof. unfold V.madd. revert b c; induction a as [|x a IH]; intros [|y b] [|z c]; simpl; try reflexivity. rewrite IH. f_equal. apply vadd_assoc. Qed.
Lemma madd_swap a b c : V.madd a (V.madd b c) = V.madd b (V.madd a c).
Proof. rewrite !madd_assoc. f_equal. apply madd_comm. Qed.
Lemma vsumv_perm d a b : Permutation a b -> V.vsumv d a = V.vsumv d b.
Proof.
  induction 1; simpl; auto.
  - now rewrite IHPermutation.
  - rewrite !vadd_assoc. f_equal. apply vadd_comm.
  - congruence.
Qed.
Lemma mean_rows_perm D X X' : Permutation X X' -> mean_rows D X = mean_rows D X'.
Proof. intros P. unfold mean_rows. rewrite (Permutation_length P), (vsumv_perm D _ _ P). reflexivity. Qed.
Lemma scatter0_perm D X X' : Permutation X X' -> scatter0 D X = scatter0 D X'.
Proof.
  unfold scatter0. induction 1; cbn [fold_right]; auto.
  - now rewrite IHPermutation.
  - apply madd_swap.
  - congruence.
Qed.
(* the centred scatter of one class *)
Definition cscat (D : nat) (Xk : list (list R)) : list (list R) := scatter0 D (centre (mean_rows D Xk) Xk).
Lemma cscat_perm D X X' : Permutation X X' -> cscat D X = cscat D X'.
Proof. intros P. unfold cscat. rewrite (mean_rows_perm D _ _ P). apply scatter0_perm. unfold centre. now apply Permutation_map. Qed.
Lemma within_scatter_cscat D cl : within_scatter D cl = fold_right (fun Xk acc => V.madd (cscat D Xk) acc) (V.mzero D D) cl.
Proof. reflexivity. Qed.

Lemma Forall2_len {A B} (P : A -> B -> Prop) l l' : Forall2 P l l' -> length l = length l'.
Proof. induction 1; simpl; auto. Qed.

(* ------------------------------------------------------------------ easy structural facts *)
(* the within-class scatter does not depend on the order in which the classes are enumerated,
   nor on the order of the samples inside a class *)
Theorem within_scatter_perm_classes (D : nat) (cl cl' : list (list (list R))) :
  Forall (rows_ok D) cl -> Permutation cl cl' -> within_scatter D cl = within_scatter D cl'.
Proof.
  intros _ P. rewrite !within_scatter_cscat. induction P; cbn [fold_right]; auto.
  - now rewrite IHP.
  - apply madd_swap.
  - congruence.
Qed.
Theorem within_scatter_perm_samples (D : nat) (cl cl' : list (list (list R))) :
  Forall (rows_ok D) cl -> Forall2 (@Permutation (list R)) cl cl' -> within_scatter D cl = within_scatter D cl'.
Proof.
  intros _ P. rewrite !within_scatter_cscat. induction P; cbn [fold_right]; auto.
  rewrite IHP. f_equal. now apply cscat_perm.
Qed.
(* hence the WCCN projection depends only on the partition *)
Theorem wccn_partition_only (inv chol : list (list R) -> list (list R)) (D : nat) (cl cl' cl'' : list (list (list R))) :
  Forall (rows_ok D) cl -> Permutation cl cl' -> Forall2 (@Permutation (list R)) cl' cl'' ->
  wccn_fit inv chol D cl = wccn_fit inv chol D cl''.
Proof.
  intros H P Q. unfold wccn_fit.
  rewrite (within_scatter_perm_classes D cl cl' H P).
  rewrite (within_scatter_perm_samples D cl' cl'' (Permutation_Forall P H) Q).
  assert (E : length cl = length cl'') by (rewrite (Permutation_length P); apply (Forall2_len _ _ _ Q)).
  unfold_R. rewrite E. reflexivity.
Qed.

Lemma filter_relabel {A} (f : nat -> nat) (l : nat) (y : list nat) (X : list A) :
  (forall a, In a y -> f a = f l -> a = l) ->
  map snd (filter (fun p => Nat.eqb (fst p) (f l)) (combine (map f y) X))
  = map snd (filter (fun p => Nat.eqb (fst p) l) (combine y X)).
Proof.
  revert X; induction y as [|a y IH]; intros [|x X] H; cbn [map combine filter fst]; try reflexivity.
  assert (IH' := IH X (fun b Hb => H b (or_intror Hb))).
  destruct (Nat.eqb_spec (f a) (f l)) as [E|N]; destruct (Nat.eqb_spec a l) as [E'|N']; cbn [map snd].
  - now rewrite IH'.
  - exfalso. apply N'. apply H; [now left|exact E].
  - exfalso. apply N. now rewrite E'.
  - exact IH'.
Qed.
(* renaming the labels by any injective map (and enumerating the renamed labels correspondingly) gives the same groups *)
Theorem group_relabel {A} (f : nat -> nat) (order y : list nat) (X : list A) :
  (forall a b, In a (order ++ y) -> In b (order ++ y) -> f a = f b -> a = b) ->
  group (map f order) (map f y) X = group order y X.
Proof.
  intros H. unfold group. rewrite map_map. apply map_ext_in. intros l Hl.
  apply filter_relabel. intros a Ha E. apply H; auto; apply in_or_app; auto.
Qed.
(* enumerating the label set in another order permutes the groups *)
Theorem group_order_perm {A} (order order' y : list nat) (X : list A) :
  Permutation order order' -> Permutation (group order y X) (group order' y X).
Proof. intros P. unfold group. now apply Permutation_map. Qed.

(* ================================================================== index form *)
Definition mkv {A} (n : nat) (f : nat -> A) : list A := map f (seq 0 n).
Definition mk (r c : nat) (f : nat -> nat -> R) : list (list R) := mkv r (fun i => mkv c (f i)).
Definition ent (M : list (list R)) (i j : nat) : R := nth j (nth i M []) 0.
Definition shape (r c : nat) (M : list (list R)) := length M = r /\ rows_ok c M.

Lemma mkv_len {A} n (f : nat -> A) : length (mkv n f) = n.
Proof. unfold mkv. now rewrite map_length, seq_length. Qed.
Lemma mkv_nth {A} n (f : nat -> A) i d : (i < n)%nat -> nth i (mkv n f) d = f i.
Proof.
  intros H. unfold mkv. rewrite (nth_indep _ d (f 0%nat)) by (rewrite map_length, seq_length; lia).
  rewrite (map_nth f (seq 0 n) 0%nat i). rewrite seq_nth by lia. reflexivity.
Qed.
Lemma mkv_ext {A} n (f g : nat -> A) : (forall i, (i < n)%nat -> f i = g i) -> mkv n f = mkv n g.
Proof. intros H. apply map_ext_in. intros i Hi. apply in_seq in Hi. apply H. lia. Qed.
Lemma mkv_eta {A} (d : A) v n : length v = n -> v = mkv n (fun i => nth i v d).
Proof.
  unfold mkv. revert n; induction v as [|a v IH]; intros [|n] H; simpl in *; try discriminate; auto.
  f_equal. rewrite <- seq_shift, map_map. apply IH. lia.
Qed.
Lemma map_mkv {A B} (g : A -> B) n f : map g (mkv n f) = mkv n (fun i => g (f i)).
Proof. unfold mkv. apply map_map. Qed.
Lemma map2_mkv {A B C} (h : A -> B -> C) n f g : V.map2 h (mkv n f) (mkv n g) = mkv n (fun i => h (f i) (g i)).
Proof. unfold mkv. induction (seq 0 n); simpl; auto. now rewrite IHl. Qed.
Lemma repeat_mkv {A} (x : A) n : repeat x n = mkv n (fun _ => x).
Proof. unfold mkv. induction n; [reflexivity|]. cbn [repeat seq map]. f_equal. rewrite <- seq_shift, map_map. exact IHn. Qed.
Lemma Forall_nth_lt {A} (P : A -> Prop) l i d : Forall P l -> (i < length l)%nat -> P (nth i l d).
Proof. intros H Hi. rewrite Forall_forall in H. apply H. now apply nth_In. Qed.
Lemma nth_map_lt {A B} (f : A -> B) l i d1 d2 : (i < length l)%nat -> nth i (map f l) d1 = f (nth i l d2).
Proof. revert i; induction l as [|a l IH]; intros [|i] H; cbn [length map nth] in *; try lia; auto. apply IH; lia. Qed.

Lemma mk_shape r c f : shape r c (mk r c f).
Proof. split. apply mkv_len. unfold rows_ok, mk, mkv. rewrite Forall_map. apply Forall_forall. intros i _. apply mkv_len. Qed.
Lemma mk_ent r c f i j : (i < r)%nat -> (j < c)%nat -> ent (mk r c f) i j = f i j.
Proof. intros. unfold ent, mk. rewrite mkv_nth by auto. now apply mkv_nth. Qed.
Lemma mk_ext r c f g : (forall i j, (i < r)%nat -> (j < c)%nat -> f i j = g i j) -> mk r c f = mk r c g.
Proof. intros H. apply mkv_ext. intros i Hi. apply mkv_ext. intros j Hj. now apply H. Qed.
Lemma mk_eta r c M : shape r c M -> M = mk r c (ent M).
Proof.
  intros [Hl Hr]. unfold mk. rewrite (mkv_eta [] M r Hl) at 1. apply mkv_ext. intros i Hi.
  unfold ent. apply mkv_eta. apply (Forall_nth_lt _ M i [] Hr). lia.
Qed.

(* real sums *)
Lemma rsum_seq_ext n f g : (forall k, (k < n)%nat -> f k = g k) -> rsum (map f (seq 0 n)) = rsum (map g (seq 0 n)).
Proof. intros H. apply rsum_map_ext. intros k Hk. apply in_seq in Hk. apply H. lia. Qed.
Lemma rsum_zero {A} (f : A -> R) l : (forall x, In x l -> f x = 0) -> rsum (map f l) = 0.
Proof. intros H. induction l; simpl; [reflexivity|]. rewrite H by now left. rewrite IHl. lra. intros; apply H; now right. Qed.
Lemma rsum_single_gen f i : forall n s, (s <= i < s + n)%nat -> (forall k, (s <= k < s + n)%nat -> k <> i -> f k = 0) ->
  rsum (map f (seq s n)) = f i.
Proof.
  induction n as [|n IH]; intros s Hi H. lia. cbn [seq map rsum].
  destruct (Nat.eq_dec s i) as [->|Hne].
  - rewrite rsum_zero. lra. intros k Hk. apply in_seq in Hk. apply H; lia.
  - rewrite (H s) by lia. rewrite IH. lra. lia. intros; apply H; lia.
Qed.
Lemma rsum_single n f i : (i < n)%nat -> (forall k, (k < n)%nat -> k <> i -> f k = 0) -> rsum (map f (seq 0 n)) = f i.
Proof. intros Hi H. apply rsum_single_gen. lia. intros; apply H; lia. Qed.
Lemma rsum_const {A} (k : R) (l : list A) : rsum (map (fun _ => k) l) = INR (length l) * k.
Proof. induction l; cbn [map rsum length]. simpl; ring. rewrite S_INR, IHl. ring. Qed.
Lemma rsum_map_sub {A} (f h : A -> R) l : rsum (map (fun x => f x - h x) l) = rsum (map f l) - rsum (map h l).
Proof. induction l; simpl; lra. Qed.
Lemma rsum_assoc {A B} (a : A -> R) (b : A -> B -> R) (c : B -> R) lK lL :
  rsum (map (fun l => rsum (map (fun k => a k * b k l) lK) * c l) lL)
  = rsum (map (fun k => a k * rsum (map (fun l => b k l * c l) lL)) lK).
Proof.
  transitivity (rsum (map (fun l => rsum (map (fun k => a k * b k l * c l) lK)) lL)).
  { apply rsum_map_ext. intros l _. symmetry. apply (rsum_map_scal_r (fun k => a k * b k l)). }
  etransitivity; [exact (rsum_swap (fun l k => a k * b k l * c l) lL lK)|]. cbv beta.
  apply rsum_map_ext. intros k _. rewrite <- rsum_map_scal_l. apply rsum_map_ext. intros; ring.
Qed.
Lemma rsum_map_seq {A} (f : A -> R) (X : list A) d : rsum (map f X) = rsum (map (fun n => f (nth n X d)) (seq 0 (length X))).
Proof. rewrite (mkv_eta d X (length X) eq_refl) at 1. unfold mkv. rewrite map_map. reflexivity. Qed.

(* ------------------------------------------------------------------ the Vec operations in index form *)
Lemma nth_tl {A} j (r : list A) d : nth j (tl r) d = nth (S j) r d.
Proof. destruct r; simpl; auto. destruct j; auto. Qed.
Lemma transpose_ix c (m : list (list R)) : V.transpose c m = mkv c (fun j => map (fun r => nth j r 0) m).
Proof.
  unfold mkv. revert m; induction c as [|c IH]; intros m; cbn [V.transpose seq map]; [reflexivity|].
  f_equal.
  - apply map_ext. intros r. destruct r; reflexivity.
  - rewrite IH, <- seq_shift, map_map. apply map_ext. intros j. rewrite map_map. apply map_ext. intros r. apply nth_tl.
Qed.
Lemma dot_ix n (a b : list R) : length a = n -> length b = n -> V.dot a b = rsum (map (fun k => nth k a 0 * nth k b 0) (seq 0 n)).
Proof.
  intros Ha Hb. unfold V.dot, V.vmul. rewrite Vvsum_eq.
  rewrite (mkv_eta 0 a n Ha) at 1. rewrite (mkv_eta 0 b n Hb) at 1. rewrite map2_mkv. reflexivity.
Qed.
(* row vector times matrix *)
Definition vm (K c : nat) (x : list R) (W : list (list R)) : list R :=
  mkv c (fun j => rsum (map (fun k => nth k x 0 * ent W k j) (seq 0 K))).
Lemma vm_len K c x W : length (vm K c x W) = c.
Proof. apply mkv_len. Qed.
Lemma matmul_rows K c (A B : list (list R)) : rows_ok K A -> length B = K -> V.matmul c A B = map (fun x => vm K c x B) A.
Proof.
  intros HA HB. unfold V.matmul. cbv zeta. rewrite transpose_ix. apply map_ext_in. intros x Hx.
  rewrite map_mkv. apply mkv_ext. intros j Hj.
  assert (Lx : length x = K) by (unfold rows_ok in HA; rewrite Forall_forall in HA; auto).
  rewrite (dot_ix K) by (auto; now rewrite map_length).
  apply rsum_seq_ext. intros k Hk. f_equal. unfold ent. apply (nth_map_lt (fun r : list R => nth j r 0) B k 0 []). unfold InstR.T in *. lia.
Qed.
Lemma mm_mkmk r K c f g :
  V.matmul c (mk r K f) (mk K c g) = mk r c (fun i j => rsum (map (fun k => f i k * g k j) (seq 0 K))).
Proof.
  destruct (mk_shape r K f) as [_ H1]. destruct (mk_shape K c g) as [H2 _].
  rewrite (matmul_rows K c _ _ H1 H2).
  transitivity (mk r c (fun i j => rsum (map (fun k => nth k (mkv K (f i)) 0 * ent (mk K c g) k j) (seq 0 K)))).
  { exact (map_mkv (fun x => vm K c x (mk K c g)) r (fun i => mkv K (f i))). }
  apply mk_ext. intros i j Hi Hj. apply rsum_seq_ext. intros k Hk. rewrite mkv_nth by auto. rewrite mk_ent by auto. reflexivity.
Qed.
Lemma tr_mk r c f : V.transpose c (mk r c f) = mk c r (fun i j => f j i).
Proof.
  rewrite transpose_ix. unfold mk. apply mkv_ext. intros j Hj. rewrite map_mkv. apply mkv_ext. intros i Hi. now apply mkv_nth.
Qed.
Lemma eye_mk n : V.eye n = mk n n (fun i j => if Nat.eqb i j then 1 else 0).
Proof. reflexivity. Qed.
Lemma mzero_mk r c : V.mzero r c = mk r c (fun _ _ => 0).
Proof. unfold V.mzero, V.vzero, mk. rewrite !repeat_mkv. reflexivity. Qed.
Lemma madd_mkmk r c f g : V.madd (mk r c f) (mk r c g) = mk r c (fun i j => f i j + g i j).
Proof. unfold V.madd, mk. rewrite map2_mkv. apply mkv_ext; intros i Hi. unfold V.vadd. apply map2_mkv. Qed.
Lemma mscale_mk s r c f : V.mscale s (mk r c f) = mk r c (fun i j => s * f i j).
Proof. unfold V.mscale, mk. rewrite map_mkv. apply mkv_ext; intros i Hi. unfold V.vscale. apply map_mkv. Qed.
Lemma outer_mk (a b : list R) r c : length a = r -> length b = c -> V.outer a b = mk r c (fun i j => nth i a 0 * nth j b 0).
Proof.
  intros Ha Hb. unfold V.outer.
  transitivity (map (fun x => map (fun y => x * y) (mkv c (fun j => nth j b 0))) (mkv r (fun i => nth i a 0))).
  { rewrite <- (mkv_eta 0 b c Hb), <- (mkv_eta 0 a r Ha). reflexivity. }
  rewrite map_mkv. apply mkv_ext; intros i Hi. apply map_mkv.
Qed.
Lemma scatter0_mk D X : rows_ok D X -> scatter0 D X = mk D D (fun i j => rsum (map (fun x => nth i x 0 * nth j x 0) X)).
Proof.
  induction 1 as [|x X Hx HX IH]; cbn [scatter0 fold_right].
  - apply mzero_mk.
  - fold (scatter0 D X). rewrite IH, (outer_mk x x D D Hx Hx), madd_mkmk. reflexivity.
Qed.

(* ------------------------------------------------------------------ shapes *)
Lemma mat_ok_shape D M : mat_ok D M -> shape D D M.
Proof. exact (fun H => H). Qed.
Lemma transpose_len c (m : list (list R)) : length (V.transpose c m) = c.
Proof. rewrite transpose_ix. apply mkv_len. Qed.
Lemma matmul_len c (A B : list (list R)) : length (V.matmul c A B) = length A.
Proof. unfold V.matmul. cbv zeta. apply map_length. Qed.
Lemma shape_matmul r c (A B : list (list R)) : length A = r -> shape r c (V.matmul c A B).
Proof.
  intros H. split. now rewrite matmul_len. unfold V.matmul. cbv zeta. unfold rows_ok. rewrite Forall_map. apply Forall_forall. intros x _.
  rewrite map_length. apply transpose_len.
Qed.
Lemma shape_transpose r c (A : list (list R)) : length A = r -> shape c r (V.transpose c A).
Proof.
  intros H. rewrite transpose_ix. split. apply mkv_len. unfold rows_ok, mkv. rewrite Forall_map. apply Forall_forall.
  intros j _. now rewrite map_length.
Qed.
Lemma shape_mscale s r c (A : list (list R)) : shape r c A -> shape r c (V.mscale s A).
Proof. intros H. rewrite (mk_eta _ _ A H), mscale_mk. apply mk_shape. Qed.
Lemma shape_madd r c (A B : list (list R)) : shape r c A -> shape r c B -> shape r c (V.madd A B).
Proof. intros HA HB. rewrite (mk_eta _ _ A HA), (mk_eta _ _ B HB), madd_mkmk. apply mk_shape. Qed.
Lemma shape_eye n : shape n n (V.eye n).
Proof. rewrite eye_mk. apply mk_shape. Qed.
Lemma shape_mzero r c : shape r c (V.mzero r c).
Proof. rewrite mzero_mk. apply mk_shape. Qed.
Lemma shape_scatter0 D X : rows_ok D X -> shape D D (scatter0 D X).
Proof. intros H. rewrite (scatter0_mk D X H). apply mk_shape. Qed.
Lemma shape_rows D (X : list (list R)) : rows_ok D X -> shape (length X) D X.
Proof. intros H. split; auto. Qed.

(* ------------------------------------------------------------------ matrix identities *)
Lemma ent_mm r K c (A B : list (list R)) i j : shape r K A -> shape K c B -> (i < r)%nat -> (j < c)%nat ->
  ent (V.matmul c A B) i j = rsum (map (fun k => ent A i k * ent B k j) (seq 0 K)).
Proof.
  intros HA HB Hi Hj. pose proof (mm_mkmk r K c (ent A) (ent B)) as E.
  rewrite <- (mk_eta _ _ A HA), <- (mk_eta _ _ B HB) in E. rewrite E. now apply mk_ent.
Qed.
Lemma mm_assoc r K K' c (A B C : list (list R)) : shape r K A -> shape K K' B -> shape K' c C ->
  V.matmul c (V.matmul K' A B) C = V.matmul c A (V.matmul c B C).
Proof.
  intros HA HB HC. rewrite (mk_eta _ _ A HA), (mk_eta _ _ B HB), (mk_eta _ _ C HC), !mm_mkmk.
  apply mk_ext; intros i j _ _.
  exact (rsum_assoc (fun k => ent A i k) (fun k l => ent B k l) (fun l => ent C l j) (seq 0 K) (seq 0 K')).
Qed.
Lemma transpose_mm r K c (A B : list (list R)) : shape r K A -> shape K c B ->
  V.transpose c (V.matmul c A B) = V.matmul r (V.transpose c B) (V.transpose K A).
Proof.
  intros HA HB. rewrite (mk_eta _ _ A HA), (mk_eta _ _ B HB), mm_mkmk, !tr_mk, mm_mkmk.
  apply mk_ext; intros. apply rsum_map_ext; intros; ring.
Qed.
Lemma mscale_mm_r s r K c (A B : list (list R)) : shape r K A -> shape K c B ->
  V.mscale s (V.matmul c A B) = V.matmul c A (V.mscale s B).
Proof.
  intros HA HB. rewrite (mk_eta _ _ A HA), (mk_eta _ _ B HB), mm_mkmk, !mscale_mk, mm_mkmk.
  apply mk_ext; intros. rewrite <- rsum_map_scal_l. apply rsum_map_ext; intros; ring.
Qed.
Lemma mscale_mm_l s r K c (A B : list (list R)) : shape r K A -> shape K c B ->
  V.mscale s (V.matmul c A B) = V.matmul c (V.mscale s A) B.
Proof.
  intros HA HB. rewrite (mk_eta _ _ A HA), (mk_eta _ _ B HB), mm_mkmk, !mscale_mk, mm_mkmk.
  apply mk_ext; intros. rewrite <- rsum_map_scal_l. apply rsum_map_ext; intros; ring.
Qed.
Lemma mm_madd_l r K c (A A' B : list (list R)) : shape r K A -> shape r K A' -> shape K c B ->
  V.matmul c (V.madd A A') B = V.madd (V.matmul c A B) (V.matmul c A' B).
Proof.
  intros HA HA' HB. rewrite (mk_eta _ _ A HA), (mk_eta _ _ A' HA'), (mk_eta _ _ B HB), madd_mkmk, !mm_mkmk, madd_mkmk.
  apply mk_ext; intros. rewrite <- rsum_map_add. apply rsum_map_ext; intros; ring.
Qed.
Lemma mm_madd_r r K c (A B B' : list (list R)) : shape r K A -> shape K c B -> shape K c B' ->
  V.matmul c A (V.madd B B') = V.madd (V.matmul c A B) (V.matmul c A B').
Proof.
  intros HA HB HB'. rewrite (mk_eta _ _ A HA), (mk_eta _ _ B HB), (mk_eta _ _ B' HB'), madd_mkmk, !mm_mkmk, madd_mkmk.
  apply mk_ext; intros. rewrite <- rsum_map_add. apply rsum_map_ext; intros; ring.
Qed.
Lemma mm_zero_l r K c (B : list (list R)) : shape K c B -> V.matmul c (V.mzero r K) B = V.mzero r c.
Proof.
  intros HB. rewrite (mk_eta _ _ B HB), !mzero_mk, mm_mkmk. apply mk_ext; intros. apply rsum_zero; intros; ring.
Qed.
Lemma mm_zero_r r K c (A : list (list R)) : shape r K A -> V.matmul c A (V.mzero K c) = V.mzero r c.
Proof.
  intros HA. rewrite (mk_eta _ _ A HA), !mzero_mk, mm_mkmk. apply mk_ext; intros. apply rsum_zero; intros; ring.
Qed.
Lemma eye_l D c (A : list (list R)) : shape D c A -> V.matmul c (V.eye D) A = A.
Proof.
  intros HA. rewrite (mk_eta _ _ A HA), eye_mk, mm_mkmk. apply mk_ext; intros i j Hi Hj.
  rewrite (rsum_single D _ i Hi). rewrite Nat.eqb_refl; ring.
  intros k Hk Hne. destruct (Nat.eqb_spec i k); [congruence|ring].
Qed.
Lemma eye_r r D (A : list (list R)) : shape r D A -> V.matmul D A (V.eye D) = A.
Proof.
  intros HA. rewrite (mk_eta _ _ A HA), eye_mk, mm_mkmk. apply mk_ext; intros i j Hi Hj.
  rewrite (rsum_single D _ j Hj). rewrite Nat.eqb_refl; ring.
  intros k Hk Hne. destruct (Nat.eqb_spec k j); [congruence|ring].
Qed.

(* ------------------------------------------------------------------ data: sums, means, centring *)
Lemma vsub_ix n (a b : list R) : length a = n -> length b = n -> V.vsub a b = mkv n (fun i => nth i a 0 - nth i b 0).
Proof.
  intros Ha Hb. unfold V.vsub. rewrite (mkv_eta 0 a n Ha) at 1. rewrite (mkv_eta 0 b n Hb) at 1. rewrite map2_mkv. reflexivity.
Qed.
Lemma vsumv_ix D (X : list (list R)) : rows_ok D X -> V.vsumv D X = mkv D (fun j => rsum (map (fun x => nth j x 0) X)).
Proof.
  induction 1 as [|x X Hx HX IH]; cbn [V.vsumv map rsum].
  - unfold V.vzero. apply repeat_mkv.
  - rewrite IH. unfold V.vadd. rewrite (mkv_eta 0 x D Hx) at 1. rewrite map2_mkv. reflexivity.
Qed.
Lemma mean_rows_ix D (X : list (list R)) : rows_ok D X ->
  mean_rows D X = mkv D (fun j => rsum (map (fun x => nth j x 0) X) / INR (length X)).
Proof. intros H. unfold mean_rows. rewrite (vsumv_ix D X H), map_mkv. reflexivity. Qed.
Lemma mean_rows_len D (X : list (list R)) : rows_ok D X -> length (mean_rows D X) = D.
Proof. intros H. rewrite (mean_rows_ix D X H). apply mkv_len. Qed.
Lemma rows_ok_centre D (mu : list R) (X : list (list R)) : length mu = D -> rows_ok D X -> rows_ok D (centre mu X).
Proof.
  intros Hm HX. unfold centre, rows_ok. rewrite Forall_map. eapply Forall_impl; [|exact HX]. intros x Hx.
  rewrite (vsub_ix D x mu Hx Hm). apply mkv_len.
Qed.
Lemma rows_ok_matmul c (A B : list (list R)) : rows_ok c (V.matmul c A B).
Proof. apply (shape_matmul (length A) c A B eq_refl). Qed.
Lemma centre_zero D (Y : list (list R)) : rows_ok D Y -> centre (V.vzero D) Y = Y.
Proof.
  intros HY. unfold centre. transitivity (map (fun y : list R => y) Y); [|apply map_id]. apply map_ext_in. intros y Hy.
  assert (Ly : length y = D) by (unfold rows_ok in HY; rewrite Forall_forall in HY; auto).
  rewrite (vsub_ix D y (V.vzero D) Ly) by apply repeat_length. etransitivity; [|symmetry; apply (mkv_eta 0 y D Ly)].
  apply mkv_ext. intros j Hj. unfold V.vzero. rewrite repeat_mkv, mkv_nth by auto. unfold InstR.zero. ring.
Qed.
Lemma vm_sub K c (x m : list R) (W : list (list R)) : length x = K -> length m = K ->
  V.vsub (vm K c x W) (vm K c m W) = vm K c (V.vsub x m) W.
Proof.
  intros Hx Hm. unfold vm. unfold V.vsub at 1. rewrite map2_mkv. apply mkv_ext; intros j Hj.
  rewrite (vsub_ix K x m Hx Hm).
  etransitivity; [symmetry; apply (rsum_map_sub (fun k => nth k x 0 * ent W k j) (fun k => nth k m 0 * ent W k j))|].
  apply rsum_seq_ext; intros k Hk. rewrite mkv_nth by auto. ring.
Qed.
(* the mean of the rows of X W is (mean of the rows of X) W *)
Lemma mean_rows_mm K c (X W : list (list R)) : rows_ok K X -> length W = K ->
  mean_rows c (V.matmul c X W) = vm K c (mean_rows K X) W.
Proof.
  intros HX HW. rewrite (matmul_rows K c X W HX HW).
  rewrite mean_rows_ix by (unfold rows_ok; rewrite Forall_map; apply Forall_forall; intros; apply vm_len).
  rewrite map_length, (mean_rows_ix K X HX). unfold vm. apply mkv_ext; intros j Hj. rewrite map_map.
  transitivity (rsum (map (fun x => rsum (map (fun k => nth k x 0 * ent W k j) (seq 0 K))) X) / INR (length X)).
  { f_equal. apply rsum_map_ext; intros x _. rewrite mkv_nth by auto. reflexivity. }
  etransitivity; [apply (f_equal (fun t => t / INR (length X))); exact (rsum_swap (fun x k => nth k x 0 * ent W k j) X (seq 0 K))|].
  cbv beta. unfold Rdiv. rewrite <- rsum_map_scal_r. apply rsum_seq_ext; intros k Hk. rewrite mkv_nth by auto.
  rewrite (rsum_map_scal_r (fun x => nth k x 0)). unfold Rdiv; ring.
Qed.
Lemma mean_rows_centre D (X : list (list R)) : X <> [] -> rows_ok D X -> mean_rows D (centre (mean_rows D X) X) = V.vzero D.
Proof.
  intros Hne HX. assert (Hm := mean_rows_len D X HX).
  rewrite (mean_rows_ix D (centre _ X)) by (now apply rows_ok_centre).
  unfold V.vzero. rewrite repeat_mkv. apply mkv_ext; intros j Hj.
  unfold centre. rewrite map_length, map_map.
  transitivity (rsum (map (fun x => nth j x 0 - nth j (mean_rows D X) 0) X) / INR (length X)).
  { f_equal. apply rsum_map_ext. intros x Hx.
    assert (Lx : length x = D) by (unfold rows_ok in HX; rewrite Forall_forall in HX; auto).
    rewrite (vsub_ix D x _ Lx Hm). rewrite mkv_nth by auto. reflexivity. }
  rewrite rsum_map_sub, rsum_const. rewrite (mean_rows_ix D X HX). rewrite mkv_nth by auto.
  assert (INR (length X) <> 0). { apply not_0_INR. destruct X; simpl; congruence. }
  unfold_R. field. auto.
Qed.
(* centring commutes with a linear map *)
Lemma centre_mm D (X W : list (list R)) : rows_ok D X -> length W = D ->
  centre (mean_rows D (V.matmul D X W)) (V.matmul D X W) = V.matmul D (centre (mean_rows D X) X) W.
Proof.
  intros HX HW. assert (Hm := mean_rows_len D X HX).
  rewrite (mean_rows_mm D D X W HX HW).
  rewrite (matmul_rows D D X W HX HW).
  rewrite (matmul_rows D D (centre (mean_rows D X) X) W) by (auto; now apply rows_ok_centre).
  unfold centre. rewrite !map_map. apply map_ext_in. intros x Hx.
  assert (Lx : length x = D) by (unfold rows_ok in HX; rewrite Forall_forall in HX; auto).
  now apply vm_sub.
Qed.

(* ------------------------------------------------------------------ whitening *)
Theorem whiten_mean_zero (D : nat) (X W : list (list R)) : X <> [] -> rows_ok D X -> mat_ok D W ->
  mean_rows D (project D (mean_rows D X) W X) = V.vzero D.
Proof.
  intros Hne HX [HWl HWr]. unfold project. assert (Hm := mean_rows_len D X HX).
  rewrite (mean_rows_mm D D) by (auto; now apply rows_ok_centre).
  rewrite mean_rows_centre by auto. unfold vm, V.vzero. rewrite !repeat_mkv. apply mkv_ext; intros j Hj.
  apply rsum_zero. intros k Hk. apply in_seq in Hk. rewrite mkv_nth by lia. unfold InstR.zero; ring.
Qed.

(* a lower-triangular matrix with positive diagonal is injective (forward substitution) *)
Lemma tri_inj D (L : list (list R)) (y : nat -> R) : lower_tri L -> pos_diag D L ->
  (forall i, (i < D)%nat -> rsum (map (fun k => ent L i k * y k) (seq 0 D)) = 0) ->
  forall i, (i < D)%nat -> y i = 0.
Proof.
  intros T P H i. induction i as [i IH] using lt_wf_ind. intros Hi.
  specialize (H i Hi). rewrite (rsum_single D _ i Hi) in H.
  - specialize (P i Hi). fold (ent L i i) in P. apply Rmult_integral in H. destruct H; [lra|assumption].
  - intros k Hk Hne. destruct (Nat.lt_ge_cases k i) as [Hlt|Hge].
    + rewrite (IH k Hlt Hk). ring.
    + unfold ent. rewrite (T i k) by lia. ring.
Qed.

(* core algebra: with M the inverse of C and L the lower Cholesky factor of M,  L^T C L = I *)
Theorem Lt_C_L_identity (D : nat) (Cm M L : list (list R)) :
  mat_ok D Cm -> inv_ok D Cm M -> chol_ok D M L ->
  mmul D (mT D L) (mmul D Cm L) = V.eye D.
Proof.
  intros HC (HM & E1 & E2) (HL & Tri & Pos & E3). unfold mmul, mT in *.
  apply mat_ok_shape in HC, HM, HL.
  assert (HLt : shape D D (V.transpose D L)) by (apply shape_transpose; apply HL).
  set (R := V.matmul D (V.transpose D L) Cm).
  assert (HR : shape D D R) by (apply shape_matmul; apply HLt).
  assert (S1 : V.matmul D L R = V.eye D).
  { unfold R. rewrite <- (mm_assoc D D D D L (V.transpose D L) Cm HL HLt HC). rewrite E3. exact E2. }
  set (Q := V.matmul D R L).
  assert (HQ : shape D D Q) by (apply shape_matmul; apply HR).
  assert (S2 : V.matmul D L Q = L).
  { unfold Q. rewrite <- (mm_assoc D D D D L R L HL HR HL). rewrite S1. apply eye_l. exact HL. }
  assert (S3 : Q = V.eye D).
  { rewrite (mk_eta D D Q HQ), eye_mk. apply mk_ext. intros i j Hi Hj.
    assert (Y : forall k, (k < D)%nat -> ent Q k j - (if Nat.eqb k j then 1 else 0) = 0).
    { apply (tri_inj D L (fun k => ent Q k j - (if Nat.eqb k j then 1 else 0)) Tri Pos). intros i' Hi'.
      transitivity (rsum (map (fun k => ent L i' k * ent Q k j) (seq 0 D))
                    - rsum (map (fun k => ent L i' k * (if Nat.eqb k j then 1 else 0)) (seq 0 D))).
      { rewrite <- rsum_map_sub. apply rsum_map_ext; intros; ring. }
      rewrite <- (ent_mm D D D L Q i' j HL HQ Hi' Hj). rewrite S2.
      rewrite (rsum_single D _ j Hj). rewrite Nat.eqb_refl. ring.
      intros k Hk Hne. destruct (Nat.eqb_spec k j); [congruence|ring]. }
    specialize (Y i Hi). lra. }
  rewrite <- S3. unfold Q, R. symmetry. apply (mm_assoc D D D D _ Cm L HLt HC HL).
Qed.

(* the scatter is X^T X; under a linear map W it becomes W^T (X^T X) W *)
Lemma scatter0_mm D (X : list (list R)) : rows_ok D X -> scatter0 D X = V.matmul D (V.transpose D X) X.
Proof.
  intros HX. assert (S := shape_rows D X HX). rewrite (scatter0_mk D X HX).
  transitivity (V.matmul D (V.transpose D (mk (length X) D (ent X))) (mk (length X) D (ent X))); [|now rewrite <- (mk_eta _ _ X S)].
  rewrite tr_mk, mm_mkmk. apply mk_ext. intros i j Hi Hj. rewrite (rsum_map_seq _ X []). reflexivity.
Qed.
Lemma scatter0_mm_W D (Z W : list (list R)) : rows_ok D Z -> shape D D W ->
  scatter0 D (V.matmul D Z W) = V.matmul D (V.transpose D W) (V.matmul D (scatter0 D Z) W).
Proof.
  intros HZ HW. assert (SZ := shape_rows D Z HZ).
  assert (SY : shape (length Z) D (V.matmul D Z W)) by (now apply shape_matmul).
  assert (SWt : shape D D (V.transpose D W)) by (apply shape_transpose; apply HW).
  assert (SZt : shape D (length Z) (V.transpose D Z)) by (now apply shape_transpose).
  rewrite (scatter0_mm D (V.matmul D Z W)) by apply SY.
  rewrite (transpose_mm (length Z) D D Z W SZ HW).
  rewrite (mm_assoc D D (length Z) D _ _ _ SWt SZt SY).
  f_equal.
  rewrite <- (mm_assoc D (length Z) D D _ _ _ SZt SZ HW). rewrite <- (scatter0_mm D Z HZ). reflexivity.
Qed.

(* covariance of linearly mapped, centred data:  cov (centre X @ W) = W^T cov(X) W *)
Theorem cov_linear_map (D : nat) (X W : list (list R)) : (2 <= length X)%nat -> rows_ok D X -> mat_ok D W ->
  cov D (project D (mean_rows D X) W X) = mmul D (mT D W) (mmul D (cov D X) W).
Proof.
  intros HN HX HW. assert (Hne : X <> []) by (destruct X; simpl in *; [lia|congruence]).
  assert (Hm := mean_rows_len D X HX).
  assert (HXc : rows_ok D (centre (mean_rows D X) X)) by (now apply rows_ok_centre).
  assert (SWt : shape D D (V.transpose D W)) by (apply shape_transpose; apply HW).
  assert (SS : shape D D (scatter0 D (centre (mean_rows D X) X))) by (now apply shape_scatter0).
  unfold cov at 1. rewrite (whiten_mean_zero D X W Hne HX HW).
  assert (EL : length (project D (mean_rows D X) W X) = length X).
  { unfold project. rewrite matmul_len. unfold centre. apply map_length. }
  unfold InstR.T in *. rewrite EL. unfold project.
  rewrite centre_zero by apply rows_ok_matmul.
  rewrite (scatter0_mm_W D _ W HXc HW).
  unfold mmul, mT, cov.
  set (s := InstR.div InstR.one (InstR.ofnat (length X - 1))).
  rewrite (mscale_mm_r s D D D _ _ SWt) by (now apply shape_matmul; apply SS).
  rewrite (mscale_mm_l s D D D _ _ SS HW). reflexivity.
Qed.

Theorem whiten_cov_identity (inv chol : list (list R) -> list (list R)) (D : nat) (X : list (list R)) :
  (2 <= length X)%nat -> rows_ok D X ->
  inv_ok D (cov D X) (inv (cov D X)) -> chol_ok D (inv (cov D X)) (chol (inv (cov D X))) ->
  let '(mu, W) := whiten_fit inv chol D X in
  cov D (project D mu W X) = V.eye D.
Proof.
  intros HN HX HI HCh. unfold whiten_fit.
  assert (HW : mat_ok D (chol (inv (cov D X)))) by apply HCh.
  rewrite (cov_linear_map D X _ HN HX HW).
  apply (Lt_C_L_identity D (cov D X) (inv (cov D X)) _); auto.
  unfold cov. apply shape_mscale. apply shape_scatter0. apply rows_ok_centre; auto. now apply mean_rows_len.
Qed.

(* ------------------------------------------------------------------ WCCN *)
(* transformed classes: x @ W (input_subtract = 0) *)
Definition wccn_apply (D : nat) (W : list (list R)) (cl : list (list (list R))) := map (fun Xk => mmul D Xk W) cl.

Lemma shape_cscat D (X : list (list R)) : rows_ok D X -> shape D D (cscat D X).
Proof. intros H. unfold cscat. apply shape_scatter0. apply rows_ok_centre; auto. now apply mean_rows_len. Qed.
Lemma cscat_mm D (X W : list (list R)) : rows_ok D X -> shape D D W ->
  cscat D (V.matmul D X W) = V.matmul D (V.transpose D W) (V.matmul D (cscat D X) W).
Proof.
  intros HX HW. unfold cscat. rewrite (centre_mm D X W HX (proj1 HW)). apply scatter0_mm_W; auto.
  apply rows_ok_centre; auto. now apply mean_rows_len.
Qed.
Lemma shape_within D (cl : list (list (list R))) : Forall (rows_ok D) cl -> shape D D (within_scatter D cl).
Proof.
  intros H. rewrite within_scatter_cscat. induction H as [|Xk cl HXk Hcl IH]; cbn [fold_right].
  - apply shape_mzero.
  - apply shape_madd; auto. now apply shape_cscat.
Qed.
Lemma within_mm D (W : list (list R)) (cl : list (list (list R))) : Forall (rows_ok D) cl -> shape D D W ->
  within_scatter D (map (fun Xk : list (list R) => V.matmul D Xk W) cl)
  = V.matmul D (V.transpose D W) (V.matmul D (within_scatter D cl) W).
Proof.
  intros H HW. assert (SWt : shape D D (V.transpose D W)) by (apply shape_transpose; apply HW).
  induction H as [|Xk cl HXk Hcl IH].
  - cbn [map within_scatter fold_right]. rewrite (mm_zero_l D D D W HW). rewrite (mm_zero_r D D D _ SWt). reflexivity.
  - assert (SC := shape_cscat D Xk HXk). assert (SI := shape_within D cl Hcl).
    rewrite !within_scatter_cscat in *. cbn [map fold_right]. rewrite IH.
    rewrite (cscat_mm D Xk W HXk HW).
    rewrite <- !within_scatter_cscat in *.
    rewrite (mm_madd_l D D D _ _ W SC SI HW).
    rewrite (mm_madd_r D D D _ _ _ SWt) by (apply shape_matmul; first [apply SC|apply SI]).
    reflexivity.
Qed.

Theorem wccn_scatter_identity (inv chol : list (list R) -> list (list R)) (D : nat) (cl : list (list (list R))) :
  cl <> [] -> Forall (fun Xk => Xk <> [] /\ rows_ok D Xk) cl ->
  let Sw := V.mscale (1 / INR (length cl)) (within_scatter D cl) in
  inv_ok D Sw (inv Sw) -> chol_ok D (inv Sw) (chol (inv Sw)) ->
  V.mscale (1 / INR (length cl)) (within_scatter D (wccn_apply D (wccn_fit inv chol D cl) cl)) = V.eye D.
Proof.
  intros Hne H Sw HI HCh.
  assert (Hr : Forall (rows_ok D) cl) by (eapply Forall_impl; [|exact H]; intros ? [? ?]; auto).
  assert (EW : wccn_fit inv chol D cl = chol (inv Sw)) by reflexivity.
  rewrite EW. set (W := chol (inv Sw)) in *.
  assert (HW : shape D D W) by apply HCh.
  assert (SWt : shape D D (V.transpose D W)) by (apply shape_transpose; apply HW).
  assert (SI := shape_within D cl Hr).
  unfold wccn_apply, mmul. rewrite (within_mm D W cl Hr HW).
  rewrite (mscale_mm_r _ D D D _ _ SWt) by (apply shape_matmul; apply SI).
  rewrite (mscale_mm_l _ D D D _ _ SI HW). fold Sw.
  apply (Lt_C_L_identity D Sw (inv Sw) W); auto.
  unfold Sw. apply shape_mscale. exact SI.
Qed.

Print Assumptions wccn_partition_only.
Print Assumptions Lt_C_L_identity.
Print Assumptions whiten_cov_identity.
Print Assumptions wccn_scatter_identity.
