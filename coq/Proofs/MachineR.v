(* C17: after ANY history of public operations the object's cached log-weights and normalisers are those
   of its visible parameters, its variances are a fixed point of the clamp to its current floors, and what
   it computes equals what a machine with the same visible parameters computes.  Statements fixed. *)
From Coq Require Import Reals Lra List Lia Bool Arith.
From BLE Require Import Num.Scalar Num.InstR Lib.Vec Model.GMM Model.Machine Proofs.RLemmas.
Import ListNotations.
Open Scope R_scope.

Module OR := Machine InstR.
Import OR OR.G.

(* the invariant: no stale log-weight, normaliser or floor *)
Definition floors_hold (m : mach) : Prop :=
  clampv (bcast (length (o_var m)) (length (hd [] (o_var m))) (o_thr m)) (o_var m) = o_var m.
Definition Inv (m : mach) : Prop :=
  o_lw m = map InstR.ln (o_w m) /\ o_gn m = map gnorm (o_var m) /\ floors_hold m.

(* ------------------------------------------------------------ list helpers *)
Lemma m_nth_map_lt {A B} (f : A -> B) l i d1 d2 : (i < length l)%nat -> nth i (map f l) d1 = f (nth i l d2).
Proof. revert i; induction l as [|a l IH]; intros [|i] H; cbn [length map nth] in *; try lia; auto. apply IH; lia. Qed.
Lemma m_list_eq_seq {A} (l : list A) d0 : l = map (fun i => nth i l d0) (seq 0 (length l)).
Proof.
  induction l as [|a l IH]; cbn [length seq map nth]; [reflexivity|].
  f_equal. rewrite <- seq_shift, map_map. exact IH.
Qed.
Lemma m_nth_map2 {A B C} (f : A -> B -> C) a b i da db dc :
  (i < length a)%nat -> (i < length b)%nat -> nth i (V.map2 f a b) dc = f (nth i a da) (nth i b db).
Proof.
  revert b i; induction a as [|x a IH]; intros [|y b] [|i] H1 H2; cbn [V.map2 length nth] in *; try lia; auto.
  apply IH; lia.
Qed.
Lemma map2_repeat_l {A B C} (f : A -> B -> C) (a : A) (v : list B) :
  V.map2 f (repeat a (length v)) v = map (f a) v.
Proof. induction v as [|y v IH]; cbn [length repeat V.map2 map]; [reflexivity|]. now rewrite IH. Qed.
Lemma map2_idem {A B} (f : A -> B -> B) (a : list A) (b : list B) :
  (forall x y, f x (f x y) = f x y) -> V.map2 f a (V.map2 f a b) = V.map2 f a b.
Proof.
  intros H. revert b; induction a as [|x a IH]; intros [|y b]; cbn [V.map2]; try reflexivity.
  now rewrite H, IH.
Qed.
Lemma map2_map_self {A B C} (f : B -> A -> C) (g : A -> B) (X : list A) :
  V.map2 f (map g X) X = map (fun x => f (g x) x) X.
Proof. induction X as [|x X IH]; cbn [map V.map2]; [reflexivity|]. now rewrite IH. Qed.

(* ------------------------------------------------------------ clamping is idempotent *)
Lemma fmax_idem (t x : R) : V.fmax t (V.fmax t x) = V.fmax t x.
Proof.
  unfold V.fmax. destruct (InstR.leb x t) eqn:E.
  - assert (E2 : InstR.leb t t = true) by (apply leb_true; lra). now rewrite E2.
  - now rewrite E.
Qed.
Lemma fmax_fix (t x : R) : V.fmax t x = x -> t <= x.
Proof.
  unfold V.fmax. destruct (InstR.leb x t) eqn:E; intros H.
  - apply leb_true in E. lra.
  - apply leb_false in E. lra.
Qed.
Lemma row_idem (r s : list R) :
  V.map2 (fun t x => V.fmax t x) r (V.map2 (fun t x => V.fmax t x) r s) = V.map2 (fun t x => V.fmax t x) r s.
Proof. apply map2_idem. intros; apply fmax_idem. Qed.
Lemma len_fmax_repeat (x : R) (r : list R) :
  length (V.map2 (fun t y => V.fmax t y) (repeat x (length r)) r) = length r.
Proof. rewrite map2_repeat_l. apply map_length. Qed.

Lemma scal_idem {A} (f : A -> A -> A) (x : A) (v : list (list A)) :
  (forall a y, f a (f a y) = f a y) ->
  let v' := V.map2 (V.map2 f) (repeat (repeat x (length (hd [] v))) (length v)) v in
  V.map2 (V.map2 f) (repeat (repeat x (length (hd [] v'))) (length v')) v' = v'.
Proof.
  intros H v'.
  assert (E : v' = map (V.map2 f (repeat x (length (hd [] v)))) v) by (unfold v'; apply map2_repeat_l).
  clearbody v'. subst v'.
  assert (D : length (hd [] (map (V.map2 f (repeat x (length (hd [] v)))) v)) = length (hd [] v)).
  { destruct v as [|r0 v]; cbn [map hd length]; [reflexivity|]. rewrite map2_repeat_l. apply map_length. }
  rewrite D, map2_repeat_l, map_map. apply map_ext. intros r. apply map2_idem. exact H.
Qed.
Lemma row_idem_gen {A} (f : A -> A -> A) (r : list A) (v : list (list A)) :
  (forall a y, f a (f a y) = f a y) ->
  let v' := V.map2 (V.map2 f) (repeat r (length v)) v in
  V.map2 (V.map2 f) (repeat r (length v')) v' = v'.
Proof.
  intros H v'.
  assert (E : v' = map (V.map2 f r) v) by (unfold v'; apply map2_repeat_l).
  clearbody v'. subst v'.
  rewrite map2_repeat_l, map_map. apply map_ext. intros s. apply map2_idem. exact H.
Qed.

Lemma clamp_idem (t : thr_t) (v : list (list R)) :
  let v' := clampv (bcast (length v) (length (hd [] v)) t) v in
  clampv (bcast (length v') (length (hd [] v')) t) v' = v'.
Proof.
  destruct t as [x|r|M]; cbn [bcast]; unfold clampv.
  - exact (scal_idem (fun t y => V.fmax t y) x v fmax_idem).
  - exact (row_idem_gen (fun t y => V.fmax t y) r v fmax_idem).
  - cbv zeta. apply map2_idem. intros r s. apply row_idem.
Qed.

(* ------------------------------------------------------------ the setters maintain the invariant *)
Lemma inv_set_var (m : mach) (v : list (list R)) : o_lw m = map InstR.ln (o_w m) -> Inv (set_var m v).
Proof.
  intros H. unfold Inv, floors_hold, set_var. cbn [o_w o_lw o_var o_gn o_thr].
  split; [exact H|]. split; [reflexivity|]. apply (clamp_idem (o_thr m) v).
Qed.
Lemma inv_set_w (m : mach) (w : list R) : Inv m -> Inv (set_w m w).
Proof.
  intros (H1 & H2 & H3). unfold Inv, floors_hold, set_w in *. cbn [o_w o_lw o_var o_gn o_thr].
  split; [reflexivity|]. split; assumption.
Qed.
Lemma inv_set_mu (m : mach) (mu : list (list R)) : Inv m -> Inv (set_mu m mu).
Proof.
  intros (H1 & H2 & H3). unfold Inv, floors_hold, set_mu in *. cbn [o_w o_lw o_var o_gn o_thr].
  split; [assumption|]. split; assumption.
Qed.
Lemma inv_set_thr (m : mach) (t : thr_t) : Inv m -> Inv (set_thr m t).
Proof. intros (H1 & _). unfold set_thr. apply inv_set_var. cbn [o_w o_lw]. exact H1. Qed.
Lemma inv_em_step sw eps nf (m : mach) X : Inv m -> Inv (em_step sw eps nf m X).
Proof.
  intros H. unfold em_step. cbv zeta.
  set (m1 := if upd_ws sw then set_w m _ else m).
  assert (I1 : Inv m1) by (unfold m1; destruct (upd_ws sw); [apply inv_set_w|]; exact H).
  clearbody m1.
  set (m2 := if upd_means sw then set_mu m1 _ else m1).
  assert (I2 : Inv m2) by (unfold m2; destruct (upd_means sw); [apply inv_set_mu|]; exact I1).
  clearbody m2.
  destruct (upd_vars sw); [|exact I2]. apply inv_set_var. exact (proj1 I2).
Qed.

Theorem inv_fresh (w : list R) (mu v : list (list R)) (t : thr_t) : Inv (fresh w mu v t).
Proof. unfold fresh. apply inv_set_var. reflexivity. Qed.
Theorem inv_step (m : mach) (o : op) : Inv m -> Inv (step m o).
Proof.
  intros H. destruct o; cbn [step].
  - apply inv_set_w; exact H.
  - apply inv_set_mu; exact H.
  - apply inv_set_var; exact (proj1 H).
  - apply inv_set_thr; exact H.
  - apply inv_em_step; exact H.
  - exact H.
  - exact H.
  - unfold rebuild. apply inv_set_var. reflexivity.
  - apply inv_set_var. reflexivity.
Qed.
Lemma inv_run (ops : list op) : forall m, Inv m -> Inv (run m ops).
Proof.
  unfold run. induction ops as [|o ops IH]; intros m H; cbn [fold_left]; [exact H|].
  apply IH. apply inv_step. exact H.
Qed.
(* every reachable state: any finite sequence of setter calls (scalar / per-feature / matrix floors, raised or
   lowered), EM steps with any switches, deep copies, pickles and save/load round trips, from any machine *)
Theorem inv_reachable (w : list R) (mu v : list (list R)) (t : thr_t) (ops : list op) : Inv (run (fresh w mu v t) ops).
Proof. apply inv_run. apply inv_fresh. Qed.

(* elementwise reading of floors_hold for rectangular shapes *)
Definition rect (C D : nat) (M : list (list R)) := length M = C /\ Forall (fun r => length r = D) M.
Theorem floors_hold_elementwise (C D : nat) (m : mach) : rect C D (o_var m) -> rect C D (bcast C D (o_thr m)) -> (0 < C)%nat ->
  floors_hold m ->
  forall c d, (c < C)%nat -> (d < D)%nat ->
    nth d (nth c (bcast C D (o_thr m)) []) 0 <= nth d (nth c (o_var m) []) 0.
Proof.
  intros [Lv Fv] [Lt Ft] HC FH c d Hc Hd.
  assert (HD : length (hd [] (o_var m)) = D).
  { destruct (o_var m) as [|r0 rest]; cbn [length hd] in *; [lia|]. inversion Fv; assumption. }
  unfold floors_hold in FH. unfold InstR.T in *. rewrite Lv, HD in FH.
  assert (Rv : length (nth c (o_var m) []) = D).
  { rewrite Forall_forall in Fv. apply Fv. apply nth_In. unfold InstR.T in *. lia. }
  assert (Rt : length (nth c (bcast C D (o_thr m)) []) = D).
  { rewrite Forall_forall in Ft. apply Ft. apply nth_In. unfold InstR.T in *. lia. }
  assert (E : nth d (nth c (clampv (bcast C D (o_thr m)) (o_var m)) []) 0 = nth d (nth c (o_var m) []) 0)
    by (rewrite FH; reflexivity).
  apply fmax_fix. etransitivity; [|exact E]. unfold clampv. symmetry.
  transitivity (nth d (V.map2 (fun t x => V.fmax t x) (nth c (bcast C D (o_thr m)) []) (nth c (o_var m) [])) 0).
  - apply (f_equal (fun l => nth d l 0)).
    apply (m_nth_map2 (V.map2 (fun t x => V.fmax t x)) (bcast C D (o_thr m)) (o_var m) c [] [] []);
      unfold InstR.T in *; lia.
  - apply (m_nth_map2 (fun t x => V.fmax t x) _ _ d 0 0 0); unfold InstR.T in *; lia.
Qed.

(* what the object computes from its caches is what the visible parameters define *)
Lemma lwls_cached_gen (x : list R) (w : list R) : forall (mu v : list (list R)),
  V.map3 (fun (lw_gn : R * R) mu v => lwl_cached (fst lw_gn) (snd lw_gn) mu v x)
         (combine (map InstR.ln w) (map gnorm v)) mu v
  = map (fun c : comp => lwl c x) (combine (combine w mu) v).
Proof.
  induction w as [|a w IH]; intros mu v; [reflexivity|].
  destruct mu as [|b mu]; [destruct v; reflexivity|].
  destruct v as [|c v]; [reflexivity|].
  cbn [map combine V.map3 fst snd]. f_equal. apply IH.
Qed.
Lemma lwls_eq (m : mach) (x : list R) : Inv m -> lwls_cached m x = lwls (visible m) x.
Proof.
  intros (H1 & H2 & _). unfold lwls_cached, lwls, comps, visible. cbn [ws mus vars].
  rewrite H1, H2. apply lwls_cached_gen.
Qed.
Lemma ll_eq (m : mach) (x : list R) : Inv m -> ll_cached m x = ll (visible m) x.
Proof. intros H. unfold ll_cached, ll. now rewrite (lwls_eq m x H). Qed.
Lemma resp_eq (m : mach) (x : list R) : Inv m ->
  resp_cached m x = map (fun c => resp (visible m) x c) (comps (visible m)).
Proof.
  intros H. unfold resp_cached. cbv zeta. rewrite (lwls_eq m x H).
  unfold resp, ll, lwls. rewrite map_map. reflexivity.
Qed.
Lemma len_comps (m : mach) : length (o_w m) = length (o_mu m) -> length (o_w m) = length (o_var m) ->
  length (comps (visible m)) = length (o_w m).
Proof.
  intros H1 H2. unfold comps, visible. cbn [ws mus vars]. unfold comp. rewrite !combine_length.
  unfold InstR.T in *. lia.
Qed.

Theorem observe_eq_visible (m : mach) (x : list R) : Inv m ->
  lwls_cached m x = lwls (visible m) x /\ ll_cached m x = ll (visible m) x.
Proof. intros H. split; [apply lwls_eq|apply ll_eq]; exact H. Qed.
(* hence two machines with the same visible parameters score identically, whatever their histories *)
Theorem same_visible_same_likelihood (m1 m2 : mach) (x : list R) : Inv m1 -> Inv m2 ->
  visible m1 = visible m2 -> ll_cached m1 x = ll_cached m2 x.
Proof. intros H1 H2 E. rewrite (ll_eq m1 x H1), (ll_eq m2 x H2), E. reflexivity. Qed.
(* and accumulate identical statistics (the E-step of the object = the E-step of its visible parameters) *)
Theorem stats_eq_visible (nf : nat) (m : mach) (X : list (list R)) : Inv m ->
  length (o_w m) = length (o_mu m) -> length (o_w m) = length (o_var m) ->
  e_step_cached nf m X = e_step nf (visible m) X.
Proof.
  intros H L1 L2. pose proof (len_comps m L1 L2) as LC.
  set (d0 := ((0, [], []) : comp)).
  assert (NR : forall c x, (c < length (o_w m))%nat ->
             nth c (resp_cached m x) 0 = resp (visible m) x (nth c (comps (visible m)) d0)).
  { intros c x Hc. rewrite (resp_eq m x H). apply m_nth_map_lt. rewrite LC. exact Hc. }
  unfold e_step_cached, e_step. cbv zeta.
  rewrite (m_list_eq_seq (comps (visible m)) d0) at 1 2 3. rewrite LC, !map_map.
  f_equal.
  - apply map_ext_in. intros c Hc. apply in_seq in Hc. f_equal. rewrite map_map.
    apply map_ext. intros x. apply NR. lia.
  - apply map_ext_in. intros c Hc. apply in_seq in Hc. f_equal. rewrite map2_map_self.
    apply map_ext. intros x. f_equal. apply NR. lia.
  - apply map_ext_in. intros c Hc. apply in_seq in Hc. f_equal. rewrite map2_map_self.
    apply map_ext. intros x. f_equal. f_equal. apply NR. lia.
  - f_equal. apply map_ext. intros x. apply ll_eq. exact H.
Qed.

Print Assumptions inv_reachable.
Print Assumptions stats_eq_visible.
