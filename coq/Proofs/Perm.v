(* C16: presenting the training samples in a different order gives the same k-means and GMM training result
   (one EM iteration and the whole loop: model, reported values and number of iterations). *)
From Coq Require Import Reals Lra List Lia Bool Arith Permutation.
From BLE Require Import Num.Scalar Num.InstR Lib.Vec Model.GMM Model.KMeans Proofs.RLemmas Proofs.GMMLik Proofs.GMMStats Proofs.KMeansR.
Import ListNotations.
Open Scope R_scope.

(* ---------------------------------------------------------------- k-means *)
Lemma KVvadd_comm a b : KR.V.vadd a b = KR.V.vadd b a.
Proof. unfold KR.V.vadd. revert b; induction a as [|x a IH]; intros [|y b]; simpl; try reflexivity. rewrite IH. f_equal. unfold InstR.add. ring. Qed.
Lemma KVvsumv_perm d a b : Permutation a b -> KR.V.vsumv d a = KR.V.vsumv d b.
Proof.
  induction 1; simpl; auto.
  - now rewrite IHPermutation.
  - rewrite !KMeansR.Vvadd_assoc. f_equal. apply KVvadd_comm.
  - congruence.
Qed.
Lemma rsum_perm' a b : Permutation a b -> rsum a = rsum b.
Proof. induction 1; simpl; lra. Qed.
Lemma filter_perm {A} (f : A -> bool) a b : Permutation a b -> Permutation (filter f a) (filter f b).
Proof.
  induction 1; simpl; auto.
  - destruct (f x); auto.
  - destruct (f x); destruct (f y); auto. apply perm_swap.
  - eapply perm_trans; eauto.
Qed.

Theorem kmeans_e_step_perm nf cents X X' : Permutation X X' -> KR.e_step nf cents X = KR.e_step nf cents X'.
Proof.
  intros P. unfold KR.e_step. f_equal.
  - apply map_ext. intros k. apply Permutation_length. unfold KR.members. now apply filter_perm.
  - apply map_ext. intros k. apply KVvsumv_perm. unfold KR.members. now apply filter_perm.
  - rewrite !KMeansR.Vvsum_eq. apply rsum_perm'. now apply Permutation_map.
Qed.
Theorem kmeans_em_iter_perm nf cents X X' : Permutation X X' -> KR.em_iter nf [X] cents = KR.em_iter nf [X'] cents.
Proof.
  intros P. unfold KR.em_iter, KR.nsamples. cbn [map concat]. rewrite !app_nil_r.
  rewrite (kmeans_e_step_perm nf cents X X' P). now rewrite (Permutation_length P).
Qed.
Theorem kmeans_fit_perm cap cthr nf cents X X' : Permutation X X' -> KR.fit cap cthr nf [X] cents = KR.fit cap cthr nf [X'] cents.
Proof.
  intros P. unfold KR.fit.
  assert (G : forall cap step prev cents hist,
     KR.fit_loop cap step prev cthr nf [X] cents hist = KR.fit_loop cap step prev cthr nf [X'] cents hist); [|apply G].
  clear cents cap. induction cap as [|cap IH]; intros step prev cents hist; cbn [KR.fit_loop]; [reflexivity|].
  rewrite (kmeans_em_iter_perm nf cents X X' P).
  destruct (KR.em_iter nf [X'] cents) as [[c' cur]|]; [|reflexivity].
  cbv zeta. match goal with |- (if ?c then _ else _) = _ => destruct c end; [reflexivity|apply IH].
Qed.

(* ---------------------------------------------------------------- GMM (ML or MAP, any switches) *)
Import MR.
Theorem gmm_em_iter_perm tr sw eps nf X X' mc : Permutation X X' -> em_iter tr sw eps nf [X] mc = em_iter tr sw eps nf [X'] mc.
Proof. intros P. unfold em_iter. cbn [map]. now rewrite (e_step_perm nf (g mc) X X' P). Qed.
Theorem gmm_fit_perm cap tr sw eps cthr nf X X' mc : Permutation X X' ->
  fit cap tr sw eps cthr nf [X] mc = fit cap tr sw eps cthr nf [X'] mc.
Proof.
  intros P. unfold fit.
  assert (G : forall cap step prev mc hist,
     fit_loop cap step prev tr sw eps cthr nf [X] mc hist = fit_loop cap step prev tr sw eps cthr nf [X'] mc hist); [|apply G].
  clear mc cap. induction cap as [|cap IH]; intros step prev mc hist; cbn [fit_loop]; [reflexivity|].
  rewrite (gmm_em_iter_perm tr sw eps nf X X' mc P).
  destruct (em_iter tr sw eps nf [X'] mc) as [[mc' cur]|]; [|reflexivity].
  cbv zeta. match goal with |- (if ?c then _ else _) = _ => destruct c end; [reflexivity|apply IH].
Qed.
