(* Real-number lemmas used across the development: sums over lists, ln x <= x - 1, weighted Jensen. *)
From Coq Require Import Reals Lra List Lia.
Import ListNotations.
Open Scope R_scope.

Fixpoint rsum (l : list R) : R := match l with [] => 0 | x :: r => x + rsum r end.
Fixpoint rprod (l : list R) : R := match l with [] => 1 | x :: r => x * rprod r end.

Lemma rsum_app a b : rsum (a ++ b) = rsum a + rsum b.
Proof. induction a; simpl; lra. Qed.
Lemma rsum_nonneg l : Forall (fun x => 0 <= x) l -> 0 <= rsum l.
Proof. induction 1; simpl; lra. Qed.
Lemma rsum_pos l : l <> [] -> Forall (fun x => 0 < x) l -> 0 < rsum l.
Proof.
  intros Hne H. destruct H as [|x l Hx Hl]; [congruence|]. simpl.
  assert (0 <= rsum l). { apply rsum_nonneg. eapply Forall_impl; [|exact Hl]. simpl; intros; lra. } lra.
Qed.
Lemma rsum_scal_r k l : rsum (map (fun x => x * k) l) = rsum l * k.
Proof. induction l; simpl; [ring|rewrite IHl; ring]. Qed.
Lemma rsum_scal_l k l : rsum (map (fun x => k * x) l) = k * rsum l.
Proof. induction l; simpl; [ring|rewrite IHl; ring]. Qed.
Lemma rsum_map_scal_r {A} (f : A -> R) k l : rsum (map (fun a => f a * k) l) = rsum (map f l) * k.
Proof. induction l; simpl; [ring|rewrite IHl; ring]. Qed.
Lemma rsum_map_scal_l {A} (f : A -> R) k l : rsum (map (fun a => k * f a) l) = k * rsum (map f l).
Proof. induction l; simpl; [ring|rewrite IHl; ring]. Qed.
Lemma rsum_map_add {A} (f g : A -> R) l : rsum (map (fun x => f x + g x) l) = rsum (map f l) + rsum (map g l).
Proof. induction l; simpl; lra. Qed.
Lemma rsum_map_ext {A} (f g : A -> R) l : (forall x, In x l -> f x = g x) -> rsum (map f l) = rsum (map g l).
Proof. intros H. induction l; simpl; auto. rewrite H, IHl; auto. intros; apply H; now right. now left. Qed.
Lemma rsum_le {A} (f g : A -> R) l : (forall x, In x l -> f x <= g x) -> rsum (map f l) <= rsum (map g l).
Proof. intros H. induction l; simpl; [lra|]. assert (f a <= g a) by (apply H; now left). assert (rsum (map f l) <= rsum (map g l)) by (apply IHl; intros; apply H; now right). lra. Qed.
Lemma rsum_swap {A B} (f : A -> B -> R) la lb :
  rsum (map (fun a => rsum (map (fun b => f a b) lb)) la) = rsum (map (fun b => rsum (map (fun a => f a b) la)) lb).
Proof.
  induction la as [|a la IH]; simpl.
  - induction lb; simpl; lra.
  - rewrite IH. rewrite <- rsum_map_add. reflexivity.
Qed.
Lemma rsum_repeat0 n : rsum (repeat 0 n) = 0.
Proof. induction n; simpl; lra. Qed.

Lemma ln_le_sub1 x : 0 < x -> ln x <= x - 1.
Proof.
  intros Hx. destruct (Req_dec x 1) as [->|Hne]. rewrite ln_1; lra.
  assert (H: 1 + ln x <= exp (ln x)).
  { destruct (Req_dec (ln x) 0) as [E|E]. rewrite E, exp_0; lra. left. now apply exp_ineq1. }
  rewrite exp_ln in H by assumption. lra.
Qed.

Definition wsum (l : list (R*R)) := rsum (map (fun p => fst p * snd p) l).
Definition wlnsum (l : list (R*R)) := rsum (map (fun p => fst p * ln (snd p)) l).
Definition tot (l : list (R*R)) := rsum (map fst l).

Lemma jensen_aux (l : list (R*R)) S : 0 < S ->
  Forall (fun p => 0 <= fst p /\ 0 < snd p) l -> wlnsum l - tot l * ln S <= wsum l / S - tot l.
Proof.
  intros HS H. induction H as [|[r a] l [Hr Ha] Hl IH]; unfold wlnsum, wsum, tot in *; simpl in *.
  - lra.
  - assert (K: ln (a / S) <= a / S - 1) by (apply ln_le_sub1; apply Rdiv_lt_0_compat; lra).
    unfold Rdiv in K at 1. rewrite ln_mult in K by (try apply Rinv_0_lt_compat; lra). rewrite ln_Rinv in K by lra.
    assert (r * (ln a - ln S) <= r * (a / S - 1)) by (apply Rmult_le_compat_l; lra).
    unfold Rdiv in *. lra.
Qed.
Lemma jensen_ln (l : list (R*R)) :
  Forall (fun p => 0 <= fst p /\ 0 < snd p) l -> tot l = 1 -> 0 < wsum l -> wlnsum l <= ln (wsum l).
Proof.
  intros H Ht Hs. pose proof (jensen_aux l (wsum l) Hs H) as K. rewrite Ht in K.
  unfold Rdiv in K. rewrite Rinv_r in K by lra. lra.
Qed.

Definition sexp (l : list R) := rsum (map exp l).
Lemma sexp_pos l : l <> [] -> 0 < sexp l.
Proof.
  intros Hne. unfold sexp. apply rsum_pos. destruct l; simpl; congruence.
  rewrite Forall_map. apply Forall_forall. intros x _. apply exp_pos.
Qed.
Lemma sexp_nonneg l : 0 <= sexp l.
Proof. unfold sexp. apply rsum_nonneg. rewrite Forall_map. apply Forall_forall. intros x _. left; apply exp_pos. Qed.

(* maximum of a non-empty list *)
Fixpoint rmax_list (x : R) (l : list R) : R := match l with [] => x | y :: r => Rmax x (rmax_list y r) end.
Lemma rmax_list_ge x l : x <= rmax_list x l /\ Forall (fun y => y <= rmax_list x l) l.
Proof.
  revert x; induction l as [|y r IH]; intros x; simpl. split; [lra|constructor].
  destruct (IH y) as [H1 H2]. split. apply Rmax_l. constructor.
  eapply Rle_trans; [exact H1|apply Rmax_r].
  eapply Forall_impl; [|exact H2]. simpl; intros a Ha. eapply Rle_trans; [exact Ha|apply Rmax_r].
Qed.
Lemma rmax_list_in x l : In (rmax_list x l) (x :: l).
Proof.
  revert x; induction l as [|y r IH]; intros x; simpl. now left.
  unfold Rmax. destruct (Rle_dec x (rmax_list y r)). right. apply IH. now left.
Qed.
