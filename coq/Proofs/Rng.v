(* C16: a trained model is a function of the labelled sample multiset and the seed only.
   The global generator state is threaded explicitly; create_UVD reseeds from random_state before drawing;
   the k-means initialiser receives the integer seed.  Hence no result depends on the incoming global state. *)
From Coq Require Import List Arith Lia Permutation.
From BLE Require Import Generated.Facts Proofs.FactsDefs.
Import ListNotations.

Section Rng.
Variable rng : Type.                    (* state of NumPy's global generator *)
Variable seed : Type.
Variable vals : Type.                   (* a block of drawn numbers *)
Variable reseed : seed -> rng.          (* np.random.seed(s): the new state depends on s only *)
Variable normal : rng -> nat -> vals * rng.     (* np.random.normal(size=n) : values and the advanced state *)

(* factor_analysis.py:260-292 create_UVD: seed, draw U, (draw V) *)
Definition create_UV (s : seed) (nU nV : nat) (g : rng) : (vals * vals) * rng :=
  let g1 := reseed s in
  let '(U, g2) := normal g1 nU in
  let '(Vm, g3) := normal g2 nV in
  ((U, Vm), g3).
Theorem create_UV_ignores_global_state s nU nV g g' : fst (create_UV s nU nV g) = fst (create_UV s nU nV g').
Proof. reflexivity. Qed.

(* an estimator whose only use of randomness is create_UV followed by a deterministic training function *)
Variable model : Type.
Variable train : vals * vals -> model.
Definition fit_fa (s : seed) (nU nV : nat) (g : rng) : model * rng :=
  let '(uv, g') := create_UV s nU nV g in (train uv, g').
(* any history: earlier fits (with any seeds) and arbitrary draws from the global generator *)
Inductive event := Fit (s : seed) (nU nV : nat) | Draw (n : nat).
Definition play (g : rng) (e : event) : rng :=
  match e with Fit s nU nV => snd (fit_fa s nU nV g) | Draw n => snd (normal g n) end.
Theorem fit_independent_of_history s nU nV g (h h' : list event) :
  fst (fit_fa s nU nV (fold_left play h g)) = fst (fit_fa s nU nV (fold_left play h' g)).
Proof. reflexivity. Qed.

(* a seeded initialiser is a function of (seed, data): the model passes the integer seed, never the global state *)
Variable data : Type.
Variable kinit : seed -> data -> vals.
Definition kmeans_init (s : seed) (d : data) (g : rng) : vals * rng := (kinit s d, g).
Theorem kmeans_init_ignores_global_state s d g g' : fst (kmeans_init s d g) = fst (kmeans_init s d g').
Proof. reflexivity. Qed.
End Rng.

(* the structural facts the model relies on, extracted from /repo/src ON THIS RUN: create_UVD calls
   np.random.seed(self.random_state) before its first draw; KMeansMachine hands random_state to the initialiser and
   uses no global generator elsewhere; GMMMachine hands random_state to its k-means; WCCN uses no randomness *)
Theorem generated_seeding_obligation : extraction_error = false /\ seeding_ok = true.
Proof. split; vm_compute; reflexivity. Qed.
