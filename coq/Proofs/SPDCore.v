(* Index-form core of the general i-vector EM theorem (Proofs/IVGeneral.v): finite sums over lists, the Gaussian KL
   inequality without determinants (kl_core), and the EM argument through the evidence lower bound (em_core).
   Pure real-number reasoning: matrices are functions nat -> nat -> R restricted to indices below t. *)
From Coq Require Import Reals Lra List Lia Bool Arith.
From BLE Require Import Proofs.RLemmas.
Import ListNotations.
Open Scope R_scope.

Definition Sm {A} (l : list A) (f : A -> R) : R := rsum (map f l).
Definition dl (i j : nat) : R := if Nat.eqb i j then 1 else 0.

Lemma Sm_ext {A} (l : list A) f g : (forall x, In x l -> f x = g x) -> Sm l f = Sm l g.
Proof. apply rsum_map_ext. Qed.
Lemma Sm_ext_n n f g : (forall i, (i < n)%nat -> f i = g i) -> Sm (seq 0 n) f = Sm (seq 0 n) g.
Proof. intros H. apply Sm_ext. intros i Hi. apply in_seq in Hi. apply H. lia. Qed.
Lemma Sm_swap {A B} (la : list A) (lb : list B) (f : A -> B -> R) :
  Sm la (fun a => Sm lb (fun b => f a b)) = Sm lb (fun b => Sm la (fun a => f a b)).
Proof. apply rsum_swap. Qed.
Lemma Sm_mul_l {A} (l : list A) k f : k * Sm l f = Sm l (fun x => k * f x).
Proof. symmetry. apply rsum_map_scal_l. Qed.
Lemma Sm_mul_r {A} (l : list A) k f : Sm l f * k = Sm l (fun x => f x * k).
Proof. symmetry. apply rsum_map_scal_r. Qed.
Lemma Sm_div_r {A} (l : list A) k f : Sm l f / k = Sm l (fun x => f x / k).
Proof. unfold Rdiv. apply Sm_mul_r. Qed.
Lemma Sm_add {A} (l : list A) f g : Sm l (fun x => f x + g x) = Sm l f + Sm l g.
Proof. apply rsum_map_add. Qed.
Lemma Sm_sub {A} (l : list A) f g : Sm l (fun x => f x - g x) = Sm l f - Sm l g.
Proof. unfold Sm. induction l; simpl; lra. Qed.
Lemma Sm_opp {A} (l : list A) f : Sm l (fun x => - f x) = - Sm l f.
Proof. unfold Sm. induction l; simpl; lra. Qed.
Lemma Sm_zero {A} (l : list A) f : (forall x, In x l -> f x = 0) -> Sm l f = 0.
Proof. intros H. unfold Sm. induction l; simpl; [reflexivity|]. rewrite H by now left. rewrite IHl. lra. intros; apply H; now right. Qed.
Lemma Sm_le {A} (l : list A) f g : (forall x, In x l -> f x <= g x) -> Sm l f <= Sm l g.
Proof. apply rsum_le. Qed.
Lemma Sm_nonneg {A} (l : list A) f : (forall x, In x l -> 0 <= f x) -> 0 <= Sm l f.
Proof. intros H. unfold Sm. induction l; simpl; [lra|]. assert (0 <= f a) by (apply H; now left). assert (0 <= rsum (map f l)) by (apply IHl; intros; apply H; now right). lra. Qed.
Lemma Sm_const {A} (l : list A) k : Sm l (fun _ => k) = INR (length l) * k.
Proof. unfold Sm. induction l; cbn [map rsum length]. simpl; ring. rewrite S_INR, IHl. ring. Qed.
Lemma Sm_single_gen f i : forall n s, (s <= i < s + n)%nat -> (forall k, (s <= k < s + n)%nat -> k <> i -> f k = 0) ->
  Sm (seq s n) f = f i.
Proof.
  unfold Sm. induction n as [|n IH]; intros s Hi H. lia. cbn [seq map rsum].
  destruct (Nat.eq_dec s i) as [->|Hne].
  - fold (Sm (seq (S i) n) f). rewrite Sm_zero. lra. intros k Hk. apply in_seq in Hk. apply H; lia.
  - rewrite (H s) by lia. rewrite IH. lra. lia. intros; apply H; lia.
Qed.
Lemma Sm_single n f i : (i < n)%nat -> (forall k, (k < n)%nat -> k <> i -> f k = 0) -> Sm (seq 0 n) f = f i.
Proof. intros Hi H. apply Sm_single_gen. lia. intros; apply H; lia. Qed.
Lemma Sm_dl_l n i g : (i < n)%nat -> Sm (seq 0 n) (fun j => dl i j * g j) = g i.
Proof.
  intros Hi. rewrite (Sm_single n _ i Hi). unfold dl. rewrite Nat.eqb_refl. ring.
  intros k _ Hne. unfold dl. destruct (Nat.eqb_spec i k); [congruence|ring].
Qed.
Lemma Sm_dl_r n i g : (i < n)%nat -> Sm (seq 0 n) (fun j => g j * dl j i) = g i.
Proof.
  intros Hi. rewrite (Sm_single n _ i Hi). unfold dl. rewrite Nat.eqb_refl. ring.
  intros k _ Hne. unfold dl. destruct (Nat.eqb_spec k i); [congruence|ring].
Qed.
Lemma dl_sym i j : dl i j = dl j i.
Proof. unfold dl. rewrite Nat.eqb_sym. reflexivity. Qed.
Lemma Sm_ge_term n f i : (i < n)%nat -> (forall k, (k < n)%nat -> 0 <= f k) -> f i <= Sm (seq 0 n) f.
Proof.
  intros Hi H.
  assert (E : Sm (seq 0 n) f = f i + Sm (seq 0 n) (fun k => if Nat.eqb k i then 0 else f k)).
  { transitivity (Sm (seq 0 n) (fun k => (if Nat.eqb k i then f k else 0) + (if Nat.eqb k i then 0 else f k))).
    - apply Sm_ext. intros k _. destruct (Nat.eqb k i); ring.
    - rewrite Sm_add. f_equal. rewrite (Sm_single n _ i Hi). now rewrite Nat.eqb_refl.
      intros k _ Hne. destruct (Nat.eqb_spec k i); [congruence|reflexivity]. }
  rewrite E. assert (0 <= Sm (seq 0 n) (fun k => if Nat.eqb k i then 0 else f k)).
  { apply Sm_nonneg. intros k Hk. apply in_seq in Hk. destruct (Nat.eqb k i); [lra|apply H; lia]. }
  lra.
Qed.
(* A (B x) = (A B) x *)
Lemma Sm_assoc {A B} (lr : list A) (lq : list B) (a : A -> R) (b : A -> B -> R) (c : B -> R) :
  Sm lr (fun r => a r * Sm lq (fun q => b r q * c q)) = Sm lq (fun q => Sm lr (fun r => a r * b r q) * c q).
Proof.
  transitivity (Sm lr (fun r => Sm lq (fun q => a r * b r q * c q))).
  { apply Sm_ext. intros r _. rewrite Sm_mul_l. apply Sm_ext. intros; ring. }
  rewrite Sm_swap. apply Sm_ext. intros q _. now rewrite Sm_mul_r.
Qed.
Lemma Sm_swap_in {A B C} (la : list A) (lb : list B) (lc : list C) (f : A -> B -> C -> R) :
  Sm la (fun a => Sm lb (fun b => Sm lc (fun c => f a b c))) = Sm la (fun a => Sm lc (fun c => Sm lb (fun b => f a b c))).
Proof. apply Sm_ext. intros a _. apply Sm_swap. Qed.
Lemma Sm_rot3 {A B C} (la : list A) (lb : list B) (lc : list C) (f : A -> B -> C -> R) :
  Sm la (fun a => Sm lb (fun b => Sm lc (fun c => f a b c))) = Sm lc (fun c => Sm la (fun a => Sm lb (fun b => f a b c))).
Proof. rewrite Sm_swap_in. apply Sm_swap. Qed.
Lemma Sm_rot3' {A B C} (la : list A) (lb : list B) (lc : list C) (f : A -> B -> C -> R) :
  Sm la (fun a => Sm lb (fun b => Sm lc (fun c => f a b c))) = Sm lb (fun b => Sm lc (fun c => Sm la (fun a => f a b c))).
Proof. symmetry. apply (Sm_rot3 lb lc la (fun b c a => f a b c)). Qed.


(* ================================================================== Gaussian KL >= 0 without determinants *)
Section KL.
Variable t : nat.
Variables l k s : nat -> nat -> R.
Hypothesis l_tri : forall i j, (i < j)%nat -> l i j = 0.
Hypothesis k_tri : forall i j, (i < j)%nat -> k i j = 0.
Hypothesis l_pos : forall i, (i < t)%nat -> 0 < l i i.
Hypothesis k_pos : forall i, (i < t)%nat -> 0 < k i i.
Notation N := (seq 0 t).
Definition gram (l : nat -> nat -> R) (i j : nat) : R := Sm N (fun r => l i r * l j r).
Hypothesis HS : forall i m, (i < t)%nat -> (m < t)%nat -> Sm N (fun j => gram l i j * s j m) = dl i m.

Let x (q j : nat) : R := Sm N (fun p => s q p * k p j).
Let m (i j : nat) : R := Sm N (fun q => l q i * x q j).

Lemma kl_LM i j : (i < t)%nat -> (j < t)%nat -> Sm N (fun r => l i r * m r j) = k i j.
Proof.
  intros Hi Hj. unfold m.
  rewrite (Sm_assoc N N (l i) (fun r q => l q r) (fun q => x q j)).
  change (Sm N (fun q => gram l i q * x q j) = k i j). unfold x.
  rewrite (Sm_assoc N N (gram l i) s (fun p => k p j)).
  transitivity (Sm N (fun p => dl i p * k p j)).
  - apply Sm_ext_n. intros p Hp. rewrite (HS i p Hi Hp). reflexivity.
  - exact (Sm_dl_l t i (fun p => k p j) Hi).
Qed.
Lemma kl_M_upper j : (j < t)%nat -> forall i, (i < j)%nat -> m i j = 0.
Proof.
  intros Hj i. induction i as [i IH] using lt_wf_ind. intros Hi.
  pose proof (kl_LM i j ltac:(lia) Hj) as E. rewrite (k_tri i j Hi) in E.
  rewrite (Sm_single t _ i) in E; [|lia|].
  2:{ intros r Hr Hne. destruct (Nat.lt_ge_cases r i) as [Hlt|Hge]; [rewrite (IH r Hlt) by lia; ring|rewrite (l_tri i r) by lia; ring]. }
  pose proof (l_pos i ltac:(lia)). apply Rmult_integral in E. destruct E; [lra|assumption].
Qed.
Lemma kl_M_diag j : (j < t)%nat -> m j j = k j j / l j j.
Proof.
  intros Hj. pose proof (kl_LM j j Hj Hj) as E.
  rewrite (Sm_single t _ j) in E; [|lia|].
  2:{ intros r Hr Hne. destruct (Nat.lt_ge_cases r j) as [Hlt|Hge]; [rewrite (kl_M_upper j Hj r) by lia; ring|rewrite (l_tri j r) by lia; ring]. }
  pose proof (l_pos j Hj). rewrite <- E. field. lra.
Qed.
Lemma kl_trace : Sm N (fun i => Sm N (fun j => s i j * gram k j i)) = Sm N (fun q => Sm N (fun r => m r q * m r q)).
Proof.
  transitivity (Sm N (fun q => Sm N (fun i => k i q * x i q))).
  - unfold gram, x.
    transitivity (Sm N (fun i => Sm N (fun q => Sm N (fun j => s i j * (k j q * k i q))))).
    { apply Sm_ext. intros i _. rewrite <- Sm_swap. apply Sm_ext. intros j _. now rewrite Sm_mul_l. }
    rewrite Sm_swap. apply Sm_ext. intros q _. apply Sm_ext. intros i _. rewrite Sm_mul_l. apply Sm_ext. intros; ring.
  - apply Sm_ext_n. intros q Hq.
    transitivity (Sm N (fun i => Sm N (fun r => m r q * l i r) * x i q)).
    { apply Sm_ext_n. intros i Hi. f_equal. rewrite <- (kl_LM i q Hi Hq). apply Sm_ext. intros; ring. }
    rewrite <- (Sm_assoc N N (fun r => m r q) (fun r i => l i r) (fun i => x i q)). reflexivity.
Qed.

Theorem kl_core :
  2 * Sm N (fun i => ln (k i i)) - 2 * Sm N (fun i => ln (l i i)) <= Sm N (fun i => Sm N (fun j => s i j * gram k j i)) - INR t.
Proof.
  rewrite kl_trace.
  apply Rle_trans with (Sm N (fun q => m q q * m q q - 1)).
  - rewrite !Sm_mul_l, <- Sm_sub. apply Sm_le. intros q Hq. apply in_seq in Hq. assert (Hq' : (q < t)%nat) by lia.
    rewrite (kl_M_diag q Hq'). pose proof (l_pos q Hq') as Hl. pose proof (k_pos q Hq') as Hk.
    assert (Hd : 0 < k q q / l q q) by (apply Rdiv_lt_0_compat; assumption).
    pose proof (ln_le_sub1 (k q q / l q q * (k q q / l q q)) (Rmult_lt_0_compat _ _ Hd Hd)) as E.
    rewrite ln_mult in E by assumption. unfold Rdiv in E at 1 2. rewrite ln_mult in E by (try apply Rinv_0_lt_compat; lra).
    rewrite ln_Rinv in E by lra. lra.
  - rewrite Sm_sub, Sm_const, seq_length, Rmult_1_r.
    apply Rplus_le_compat_r. apply Sm_le. intros q Hq. apply in_seq in Hq.
    apply (Sm_ge_term t (fun r => m r q * m r q) q). lia. intros r _. nra.
Qed.
End KL.

(* ================================================================== symmetric matrices with a right inverse *)
Section SPD.
Variable t : nat.
Variables P S : nat -> nat -> R.
Notation N := (seq 0 t).
Hypothesis Psym : forall i j, P i j = P j i.
Hypothesis HPS : forall i k, (i < t)%nat -> (k < t)%nat -> Sm N (fun j => P i j * S j k) = dl i k.

Definition bil (P : nat -> nat -> R) (x y : nat -> R) : R := Sm N (fun i => Sm N (fun j => P i j * (x i * y j))).

Lemma bil_sym x y : bil P x y = bil P y x.
Proof. unfold bil. rewrite Sm_swap. apply Sm_ext; intros i _. apply Sm_ext; intros j _. rewrite (Psym i j). ring. Qed.
Lemma bil_diff x y : bil P (fun i => x i - y i) (fun i => x i - y i) = bil P x x - 2 * bil P x y + bil P y y.
Proof.
  rewrite (double (bil P x y)). rewrite (bil_sym x y) at 2. unfold bil.
  transitivity (Sm N (fun i => Sm N (fun j => P i j * (x i * x j)) - Sm N (fun j => P i j * (x i * y j))
                               - Sm N (fun j => P i j * (y i * x j)) + Sm N (fun j => P i j * (y i * y j)))).
  - apply Sm_ext; intros i _. rewrite <- !Sm_sub, <- Sm_add. apply Sm_ext; intros j _. ring.
  - rewrite Sm_add, !Sm_sub. ring.
Qed.
Lemma bil_mv x y : bil P x y = Sm N (fun i => x i * Sm N (fun j => P i j * y j)).
Proof. unfold bil. apply Sm_ext; intros i _. rewrite Sm_mul_l. apply Sm_ext; intros j _. ring. Qed.

Lemma inv_mv v i : (i < t)%nat -> Sm N (fun j => P i j * Sm N (fun k => S j k * v k)) = v i.
Proof.
  intros Hi. rewrite (Sm_assoc N N (P i) S v).
  transitivity (Sm N (fun k => dl i k * v k)).
  - apply Sm_ext_n. intros k Hk. rewrite (HPS i k Hi Hk). reflexivity.
  - exact (Sm_dl_l t i v Hi).
Qed.
Lemma inv_sym a b : (a < t)%nat -> (b < t)%nat -> S a b = S b a.
Proof.
  intros Ha Hb.
  transitivity (Sm N (fun q => Sm N (fun p => P q p * S p a) * S q b)).
  - transitivity (Sm N (fun q => dl a q * S q b)).
    + symmetry. exact (Sm_dl_l t a (fun q => S q b) Ha).
    + apply Sm_ext_n. intros q Hq. rewrite (HPS q a Hq Ha). now rewrite dl_sym.
  - transitivity (Sm N (fun p => Sm N (fun q => P p q * S q b) * S p a)).
    + transitivity (Sm N (fun q => Sm N (fun p => P q p * S p a * S q b))).
      { apply Sm_ext; intros q _. now rewrite Sm_mul_r. }
      rewrite Sm_swap. apply Sm_ext; intros p _. rewrite Sm_mul_r. apply Sm_ext; intros q _. rewrite (Psym p q). ring.
    + transitivity (Sm N (fun p => dl b p * S p a)).
      * apply Sm_ext_n. intros p Hp. rewrite (HPS p b Hp Hb). now rewrite dl_sym.
      * exact (Sm_dl_l t b (fun p => S p a) Hb).
Qed.
Lemma inv_trace : Sm N (fun i => Sm N (fun j => P i j * S j i)) = INR t.
Proof.
  transitivity (Sm N (fun i : nat => 1)).
  - apply Sm_ext_n. intros i Hi. rewrite (HPS i i Hi Hi). unfold dl. now rewrite Nat.eqb_refl.
  - rewrite Sm_const, seq_length. ring.
Qed.
Hypothesis Ppsd : forall x, 0 <= bil P x x.
Lemma inv_psd r : 0 <= bil S r r.
Proof.
  set (y := fun i => Sm N (fun k => S i k * r k)).
  assert (E : bil S r r = bil P y y).
  { rewrite (bil_mv y y). unfold bil.
    transitivity (Sm N (fun i => r i * y i)).
    - apply Sm_ext; intros i _. unfold y. rewrite Sm_mul_l. apply Sm_ext; intros j _. ring.
    - apply Sm_ext_n. intros i Hi. pose proof (inv_mv r i Hi) as Ei.
      change (Sm N (fun j => P i j * y j) = r i) in Ei. rewrite Ei. ring. }
  rewrite E. apply Ppsd.
Qed.
End SPD.

(* a concave quadratic with vanishing gradient is at its maximum *)
Section QuadMax.
Variable t : nat.
Notation N := (seq 0 t).
Variables (A : nat -> nat -> R) (B r r' : nat -> R).
Hypothesis Asym : forall i j, (i < t)%nat -> (j < t)%nat -> A i j = A j i.
Hypothesis Apsd : forall x, 0 <= bil t A x x.
Hypothesis Hgrad : forall i, (i < t)%nat -> Sm N (fun j => A j i * r' j) = B i.
Definition gq (A : nat -> nat -> R) (B r : nat -> R) : R :=
  Sm N (fun i => r i * B i) - / 2 * Sm N (fun i => Sm N (fun j => r i * r j * A j i)).
Lemma quad_max : gq A B r <= gq A B r'.
Proof.
  set (As := fun i j => A j i).
  assert (Q : forall x y, Sm N (fun i => Sm N (fun j => x i * y j * A j i)) = bil t As x y).
  { intros x y. unfold bil, As. apply Sm_ext; intros i _. apply Sm_ext; intros j _. ring. }
  assert (S1 : forall x y, bil t As x y = bil t As y x).
  { intros x y. unfold bil, As. rewrite Sm_swap. apply Sm_ext_n; intros i Hi. apply Sm_ext_n; intros j Hj. rewrite (Asym i j Hi Hj). ring. }
  assert (S2 : forall x, bil t As x r' = Sm N (fun i => x i * B i)).
  { intros x. unfold bil, As. apply Sm_ext_n; intros i Hi. rewrite <- (Hgrad i Hi), Sm_mul_l. apply Sm_ext; intros j _. ring. }
  assert (P0 : 0 <= bil t As (fun i => r i - r' i) (fun i => r i - r' i)).
  { assert (E : forall x, bil t As x x = bil t A x x).
    { intros x. unfold bil, As. rewrite Sm_swap. apply Sm_ext; intros i _. apply Sm_ext; intros j _. ring. }
    rewrite E. apply Apsd. }
  assert (D0 : bil t As (fun i => r i - r' i) (fun i => r i - r' i) = bil t As r r - 2 * bil t As r r' + bil t As r' r').
  { rewrite (double (bil t As r r')). rewrite (S1 r r') at 2. unfold bil.
    transitivity (Sm N (fun i => Sm N (fun j => As i j * (r i * r j)) - Sm N (fun j => As i j * (r i * r' j))
                               - Sm N (fun j => As i j * (r' i * r j)) + Sm N (fun j => As i j * (r' i * r' j)))).
    - apply Sm_ext; intros i _. rewrite <- !Sm_sub, <- Sm_add. apply Sm_ext; intros j _. ring.
    - rewrite Sm_add, !Sm_sub. ring. }
  unfold gq. rewrite !Q. rewrite D0 in P0. rewrite !S2 in P0. rewrite <- (S2 r'). rewrite (S2 r'). lra.
Qed.
End QuadMax.

(* ================================================================== EM through the evidence lower bound, index form *)
Lemma sq_sum {A} (l : list A) (a x : A -> R) :
  Sm l (fun i => Sm l (fun j => a i * a j * (x i * x j))) = Sm l (fun i => a i * x i) * Sm l (fun i => a i * x i).
Proof. rewrite Sm_mul_r. apply Sm_ext; intros i _. rewrite Sm_mul_l. apply Sm_ext; intros j _. ring. Qed.

Section EM.
Variables (C D t : nat) (U : Type) (X : list U).
Variables (nn : U -> nat -> R) (ff : U -> nat -> nat -> R) (sg : nat -> nat -> R).
Hypothesis nn_nonneg : forall s, In s X -> forall c, (c < C)%nat -> 0 <= nn s c.
Hypothesis sg_pos : forall c d, (c < C)%nat -> (d < D)%nat -> 0 < sg c d.
Notation N := (seq 0 t).
Notation NC := (seq 0 C).
Notation ND := (seq 0 D).

(* posterior precision and linear term of utterance s under the subspace T *)
Definition Pe (T : nat -> nat -> nat -> R) (s : U) (i j : nat) : R :=
  dl i j + Sm NC (fun c => nn s c * Sm ND (fun d => T c d i / sg c d * T c d j)).
Definition be (T : nat -> nat -> nat -> R) (s : U) (i : nat) : R :=
  Sm NC (fun c => Sm ND (fun d => T c d i / sg c d * ff s c d)).

Lemma Pe_sym T s i j : Pe T s i j = Pe T s j i.
Proof. unfold Pe. rewrite (dl_sym i j). f_equal. apply Sm_ext; intros c _. f_equal. apply Sm_ext; intros d _. unfold Rdiv. ring. Qed.

Lemma Pe_pair T s (G : nat -> nat -> R) :
  Sm N (fun i => Sm N (fun j => Pe T s i j * G i j))
  = Sm N (fun i => G i i) + Sm NC (fun c => nn s c * Sm ND (fun d => / sg c d * Sm N (fun i => Sm N (fun j => T c d i * T c d j * G i j)))).
Proof.
  unfold Pe.
  transitivity (Sm N (fun i => Sm N (fun j => dl i j * G i j))
                + Sm N (fun i => Sm N (fun j => Sm NC (fun c => nn s c * Sm ND (fun d => T c d i / sg c d * T c d j)) * G i j))).
  { rewrite <- Sm_add. apply Sm_ext; intros i _. rewrite <- Sm_add. apply Sm_ext; intros j _. ring. }
  f_equal.
  - apply Sm_ext_n; intros i Hi. exact (Sm_dl_l t i (fun j => G i j) Hi).
  - transitivity (Sm N (fun i => Sm N (fun j => Sm NC (fun c => nn s c * Sm ND (fun d => T c d i / sg c d * T c d j) * G i j)))).
    { apply Sm_ext; intros i _. apply Sm_ext; intros j _. now rewrite Sm_mul_r. }
    rewrite Sm_rot3. apply Sm_ext; intros c _.
    transitivity (Sm N (fun i => Sm N (fun j => Sm ND (fun d => nn s c * (/ sg c d * (T c d i * T c d j * G i j)))))).
    { apply Sm_ext; intros i _. apply Sm_ext; intros j _. rewrite Sm_mul_l, Sm_mul_r. apply Sm_ext; intros d _. unfold Rdiv. ring. }
    rewrite Sm_rot3, Sm_mul_l. apply Sm_ext; intros d _.
    rewrite !Sm_mul_l. apply Sm_ext; intros i _. rewrite !Sm_mul_l. reflexivity.
Qed.

Lemma Pe_psd T s x : In s X -> 0 <= bil t (Pe T s) x x.
Proof.
  intros Hs. unfold bil. rewrite (Pe_pair T s (fun i j => x i * x j)).
  apply Rplus_le_le_0_compat.
  - apply Sm_nonneg. intros i _. nra.
  - apply Sm_nonneg. intros c Hc. apply in_seq in Hc. apply Rmult_le_pos. apply nn_nonneg; [assumption|lia].
    apply Sm_nonneg. intros d Hd. apply in_seq in Hd. apply Rmult_le_pos.
    + left. apply Rinv_0_lt_compat. apply sg_pos; lia.
    + rewrite (sq_sum N (T c d) x). nra.
Qed.

Lemma be_dot T s v :
  Sm N (fun i => be T s i * v i) = Sm NC (fun c => Sm ND (fun d => / sg c d * Sm N (fun i => T c d i * (ff s c d * v i)))).
Proof.
  unfold be.
  transitivity (Sm N (fun i => Sm NC (fun c => Sm ND (fun d => / sg c d * (T c d i * (ff s c d * v i)))))).
  { apply Sm_ext; intros i _. rewrite Sm_mul_r. apply Sm_ext; intros c _. rewrite Sm_mul_r. apply Sm_ext; intros d _. unfold Rdiv. ring. }
  rewrite Sm_swap. apply Sm_ext; intros c _. rewrite Sm_swap. apply Sm_ext; intros d _. now rewrite Sm_mul_l.
Qed.

Variables T T' : nat -> nat -> nat -> R.
Variables So Sn : U -> nat -> nat -> R.
Hypothesis HSo : forall s, In s X -> forall i k, (i < t)%nat -> (k < t)%nat -> Sm N (fun j => Pe T s i j * So s j k) = dl i k.
Hypothesis HSn : forall s, In s X -> forall i k, (i < t)%nat -> (k < t)%nat -> Sm N (fun j => Pe T' s i j * Sn s j k) = dl i k.
Variables ldo ldn : U -> R.
Hypothesis Hkl : forall s, In s X -> ldn s - ldo s <= Sm N (fun i => Sm N (fun j => So s i j * Pe T' s j i)) - INR t.

(* posterior mean and second moment under the old machine; the E-step accumulators *)
Definition mu (s : U) (i : nat) : R := Sm N (fun j => So s i j * be T s j).
Definition W (s : U) (i j : nat) : R := So s i j + mu s i * mu s j.
Definition Ac (c i j : nat) : R := Sm X (fun s => nn s c * W s i j).
Definition Bc (c d i : nat) : R := Sm X (fun s => ff s c d * mu s i).
Hypothesis HT' : forall c d i, (c < C)%nat -> (d < D)%nat -> (i < t)%nat -> Sm N (fun j => Ac c j i * T' c d j) = Bc c d i.

Definition marg (Tx : nat -> nat -> nat -> R) (Sx : U -> nat -> nat -> R) (ld : U -> R) (s : U) : R :=
  / 2 * Sm N (fun i => be Tx s i * Sm N (fun j => Sx s i j * be Tx s j)) - / 2 * ld s.
Definition Q (Tx : nat -> nat -> nat -> R) (s : U) : R :=
  - / 2 * Sm N (fun i => Sm N (fun j => Pe Tx s i j * W s j i)) + Sm N (fun i => be Tx s i * mu s i).
Definition K0 (s : U) : R := / 2 * INR t - / 2 * ldo s.

Lemma W_sym s i j : In s X -> (i < t)%nat -> (j < t)%nat -> W s i j = W s j i.
Proof. intros Hs Hi Hj. unfold W. rewrite (inv_sym t (Pe T s) (So s) (Pe_sym T s) (HSo s Hs) i j Hi Hj). ring. Qed.
Lemma W_psd s x : In s X -> 0 <= bil t (W s) x x.
Proof.
  intros Hs. unfold bil, W.
  apply Rle_trans with (bil t (So s) x x + Sm N (fun i => mu s i * x i) * Sm N (fun i => mu s i * x i)).
  - apply Rplus_le_le_0_compat.
    + apply (inv_psd t (Pe T s) (So s) (HSo s Hs)). intros y. now apply Pe_psd.
    + nra.
  - right. rewrite <- (sq_sum N (mu s) x). unfold bil. rewrite <- Sm_add. apply Sm_ext; intros i _. rewrite <- Sm_add. apply Sm_ext; intros j _. ring.
Qed.
Lemma Ac_sym c i j : (i < t)%nat -> (j < t)%nat -> Ac c i j = Ac c j i.
Proof. intros Hi Hj. unfold Ac. apply Sm_ext; intros s Hs. now rewrite (W_sym s i j Hs Hi Hj). Qed.
Lemma Ac_psd c x : (c < C)%nat -> 0 <= bil t (Ac c) x x.
Proof.
  intros Hc. unfold bil, Ac.
  apply Rle_trans with (Sm X (fun s => nn s c * bil t (W s) x x)).
  - apply Sm_nonneg. intros s Hs. apply Rmult_le_pos. now apply nn_nonneg. now apply W_psd.
  - right. unfold bil.
    transitivity (Sm N (fun i => Sm N (fun j => Sm X (fun s => nn s c * (W s i j * (x i * x j)))))).
    + rewrite Sm_rot3. apply Sm_ext; intros s _. rewrite Sm_mul_l. apply Sm_ext; intros i _. rewrite Sm_mul_l. reflexivity.
    + apply Sm_ext; intros i _. apply Sm_ext; intros j _. rewrite Sm_mul_r. apply Sm_ext; intros s _. ring.
Qed.

Lemma Q_expand Tx s :
  Q Tx s = - / 2 * Sm N (fun i => W s i i)
           + Sm NC (fun c => Sm ND (fun d => / sg c d *
               (Sm N (fun i => Tx c d i * (ff s c d * mu s i))
                - / 2 * Sm N (fun i => Sm N (fun j => Tx c d i * Tx c d j * (nn s c * W s j i)))))).
Proof.
  unfold Q. rewrite (Pe_pair Tx s (fun i j => W s j i)), (be_dot Tx s (mu s)).
  rewrite Rmult_plus_distr_l, Rplus_assoc. f_equal.
  rewrite Sm_mul_l, <- Sm_add. apply Sm_ext; intros c _.
  rewrite !Sm_mul_l, <- Sm_add. apply Sm_ext; intros d _.
  transitivity (/ sg c d * Sm N (fun i => Tx c d i * (ff s c d * mu s i))
                - / sg c d * (/ 2 * (nn s c * Sm N (fun i => Sm N (fun j => Tx c d i * Tx c d j * W s j i))))); [ring|].
  rewrite Rmult_minus_distr_l. f_equal. f_equal. f_equal.
  rewrite Sm_mul_l. apply Sm_ext; intros i _. rewrite Sm_mul_l. apply Sm_ext; intros j _. ring.
Qed.

Lemma Q_sum Tx :
  Sm X (Q Tx) = - / 2 * Sm X (fun s => Sm N (fun i => W s i i))
                + Sm NC (fun c => Sm ND (fun d => / sg c d * gq t (Ac c) (Bc c d) (Tx c d))).
Proof.
  transitivity (Sm X (fun s => - / 2 * Sm N (fun i => W s i i)
           + Sm NC (fun c => Sm ND (fun d => / sg c d *
               (Sm N (fun i => Tx c d i * (ff s c d * mu s i))
                - / 2 * Sm N (fun i => Sm N (fun j => Tx c d i * Tx c d j * (nn s c * W s j i)))))))).
  { apply Sm_ext; intros s _. apply Q_expand. }
  rewrite Sm_add. f_equal. { now rewrite Sm_mul_l. }
  rewrite Sm_rot3'. apply Sm_ext; intros c _. apply Sm_ext; intros d _.
  rewrite <- Sm_mul_l. f_equal. unfold gq. rewrite Sm_sub. f_equal.
  - rewrite Sm_swap. apply Sm_ext; intros i _. unfold Bc. rewrite Sm_mul_l. apply Sm_ext; intros s _. ring.
  - rewrite <- Sm_mul_l. f_equal. rewrite Sm_rot3'. apply Sm_ext; intros i _. apply Sm_ext; intros j _.
    unfold Ac. now rewrite Sm_mul_l.
Qed.

Lemma em_mstep : Sm X (Q T) <= Sm X (Q T').
Proof.
  rewrite !Q_sum. apply Rplus_le_compat_l.
  apply Sm_le. intros c Hc. apply in_seq in Hc. apply Sm_le. intros d Hd. apply in_seq in Hd.
  apply Rmult_le_compat_l. { left. apply Rinv_0_lt_compat. apply sg_pos; lia. }
  apply quad_max.
  - apply Ac_sym.
  - intros x. apply Ac_psd. lia.
  - intros i Hi. apply HT'; lia.
Qed.

Lemma P_mu s i : In s X -> (i < t)%nat -> Sm N (fun j => Pe T s i j * mu s j) = be T s i.
Proof. intros Hs Hi. unfold mu. exact (inv_mv t (Pe T s) (So s) (HSo s Hs) (be T s) i Hi). Qed.

Lemma Q_split Tx s :
  Q Tx s = - / 2 * Sm N (fun i => Sm N (fun j => Pe Tx s i j * So s j i)) - / 2 * bil t (Pe Tx s) (mu s) (mu s)
           + Sm N (fun i => be Tx s i * mu s i).
Proof.
  assert (E : Sm N (fun i => Sm N (fun j => Pe Tx s i j * W s j i))
              = Sm N (fun i => Sm N (fun j => Pe Tx s i j * So s j i)) + bil t (Pe Tx s) (mu s) (mu s)).
  { unfold W, bil. rewrite <- Sm_add. apply Sm_ext; intros i _. rewrite <- Sm_add. apply Sm_ext; intros j _. ring. }
  unfold Q. rewrite E. ring.
Qed.

Lemma elbo_tight s : In s X -> marg T So ldo s = Q T s + K0 s.
Proof.
  intros Hs. rewrite Q_split. rewrite (inv_trace t (Pe T s) (So s) (HSo s Hs)).
  rewrite (bil_mv t (Pe T s)).
  assert (E : Sm N (fun i => mu s i * Sm N (fun j => Pe T s i j * mu s j)) = Sm N (fun i => be T s i * mu s i)).
  { apply Sm_ext_n; intros i Hi. rewrite (P_mu s i Hs Hi). ring. }
  rewrite E. unfold marg, K0. fold (mu s). 
  assert (E2 : Sm N (fun i => be T s i * Sm N (fun j => So s i j * be T s j)) = Sm N (fun i => be T s i * mu s i)) by reflexivity.
  rewrite E2. lra.
Qed.

Lemma elbo_lower s : In s X -> Q T' s + K0 s <= marg T' Sn ldn s.
Proof.
  intros Hs. rewrite Q_split.
  set (w := fun i => Sm N (fun j => Sn s i j * be T' s j)).
  assert (Pw : forall i, (i < t)%nat -> Sm N (fun j => Pe T' s i j * w j) = be T' s i).
  { intros i Hi. exact (inv_mv t (Pe T' s) (Sn s) (HSn s Hs) (be T' s) i Hi). }
  assert (E1 : Sm N (fun i => be T' s i * mu s i) = bil t (Pe T' s) (mu s) w).
  { rewrite (bil_mv t (Pe T' s)). apply Sm_ext_n; intros i Hi. rewrite (Pw i Hi). ring. }
  assert (E2 : Sm N (fun i => be T' s i * Sm N (fun j => Sn s i j * be T' s j)) = bil t (Pe T' s) w w).
  { rewrite (bil_mv t (Pe T' s)). apply Sm_ext_n; intros i Hi. rewrite (Pw i Hi). fold (w i). ring. }
  assert (E3 : Sm N (fun i => Sm N (fun j => Pe T' s i j * So s j i)) = Sm N (fun i => Sm N (fun j => So s i j * Pe T' s j i))).
  { rewrite Sm_swap. apply Sm_ext; intros i _. apply Sm_ext; intros j _. ring. }
  unfold marg, K0. rewrite E1, E2, E3.
  pose proof (Hkl s Hs) as Hk.
  pose proof (Pe_psd T' s (fun i => mu s i - w i) Hs) as Hp.
  rewrite (bil_diff t (Pe T' s) (Pe_sym T' s)) in Hp. lra.
Qed.

Theorem em_core : Sm X (marg T So ldo) <= Sm X (marg T' Sn ldn).
Proof.
  apply Rle_trans with (Sm X (fun s => Q T s + K0 s)).
  { right. apply Sm_ext; intros s Hs. now apply elbo_tight. }
  apply Rle_trans with (Sm X (fun s => Q T' s + K0 s)).
  { rewrite !Sm_add. apply Rplus_le_compat_r. apply em_mstep. }
  apply Sm_le. intros s Hs. now apply elbo_lower.
Qed.
End EM.

Print Assumptions kl_core.
Print Assumptions em_core.
