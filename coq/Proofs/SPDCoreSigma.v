(* Index-form core of the general i-vector EM theorem WITH covariance updating (Proofs/IVGeneralSigma.v): the EM argument of
   Proofs/SPDCore.v (Section EM) for the pair (T, sigma): two variance tables sgo (old) / sgn (new), the posterior of every
   utterance taken under (T, sgo), the joint M-step (T', sgn) with sgn_cd = (SQ_cd - B_cd . T'_cd) / N_c. *)
From Coq Require Import Reals Lra List Lia Bool Arith.
From BLE Require Import Proofs.RLemmas Proofs.SPDCore.
Import ListNotations.
Open Scope R_scope.

(* one coordinate (c, d): the joint (row of T, covariance) update maximises the expected complete-data term *)
Lemma percoord_t (G G' BT SQ NN so sn : R) :
  G <= G' -> G' = / 2 * BT -> sn = (SQ - BT) / NN -> 0 < NN -> 0 < so -> 0 < sn ->
  / so * G - / 2 * (NN * ln so + SQ / so) <= / sn * G' - / 2 * (NN * ln sn + SQ / sn).
Proof.
  intros HG EG Esn HN Hso Hsn.
  assert (EQ : SQ = sn * NN + BT) by (rewrite Esn; field; lra).
  assert (Hx : 0 < sn / so) by (apply Rdiv_lt_0_compat; assumption).
  pose proof (ln_le_sub1 _ Hx) as K. unfold Rdiv in K at 1. rewrite ln_mult in K by (try apply Rinv_0_lt_compat; lra).
  rewrite ln_Rinv in K by lra.
  assert (K2 : NN * (ln sn - ln so) <= NN * (sn / so - 1)) by (apply Rmult_le_compat_l; lra).
  apply Rle_trans with (/ so * G' - / 2 * (NN * ln so + SQ / so)).
  { apply Rplus_le_compat_r. apply Rmult_le_compat_l; [left; now apply Rinv_0_lt_compat|exact HG]. }
  rewrite EG, EQ.
  replace (/ sn * (/ 2 * BT) - / 2 * (NN * ln sn + (sn * NN + BT) / sn)) with (- / 2 * (NN * ln sn + NN)) by (field; lra).
  replace (/ so * (/ 2 * BT) - / 2 * (NN * ln so + (sn * NN + BT) / so)) with (- / 2 * (NN * ln so + NN * (sn / so))) by (field; lra).
  lra.
Qed.

Section EMS.
Variables (C D t : nat) (U : Type) (X : list U).
Variables (nn : U -> nat -> R) (ff qq : U -> nat -> nat -> R) (sgo sgn : nat -> nat -> R).
Hypothesis nn_nonneg : forall s, In s X -> forall c, (c < C)%nat -> 0 <= nn s c.
Hypothesis sgo_pos : forall c d, (c < C)%nat -> (d < D)%nat -> 0 < sgo c d.
Hypothesis sgn_pos : forall c d, (c < C)%nat -> (d < D)%nat -> 0 < sgn c d.
Notation N := (seq 0 t).
Notation NC := (seq 0 C).
Notation ND := (seq 0 D).

Variables T T' : nat -> nat -> nat -> R.
Variables So Sn : U -> nat -> nat -> R.
Notation PE sg Tx := (Pe C D U nn sg Tx).
Notation BE sg Tx := (be C D U ff sg Tx).
Hypothesis HSo : forall s, In s X -> forall i k, (i < t)%nat -> (k < t)%nat -> Sm N (fun j => PE sgo T s i j * So s j k) = dl i k.
Hypothesis HSn : forall s, In s X -> forall i k, (i < t)%nat -> (k < t)%nat -> Sm N (fun j => PE sgn T' s i j * Sn s j k) = dl i k.
Variables ldo ldn : U -> R.
Hypothesis Hkl : forall s, In s X -> ldn s - ldo s <= Sm N (fun i => Sm N (fun j => So s i j * PE sgn T' s j i)) - INR t.

(* posterior mean / second moment under the OLD pair (T, sgo); the E-step accumulators *)
Notation muo := (mu C D t U ff sgo T So).
Notation Wo := (W C D t U ff sgo T So).
Notation Aco := (Ac C D t U X nn ff sgo T So).
Notation Bco := (Bc C D t U X ff sgo T So).
Definition NNc (c : nat) : R := Sm X (fun s => nn s c).
Definition SQc (c d : nat) : R := Sm X (fun s => qq s c d).

Hypothesis HT' : forall c d i, (c < C)%nat -> (d < D)%nat -> (i < t)%nat -> Sm N (fun j => Aco c j i * T' c d j) = Bco c d i.
Hypothesis HNN : forall c, (c < C)%nat -> 0 < NNc c.
Hypothesis Hsgn : forall c d, (c < C)%nat -> (d < D)%nat ->
  sgn c d = (SQc c d - Sm N (fun i => Bco c d i * T' c d i)) / NNc c.

(* expected complete-data term of utterance s at (Tx, sgx), posterior from (T, sgo) *)
Definition Qx (sgx : nat -> nat -> R) (Tx : nat -> nat -> nat -> R) (s : U) : R :=
  - / 2 * Sm N (fun i => Sm N (fun j => PE sgx Tx s i j * Wo s j i)) + Sm N (fun i => BE sgx Tx s i * muo s i).
Definition pen (sgx : nat -> nat -> R) (s : U) : R :=
  / 2 * Sm NC (fun c => Sm ND (fun d => nn s c * ln (sgx c d) + qq s c d / sgx c d)).
Definition marg2 (sgx : nat -> nat -> R) (Tx : nat -> nat -> nat -> R) (Sx : U -> nat -> nat -> R) (ld : U -> R) (s : U) : R :=
  marg C D t U ff sgx Tx Sx ld s - pen sgx s.

Lemma Qx_old s : Qx sgo T s = Q C D t U nn ff sgo T So T s.
Proof. reflexivity. Qed.

Lemma Qx_expand sgx Tx s :
  Qx sgx Tx s = - / 2 * Sm N (fun i => Wo s i i)
           + Sm NC (fun c => Sm ND (fun d => / sgx c d *
               (Sm N (fun i => Tx c d i * (ff s c d * muo s i))
                - / 2 * Sm N (fun i => Sm N (fun j => Tx c d i * Tx c d j * (nn s c * Wo s j i)))))).
Proof.
  unfold Qx. rewrite (Pe_pair C D t U nn sgx Tx s (fun i j => Wo s j i)), (be_dot C D t U ff sgx Tx s (muo s)).
  rewrite Rmult_plus_distr_l, Rplus_assoc. f_equal.
  rewrite Sm_mul_l, <- Sm_add. apply Sm_ext; intros c _.
  rewrite !Sm_mul_l, <- Sm_add. apply Sm_ext; intros d _.
  transitivity (/ sgx c d * Sm N (fun i => Tx c d i * (ff s c d * muo s i))
                - / sgx c d * (/ 2 * (nn s c * Sm N (fun i => Sm N (fun j => Tx c d i * Tx c d j * Wo s j i))))); [ring|].
  rewrite Rmult_minus_distr_l. f_equal. f_equal. f_equal.
  rewrite Sm_mul_l. apply Sm_ext; intros i _. rewrite Sm_mul_l. apply Sm_ext; intros j _. ring.
Qed.

Lemma Qx_sum sgx Tx :
  Sm X (Qx sgx Tx) = - / 2 * Sm X (fun s => Sm N (fun i => Wo s i i))
                + Sm NC (fun c => Sm ND (fun d => / sgx c d * gq t (Aco c) (Bco c d) (Tx c d))).
Proof.
  transitivity (Sm X (fun s => - / 2 * Sm N (fun i => Wo s i i)
           + Sm NC (fun c => Sm ND (fun d => / sgx c d *
               (Sm N (fun i => Tx c d i * (ff s c d * muo s i))
                - / 2 * Sm N (fun i => Sm N (fun j => Tx c d i * Tx c d j * (nn s c * Wo s j i)))))))).
  { apply Sm_ext; intros s _. apply Qx_expand. }
  rewrite Sm_add. f_equal. { now rewrite Sm_mul_l. }
  rewrite Sm_rot3'. apply Sm_ext; intros c _. apply Sm_ext; intros d _.
  rewrite <- Sm_mul_l. f_equal. unfold gq. rewrite Sm_sub. f_equal.
  - rewrite Sm_swap. apply Sm_ext; intros i _. unfold Bc. rewrite Sm_mul_l. apply Sm_ext; intros s _. ring.
  - rewrite <- Sm_mul_l. f_equal. rewrite Sm_rot3'. apply Sm_ext; intros i _. apply Sm_ext; intros j _.
    unfold Ac. now rewrite Sm_mul_l.
Qed.

Lemma pen_sum sgx :
  Sm X (pen sgx) = Sm NC (fun c => Sm ND (fun d => / 2 * (NNc c * ln (sgx c d) + SQc c d / sgx c d))).
Proof.
  unfold pen.
  transitivity (Sm X (fun s => Sm NC (fun c => Sm ND (fun d => / 2 * (nn s c * ln (sgx c d) + qq s c d / sgx c d))))).
  { apply Sm_ext; intros s _. rewrite Sm_mul_l. apply Sm_ext; intros c _. now rewrite Sm_mul_l. }
  rewrite Sm_rot3'. apply Sm_ext; intros c _. apply Sm_ext; intros d _.
  rewrite <- Sm_mul_l. f_equal. rewrite Sm_add. f_equal.
  - unfold NNc. now rewrite Sm_mul_r.
  - unfold SQc. now rewrite Sm_div_r.
Qed.

(* at the stationary point the quadratic equals half its linear part *)
Lemma gq_stationary (A : nat -> nat -> R) (B r' : nat -> R) :
  (forall i, (i < t)%nat -> Sm N (fun j => A j i * r' j) = B i) ->
  gq t A B r' = / 2 * Sm N (fun i => B i * r' i).
Proof.
  intros Hg. unfold gq.
  assert (E : Sm N (fun i => Sm N (fun j => r' i * r' j * A j i)) = Sm N (fun i => r' i * B i)).
  { apply Sm_ext_n; intros i Hi. rewrite <- (Hg i Hi), Sm_mul_l. apply Sm_ext; intros j _. ring. }
  rewrite E. assert (E2 : Sm N (fun i => B i * r' i) = Sm N (fun i => r' i * B i)) by (apply Sm_ext; intros; ring).
  rewrite E2. lra.
Qed.

Lemma ems_mstep : Sm X (fun s => Qx sgo T s - pen sgo s) <= Sm X (fun s => Qx sgn T' s - pen sgn s).
Proof.
  rewrite !Sm_sub, !Qx_sum, !pen_sum.
  unfold Rminus. rewrite !Rplus_assoc. apply Rplus_le_compat_l.
  rewrite <- !Sm_opp, <- !Sm_add.
  apply Sm_le. intros c Hc. apply in_seq in Hc. rewrite <- !Sm_opp, <- !Sm_add. apply Sm_le. intros d Hd. apply in_seq in Hd.
  assert (Hc' : (c < C)%nat) by lia. assert (Hd' : (d < D)%nat) by lia.
  apply (percoord_t _ _ (Sm N (fun i => Bco c d i * T' c d i)) (SQc c d) (NNc c) (sgo c d) (sgn c d)).
  - apply quad_max.
    + apply (Ac_sym C D t U X nn ff sgo T So HSo).
    + intros x. apply (Ac_psd C D t U X nn ff sgo nn_nonneg sgo_pos T So HSo). exact Hc'.
    + intros i Hi. apply HT'; assumption.
  - apply gq_stationary. intros i Hi. apply HT'; assumption.
  - apply Hsgn; assumption.
  - apply HNN; assumption.
  - apply sgo_pos; assumption.
  - apply sgn_pos; assumption.
Qed.

Lemma Qx_split sgx Tx s :
  Qx sgx Tx s = - / 2 * Sm N (fun i => Sm N (fun j => PE sgx Tx s i j * So s j i)) - / 2 * bil t (PE sgx Tx s) (muo s) (muo s)
           + Sm N (fun i => BE sgx Tx s i * muo s i).
Proof.
  assert (E : Sm N (fun i => Sm N (fun j => PE sgx Tx s i j * Wo s j i))
              = Sm N (fun i => Sm N (fun j => PE sgx Tx s i j * So s j i)) + bil t (PE sgx Tx s) (muo s) (muo s)).
  { unfold W, bil. rewrite <- Sm_add. apply Sm_ext; intros i _. rewrite <- Sm_add. apply Sm_ext; intros j _. ring. }
  unfold Qx. rewrite E. ring.
Qed.

Lemma ems_tight s : In s X -> marg C D t U ff sgo T So ldo s = Qx sgo T s + K0 t U ldo s.
Proof. intros Hs. rewrite Qx_old. exact (elbo_tight C D t U X nn ff sgo T So HSo ldo s Hs). Qed.

Lemma ems_lower s : In s X -> Qx sgn T' s + K0 t U ldo s <= marg C D t U ff sgn T' Sn ldn s.
Proof.
  intros Hs. rewrite Qx_split.
  set (w := fun i => Sm N (fun j => Sn s i j * BE sgn T' s j)).
  assert (Pw : forall i, (i < t)%nat -> Sm N (fun j => PE sgn T' s i j * w j) = BE sgn T' s i).
  { intros i Hi. exact (inv_mv t (PE sgn T' s) (Sn s) (HSn s Hs) (BE sgn T' s) i Hi). }
  assert (E1 : Sm N (fun i => BE sgn T' s i * muo s i) = bil t (PE sgn T' s) (muo s) w).
  { rewrite (bil_mv t (PE sgn T' s)). apply Sm_ext_n; intros i Hi. rewrite (Pw i Hi). ring. }
  assert (E2 : Sm N (fun i => BE sgn T' s i * Sm N (fun j => Sn s i j * BE sgn T' s j)) = bil t (PE sgn T' s) w w).
  { rewrite (bil_mv t (PE sgn T' s)). apply Sm_ext_n; intros i Hi. rewrite (Pw i Hi). fold (w i). ring. }
  assert (E3 : Sm N (fun i => Sm N (fun j => PE sgn T' s i j * So s j i)) = Sm N (fun i => Sm N (fun j => So s i j * PE sgn T' s j i))).
  { rewrite Sm_swap. apply Sm_ext; intros i _. apply Sm_ext; intros j _. ring. }
  unfold marg, K0. rewrite E1, E2, E3.
  pose proof (Hkl s Hs) as Hk.
  pose proof (Pe_psd C D t U X nn sgn nn_nonneg sgn_pos T' s (fun i => muo s i - w i) Hs) as Hp.
  rewrite (bil_diff t (PE sgn T' s) (Pe_sym C D U nn sgn T' s)) in Hp. lra.
Qed.

Theorem em_sigma_core : Sm X (marg2 sgo T So ldo) <= Sm X (marg2 sgn T' Sn ldn).
Proof.
  apply Rle_trans with (Sm X (fun s => (Qx sgo T s - pen sgo s) + K0 t U ldo s)).
  { right. apply Sm_ext; intros s Hs. unfold marg2. rewrite (ems_tight s Hs). ring. }
  apply Rle_trans with (Sm X (fun s => (Qx sgn T' s - pen sgn s) + K0 t U ldo s)).
  { rewrite !Sm_add. apply Rplus_le_compat_r. apply ems_mstep. }
  apply Sm_le. intros s Hs. unfold marg2. pose proof (ems_lower s Hs). lra.
Qed.
End EMS.

Print Assumptions em_sigma_core.
