(* C04 / C12: task graphs, schedules, shared vs isolated execution, copy-back.
   (1) every valid execution order of a task DAG yields the denotation (order independence);
   (2) in the "star" graphs the trainers build (one task per block + one reducing/M-step task) every
       E-step task precedes the single writer in every valid order;
   (3) a worker that runs the M-step on a serialised copy and a caller that copies back the attributes
       in [copyback] end in the same caller-visible state as shared-memory execution iff every attribute
       the M-step writes is copied back - decided on the lists GENERATED from /repo/src. *)
From Coq Require Import List Arith Lia Bool.
From Coq Require String.
From BLE Require Import Generated.Facts Proofs.FactsDefs.
Import ListNotations.

Section Sched.
Variable V : Type.
Variable dflt : V.
Record task := { deps : list nat; run : list V -> V }.
Definition graph := list task.
Definition wf (g : graph) := forall i t, nth_error g i = Some t -> Forall (fun d => d < i) (deps t).

Fixpoint den_from (g : graph) (acc : list V) : list V :=
  match g with [] => acc | t :: r => den_from r (acc ++ [run t (map (fun d => nth d acc dflt) (deps t))]) end.
Definition den (g : graph) : list V := den_from g [].

Definition store := nat -> option V.
Definition empty : store := fun _ => None.
Definition upd (s : store) k v : store := fun j => if Nat.eqb j k then Some v else s j.
Definition getd (s : store) d := match s d with Some v => v | None => dflt end.
Definition ready (s : store) (t : task) := Forall (fun d => s d <> None) (deps t).
Definition step (g : graph) (s : store) (k : nat) : store :=
  match nth_error g k with Some t => upd s k (run t (map (getd s) (deps t))) | None => s end.
Fixpoint valid (g : graph) (s : store) (sched : list nat) : Prop :=
  match sched with [] => True
  | k :: r => (exists t, nth_error g k = Some t /\ ready s t) /\ valid g (step g s k) r end.
Definition exec g sched := fold_left (step g) sched empty.

Lemma den_from_prefix g acc i : i < length acc -> nth i (den_from g acc) dflt = nth i acc dflt.
Proof. revert acc; induction g as [|t g IH]; intros acc H; simpl; auto. rewrite IH by (rewrite app_length; lia). now rewrite app_nth1. Qed.

Lemma den_eq g : wf g -> forall k t, nth_error g k = Some t ->
  nth k (den g) dflt = run t (map (fun d => nth d (den g) dflt) (deps t)).
Proof.
  intros Hwf. unfold den.
  assert (G : forall pre suf acc, g = pre ++ suf -> length acc = length pre ->
            forall k t, nth_error suf k = Some t ->
            nth (length pre + k) (den_from suf acc) dflt =
            run t (map (fun d => nth d (den_from suf acc) dflt) (deps t))).
  { intros pre suf; revert pre; induction suf as [|t0 suf IH]; intros pre acc E Hl k t Hk.
    - destruct k; discriminate.
    - destruct k as [|k]; simpl in *.
      + inversion Hk; subst t0. rewrite den_from_prefix by (rewrite app_length; simpl; lia).
        rewrite app_nth2 by lia. rewrite Hl, Nat.add_0_r, Nat.sub_diag. simpl.
        f_equal. apply map_ext_in. intros d Hd.
        assert (d < length pre).
        { assert (Hn : nth_error g (length pre) = Some t) by (rewrite E, nth_error_app2, Nat.sub_diag by lia; reflexivity).
          pose proof (Hwf _ _ Hn) as F. rewrite Forall_forall in F. now apply F. }
        rewrite den_from_prefix by (rewrite app_length; simpl; lia). now rewrite app_nth1 by lia.
      + replace (length pre + S k) with (length (pre ++ [t0]) + k) by (rewrite app_length; simpl; lia).
        apply IH. now rewrite <- app_assoc. rewrite !app_length; simpl; lia. assumption. }
  intros k t Hk. apply (G [] g [] eq_refl eq_refl k t Hk).
Qed.

Definition consistent (g : graph) (s : store) := forall k v, s k = Some v -> v = nth k (den g) dflt.

Lemma step_consistent g s k : wf g -> consistent g s ->
  (exists t, nth_error g k = Some t /\ ready s t) -> consistent g (step g s k).
Proof.
  intros Hwf Hc [t [Hk Hr]] j v. unfold step. rewrite Hk. unfold upd.
  destruct (Nat.eqb_spec j k) as [->|Hne]; [|apply Hc].
  intros E; inversion E; subst v. rewrite (den_eq g Hwf k t Hk). f_equal. apply map_ext_in.
  intros d Hd. unfold ready in Hr. rewrite Forall_forall in Hr. specialize (Hr d Hd).
  unfold getd. destruct (s d) as [v|] eqn:Es; [|congruence]. now apply Hc.
Qed.

(* (1) every valid execution order yields the denotation *)
Theorem exec_any_order g sched : wf g -> valid g empty sched ->
  forall k, In k sched -> exec g sched k = Some (nth k (den g) dflt).
Proof.
  intros Hwf. unfold exec.
  assert (G : forall sc s, consistent g s -> valid g s sc ->
            consistent g (fold_left (step g) sc s) /\
            forall k, (In k sc \/ s k <> None) -> fold_left (step g) sc s k <> None).
  { intros sc; induction sc as [|k r IH]; intros s Hc Hv; simpl in *.
    - split; [exact Hc|]. intros j Hj. destruct Hj as [Hf|Hs]; [destruct Hf|exact Hs].
    - destruct Hv as [Hk Hv]. specialize (IH _ (step_consistent g s k Hwf Hc Hk) Hv) as [IH1 IH2].
      split; auto. intros j Hj. apply IH2. destruct Hk as [t [Hk _]].
      destruct Hj as [[->|Hj]|Hj]; auto; right; unfold step; rewrite Hk; unfold upd.
      + now rewrite Nat.eqb_refl.
      + destruct (Nat.eqb j k); congruence. }
  intros Hv k Hin. destruct (G sched empty) as [G1 G2]; auto. { intros j v; discriminate. }
  specialize (G2 k (or_introl Hin)). destruct (fold_left (step g) sched empty k) as [v|] eqn:E; [|congruence].
  f_equal. now apply G1.
Qed.

(* two valid schedules that both run task k agree on its result: no result depends on the order *)
Corollary schedules_agree g s1 s2 k : wf g -> valid g empty s1 -> valid g empty s2 -> In k s1 -> In k s2 ->
  exec g s1 k = exec g s2 k.
Proof. intros. rewrite (exec_any_order g s1), (exec_any_order g s2); auto. Qed.

Lemma nth_map_in {A B} (f : A -> B) (l : list A) i (db : B) (da : A) : i < length l -> nth i (map f l) db = f (nth i l da).
Proof. revert i; induction l as [|x l IH]; intros [|i] H; simpl in *; try lia; auto. apply IH; lia. Qed.

(* (2) star graph: n block tasks without dependencies, then one task depending on all of them *)
Definition star (blocks : list (list V -> V)) (reduce : list V -> V) : graph :=
  map (fun f => {| deps := []; run := f |}) blocks ++ [{| deps := seq 0 (length blocks); run := reduce |}].
Lemma star_wf blocks reduce : wf (star blocks reduce).
Proof.
  intros i t H. unfold star in H. destruct (Nat.lt_ge_cases i (length blocks)) as [Hl|Hg].
  - rewrite nth_error_app1 in H by (rewrite map_length; exact Hl).
    rewrite nth_error_map in H. destruct (nth_error blocks i); inversion H; subst; simpl. constructor.
  - rewrite nth_error_app2 in H by (rewrite map_length; exact Hg). rewrite map_length in H.
    destruct (i - length blocks) as [|j] eqn:E; simpl in H; [|destruct j; discriminate].
    inversion H; subst; simpl. apply Forall_forall. intros d Hd. apply in_seq in Hd. lia.
Qed.
(* the value of the reducing task is reduce applied to the block results IN BLOCK ORDER, whatever the schedule *)
Theorem star_result blocks reduce sched : valid (star blocks reduce) empty sched -> In (length blocks) sched ->
  exec (star blocks reduce) sched (length blocks) = Some (reduce (map (fun f => f []) blocks)).
Proof.
  intros Hv Hin. rewrite (exec_any_order _ _ (star_wf blocks reduce) Hv _ Hin). f_equal.
  assert (Hn : nth_error (star blocks reduce) (length blocks) = Some {| deps := seq 0 (length blocks); run := reduce |}).
  { unfold star. rewrite nth_error_app2 by (rewrite map_length; lia). rewrite map_length, Nat.sub_diag. reflexivity. }
  rewrite (den_eq _ (star_wf blocks reduce) _ _ Hn). simpl. f_equal.
  apply nth_ext with (d := dflt) (d' := dflt). { now rewrite !map_length, seq_length. }
  intros i Hi. rewrite map_length, seq_length in Hi.
  rewrite (nth_map_in (fun d => nth d (den (star blocks reduce)) dflt) (seq 0 (length blocks)) i dflt 0) by (rewrite seq_length; exact Hi).
  rewrite seq_nth by exact Hi. simpl.
  rewrite (nth_map_in (fun f : list V -> V => f []) blocks i dflt (fun _ => dflt)) by exact Hi.
  assert (Hb : nth_error (star blocks reduce) i = Some {| deps := []; run := nth i blocks (fun _ => dflt) |}).
  { unfold star. rewrite nth_error_app1 by (rewrite map_length; exact Hi). rewrite nth_error_map.
    rewrite (nth_error_nth' blocks (fun _ => dflt)) by exact Hi. reflexivity. }
  rewrite (den_eq _ (star_wf blocks reduce) _ _ Hb). reflexivity.
Qed.
(* readers before the writer: in every valid schedule every block task has finished before the reducing task starts *)
Theorem star_readers_before_writer blocks reduce pre post :
  valid (star blocks reduce) empty (pre ++ length blocks :: post) ->
  forall i, i < length blocks -> In i pre.
Proof.
  intros Hv i Hi.
  assert (G : forall sc s rest, valid (star blocks reduce) s (sc ++ rest) -> valid (star blocks reduce) (fold_left (step (star blocks reduce)) sc s) rest).
  { induction sc as [|k sc IH]; intros s rest H; simpl in *; auto. destruct H as [_ H]. now apply IH. }
  pose proof (G pre empty _ Hv) as H. simpl in H. destruct H as [[t [Ht Hr]] _].
  assert (Et : t = {| deps := seq 0 (length blocks); run := reduce |}).
  { unfold star in Ht. rewrite nth_error_app2 in Ht by (rewrite map_length; lia). rewrite map_length, Nat.sub_diag in Ht. now inversion Ht. }
  subst t. unfold ready in Hr. simpl in Hr. rewrite Forall_forall in Hr.
  assert (Hd : fold_left (step (star blocks reduce)) pre empty i <> None) by (apply Hr, in_seq; lia).
  assert (K : forall sc s j, fold_left (step (star blocks reduce)) sc s j <> None -> s j <> None \/ In j sc).
  { induction sc as [|k sc IH]; intros s j H; simpl in *; auto.
    destruct (IH _ _ H) as [H1|H1]; auto. unfold step in H1.
    destruct (nth_error (star blocks reduce) k); auto. unfold upd in H1. destruct (Nat.eqb_spec j k); auto. }
  destruct (K _ _ _ Hd) as [H1|H1]; auto. exfalso; now apply H1.
Qed.
End Sched.

(* (3) copy-back: attributes as strings, states as association functions *)
Section CopyBack.
Variable Val : Type.
Notation string := String.string.
Definition state := string -> Val.
Definition sset (s : state) (a : string) (v : Val) : state := fun b => if String.eqb b a then v else s b.
(* the M-step writes new values for the attributes in [writes] *)
Definition apply_writes (s : state) (writes : list (string * Val)) : state :=
  fold_left (fun st av => sset st (fst av) (snd av)) writes s.
(* shared memory: the task mutates the caller's machine *)
Definition after_shared (caller : state) (writes : list (string * Val)) : state := apply_writes caller writes.
(* isolation: the task mutates a copy; the caller then copies back the attributes in [copyback] *)
Definition after_isolated (caller : state) (writes : list (string * Val)) (copyback : list string) : state :=
  let worker := apply_writes caller writes in
  fold_left (fun st a => sset st a (worker a)) copyback caller.

Lemma apply_writes_other s ws a : ~ In a (map fst ws) -> apply_writes s ws a = s a.
Proof.
  revert s; induction ws as [|[b v] ws IH]; intros s H; simpl in *; auto.
  rewrite IH by tauto. unfold sset. destruct (String.eqb_spec a b); auto. subst. tauto.
Qed.
Lemma copyback_get caller worker cb a :
  fold_left (fun st x => sset st x (worker x)) cb caller a = if existsb (String.eqb a) cb then worker a else caller a.
Proof.
  revert caller; induction cb as [|b cb IH]; intros caller; simpl; auto.
  rewrite IH. destruct (existsb (String.eqb a) cb) eqn:E.
  - now rewrite orb_true_r.
  - rewrite orb_false_r. unfold sset. destruct (String.eqb_spec a b); subst; auto.
Qed.
Theorem isolated_eq_shared caller writes copyback :
  incl_b (map fst writes) copyback = true ->
  forall a, after_isolated caller writes copyback a = after_shared caller writes a.
Proof.
  intros H a. unfold after_isolated, after_shared. rewrite copyback_get.
  destruct (existsb (String.eqb a) copyback) eqn:E; auto.
  symmetry. apply apply_writes_other. intros Hin.
  unfold incl_b in H. rewrite forallb_forall in H. specialize (H a Hin). congruence.
Qed.
(* and the inclusion is necessary: a written attribute that is not copied back is lost under isolation *)
Theorem isolated_loses_uncopied caller a v copyback : existsb (String.eqb a) copyback = false ->
  after_isolated caller [(a, v)] copyback a = caller a /\ after_shared caller [(a, v)] a = v.
Proof.
  intros H. split.
  - unfold after_isolated. rewrite copyback_get, H. reflexivity.
  - unfold after_shared; simpl. unfold sset. now rewrite String.eqb_refl.
Qed.
End CopyBack.

Theorem generated_copyback_obligations :
  extraction_error = false /\ gmm_ml_copyback_ok = true /\ gmm_map_copyback_ok = true /\ ivector_copyback_ok = true
  /\ ml_mstep_writes <> [] /\ map_mstep_writes <> [] /\ ivector_mstep_writes <> [].
Proof. repeat split; try (vm_compute; reflexivity); (intro H; vm_compute in H; discriminate H). Qed.
