(* Abstract real-sequence lemmas for the linear-rate convergence of exact block-coordinate ascent
   (used by Proofs/FAEnrollConvAux.v).  Only the standard library Reals and the list sums of RLemmas. *)
From Coq Require Import Reals Lra Lia List Arith.
From BLE Require Import Proofs.RLemmas.
Import ListNotations.
Open Scope R_scope.

(* ---------------------------------------------------------------- geometric decay of the steps *)
(* f: objective values (non-decreasing), D2: squared step lengths, G2: squared gradient norms *)
Lemma lin_rate (f D2 G2 : nat -> R) (L : R) :
  0 <= L ->
  (forall k, D2 k / 2 <= f (S k) - f k) ->
  (forall k, G2 (S k) <= L * D2 k) ->
  (forall k m, f m <= f k + G2 k / 2) ->
  forall k, D2 k <= G2 0%nat * (L / (1 + L)) ^ k.
Proof.
  intros HL Hinc Hgrad Hup.
  set (rho := L / (1 + L)).
  assert (Hrho : 0 <= rho). { unfold rho. apply Rmult_le_pos. lra. left. apply Rinv_0_lt_compat. lra. }
  assert (Claim : forall m k, f m - f k <= rho ^ k * (G2 0%nat / 2)).
  { intros m. induction k as [|k IH].
    - cbn [pow]. pose proof (Hup 0%nat m). lra.
    - cbn [pow]. pose proof (Hup (S k) m) as H1. pose proof (Hgrad k) as H2. pose proof (Hinc k) as H3.
      assert (E : (1 + L) * (f m - f (S k)) <= L * (f m - f k)).
      { assert (f m - f (S k) <= L * (f (S k) - f k)).
        { apply Rle_trans with (G2 (S k) / 2). lra. apply Rle_trans with (L * D2 k / 2). lra.
          assert (L * (D2 k / 2) <= L * (f (S k) - f k)) by (apply Rmult_le_compat_l; lra). lra. }
        lra. }
      assert (E2 : f m - f (S k) <= rho * (f m - f k)).
      { unfold rho. apply Rmult_le_reg_l with (1 + L). lra.
        replace ((1 + L) * (L / (1 + L) * (f m - f k))) with (L * (f m - f k)) by (field; lra). exact E. }
      apply Rle_trans with (rho * (f m - f k)). exact E2.
      rewrite Rmult_assoc. apply Rmult_le_compat_l; assumption. }
  intros k. pose proof (Claim (S k) k). pose proof (Hinc k). lra.
Qed.

(* ---------------------------------------------------------------- geometric steps give a limit *)
Lemma geo_tail (a : nat -> R) (C r : R) : 0 <= r < 1 ->
  (forall k, Rabs (a (S k) - a k) <= C * r ^ k) ->
  forall n p, Rabs (a (n + p)%nat - a n) * (1 - r) <= C * (r ^ n - r ^ (n + p)).
Proof.
  intros Hr H n. induction p as [|p IH].
  - rewrite Nat.add_0_r. replace (a n - a n) with 0 by ring. rewrite Rabs_R0. lra.
  - replace (n + S p)%nat with (S (n + p)) by lia.
    pose proof (H (n + p)%nat) as H1.
    pose proof (Rabs_triang (a (S (n + p)) - a (n + p)%nat) (a (n + p)%nat - a n)) as H2.
    replace (a (S (n + p)) - a (n + p)%nat + (a (n + p)%nat - a n)) with (a (S (n + p)) - a n) in H2 by ring.
    cbn [pow].
    assert (Rabs (a (S (n + p)) - a (n + p)%nat) * (1 - r) <= C * r ^ (n + p) * (1 - r)).
    { apply Rmult_le_compat_r; lra. }
    assert (Rabs (a (S (n + p)) - a n) * (1 - r)
            <= Rabs (a (S (n + p)) - a (n + p)%nat) * (1 - r) + Rabs (a (n + p)%nat - a n) * (1 - r)).
    { rewrite <- Rmult_plus_distr_r. apply Rmult_le_compat_r; lra. }
    lra.
Qed.

Lemma geo_cv (a : nat -> R) (C r : R) : 0 <= r < 1 ->
  (forall k, Rabs (a (S k) - a k) <= C * r ^ k) -> exists l, Un_cv a l.
Proof.
  intros Hr H.
  assert (HC : 0 <= C). { pose proof (H 0%nat) as H0. cbn [pow] in H0. pose proof (Rabs_pos (a 1%nat - a 0%nat)). lra. }
  assert (Tail : forall N n, (n >= N)%nat -> Rabs (a n - a N) * (1 - r) <= (C + 1) * r ^ N).
  { intros N n Hn. replace n with (N + (n - N))%nat by lia.
    pose proof (geo_tail a C r Hr H N (n - N)%nat) as T.
    pose proof (pow_le r (N + (n - N)) (proj1 Hr)). pose proof (pow_le r N (proj1 Hr)). nra. }
  destruct (R_complete a) as [l Hl]; [|exists l; exact Hl].
  intros eps Heps.
  assert (Hy : 0 < eps * (1 - r) / (2 * (C + 1))).
  { apply Rmult_lt_0_compat. apply Rmult_lt_0_compat; lra. apply Rinv_0_lt_compat. lra. }
  destruct (pow_lt_1_zero r ltac:(rewrite Rabs_right; lra) _ Hy) as [N HN].
  exists N. intros n m Hn Hm.
  pose proof (HN N ltac:(lia)) as HNN. rewrite Rabs_right in HNN by (apply Rle_ge, pow_le; lra).
  pose proof (Tail N n Hn) as Tn. pose proof (Tail N m Hm) as Tm.
  unfold R_dist.
  assert (Rabs (a n - a m) <= Rabs (a n - a N) + Rabs (a m - a N)).
  { replace (a n - a m) with ((a n - a N) + - (a m - a N)) by ring.
    eapply Rle_trans. apply Rabs_triang. rewrite Rabs_Ropp. lra. }
  assert (E : (C + 1) * r ^ N < eps * (1 - r) / 2).
  { assert ((C + 1) * r ^ N < (C + 1) * (eps * (1 - r) / (2 * (C + 1)))) by (apply Rmult_lt_compat_l; lra).
    replace ((C + 1) * (eps * (1 - r) / (2 * (C + 1)))) with (eps * (1 - r) / 2) in H1 by (field; lra). exact H1. }
  apply Rmult_lt_reg_r with (1 - r). lra.
  assert (Rabs (a n - a m) * (1 - r) <= (Rabs (a n - a N) + Rabs (a m - a N)) * (1 - r)).
  { apply Rmult_le_compat_r; lra. }
  lra.
Qed.

Lemma geo_cv_sq (a : nat -> R) (C rho : R) : 0 <= rho < 1 -> 0 <= C ->
  (forall k, (a (S k) - a k) * (a (S k) - a k) <= C * rho ^ k) -> exists l, Un_cv a l.
Proof.
  intros Hrho HC H.
  set (r := (1 + rho) / 2). set (c := (1 + C) / 2).
  assert (Hr : 0 <= r < 1) by (unfold r; lra).
  assert (Hr2 : rho <= r * r) by (unfold r; pose proof (Rle_0_sqr (1 - rho)) as HH; unfold Rsqr in HH; lra).
  assert (Hc2 : C <= c * c) by (unfold c; pose proof (Rle_0_sqr (1 - C)) as HH; unfold Rsqr in HH; lra).
  assert (Hc : 0 <= c) by (unfold c; lra).
  apply (geo_cv a c r Hr). intros k.
  pose proof (H k) as Hk.
  assert (P1 : rho ^ k <= (r * r) ^ k) by (apply pow_incr; lra).
  rewrite Rpow_mult_distr in P1.
  pose proof (pow_le rho k (proj1 Hrho)) as P2. pose proof (pow_le r k (proj1 Hr)) as P3.
  assert (P4 : C * rho ^ k <= (c * r ^ k) * (c * r ^ k)).
  { apply Rle_trans with (c * c * rho ^ k). apply Rmult_le_compat_r; lra.
    replace (c * r ^ k * (c * r ^ k)) with (c * c * (r ^ k * r ^ k)) by ring.
    apply Rmult_le_compat_l. nra. exact P1. }
  assert (P5 : 0 <= c * r ^ k) by (apply Rmult_le_pos; assumption).
  apply Rabs_le. split; nra.
Qed.

(* ---------------------------------------------------------------- limits of finite sums, squeezes *)
Lemma cv_const (x : R) : Un_cv (fun _ => x) x.
Proof. intros eps Heps. exists 0%nat. intros n _. unfold R_dist. replace (x - x) with 0 by ring. rewrite Rabs_R0. lra. Qed.

Lemma cv_ext (A B : nat -> R) l : (forall k, A k = B k) -> Un_cv A l -> Un_cv B l.
Proof. intros E H eps Heps. destruct (H eps Heps) as [N HN]. exists N. intros n Hn. rewrite <- E. now apply HN. Qed.

Lemma cv_rsum_seq (phi : nat -> nat -> R) n :
  (forall i, (i < n)%nat -> Un_cv (fun k => phi i k) 0) ->
  Un_cv (fun k => rsum (map (fun i => phi i k) (seq 0 n))) 0.
Proof.
  induction n as [|n IH]; intros H.
  - cbn [seq map rsum]. apply cv_const.
  - apply (cv_ext (fun k => rsum (map (fun i => phi i k) (seq 0 n)) + phi n k)).
    { intros k. rewrite seq_S, map_app, rsum_app. cbn [Nat.add map rsum]. ring. }
    replace 0 with (0 + 0) by ring. apply CV_plus. apply IH. intros i Hi. apply H. lia. apply H. lia.
Qed.

Lemma cv0_squeeze (A B : nat -> R) : (forall k, 0 <= A k <= B k) -> Un_cv B 0 -> Un_cv A 0.
Proof.
  intros H HB eps Heps. destruct (HB eps Heps) as [N HN]. exists N. intros n Hn.
  pose proof (HN n Hn) as E. unfold R_dist in *. rewrite Rminus_0_r in *. pose proof (H n).
  rewrite Rabs_right by lra. rewrite Rabs_right in E by lra. lra.
Qed.

Lemma cv0_geo (M rho : R) : 0 <= rho < 1 -> Un_cv (fun k => M * rho ^ k) 0.
Proof.
  intros Hrho eps Heps.
  assert (Hy : 0 < eps / (Rabs M + 1)).
  { apply Rmult_lt_0_compat. lra. apply Rinv_0_lt_compat. pose proof (Rabs_pos M). lra. }
  destruct (pow_lt_1_zero rho ltac:(rewrite Rabs_right; lra) _ Hy) as [N HN].
  exists N. intros n Hn. pose proof (HN n Hn) as E. unfold R_dist. rewrite Rminus_0_r, Rabs_mult.
  pose proof (Rabs_pos M). pose proof (Rabs_pos (rho ^ n)).
  assert (Rabs M * Rabs (rho ^ n) <= (Rabs M + 1) * Rabs (rho ^ n)) by nra.
  assert ((Rabs M + 1) * Rabs (rho ^ n) < (Rabs M + 1) * (eps / (Rabs M + 1))) by (apply Rmult_lt_compat_l; lra).
  replace ((Rabs M + 1) * (eps / (Rabs M + 1))) with eps in H2 by (field; lra). lra.
Qed.

Lemma cv0_shift (A : nat -> R) : Un_cv (fun k => A (S k)) 0 -> Un_cv A 0.
Proof.
  intros H eps Heps. destruct (H eps Heps) as [N HN]. exists (S N). intros n Hn.
  destruct n as [|n]. lia. apply HN. lia.
Qed.

Lemma cv0_scal (c : R) (A : nat -> R) : Un_cv A 0 -> Un_cv (fun k => c * A k) 0.
Proof.
  intros H. replace 0 with (c * 0) by ring. apply (CV_mult (fun _ => c) A c 0). apply cv_const. exact H.
Qed.

Lemma cv0_sq_diff (a : nat -> R) l : Un_cv a l -> Un_cv (fun k => (l - a k) * (l - a k)) 0.
Proof.
  intros H. replace 0 with ((l - l) * (l - l)) by ring.
  assert (E : Un_cv (fun k => l - a k) (l - l)) by (apply (CV_minus (fun _ => l) a); [apply cv_const|exact H]).
  apply (CV_mult _ _ _ _ E E).
Qed.

(* a constant below a null sequence is 0 *)
Lemma le_cv0 (x : R) (U : nat -> R) : (forall k, 0 <= x <= U k) -> Un_cv U 0 -> x = 0.
Proof.
  intros H HU. destruct (Rle_lt_or_eq_dec 0 x (proj1 (H 0%nat))) as [Hpos|E]; [|now symmetry].
  destruct (HU x Hpos) as [N HN]. pose proof (HN N (le_n N)) as E. unfold R_dist in E. rewrite Rminus_0_r in E.
  pose proof (H N). rewrite Rabs_right in E by lra. lra.
Qed.

Lemma cv0_lt (A : nat -> R) : Un_cv A 0 -> forall eps, 0 < eps -> exists K, forall k, (K <= k)%nat -> A k < eps.
Proof.
  intros H eps Heps. destruct (H eps Heps) as [N HN]. exists N. intros k Hk.
  pose proof (HN k Hk) as E. unfold R_dist in E. rewrite Rminus_0_r in E. pose proof (Rle_abs (A k)). lra.
Qed.

(* ---------------------------------------------------------------- finite choice, inside Prop *)
Lemma fin_choice {A} (d : A) (P : nat -> A -> Prop) n :
  (forall i, (i < n)%nat -> exists l, P i l) ->
  exists ls, length ls = n /\ forall i, (i < n)%nat -> P i (nth i ls d).
Proof.
  induction n as [|n IH]; intros H.
  - exists []. split. reflexivity. intros; lia.
  - destruct IH as [ls [Hl Hp]]. { intros i Hi. apply H. lia. }
    destruct (H n ltac:(lia)) as [l Pl].
    exists (ls ++ [l]). split. rewrite app_length. cbn [length]. lia.
    intros i Hi. destruct (Nat.eq_dec i n) as [->|Hne].
    + rewrite app_nth2 by lia. rewrite Hl, Nat.sub_diag. exact Pl.
    + rewrite app_nth1 by lia. apply Hp. lia.
Qed.
