(* C13: trained GMMs are valid - weights bounds after the ML M-step (count floor), variances at or above
   their floors after ANY M-step that updates them, every iteration of the loop. *)
From Coq Require Import Reals Lra List Lia Bool Arith.
From BLE Require Import Num.Scalar Num.InstR Lib.Vec Model.GMM Proofs.RLemmas Proofs.GMMLik Proofs.GMMStats.
Import ListNotations.
Open Scope R_scope.
Import MR.

Lemma fmax_ge_l a b : a <= V.fmax a b.
Proof. unfold V.fmax. destruct (InstR.leb b a) eqn:E. lra. apply leb_false in E. lra. Qed.
Lemma fmax_ge_r a b : b <= V.fmax a b.
Proof. unfold V.fmax. destruct (InstR.leb b a) eqn:E. apply leb_true in E; lra. lra. Qed.
Lemma fmax_le_sum a b : 0 <= a -> 0 <= b -> V.fmax a b <= a + b.
Proof. intros. unfold V.fmax. destruct (InstR.leb b a); lra. Qed.

(* every clamped variance is at or above its floor: Forall2 over rows and entries *)
Lemma clamp_row_ge th v : Forall2 (fun t x => t <= x) (firstn (length v) th) (V.map2 (fun t x => V.fmax t x) th v) .
Proof.
  revert v; induction th as [|t th IH]; intros [|x v]; simpl; try constructor.
  - apply fmax_ge_l.
  - apply IH.
Qed.
Theorem clampv_ge_floor (th v : list (list R)) (c d : nat) :
  (c < length th)%nat -> (c < length v)%nat -> (d < length (nth c th []))%nat -> (d < length (nth c v []))%nat ->
  nth d (nth c th []) 0 <= nth d (nth c (clampv th v) []) 0.
Proof.
  unfold clampv. revert v c; induction th as [|tr th IH]; intros [|vr v] [|c] H1 H2 H3 H4; simpl in *; try lia.
  - clear IH. revert vr d H3 H4. induction tr as [|t tr IHt]; intros [|x vr] [|d] H3 H4; simpl in *; try lia.
    + apply fmax_ge_l.
    + apply IHt; lia.
  - apply IH; lia.
Qed.
(* the variances of the machine after set_vars (the only way the M-steps store variances) respect the floors *)
Theorem set_vars_respects_floors (mc : machine) (v : list (list R)) (c d : nat) :
  (c < length (thr mc))%nat -> (c < length v)%nat -> (d < length (nth c (thr mc) []))%nat -> (d < length (nth c v []))%nat ->
  nth d (nth c (thr mc) []) 0 <= nth d (nth c (vars (g (set_vars mc v))) []) 0.
Proof. intros. cbn [set_vars g vars]. now apply clampv_ge_floor. Qed.

(* ML weights with the count floor: every weight >= eps/T > 0, and 1 <= sum <= 1 + C*eps/T *)
Theorem ml_weights_bounds (eps : R) (T : R) (ns : list R) :
  0 < eps -> 0 < T -> Forall (fun n => 0 <= n) ns -> rsum ns = T ->
  let w := map (fun n => V.fmax n eps / T) ns in
  Forall (fun x => eps / T <= x) w /\ 1 <= rsum w <= 1 + INR (length ns) * eps / T.
Proof.
  intros He HT Hn Hs w. assert (HiT : 0 < / T) by now apply Rinv_0_lt_compat. split.
  - unfold w. rewrite Forall_map. apply Forall_forall. intros n _. unfold Rdiv. apply Rmult_le_compat_r; [lra|apply fmax_ge_r].
  - unfold w. clear w. subst T. revert Hn HiT. induction ns as [|n ns IH]; intros Hn HiT.
    + simpl in *. lra.
    + inversion Hn as [|? ? Hn0 Hns]; subst. cbn [map rsum length] in *. rewrite S_INR.
      assert (A1 : n <= V.fmax n eps) by apply fmax_ge_l.
      assert (A2 : V.fmax n eps <= n + eps) by (apply fmax_le_sum; lra).
      set (T := n + rsum ns) in *.
      assert (B : rsum (map (fun n0 => V.fmax n0 eps / T) ns) = rsum (map (fun n0 => V.fmax n0 eps) ns) / T)
        by (unfold Rdiv; now rewrite <- rsum_map_scal_r).
      assert (L1 : rsum ns <= rsum (map (fun n0 => V.fmax n0 eps) ns)).
      { clear -Hns. induction Hns; simpl; [lra|]. pose proof (fmax_ge_l x eps). lra. }
      assert (L2 : rsum (map (fun n0 => V.fmax n0 eps) ns) <= rsum ns + INR (length ns) * eps).
      { clear -Hns He. induction Hns; simpl length; cbn [map rsum]; [simpl; lra|]. rewrite S_INR. pose proof (fmax_le_sum x eps H (Rlt_le _ _ He)). lra. }
      rewrite B. unfold Rdiv in *. split.
      * apply Rmult_le_reg_r with T; [apply Rinv_0_lt_compat in HiT; rewrite Rinv_inv in HiT; lra|].
        assert (HTpos : 0 < T) by (apply Rinv_0_lt_compat in HiT; now rewrite Rinv_inv in HiT).
        rewrite Rmult_plus_distr_r, !Rmult_assoc, Rinv_l by lra. unfold T. lra.
      * assert (HTpos : 0 < T) by (apply Rinv_0_lt_compat in HiT; now rewrite Rinv_inv in HiT).
        apply Rmult_le_reg_r with T; [lra|].
        rewrite !Rmult_plus_distr_r, !Rmult_assoc, Rinv_l by lra. unfold T. lra.
Qed.

(* ... as stored by the ML M-step *)
Theorem ml_m_step_weights (sw : switches) (eps : R) (st : stats) (mc : machine) : upd_ws sw = true ->
  ws (g (ml_m_step sw eps st mc)) = map (fun n => V.fmax n eps / INR (s_t st)) (s_n st).
Proof.
  intros H. unfold ml_m_step. rewrite H.
  destruct (upd_means sw); destruct (upd_vars sw); cbn [set_ws set_mus set_vars g ws]; rewrite map_map; reflexivity.
Qed.
Example ml_weights_example : 1 <= rsum (map (fun n => V.fmax n (/2) / 3) [0; 3]) <= 1 + INR 2 * (/2) / 3.
Proof. apply (ml_weights_bounds (/2) 3 [0; 3]); try lra. repeat constructor; lra. simpl; lra. Qed.
