(* C13: validity of the GMM is an invariant of ML training - after EVERY iteration, floors active or not, any switches:
   positive weights, rows of the right length, variances at or above positive floors (hence positive), so every
   log-likelihood is that of a proper mixture density (Proofs/GMMLik.v).  *)
From Coq Require Import Reals Lra List Lia Bool Arith.
From BLE Require Import Num.Scalar Num.InstR Lib.Vec Model.GMM Proofs.RLemmas Proofs.GMMLik Proofs.GMMStats Proofs.Valid.
Import ListNotations.
Open Scope R_scope.
Import MR.

(* a machine under training: C components, nf features, positive floors of full shape *)
Definition machine_ok (C nf : nat) (mc : machine) : Prop :=
  length (ws (g mc)) = C /\ length (mus (g mc)) = C /\ length (vars (g mc)) = C /\ length (thr mc) = C
  /\ Forall (fun w => 0 < w) (ws (g mc))
  /\ Forall (fun r => length r = nf) (mus (g mc))
  /\ Forall (fun r => length r = nf) (vars (g mc))
  /\ Forall (fun r => length r = nf /\ Forall (fun t => 0 < t) r) (thr mc)
  /\ Forall2 (Forall2 (fun t v => t <= v)) (thr mc) (vars (g mc)).

(* ------------------------------------------------------------ shape helpers *)
Lemma vf_len_map2 {A B C} (f : A -> B -> C) a b : length (V.map2 f a b) = Nat.min (length a) (length b).
Proof. revert b; induction a as [|x a IH]; intros [|y b]; cbn [V.map2 length Nat.min]; auto. Qed.
Lemma vf_len_map3 {A B C D} (f : A -> B -> C -> D) a b c :
  length (V.map3 f a b c) = Nat.min (Nat.min (length a) (length b)) (length c).
Proof. revert b c; induction a as [|x a IH]; intros [|y b] [|z c]; cbn [V.map3 length Nat.min]; auto. Qed.
Lemma vf_Forall_map2 {A B C} (P : C -> Prop) (f : A -> B -> C) a b :
  (forall x y, In x a -> In y b -> P (f x y)) -> Forall P (V.map2 f a b).
Proof.
  revert b; induction a as [|x a IH]; intros [|y b] H; cbn [V.map2]; constructor.
  - apply H; left; reflexivity.
  - apply IH. intros; apply H; right; assumption.
Qed.
Lemma vf_Forall_map3 {A B C D} (P : D -> Prop) (f : A -> B -> C -> D) a b c :
  (forall x y z, In x a -> In y b -> In z c -> P (f x y z)) -> Forall P (V.map3 f a b c).
Proof.
  revert b c; induction a as [|x a IH]; intros [|y b] [|z c] H; cbn [V.map3]; constructor.
  - apply H; left; reflexivity.
  - apply IH. intros; apply H; right; assumption.
Qed.

(* clamping: same shape in, same shape out, and at or above the floors by construction *)
Lemma clamp_row_ok (t v : list R) : length t = length v ->
  Forall2 (fun a b => a <= b) t (V.map2 (fun a x => V.fmax a x) t v).
Proof.
  revert v; induction t as [|a t IH]; intros [|x v] H; cbn [V.map2 length] in *; try discriminate; constructor.
  - apply fmax_ge_l.
  - apply IH; lia.
Qed.
Lemma clampv_ok nf (th v : list (list R)) : length th = length v ->
  Forall (fun r => length r = nf) th -> Forall (fun r => length r = nf) v ->
  Forall2 (Forall2 (fun a b => a <= b)) th (clampv th v).
Proof.
  unfold clampv. intros H Ht; revert v H; induction Ht as [|r th Hr Ht IH]; intros [|y v] H Hv;
    cbn [V.map2 length] in *; try discriminate; constructor.
  - apply clamp_row_ok. inversion Hv; congruence.
  - apply IH. lia. inversion Hv; assumption.
Qed.
Lemma clampv_length (th v : list (list R)) : length th = length v -> length (clampv th v) = length th.
Proof. intros H. unfold clampv. rewrite vf_len_map2. unfold InstR.T in *. lia. Qed.
Lemma clampv_rows nf (th v : list (list R)) :
  Forall (fun r => length r = nf) th -> Forall (fun r => length r = nf) v ->
  Forall (fun r => length r = nf) (clampv th v).
Proof.
  intros Ht Hv. unfold clampv. apply vf_Forall_map2. intros x y Hx Hy. rewrite vf_len_map2.
  rewrite Forall_forall in Ht, Hv. pose proof (Ht x Hx). pose proof (Hv y Hy). unfold InstR.T in *. lia.
Qed.

(* ------------------------------------------------------------ validity implies well-formedness *)
Lemma floors_pos (th v : list (list R)) :
  Forall (fun r => Forall (fun t => 0 < t) r) th -> Forall2 (Forall2 (fun t x => t <= x)) th v ->
  Forall (fun r => Forall (fun x => 0 < x) r) v.
Proof.
  intros Hp H. induction H as [|t x th v Htx H IH]; constructor.
  - inversion Hp as [|? ? Hpt _]; subst. clear -Hpt Htx. induction Htx as [|a b t x Hab Htx IH]; constructor.
    + inversion Hpt; subst. lra.
    + apply IH. inversion Hpt; assumption.
  - apply IH. inversion Hp; assumption.
Qed.
Lemma comps_wf nf (w : list R) (mu v : list (list R)) :
  length w = length mu -> length mu = length v ->
  Forall (fun x => 0 < x) w -> Forall (fun r => length r = nf) mu -> Forall (fun r => length r = nf) v ->
  Forall (fun r => Forall (fun x => 0 < x) r) v ->
  Forall (wf_comp nf) (combine (combine w mu) v).
Proof.
  revert mu v; induction w as [|a w IH]; intros [|m mu] [|r v] H1 H2 Hw Hmu Hv Hp; cbn [combine length] in *;
    try discriminate; constructor.
  - inversion Hw; inversion Hmu; inversion Hv; inversion Hp; subst. cbv beta iota. unfold wf_comp. repeat split; assumption.
  - inversion Hw; inversion Hmu; inversion Hv; inversion Hp; subst. apply IH; auto.
Qed.

Lemma comps_length C (m : gmm) : length (ws m) = C -> length (mus m) = C -> length (vars m) = C -> length (comps m) = C.
Proof. intros. unfold comps, comp. rewrite !combine_length. unfold InstR.T in *. lia. Qed.

Theorem machine_ok_wf (C nf : nat) (mc : machine) : (0 < C)%nat -> machine_ok C nf mc -> wf_gmm nf (g mc).
Proof.
  intros HC (L1 & L2 & L3 & L4 & Pw & Rm & Rv & Rt & Hle). unfold wf_gmm, comps. split.
  - intros E. pose proof (comps_length C (g mc) L1 L2 L3) as K. unfold comps in K. rewrite E in K. cbn [length] in K. lia.
  - apply comps_wf; [unfold InstR.T in *; lia|unfold InstR.T in *; lia|exact Pw|exact Rm|exact Rv|].
    apply (floors_pos (thr mc)); [|exact Hle]. eapply Forall_impl; [|exact Rt]. intros r [_ H]; exact H.
Qed.

(* ------------------------------------------------------------ the three setters keep validity *)
Lemma set_ws_ok C nf mc (w : list R) :
  machine_ok C nf mc -> length w = C -> Forall (fun x => 0 < x) w -> machine_ok C nf (set_ws mc w).
Proof.
  intros (L1 & L2 & L3 & L4 & Pw & Rm & Rv & Rt & Hle) Hl Hp. unfold machine_ok. cbn [set_ws g ws mus vars thr].
  repeat (split; [assumption|]). assumption.
Qed.
Lemma set_mus_ok C nf mc (mu : list (list R)) :
  machine_ok C nf mc -> length mu = C -> Forall (fun r => length r = nf) mu -> machine_ok C nf (set_mus mc mu).
Proof.
  intros (L1 & L2 & L3 & L4 & Pw & Rm & Rv & Rt & Hle) Hl Hp. unfold machine_ok. cbn [set_mus g ws mus vars thr].
  repeat (split; [assumption|]). assumption.
Qed.
Lemma set_vars_ok C nf mc (v : list (list R)) :
  machine_ok C nf mc -> length v = C -> Forall (fun r => length r = nf) v -> machine_ok C nf (set_vars mc v).
Proof.
  intros (L1 & L2 & L3 & L4 & Pw & Rm & Rv & Rt & Hle) Hl Hp. unfold machine_ok. cbn [set_vars g ws mus vars thr].
  assert (Rt' : Forall (fun r : list R => length r = nf) (thr mc)).
  { eapply Forall_impl; [|exact Rt]. intros r [H _]; exact H. }
  split; [assumption|]. split; [assumption|]. split; [rewrite clampv_length; unfold InstR.T in *; lia|]. split; [assumption|].
  split; [assumption|]. split; [assumption|]. split; [apply clampv_rows; assumption|]. split; [assumption|].
  apply (clampv_ok nf); try assumption. unfold InstR.T in *; lia.
Qed.

(* one ML M-step from ANY statistics of the right shape *)
Lemma ml_m_step_ok_gen (C nf : nat) (sw : switches) (eps : R) (st : stats) (mc : machine) :
  0 < eps -> (0 < s_t st)%nat ->
  length (s_n st) = C -> length (s_px st) = C -> length (s_pxx st) = C ->
  Forall (fun r => length r = nf) (s_px st) -> Forall (fun r => length r = nf) (s_pxx st) ->
  machine_ok C nf mc -> machine_ok C nf (ml_m_step sw eps st mc).
Proof.
  intros He Ht Hn Hpx Hpxx Rpx Rpxx Hok. unfold ml_m_step. cbv zeta.
  set (tn := map (fun n => V.fmax n eps) (s_n st)).
  assert (Ltn : length tn = C) by (unfold tn; rewrite map_length; exact Hn).
  assert (Ptn : Forall (fun x => 0 < x) tn).
  { unfold tn. rewrite Forall_map. apply Forall_forall; intros n _. pose proof (fmax_ge_r n eps). lra. }
  match goal with |- context [if upd_ws sw then set_ws mc ?a else mc] => set (mc1 := if upd_ws sw then set_ws mc a else mc) end.
  assert (H1 : machine_ok C nf mc1).
  { unfold mc1. destruct (upd_ws sw); [|exact Hok]. apply set_ws_ok; [exact Hok|now rewrite map_length|].
    rewrite Forall_map. eapply Forall_impl; [|exact Ptn]. intros a Ha. unfold_R.
    apply Rdiv_lt_0_compat; [exact Ha|]. apply lt_0_INR; exact Ht. }
  clearbody mc1.
  match goal with |- context [if upd_means sw then set_mus mc1 ?a else mc1] => set (mc2 := if upd_means sw then set_mus mc1 a else mc1) end.
  assert (H2 : machine_ok C nf mc2).
  { unfold mc2. destruct (upd_means sw); [|exact H1]. apply set_mus_ok; [exact H1| |].
    - rewrite vf_len_map2. unfold InstR.T in *. lia.
    - apply vf_Forall_map2. intros sx n Hsx _. rewrite map_length. rewrite Forall_forall in Rpx. now apply Rpx. }
  clearbody mc2.
  destruct (upd_vars sw); [|exact H2].
  assert (Lmu : length (mus (g mc2)) = C) by (destruct H2 as (_ & L & _); exact L).
  assert (Rmu : Forall (fun r => length r = nf) (mus (g mc2))) by (destruct H2 as (_ & _ & _ & _ & _ & R' & _); exact R').
  rewrite Forall_forall in Rmu, Rpx, Rpxx.
  apply set_vars_ok; [exact H2| |]; destruct (upd_means sw).
  - unfold ml_vars_updated_means. rewrite vf_len_map3. unfold InstR.T in *. lia.
  - unfold ml_vars_frozen_means. rewrite vf_len_map3, !combine_length. unfold InstR.T in *. lia.
  - unfold ml_vars_updated_means. apply vf_Forall_map3. intros sxx n m Hs _ Hm. rewrite vf_len_map2.
    pose proof (Rpxx _ Hs). pose proof (Rmu _ Hm). unfold InstR.T in *. lia.
  - unfold ml_vars_frozen_means. apply vf_Forall_map3. intros [sxx sx] n m Hs _ Hm. cbn [fst snd]. rewrite vf_len_map3.
    pose proof (Rpxx _ (in_combine_l _ _ _ _ Hs)). pose proof (Rpx _ (in_combine_r _ _ _ _ Hs)). pose proof (Rmu _ Hm).
    unfold InstR.T in *. lia.
Qed.


(* one ML M-step from the statistics of ANY data keeps the machine valid (all 8 switch settings; count floor and
   variance floors possibly active) *)
Theorem ml_m_step_ok (C nf : nat) (sw : switches) (eps : R) (X : list (list R)) (mc : machine) :
  (0 < C)%nat -> X <> [] -> GMMStats.rows_ok nf X -> 0 < eps -> machine_ok C nf mc ->
  machine_ok C nf (ml_m_step sw eps (e_step nf (g mc) X) mc).
Proof.
  intros _ HX HR He Hok.
  assert (LC : length (comps (g mc)) = C).
  { destruct Hok as (L1 & L2 & L3 & _). now apply comps_length. }
  apply ml_m_step_ok_gen; try assumption; cbn [e_step s_t s_n s_px s_pxx]; try (rewrite map_length; exact LC).
  - destruct X; [congruence|cbn [length]; lia].
  - rewrite Forall_map. apply Forall_forall. intros c _. apply Vvsumv_length. rewrite Forall_map.
    eapply Forall_impl; [|exact HR]. intros x Hx. cbv beta. rewrite vscale_length. exact Hx.
  - rewrite Forall_map. apply Forall_forall. intros c _. apply Vvsumv_length. rewrite Forall_map.
    eapply Forall_impl; [|exact HR]. intros x Hx. cbv beta. rewrite vmul_length; rewrite vscale_length; auto.
Qed.

Lemma fit_loop_ok (C nf : nat) (sw : switches) (eps : R) (cthr : option R) (X : list (list R)) :
  (0 < C)%nat -> X <> [] -> GMMStats.rows_ok nf X -> 0 < eps ->
  forall cap step prev mc hist mc' n hist',
    machine_ok C nf mc ->
    fit_loop cap step prev ML sw eps cthr nf [X] mc hist = Some (mc', n, hist') -> machine_ok C nf mc'.
Proof.
  intros HC HX HR He. induction cap as [|cap IH]; intros step prev mc hist mc' n hist' Hok H; cbn [fit_loop] in H.
  - inversion H; subst; exact Hok.
  - unfold em_iter in H. cbn [map stats_reduce m_step] in H. cbv zeta in H.
    pose proof (ml_m_step_ok C nf sw eps X mc HC HX HR He Hok) as Hok'.
    match type of H with (if ?c then _ else _) = _ => destruct c end.
    + inversion H; subst; exact Hok'.
    + eapply IH; [exact Hok'|exact H].
Qed.

(* every iteration of the training loop (any cap, any threshold, any chunking into non-empty-overall blocks) *)
Theorem fit_ok (C nf : nat) (sw : switches) (eps : R) (cthr : option R) (cap : nat) (X : list (list R)) (mc mc' : machine) (n : nat) (hist : list R) :
  (0 < C)%nat -> X <> [] -> GMMStats.rows_ok nf X -> 0 < eps -> machine_ok C nf mc ->
  fit cap ML sw eps cthr nf [X] mc = Some (mc', n, hist) ->
  machine_ok C nf mc' /\ wf_gmm nf (g mc').
Proof.
  intros HC HX HR He Hok H. unfold fit in H.
  assert (K : machine_ok C nf mc') by (eapply fit_loop_ok; eauto).
  split; [exact K|]. now apply (machine_ok_wf C).
Qed.

Print Assumptions fit_ok.
