(* C13: validity of the GMM is an invariant of MAP adaptation as well - after EVERY iteration, any switches, Reynolds or
   fixed-ratio adaptation, for the variance blend the code uses today (sq = false, known finding D2) and for the repaired one
   (sq = true): whatever value the blend produces, the variances setter lifts it to the (positive) floors, and the adapted
   weights are positive because the prior's are and the adaptation coefficient stays below one.
   *)
From Coq Require Import Reals Lra List Lia Bool Arith.
From BLE Require Import Num.Scalar Num.InstR Lib.Vec Model.GMM Proofs.RLemmas Proofs.GMMLik Proofs.GMMStats Proofs.Valid Proofs.ValidFit.
Import ListNotations.
Open Scope R_scope.
Import MR.

(* the prior (UBM) of the adaptation: same shape, positive weights *)
Definition prior_ok (C nf : nat) (p : gmm) : Prop :=
  length (ws p) = C /\ length (mus p) = C /\ length (vars p) = C
  /\ Forall (fun w => 0 < w) (ws p)
  /\ Forall (fun r => length r = nf) (mus p) /\ Forall (fun r => length r = nf) (vars p).
(* Reynolds adaptation with a positive relevance factor, or a fixed ratio in [0, 1) *)
Definition coeff_ok (rel : option R) (al : R) : Prop :=
  match rel with Some r => 0 < r | None => 0 <= al < 1 end.

(* ------------------------------------------------------------ helper lemmas *)
Lemma alpha1_bounds (rel : option R) (al n : R) : coeff_ok rel al -> 0 <= n -> 0 <= map_alpha1 rel al n < 1.
Proof.
  intros Hc Hn. unfold map_alpha1. destruct rel as [r|]; unfold coeff_ok in Hc; [|exact Hc]. unfold_R.
  assert (Hp : 0 < n + r) by lra. split.
  - unfold Rdiv. apply Rmult_le_pos; [exact Hn|]. left. apply Rinv_0_lt_compat; exact Hp.
  - apply (Rmult_lt_reg_r (n + r)); [exact Hp|]. unfold Rdiv. rewrite Rmult_assoc, Rinv_l by lra. lra.
Qed.
Lemma map_w0_pos (a n t w : R) : 0 <= a < 1 -> 0 <= n -> 0 < t -> 0 < w -> 0 < map_w0 a n t w.
Proof.
  intros [Ha0 Ha1] Hn Ht Hw. unfold map_w0. unfold_R.
  assert (H1 : 0 <= n / t). { unfold Rdiv. apply Rmult_le_pos; [exact Hn|]. left. apply Rinv_0_lt_compat; exact Ht. }
  assert (H2 : 0 <= a * (n / t)) by (apply Rmult_le_pos; assumption).
  assert (H3 : 0 < (1 - a) * w) by (apply Rmult_lt_0_compat; lra).
  lra.
Qed.

(* one MAP M-step from ANY statistics of the right shape *)
Lemma map_m_step_ok_gen (C nf : nat) (sq : bool) (sw : switches) (eps : R) (rel : option R) (al : R) (prior : gmm)
    (st : stats) (mc : machine) :
  (0 < s_t st)%nat -> length (s_n st) = C -> Forall (fun n => 0 <= n) (s_n st) ->
  length (s_px st) = C -> length (s_pxx st) = C ->
  Forall (fun r => length r = nf) (s_px st) -> Forall (fun r => length r = nf) (s_pxx st) ->
  prior_ok C nf prior -> coeff_ok rel al -> machine_ok C nf mc ->
  machine_ok C nf (map_m_step sq sw eps rel al prior st mc).
Proof.
  intros Ht Hn Pn Hpx Hpxx Rpx Rpxx (P1 & P2 & P3 & Ppw & Rpm & Rpv) Hc Hok. unfold map_m_step. cbv zeta.
  set (alv := map_alpha rel al st).
  assert (Lal : length alv = C) by (unfold alv, map_alpha; rewrite map_length; exact Hn).
  assert (Bal : Forall (fun a => 0 <= a < 1) alv).
  { unfold alv, map_alpha. rewrite Forall_map. eapply Forall_impl; [|exact Pn]. intros n Hn0. now apply alpha1_bounds. }
  match goal with |- context [if upd_ws sw then set_ws mc ?a else mc] => set (mc1 := if upd_ws sw then set_ws mc a else mc) end.
  assert (H1 : machine_ok C nf mc1).
  { unfold mc1. destruct (upd_ws sw); [|exact Hok].
    match goal with |- context [map _ ?w] => set (w0 := w) end.
    assert (Lw0 : length w0 = C) by (unfold w0; rewrite vf_len_map3; unfold InstR.T in *; lia).
    assert (Pw0 : Forall (fun x => 0 < x) w0).
    { unfold w0. apply vf_Forall_map3. intros a n w Ha Hn0 Hw. rewrite Forall_forall in Bal, Pn, Ppw.
      apply map_w0_pos; [now apply Bal|now apply Pn|unfold_R; apply lt_0_INR; exact Ht|now apply Ppw]. }
    apply set_ws_ok; [exact Hok|now rewrite map_length|].
    rewrite Forall_map. apply Forall_forall. intros w Hw. unfold_R. apply Rdiv_lt_0_compat.
    - rewrite Forall_forall in Pw0. now apply Pw0.
    - rewrite Vvsum_rsum. apply rsum_pos; [|exact Pw0]. intros E. rewrite E in Hw. destruct Hw. }
  clearbody mc1.
  match goal with |- context [if upd_means sw then set_mus mc1 ?a else mc1] => set (mc2 := if upd_means sw then set_mus mc1 a else mc1) end.
  assert (H2 : machine_ok C nf mc2).
  { unfold mc2. destruct (upd_means sw); [|exact H1]. apply set_mus_ok; [exact H1| |].
    - rewrite vf_len_map3, combine_length. unfold InstR.T in *. lia.
    - apply vf_Forall_map3. intros [a n] sx pm _ Hsx Hpm. cbn [fst snd]. unfold map_mean1.
      rewrite Forall_forall in Rpx, Rpm. pose proof (Rpx _ Hsx). pose proof (Rpm _ Hpm).
      match goal with |- context [if ?c then _ else _] => destruct c end; [assumption|].
      rewrite vf_len_map2. unfold InstR.T in *. lia. }
  clearbody mc2.
  destruct (upd_vars sw); [|exact H2].
  assert (Lmu : length (mus (g mc2)) = C) by (destruct H2 as (_ & L & _); exact L).
  assert (Rmu : Forall (fun r => length r = nf) (mus (g mc2))) by (destruct H2 as (_ & _ & _ & _ & _ & R' & _); exact R').
  rewrite Forall_forall in Rmu, Rpxx, Rpm, Rpv.
  apply set_vars_ok; [exact H2| |].
  - rewrite vf_len_map3, !combine_length. unfold InstR.T in *. lia.
  - apply vf_Forall_map3. intros [[a n] sxx] [pv pm] m Hs Hp Hm. cbn [fst snd]. unfold map_var1.
    pose proof (Rpxx _ (in_combine_r _ _ _ _ Hs)). pose proof (Rpv _ (in_combine_l _ _ _ _ Hp)).
    pose proof (Rpm _ (in_combine_r _ _ _ _ Hp)). pose proof (Rmu _ Hm).
    match goal with |- context [if ?c then _ else _] => destruct c end;
      rewrite vf_len_map3; try rewrite vf_len_map2; unfold InstR.T in *; lia.
Qed.

Theorem map_m_step_ok (C nf : nat) (sq : bool) (sw : switches) (eps : R) (rel : option R) (al : R) (prior : gmm)
    (X : list (list R)) (mc : machine) :
  (0 < C)%nat -> X <> [] -> GMMStats.rows_ok nf X -> 0 < eps -> machine_ok C nf mc -> prior_ok C nf prior -> coeff_ok rel al ->
  machine_ok C nf (map_m_step sq sw eps rel al prior (e_step nf (g mc) X) mc).
Proof.
  intros _ HX HR He Hok Hp Hc.
  assert (LC : length (comps (g mc)) = C).
  { destruct Hok as (L1 & L2 & L3 & _). now apply comps_length. }
  apply map_m_step_ok_gen; try assumption; try apply n_nonneg;
    cbn [e_step s_t s_n s_px s_pxx]; try (rewrite map_length; exact LC).
  - destruct X; [congruence|cbn [length]; lia].
  - rewrite Forall_map. apply Forall_forall. intros c _. apply Vvsumv_length. rewrite Forall_map.
    eapply Forall_impl; [|exact HR]. intros x Hx. cbv beta. rewrite vscale_length. exact Hx.
  - rewrite Forall_map. apply Forall_forall. intros c _. apply Vvsumv_length. rewrite Forall_map.
    eapply Forall_impl; [|exact HR]. intros x Hx. cbv beta. rewrite vmul_length; rewrite vscale_length; auto.
Qed.

(* any trainer *)
Definition trainer_ok (C nf : nat) (tr : trainer) : Prop :=
  match tr with ML => True | MAP _ rel al prior => prior_ok C nf prior /\ coeff_ok rel al end.

Theorem m_step_ok (C nf : nat) (tr : trainer) (sw : switches) (eps : R) (X : list (list R)) (mc : machine) :
  (0 < C)%nat -> X <> [] -> GMMStats.rows_ok nf X -> 0 < eps -> machine_ok C nf mc -> trainer_ok C nf tr ->
  machine_ok C nf (m_step tr sw eps (e_step nf (g mc) X) mc).
Proof.
  intros HC HX HR He Hok Htr. destruct tr as [|sq rel al prior]; cbn [m_step].
  - now apply ml_m_step_ok.
  - destruct Htr as [Hp Hc]. now apply map_m_step_ok.
Qed.

Lemma fit_loop_ok_any (C nf : nat) (tr : trainer) (sw : switches) (eps : R) (cthr : option R) (X : list (list R)) :
  (0 < C)%nat -> X <> [] -> GMMStats.rows_ok nf X -> 0 < eps -> trainer_ok C nf tr ->
  forall cap step prev mc hist mc' n hist',
    machine_ok C nf mc ->
    fit_loop cap step prev tr sw eps cthr nf [X] mc hist = Some (mc', n, hist') -> machine_ok C nf mc'.
Proof.
  intros HC HX HR He Htr. induction cap as [|cap IH]; intros step prev mc hist mc' n hist' Hok H; cbn [fit_loop] in H.
  - inversion H; subst; exact Hok.
  - unfold em_iter in H. cbn [map stats_reduce] in H. cbv zeta in H.
    pose proof (m_step_ok C nf tr sw eps X mc HC HX HR He Hok Htr) as Hok'.
    match type of H with (if ?c then _ else _) = _ => destruct c end.
    + inversion H; subst; exact Hok'.
    + eapply IH; [exact Hok'|exact H].
Qed.

Theorem fit_ok_any_trainer (C nf : nat) (tr : trainer) (sw : switches) (eps : R) (cthr : option R) (cap : nat)
    (X : list (list R)) (mc mc' : machine) (n : nat) (hist : list R) :
  (0 < C)%nat -> X <> [] -> GMMStats.rows_ok nf X -> 0 < eps -> machine_ok C nf mc -> trainer_ok C nf tr ->
  fit cap tr sw eps cthr nf [X] mc = Some (mc', n, hist) ->
  machine_ok C nf mc' /\ wf_gmm nf (g mc').
Proof.
  intros HC HX HR He Hok Htr H. unfold fit in H.
  assert (K : machine_ok C nf mc') by (eapply fit_loop_ok_any; eauto).
  split; [exact K|]. now apply (machine_ok_wf C).
Qed.
