(* The Vec functor at R: characterising lemmas so that later proofs never unfold the definitions. *)
From Coq Require Import Reals Lra List Lia.
From BLE Require Import Num.Scalar Num.InstR Lib.Vec Proofs.RLemmas.
Import ListNotations.
Open Scope R_scope.

Module VR := Vec InstR.

Lemma vsum_rsum l : VR.vsum l = rsum l.
Proof. induction l as [|x l IH]; simpl; [reflexivity|]. rewrite IH. reflexivity. Qed.

Lemma map3_combine {A B C D} (f : A -> B -> C -> D) a b c :
  VR.map3 f a b c = map (fun t => f (fst (fst t)) (snd (fst t)) (snd t)) (combine (combine a b) c).
Proof. revert b c; induction a as [|x a IH]; intros [|y b] [|z c]; simpl; try reflexivity. now rewrite IH. Qed.
Lemma map2_combine {A B C} (f : A -> B -> C) a b :
  VR.map2 f a b = map (fun t => f (fst t) (snd t)) (combine a b).
Proof. revert b; induction a as [|x a IH]; intros [|y b]; simpl; try reflexivity. now rewrite IH. Qed.
Lemma map2_length {A B C} (f : A -> B -> C) a b : length a = length b -> length (VR.map2 f a b) = length a.
Proof. revert b; induction a as [|x a IH]; intros [|y b] H; simpl in *; try discriminate; auto. Qed.
Lemma map3_length {A B C D} (f : A -> B -> C -> D) a b c :
  length a = length b -> length a = length c -> length (VR.map3 f a b c) = length a.
Proof. revert b c; induction a as [|x a IH]; intros [|y b] [|z c] H1 H2; simpl in *; try discriminate; auto. Qed.

Lemma vadd_length a b : length a = length b -> length (VR.vadd a b) = length a.
Proof. apply map2_length. Qed.
Lemma vzero_length n : length (VR.vzero n) = n.
Proof. apply repeat_length. Qed.
Lemma vadd_comm a b : VR.vadd a b = VR.vadd b a.
Proof. unfold VR.vadd. revert b; induction a as [|x a IH]; intros [|y b]; simpl; try reflexivity. rewrite IH. f_equal. unfold InstR.add. ring. Qed.
Lemma vadd_assoc a b c : VR.vadd a (VR.vadd b c) = VR.vadd (VR.vadd a b) c.
Proof. unfold VR.vadd. revert b c; induction a as [|x a IH]; intros [|y b] [|z c]; simpl; try reflexivity. rewrite IH. f_equal. unfold InstR.add. ring. Qed.
Lemma vadd_zero_l n a : length a = n -> VR.vadd (VR.vzero n) a = a.
Proof. unfold VR.vadd, VR.vzero. revert a; induction n as [|n IH]; intros [|x a] H; simpl in *; try discriminate; auto. rewrite IH by lia. f_equal. unfold InstR.add, InstR.zero. ring. Qed.
Lemma vadd_zero_r n a : length a = n -> VR.vadd a (VR.vzero n) = a.
Proof. intros. rewrite vadd_comm. now apply vadd_zero_l. Qed.
Lemma vsumv_length d l : Forall (fun v => length v = d) l -> length (VR.vsumv d l) = d.
Proof. induction 1; simpl. apply vzero_length. rewrite vadd_length; auto. now rewrite IHForall. Qed.
Lemma vsumv_app d a b : Forall (fun v => length v = d) a -> Forall (fun v => length v = d) b ->
  VR.vsumv d (a ++ b) = VR.vadd (VR.vsumv d a) (VR.vsumv d b).
Proof.
  intros Ha Hb. induction Ha as [|x a Hx Ha IH]; simpl.
  - rewrite vadd_zero_l; auto. now apply vsumv_length.
  - rewrite IH. apply vadd_assoc.
Qed.
Lemma vsum_app a b : VR.vsum (a ++ b) = VR.vsum a + VR.vsum b.
Proof. rewrite !vsum_rsum. apply rsum_app. Qed.
