(* C01  GMM log-likelihood is the log of a normalised diagonal-Gaussian mixture density.
   Only statements here; every proof is `exact <lemma of Proofs/GMMLik.v>`. *)
From Coq Require Import Reals List.
From Coquelicot Require Import Coquelicot.
From BLE Require Import Num.InstR Model.GMM Proofs.RLemmas Proofs.GMMLik Proofs.GaussInt Proofs.GaussIntFull.
Import ListNotations MR.
Open Scope R_scope.

(* the reported value is ln (sum_c w_c prod_d N(x_d; mu_cd, var_cd)) with the normalisation
   constant 1/sqrt(2 pi var) inside gauss1 - any number of components and features *)
Theorem C01_ll_is_log_mixture (m : gmm) (x : list R) :
  wf_gmm (length x) m -> ll m x = ln (mixture_density m x).
Proof. exact (ll_is_log_mixture m x). Qed.
Print Assumptions C01_ll_is_log_mixture.

Theorem C01_component_density (c : comp) (x : list R) :
  wf_comp (length x) c -> let '(w, mu, v) := c in exp (lwl c x) = w * gaussD x mu v.
Proof. exact (lwl_is_log_weighted_density c x). Qed.
Print Assumptions C01_component_density.

Theorem C01_lwl_log_sum_exp (m : gmm) (x : list R) :
  comps m <> [] -> ll m x = ln (rsum (map exp (lwls m x))).
Proof. exact (lwl_lse m x). Qed.
Print Assumptions C01_lwl_log_sum_exp.

Theorem C01_batch_split (m : gmm) (X1 X2 : list (list R)) :
  log_likelihood m (X1 ++ X2) = log_likelihood m X1 ++ log_likelihood m X2.
Proof. exact (ll_batch_app m X1 X2). Qed.
Print Assumptions C01_batch_split.

Theorem C01_single_equals_in_batch (m : gmm) (X : list (list R)) (i : nat) (x : list R) :
  nth_error X i = Some x -> nth_error (log_likelihood m X) i = Some (ll m x).
Proof. exact (ll_single_in_batch m X i x). Qed.
Print Assumptions C01_single_equals_in_batch.

Theorem C01_any_row_chunking (m : gmm) (Bs : list (list (list R))) :
  log_likelihood m (concat Bs) = concat (map (log_likelihood m) Bs).
Proof. exact (ll_concat m Bs). Qed.
Print Assumptions C01_any_row_chunking.

(* tail behaviour over R: the reduction is max + ln(1 + exp(-|a-b|)) - the exponent is never positive -
   and the result lies within ln(#components) of the largest component *)
Theorem C01_logaddexp_stable_form (a b : R) :
  logaddexp a b = (if Req_EM_T a b then a + ln 2 else Rmax a b + ln (1 + exp (- Rabs (a - b))))
  /\ - Rabs (a - b) <= 0 /\ logaddexp a b = ln (exp a + exp b).
Proof. exact (conj (logaddexp_stable a b) (conj (logaddexp_exp_arg_nonpos a b) (logaddexp_spec a b))). Qed.
Print Assumptions C01_logaddexp_stable_form.

Theorem C01_lse_bounds (x : R) (r : list R) :
  rmax_list x r <= lse (x :: r) <= rmax_list x r + ln (INR (length (x :: r))).
Proof. exact (lse_bounds x r). Qed.
Print Assumptions C01_lse_bounds.

Theorem C01_density_positive (m : gmm) (x : list R) : wf_gmm (length x) m -> 0 < mixture_density m x.
Proof. exact (mixture_density_pos m x). Qed.
Print Assumptions C01_density_positive.

(* "integrates to one": every normalised one-dimensional Gaussian factor integrates to one over R - reduced, by the
   affine substitution, to the textbook integral of exp(-t^2/2) (= sqrt(2 pi)), which Coquelicot does not provide and
   which is therefore a HYPOTHESIS of this theorem (std_gauss_integral), not an axiom *)
Theorem C01_gaussian_factor_integrates_to_one_partial (mu v : R) : 0 < v -> std_gauss_integral ->
  is_RInt_gen (fun x => gauss1 x mu v) (Rbar_locally m_infty) (Rbar_locally p_infty) 1.
Proof. exact (gauss1_integral_partial mu v). Qed.
Print Assumptions C01_gaussian_factor_integrates_to_one_partial.

(* ... and that textbook integral is proved (Proofs/GaussIntAux.v: F(x) = (int_0^x e^{-t^2})^2 + int_0^1 e^{-x^2(1+t^2)}/(1+t^2) dt is constant, = pi/4),
   so the normalised one-dimensional Gaussian factor integrates to one over the whole line without any hypothesis *)
Theorem C01_standard_gaussian_integral :
  is_RInt_gen (fun t => exp (- (t * t) / 2)) (Rbar_locally m_infty) (Rbar_locally p_infty) (sqrt (2 * PI)).
Proof. exact std_gauss_integral_holds. Qed.
Print Assumptions C01_standard_gaussian_integral.

Theorem C01_gaussian_factor_integrates_to_one (mu v : R) : 0 < v ->
  is_RInt_gen (fun x => gauss1 x mu v) (Rbar_locally m_infty) (Rbar_locally p_infty) 1.
Proof. exact (gauss1_integral mu v). Qed.
Print Assumptions C01_gaussian_factor_integrates_to_one.

Example C01_nonvacuous : wf_gmm 2 {| ws := [/4; 3/4]; mus := [[0; 0]; [4; 4]]; vars := [[1; 1]; [2; /2]] |}.
Proof. exact wf_example. Qed.
