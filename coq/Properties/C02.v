(* C02  GMM statistics are responsibility-weighted moments, additive over any split. *)
From Coq Require Import Reals List Permutation.
From BLE Require Import Num.InstR Model.GMM Proofs.RLemmas Proofs.GMMLik Proofs.GMMStats Proofs.GMMStatsZero.
Import ListNotations MR.
Open Scope R_scope.

Theorem C02_responsibilities_positive (m : gmm) (x : list R) (c : comp) : 0 < resp m x c.
Proof. exact (resp_pos m x c). Qed.
Print Assumptions C02_responsibilities_positive.

Theorem C02_responsibilities_sum_to_one (m : gmm) (x : list R) :
  comps m <> [] -> rsum (map (resp m x) (comps m)) = 1.
Proof. exact (resp_sum_one m x). Qed.
Print Assumptions C02_responsibilities_sum_to_one.

Theorem C02_counts_nonneg_and_sum_to_T (nf : nat) (m : gmm) (X : list (list R)) :
  comps m <> [] ->
  Forall (fun n => 0 <= n) (s_n (e_step nf m X)) /\ rsum (s_n (e_step nf m X)) = INR (s_t (e_step nf m X)).
Proof. exact (fun H => conj (n_nonneg nf m X) (n_sum_is_t nf m X H)). Qed.
Print Assumptions C02_counts_nonneg_and_sum_to_T.

Theorem C02_moments (nf : nat) (m : gmm) (X : list (list R)) :
  s_t (e_step nf m X) = length X
  /\ s_n (e_step nf m X) = map (fun c => rsum (map (fun x => resp m x c) X)) (comps m)
  /\ s_px (e_step nf m X) = map (fun c => V.vsumv nf (map (fun x => V.vscale (resp m x c) x) X)) (comps m)
  /\ s_pxx (e_step nf m X) = map (fun c => V.vsumv nf (map (fun x => V.vmul (V.vscale (resp m x c) x) x) X)) (comps m)
  /\ s_ll (e_step nf m X) = rsum (map (ll m) X).
Proof. exact (e_step_moments nf m X). Qed.
Print Assumptions C02_moments.

Theorem C02_split_in_two (nf : nat) (m : gmm) (X1 X2 : list (list R)) :
  rows_ok nf X1 -> rows_ok nf X2 ->
  stats_add (e_step nf m X1) (e_step nf m X2) = Some (e_step nf m (X1 ++ X2)).
Proof. exact (e_step_app nf m X1 X2). Qed.
Print Assumptions C02_split_in_two.

Theorem C02_every_composition (nf : nat) (m : gmm) (B0 : list (list R)) (Bs : list (list (list R))) :
  rows_ok nf B0 -> Forall (rows_ok nf) Bs ->
  stats_reduce (e_step nf m B0) (map (e_step nf m) Bs) = Some (e_step nf m (concat (B0 :: Bs))).
Proof. exact (e_step_concat nf m B0 Bs). Qed.
Print Assumptions C02_every_composition.

Theorem C02_arbitrary_blocks (nf : nat) (m : gmm) (X X' : list (list R)) :
  Permutation X X' -> e_step nf m X = e_step nf m X'.
Proof. exact (e_step_perm nf m X X'). Qed.
Print Assumptions C02_arbitrary_blocks.

Theorem C02_add_refuses_exactly_on_shape_mismatch (a b : stats) :
  stats_add a b = None <-> (s_ng a <> s_ng b \/ s_nf a <> s_nf b).
Proof. exact (stats_add_refuses a b). Qed.
Print Assumptions C02_add_refuses_exactly_on_shape_mismatch.

Theorem C02_add_commutative (a b : stats) : stats_add a b = stats_add b a.
Proof. exact (stats_add_comm a b). Qed.
Print Assumptions C02_add_commutative.

Theorem C02_add_associative (a b c : stats) :
  obind (stats_add b c) (stats_add a) = obind (stats_add a b) (fun ab => stats_add ab c).
Proof. exact (stats_add_assoc a b c). Qed.
Print Assumptions C02_add_associative.

Example C02_nonvacuous : rows_ok 2 [[1; 2]; [3; 4]].
Proof. exact e_step_example_rows. Qed.

(* a fresh (empty) container is the identity of the accumulation: += of any block's statistics into it gives exactly those
   statistics; an empty block of samples contributes nothing *)
Theorem C02_accumulating_into_a_fresh_container (nf : nat) (m : MR.gmm) (X : list (list R)) :
  length (MR.ws m) = length (MR.mus m) -> length (MR.ws m) = length (MR.vars m) -> rows_ok nf X ->
  MR.stats_add (MR.zero_stats (length (MR.ws m)) nf) (MR.e_step nf m X) = Some (MR.e_step nf m X).
Proof. exact (accumulate_into_fresh_container nf m X). Qed.
Print Assumptions C02_accumulating_into_a_fresh_container.

Theorem C02_empty_block_contributes_nothing (nf : nat) (m : MR.gmm) (X : list (list R)) : rows_ok nf X ->
  MR.stats_add (MR.e_step nf m []) (MR.e_step nf m X) = Some (MR.e_step nf m X).
Proof. exact (empty_block_contributes_nothing nf m X). Qed.
Print Assumptions C02_empty_block_contributes_nothing.
