(* C03 placeholder until the EM-monotonicity proof lands; the loop theorems are already here. *)
From Coq Require Import Reals List.
From BLE Require Import Num.InstR Model.GMM Proofs.GMMLik Proofs.GMMFit.
Import ListNotations MR.
Open Scope R_scope.

Theorem C03_fit_iterations tr sw eps cthr nf chunks cap mc mc' n hist :
  fit cap tr sw eps cthr nf chunks mc = Some (mc', n, hist) ->
  (n <= cap)%nat /\ iterate tr sw eps nf chunks n mc = Some (mc', hist) /\ length hist = n
  /\ ((n < cap)%nat -> stops cthr hist = true)
  /\ (forall i, (0 < i < n)%nat -> stops cthr (skipn (n - i) hist) = false).
Proof. exact (fit_iterations tr sw eps cthr nf chunks cap mc mc' n hist). Qed.
Print Assumptions C03_fit_iterations.
