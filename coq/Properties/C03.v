(* C03  GMM ML training never decreases the likelihood and stops by its stated rule. *)
From Coq Require Import Reals List.
From BLE Require Import Num.InstR Model.GMM Proofs.RLemmas Proofs.GMMLik Proofs.GMMStats Proofs.GMMEM Proofs.GMMFit Proofs.GMMRun.
Import ListNotations MR.
Open Scope R_scope.

(* one EM iteration with ANY of the 8 switch settings, no count floor / variance floor active:
   the new model is well-formed, its weights are on the simplex and the average training
   log-likelihood is equal or higher - every number of components, features and samples *)
Theorem C03_em_iteration_monotone (sw : switches) (eps : R) (nf : nat) (X : list (list R)) (mc : machine) :
  X <> [] -> rows_ok nf X -> wf_gmm nf (g mc) -> rsum (ws (g mc)) = 1 -> 0 < eps ->
  length (ws (g mc)) = length (mus (g mc)) -> length (ws (g mc)) = length (vars (g mc)) ->
  let st := e_step nf (g mc) X in
  floors_inactive sw eps st mc ->
  let mc' := ml_m_step sw eps st mc in
  wf_gmm nf (g mc') /\ rsum (ws (g mc')) = 1 /\ avg_ll (g mc) X <= avg_ll (g mc') X.
Proof. exact (em_monotone_ml sw eps nf X mc). Qed.
Print Assumptions C03_em_iteration_monotone.

(* the loop: at most cap iterations; the result is the n-times iterated model; if it stopped before
   the cap the relative-change rule fired at iteration n (n >= 2), and it fired at no earlier iteration *)
Theorem C03_fit_iterations tr sw eps cthr nf chunks cap mc mc' n hist :
  fit cap tr sw eps cthr nf chunks mc = Some (mc', n, hist) ->
  (n <= cap)%nat /\ iterate tr sw eps nf chunks n mc = Some (mc', hist) /\ length hist = n
  /\ ((n < cap)%nat -> stops cthr hist = true)
  /\ (forall i, (0 < i < n)%nat -> stops cthr (skipn (n - i) hist) = false).
Proof. exact (fit_iterations tr sw eps cthr nf chunks cap mc mc' n hist). Qed.
Print Assumptions C03_fit_iterations.

Theorem C03_stop_rule_is_relative_change cthr cur prev rest th : cthr = Some th ->
  (stops cthr (cur :: prev :: rest) = true <-> rel_change prev cur <= th).
Proof. exact (stops_spec cthr cur prev rest th). Qed.
Print Assumptions C03_stop_rule_is_relative_change.

Theorem C03_never_stops_at_first_iteration cthr x : stops cthr [x] = false.
Proof. exact (stops_first cthr x). Qed.
Print Assumptions C03_never_stops_at_first_iteration.

Theorem C03_no_threshold_runs_to_cap tr sw eps nf chunks cap mc mc' n hist :
  fit cap tr sw eps None nf chunks mc = Some (mc', n, hist) -> n = cap.
Proof. exact (fit_no_threshold tr sw eps None nf chunks cap mc mc' n hist eq_refl). Qed.
Print Assumptions C03_no_threshold_runs_to_cap.

(* "no iteration limit": once the rule has fired, any larger cap returns the same result *)
Theorem C03_cap_irrelevant_after_stop tr sw eps cthr nf chunks cap cap' step prev mc hist r :
  (cap <= cap')%nat ->
  fit_loop cap step prev tr sw eps cthr nf chunks mc hist = Some r ->
  (let '(_, n, _) := r in (n < step + cap)%nat) ->
  fit_loop cap' step prev tr sw eps cthr nf chunks mc hist = Some r.
Proof. exact (fit_cap_irrelevant_after_stop tr sw eps cthr nf chunks cap cap' step prev mc hist r). Qed.
Print Assumptions C03_cap_irrelevant_after_stop.

(* a whole training run: as long as no floor is active at any of its iterations, the reported values (each the average
   log-likelihood of the parameters entering that iteration; most recent first in hist) never decrease from one iteration to the
   next, and the returned model scores at or above every one of them - whatever the threshold, the cap and the update switches *)
Theorem C03_reported_value_is_the_entering_models_average_log_likelihood (sw : switches) (eps : R) (nf : nat) (X : list (list R)) (mc mc1 : machine) (cur : R) :
  X <> [] -> em_iter ML sw eps nf [X] mc = Some (mc1, cur) ->
  mc1 = ml_m_step sw eps (e_step nf (g mc) X) mc /\ cur = avg_ll (g mc) X.
Proof. exact (reported_is_avg_ll sw eps nf X mc mc1 cur). Qed.
Print Assumptions C03_reported_value_is_the_entering_models_average_log_likelihood.

Theorem C03_training_run_never_lowers_the_likelihood (sw : switches) (eps : R) (cthr : option R) (nf cap : nat) (X : list (list R))
    (mc mc' : machine) (n : nat) (hist : list R) :
  X <> [] -> GMMStats.rows_ok nf X -> 0 < eps ->
  wf_gmm nf (g mc) -> rsum (ws (g mc)) = 1 ->
  length (ws (g mc)) = length (mus (g mc)) -> length (ws (g mc)) = length (vars (g mc)) ->
  fit cap ML sw eps cthr nf [X] mc = Some (mc', n, hist) ->
  inactive_along sw eps nf X n mc ->
  (forall i, (S i < n)%nat -> nth (S i) hist 0 <= nth i hist 0)
  /\ (forall i, (i < n)%nat -> nth i hist 0 <= avg_ll (g mc') X)
  /\ wf_gmm nf (g mc').
Proof. exact (ml_fit_monotone sw eps cthr nf cap X mc mc' n hist). Qed.
Print Assumptions C03_training_run_never_lowers_the_likelihood.

Example C03_nonvacuous : wf_gmm 2 {| ws := [/4; 3/4]; mus := [[0; 0]; [4; 4]]; vars := [[1; 1]; [2; /2]] |}
                        /\ rsum [/4; 3/4] = 1.
Proof. split. exact wf_example. simpl. field. Qed.
