(* C04  Array training is independent of chunking, task order and worker isolation. *)
From Coq Require Import Reals List.
From Coq Require String.
From BLE Require Import Num.InstR Model.GMM Model.KMeans Generated.Facts
     Model.FA Proofs.RLemmas Proofs.GMMLik Proofs.GMMStats Proofs.KMeansR Proofs.Chunks Proofs.FAEnroll Proofs.FAAcc Proofs.FactsDefs Proofs.Sched.
Import ListNotations.
Open Scope R_scope.

(* ---- chunking: any composition of the rows into blocks trains the same model, with the same reported
        values and the same number of iterations (the result triple of fit contains all three) *)
Theorem C04_gmm_fit_independent_of_row_chunking cap tr sw eps cthr nf (B0 : list (list R)) (Bs : list (list (list R))) mc :
  GMMStats.rows_ok nf B0 -> Forall (GMMStats.rows_ok nf) Bs ->
  MR.fit cap tr sw eps cthr nf (B0 :: Bs) mc = MR.fit cap tr sw eps cthr nf [concat (B0 :: Bs)] mc.
Proof. exact (gmm_fit_chunks cap tr sw eps cthr nf B0 Bs mc). Qed.
Print Assumptions C04_gmm_fit_independent_of_row_chunking.

Theorem C04_kmeans_fit_independent_of_row_chunking cap cthr nf (B0 : list (list R)) (Bs : list (list (list R))) cents :
  KMeansR.rows_ok nf B0 -> Forall (KMeansR.rows_ok nf) Bs ->
  KR.fit cap cthr nf (B0 :: Bs) cents = KR.fit cap cthr nf [concat (B0 :: Bs)] cents.
Proof. exact (kmeans_fit_chunks cap cthr nf B0 Bs cents). Qed.
Print Assumptions C04_kmeans_fit_independent_of_row_chunking.

Theorem C04_kmeans_variances_weights_independent_of_chunking (nf : nat) (cents : list (list R)) (chunks : list (list (list R))) :
  Forall (KMeansR.rows_ok nf) chunks -> KR.var_weights nf cents chunks = KR.var_weights nf cents [concat chunks].
Proof. exact (var_weights_chunk_independent nf cents chunks). Qed.
Print Assumptions C04_kmeans_variances_weights_independent_of_chunking.

(* ISV / JFA from labelled arrays: the Dask branch computes the accumulators per class and adds them
   (reduce_iadd); that equals the accumulators of the in-memory loop over all classes, for any split of the classes *)
Theorem C04_fa_accumulators_additive_over_classes inv (C D rU rV : nat) (u : FR.ubm) (F : FR.fa)
        (cl1 cl2 : list (list FR.gstat)) (ys1 ys2 zs1 zs2 zf1 zf2 : list (option (list R))) :
  ubm_ok C D u -> fa_ok C D rU rV F ->
  (forall A, length (inv A) = rU /\ Forall (fun r => length r = rU) (inv A)) ->
  (forall A, length (inv A) = rV /\ Forall (fun r => length r = rV) (inv A)) ->
  classes_ok C D cl1 -> classes_ok C D cl2 ->
  length ys1 = length cl1 -> length zs1 = length cl1 -> length zf1 = length cl1 ->
  length ys2 = length cl2 -> length zs2 = length cl2 -> length zf2 = length cl2 ->
  FR.acc_u inv rU D u F (cl1 ++ cl2) (ys1 ++ ys2) (zs1 ++ zs2) (zf1 ++ zf2)
  = acc_w_add (FR.acc_u inv rU D u F cl1 ys1 zs1 zf1) (FR.acc_u inv rU D u F cl2 ys2 zs2 zf2)
  /\ FR.acc_v inv rU rV D u F (cl1 ++ cl2) = acc_w_add (FR.acc_v inv rU rV D u F cl1) (FR.acc_v inv rU rV D u F cl2).
Proof.
  intros Hu HF H1 H2 Hc1 Hc2 L1 L2 L3 L4 L5 L6. split.
  - exact (acc_u_app inv C D rU rV u F Hu HF H1 H2 cl1 cl2 ys1 ys2 zs1 zs2 zf1 zf2 Hc1 Hc2 L1 L2 L3 L4 L5 L6).
  - exact (acc_v_app inv C D rU rV u F Hu HF H1 H2 cl1 cl2 Hc1 Hc2).
Qed.
Print Assumptions C04_fa_accumulators_additive_over_classes.

(* ---- task order: every valid execution order of the task graph computes the same values *)
Theorem C04_any_valid_task_order (V : Type) (dflt : V) (g : graph V) (sched : list nat) :
  wf V g -> valid V dflt g (empty V) sched ->
  forall k, In k sched -> exec V dflt g sched k = Some (nth k (den V dflt g) dflt).
Proof. exact (exec_any_order V dflt g sched). Qed.
Print Assumptions C04_any_valid_task_order.

(* the graphs the trainers build: one task per block, one reducing/M-step task that depends on all of them;
   whatever the order, the reducer sees the block results in block order, and starts after every block task *)
Theorem C04_star_graph_result (V : Type) (dflt : V) (blocks : list (list V -> V)) (reduce : list V -> V) (sched : list nat) :
  valid V dflt (star V blocks reduce) (empty V) sched -> In (length blocks) sched ->
  exec V dflt (star V blocks reduce) sched (length blocks) = Some (reduce (map (fun f => f []) blocks)).
Proof. exact (star_result V dflt blocks reduce sched). Qed.
Print Assumptions C04_star_graph_result.

Theorem C04_readers_before_the_writer (V : Type) (dflt : V) (blocks : list (list V -> V)) (reduce : list V -> V) (pre post : list nat) :
  valid V dflt (star V blocks reduce) (empty V) (pre ++ length blocks :: post) ->
  forall i, (i < length blocks)%nat -> In i pre.
Proof. exact (star_readers_before_writer V dflt blocks reduce pre post). Qed.
Print Assumptions C04_readers_before_the_writer.

(* ---- isolation: a worker mutating a serialised copy + copy-back of the listed attributes gives the
        caller the same machine as shared-memory execution iff every written attribute is copied back *)
Theorem C04_isolated_equals_shared (Val : Type) (caller : state Val) (writes : list (String.string * Val)) (copyback : list String.string) :
  incl_b (map fst writes) copyback = true ->
  forall a, after_isolated Val caller writes copyback a = after_shared Val caller writes a.
Proof. exact (isolated_eq_shared Val caller writes copyback). Qed.
Print Assumptions C04_isolated_equals_shared.

Theorem C04_uncopied_write_is_lost_under_isolation (Val : Type) (caller : state Val) (a : String.string) (v : Val) (copyback : list String.string) :
  existsb (String.eqb a) copyback = false ->
  after_isolated Val caller [(a, v)] copyback a = caller a /\ after_shared Val caller [(a, v)] a = v.
Proof. exact (isolated_loses_uncopied Val caller a v copyback). Qed.
Print Assumptions C04_uncopied_write_is_lost_under_isolation.

(* ---- the inclusion holds of the attribute lists extracted from /repo/src ON THIS RUN *)
Theorem C04_generated_copyback_lists_cover_the_mstep_writes :
  extraction_error = false /\ gmm_ml_copyback_ok = true /\ gmm_map_copyback_ok = true /\ ivector_copyback_ok = true
  /\ ml_mstep_writes <> [] /\ map_mstep_writes <> [] /\ ivector_mstep_writes <> [].
Proof. exact generated_copyback_obligations. Qed.
Print Assumptions C04_generated_copyback_lists_cover_the_mstep_writes.
