(* C05  MAP adaptation interpolates between the prior model and the data by relevance. *)
From Coq Require Import Reals List.
From BLE Require Import Num.InstR Model.GMM Proofs.RLemmas Proofs.GMMLik Proofs.GMMStats Proofs.GMMMap Proofs.GMMMapEM.
Import ListNotations MR.
Open Scope R_scope.

Theorem C05_alpha_is_n_over_n_plus_r (r al n : R) :
  map_alpha1 (Some r) al n = n / (n + r) /\ map_alpha1 None al n = al.
Proof. exact (conj (map_alpha_reynolds r al n) (map_alpha_fixed al n)). Qed.
Print Assumptions C05_alpha_is_n_over_n_plus_r.

Theorem C05_alpha_range (r al n : R) : 0 < r -> 0 <= n -> 0 <= map_alpha1 (Some r) al n < 1.
Proof. exact (map_alpha_range r al n). Qed.
Print Assumptions C05_alpha_range.

Theorem C05_means_blend (eps a n : R) (sx pm : list R) : eps <= n ->
  map_mean1 eps a n sx pm = V.map2 (fun s p => blend a (s / n) p) sx pm.
Proof. exact (map_means_blend eps a n sx pm). Qed.
Print Assumptions C05_means_blend.

Theorem C05_no_evidence_keeps_prior_mean (eps a n : R) (sx pm : list R) : n < eps -> map_mean1 eps a n sx pm = pm.
Proof. exact (map_no_evidence_means eps a n sx pm). Qed.
Print Assumptions C05_no_evidence_keeps_prior_mean.

Theorem C05_fixed_ratio_endpoints (eps n : R) (sx pm : list R) : length sx = length pm ->
  map_mean1 eps 0 n sx pm = pm /\ (eps <= n -> map_mean1 eps 1 n sx pm = map (fun s => s / n) sx).
Proof. exact (fun Hl => conj (map_means_alpha0 eps n sx pm Hl) (fun He => map_means_alpha1 eps n sx pm He Hl)). Qed.
Print Assumptions C05_fixed_ratio_endpoints.

Theorem C05_large_relevance_returns_prior (n e p eps : R) : 0 <= n -> 0 < eps ->
  exists R0, 0 < R0 /\ forall r, R0 < r -> Rabs (blend (map_alpha1 (Some r) 0 n) e p - p) < eps.
Proof. exact (map_large_relevance n e p eps). Qed.
Print Assumptions C05_large_relevance_returns_prior.

Theorem C05_vanishing_relevance_returns_ml (n e p eps : R) : 0 < n -> 0 < eps ->
  exists r0, 0 < r0 /\ forall r, 0 < r < r0 -> Rabs (blend (map_alpha1 (Some r) 0 n) e p - e) < eps.
Proof. exact (map_small_relevance n e p eps). Qed.
Print Assumptions C05_vanishing_relevance_returns_ml.

Theorem C05_weights_blend_nonneg (a n t w0 : R) : 0 <= a <= 1 -> 0 <= n -> 0 < t -> 0 <= w0 ->
  map_w0 a n t w0 = blend a (n / t) w0 /\ 0 <= map_w0 a n t w0.
Proof. exact (fun Ha Hn Ht Hw => conj (map_weights_blend a n t w0) (map_weights_nonneg a n t w0 Ha Hn Ht Hw)). Qed.
Print Assumptions C05_weights_blend_nonneg.

Theorem C05_weights_renormalised_to_one (sq : bool) (sw : switches) (eps : R) (rel : option R) (al : R)
        (prior : gmm) (st : stats) (mc : machine) : upd_ws sw = true ->
  let w0 := V.map3 (fun a n w => map_w0 a n (INR (s_t st)) w) (map_alpha rel al st) (s_n st) (ws prior) in
  rsum w0 <> 0 ->
  rsum (ws (g (map_m_step sq sw eps rel al prior st mc))) = 1.
Proof. exact (map_m_step_weights sq sw eps rel al prior st mc). Qed.
Print Assumptions C05_weights_renormalised_to_one.

(* variances: the statement of C05 (Reynolds eq. 13) holds of the repaired definition (sq = true) *)
Theorem C05_variances_blend_spec (eps a n : R) (sxx pv pm m : list R) : eps <= n ->
  map_var1 true eps a n sxx pv pm m
  = V.map3 (fun s vp mm => blend a (s / n) vp - mm * mm) sxx (V.map2 (fun v p => v + p * p) pv pm) m.
Proof. exact (map_vars_blend eps a n sxx pv pm m). Qed.
Print Assumptions C05_variances_blend_spec.

Theorem C05_no_evidence_keeps_prior_variance_spec (eps a n : R) (sxx pv pm : list R) :
  n < eps -> length pv = length pm -> map_var1 true eps a n sxx pv pm pm = pv.
Proof. exact (map_no_evidence_vars eps a n sxx pv pm). Qed.
Print Assumptions C05_no_evidence_keeps_prior_variance_spec.

(* ... and is refuted of the faithful definition (sq = false = gmm.py today): known finding D2 *)
Theorem C05_no_evidence_variance_faithful_refuted :
  exists eps a n sxx pv pm, n < eps /\ length pv = length pm /\ map_var1 false eps a n sxx pv pm pm <> pv.
Proof. exact map_no_evidence_vars_faithful_refuted. Qed.
Print Assumptions C05_no_evidence_variance_faithful_refuted.

(* means-only adaptation never decreases the relevance-penalised likelihood (every component with evidence) *)
Theorem C05_means_only_monotone (sq : bool) (eps r al : R) (nf : nat) (X : list (list R)) (prior : gmm) (mc : machine) :
  X <> [] -> rows_ok nf X -> wf_gmm nf (g mc) -> 0 < r -> 0 < eps ->
  length (ws (g mc)) = length (mus (g mc)) -> length (ws (g mc)) = length (vars (g mc)) ->
  length (mus prior) = length (ws (g mc)) -> Forall (fun mu0 => length mu0 = nf) (mus prior) ->
  let st := e_step nf (g mc) X in
  Forall (fun n => eps <= n) (s_n st) ->
  let mc' := map_m_step sq means_only eps (Some r) al prior st mc in
  wf_gmm nf (g mc') /\ map_objective r prior (g mc) X <= map_objective r prior (g mc') X.
Proof. exact (map_means_only_monotone sq eps r al nf X prior mc). Qed.
Print Assumptions C05_means_only_monotone.

Example C05_nonvacuous : 0 <= map_alpha1 (Some 4) 0 6 < 1.
Proof. exact map_alpha_example. Qed.
