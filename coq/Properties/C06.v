(* C06  K-means training descends the true distortion and stops by its stated rule. *)
From Coq Require Import Reals List Lra.
From BLE Require Import Num.InstR Model.KMeans Proofs.RLemmas Proofs.KMeansR Proofs.KMeansFit Proofs.KMeansRun.
Import ListNotations KR.
Open Scope R_scope.

(* while every cluster keeps at least one sample an iteration does not increase the distortion *)
Theorem C06_descent (nf : nat) (cents X cents' : list (list R)) (crit : R) :
  cents <> [] -> rows_ok nf X -> rows_ok nf cents ->
  (forall k, (k < length cents)%nat -> members cents k X <> []) ->
  em_iter nf [X] cents = Some (cents', crit) ->
  J cents' X <= J cents X.
Proof. exact (kmeans_descent nf cents X cents' crit). Qed.
Print Assumptions C06_descent.

(* every returned centroid is the mean of the samples nearest to its predecessor (an empty cluster
   keeps its centroid); the reported criterion is the mean squared distance to the nearest of the
   centroids ENTERING the iteration *)
Theorem C06_centroid_is_mean_and_criterion (nf : nat) (cents X cents' : list (list R)) (crit : R) :
  em_iter nf [X] cents = Some (cents', crit) ->
  length cents' = length cents
  /\ crit = J cents X / INR (length X)
  /\ forall k, (k < length cents)%nat ->
       nth k cents' [] = (if Nat.eqb (length (members cents k X)) 0 then nth k cents [] else vmean nf (members cents k X)).
Proof. exact (em_iter_spec nf cents X cents' crit). Qed.
Print Assumptions C06_centroid_is_mean_and_criterion.

Theorem C06_assignment_is_nearest (cents : list (list R)) (x : list R) : cents <> [] ->
  let k := closest cents x in
  (k < length cents)%nat
  /\ (forall j, (j < length cents)%nat -> nth k (dists cents x) 0 <= nth j (dists cents x) 0)
  /\ (forall j, (j < k)%nat -> nth k (dists cents x) 0 < nth j (dists cents x) 0).
Proof. exact (predict_is_argmin cents x). Qed.
Print Assumptions C06_assignment_is_nearest.

Theorem C06_mean_minimises_squared_distance (nf : nat) (M : list (list R)) (c : list R) :
  M <> [] -> rows_ok nf M -> length c = nf ->
  rsum (map (sqdist (vmean nf M)) M) <= rsum (map (sqdist c) M).
Proof. exact (mean_optimal nf M c). Qed.
Print Assumptions C06_mean_minimises_squared_distance.

(* any chunking of the rows gives the same iteration (centroids AND criterion) as the whole array *)
Theorem C06_iteration_chunk_independent (nf : nat) (cents B0 : list (list R)) (Bs : list (list (list R))) :
  rows_ok nf B0 -> Forall (rows_ok nf) Bs ->
  em_iter nf (B0 :: Bs) cents = em_iter nf [concat (B0 :: Bs)] cents.
Proof. exact (em_iter_chunk_independent nf cents B0 Bs). Qed.
Print Assumptions C06_iteration_chunk_independent.

(* the loop: at most cap iterations; the result is the n-times iterated centroid set; if it stopped before the cap the
   relative-change rule fired at iteration n (n >= 2) and at no earlier iteration *)
Theorem C06_fit_iterations cthr nf chunks cap cents cents' n hist :
  fit cap cthr nf chunks cents = Some (cents', n, hist) ->
  (n <= cap)%nat /\ iterate nf chunks n cents = Some (cents', hist) /\ length hist = n
  /\ ((n < cap)%nat -> stops cthr hist = true)
  /\ (forall i, (0 < i < n)%nat -> stops cthr (skipn (n - i) hist) = false).
Proof. exact (fit_iterations cthr nf chunks cap cents cents' n hist). Qed.
Print Assumptions C06_fit_iterations.

Theorem C06_stop_rule_is_relative_change cthr cur prev rest th : cthr = Some th ->
  (stops cthr (cur :: prev :: rest) = true <-> rel_change prev cur <= th).
Proof. exact (stops_spec cthr cur prev rest th). Qed.
Print Assumptions C06_stop_rule_is_relative_change.

(* descent needs no hypothesis on the clusters: an empty cluster keeps its centroid and contributes nothing *)
Theorem C06_descent_unconditional (nf : nat) (cents X cents' : list (list R)) (crit : R) :
  cents <> [] -> rows_ok nf X -> rows_ok nf cents ->
  em_iter nf [X] cents = Some (cents', crit) ->
  J cents' X <= J cents X.
Proof. exact (kmeans_descent_always nf cents X cents' crit). Qed.
Print Assumptions C06_descent_unconditional.

(* a whole training run: the criteria reported by consecutive iterations (most recent first in hist) never increase, and
   the distortion per sample of the returned centroids is at or below every reported criterion *)
Theorem C06_training_run_descends (cthr : option R) (nf cap : nat) (X cents cents' : list (list R)) (n : nat) (hist : list R) :
  X <> [] -> rows_ok nf X -> cents <> [] -> rows_ok nf cents ->
  fit cap cthr nf [X] cents = Some (cents', n, hist) ->
  (forall i, (S i < n)%nat -> nth i hist 0 <= nth (S i) hist 0)
  /\ (forall i, (i < n)%nat -> J cents' X / INR (length X) <= nth i hist 0).
Proof. exact (kmeans_fit_descends cthr nf cap X cents cents' n hist). Qed.
Print Assumptions C06_training_run_descends.

Example C06_nonvacuous : rows_ok 1 [[0]; [1]; [5]] /\ closest [[0]; [5]] [1] = 0%nat.
Proof. split. repeat constructor. unfold closest, dists, sqdist, V.argmin; simpl. unfold V.sqr; unfold_R.
  unfold InstR.ltb. destruct (Rlt_dec _ _) as [H|H]; [exfalso; lra | reflexivity]. Qed.
