(* C07  ISV and JFA enrolment climbs to the joint posterior mode of the latent factors. *)
From Coq Require Import Reals List.
From BLE Require Import Num.InstR Model.FA Proofs.RLemmas Proofs.FAEnroll Proofs.FAEnrollConv.
Import ListNotations FR.
Open Scope R_scope.

Section C07.
Variable inv : list (list R) -> list (list R).
Variables (C D rU rV : nat) (u : ubm) (F : fa) (X : list gstat).
Hypothesis Hu : ubm_ok C D u.
Hypothesis HF : fa_ok C D rU rV F.
Hypothesis HX : Forall (gstat_ok C D) X.
(* contract of np.linalg.inv on the precision matrices enrolment inverts *)
Hypothesis Hinv_x : forall s, In s X -> inv_ok inv rU (xprec rU D u F s).
Hypothesis Hinv_y : inv_ok inv rV (yprec rV D u F (sum_n C X)).

(* each block update is the exact maximiser of the joint log-posterior over its block *)
Theorem C07_z_update_is_block_argmax (y : option (list R)) (xs : list (list R)) (z' : list R) :
  yopt_ok rV y -> length xs = length X -> Forall (fun x => length x = rU) xs -> length z' = (C * D)%nat ->
  logpost D u F X y xs z' <= logpost D u F X y xs (update_z_class D u F X xs y (sum_n C X) (sum_f C D X)).
Proof. exact (z_update_argmax C D rU rV u F X Hu HF HX y xs z'). Qed.

Theorem C07_x_update_is_block_argmax (y : option (list R)) (z : list R) (xs' : list (list R)) :
  yopt_ok rV y -> length z = (C * D)%nat -> length xs' = length X -> Forall (fun x => length x = rU) xs' ->
  logpost D u F X y xs' z <= logpost D u F X y (latent_x_class inv rU D u F (wprod rU D u (fU F)) X (Some z) y) z.
Proof. exact (x_update_argmax inv C D rU rV u F X Hu HF HX Hinv_x y z xs'). Qed.

Theorem C07_y_update_is_block_argmax (xs : list (list R)) (z : list R) (y' : list R) :
  length xs = length X -> Forall (fun x => length x = rU) xs -> length z = (C * D)%nat -> length y' = rV ->
  logpost D u F X (Some y') xs z
  <= logpost D u F X (Some (update_y_class inv rV D u F (wprod rV D u (fV F)) X xs z (sum_n C X) (sum_f C D X))) xs z.
Proof. exact (y_update_argmax inv C D rU rV u F X Hu HF HX Hinv_y xs z y'). Qed.

(* one more enrolment iteration never lowers the joint posterior *)
Theorem C07_isv_enrolment_monotone (k : nat) :
  snd (isv_state inv C D rU u F X k) = isv_enroll inv k rU D u F X
  /\ logpost D u F X None (fst (isv_state inv C D rU u F X k)) (snd (isv_state inv C D rU u F X k))
     <= logpost D u F X None (fst (isv_state inv C D rU u F X (S k))) (snd (isv_state inv C D rU u F X (S k))).
Proof. exact (conj (isv_state_is_enroll inv C D rU u F X Hu k) (isv_enroll_monotone inv C D rU rV u F X Hu HF HX Hinv_x k)). Qed.

Theorem C07_jfa_enrolment_monotone (k : nat) :
  jfa_enroll inv k rU rV D u F X = (snd (fst (jfa_state inv C D rU rV u F X k)), snd (jfa_state inv C D rU rV u F X k))
  /\ (let '(xs, y, z) := jfa_state inv C D rU rV u F X k in
      let '(xs', y', z') := jfa_state inv C D rU rV u F X (S k) in
      logpost D u F X (Some y) xs z <= logpost D u F X (Some y') xs' z').
Proof. exact (conj (jfa_state_is_enroll inv C D rU rV u F X Hu k) (jfa_enroll_monotone inv C D rU rV u F X Hu HF HX Hinv_x Hinv_y k)). Qed.

(* a point every block update leaves unchanged is THE joint posterior mode: global maximum, unique *)
Theorem C07_fixed_point_is_the_unique_mode (xs : list (list R)) (y z : list R) :
  length xs = length X -> Forall (fun x => length x = rU) xs -> length y = rV -> length z = (C * D)%nat ->
  update_y_class inv rV D u F (wprod rV D u (fV F)) X xs z (sum_n C X) (sum_f C D X) = y ->
  latent_x_class inv rU D u F (wprod rU D u (fU F)) X (Some z) (Some y) = xs ->
  update_z_class D u F X xs (Some y) (sum_n C X) (sum_f C D X) = z ->
  forall xs2 y2 z2, length xs2 = length X -> Forall (fun x => length x = rU) xs2 -> length y2 = rV -> length z2 = (C * D)%nat ->
    logpost D u F X (Some y2) xs2 z2 <= logpost D u F X (Some y) xs z
    /\ (logpost D u F X (Some y2) xs2 z2 = logpost D u F X (Some y) xs z -> xs2 = xs /\ y2 = y /\ z2 = z).
Proof. exact (jfa_fixed_point_is_mode inv C D rU rV u F X Hu HF HX Hinv_x Hinv_y xs y z). Qed.

(* Last clause of the property: the unique joint posterior mode EXISTS and the enrolment iterates converge to it (in squared Euclidean
   distance over all factors), for JFA and for ISV; in particular the factors enrolment returns converge to the mode's. *)
Theorem C07_jfa_enrolment_converges_to_the_unique_mode :
  exists xs y z,
    st_ok C D rU rV X (xs, y, z)
    /\ (forall xs2 y2 z2, st_ok C D rU rV X (xs2, y2, z2) ->
          logpost D u F X (Some y2) xs2 z2 <= logpost D u F X (Some y) xs z
          /\ (logpost D u F X (Some y2) xs2 z2 = logpost D u F X (Some y) xs z -> xs2 = xs /\ y2 = y /\ z2 = z))
    /\ (forall eps, 0 < eps -> exists K, forall k, (K <= k)%nat ->
          jfa_dist2 (jfa_state inv C D rU rV u F X k) (xs, y, z) < eps).
Proof. exact (jfa_enroll_converges inv C D rU rV u F X Hu HF HX Hinv_x Hinv_y). Qed.

Theorem C07_isv_enrolment_converges_to_the_unique_mode :
  exists xs z,
    length xs = length X /\ Forall (fun x => length x = rU) xs /\ length z = (C * D)%nat
    /\ (forall xs2 z2, length xs2 = length X -> Forall (fun x => length x = rU) xs2 -> length z2 = (C * D)%nat ->
          logpost D u F X None xs2 z2 <= logpost D u F X None xs z
          /\ (logpost D u F X None xs2 z2 = logpost D u F X None xs z -> xs2 = xs /\ z2 = z))
    /\ (forall eps, 0 < eps -> exists K, forall k, (K <= k)%nat ->
          isv_dist2 (isv_state inv C D rU u F X k) (xs, z) < eps).
Proof. exact (isv_enroll_converges inv C D rU rV u F X Hu HF HX Hinv_x). Qed.

Theorem C07_returned_isv_factors_converge_to_the_mode :
  exists xs z,
    length xs = length X /\ Forall (fun x => length x = rU) xs /\ length z = (C * D)%nat
    /\ (forall xs2 z2, length xs2 = length X -> Forall (fun x => length x = rU) xs2 -> length z2 = (C * D)%nat ->
          logpost D u F X None xs2 z2 <= logpost D u F X None xs z)
    /\ (forall eps, 0 < eps -> exists K, forall k, (K <= k)%nat -> sqd (isv_enroll inv k rU D u F X) z < eps).
Proof. exact (isv_enroll_returned_converges inv C D rU rV u F X Hu HF HX Hinv_x). Qed.

Theorem C07_returned_jfa_factors_converge_to_the_mode :
  exists xs y z,
    st_ok C D rU rV X (xs, y, z)
    /\ (forall xs2 y2 z2, st_ok C D rU rV X (xs2, y2, z2) -> logpost D u F X (Some y2) xs2 z2 <= logpost D u F X (Some y) xs z)
    /\ (forall eps, 0 < eps -> exists K, forall k, (K <= k)%nat ->
          sqd (fst (jfa_enroll inv k rU rV D u F X)) y + sqd (snd (jfa_enroll inv k rU rV D u F X)) z < eps).
Proof. exact (jfa_enroll_returned_converges inv C D rU rV u F X Hu HF HX Hinv_x Hinv_y). Qed.
End C07.
Print Assumptions C07_z_update_is_block_argmax.
Print Assumptions C07_x_update_is_block_argmax.
Print Assumptions C07_y_update_is_block_argmax.
Print Assumptions C07_isv_enrolment_monotone.
Print Assumptions C07_jfa_enrolment_monotone.
Print Assumptions C07_fixed_point_is_the_unique_mode.
Print Assumptions C07_jfa_enrolment_converges_to_the_unique_mode.
Print Assumptions C07_isv_enrolment_converges_to_the_unique_mode.
Print Assumptions C07_returned_isv_factors_converge_to_the_mode.
Print Assumptions C07_returned_jfa_factors_converge_to_the_mode.
