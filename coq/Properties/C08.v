(* C08  Linear scoring is the exact first-order log-likelihood ratio around the UBM. *)
From Coq Require Import Reals List.
From Coquelicot Require Import Coquelicot.
From BLE Require Import Num.InstR Model.LinScore Model.GMM Proofs.RLemmas Proofs.GMMLik Proofs.GMMStats Proofs.LinScoreR.
Import ListNotations LR.
Open Scope R_scope.

Theorem C08_score_formula (eps : R) (C D : nat) (model umu uvar off : list (list R)) (s : tstat) :
  shape_ok C D model -> shape_ok C D umu -> shape_ok C D uvar -> shape_ok C D off -> tstat_ok C D s ->
  score1 eps false model umu uvar off s = score_spec C D model umu uvar off s.
Proof. exact (score_formula eps C D model umu uvar off s). Qed.
Print Assumptions C08_score_formula.

Theorem C08_frame_normalisation (eps : R) (model umu uvar off : list (list R)) (s : tstat) :
  (eps < Rabs (ts_t s) -> score1 eps true model umu uvar off s = score1 eps false model umu uvar off s / ts_t s)
  /\ (Rabs (ts_t s) <= eps -> score1 eps true model umu uvar off s = 0).
Proof. exact (conj (score_normalised eps model umu uvar off s) (score_zero_frames eps model umu uvar off s)). Qed.
Print Assumptions C08_frame_normalisation.

Theorem C08_ubm_scores_zero (eps : R) (norm : bool) (umu uvar off : list (list R)) (s : tstat) :
  score1 eps norm umu umu uvar off s = 0.
Proof. exact (score_ubm_zero eps norm umu uvar off s). Qed.
Print Assumptions C08_ubm_scores_zero.

Theorem C08_linear_in_model_offset (eps lam : R) (norm : bool) (C D : nat) (model umu uvar off : list (list R)) (s : tstat) :
  shape_ok C D model -> shape_ok C D umu -> shape_ok C D uvar -> shape_ok C D off -> tstat_ok C D s ->
  score1 eps norm (along lam umu model) umu uvar off s = lam * score1 eps norm model umu uvar off s.
Proof. exact (score_linear eps lam norm C D model umu uvar off s). Qed.
Print Assumptions C08_linear_in_model_offset.

Theorem C08_additive_over_statistics (eps : R) (C D : nat) (model umu uvar off : list (list R)) (s1 s2 : tstat) :
  shape_ok C D model -> shape_ok C D umu -> shape_ok C D uvar -> shape_ok C D off -> tstat_ok C D s1 -> tstat_ok C D s2 ->
  score1 eps false model umu uvar off (tadd s1 s2)
  = score1 eps false model umu uvar off s1 + score1 eps false model umu uvar off s2.
Proof. exact (score_additive eps C D model umu uvar off s1 s2). Qed.
Print Assumptions C08_additive_over_statistics.

Theorem C08_one_row_per_model_one_column_per_test (eps : R) (norm : bool) (models : list (list (list R))) (umu uvar : list (list R))
        (stats : list tstat) (o : offsets) :
  length (linear_scoring eps norm models umu uvar stats o) = length models
  /\ List.Forall (fun row => length row = length stats) (linear_scoring eps norm models umu uvar stats o).
Proof. exact (score_shape eps norm models umu uvar stats o). Qed.
Print Assumptions C08_one_row_per_model_one_column_per_test.

(* the un-normalised score with zero channel offset IS the derivative at 0 of the data's UBM
   log-likelihood as the UBM means are moved towards the model: any numbers of components, features, samples *)
Theorem C08_score_is_derivative (eps : R) (nf : nat) (m : MR.gmm) (model : list (list R)) (X : list (list R)) :
  wf_gmm nf m -> GMMStats.rows_ok nf X ->
  length (MR.ws m) = length (MR.mus m) -> length (MR.ws m) = length (MR.vars m) ->
  shape_ok (length (MR.mus m)) nf model ->
  is_derive (fun e => rsum (map (MR.ll (shift_means e m model)) X)) 0
            (score1 eps false model (MR.mus m) (MR.vars m) (V.mzero (length (MR.mus m)) nf) (tstat_of (MR.e_step nf m X))).
Proof. exact (score_is_derivative eps nf m model X). Qed.
Print Assumptions C08_score_is_derivative.
