(* C09  Each JFA training phase is exact EM: its marginal likelihood never decreases.
   Proved here: the D phase in full (any numbers of components, features, classes, sessions) and its scalar core; the V phase and the
   U phase for subspaces of ANY rank (the code's e_step_v / m_step_v and e_step_u / m_step_u; ln det of the posterior precisions through a
   Cholesky factor supplied by an oracle under a contract, no determinant theory); the rank-1 theorems (solver used on 1x1 matrices
   only, closed-form EM step) are kept as the special case. *)
From Coq Require Import Reals List.
From BLE Require Import Num.InstR Model.FA Proofs.RLemmas Proofs.FAEnroll Proofs.JFATrain Proofs.JFARank1 Proofs.JFARank1U Proofs.JFAGeneral.
Import ListNotations FR.
Open Scope R_scope.

Theorem C09_scalar_factor_analysis_em_monotone (d s : R) (ng : list (R * R)) :
  0 < s -> Forall (fun p => 0 <= fst p) ng ->
  0 < rsum (map (fun p => fst p * (/ (1 + d * d * fst p / s) + ((d / s) * snd p / (1 + d * d * fst p / s)) * ((d / s) * snd p / (1 + d * d * fst p / s)))) ng) ->
  rsum (map (fun p => d_cell d s (fst p) (snd p)) ng)
  <= rsum (map (fun p => d_cell (em_d_scalar d s ng) s (fst p) (snd p)) ng).
Proof. exact (scalar_d_monotone d s ng). Qed.
Print Assumptions C09_scalar_factor_analysis_em_monotone.

Theorem C09_phase_D_iteration_monotone (C D rU rV : nat) (u : ubm) (F : fa)
        (classes : list (list gstat)) (xss : list (list (list R))) (ys : list (option (list R))) :
  shapes_ok C D rU rV u F classes xss ys ->
  Forall (fun a1 => 0 < a1) (fst (acc_d rU D u F classes xss ys)) ->
  let F' := jfa_iter_d rU D u classes xss ys F in
  fU F' = fU F /\ fV F' = fV F /\ length (fD F') = (C * D)%nat
  /\ marginal_d D u F (fD F) classes xss ys <= marginal_d D u F (fD F') classes xss ys.
Proof. exact (phase_d_monotone C D rU rV u F classes xss ys). Qed.
Print Assumptions C09_phase_D_iteration_monotone.

(* The V phase with a rank-1 speaker subspace: the code's iteration (e_step_v with x = 0, z = 0, then m_step_v with the
   external inverse used only on 1x1 matrices) IS the exact EM step on the column V, and it never decreases the phase
   marginal likelihood  sum_i [ b_i^2 / (2 L_i) - 1/2 ln L_i ]  (the scalar speaker factor integrated out). *)
Theorem C09_phase_V_rank1_iteration_is_the_em_step (inv : list (list R) -> list (list R)) (C D rU : nat) (u : ubm) (F : fa)
    (classes : list (list gstat)) :
  inv1_ok inv -> ubm_ok C D u -> fa_ok C D rU 1 F -> Forall (Forall (gstat_ok C D)) classes ->
  Forall (fun A1c => nth 0 (nth 0 A1c []) 0 <> 0) (fst (acc_v inv rU 1 D u F classes)) ->
  vcol (fV (jfa_iter_v inv rU 1 D u classes F)) = em_v_step (vcol (fV F)) (vsuper u) (map (class_NG D u) classes).
Proof. exact (jfa_iter_v_rank1 inv C D rU u F classes). Qed.
Print Assumptions C09_phase_V_rank1_iteration_is_the_em_step.

Theorem C09_phase_V_rank1_iteration_monotone (inv : list (list R) -> list (list R)) (C D rU : nat) (u : ubm) (F : fa)
    (classes : list (list gstat)) :
  inv1_ok inv -> ubm_ok C D u -> fa_ok C D rU 1 F -> Forall (Forall (gstat_ok C D)) classes ->
  Forall (fun A1c => 0 < nth 0 (nth 0 A1c []) 0) (fst (acc_v inv rU 1 D u F classes)) ->
  marginal_v D u (fV F) classes <= marginal_v D u (fV (jfa_iter_v inv rU 1 D u classes F)) classes.
Proof. exact (phase_v_monotone_rank1 inv C D rU u F classes). Qed.
Print Assumptions C09_phase_V_rank1_iteration_monotone.

(* The U phase with a rank-1 session subspace (speaker factors y held fixed, z = 0 as in the JFA trainer): the code's
   iteration is the exact EM step on the column U, leaves V and D alone and never decreases the phase marginal likelihood
   (the scalar channel factor of every session integrated out). *)
Theorem C09_phase_U_rank1_iteration_is_the_em_step (inv : list (list R) -> list (list R)) (C D rV : nat) (u : ubm) (F : fa)
    (classes : list (list gstat)) (ys : list (option (list R))) :
  inv1_ok inv -> ubm_ok C D u -> fa_ok C D 1 rV F -> Forall (Forall (gstat_ok C D)) classes ->
  length ys = length classes -> Forall (yopt_ok rV) ys ->
  Forall (fun A1c => nth 0 (nth 0 A1c []) 0 <> 0) (fst (acc_u_jfa inv D u F classes ys)) ->
  vcol (fU (jfa_iter_u inv 1 D u classes ys F)) = em_v_step (vcol (fU F)) (vsuper u) (sessions_NG D u F classes ys).
Proof. exact (jfa_iter_u_rank1 inv C D rV u F classes ys). Qed.
Print Assumptions C09_phase_U_rank1_iteration_is_the_em_step.

Theorem C09_phase_U_rank1_iteration_monotone (inv : list (list R) -> list (list R)) (C D rV : nat) (u : ubm) (F : fa)
    (classes : list (list gstat)) (ys : list (option (list R))) :
  inv1_ok inv -> ubm_ok C D u -> fa_ok C D 1 rV F -> Forall (Forall (gstat_ok C D)) classes ->
  length ys = length classes -> Forall (yopt_ok rV) ys ->
  Forall (fun A1c => 0 < nth 0 (nth 0 A1c []) 0) (fst (acc_u_jfa inv D u F classes ys)) ->
  let F' := jfa_iter_u inv 1 D u classes ys F in
  fV F' = fV F /\ fD F' = fD F
  /\ marginal_u D u F (fU F) classes ys <= marginal_u D u F (fU F') classes ys.
Proof. exact (phase_u_monotone_rank1 inv C D rV u F classes ys). Qed.
Print Assumptions C09_phase_U_rank1_iteration_monotone.

(* Any rank of the speaker subspace V: one V-phase iteration never lowers the phase marginal of the training statistics
     sum_i [ 1/2 b_i' P_i^-1 b_i - 1/2 ln det P_i ],  P_i = I + sum_c N_ic V_c' S_c^-1 V_c,  b_i = V' S^-1 (F_i - N_i m)   (classes i),
   and leaves U and D alone. *)
Theorem C09_phase_V_iteration_monotone_any_rank (inv chol : list (list R) -> list (list R)) (C D rU rV : nat) (u : ubm) (F : fa) (classes : list (list gstat)) :
  ubm_ok C D u -> fa_ok C D rU rV F -> Forall (Forall (gstat_ok C D)) classes ->
  v_oracles_ok inv chol rV D u F classes ->
  (forall c, (c < C)%nat -> inv_ok inv rV (nth c (fst (acc_v inv rU rV D u F classes)) [])) ->
  let F' := jfa_iter_v inv rU rV D u classes F in
  v_oracles_ok inv chol rV D u F' classes ->
  fU F' = fU F /\ fD F' = fD F
  /\ marginal_v_t inv chol rV D u F classes <= marginal_v_t inv chol rV D u F' classes.
Proof. exact (phase_v_monotone_general inv chol C D rU rV u F classes). Qed.
Print Assumptions C09_phase_V_iteration_monotone_any_rank.

(* Any rank of the channel subspace U: one U-phase iteration (speaker factors ys held at their point estimates, z = 0) never lowers the phase
   marginal over the sessions, statistics centred by m + V y_i, and leaves V and D alone. *)
Theorem C09_phase_U_iteration_monotone_any_rank (inv chol : list (list R) -> list (list R)) (C D rU rV : nat) (u : ubm) (F : fa)
    (classes : list (list gstat)) (ys : list (option (list R))) :
  ubm_ok C D u -> fa_ok C D rU rV F -> Forall (Forall (gstat_ok C D)) classes ->
  length ys = length classes -> Forall (yopt_ok rV) ys ->
  u_oracles_ok inv chol rU D u F classes ->
  (forall c, (c < C)%nat ->
     inv_ok inv rU (nth c (fst (acc_u inv rU D u F classes ys (map (fun _ => @None (list R)) classes)
                                      (map (fun _ => Some (V.vzero (length (msuper u)))) classes))) [])) ->
  let F' := jfa_iter_u inv rU D u classes ys F in
  u_oracles_ok inv chol rU D u F' classes ->
  fV F' = fV F /\ fD F' = fD F
  /\ marginal_u_t inv chol rU D u F F classes ys <= marginal_u_t inv chol rU D u F F' classes ys.
Proof. exact (phase_u_monotone_general inv chol C D rU rV u F classes ys). Qed.
Print Assumptions C09_phase_U_iteration_monotone_any_rank.
